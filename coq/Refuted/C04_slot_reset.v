(* C04 - regression record of the repaired defect (repo commit 32c20e0 "covar_errors assigns each component its own
   covariance entries"): before the repair fitting.covar_errors had
       for i in range(params['components'].value):
           prefix = "c{0}_".format(i)
           j = 0                                          # <- restarted for EVERY component
           for p in ['amp', 'xo', 'yo', 'sx', 'sy', 'theta']:
               if params[prefix + p].vary:
                   params[prefix + p].stderr = onesigma[j]
                   j += 1
   so every component of an island received the 1-sigma entries of component 0.
   Self-contained: frozen copies of the PRE-FIX leaves (stderr_index_restarts = true, the two order lists) and of the
   model fragment slots_of / slots / assign of Model/FitModel.v (which imports Gen.Gauss); no import from the project.
   Statement refuted = C04_slot_own:
       nth_error (slots jacobian_order 0 vs) k = Some ip -> nth_error (stderr_slots vs) k = Some (ip, k).
   Replay on the old code: covar_errors on an island with two components, all six parameters free in both:
   c1_amp.stderr == c0_amp.stderr (entry 0 of onesigma) instead of entry 6. *)
From Coq Require Import List Arith.
Import ListNotations.

(* frozen leaves, as the translator read them from the pre-fix fitting.py *)
Definition jacobian_order : list nat := [0; 1; 2; 3; 4; 5]%nat.
Definition stderr_order : list nat := [0; 1; 2; 3; 4; 5]%nat.
Definition stderr_index_restarts_old : bool := true.

(* model fragment (copy of Model/FitModel.v) *)
Definition slots_of (order : list nat) (i : nat) (v : list bool) : list (nat * nat) :=
  map (pair i) (filter (fun p => nth p v false) order).
Fixpoint slots (order : list nat) (i : nat) (vs : list (list bool)) : list (nat * nat) :=
  match vs with
  | [] => []
  | v :: r => slots_of order i v ++ slots order (S i) r
  end.
Fixpoint assign (restart : bool) (order : list nat) (i j : nat) (vs : list (list bool))
  : list ((nat * nat) * nat) :=
  match vs with
  | [] => []
  | v :: r => let j0 := if restart then 0%nat else j in
              let here := slots_of order i v in
              combine here (seq j0 (length here)) ++ assign restart order (S i) (j0 + length here) r
  end.
Definition stderr_slots_old (vs : list (list bool)) := assign stderr_index_restarts_old stderr_order 0 0 vs.

Definition all_free : list bool := [true; true; true; true; true; true].

(* two components, everything free: free parameter k = 6 is (component 1, amp); it is handed entry 0 *)
Theorem C04_slot_reset_refuted : exists vs k ip,
  nth_error (slots jacobian_order 0 vs) k = Some ip /\ nth_error (stderr_slots_old vs) k <> Some (ip, k).
Proof.
  exists [all_free; all_free], 6, (1, 0). split; [reflexivity|]. vm_compute. discriminate.
Qed.

Example C04_slot_reset_witness_values :
  nth_error (stderr_slots_old [all_free; all_free]) 6 = Some ((1, 0), 0) /\
  nth_error (stderr_slots_old [all_free; all_free]) 0 = Some ((0, 0), 0) /\
  nth_error (assign false stderr_order 0 0 [all_free; all_free]) 6 = Some ((1, 0), 6).
Proof. repeat split; reflexivity. Qed.

(* the example of Props/C04.v (second component: amp and theta free) under the old leaf *)
Example C04_slot_reset_example :
  stderr_slots_old [[true; false; false; true; false; false]; [true; false; false; false; false; true]]
  = [((0, 0), 0); ((0, 3), 1); ((1, 0), 0); ((1, 5), 1)].
Proof. reflexivity. Qed.

Print Assumptions C04_slot_reset_refuted.
