(* C14 - column renaming in AeRes.load_sources, FROZEN REGRESSION RECORD of the pre-repair leaf.

   Before the repair ("fix: load_sources takes the requested columns out before renaming") the
   columns were renamed one by one with table.rename_column(old, new).  For that shape the statement

     for every table (unique column names) that has the six user-named columns, load_sources
     succeeds and the field of each parameter holds the user's column

   (now proved as C14_rename for the repaired shape) is refuted: when the table also has a column with
   the catalogue name (an Aegean catalogue has both peak_flux and int_flux; AeRes --peakcol int_flux),
   astropy raises KeyError("Column peak_flux already exists").  The same input is a file case of the
   harness on every run.  This file carries its own copy of the old model and pairing (no reference
   to Gen/ or Model/, which follow the tree). *)
From Coq Require Import List String Bool.
Import ListNotations.
Open Scope string_scope.

Definition table := list (string * nat).
Definition has (t : table) (c : string) : bool := existsb (fun e => String.eqb (fst e) c) t.
Definition col (t : table) (c : string) : option nat := option_map snd (find (fun e => String.eqb (fst e) c) t).
Definition rename_column (t : table) (old new : string) : option table :=
  if negb (has t old) then None
  else if String.eqb old new then Some t
  else if has t new then None
  else Some (map (fun e => if String.eqb (fst e) old then (new, snd e) else e) t).
Fixpoint renames (t : table) (pairs : list (string * string)) : option table :=
  match pairs with
  | [] => Some t
  | (old, new) :: r => match rename_column t old new with Some t' => renames t' r | None => None end
  end.
Definition rename_from := ["ra_col"; "dec_col"; "peak_col"; "a_col"; "b_col"; "pa_col"].
Definition rename_to := ["ra"; "dec"; "peak_flux"; "a"; "b"; "pa"].
Definition load_table (colmap : string -> string) (t : table) : option table :=
  renames t (combine (map colmap rename_from) rename_to).

Definition loads_right (colmap : string -> string) (t : table) : Prop :=
  exists t', load_table colmap t = Some t' /\
             forall p f, In (p, f) (combine rename_from rename_to) -> col t' f = col t (colmap p).

(* an Aegean-like catalogue; the user asks for the integrated flux as the peak *)
Definition cat : table := [("ra", 1); ("dec", 2); ("peak_flux", 3); ("int_flux", 4); ("a", 5); ("b", 6); ("pa", 7)].
Definition colmap (p : string) : string :=
  if String.eqb p "peak_col" then "int_flux" else
  if String.eqb p "ra_col" then "ra" else if String.eqb p "dec_col" then "dec" else
  if String.eqb p "a_col" then "a" else if String.eqb p "b_col" then "b" else "pa".

Lemma C14_rename_total_refuted :
  exists colmap t, NoDup (map fst t) /\ (forall p, In p rename_from -> has t (colmap p) = true) /\ ~ loads_right colmap t.
Proof.
  exists colmap, cat. split; [|split].
  - repeat constructor; cbn; intuition discriminate.
  - intros p Hp. cbn in Hp. intuition (subst; reflexivity).
  - intros (t' & H & _). vm_compute in H. discriminate.
Qed.

(* the same user request on a table WITHOUT a peak_flux column works (so the model is not vacuous) *)
Example C14_rename_without_collision :
  load_table colmap [("ra", 1); ("dec", 2); ("int_flux", 4); ("a", 5); ("b", 6); ("pa", 7)]
  = Some [("ra", 1); ("dec", 2); ("peak_flux", 4); ("a", 5); ("b", 6); ("pa", 7)].
Proof. reflexivity. Qed.
Print Assumptions C14_rename_total_refuted.
