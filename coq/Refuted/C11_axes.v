(* C11 - regression record of the repaired defect (repo commit 43dd64d "find_islands region test uses the island's
   own pixels at their FITS positions"): before the repair the region test of source_finder.find_islands was
       xmin, xmax = f[i][0].start, f[i][0].stop            # ROW range of the box
       ymin, ymax = f[i][1].start, f[i][1].stop            # COLUMN range of the box
       y, x = np.where(snr[xmin:xmax, ymin:ymax] >= flood_clip)      # y = row index, x = column index in the box
       yx = list(zip(y + ymin, x + xmin))                            # row + COLUMN start , column + ROW start
       ra, dec = wcs.wcs.wcs_pix2world(yx, 1).transpose()            # 0-based indices with origin 1
   now:  x, y = np.where(own);  yx = list(zip(y + ymin + 1, x + xmin + 1))      (x = row, y = column).
   Three errors at once: the first coordinate handed to the WCS was (row in box + column start) and the second
   (column in box + row start) - axes crossed against their offsets; no +1 for the 1-based FITS convention although
   origin 1 was passed; and flood pixels of OTHER islands inside the box were tested too (irrelevant for the
   single-island witness below, where the box holds only own pixels).
   Self-contained: frozen copies of the PRE-FIX leaves region_first / region_second / region_origin in the translator's
   reading (arguments: array position (r, c) inside a box starting at (rmin, cmin)) and of bbox / region_ok of
   Model/IslandModel.v (which imports Gen.Islands); `touches` is the definition of Props/C11.v.  No project import.
   Statement refuted = C11_filter, i.e. its pointwise content  region_ok inside I = touches inside I.
   Replay on the old code: 3 x 6 image, im[0, 2:5] = 10, bkg 0, rms 1, seed 5, flood 3, TAN WCS with 1' pixels,
   region = 0.3' circle round the sky position of FITS pixel (5, 1) (= array pixel (0, 4), an island pixel):
   old find_islands(..., region, wcs) returns [] ; with the circle at FITS pixel (2, 2) (= array (1, 1), NOT an island
   pixel) it returns the island.  The repaired code returns the island / [] respectively. *)
From Coq Require Import ZArith Bool List Lia.
Import ListNotations.
Open Scope Z_scope.

(* frozen PRE-FIX leaves *)
Definition region_first_old (r c rmin cmin : Z) : Z := (r + cmin).
Definition region_second_old (r c rmin cmin : Z) : Z := (c + rmin).
Definition region_origin_old : Z := 1.
(* the repaired leaves (Gen/Islands.v today) *)
Definition region_first_new (r c rmin cmin : Z) : Z := ((c + cmin) + 1).
Definition region_second_new (r c rmin cmin : Z) : Z := ((r + rmin) + 1).
Definition region_origin_new : Z := 1.

(* model fragment (copy of Model/IslandModel.v) *)
Definition pix := (Z * Z)%type.                       (* (row, column), 0-based array indices *)
Definition bbox (I : list pix) : Z * Z * Z * Z :=
  match I with
  | [] => (0, 0, 0, 0)
  | p :: t =>
    (fold_right Z.min (fst p) (map fst t), fold_right Z.max (fst p) (map fst t) + 1,
     fold_right Z.min (snd p) (map snd t), fold_right Z.max (snd p) (map snd t) + 1)
  end.
(* inside x y : the sky position of FITS pixel (x = column + 1, y = row + 1) is in the region;
   wcs_pix2world(p, origin) = position of FITS pixel p + 1 - origin *)
Definition region_ok_with (first second : Z -> Z -> Z -> Z -> Z) (origin : Z) (inside : Z -> Z -> bool) (I : list pix)
  : bool :=
  let '(r0, _, c0, _) := bbox I in
  existsb (fun p => inside (first (fst p - r0) (snd p - c0) r0 c0 + 1 - origin)
                           (second (fst p - r0) (snd p - c0) r0 c0 + 1 - origin)) I.
Definition region_ok_old := region_ok_with region_first_old region_second_old region_origin_old.
Definition region_ok_new := region_ok_with region_first_new region_second_new region_origin_new.
(* Props/C11.v *)
Definition touches (inside : Z -> Z -> bool) (I : list pix) : bool :=
  existsb (fun p => inside (snd p + 1) (fst p + 1)) I.

(* a 1 x 3 island in row 0, columns 2..4 (box: rows 0..0, columns 2..4 - not square) *)
Definition w_I : list pix := [(0, 2); (0, 3); (0, 4)].
(* region A = exactly FITS pixel (5, 1) = array pixel (0, 4), an island pixel *)
Definition w_in (x y : Z) : bool := (x =? 5) && (y =? 1).
(* region B = exactly FITS pixel (2, 2) = array pixel (1, 1), not an island pixel *)
Definition w_out (x y : Z) : bool := (x =? 2) && (y =? 2).

Example C11_axes_witness_values :
  region_ok_old w_in w_I = false /\ touches w_in w_I = true /\ region_ok_new w_in w_I = true /\
  region_ok_old w_out w_I = true /\ touches w_out w_I = false /\ region_ok_new w_out w_I = false.
Proof. vm_compute. repeat split; reflexivity. Qed.

(* the positions the old code asked the WCS about: FITS (2,0), (2,1), (2,2) - a COLUMN of pixels, for an island
   that is a ROW of pixels at FITS (3,1), (4,1), (5,1) *)
Example C11_axes_tested_positions :
  map (fun p : pix => (region_first_old (fst p - 0) (snd p - 2) 0 2 + 1 - region_origin_old,
                       region_second_old (fst p - 0) (snd p - 2) 0 2 + 1 - region_origin_old)) w_I
  = [(2, 0); (2, 1); (2, 2)] /\
  map (fun p : pix => (snd p + 1, fst p + 1)) w_I = [(3, 1); (4, 1); (5, 1)].
Proof. vm_compute. split; reflexivity. Qed.

(* an island touching the region is dropped ... *)
Theorem C11_axes_refuted : exists inside I, I <> [] /\ region_ok_old inside I <> touches inside I.
Proof. exists w_in, w_I. split; [discriminate|]. vm_compute. discriminate. Qed.
(* ... and an island not touching it is kept *)
Theorem C11_axes_kept_refuted : exists inside I,
  region_ok_old inside I = true /\ ~ exists p, In p I /\ inside (snd p + 1) (fst p + 1) = true.
Proof.
  exists w_out, w_I. split; [vm_compute; reflexivity|].
  intros [p [Hin Hp]].
  assert (E : touches w_out w_I = true) by (apply existsb_exists; exists p; split; assumption).
  vm_compute in E. discriminate E.
Qed.

(* the repaired leaves agree with `touches` for every island and region (what Proofs/IslandProofs.v shows today) *)
Lemma C11_axes_now : forall inside I, region_ok_new inside I = touches inside I.
Proof.
  intros inside I. unfold region_ok_new, region_ok_with, touches.
  destruct (bbox I) as [[[r0 r1] c0] c1]. induction I as [|p t IH]; [reflexivity|].
  cbn [existsb]. rewrite IH. f_equal.
  unfold region_first_new, region_second_new, region_origin_new. f_equal; lia.
Qed.

Print Assumptions C11_axes_refuted.
Print Assumptions C11_axes_kept_refuted.
