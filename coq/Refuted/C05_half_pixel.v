(* C05 - regression record of the half-pixel misregistration (repaired in /repo by
   "fix: priorized cut-out limits are whole pixels").
   Frozen copy of the OLD leaves of source_finder._refit_islands, in the same Q reading the translator
   uses (Python `/` = rational division):
       xmin = min(xmin, max(0, x - xwidth / 2))          (* now: xwidth // 2 *)
       idata = data[int(xmin):int(xmax), ...]            (slice start  = int(xmin))
       params[prefix + 'xo'].value -= xmin               (shift        = xmin)
   For every odd xwidth whose cut-out is not clipped at 0 the shift is half a pixel more than the index at
   which the data cut-out starts, so the model is evaluated half a pixel away from the data:
   the statement of C05_cutout_registered (shift = slice start) is false for these leaves. *)
From Coq Require Import ZArith QArith Lia.
From Aegean Require Import Lib.QPy.
Open Scope Q_scope.

Definition xmin_upd_old (xmin x xw rows : Q) : Q := (qmin xmin (qmax (0 # 1) (x - (xw / (2 # 1))))).
Definition slice_x_lo_old (xmin : Q) : Q := (inject_Z (Qtrunc xmin)).
Definition shift_x_old (xmin : Q) : Q := xmin.

(* one source at row 10 of a 40-row image, xwidth = 11 (sigma = 2.5 pixels): slice starts at 4, shift is 4.5 *)
Lemma C05_half_pixel_refuted : exists x xw rows : Z,
  let xmin := xmin_upd_old (inject_Z rows) (inject_Z x) (inject_Z xw) (inject_Z rows) in
  (0 <= x < rows)%Z /\ (1 <= xw)%Z /\ ~ slice_x_lo_old xmin == shift_x_old xmin /\
  shift_x_old xmin - slice_x_lo_old xmin == 1 # 2.
Proof.
  exists 10%Z, 11%Z, 40%Z. cbv zeta. split; [lia|]. split; [lia|]. split.
  - vm_compute. discriminate.
  - vm_compute. reflexivity.
Qed.

(* and for every odd width that is not clipped *)
Lemma C05_half_pixel_all_odd : forall x k rows : Z, (0 <= k)%Z -> (k < x)%Z -> (x < rows)%Z ->
  let xmin := xmin_upd_old (inject_Z rows) (inject_Z x) (inject_Z (2 * k + 1)) (inject_Z rows) in
  xmin == inject_Z (x - k) - (1 # 2).
Proof.
  intros x k rows Hk Hx Hr. cbv zeta. unfold xmin_upd_old.
  assert (E : inject_Z x - inject_Z (2 * k + 1) / (2 # 1) == inject_Z (x - k) - (1 # 2)).
  { rewrite inject_Z_sub, inject_Z_plus, inject_Z_mult. change (inject_Z 2) with (2 # 1). change (inject_Z 1) with (1 # 1). field. }
  assert (Hpos : 0 < inject_Z (x - k) - (1 # 2)).
  { assert (H1 : (1 <= x - k)%Z) by lia. rewrite Zle_Qle in H1. change (inject_Z 1) with (1 # 1) in H1.
    apply Qlt_le_trans with ((1 # 1) - (1 # 2)); [reflexivity|]. apply Qplus_le_l. exact H1. }
  assert (Hlt : inject_Z (x - k) - (1 # 2) < inject_Z rows).
  { assert (H1 : (x - k <= rows)%Z) by lia. rewrite Zle_Qle in H1.
    apply Qlt_le_trans with (inject_Z (x - k)); [|exact H1].
    rewrite <- (Qplus_0_r (inject_Z (x - k))) at 2. apply Qplus_lt_r. reflexivity. }
  rewrite (qmin_comp _ (inject_Z rows) _ (inject_Z (x - k) - (1 # 2)) (Qeq_refl _)).
  - unfold qmin. assert (B : Qltb (inject_Z (x - k) - (1 # 2)) (inject_Z rows) = true) by (apply Qltb_iff; exact Hlt).
    rewrite B. reflexivity.
  - rewrite (qmax_comp _ (0 # 1) _ (inject_Z (x - k) - (1 # 2)) (Qeq_refl _) E).
    unfold qmax. assert (B : Qltb (0 # 1) (inject_Z (x - k) - (1 # 2)) = true) by (apply Qltb_iff; exact Hpos).
    rewrite B. reflexivity.
Qed.
