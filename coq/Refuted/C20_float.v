(* C20 - regression record of the repaired defect (repo commit 79b5692 "load_image_band computes band limits with
   integer arithmetic"): before the repair fits_tools.load_image_band had
       row_min = int(header['NAXIS2']/band[1] * (band[0]))
       row_max = int(header['NAXIS2']/band[1] * (band[0]+1))
   evaluated in binary64: NAXIS2/n is rounded, the product is rounded again, and int() truncates.  Whenever the two
   roundings land just below the exact integer the limit is one too small; for the LAST band (exact value NAXIS2) the
   last image row then belongs to no band: int(1/49*49) == 0.
   Self-contained: frozen copy of the PRE-FIX leaves over Coq's primitive binary64 floats (bit-exact IEEE-754
   round-to-nearest-even, the arithmetic CPython uses); the repaired integer leaves beside them; no import from the
   project.  vm_compute only (no native_compute).
   Statement refuted = the second clause of C20_tiles_consecutive:  0 < n -> row_max N (n - 1) n = N
   (and with it C20_tiles_cover: row 0 of the 1-row image is in none of the 49 bands).
   Replay on the old code: load_image_band(f, band=(48, 49)) on an image with NAXIS2 = 1 returns 0 rows;
   in plain Python: int(1/49*49) == 0. *)
From Coq Require Import ZArith Bool List Lia Uint63 PrimFloat FloatOps SpecFloat.
Import ListNotations.
Open Scope Z_scope.

Definition float_of_Z (z : Z) : float := of_uint63 (Uint63.of_Z z).   (* exact for 0 <= z < 2^53 *)
(* Python int() of a finite float: truncation towards zero; None for inf / nan (int() raises) *)
Definition trunc_float (f : float) : option Z :=
  match Prim2SF f with
  | S754_zero _ => Some 0
  | S754_finite s m e =>
      let mag := if 0 <=? e then Z.pos m * 2 ^ e else Z.pos m / 2 ^ (- e) in
      Some (if s then - mag else mag)
  | _ => None
  end.

(* frozen PRE-FIX leaves: int(naxis2 / b1 * b0), int(naxis2 / b1 * (b0 + 1)) *)
Definition row_min_old (naxis2 b0 b1 : Z) : option Z :=
  trunc_float (PrimFloat.mul (PrimFloat.div (float_of_Z naxis2) (float_of_Z b1)) (float_of_Z b0)).
Definition row_max_old (naxis2 b0 b1 : Z) : option Z :=
  trunc_float (PrimFloat.mul (PrimFloat.div (float_of_Z naxis2) (float_of_Z b1)) (float_of_Z (b0 + 1))).
(* the repaired leaves (Gen/Bands.v today) *)
Definition row_min_new (naxis2 b0 b1 : Z) : Z := ((naxis2 * b0) / b1).
Definition row_max_new (naxis2 b0 b1 : Z) : Z := ((naxis2 * (b0 + 1)) / b1).

Example C20_float_witness_values :
  row_max_old 1 48 49 = Some 0 /\ row_min_old 1 48 49 = Some 0 /\ row_max_new 1 48 49 = 1 /\ row_min_new 1 48 49 = 0.
Proof. vm_compute. repeat split; reflexivity. Qed.

(* the last band does not end at the last row *)
Theorem C20_float_refuted : exists N n, 0 < n /\ row_max_old N (n - 1) n <> Some N.
Proof. exists 1, 49. split; [lia|]. vm_compute. discriminate. Qed.

(* hence a row that is in no band: 1-row image, 49 bands *)
Definition in_band_old (N n r i : Z) : bool :=
  match row_min_old N i n, row_max_old N i n with
  | Some lo, Some hi => (lo <=? r) && (r <? hi)
  | _, _ => false
  end.
Fixpoint zrange (lo : Z) (k : nat) : list Z := match k with O => [] | S k' => lo :: zrange (lo + 1) k' end.
Theorem C20_float_cover_refuted : exists N n r, 0 < n /\ 0 <= r < N /\
  forallb (fun i => negb (in_band_old N n r i)) (zrange 0 (Z.to_nat n)) = true.
Proof. exists 1, 49, 0. split; [lia|]. split; [lia|]. vm_compute. reflexivity. Qed.

(* how common: the (rows, bands) pairs with rows, bands < 100 for which the old last band loses the last row;
   CPython gives the same list: [(N, n) for N in range(1,100) for n in range(1,100) if int(N/n*n) != N] has 266
   entries starting (1, 49), (1, 98), (2, 49), (2, 98), (3, 47) *)
Definition bad_pairs (M : Z) : list (Z * Z) :=
  flat_map (fun N => flat_map (fun n => match row_max_old N (n - 1) n with
                                        | Some v => if v =? N then [] else [(N, n)]
                                        | None => [(N, n)]
                                        end) (zrange 1 (Z.to_nat (M - 1))))
           (zrange 1 (Z.to_nat (M - 1))).
Example C20_float_bad_pairs_below_100 :
  length (bad_pairs 100) = 266%nat /\ firstn 5 (bad_pairs 100) = [(1, 49); (1, 98); (2, 49); (2, 98); (3, 47)].
Proof. vm_compute. split; reflexivity. Qed.

Print Assumptions C20_float_refuted.
Print Assumptions C20_float_cover_refuted.
