(* C10 - regression record: "every plane of a cube is masked identically" fails for cubes whose image has a
   single row or a single column.  mask_file calls np.squeeze on arrays with more than 2 axes, which removes
   EVERY axis of length 1, also an image axis: a (P, 1, C) cube becomes one P x C "image" whose rows are then
   tested at FITS y = 1..P instead of y = 1.

   Self-contained frozen copy of the squeeze rule and the plane loop of MIMAS.mask_file (tree 7d51018), over the
   SPECIFICATION of masking one plane (C10_plane_exact); it does not refer to Gen/ or Model/.
   Replayed on the real mask_file by tools/harness/c10.py (probe `single-row cube`). *)
From Coq Require Import ZArith Bool List.
Import ListNotations.
Open Scope Z_scope.

Definition zr (n : Z) : list Z := map Z.of_nat (seq 0 (Z.to_nat n)).
(* np.squeeze(data) if data.ndim > 2 *)
Definition squeeze_frozen (dims : list Z) : list Z :=
  if 2 <? Z.of_nat (length dims) then filter (fun d => negb (d =? 1)) dims else dims.
(* what masking one R x C plane must do (row-major): blank <-> negate xor the centre of FITS pixel (c+1, r+1) is outside *)
Definition plane_spec (inside : Z -> Z -> bool) (R C : Z) (data : list (option Z)) (negate : bool) : list (option Z) :=
  map (fun pv : (Z * Z) * option Z =>
         if xorb negate (negb (inside (fst (fst pv) + 1) (snd (fst pv) + 1))) then None else snd pv)
      (combine (flat_map (fun r => map (fun c => (c, r)) (zr C)) (zr R)) data).
Fixpoint chunks_f {A : Type} (n k : nat) (l : list A) : list (list A) :=
  match k with O => [] | S k' => firstn n l :: chunks_f n k' (skipn n l) end.
Definition file_frozen (inside : Z -> Z -> bool) (dims : list Z) (data : list (option Z)) (negate : bool) : list (option Z) :=
  match squeeze_frozen dims with
  | [p; r; c] => concat (map (fun pl => plane_spec inside r c pl negate) (chunks_f (Z.to_nat (r * c)) (Z.to_nat p) data))
  | [r; c] => plane_spec inside r c data negate
  | _ => []
  end.
(* the property: every plane of a (P, R, C) cube is masked as an R x C image *)
Definition file_wanted (inside : Z -> Z -> bool) (P R C : Z) (data : list (option Z)) (negate : bool) : list (option Z) :=
  concat (map (fun pl => plane_spec inside R C pl negate) (chunks_f (Z.to_nat (R * C)) (Z.to_nat P) data)).

(* two planes of a 1 x 2 image, the region contains the whole FITS row y = 1 (so nothing may be blanked):
   the second plane is blanked completely *)
Theorem C10_squeeze_refuted : exists inside P R C data negate,
  file_frozen inside [P; R; C] data negate <> file_wanted inside P R C data negate.
Proof.
  exists (fun _ y => y =? 1), 2, 1, 2, [Some 1; Some 2; Some 3; Some 4], false.
  vm_compute. discriminate.
Qed.

Example C10_squeeze_witness_values :
  file_frozen (fun _ y => y =? 1) [2; 1; 2] [Some 1; Some 2; Some 3; Some 4] false = [Some 1; Some 2; None; None] /\
  file_wanted (fun _ y => y =? 1) 2 1 2 [Some 1; Some 2; Some 3; Some 4] false = [Some 1; Some 2; Some 3; Some 4].
Proof. vm_compute. split; reflexivity. Qed.

Print Assumptions C10_squeeze_refuted.
