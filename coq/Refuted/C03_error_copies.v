(* C03 - regression record of the PRE-REPAIR copy of uncertainties in SourceFinder._refit_islands (ns.err_a = s.err_a ...):
   with the plain copy, an input catalogue without err_* columns (ComponentSource() leaves nan there) puts nan into
   err_a / err_b / err_pa (stage < 3) and err_ra / err_dec (stage < 2) of every output row.
   On a tree without the repair tools/harness/c03.py finds it with a csv / vot catalogue that holds only positions,
   fluxes, shapes and psf columns (the `prior_ext` cases). *)
From Coq Require Import Bool List.
From Aegean Require Import Model.CatalogRows.

Lemma C03_copied_errors_masked_refuted : exists c, err_cls_ok (copied_error_with false c) = false.
Proof. exists CNan. vm_compute. reflexivity. Qed.
Example plain_copy_keeps_zero : copied_error_with false Zero = Zero /\ err_cls_ok Zero = false.
Proof. vm_compute. auto. Qed.
