(* C08 - regression record of the repaired defect (repo commit ca2d402 "Region.add_pixels invalidates the cached
   demoted pixel set"): before the repair Region.add_pixels ended with
       self.pixeldict[depth].update(set(pix))
   and left `self.demoted` alone.  `_demote_all` only works `if len(self.demoted) == 0`, so once any query
   (get_demoted / sky_within / a set operation) had filled the cache, pixels added afterwards at a COARSER level were
   never pushed down and every later query ignored them.
   Self-contained: frozen copies of the PRE-FIX leaves (add_pixels_resets_cache = false; children, demote_lo,
   demote_hi as read from `for d in range(1, self.maxdepth)` / `set((4*p, 4*p+1, 4*p+2, 4*p+3))`) and of the fragment
   add_pixels_with / demote_all / get_demoted of Model/RegionModel.v and cover / cover_set / absP of
   Model/RegionSpec.v (both import Gen.Regions); no import from the project.
   Statement refuted = the GetDemoted clause of C08_refines_step (spec_out):
       snd (step s GetDemoted) = OPix l  with  forall q, In q l <-> absP s q      (for every reachable s).
   Replay on the old code: r = Region(maxdepth=3); r.add_pixels([21], 3); r.get_demoted()  -> {21};
   r.add_pixels([1], 2); r.get_demoted()  -> {21}  (pixels 4, 5, 6, 7 - the descendants of (2, 1) - are missing). *)
From Coq Require Import ZArith Bool List Lia.
Import ListNotations.
Open Scope Z_scope.

(* frozen leaves, as the translator read them from the pre-fix regions.py *)
Definition add_pixels_resets_cache_old : bool := false.
Definition demote_lo : Z := 1.
Definition demote_hi (maxdepth : Z) : Z := maxdepth.
Definition children (p : Z) : list Z := [(4 * p); ((4 * p) + 1); ((4 * p) + 2); ((4 * p) + 3)].

(* model fragment (copy of Model/RegionModel.v) *)
Definition cell := (Z * Z)%type.
Record region := mkRegion { depth : Z; cells : list cell; cached : bool }.
Definition level (cs : list cell) (d : Z) : list Z := map snd (filter (fun c => fst c =? d) cs).
Definition at_level (d : Z) (ps : list Z) : list cell := map (pair d) ps.
Definition init (D : Z) : region := mkRegion D [] false.
Fixpoint expand (k : nat) (p : Z) : list Z :=
  match k with
  | O => [p]
  | S k' => flat_map (expand k') (children p)
  end.
Definition add_pixels_with (resets : bool) (s : region) (d : Z) (ps : list Z) : region :=
  mkRegion (depth s) (at_level d ps ++ cells s) (if resets then false else cached s).
Definition add_pixels_old := add_pixels_with add_pixels_resets_cache_old.
Definition demotable (D : Z) (c : cell) : bool := (demote_lo <=? fst c) && (fst c <? demote_hi D).
Definition demoted_cells (D : Z) (cs : list cell) : list cell :=
  flat_map (fun c => if demotable D c
                     then at_level (demote_hi D) (expand (Z.to_nat (demote_hi D - fst c)) (snd c))
                     else [c]) cs.
Definition demote_all (s : region) : region :=
  if cached s && negb (match level (cells s) (depth s) with [] => true | _ => false end)
  then s
  else mkRegion (depth s) (demoted_cells (depth s) (cells s)) true.
Definition get_demoted (s : region) : region * list Z :=
  let s' := demote_all s in (s', level (cells s') (depth s')).

Inductive op := AddPixels (d : Z) (ps : list Z) | GetDemoted.
Inductive out := OUnit | OPix (l : list Z).
Definition step_with (resets : bool) (s : region) (o : op) : region * out :=
  match o with
  | AddPixels d ps => (add_pixels_with resets s d ps, OUnit)
  | GetDemoted => let '(s', r) := get_demoted s in (s', OPix r)
  end.
Fixpoint outputs (resets : bool) (s : region) (ops : list op) : list out :=
  match ops with
  | [] => []
  | o :: rest => let '(s', r) := step_with resets s o in r :: outputs resets s' rest
  end.
Definition run (resets : bool) (s : region) (ops : list op) : region :=
  fold_left (fun s o => fst (step_with resets s o)) ops s.

(* specification fragment (copy of Model/RegionSpec.v) *)
Definition cover (D : Z) (c : cell) (q : Z) : Prop :=
  if fst c <=? D
  then 4 ^ (D - fst c) * snd c <= q < 4 ^ (D - fst c) * (snd c + 1)
  else q = snd c / 4 ^ (fst c - D).
Definition cover_set (D : Z) (cs : list cell) (q : Z) : Prop := exists c, In c cs /\ cover D c q.
Definition absP (s : region) : Z -> Prop := cover_set (depth s) (cells s).
Definition op_ok (D : Z) (o : op) : Prop :=
  match o with
  | AddPixels d ps => 1 <= d <= D /\ Forall (fun p => 0 <= p < 12 * 4 ^ d) ps
  | GetDemoted => True
  end.

(* the history: add a deepest-level pixel, query, add a coarser pixel, query *)
Definition w_ops (D p q : Z) : list op := [AddPixels D [p]; GetDemoted; AddPixels (D - 1) [q]].

Example C08_stale_cache_outputs :
  outputs add_pixels_resets_cache_old (init 3) (w_ops 3 21 1 ++ [GetDemoted]) = [OUnit; OPix [21]; OUnit; OPix [21]] /\
  outputs true (init 3) (w_ops 3 21 1 ++ [GetDemoted]) = [OUnit; OPix [21]; OUnit; OPix [4; 5; 6; 7; 21]].
Proof. split; vm_compute; reflexivity. Qed.

Theorem C08_stale_cache_refuted : exists D ops x l,
  1 <= D /\ Forall (op_ok D) ops /\
  let s := run add_pixels_resets_cache_old (init D) ops in
  snd (step_with add_pixels_resets_cache_old s GetDemoted) = OPix l /\ absP s x /\ ~ In x l.
Proof.
  exists 3, (w_ops 3 21 1), 4, [21].
  split; [lia|]. split.
  - unfold w_ops, op_ok. repeat (apply Forall_cons || apply Forall_nil); try exact I;
      (split; [lia|]); repeat (apply Forall_cons || apply Forall_nil); vm_compute; split; congruence.
  - cbv zeta. split; [vm_compute; reflexivity|]. split.
    + exists (2, 1). split; [vm_compute; tauto|]. unfold cover. vm_compute. split; congruence.
    + cbn. intros [H|[]]. discriminate H.
Qed.

Print Assumptions C08_stale_cache_refuted.
