(* C13 (extension) - regression record: before the repair of SourceFinder.load_globals (`if cube_index is None: cube_index = 0`
   directly after the early return) the glue RAISED on every 3-D image read with the default cube_index = None:
   load_image_band(filename, hdu_index=.., cube_index=None) evaluates a[hdu].section[None, row_min:row_max, 0:NAXIS1]
   -> IndexError: Illegal index None - although BANE.filter_image reads None as the first plane.  So
   SourceFinder().find_sources_in_image('cube.fits') with default arguments did not complete (C03: "complete on every valid image").

   The leaf below is the frozen value of lg_cube_default_first_plane as generated from the tree on which the finding was made
   (false; this file does not depend on that constant, nor on Proofs/); the statement C13x_cube_default_first_plane is false for the model at that value: the call raises and stores nothing,
   while the same call with cube_index = 0 completes. *)
From Coq Require Import ZArith Bool List.
From Aegean Require Import Gen.Globals Model.Globals.
Import ListNotations.
Open Scope Z_scope.

Definition frozen_cube_default : bool := false.

(* witness: a 2 x 2 x 3 cube, forced rms and background (BANE is not consulted), cube_index not given *)
Definition plane0 : image := [[Some 8; Some 16; Some 0]; [Some (-8); Some 0; Some 24]].
Definition plane1 : image := [[Some 0; Some 0; Some 8]; [Some 8; Some 0; Some 0]].
Definition cube (ci : option nat) : inputs := mkIn true [plane0; plane1] ci (Some 8) (Some 0) None None false MNone.

Theorem C13x_cube_default_refuted : exists inp, i_ci inp = None /\
  load_globals_gen bane_fake frozen_cube_default fresh inp <> load_globals_gen bane_fake frozen_cube_default fresh (set_ci inp (Some 0%nat)).
Proof. exists (cube None). split; [reflexivity|]. vm_compute. discriminate. Qed.

(* what the old glue does on the witness: raises, nothing stored; with cube_index = 0 it completes on plane 0 *)
Example old_raises : load_globals_gen bane_fake frozen_cube_default fresh (cube None) = (fresh, false).
Proof. vm_compute. reflexivity. Qed.
Example old_with_index : obs_state (load_globals_gen bane_fake frozen_cube_default fresh (cube (Some 0%nat))) =
  (true, (Some plane0, Some (const_like 0 plane0), Some (const_like 8 plane0)), (None, None, Some 0%nat)).
Proof. vm_compute. reflexivity. Qed.
(* and for every BANE and every 3-D input *)
Theorem C13x_cube_none_raised : forall bane inp, i_is3d inp = true -> i_ci inp = None ->
  load_globals_gen bane frozen_cube_default fresh inp = (fresh, false).
Proof.
  intros bane inp H3 H. unfold load_globals_gen, select_gen, frozen_cube_default. cbn [fresh s_img is_some].
  rewrite andb_false_r, H3, H. reflexivity.
Qed.

Print Assumptions C13x_cube_default_refuted.
