(* C03 - regression record: the pre-fix leaf `istart = i` of priorized_fit_islands
   (self._refit_islands(g, stage, outerclip, istart=i), repaired in /repo by 08dbfe1 to i * group_size).
   Frozen copy of the old leaf, run through the same batching skeleton as the current model. *)
From Coq Require Import ZArith Bool List Lia.
From Aegean Require Import Model.CatalogRows.
Import ListNotations.
Open Scope Z_scope.

Definition istart_old (i gs : Z) : Z := i.

(* (batch 0, position 1) and (batch 1, position 0) get the same island number *)
Lemma C03_priorized_ids_unique_refuted :
  exists g g' k k', 0 <= k < 20 /\ 0 <= k' < 20 /\ istart_old g 20 + k = istart_old g' 20 + k' /\ ~ (g = g' /\ k = k').
Proof. exists 0, 1, 1, 0. unfold istart_old. repeat split; lia. Qed.

(* on the numbering skeleton (frozen batching: batches of 20): 21 island groups, i.e. one full batch and one
   more group, already collide *)
Definition old_islands (groups : list (option Z)) : list (Z * Z) :=
  keep_fitted (combine (ids_of_batches_with istart_old 20 [firstn 20 groups; skipn 20 groups]) groups).
Lemma C03_priorized_rows_unique_refuted :
  exists groups : list (option Z), length groups = 21%nat /\ ~ NoDup (rows_of (old_islands groups)).
Proof.
  exists (repeat (Some 1) 21). split; [reflexivity|]. intro H.
  assert (nodupb pair_eqb (rows_of (old_islands (repeat (Some 1) 21))) = false) as E
    by (vm_compute; reflexivity).
  assert (forall l, NoDup l -> nodupb pair_eqb l = true) as Hn.
  { induction l as [|x l IH]; intros Hl; [reflexivity|]. inversion Hl as [|? ? Hx Hl']; subst. cbn [nodupb].
    rewrite (IH Hl'), andb_true_r. apply negb_true_iff. destruct (existsb (pair_eqb x) l) eqn:Ex; [|reflexivity].
    apply existsb_exists in Ex. destruct Ex as [y [Hy Exy]]. unfold pair_eqb in Exy.
    apply andb_true_iff in Exy. destruct Exy as [E1 E2]. apply Z.eqb_eq in E1, E2.
    destruct x, y; cbn [fst snd] in *; subst. contradiction. }
  rewrite (Hn _ H) in E. discriminate.
Qed.
Example the_collision :
  map fst (old_islands (repeat (Some 1) 21)) =
  [0; 1; 2; 3; 4; 5; 6; 7; 8; 9; 10; 11; 12; 13; 14; 15; 16; 17; 18; 19; 1].
Proof. vm_compute. reflexivity. Qed.
Print Assumptions C03_priorized_rows_unique_refuted.
