(* C02 - regression record of the repaired defect (repo commit 6e96c3f "find_islands seed test and bounding box use
   the island's own pixels"): before the repair source_finder.find_islands had
       xmin, xmax = f[i][0].start, f[i][0].stop
       ymin, ymax = f[i][1].start, f[i][1].stop
       if np.any(snr[xmin:xmax, ymin:ymax] > seed_clip):          # now: snr[xmin:xmax, ymin:ymax][own] > seed_clip
   i.e. the seed test looked at EVERY pixel of the group's bounding box.  A faint group whose box contains a bright
   pixel of another island was reported as an island although none of its own pixels is above the seed threshold.
   Self-contained apart from Lib/Graph.v (the verified connectivity classes, which does not import Gen/): frozen
   copies of the PRE-FIX leaves (seed_scope_own = false; snr_num, flood_test, seed_test, conn_reach as generated) and
   of the fragment of Model/IslandModel.v up to `islands` (IslandModel imports Gen.Islands).
   Statement refuted = the last clause of C02_islands_sound:
       In I (islands img fl sd) -> exists s, In s I /\ seed_ok img sd s = true.
   Replay on the old code: find_islands(im, bkg=0, rms=1, seed_clip=5, flood_clip=3) with
       im = [[4,0,0,0],[4,0,10,0],[4,0,0,0],[4,4,4,4]]
   returns 2 islands (the L-shaped group of 4s, peak S/N 4 < 5, and the pixel 10); the repaired code returns 1. *)
From Coq Require Import ZArith Bool List Lia.
From Aegean Require Import Lib.Graph.
Import ListNotations.
Open Scope Z_scope.

(* frozen leaves, as the translator read them from the pre-fix source_finder.py *)
Definition snr_num (im bkg : Z) : Z := (Z.abs (im - bkg)).
Definition flood_test (num den cn cd : Z) : bool := (cn * den <=? num * cd).
Definition seed_test (num den cn cd : Z) : bool := (cn * den <? num * cd).
Definition seed_scope_own_old : bool := false.
Definition conn_reach : Z := 1.

(* model fragment (copy of Model/IslandModel.v) *)
Definition pix := (Z * Z)%type.
Record pixel := mkPixel { p_im : option Z; p_bkg : option Z; p_rms : option Z }.
Definition image := list (list pixel).
Record clip := mkClip { c_num : Z; c_den : Z }.
Definition pix_eqb (p q : pix) : bool := (fst p =? fst q) && (snd p =? snd q).
Definition get (img : image) (p : pix) : option pixel :=
  if (fst p <? 0) || (snd p <? 0) then None
  else match nth_error img (Z.to_nat (fst p)) with
       | Some row => nth_error row (Z.to_nat (snd p))
       | None => None
       end.
Definition snr_of (px : pixel) : option (Z * Z) :=
  match p_im px, p_bkg px, p_rms px with
  | Some i, Some b, Some r => Some (snr_num i b, r)
  | _, _, _ => None
  end.
Definition snr (img : image) (p : pix) : option (Z * Z) :=
  match get img p with Some px => snr_of px | None => None end.
Definition flood_ok (img : image) (fl : clip) (p : pix) : bool :=
  match snr img p with Some (n, d) => flood_test n d (c_num fl) (c_den fl) | None => false end.
Definition seed_ok (img : image) (sd : clip) (p : pix) : bool :=
  match snr img p with Some (n, d) => seed_test n d (c_num sd) (c_den sd) | None => false end.
Fixpoint zseq (lo : Z) (n : nat) : list Z :=
  match n with O => [] | S n' => lo :: zseq (lo + 1) n' end.
Definition all_pixels (img : image) : list pix :=
  flat_map (fun rr : Z * list pixel => map (fun c => (fst rr, c)) (zseq 0 (length (snd rr))))
           (combine (zseq 0 (length img)) img).
Definition adj (p q : pix) : bool :=
  (Z.abs (fst p - fst q) <=? conn_reach) && (Z.abs (snd p - snd q) <=? conn_reach).
Definition nodes (img : image) (fl : clip) : list pix := filter (flood_ok img fl) (all_pixels img).
Definition groups (img : image) (fl : clip) : list (list pix) :=
  components pix pix_eqb adj (nodes img fl).
Definition bbox (I : list pix) : Z * Z * Z * Z :=
  match I with
  | [] => (0, 0, 0, 0)
  | p :: t =>
    (fold_right Z.min (fst p) (map fst t), fold_right Z.max (fst p) (map fst t) + 1,
     fold_right Z.min (snd p) (map snd t), fold_right Z.max (snd p) (map snd t) + 1)
  end.
Definition box_pixels (b : Z * Z * Z * Z) : list pix :=
  let '(r0, r1, c0, c1) := b in
  flat_map (fun r => map (fun c => (r, c)) (zseq c0 (Z.to_nat (c1 - c0)))) (zseq r0 (Z.to_nat (r1 - r0))).
Definition seed_scope_with (own : bool) (I : list pix) : list pix := if own then I else box_pixels (bbox I).
Definition islands_with (own : bool) (img : image) (fl sd : clip) : list (list pix) :=
  filter (fun I => existsb (seed_ok img sd) (seed_scope_with own I)) (groups img fl).
Definition islands_old := islands_with seed_scope_own_old.

(* the witness: a faint L (value 4) around a separate bright pixel (value 10) that lies inside the L's box and is not
   8-connected to it; bkg 0, rms 1, flood clip 3, seed clip 5 *)
Definition px (i : Z) : pixel := mkPixel (Some i) (Some 0) (Some 1).
Definition w_img : image :=
  [[px 4; px 0; px 0;  px 0];
   [px 4; px 0; px 10; px 0];
   [px 4; px 0; px 0;  px 0];
   [px 4; px 4; px 4;  px 4]].
Definition w_fl : clip := mkClip 3 1.
Definition w_sd : clip := mkClip 5 1.
Definition w_L : list pix := [(3, 3); (3, 2); (3, 0); (3, 1); (2, 0); (1, 0); (0, 0)].

Example C02_seed_bbox_witness_values :
  islands_old w_img w_fl w_sd = [w_L; [(1, 2)]] /\
  islands_with true w_img w_fl w_sd = [[(1, 2)]] /\
  bbox w_L = (0, 4, 0, 4) /\ existsb (seed_ok w_img w_sd) w_L = false.
Proof. repeat split; vm_compute; reflexivity. Qed.

Theorem C02_seed_bbox_refuted : exists img fl sd I,
  0 < c_den fl /\ 0 < c_den sd /\ In I (islands_old img fl sd) /\ ~ exists s, In s I /\ seed_ok img sd s = true.
Proof.
  exists w_img, w_fl, w_sd, w_L. split; [reflexivity|]. split; [reflexivity|]. split.
  - rewrite (proj1 C02_seed_bbox_witness_values). left. reflexivity.
  - intros [s [Hin Hs]].
    assert (E : existsb (seed_ok w_img w_sd) w_L = true) by (apply existsb_exists; exists s; split; assumption).
    vm_compute in E. discriminate E.
Qed.

Print Assumptions C02_seed_bbox_refuted.
