(* C01 - regression record of the finding "the amplitude box of estimate_lmfit_parinfo excludes the truth for bright, coarsely
   sampled, off-centre sources".  Frozen copy of the leaf (this file does not refer to Gen/, which follows the tree):
       amp_max = amp_pix * 1.05 + innerclip * rms            (source_finder.py, estimate_lmfit_parinfo, branch amp > 0)
   where amp_pix is the value of the peak pixel.  For a noise-free circular Gaussian of true amplitude A, FWHM f pixels, centred
   (dx, dy) away from the peak pixel, amp_pix = A * exp(-(dx^2 + dy^2) / (2 sigma^2)), sigma = f / (2 sqrt(2 ln 2)).
   Witness: A = 1, f = 3, (dx, dy) = (1/2, 1/2), rms = 1e-4 (S/N = 1e4), innerclip = 5: amp_max = 0.9006 < 1 = A, so lmfit cannot
   return the true amplitude; the real finder reports peak = 0.9006 x truth with flags = 0 (replayed by tools/harness/c01.py). *)
From Coq Require Import Reals Lra.
From Interval Require Import Tactic.
Open Scope R_scope.

Definition amp_max_frozen (amp_pix rms ic : R) : R := amp_pix * (IZR 4728779608739021 / IZR 4503599627370496) + ic * rms.
Definition sigma_of_fwhm (f : R) : R := f / (2 * sqrt (2 * ln 2)).
Definition peak_pixel (A dx dy sigma : R) : R := A * exp (- ((dx * dx + dy * dy) / (sigma * sigma)) / 2).

Lemma C01_amp_bound_refuted :
  exists A f dx dy rms ic, 0 < A /\ 1 <= f /\ Rabs dx <= 1 / 2 /\ Rabs dy <= 1 / 2 /\ 0 < rms /\
    amp_max_frozen (peak_pixel A dx dy (sigma_of_fwhm f)) rms ic < A.
Proof.
  exists 1, 3, (1 / 2), (1 / 2), (1 / 10000), 5.
  unfold amp_max_frozen, peak_pixel, sigma_of_fwhm.
  repeat split; try lra; try (rewrite Rabs_right; lra). interval.
Qed.
(* the value the finder reports instead *)
Lemma C01_amp_bound_value :
  Rabs (amp_max_frozen (peak_pixel 1 (1 / 2) (1 / 2) (sigma_of_fwhm 3)) (1 / 10000) 5 - 9006 / 10000) <= 1 / 10000.
Proof. unfold amp_max_frozen, peak_pixel, sigma_of_fwhm. interval. Qed.
Print Assumptions C01_amp_bound_refuted.
