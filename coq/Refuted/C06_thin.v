(* C06 finding (regression record): for an image with ONE row (or one column) every box of BANE.sigma_filter is an
   empty slice, so every grid node is NaN and both maps are NaN everywhere - a constant image does not give background
   = constant, and an image without blank pixels gives maps with blank pixels.

   Frozen copy of the box closure as generated from BANE.py on 2026-09-29
     r_min = max(0, r - box_size[0] // 2);  r_max = min(data.shape[0] - 1, r + box_size[0] // 2)
   and of the python slice data[r_min:r_max] (which EXCLUDES r_max).  This file does not refer to Gen/. *)
From Coq Require Import ZArith List Lia.
Import ListNotations.
Open Scope Z_scope.

Definition box_min (r b n : Z) : Z := Z.max 0 (r - b / 2).
Definition box_max (r b n : Z) : Z := Z.min (n - 1) (r + b / 2).
(* indices of the python slice [a:b) for 0 <= a *)
Definition pyslice (a b : Z) : list Z := map (fun k => a + Z.of_nat k) (seq 0 (Z.to_nat (b - a))).

(* with a single row (n = 1) the slice around every node and for every box size is empty *)
Lemma C06_thin_refuted : forall r b, pyslice (box_min r b 1) (box_max r b 1) = [].
Proof.
  intros r b. unfold pyslice, box_min, box_max.
  replace (Z.to_nat (Z.min (1 - 1) (r + b / 2) - Z.max 0 (r - b / 2))) with 0%nat by lia. reflexivity.
Qed.

(* more generally the last row of the data held by a stripe (and the last column of the image) is in no box *)
Lemma C06_last_row_unused : forall r b n, ~ In (n - 1) (pyslice (box_min r b n) (box_max r b n)).
Proof.
  intros r b n H. unfold pyslice in H. apply in_map_iff in H as [k [E Hk]]. apply in_seq in Hk.
  unfold box_min, box_max in *. lia.
Qed.
