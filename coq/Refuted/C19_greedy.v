(* C19 - what the greedy variant (cluster.regroup / regroup_vectorized) does NOT guarantee; kernel-checked
   witnesses on the model, replayed on the implementation by tools/harness/c19.py.  They are outside the
   property text (which asks the greedy variant only for partition, chain-connected groups and permutation
   invariance for distinct declinations) and are kept as the record of why the statements stop there. *)
From Coq Require Import ZArith Bool List Permutation.
From Aegean Require Import Model.Cluster Proofs.ClusterProofs.
Import ListNotations.
Open Scope Z_scope.

Definition w_src (i dec : Z) (nb : list Z) : source := mkSource i (mkPt 0 0 1 1) dec 1 0 0 nb 0.

(* groups are not maximal: C (dec 1) is linked to both A (dec 3) and B (dec 2), A and B are not linked.
   C joins the newest group {B}; A stays alone although A - C is a link. *)
Definition w1_cat : list source := [w_src 0 3 [2]; w_src 1 2 [2]; w_src 2 1 [0; 1]].
Lemma C19_greedy_chain_iff_refuted :
  exists link far cat s t, 0 <= far /\ NoDup (ids cat) /\ symmetric_on cat link /\ In s cat /\ In t cat /\
    link s t = true /\ ~ same_group (regroup_greedy link far cat) s t.
Proof.
  exists link_tbl, 1, w1_cat, (w_src 0 3 [2]), (w_src 2 1 [0; 1]).
  split; [discriminate|]. split; [vm_compute; repeat constructor; cbn; intuition discriminate|].
  split; [intros x y Hx Hy; cbn in Hx, Hy; intuition subst; vm_compute; tauto|].
  split; [cbn; tauto|]. split; [cbn; tauto|]. split; [reflexivity|].
  intros (g & Hg & H1 & H2). vm_compute in Hg. destruct Hg as [<-|[<-|[]]]; vm_compute in H1, H2; intuition discriminate.
Qed.

(* equal declinations: P and Q (dec 5) are linked, Q - A (dec 10) is a link, P - A is not.
   rows [A; P; Q] give one group {A, Q, P}; rows [A; Q; P] give {A} and {P, Q}. *)
Definition w2_A := w_src 0 10 [2].
Definition w2_P := w_src 1 5 [2].
Definition w2_Q := w_src 2 5 [0; 1].
Lemma C19_greedy_perm_ties_refuted :
  exists link far cat cat' s t, 0 <= far /\ NoDup (ids cat) /\ Permutation cat cat' /\ In s cat /\ In t cat /\
    same_group (regroup_greedy link far cat) s t /\ ~ same_group (regroup_greedy link far cat') s t.
Proof.
  exists link_tbl, 1, [w2_A; w2_P; w2_Q], [w2_A; w2_Q; w2_P], w2_A, w2_P.
  split; [discriminate|]. split; [vm_compute; repeat constructor; cbn; intuition discriminate|].
  split; [apply perm_skip, perm_swap|]. split; [cbn; tauto|]. split; [cbn; tauto|]. split.
  - eexists. split; [vm_compute; left; reflexivity|]. vm_compute. tauto.
  - intros (g & Hg & H1 & H2). vm_compute in Hg. destruct Hg as [<-|[<-|[]]]; vm_compute in H1, H2; intuition discriminate.
Qed.

(* a negative `far` makes the early `new group` test of regroup_vectorized fire: the source is appended as a
   new group and still scanned, so it ends up in two groups *)
Lemma C19_greedy_negative_far_refuted :
  exists link far cat, NoDup (ids cat) /\ ~ Permutation (ids (concat (regroup_greedy link far cat))) (ids cat).
Proof.
  exists link_tbl, (-100), [w_src 0 3 []; w_src 1 2 []].
  split; [vm_compute; repeat constructor; cbn; intuition discriminate|].
  intros H. apply Permutation_length in H. vm_compute in H. discriminate.
Qed.
