(* C18 - the FITS string-width rule BEFORE the repair (commit 4a699e6 of /repo): a string column other than
   `uuid` got the width of its FIRST entry.  Frozen copy of the old leaves: fits_str_first_rule = false,
   fits_width_all_rows = true (only the uuid branch took the maximum).  With that rule the statement of
   C18_string_width is false: a longer later entry does not fit and is truncated by the FITS writer. *)
From Coq Require Import ZArith Bool List String Lia.
From Aegean Require Import Gen.Catalog Model.Catalog Proofs.CatalogProofs.
Import ListNotations.
Open Scope string_scope.

Definition old_fits_str_first_rule : bool := false.
Definition old_fits_width_all_rows : bool := true.

Theorem C18_first_row_refuted :
  exists (name : string) (col : list (cell Z)) (w : nat) (s : string),
    homogeneous Z col /\
    fits_format_gen Z old_fits_str_first_rule old_fits_width_all_rows name col = FA w /\
    In (CStr s) col /\ (w < String.length s)%nat.
Proof.
  exists "ra_str", [CStr "XX:XX:XX.XX"; CStr "-20:30:00.00"], 11%nat, "-20:30:00.00".
  split; [|split; [|split]].
  - intros c [<-|[<-|[]]]; reflexivity.
  - rewrite old_fits_format. reflexivity.
  - right. left. reflexivity.
  - vm_compute. lia.
Qed.

(* the current leaves do not have the defect on the same column *)
Example C18_first_row_now : fits_format Z "ra_str" [CStr "XX:XX:XX.XX"; CStr "-20:30:00.00"] = FA 12.
Proof. rewrite leaf_fits_format. reflexivity. Qed.

Print Assumptions C18_first_row_refuted.
