(* C16x, recorded finding: the psf-map lookup of WCSHelper.get_psf_sky2sky does not return the cell of the map that contains the
   requested sky position.  psf_sky2pix returns 1-based FITS pixel coordinates (origin 1), and `int(np.clip(x, 0, shape - 1))` uses
   them as 0-based array indices: at the centre of cell (r, c) - FITS coordinates (c + 1, r + 1) - the lookup reads cell
   (r + 1, c + 1) (clipped at the last row / column).  Witness: a 5 x 5 map, cell (2, 3); replayed on the real code by
   tools/harness/c16x.py (psf_finding). *)
From Coq Require Import ZArith Lia.
From Aegean Require Import Gen.WcsBeam Model.WcsBeam.
Open Scope Z_scope.

Lemma C16x_psf_map_cell_refuted :
  exists (shape : Z -> Z) (r c : Z), 0 <= r < shape 1 /\ 0 <= c < shape 2 /\
    nearest_cell shape (c + 1) (r + 1) 1 = (r, c) /\ m_psf_cell shape (c + 1) (r + 1) 1 = (r + 1, c + 1) /\
    m_psf_cell shape (c + 1) (r + 1) 1 <> (r, c).
Proof.
  exists (fun _ => 5), 2, 3. repeat split; try lia; try (vm_compute; reflexivity). vm_compute. discriminate.
Qed.
Print Assumptions C16x_psf_map_cell_refuted.
