(* C08 - regression record of the repaired defect (repo commit 636de68 "Region._demote_all works for maxdepth=1"):
   before the repair Region._demote_all was
       if len(self.demoted) == 0:
           pd = self.pixeldict
           for d in range(1, self.maxdepth):
               for p in pd[d]:
                   pd[d+1].update(set((4*p, 4*p+1, 4*p+2, 4*p+3)))
               pd[d] = set()
           self.demoted = pd[d+1]                 # now: pd[self.maxdepth]
   The last line reads the loop variable AFTER the loop.  For maxdepth = 1 the range is empty, `d` was never bound
   and Python raises UnboundLocalError (a NameError): every query of a depth-1 region (get_demoted, sky_within, all
   set operations, _renorm and hence add_circles / add_poly) failed.
   This is a name-binding defect, not an arithmetic one, so there is no generated leaf to freeze.  It is recorded in
   the only faithful way an executable model allows: the value of a `for` target after the loop is an OPTION (None =
   never bound = the read raises), and the old expression `pd[d+1]` is evaluated under that option.  For every
   maxdepth >= 2 the old index d+1 equals maxdepth (so old and new code agree, proved below); for maxdepth = 1 it is
   undefined.  Self-contained, no import from the project.
   Statement refuted = the totality part of the GetDemoted clause of C08_refines_step for D >= 1
       (exists l, snd (step s GetDemoted) = OPix l).
   Replay on the old code: r = Region(maxdepth=1); r.add_pixels([3], 1); r.get_demoted()
       -> UnboundLocalError: cannot access local variable 'd' where it is not associated with a value. *)
From Coq Require Import ZArith Bool List Lia.
Import ListNotations.
Open Scope Z_scope.

(* Python: the target of `for d in range(lo, hi)` after the loop - bound to the last value, or unbound *)
Definition loop_var_after (lo hi : Z) : option Z := if lo <? hi then Some (hi - 1) else None.

(* frozen PRE-FIX reading of `self.demoted = pd[d+1]`: which level is returned (None = the read of d raises) *)
Definition demoted_level_old (maxdepth : Z) : option Z :=
  match loop_var_after 1 maxdepth with
  | Some d => Some (d + 1)
  | None => None
  end.
(* the repaired reading: pd[self.maxdepth] *)
Definition demoted_level_new (maxdepth : Z) : option Z := Some maxdepth.

Definition cell := (Z * Z)%type.
Definition level (cs : list cell) (d : Z) : list Z := map snd (filter (fun c => fst c =? d) cs).
(* get_demoted on a region whose cells are already all at the deepest level (nothing to push down):
   None = exception *)
Definition get_demoted_flat (lev : Z -> option Z) (maxdepth : Z) (cs : list cell) : option (list Z) :=
  match lev maxdepth with
  | Some d => Some (level cs d)
  | None => None
  end.

(* the old and the new code agree wherever the old one is defined ... *)
Lemma demoted_level_old_ge2 : forall D, 2 <= D -> demoted_level_old D = demoted_level_new D.
Proof.
  intros D H. unfold demoted_level_old, demoted_level_new, loop_var_after.
  destruct (1 <? D) eqn:E; [f_equal; lia|]. apply Z.ltb_ge in E. lia.
Qed.

(* ... and the old one is undefined for the smallest legal depth *)
Theorem C08_depth1_refuted : exists D cs,
  1 <= D /\ Forall (fun c : cell => 1 <= fst c <= D /\ 0 <= snd c < 12 * 4 ^ fst c) cs /\
  ~ exists l, get_demoted_flat demoted_level_old D cs = Some l.
Proof.
  exists 1, [(1, 3)]. split; [lia|]. split.
  - apply Forall_cons; [|apply Forall_nil]. vm_compute. repeat split; congruence.
  - intros [l H]. vm_compute in H. discriminate H.
Qed.

Example C08_depth1_now : get_demoted_flat demoted_level_new 1 [(1, 3)] = Some [3].
Proof. reflexivity. Qed.

Print Assumptions C08_depth1_refuted.
