(* C13 - regression record: the FULL statement of C13_estimate_mirrored (mirror symmetry of the
   initial estimates for EVERY island with non-zero pixels) is false for the model of the current
   SourceFinder.estimate_lmfit_parinfo.

   Cause: `isnegative = np.nanmax(data[np.isfinite(data)]) < 0` is true only when ALL pixels of the
   island are negative, and every other island takes the positive branch.  The mirror image of "all
   negative" is "all positive", so an island that contains pixels of both signs (abs(snr) detection
   joins a positive source and an adjacent negative one into one island) takes the positive branch in
   the image AND in the negated image: each run sees only its own positive part.

   The leaves below are a frozen copy of Gen/Polarity.v as generated from the tree on which the
   finding was made (this file does not depend on Gen/). *)
From Coq Require Import ZArith QArith Qabs Qminmax Bool List.
From Aegean Require Import Lib.QBase Model.IslandModel Model.Polarity.
Import ListNotations.
Open Scope Q_scope.

Definition frozen : leaves := mkLeaves
  (fun mx => Qltb mx (0 # 1))
  (fun curve v rms oc => (Qltb (1 # 2) curve) && (Qltb (v + (oc * rms)) (0 # 1)))
  (fun curve v rms oc => (Qltb (1 # 2) (((-1) # 1) * curve)) && (Qltb (0 # 1) (v - (oc * rms))))
  (fun v => ((-1) # 1) * (Qabs v))
  true true false false
  (fun v rms => Qabs (v / rms))
  (fun snr ic => Qltb snr ic)
  (fun amp => Qltb (0 # 1) amp)
  (fun amp rms ic oc => (4278419646001971 # 4503599627370496) * (Qmin (oc * rms) amp))
  (fun amp rms ic oc => (amp * (4728779608739021 # 4503599627370496)) + (ic * rms))
  (fun amp rms ic oc => (amp * (4728779608739021 # 4503599627370496)) - (ic * rms))
  (fun amp rms ic oc => (4278419646001971 # 4503599627370496) * (Qmax ((- oc) * rms) amp))
  (fun n => if ((4 <=? n) && (n <=? 6))%Z then 4%Z else if (n <? 4)%Z then 1%Z else 0%Z)
  (fun minshape flag => (minshape <=? 2)%Z || negb (Z.land flag 1 =? 0)%Z || negb (Z.land flag 4 =? 0)%Z)
  4%Z (fun lo => lo) (fun hi => (hi + 1)%Z) (fun i m => (m <=? i)%Z) 20%Z 4%Z.

Definition px (r c v cu : Z) : ipx := mkIpx (r, c) (v # 1) (1 # 1) (cu # 1).

(* witness 1: the 1 x 2 island [ +10, -6 ] (rms 1, clips 5 / 4).  Estimate: one component of
   amplitude +10 at pixel (0,0).  Negated island [ -10, +6 ]: one component of amplitude +6 at pixel
   (0,1) instead of -10 at (0,0). *)
Definition w1 : island := [px 0 0 10 (-1); px 0 1 (-6) 1].
(* witness 2: a 4 x 7 island (not a tiny one): a positive source (peak 20) touching a negative one
   (peak -12).  The estimate has the positive component only; for the negated island it is again a
   positive component, at the position of the other source. *)
Definition w2 : island :=
  [px 0 1 5 0; px 0 2 6 0; px 0 3 5 0;
   px 1 0 5 0; px 1 1 8 0; px 1 2 20 (-1); px 1 3 9 0; px 1 4 (-6) 0; px 1 5 (-5) 0;
   px 2 1 6 0; px 2 2 9 0; px 2 3 7 0; px 2 4 (-12) 1; px 2 5 (-6) 0;
   px 3 2 5 0; px 3 3 6 0; px 3 4 (-7) 0; px 3 5 (-5) 0].

Definition est (shape : Z * Z) (isl : island) : list comp :=
  estimate frozen segs4 (fun _ => true) (5 # 1) (4 # 1) None shape isl.

Example w1_estimates :
  map (fun c => (c_amp c, c_pos c)) (est (1, 2)%Z w1) = [(10 # 1, (0, 0)%Z)] /\
  map (fun c => (c_amp c, c_pos c)) (est (1, 2)%Z (neg_island w1)) = [(6 # 1, (0, 1)%Z)].
Proof. split; vm_compute; reflexivity. Qed.

Example w2_estimates :
  map (fun c => (c_amp c, c_pos c)) (est (4, 7)%Z w2) = [(20 # 1, (1, 2)%Z)] /\
  map (fun c => (c_amp c, c_pos c)) (est (4, 7)%Z (neg_island w2)) = [(12 # 1, (2, 4)%Z)].
Proof. split; vm_compute; reflexivity. Qed.

Lemma amps_of_mirror : forall l l', Forall2 mirror_of l l' -> map c_amp l' = map (fun c => - c_amp c) l.
Proof.
  induction 1 as [|c c' l l' M _ IH]; cbn [map]; [reflexivity|].
  destruct M as [M _]. rewrite M, IH. reflexivity.
Qed.

Theorem C13_estimate_mirrored_refuted :
  exists (shape : Z * Z) (isl : island),
    (forall p, In p isl -> ~ ip_val p == 0) /\
    ~ Forall2 mirror_of (estimate frozen segs4 (fun _ => true) (5 # 1) (4 # 1) None shape isl)
                        (estimate frozen segs4 (fun _ => true) (5 # 1) (4 # 1) None shape (neg_island isl)).
Proof.
  exists (1, 2)%Z, w1. split.
  - intros p [<-|[<-|[]]]; cbn [px ip_val]; unfold Qeq; cbn; discriminate.
  - intros H. apply amps_of_mirror in H. vm_compute in H. discriminate H.
Qed.

Theorem C13_estimate_mirrored_refuted_large :
  ~ Forall2 mirror_of (est (4, 7)%Z w2) (est (4, 7)%Z (neg_island w2)).
Proof. intros H. apply amps_of_mirror in H. vm_compute in H. discriminate H. Qed.

Print Assumptions C13_estimate_mirrored_refuted.
Print Assumptions C13_estimate_mirrored_refuted_large.
