(* C01 - regression record of the finding "the island-size cap of estimate_lmfit_parinfo excludes the true major axis of a faint
   elongated source".  Frozen copy of the leaf (this file does not refer to Gen/, which follows the tree):
       sx_max = max((max(xsize, ysize) + 1) * sqrt(2) * FWHM2CC, sx0 * 1.1)        (source_finder.py, estimate_lmfit_parinfo)
   where xsize, ysize are the extent of the island (the pixels above the outer clip) and sx0 the beam sigma.
   Witness (replayed on the real finder by tools/harness/c01.py, KNOWN_CAP): a 16 x 4 pixel FWHM source, beam 4 pixels, S/N 5.2,
   outer clip 4: the island is 10 x 3 pixels, sx_max = 11 sqrt 2 / (2 sqrt (2 ln 2)) = 6.606 < 6.795 = 16 / (2 sqrt (2 ln 2)) = true sigma. *)
From Coq Require Import Reals Lra.
From Interval Require Import Tactic.
Open Scope R_scope.

Definition fwhm2cc : R := 1 / (2 * sqrt (2 * ln 2)).
Definition sx_max_frozen (xsize ysize sx0 : R) : R := Rmax ((Rmax xsize ysize + 1) * sqrt 2 * fwhm2cc) (sx0 * (11 / 10)).

(* the island of the witness really is that short: along the major axis the source drops below outerclip * rms = 4 / 5.2 of its
   peak at |x| = sigma sqrt (2 ln (5.2 / 4)) = 4.92 pixels from the centre, so at most 10 pixels of a row are above the clip *)
Lemma C01_witness_island_length : 2 * (16 * fwhm2cc * sqrt (2 * ln (52 / 40))) < 10.
Proof. unfold fwhm2cc. interval. Qed.

Lemma C01_shape_cap_refuted :
  exists xsize ysize beam sx, 0 < beam /\ beam * fwhm2cc <= sx /\ sx_max_frozen xsize ysize (beam * fwhm2cc * (101 / 100)) < sx.
Proof.
  exists 10, 3, 4, (16 * fwhm2cc). unfold sx_max_frozen, fwhm2cc. split; [lra|]. split.
  - assert (0 < 1 / (2 * sqrt (2 * ln 2))) by interval. nra.
  - apply Rmax_lub_lt.
    + rewrite Rmax_left by lra. interval.
    + interval.
Qed.
Print Assumptions C01_shape_cap_refuted.
