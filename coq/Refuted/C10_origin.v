(* C10 - regression record of the repaired defect (repo commit bf21fdd "MIMAS.mask_plane converts its 0-based pixel
   indices with origin 0"): before the repair the 0-based (column, row) indices were handed to wcs_pix2world with
   origin 1, i.e. array pixel (r, c) was tested at FITS pixel (c, r) instead of (c + 1, r + 1) - the mask was shifted
   by one pixel in both axes.  Self-contained: frozen copy of the pre-fix leaf `pix_origin = 1` over the row-major
   grid of (column, row) pairs; no reference to Gen/ or Model/. *)
From Coq Require Import ZArith Bool List.
Import ListNotations.
Open Scope Z_scope.

Definition zr (n : Z) : list Z := map Z.of_nat (seq 0 (Z.to_nat n)).
Definition pix_origin_prefix : Z := 1.
(* mask_plane with the origin as a parameter; inside x y = the centre of FITS pixel (x, y) is in the region, and
   wcs_pix2world(p, origin) = position of FITS pixel p + 1 - origin *)
Definition plane_with_origin (origin : Z) (inside : Z -> Z -> bool) (R C : Z) (data : list (option Z)) (negate : bool)
  : list (option Z) :=
  map (fun pv : (Z * Z) * option Z =>
         if xorb negate (negb (inside (fst (fst pv) + 1 - origin) (snd (fst pv) + 1 - origin))) then None else snd pv)
      (combine (flat_map (fun r => map (fun c => (c, r)) (zr C)) (zr R)) data).
(* the property: blank <-> negate xor the centre of FITS pixel (c + 1, r + 1) is outside *)
Definition plane_wanted (inside : Z -> Z -> bool) (R C : Z) (data : list (option Z)) (negate : bool) : list (option Z) :=
  map (fun pv : (Z * Z) * option Z =>
         if xorb negate (negb (inside (fst (fst pv) + 1) (snd (fst pv) + 1))) then None else snd pv)
      (combine (flat_map (fun r => map (fun c => (c, r)) (zr C)) (zr R)) data).

(* 2 x 2 image, the region contains exactly FITS pixel (1, 1) = array pixel (0, 0): the pre-fix code keeps array
   pixel (1, 1) instead *)
Theorem C10_origin_refuted : exists inside R C data negate,
  plane_with_origin pix_origin_prefix inside R C data negate <> plane_wanted inside R C data negate.
Proof.
  exists (fun x y => (x =? 1) && (y =? 1)), 2, 2, [Some 1; Some 2; Some 3; Some 4], false.
  vm_compute. discriminate.
Qed.

Example C10_origin_witness_values :
  plane_with_origin 1 (fun x y => (x =? 1) && (y =? 1)) 2 2 [Some 1; Some 2; Some 3; Some 4] false = [None; None; None; Some 4] /\
  plane_wanted (fun x y => (x =? 1) && (y =? 1)) 2 2 [Some 1; Some 2; Some 3; Some 4] false = [Some 1; None; None; None] /\
  plane_with_origin 0 (fun x y => (x =? 1) && (y =? 1)) 2 2 [Some 1; Some 2; Some 3; Some 4] false =
  plane_wanted (fun x y => (x =? 1) && (y =? 1)) 2 2 [Some 1; Some 2; Some 3; Some 4] false.
Proof. vm_compute. repeat split; reflexivity. Qed.

Print Assumptions C10_origin_refuted.
