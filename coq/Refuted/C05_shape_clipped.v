(* C05 - record of a violation in the CURRENT tree (not repaired; reported as a finding).
   Frozen copy of the current leaves of source_finder._refit_islands:
       s_lims = [0.8 * min(sx, pixbeam.b * FWHM2CC), max(sy, sx) * 1.25]
       params.add(prefix + 'sy', value=sy, min=s_lims[0], max=s_lims[1], vary=stage >= 3)
   lmfit.Parameter moves the initial value into [min, max] whether or not the parameter varies, so a
   catalogue source whose minor axis is below 0.8 x min(major axis, beam minor axis) is measured with a
   DIFFERENT, larger minor axis at stages 1 and 2, where the shape is documented to be held at the catalogue
   value (and its flux is biased accordingly).  The statement of C05_fixed_roundtrip without its
   `shape_unclipped` hypothesis is therefore false. *)
From Coq Require Import ZArith QArith Lia Lqa.
From Aegean Require Import Lib.QPy.
Open Scope Q_scope.

Definition shape_lower_cur (sx sy beam_a beam_b k : Q) : Q := ((3602879701896397 # 4503599627370496) * (qmin sx (beam_b * k))).
Definition shape_upper_cur (sx sy beam_a beam_b k : Q) : Q := ((qmax sy sx) * (5 # 4)).
Definition clip_cur (v lo hi : Q) : Q := if Qltb hi v then hi else if Qltb v lo then lo else v.

(* sigma 3 x 1 pixels (an elongated but legal ellipse, b <= a), beam sigma 2 pixels: sy becomes 1.6 *)
Lemma C05_shape_clipped_refuted : exists sx sy beam_b k : Q,
  0 < sy /\ sy <= sx /\
  ~ clip_cur sy (shape_lower_cur sx sy beam_b beam_b k) (shape_upper_cur sx sy beam_b beam_b k) == sy /\
  (16 # 10) - (1 # 1000000) < clip_cur sy (shape_lower_cur sx sy beam_b beam_b k) (shape_upper_cur sx sy beam_b beam_b k).
Proof.
  exists (3 # 1), (1 # 1), (4 # 1), (1 # 2). split; [reflexivity|]. split; [discriminate|]. split.
  - vm_compute. discriminate.
  - vm_compute. reflexivity.
Qed.

(* every minor axis below the lower limit is replaced by the limit *)
Lemma C05_shape_clipped_all : forall sx sy beam_b k,
  sy < shape_lower_cur sx sy beam_b beam_b k -> sy <= shape_upper_cur sx sy beam_b beam_b k ->
  clip_cur sy (shape_lower_cur sx sy beam_b beam_b k) (shape_upper_cur sx sy beam_b beam_b k) = shape_lower_cur sx sy beam_b beam_b k.
Proof.
  intros sx sy beam_b k H1 H2. unfold clip_cur.
  assert (E1 : Qltb (shape_upper_cur sx sy beam_b beam_b k) sy = false) by (apply Qltb_false_iff; exact H2).
  assert (E2 : Qltb sy (shape_lower_cur sx sy beam_b beam_b k) = true) by (apply Qltb_iff; exact H1).
  rewrite E1, E2. reflexivity.
Qed.
