(* C03 - regression record of the PRE-REPAIR decision table of fitting.errors (before err_peak_flux and the propagated
   values were masked unless positive and finite, and before covar_errors fell back to nan instead of -2).
   Input classes that table did NOT cover: with a frozen copy of the
   guards of the current code (vary_x and vary_y and all(isfinite(..)) etc.), the statement "every err_*
   is positive-finite or exactly -1 for a component without NOTFIT/FITERR" fails for these inputs.
   On a tree without the repair tools/harness/c03.py finds these classes on the real fitting.errors and on real images. *)
From Coq Require Import ZArith NArith Bool List.
From Aegean Require Import Model.CatalogRows.
Import ListNotations.

Definition frozen_guards : err_guards :=
  mkGuards 18%N (fun a b c d => a && b && (c && d)) (fun a b => a && b) (fun a b c d => a && b && (c && d)).

Definition full (amp xo yo sx sy th peak a b int : cls) : err_in :=
  mkErrIn 0 true true true true true true amp xo yo sx sy th peak a b int.
Definition bad (o : option err_out) : Prop :=
  match o with Some out => err_out_ok out = false | None => True end.

(* the unrestricted statement is false *)
Lemma C03_errors_masked_refuted :
  exists i, has (ei_flags i) 18%N = false /\ ei_ref_finite i = true /\ bad (errors_model_with frozen_guards i).
Proof. exists (full NegOther NegOther NegOther NegOther NegOther NegOther Pos Pos Pos Pos). vm_compute. auto. Qed.

(* 1. stderr = -2 for every varying parameter (covar_errors after a singular covariance matrix):
      err_peak_flux = -2, all the others come out positive *)
Example uncovered_singular_covariance :
  errors_model_with frozen_guards (full NegOther NegOther NegOther NegOther NegOther NegOther Pos Pos Pos Pos)
  = Some (mkErrOut NegOther Pos Pos Pos Pos Pos Pos false).
Proof. vm_compute. reflexivity. Qed.
(* 2. NaN amplitude stderr (sqrt of a negative diagonal element): err_peak_flux = NaN is copied unguarded *)
Example uncovered_nan_amplitude :
  errors_model_with frozen_guards (full CNan Pos Pos Pos Pos Pos Pos Pos Pos Pos)
  = Some (mkErrOut CNan Pos Pos Pos Pos Pos Pos false).
Proof. vm_compute. reflexivity. Qed.
(* 3. +inf amplitude stderr: err_peak_flux = inf and err_int_flux = inf *)
Example uncovered_inf_amplitude :
  errors_model_with frozen_guards (full CPInf Pos Pos Pos Pos Pos Pos Pos Pos Pos)
  = Some (mkErrOut CPInf Pos Pos Pos Pos Pos CPInf false).
Proof. vm_compute. reflexivity. Qed.
(* 4. stderr exactly 0: the sky errors come out 0 (neither positive nor -1) *)
Example uncovered_zero_stderr :
  errors_model_with frozen_guards (full Pos Zero Zero Zero Zero Zero Pos Pos Pos Pos)
  = Some (mkErrOut Pos Zero Zero Zero Zero Zero Pos false).
Proof. vm_compute. reflexivity. Qed.
(* 5. stderr None (lmfit leaves None when it could not estimate errors) on a varying parameter: TypeError *)
Example uncovered_none_stderr :
  errors_model_with frozen_guards (full Pos PyNone Pos Pos Pos Pos Pos Pos Pos Pos) = None /\
  errors_model_with frozen_guards (full PyNone Pos Pos Pos Pos Pos Pos Pos Pos Pos) = None.
Proof. vm_compute. auto. Qed.
(* 6. zero width / zero peak: division by zero in the relative errors, outside the table *)
Example uncovered_zero_width :
  errors_model_with frozen_guards (full Pos Pos Pos Pos Pos Pos Pos Zero Pos Pos) = None /\
  errors_model_with frozen_guards (full Pos Pos Pos Pos Pos Pos Zero Pos Pos Pos) = None.
Proof. vm_compute. auto. Qed.
(* 7. zero integrated flux: err_int_flux = 0 *)
Example uncovered_zero_int_flux :
  errors_model_with frozen_guards (full Pos Pos Pos Pos Pos Pos Pos Pos Pos Zero)
  = Some (mkErrOut Pos Pos Pos Pos Pos Pos Zero false).
Proof. vm_compute. reflexivity. Qed.
Print Assumptions C03_errors_masked_refuted.
