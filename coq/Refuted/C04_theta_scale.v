(* C04 - regression record of the repaired defect (repo commit 3d3219d "jacobian theta column is the derivative per
   degree"): before the repair the theta block of fitting.jacobian was
       dmdtheta = model * (sy**2 - sx**2) * (xsin - ycos) * (xcos + ysin) / sx**2 / sy**2
   without the factor pi/180, i.e. the derivative of the model per RADIAN, while the parameter theta of
   elliptical_gaussian is in DEGREES (sint = sin(radians(theta))).  The optimiser was handed a theta column 180/pi =
   57.3 times too large.
   Self-contained: frozen copies of fitting.elliptical_gaussian (`gauss`, as generated into Gen/Gauss.v) and of the
   PRE-FIX theta block (`d_theta_old`); imports only Lib/RBase (rad); no reference to Gen/, Model/ or Proofs/.
   Statement refuted = the p = 5 instance of C04_partials:
       is_derive (fun t => gauss x y amp xo yo sx sy t) theta (d_theta x y amp xo yo sx sy theta)   (sx, sy <> 0).
   Replay on the old code: AegeanTools.fitting.jacobian with one component amp=1 xo=0 yo=0 sx=1 sy=2 theta=0 (vary all)
   at (x, y) = (1, 1): last row = -0.40144607 (old) against the central finite difference -0.00700656 per degree. *)
From Coq Require Import Reals Lra.
From Coquelicot Require Import Coquelicot.
From Interval Require Import Tactic.
From Aegean Require Import Lib.RBase.
Open Scope R_scope.

(* fitting.elliptical_gaussian - frozen copy *)
Definition gauss (x y amp xo yo sx sy theta : R) : R :=
  let v_sint := (sin (rad theta)) in
  let v_cost := (cos (rad theta)) in
  let v_xxo := (x - xo) in
  let v_yyo := (y - yo) in
  let v_exp := (((((v_xxo * v_cost) + (v_yyo * v_sint)) ^ 2) / (sx ^ 2)) + ((((v_xxo * v_sint) - (v_yyo * v_cost)) ^ 2) / (sy ^ 2))) in
  let v_exp' := (v_exp * ((IZR (-1)) / 2)) in
  (amp * (exp v_exp')).

(* fitting.jacobian, `if pars[prefix+'theta'].vary` block BEFORE 3d3219d - frozen copy (no `dmdtheta *= np.pi / 180`) *)
Definition d_theta_old (x y amp xo yo sx sy theta : R) : R :=
  let v_model := (gauss x y amp xo yo sx sy theta) in
  let v_sint := (sin (rad theta)) in
  let v_cost := (cos (rad theta)) in
  let v_xxo := (x - xo) in
  let v_yyo := (y - yo) in
  let v_xcos := (v_xxo * v_cost) in
  let v_ycos := (v_yyo * v_cost) in
  let v_xsin := (v_xxo * v_sint) in
  let v_ysin := (v_yyo * v_sint) in
  let v_dmdtheta := (((((v_model * ((sy ^ 2) - (sx ^ 2))) * (v_xsin - v_ycos)) * (v_xcos + v_ysin)) / (sx ^ 2)) / (sy ^ 2)) in
  v_dmdtheta.

(* the tactic of Proofs/GaussProofs.v (copied: GaussProofs imports Gen.Gauss) *)
Ltac name_trig :=
  repeat match goal with
  | |- context [sin ?a] => let s := fresh "s" in set (s := sin a) in *; clearbody s
  | |- context [cos ?a] => let c := fresh "c" in set (c := cos a) in *; clearbody c
  end.
Ltac unify_exp :=
  repeat match goal with
  | |- context [exp ?a] =>
     match goal with
     | |- context [exp ?b] =>
          tryif constr_eq a b then fail else
          (let H := fresh in assert (H : a = b) by (field; repeat split; assumption); rewrite H; clear H)
     end
  end.
Ltac name_exp :=
  repeat match goal with
  | |- context [exp ?a] => let E := fresh "E" in set (E := exp a) in *; clearbody E
  end.
Ltac finish := unfold Rdiv; name_trig; unify_exp; name_exp; field; repeat split; assumption.

(* the TRUE derivative with respect to theta (degrees) is the old expression times pi/180 *)
Lemma d_theta_true x y amp xo yo sx sy theta : sx <> 0 -> sy <> 0 ->
  is_derive (fun t => gauss x y amp xo yo sx sy t) theta (d_theta_old x y amp xo yo sx sy theta * (PI / 180)).
Proof. intros Hx Hy. unfold d_theta_old, gauss, rad. cbv zeta. auto_derive; [repeat split; auto|]. finish. Qed.

(* the witness point: amp = 1, centre (0,0), sx = 1, sy = 2, theta = 0 deg, pixel (1,1) *)
Lemma old_value_at_witness : d_theta_old 1 1 1 0 0 1 2 0 = - (3 / 4) * exp (- (5 / 8)).
Proof.
  unfold d_theta_old, gauss, rad. cbv zeta.
  replace (0 * PI / 180) with 0 by field. rewrite sin_0, cos_0.
  replace (((1 - 0) * 1 + (1 - 0) * 0) ^ 2 / 1 ^ 2 + ((1 - 0) * 0 - (1 - 0) * 1) ^ 2 / 2 ^ 2) with (5 / 4) by field.
  replace (5 / 4 * (IZR (-1) / 2)) with (- (5 / 8)) by field.
  field.
Qed.
(* -0.40 (interval, software floats: no primitive-float axioms) ; only `< 0` and `pi/180 < 1` are needed below *)
Lemma old_value_enclosure : - (403 / 1000) < d_theta_old 1 1 1 0 0 1 2 0 < - (401 / 1000).
Proof. rewrite old_value_at_witness. split; interval with (i_prec 40). Qed.
Lemma old_value_negative : d_theta_old 1 1 1 0 0 1 2 0 < 0.
Proof. rewrite old_value_at_witness. pose proof (exp_pos (- (5 / 8))). lra. Qed.
Lemma scale_small : 0 < PI / 180 < 1 / 40.
Proof. pose proof PI_RGT_0. pose proof PI_4. split; lra. Qed.

Theorem C04_theta_scale_refuted : exists x y amp xo yo sx sy theta,
  amp <> 0 /\ sx <> 0 /\ sy <> 0 /\
  ~ is_derive (fun t => gauss x y amp xo yo sx sy t) theta (d_theta_old x y amp xo yo sx sy theta).
Proof.
  exists 1, 1, 1, 0, 0, 1, 2, 0.
  split; [lra|]. split; [lra|]. split; [lra|].
  intros Hold.
  assert (Htrue := d_theta_true 1 1 1 0 0 1 2 0 ltac:(lra) ltac:(lra)).
  apply is_derive_unique in Hold. apply is_derive_unique in Htrue.
  rewrite Hold in Htrue.
  pose proof old_value_negative as Hneg. pose proof scale_small as [Hs0 Hs1].
  set (d := d_theta_old 1 1 1 0 0 1 2 0) in *. set (k := PI / 180) in *.
  (* d = d * k with d < 0 and 0 < k < 1/40 *)
  assert (Hk : d * (1 - k) = 0) by (replace (d * (1 - k)) with (d - d * k) by ring; rewrite <- Htrue; ring).
  apply Rmult_integral in Hk. destruct Hk as [Hk|Hk]; lra.
Qed.

(* size of the error: the old column is 180/pi (more than 57) times the true derivative at every point *)
Lemma C04_theta_scale_factor x y amp xo yo sx sy theta : sx <> 0 -> sy <> 0 ->
  d_theta_old x y amp xo yo sx sy theta
  = (180 / PI) * Derive (fun t => gauss x y amp xo yo sx sy t) theta /\ 57 < 180 / PI.
Proof.
  intros Hx Hy. split.
  - assert (E : Derive (fun t => gauss x y amp xo yo sx sy t) theta = d_theta_old x y amp xo yo sx sy theta * (PI / 180))
      by (apply is_derive_unique, d_theta_true; assumption).
    rewrite E. field. apply PI_neq0.
  - interval with (i_prec 40).
Qed.

Print Assumptions C04_theta_scale_refuted.
