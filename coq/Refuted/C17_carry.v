(* C17 - regression record of the repaired defect (repo commit 506b0f7 "dec2dms/dec2hms round once so that seconds
   never print as 60.00"): before the repair angle_tools.dec2dms was
       x = abs(x)
       d = int(math.floor(x))
       m = int(math.floor((x - d) * 60))
       s = float(((x - d) * 60 - m) * 60)
       return '{0}{1:02d}:{2:02d}:{3:05.2f}'.format(sign, d, m, s)
   and dec2hms
       x /= 15.0 ; h = int(x) ; x = (x - h) * 60 ; m = int(x) ; s = (x - m) * 60
       return '{0:02d}:{1:02d}:{2:05.2f}'.format(h, m, s)
   The fields are split with floor FIRST and the seconds are rounded to two decimals only by the format, so a value
   of s in [59.995, 60) prints as 60.00 and the carry into the minutes (and degrees / hours) is lost:
   +00:59:60.00, 23:59:60.00.
   Self-contained apart from Lib/QPy.v (round-half-even on rationals, no Gen import): frozen copy of the PRE-FIX
   field arithmetic over Q (exact rationals: floor, subtract, times 60; `{:05.2f}` = nearest hundredth).  For the
   second witness x = 1 - 2^-24 every binary64 operation of the old code is exact (operands and results need at most
   30 significant bits), so the rational model IS the old binary64 computation; for x = 0.9999999 the binary64 literal
   differs from 9999999/10^7 by less than 2^-53 and s = 59.99964 is far from the rounding boundary 59.995.
   Statement refuted = the seconds clause of C17_fields_in_range ("seconds field ss.cc < 60.00").
   Replay on the old code: dec2dms(0.9999999) == '+00:59:60.00' ; dec2dms(16777215/16777216) == '+00:59:60.00' ;
   dec2dms(-12.9999999) == '-12:59:60.00' ; dec2hms(359.99999999) == '23:59:60.00'. *)
From Coq Require Import ZArith QArith Qround Lia.
From Aegean Require Import Lib.QPy.
Open Scope Q_scope.

(* frozen PRE-FIX field arithmetic of dec2dms for x >= 0: (d, m, seconds as printed, in hundredths) *)
Definition dms_d_old (x : Q) : Z := Qfloor x.
Definition dms_m_old (x : Q) : Z := Qfloor ((x - inject_Z (dms_d_old x)) * (60 # 1)).
Definition dms_s_old (x : Q) : Q := ((x - inject_Z (dms_d_old x)) * (60 # 1) - inject_Z (dms_m_old x)) * (60 # 1).
(* '{:05.2f}'.format(s): s rounded to the nearest hundredth *)
Definition fmt_hundredths (s : Q) : Z := round_half_even (s * (100 # 1)).
Definition dms_fields_old (x : Q) : Z * Z * Z := (dms_d_old x, dms_m_old x, fmt_hundredths (dms_s_old x)).

(* frozen PRE-FIX field arithmetic of dec2hms for 0 <= x *)
Definition hms_fields_old (x : Q) : Z * Z * Z :=
  let x1 := x / (15 # 1) in
  let h := Qfloor x1 in
  let x2 := (x1 - inject_Z h) * (60 # 1) in
  let m := Qfloor x2 in
  let s := (x2 - inject_Z m) * (60 # 1) in
  (h, m, fmt_hundredths s).

(* the repaired single rounding (Gen/Sexagesimal.v today): cs = round(x * 360000), then divmod *)
Definition dms_fields_new (x : Q) : Z * Z * Z :=
  let cs := round_half_even (x * (360000 # 1)) in
  ((cs / 360000)%Z, ((cs mod 360000) / 6000)%Z, (cs mod 6000)%Z).

Definition w1 : Q := 9999999 # 10000000.            (* 0.9999999 deg *)
Definition w2 : Q := 16777215 # 16777216.           (* 1 - 2^-24 deg: exact in binary64 at every step *)

Example C17_carry_witness_values :
  dms_fields_old w1 = (0, 59, 6000)%Z /\ dms_fields_old w2 = (0, 59, 6000)%Z /\
  dms_fields_new w1 = (1, 0, 0)%Z /\ dms_fields_new w2 = (1, 0, 0)%Z /\
  hms_fields_old (35999999999 # 100000000) = (23, 59, 6000)%Z /\
  Qred (dms_s_old w1) = 1499991 # 25000.            (* = 59.99964 *)
Proof. vm_compute. repeat split; reflexivity. Qed.

(* the seconds field, in hundredths, is not below 60.00 *)
Theorem C17_carry_refuted : exists x : Q, 0 <= x /\ x <= 90 # 1 /\
  let '(d, m, c) := dms_fields_old x in ~ (0 <= m < 60 /\ 0 <= c < 6000)%Z.
Proof.
  exists w1. split; [discriminate|]. split; [discriminate|].
  vm_compute. intros [_ [_ H]]. discriminate H.
Qed.

Theorem C17_carry_exact_refuted : exists x : Q, 0 <= x /\ x <= 90 # 1 /\
  let '(d, m, c) := dms_fields_old x in ~ (0 <= m < 60 /\ 0 <= c < 6000)%Z.
Proof.
  exists w2. split; [discriminate|]. split; [discriminate|].
  vm_compute. intros [_ [_ H]]. discriminate H.
Qed.

Theorem C17_carry_hms_refuted : exists x : Q, 0 <= x /\ x < 360 # 1 /\
  let '(h, m, c) := hms_fields_old x in ~ (0 <= h < 24 /\ 0 <= m < 60 /\ 0 <= c < 6000)%Z.
Proof.
  exists (35999999999 # 100000000). split; [discriminate|]. split; [reflexivity|].
  vm_compute. intros [_ [_ [_ H]]]. discriminate H.
Qed.

Print Assumptions C17_carry_refuted.
Print Assumptions C17_carry_exact_refuted.
Print Assumptions C17_carry_hms_refuted.
