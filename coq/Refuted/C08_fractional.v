(* C08 - regression record of the repaired defects (repo commits 88fcd8d "Region.union degrades finer pixels with
   integer division" and fb5ce85 "Region._renorm promotes to integer pixel numbers"): before the repair
       Region.union :   pp = p/4**(d-self.maxdepth)          (* now p//4**(d-self.maxdepth) *)
       Region._renorm:  self.pixeldict[d-1].add(p/4)         (* now p//4 *)
   used Python 3 TRUE division.  The ancestor of a finer pixel was therefore stored as a fraction (5/16 = 0.3125),
   which is not a HEALPix pixel number at all: every later query (sky_within, get_demoted, the set operations, the
   exports) compares it with integer pixel numbers and never finds it.
   Self-contained: pixel identifiers are rationals here (Python `/` on ints = exact rational division for these
   sizes: 5/16 is a binary64 number); frozen copies of the PRE-FIX leaves `degrade` and `parent` in that reading and
   of the union fragment of Model/RegionModel.v (which imports Gen.Regions); no import from the project.
   Statement refuted = the clause of C08_reachable_inv / C08_step_inv (Inv -> valid -> vcell) that every stored pixel
   identifier is a valid INTEGER for its level - over Z that is the typing of `cells`; over Q it reads
   `exists z, id == z /\ 0 <= z < 12 * 4^level`.
   Replay on the old code: r = Region(maxdepth=4); r.add_pixels([7], 4); o = Region(maxdepth=6); o.add_pixels([5], 6);
   r.union(o, renorm=False)  ->  r.pixeldict[4] == {0.3125, 7}. *)
From Coq Require Import ZArith QArith Qround Bool List Lia.
Import ListNotations.
Open Scope Z_scope.

Definition qcell := (Z * Q)%type.           (* (level, pixel identifier as Python computed it) *)
Record qregion := mkQRegion { qdepth : Z; qcells : list qcell }.

(* frozen PRE-FIX leaves, `/` read as true division *)
Definition degrade_old (p : Q) (d maxdepth : Z) : Q := (p / inject_Z (4 ^ (d - maxdepth)))%Q.
Definition parent_old (p : Q) : Q := (p / (4 # 1))%Q.
(* the repaired leaves (Gen/Regions.v today): floor division *)
Definition degrade_new (p : Q) (d maxdepth : Z) : Q := inject_Z (Qfloor (p / inject_Z (4 ^ (d - maxdepth)))).

(* Region.union without renormalisation (copy of the fragment of Model/RegionModel.v, identifiers in Q) *)
Definition union_with (degrade : Q -> Z -> Z -> Q) (s o : qregion) : qregion :=
  let m := Z.min (qdepth s) (qdepth o) in
  let common := filter (fun c => (1 <=? fst c) && (fst c <=? m)) (qcells o) in
  let finer := if qdepth s <? qdepth o
               then filter (fun c => (qdepth s <? fst c) && (fst c <=? qdepth o)) (qcells o)
               else [] in
  mkQRegion (qdepth s) (map (fun c => (qdepth s, degrade (snd c) (fst c) (qdepth s))) finer ++ common ++ qcells s).

(* the property clause: every stored identifier is an integer that is a valid pixel number of its level *)
Definition vcell_q (D : Z) (c : qcell) : Prop :=
  1 <= fst c <= D /\ exists z : Z, (snd c == inject_Z z)%Q /\ 0 <= z < 12 * 4 ^ fst c.
Definition valid_q (s : qregion) : Prop := 1 <= qdepth s /\ Forall (vcell_q (qdepth s)) (qcells s).

Definition w_self : qregion := mkQRegion 4 [(4, 7 # 1)].
Definition w_other : qregion := mkQRegion 6 [(6, 5 # 1)].

Lemma w_valid : valid_q w_self /\ valid_q w_other.
Proof.
  split.
  - split; [cbn; lia|]. apply Forall_cons; [|apply Forall_nil]. split; [cbn; lia|].
    exists 7. split; [reflexivity|]. vm_compute. split; congruence.
  - split; [cbn; lia|]. apply Forall_cons; [|apply Forall_nil]. split; [cbn; lia|].
    exists 5. split; [reflexivity|]. vm_compute. split; congruence.
Qed.

Example C08_fractional_witness_values :
  qcells (union_with degrade_old w_self w_other) = [(4, 5 # 16); (4, 7 # 1)] /\
  qcells (union_with degrade_new w_self w_other) = [(4, 0 # 1); (4, 7 # 1)].
Proof. split; vm_compute; reflexivity. Qed.

Theorem C08_fractional_refuted : exists s o,
  valid_q s /\ valid_q o /\ ~ valid_q (union_with degrade_old s o).
Proof.
  exists w_self, w_other. split; [apply w_valid|]. split; [apply w_valid|].
  intros [_ H]. rewrite (proj1 C08_fractional_witness_values) in H.
  apply Forall_inv in H. destruct H as [_ [z [E _]]].
  (* 5/16 == z/1  means  5 * 1 = z * 16 *)
  unfold Qeq in E. cbn [Qnum Qden inject_Z snd] in E. lia.
Qed.

(* _renorm promotes only complete sibling groups p, p+1, p+2, p+3 with p % 4 == 0, so the VALUE of the old p/4
   is integral (the float 3.0 hashes and compares like the int 3); its defect was the type of the stored identifier
   (float) which a rational model does not distinguish - recorded here for completeness, not as a refutation *)
Example C08_renorm_old_value_integral : forall p, (parent_old (inject_Z (4 * p)) == inject_Z p)%Q.
Proof. intros p. unfold parent_old. rewrite inject_Z_mult. change (inject_Z 4) with (4 # 1)%Q. field. Qed.

Print Assumptions C08_fractional_refuted.
