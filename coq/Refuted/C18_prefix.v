(* C18 - "with and without column prefix": a catalogue written with a column prefix (or with galactic
   column names) cannot be read back by table_to_source_list, which looks the columns up under the bare
   `names` and does not strip a prefix or undo the renaming: every attribute keeps its default.
   F := Z here (floats are opaque to the code; 0 stands for NaN). *)
From Coq Require Import ZArith Bool List String Lia.
From Aegean Require Import Gen.Catalog Model.Catalog Proofs.CatalogProofs.
Import ListNotations.
Open Scope string_scope.
Open Scope Z_scope.

Definition simple (gal : bool) (ra flags : Z) (uuid : string) : source Z :=
  {| s_class := 0; s_galactic := gal;
     s_attr := [("background", CFlt 1); ("local_rms", CFlt 2); ("ra", CFlt ra); ("dec", CFlt 4);
                ("peak_flux", CFlt 5); ("err_peak_flux", CFlt 6); ("flags", CInt flags); ("peak_pixel", CFlt 7);
                ("a", CFlt 8); ("b", CFlt 9); ("pa", CFlt 10); ("uuid", CStr uuid)] |}.

(* even when the file format gives back exactly the table that was written *)
Theorem C18_prefix_refuted :
  exists (pre : string) (cat : list (source Z)),
    map (as_list Z) (table_to_source_list Z 0 0 (fun _ => "fresh") (build_table Z (Some pre) cat)) <> map (as_list Z) cat
    /\ map (fun s => getattr Z s "ra") (table_to_source_list Z 0 0 (fun _ => "fresh") (build_table Z (Some pre) cat))
       = [CFlt 0].
Proof.
  exists "p", [simple false 3 17 "u-1"]. split.
  - vm_compute. intro H. discriminate H.
  - vm_compute. reflexivity.
Qed.

Theorem C18_galactic_refuted :
  exists cat : list (source Z),
    map (fun s => (getattr Z s "ra", getattr Z s "flags"))
        (table_to_source_list Z 0 0 (fun _ => "fresh") (build_table Z None cat)) = [(CFlt 0, CInt 17)]
    /\ map (fun s => (getattr Z s "ra", getattr Z s "flags")) cat = [(CFlt 3, CInt 17)].
Proof. exists [simple true 3 17 "u-1"]. split; vm_compute; reflexivity. Qed.

Print Assumptions C18_prefix_refuted.
Print Assumptions C18_galactic_refuted.
