(* C12 - regression record of the repaired defect (repo commit 2a2e9e6 "Region._uniq exports the deepest level too"):
   before the repair Region._uniq was
       pd = []
       for d in range(1, self.maxdepth):                                   # now range(1, self.maxdepth+1)
           pd.extend(map(lambda x: int(4**(d+1) + x), self.pixeldict[d]))
       return sorted(pd)
   so level maxdepth was never exported: MOC files lacked every pixel stored at the region's own resolution, and were
   EMPTY after any query (which pushes all pixels down to level maxdepth).
   Self-contained: frozen copies of the PRE-FIX leaves (uniq_lo = 1, uniq_hi D = D, uniq_code) and of the fragment
   level / zrange / uniq of Model/RegionModel.v (which imports Gen.Regions); no import from the project.
   Statement refuted = C12_uniq_complete:
       valid s -> (In u (uniq s) <-> exists c, In c (cells s) /\ u = uniq_code (fst c) (snd c)).
   Replay on the old code: r = Region(maxdepth=3); r.add_pixels([21], 3); r._uniq()  -> []   (now [277]). *)
From Coq Require Import ZArith Bool List Lia.
Import ListNotations.
Open Scope Z_scope.

(* frozen leaves, as the translator read them from the pre-fix regions.py *)
Definition uniq_lo : Z := 1.
Definition uniq_hi_old (maxdepth : Z) : Z := maxdepth.
Definition uniq_code (d x : Z) : Z := ((4 ^ (d + 1)) + x).

(* model fragment (copy of Model/RegionModel.v) *)
Definition cell := (Z * Z)%type.
Record region := mkRegion { depth : Z; cells : list cell; cached : bool }.
Definition level (cs : list cell) (d : Z) : list Z := map snd (filter (fun c => fst c =? d) cs).
Fixpoint zrange (lo : Z) (n : nat) : list Z :=
  match n with O => [] | S n' => lo :: zrange (lo + 1) n' end.
Definition uniq_with (uniq_hi : Z -> Z) (s : region) : list Z :=
  flat_map (fun d => map (uniq_code d) (nodup Z.eq_dec (level (cells s) d)))
           (zrange uniq_lo (Z.to_nat (uniq_hi (depth s) - uniq_lo))).
Definition uniq_old := uniq_with uniq_hi_old.

(* specification fragment (copy of Model/RegionSpec.v) *)
Definition vcell (D : Z) (c : cell) : Prop := 1 <= fst c <= D /\ 0 <= snd c < 12 * 4 ^ fst c.
Definition valid (s : region) : Prop := 1 <= depth s /\ Forall (vcell (depth s)) (cells s).

(* a depth-3 region with the single cell (3, 21): the export is empty *)
Definition w : region := mkRegion 3 [(3, 21)] false.

Example C12_deepest_missing_values :
  uniq_old w = [] /\ uniq_with (fun D => D + 1) w = [277] /\
  uniq_old (mkRegion 3 [(3, 21); (2, 5)] false) = [69].
Proof. repeat split; vm_compute; reflexivity. Qed.

Theorem C12_deepest_missing_refuted : exists s u,
  valid s /\ ~ (In u (uniq_old s) <-> exists c, In c (cells s) /\ u = uniq_code (fst c) (snd c)).
Proof.
  exists w, 277. split.
  - split; [cbn; lia|]. apply Forall_cons; [|apply Forall_nil]. vm_compute. repeat split; congruence.
  - intros [_ H]. assert (E : In 277 (uniq_old w)).
    { apply H. exists (3, 21). split; [left; reflexivity|]. vm_compute. reflexivity. }
    vm_compute in E. exact E.
Qed.

(* the whole export of a non-empty region is empty (what happened to every MOC written after a query) *)
Theorem C12_deepest_missing_empty_refuted : exists s, valid s /\ cells s <> [] /\ uniq_old s = [].
Proof.
  exists w. split; [|split; [discriminate|reflexivity]].
  split; [cbn; lia|]. apply Forall_cons; [|apply Forall_nil]. vm_compute. repeat split; congruence.
Qed.

Print Assumptions C12_deepest_missing_refuted.
Print Assumptions C12_deepest_missing_empty_refuted.
