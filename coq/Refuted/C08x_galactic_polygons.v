(* C08 (extension) finding (regression record): the `-g` flag of MIMAS ("Interpret input coordinates are galactic instead of
   equatorial"; Dummy.galactic: "If true then ALL ra/dec coordinates will be interpreted as if they were in galactic lat/lon")
   is honoured for circles only.  MIMAS.combine_regions converts with galactic2fk5 inside `if container.galactic:` in the
   +c and -c stages; the +p and -p stages have no such branch, so polygon vertices given in galactic coordinates are used
   as FK5 ra/dec.

   Frozen reading of MIMAS.py:488-561 on 2026-09-29 (this file does not refer to Gen/):
     stage 3 (+c), stage 4 (-c): `if container.galactic: l, b, radii = ..; ras, decs = galactic2fk5(l, b)`   -> converts
     stage 5 (+p), stage 6 (-p): `poly = np.radians(np.array(p)); poly = poly.reshape(..); region.add_poly(poly)` -> does not
   A shape is the pair (pixels healpy answers for the coordinates as FK5, pixels it answers after galactic2fk5).

   Replay on the real code (tools/harness/c08x.py does it on every run, with real healpy and astropy):
     c = MIMAS.Dummy(maxdepth=5); c.galactic = True; c.include_polygons = [[10, 10, 20, 10, 15, 20]]
     MIMAS.combine_regions(c).get_demoted() == pixels of the triangle (ra, dec) = (10,10) (20,10) (15,20) in FK5,
     and is disjoint from the triangle (l, b) = (10,10) (20,10) (15,20), which lies near (ra, dec) = (262, -15). *)
From Coq Require Import ZArith Bool List.
Import ListNotations.
Open Scope Z_scope.

Definition shape := (list Z * list Z)%type.
Definition pick (g stage_converts : bool) (sh : shape) : list Z := if g && stage_converts then snd sh else fst sh.

Definition frozen_galactic_incl_circles := true.
Definition frozen_galactic_incl_polygons := false.

(* what the documentation promises for galactic = true: the converted answer, for every shape *)
Definition documented (sh : shape) : list Z := pick true true sh.

Lemma C08x_galactic_circles_ok : forall sh, pick true frozen_galactic_incl_circles sh = documented sh.
Proof. reflexivity. Qed.

Theorem C08x_galactic_polygons_refuted : exists (sh : shape) q,
  In q (pick true frozen_galactic_incl_polygons sh) /\ ~ In q (documented sh).
Proof. exists ([5], [9]), 5. split; [left; reflexivity|]. intros [H|[]]. discriminate H. Qed.

Print Assumptions C08x_galactic_polygons_refuted.
