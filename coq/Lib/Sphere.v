(* Spherical geometry over R for the generated angle_tools functions (Gen/Sphere.v):
   gcd (atan2 / Vincenty form on the sphere), bear (position angle), translate (destination point).
   Interface (used by C17, and by C16/C01 for pixel<->sky vectors and ellipses):
     uvec, dot, north, east                      unit vector of (ra, dec) and the local tangent frame
     sep_y, sep_x, sep_z, bear_y, bear_x, tr_factor, tr_y, tr_x  normal forms of the generated bodies
     gcd_eq, bear_eq, translate_eq               the ONLY lemmas that look inside the generated text
     gcd_cross (gcd = atan2 |u x v| (u.v)), gcd_acos (bridge: atan2 |u x v| (u.v) = acos (u.v)), hav (haversine =
     squared half chord), hav_dot,
     gcd_hav / gcd_asin (the haversine form 2 asin sqrt hav, now a derived lemma), gcd_sym, gcd_range, gcd_vector,
     gcd_angle, gcd_zero_iff, gcd_triangle, bear_frame, bear_polar, translate_gcd, translate_bear, translate_zero,
     atan2 lemmas.
   All statements are about the generated gcd / bear / translate.  Axioms: the real-number axioms
   of the standard library only. *)
From Coq Require Import Reals Lra Nsatz Psatz.
From Aegean Require Import Lib.RBase Gen.Sphere.
Open Scope R_scope.

(* ---------------------------------------------------------------------------------------- *)
(* vectors *)
Definition vec : Type := (R * R * R)%type.
Definition dot (u v : vec) : R :=
  let '(a, b, c) := u in let '(d, e, f) := v in a * d + b * e + c * f.
Definition uvec (ra dec : R) : vec :=
  (cos (rad dec) * cos (rad ra), cos (rad dec) * sin (rad ra), sin (rad dec)).
(* local tangent frame at (ra, dec): unit vectors towards increasing dec and increasing ra *)
Definition north (ra dec : R) : vec :=
  (- sin (rad dec) * cos (rad ra), - sin (rad dec) * sin (rad ra), cos (rad dec)).
Definition east (ra dec : R) : vec := (- sin (rad ra), cos (rad ra), 0).

(* ---------------------------------------------------------------------------------------- *)
(* normal forms of the generated bodies *)
(* gcd = deg (atan2 (hypot sep_y sep_x) sep_z): (sep_y, sep_x) are the components of the cross product of the two unit
   vectors in the tangent frame at point 1 (its length is |u x v|), sep_z is the dot product *)
Definition sep_y (ra1 dec1 ra2 dec2 : R) : R := cos (rad dec2) * sin (rad (ra2 - ra1)).
Definition sep_x (ra1 dec1 ra2 dec2 : R) : R :=
  cos (rad dec1) * sin (rad dec2) - sin (rad dec1) * cos (rad dec2) * cos (rad (ra2 - ra1)).
Definition sep_z (ra1 dec1 ra2 dec2 : R) : R :=
  sin (rad dec1) * sin (rad dec2) + cos (rad dec1) * cos (rad dec2) * cos (rad (ra2 - ra1)).
(* the haversine of the separation (the form of gcd before the repair of the near-antipodal accuracy; kept: the
   interval certificates of C16 bound gcd through it, see gcd_hav / gcd_asin) *)
Definition hav (ra1 dec1 ra2 dec2 : R) : R :=
  sin (rad (dec2 - dec1) / 2) ^ 2 + cos (rad dec1) * cos (rad dec2) * sin (rad (ra2 - ra1) / 2) ^ 2.
Definition bear_y (ra1 dec1 ra2 dec2 : R) : R := sin (rad (ra2 - ra1)) * cos (rad dec2).
Definition bear_x (ra1 dec1 ra2 dec2 : R) : R :=
  cos (rad dec1) * sin (rad dec2) - sin (rad dec1) * cos (rad dec2) * cos (rad (ra2 - ra1)).
Definition tr_factor (dec r theta : R) : R :=
  sin (rad dec) * cos (rad r) + cos (rad dec) * sin (rad r) * cos (rad theta).
Definition tr_y (dec r theta : R) : R := sin (rad theta) * sin (rad r) * cos (rad dec).
Definition tr_x (dec r theta : R) : R := cos (rad r) - sin (rad dec) * tr_factor dec r theta.

Lemma rad_sub a b : rad (a - b) = rad a - rad b.
Proof. unfold rad; field. Qed.
Lemma rad_add a b : rad (a + b) = rad a + rad b.
Proof. unfold rad; field. Qed.
Lemma rad_0 : rad 0 = 0.
Proof. unfold rad; field. Qed.
Lemma rad_180 : rad 180 = PI.
Proof. unfold rad; field. Qed.
Lemma rad_le a b : a <= b -> rad a <= rad b.
Proof. intros H. unfold rad. pose proof PI_RGT_0. nra. Qed.
Lemma rad_lt a b : a < b -> rad a < rad b.
Proof. intros H. unfold rad. pose proof PI_RGT_0. nra. Qed.
Lemma deg_le a b : a <= b -> deg a <= deg b.
Proof.
  intros H. unfold deg. pose proof PI_RGT_0 as HP.
  apply Rmult_le_compat_r; [left; apply Rinv_0_lt_compat; lra | lra].
Qed.
Lemma deg_0 : deg 0 = 0.
Proof. unfold deg; field. apply PI_neq0. Qed.
Lemma deg_PI : deg PI = 180.
Proof. unfold deg; field. apply PI_neq0. Qed.
Lemma deg_inj a b : deg a = deg b -> a = b.
Proof. intros H. rewrite <- (rad_deg a), <- (rad_deg b), H. reflexivity. Qed.

Lemma factor_range dec r theta : -1 <= tr_factor dec r theta <= 1.
Proof.
  unfold tr_factor.
  pose proof (sin2_cos2 (rad dec)) as H1. pose proof (sin2_cos2 (rad r)) as H2. pose proof (sin2_cos2 (rad theta)) as H3.
  unfold Rsqr in *.
  set (s := sin (rad dec)) in *; set (c := cos (rad dec)) in *; set (sr := sin (rad r)) in *; set (cr := cos (rad r)) in *;
  set (st := sin (rad theta)) in *; set (ct := cos (rad theta)) in *.
  assert (Hsq : (s*cr + c*sr*ct)*(s*cr + c*sr*ct) <= 1).
  { assert ((s*cr + c*sr*ct)*(s*cr + c*sr*ct) + (c*cr - s*sr*ct)*(c*cr - s*sr*ct) + (sr*st)*(sr*st) = 1) by nsatz.
    pose proof (Rle_0_sqr (c*cr - s*sr*ct)). pose proof (Rle_0_sqr (sr*st)). unfold Rsqr in *. lra. }
  split; nra.
Qed.

(* the characterising lemmas of the three generated leaves *)
Lemma gcd_eq ra1 dec1 ra2 dec2 :
  gcd ra1 dec1 ra2 dec2 =
  deg (atan2 (hypot (sep_y ra1 dec1 ra2 dec2) (sep_x ra1 dec1 ra2 dec2)) (sep_z ra1 dec1 ra2 dec2)).
Proof. reflexivity. Qed.
Lemma bear_eq ra1 dec1 ra2 dec2 :
  bear ra1 dec1 ra2 dec2 = deg (atan2 (bear_y ra1 dec1 ra2 dec2) (bear_x ra1 dec1 ra2 dec2)).
Proof. reflexivity. Qed.
(* a clamp of the arcsin argument to [-1, 1] (np.clip, or minimum/maximum) is the identity over R;
   the characterising lemma accepts the body with or without it *)
Lemma clamp_id x : -1 <= x <= 1 -> Rmin 1 (Rmax (-1) x) = x.
Proof. intros [H0 H1]. rewrite Rmax_right by lra. apply Rmin_right; lra. Qed.
Lemma clamp_id' x : -1 <= x <= 1 -> Rmax (-1) (Rmin 1 x) = x.
Proof. intros [H0 H1]. rewrite Rmin_right by lra. apply Rmax_right; lra. Qed.
Lemma translate_eq ra dec r theta :
  translate ra dec r theta =
  (ra + deg (atan2 (tr_y dec r theta) (tr_x dec r theta)), deg (asin (tr_factor dec r theta))).
Proof.
  unfold translate; cbv zeta. fold (tr_factor dec r theta).
  rewrite ?clamp_id, ?clamp_id' by apply factor_range.
  rewrite rad_deg, sin_asin by apply factor_range. reflexivity.
Qed.
Local Opaque gcd bear translate.
(* ---------------------------------------------------------------------------------------- *)
(* unit vectors, chord form of the haversine *)
Definition unit (u : vec) : Prop := dot u u = 1.
Definition vsub (u v : vec) : vec :=
  let '(a, b, c) := u in let '(d, e, f) := v in (a - d, b - e, c - f).

Lemma sin2_half t : sin (t / 2) ^ 2 = (1 - cos t) / 2.
Proof. replace t with (2 * (t / 2)) at 2 by field. rewrite cos_2a_sin. field. Qed.

Lemma dot_comm u v : dot u v = dot v u.
Proof. destruct u as [[a b] c], v as [[d e] f]; cbn; ring. Qed.

Lemma uvec_unit ra dec : unit (uvec ra dec).
Proof.
  unfold unit, dot, uvec.
  pose proof (sin2_cos2 (rad dec)) as H1. pose proof (sin2_cos2 (rad ra)) as H2. unfold Rsqr in *.
  set (s := sin (rad dec)) in *; set (c := cos (rad dec)) in *;
  set (sa := sin (rad ra)) in *; set (ca := cos (rad ra)) in *. nsatz.
Qed.
Lemma north_unit ra dec : unit (north ra dec).
Proof.
  unfold unit, dot, north.
  pose proof (sin2_cos2 (rad dec)) as H1. pose proof (sin2_cos2 (rad ra)) as H2. unfold Rsqr in *.
  set (s := sin (rad dec)) in *; set (c := cos (rad dec)) in *;
  set (sa := sin (rad ra)) in *; set (ca := cos (rad ra)) in *. nsatz.
Qed.
Lemma east_unit ra dec : unit (east ra dec).
Proof.
  unfold unit, dot, east. pose proof (sin2_cos2 (rad ra)) as H2. unfold Rsqr in *. lra.
Qed.
Lemma frame_orthogonal ra dec :
  dot (uvec ra dec) (north ra dec) = 0 /\ dot (uvec ra dec) (east ra dec) = 0 /\
  dot (north ra dec) (east ra dec) = 0.
Proof.
  unfold dot, uvec, north, east. pose proof (sin2_cos2 (rad ra)) as H2. unfold Rsqr in *.
  set (s := sin (rad dec)) in *; set (c := cos (rad dec)) in *;
  set (sa := sin (rad ra)) in *; set (ca := cos (rad ra)) in *.
  repeat split; nsatz.
Qed.

Lemma dot_uvec ra1 dec1 ra2 dec2 :
  dot (uvec ra1 dec1) (uvec ra2 dec2) =
  cos (rad dec1) * cos (rad dec2) * cos (rad (ra2 - ra1)) + sin (rad dec1) * sin (rad dec2).
Proof. unfold dot, uvec. rewrite rad_sub, cos_minus. ring. Qed.

(* Cauchy-Schwarz for unit vectors *)
Lemma dot_unit_range u v : unit u -> unit v -> -1 <= dot u v <= 1.
Proof.
  destruct u as [[a b] c], v as [[d e] f]. unfold unit, dot. intros Hu Hv.
  pose proof (Rle_0_sqr (a - d)). pose proof (Rle_0_sqr (b - e)). pose proof (Rle_0_sqr (c - f)).
  pose proof (Rle_0_sqr (a + d)). pose proof (Rle_0_sqr (b + e)). pose proof (Rle_0_sqr (c + f)).
  unfold Rsqr in *. split; lra.
Qed.
Lemma dot_unit_one u v : unit u -> unit v -> (dot u v = 1 <-> u = v).
Proof.
  destruct u as [[a b] c], v as [[d e] f]. unfold unit, dot. intros Hu Hv. split.
  - intros H.
    assert (Hs : (a - d) * (a - d) + (b - e) * (b - e) + (c - f) * (c - f) = 0) by lra.
    pose proof (Rle_0_sqr (a - d)) as H1. pose proof (Rle_0_sqr (b - e)) as H2. pose proof (Rle_0_sqr (c - f)) as H3.
    unfold Rsqr in *.
    assert (a - d = 0) by (apply Rsqr_0_uniq; unfold Rsqr; lra).
    assert (b - e = 0) by (apply Rsqr_0_uniq; unfold Rsqr; lra).
    assert (c - f = 0) by (apply Rsqr_0_uniq; unfold Rsqr; lra).
    f_equal; [f_equal|]; lra.
  - intros H. inversion H; subst. lra.
Qed.

(* hav = (1 - u.v)/2 = |u - v|^2 / 4 : the haversine of the separation is the squared half chord *)
Lemma hav_dot ra1 dec1 ra2 dec2 :
  hav ra1 dec1 ra2 dec2 = (1 - dot (uvec ra1 dec1) (uvec ra2 dec2)) / 2.
Proof.
  unfold hav. rewrite !sin2_half, dot_uvec, (rad_sub dec2 dec1), cos_minus. field.
Qed.
Lemma hav_chord ra1 dec1 ra2 dec2 :
  let w := vsub (uvec ra1 dec1) (uvec ra2 dec2) in hav ra1 dec1 ra2 dec2 = dot w w / 4.
Proof.
  cbv zeta. rewrite hav_dot.
  pose proof (uvec_unit ra1 dec1) as H1. pose proof (uvec_unit ra2 dec2) as H2.
  destruct (uvec ra1 dec1) as [[a b] c], (uvec ra2 dec2) as [[d e] f].
  unfold unit, dot, vsub in *. lra.
Qed.
Lemma hav_range ra1 dec1 ra2 dec2 : 0 <= hav ra1 dec1 ra2 dec2 <= 1.
Proof.
  rewrite hav_dot.
  pose proof (dot_unit_range _ _ (uvec_unit ra1 dec1) (uvec_unit ra2 dec2)). lra.
Qed.
Lemma hav_sym ra1 dec1 ra2 dec2 : hav ra1 dec1 ra2 dec2 = hav ra2 dec2 ra1 dec1.
Proof. rewrite !hav_dot, dot_comm. reflexivity. Qed.

(* ---------------------------------------------------------------------------------------- *)
(* numpy-style atan2 *)
Lemma sqrt_sq_sum_pos x y : 0 < x -> sqrt (x*x + y*y) = x * sqrt (1 + (y/x)²).
Proof.
  intros Hx. replace (x*x + y*y) with ((x*x) * (1 + (y/x)²)) by (unfold Rsqr; field; lra).
  rewrite sqrt_mult_alt by nra. rewrite sqrt_square by lra. reflexivity.
Qed.
Lemma sqrt_sq_sum_neg x y : x < 0 -> sqrt (x*x + y*y) = - x * sqrt (1 + (y/x)²).
Proof.
  intros Hx. replace (x*x + y*y) with ((-x)*(-x) * (1 + (y/x)²)) by (unfold Rsqr; field; lra).
  rewrite sqrt_mult_alt by nra. rewrite sqrt_square by lra. reflexivity.
Qed.
Lemma sqrt_1p_pos t : 0 < sqrt (1 + t²).
Proof. apply sqrt_lt_R0. pose proof (Rle_0_sqr t). lra. Qed.

Lemma cos_atan2 y x : (x <> 0 \/ y <> 0) -> sqrt (x*x + y*y) * cos (atan2 y x) = x.
Proof.
  intros Hnz. unfold atan2.
  destruct (Rlt_dec 0 x) as [Hx|Hx].
  - rewrite cos_atan, sqrt_sq_sum_pos by lra. pose proof (sqrt_1p_pos (y/x)). field. lra.
  - destruct (Rlt_dec x 0) as [Hx'|Hx'].
    + rewrite sqrt_sq_sum_neg by lra. pose proof (sqrt_1p_pos (y/x)).
      destruct (Rle_dec 0 y).
      * rewrite cos_plus, cos_PI, sin_PI, cos_atan. field. lra.
      * rewrite cos_minus, cos_PI, sin_PI, cos_atan. field. lra.
    + assert (x = 0) by lra. subst x. assert (y <> 0) by (destruct Hnz; lra).
      destruct (Rlt_dec 0 y); [rewrite cos_PI2; ring|].
      destruct (Rlt_dec y 0); [rewrite cos_neg, cos_PI2; ring| lra].
Qed.
Lemma sin_atan2 y x : (x <> 0 \/ y <> 0) -> sqrt (x*x + y*y) * sin (atan2 y x) = y.
Proof.
  intros Hnz. unfold atan2.
  destruct (Rlt_dec 0 x) as [Hx|Hx].
  - rewrite sin_atan, sqrt_sq_sum_pos by lra. pose proof (sqrt_1p_pos (y/x)). field. lra.
  - destruct (Rlt_dec x 0) as [Hx'|Hx'].
    + rewrite sqrt_sq_sum_neg by lra. pose proof (sqrt_1p_pos (y/x)).
      destruct (Rle_dec 0 y).
      * rewrite sin_plus, cos_PI, sin_PI, sin_atan. field. lra.
      * rewrite sin_minus, cos_PI, sin_PI, sin_atan. field. lra.
    + assert (x = 0) by lra. subst x. assert (Hy : y <> 0) by (destruct Hnz; lra).
      replace (0 * 0 + y * y) with (y * y) by ring.
      destruct (Rlt_dec 0 y) as [Hp|Hp].
      * rewrite sin_PI2, sqrt_square by lra. ring.
      * destruct (Rlt_dec y 0) as [Hn|Hn]; [|lra].
        rewrite sin_neg, sin_PI2. replace (y * y) with ((-y) * (-y)) by ring. rewrite sqrt_square by lra. ring.
Qed.
Lemma atan2_range y x : - PI < atan2 y x <= PI.
Proof.
  pose proof PI_RGT_0 as HPI. unfold atan2.
  destruct (Rlt_dec 0 x) as [Hx|Hx].
  - pose proof (atan_bound (y / x)). lra.
  - destruct (Rlt_dec x 0) as [Hx'|Hx'].
    + destruct (Rle_dec 0 y) as [Hy|Hy].
      * assert (y / x <= 0).
        { unfold Rdiv. assert (/ x < 0) by (apply Rinv_lt_0_compat; lra). nra. }
        assert (atan (y / x) <= 0).
        { rewrite <- atan_0. destruct H as [H|H]; [left; apply atan_increasing; exact H | right; rewrite H; reflexivity]. }
        pose proof (atan_bound (y / x)). lra.
      * assert (0 < y / x).
        { unfold Rdiv. assert (/ x < 0) by (apply Rinv_lt_0_compat; lra). nra. }
        assert (0 < atan (y / x)) by (rewrite <- atan_0; apply atan_increasing; assumption).
        pose proof (atan_bound (y / x)). lra.
    + destruct (Rlt_dec 0 y); [lra|]. destruct (Rlt_dec y 0); lra.
Qed.

(* polar form: atan2 recovers the angle of (k cos a, k sin a) for k > 0, a in (-PI, PI] *)
Lemma atan2_polar k a : 0 < k -> - PI < a <= PI -> atan2 (k * sin a) (k * cos a) = a.
Proof.
  intros Hk Ha. pose proof PI_RGT_0 as HPI.
  unfold atan2.
  destruct (Rtotal_order a (- (PI / 2))) as [H1|[H1|H1]].
  - (* a in (-PI, -PI/2): b = a + PI in (0, PI/2) *)
    set (b := a + PI).
    assert (Hcb : 0 < cos b) by (apply cos_gt_0; unfold b; lra).
    assert (Hsb : 0 < sin b) by (apply sin_gt_0; unfold b; lra).
    assert (Hc : cos a = - cos b) by (unfold b; rewrite neg_cos; ring).
    assert (Hs : sin a = - sin b) by (unfold b; rewrite neg_sin; ring).
    rewrite Hc, Hs.
    destruct (Rlt_dec 0 (k * - cos b)) as [Hx|Hx]; [nra|].
    destruct (Rlt_dec (k * - cos b) 0) as [Hx'|Hx']; [|nra].
    destruct (Rle_dec 0 (k * - sin b)) as [Hy|Hy]; [nra|].
    replace (k * - sin b / (k * - cos b)) with (tan b) by (unfold tan; field; split; lra).
    rewrite atan_tan by (unfold b; lra). unfold b; ring.
  - subst a. rewrite cos_neg, sin_neg, cos_PI2, sin_PI2.
    destruct (Rlt_dec 0 (k * 0)) as [Hx|Hx]; [lra|].
    destruct (Rlt_dec (k * 0) 0) as [Hx'|Hx']; [lra|].
    destruct (Rlt_dec 0 (k * - (1))) as [Hy|Hy]; [lra|].
    destruct (Rlt_dec (k * - (1)) 0) as [Hy'|Hy']; [reflexivity|lra].
  - destruct (Rtotal_order a (PI / 2)) as [H2|[H2|H2]].
    + assert (Hca : 0 < cos a) by (apply cos_gt_0; lra).
      destruct (Rlt_dec 0 (k * cos a)) as [Hx|Hx]; [|nra].
      replace (k * sin a / (k * cos a)) with (tan a) by (unfold tan; field; split; lra).
      apply atan_tan; lra.
    + subst a. rewrite cos_PI2, sin_PI2.
      destruct (Rlt_dec 0 (k * 0)) as [Hx|Hx]; [lra|].
      destruct (Rlt_dec (k * 0) 0) as [Hx'|Hx']; [lra|].
      destruct (Rlt_dec 0 (k * 1)) as [Hy|Hy]; [reflexivity|lra].
    + (* a in (PI/2, PI]: b = a - PI in (-PI/2, 0] *)
      set (b := a - PI).
      assert (Hcb : 0 < cos b) by (apply cos_gt_0; unfold b; lra).
      assert (Hsb : sin b <= 0).
      { destruct (Req_dec b 0) as [Hb0|Hb0]; [rewrite Hb0, sin_0; lra|].
        left; apply sin_lt_0_var; unfold b in *; lra. }
      assert (Hc : cos a = - cos b).
      { replace a with (b + PI) by (unfold b; ring). apply neg_cos. }
      assert (Hs : sin a = - sin b).
      { replace a with (b + PI) by (unfold b; ring). apply neg_sin. }
      rewrite Hc, Hs.
      destruct (Rlt_dec 0 (k * - cos b)) as [Hx|Hx]; [nra|].
      destruct (Rlt_dec (k * - cos b) 0) as [Hx'|Hx']; [|nra].
      destruct (Rle_dec 0 (k * - sin b)) as [Hy|Hy]; [|nra].
      replace (k * - sin b / (k * - cos b)) with (tan b) by (unfold tan; field; split; lra).
      rewrite atan_tan by (unfold b; lra). unfold b; ring.
Qed.

Lemma atan2_0_pos x : 0 < x -> atan2 0 x = 0.
Proof.
  intros Hx. unfold atan2. destruct (Rlt_dec 0 x) as [_|H]; [|lra].
  unfold Rdiv. rewrite Rmult_0_l. apply atan_0.
Qed.
Lemma atan2_0_0 : atan2 0 0 = 0.
Proof.
  unfold atan2. destruct (Rlt_dec 0 0) as [H|_]; [lra|]. destruct (Rlt_dec 0 0) as [H|_]; [lra|]. reflexivity.
Qed.
(* a non-negative first argument puts atan2 into [0, PI] *)
Lemma atan2_nonneg y x : 0 <= y -> 0 <= atan2 y x <= PI.
Proof.
  intros Hy. pose proof PI_RGT_0 as HPI. pose proof (atan2_range y x) as [_ Hu]. split; [|exact Hu].
  unfold atan2.
  destruct (Rlt_dec 0 x) as [Hx|Hx].
  - assert (H : 0 <= y / x).
    { unfold Rdiv. assert (0 < / x) by (apply Rinv_0_lt_compat; lra). nra. }
    rewrite <- atan_0. destruct H as [H|H]; [left; apply atan_increasing; exact H | right; rewrite <- H; reflexivity].
  - destruct (Rlt_dec x 0) as [Hx'|Hx'].
    + destruct (Rle_dec 0 y) as [_|Hn]; [|contradiction]. pose proof (atan_bound (y / x)). lra.
    + destruct (Rlt_dec 0 y); [lra|]. destruct (Rlt_dec y 0); lra.
Qed.
(* the angle of a unit vector (c, s) in the upper half plane is acos c *)
Lemma atan2_acos s c : 0 <= s -> s * s + c * c = 1 -> atan2 s c = acos c.
Proof.
  intros Hs Hu.
  assert (Hnz : c <> 0 \/ s <> 0).
  { destruct (Req_dec c 0) as [Hc|]; [|left; assumption]. right. intros H0. subst. lra. }
  pose proof (cos_atan2 s c Hnz) as Hc.
  replace (c * c + s * s) with 1 in Hc by lra. rewrite sqrt_1, Rmult_1_l in Hc.
  rewrite <- Hc at 2. symmetry. apply acos_cos. apply atan2_nonneg; assumption.
Qed.
(* half-angle bridge between the arccosine and the haversine form *)
Lemma acos_half_asin c : -1 <= c <= 1 -> acos c = 2 * asin (sqrt ((1 - c) / 2)).
Proof.
  intros Hc. pose proof (acos_bound c) as Hb. pose proof PI_RGT_0 as HPI.
  set (f := acos c) in *.
  assert (Hcf : c = cos f) by (unfold f; rewrite cos_acos; [reflexivity | lra]).
  assert (Hh : (1 - c) / 2 = sin (f / 2) * sin (f / 2)).
  { rewrite Hcf. replace f with (2 * (f / 2)) at 1 by field. rewrite cos_2a_sin. field. }
  assert (Hs : 0 <= sin (f / 2)) by (apply sin_ge_0; lra).
  rewrite Hh, sqrt_square by exact Hs. rewrite asin_sin by lra. field.
Qed.
(* ---------------------------------------------------------------------------------------- *)
(* gcd *)
(* the normal form in vector terms: sep_z = u.v and hypot sep_y sep_x = |u x v| = sqrt (1 - (u.v)^2) *)
Lemma sep_z_dot ra1 dec1 ra2 dec2 : sep_z ra1 dec1 ra2 dec2 = dot (uvec ra1 dec1) (uvec ra2 dec2).
Proof. rewrite dot_uvec. unfold sep_z. ring. Qed.
Lemma sep_bear ra1 dec1 ra2 dec2 :
  sep_y ra1 dec1 ra2 dec2 = bear_y ra1 dec1 ra2 dec2 /\ sep_x ra1 dec1 ra2 dec2 = bear_x ra1 dec1 ra2 dec2.
Proof. unfold sep_y, sep_x, bear_y, bear_x. split; ring. Qed.
Lemma sep_hyp ra1 dec1 ra2 dec2 :
  sep_y ra1 dec1 ra2 dec2 * sep_y ra1 dec1 ra2 dec2 + sep_x ra1 dec1 ra2 dec2 * sep_x ra1 dec1 ra2 dec2
  = 1 - sep_z ra1 dec1 ra2 dec2 * sep_z ra1 dec1 ra2 dec2.
Proof.
  unfold sep_y, sep_x, sep_z.
  pose proof (sin2_cos2 (rad dec1)) as H1. pose proof (sin2_cos2 (rad dec2)) as H2.
  pose proof (sin2_cos2 (rad (ra2 - ra1))) as H3. unfold Rsqr in *.
  set (s1 := sin (rad dec1)) in *; set (c1 := cos (rad dec1)) in *;
  set (s2 := sin (rad dec2)) in *; set (c2 := cos (rad dec2)) in *;
  set (sd := sin (rad (ra2 - ra1))) in *; set (cd := cos (rad (ra2 - ra1))) in *. nsatz.
Qed.
(* bridge from the atan2 form to the angle between the unit vectors: for unit vectors |u x v|^2 + (u.v)^2 = 1,
   so atan2 |u x v| (u.v) is the angle in [0, PI] whose cosine is u.v *)
Lemma gcd_acos ra1 dec1 ra2 dec2 :
  rad (gcd ra1 dec1 ra2 dec2) = acos (dot (uvec ra1 dec1) (uvec ra2 dec2)).
Proof.
  rewrite gcd_eq, rad_deg, <- sep_z_dot. apply atan2_acos.
  - unfold hypot. apply sqrt_pos.
  - pose proof (sep_hyp ra1 dec1 ra2 dec2) as Hh. unfold hypot. rewrite sqrt_sqrt; [lra|].
    pose proof (Rle_0_sqr (sep_y ra1 dec1 ra2 dec2)). pose proof (Rle_0_sqr (sep_x ra1 dec1 ra2 dec2)).
    unfold Rsqr in *. lra.
Qed.
(* the same statement with the cross product spelled out: gcd = atan2 |u x v| (u.v), the "independent vector formula" *)
Definition cross (u v : vec) : vec :=
  let '(a, b, c) := u in let '(d, e, f) := v in (b * f - c * e, c * d - a * f, a * e - b * d).
Definition norm (u : vec) : R := sqrt (dot u u).
Lemma cross_lagrange u v : dot (cross u v) (cross u v) = dot u u * dot v v - dot u v * dot u v.
Proof. destruct u as [[a b] c], v as [[d e] f]. unfold cross, dot. ring. Qed.
Lemma sep_cross ra1 dec1 ra2 dec2 :
  hypot (sep_y ra1 dec1 ra2 dec2) (sep_x ra1 dec1 ra2 dec2) = norm (cross (uvec ra1 dec1) (uvec ra2 dec2)).
Proof.
  unfold hypot, norm. rewrite cross_lagrange, sep_hyp, sep_z_dot.
  pose proof (uvec_unit ra1 dec1) as H1. pose proof (uvec_unit ra2 dec2) as H2. unfold unit in *.
  rewrite H1, H2. f_equal. ring.
Qed.
Lemma gcd_cross ra1 dec1 ra2 dec2 :
  gcd ra1 dec1 ra2 dec2 =
  deg (atan2 (norm (cross (uvec ra1 dec1) (uvec ra2 dec2))) (dot (uvec ra1 dec1) (uvec ra2 dec2))).
Proof. rewrite gcd_eq, sep_cross, sep_z_dot. reflexivity. Qed.
(* the haversine form (the text of gcd before the repair) is a derived normal form *)
Lemma gcd_asin ra1 dec1 ra2 dec2 :
  rad (gcd ra1 dec1 ra2 dec2) = 2 * asin (sqrt (hav ra1 dec1 ra2 dec2)) /\
  0 <= sqrt (hav ra1 dec1 ra2 dec2) <= 1.
Proof.
  pose proof (hav_range ra1 dec1 ra2 dec2) as [H0 H1].
  assert (Hs : 0 <= sqrt (hav ra1 dec1 ra2 dec2) <= 1).
  { split; [apply sqrt_pos|]. rewrite <- sqrt_1. apply sqrt_le_1_alt; lra. }
  split; [|exact Hs]. rewrite gcd_acos, hav_dot. apply acos_half_asin.
  apply dot_unit_range; apply uvec_unit.
Qed.
Lemma gcd_hav ra1 dec1 ra2 dec2 :
  gcd ra1 dec1 ra2 dec2 = deg (2 * asin (Rmin 1 (sqrt (hav ra1 dec1 ra2 dec2)))).
Proof.
  destruct (gcd_asin ra1 dec1 ra2 dec2) as [Hg Hs].
  rewrite Rmin_right by lra. rewrite <- Hg. symmetry; apply deg_rad.
Qed.

Lemma gcd_sym ra1 dec1 ra2 dec2 : gcd ra1 dec1 ra2 dec2 = gcd ra2 dec2 ra1 dec1.
Proof. rewrite !gcd_hav, hav_sym. reflexivity. Qed.

Lemma asin_range01 x : 0 <= x <= 1 -> 0 <= asin x <= PI / 2.
Proof.
  intros [H0 H1]. pose proof (asin_bound x) as [Hl Hu]. split; [|exact Hu].
  destruct (Rle_dec 0 (asin x)) as [|Hn]; [assumption|exfalso].
  assert (Hneg : asin x < 0) by lra.
  assert (Hsin : sin (asin x) < 0).
  { apply sin_lt_0_var; lra. }
  rewrite sin_asin in Hsin by lra. lra.
Qed.

Lemma gcd_rad_range ra1 dec1 ra2 dec2 : 0 <= rad (gcd ra1 dec1 ra2 dec2) <= PI.
Proof.
  destruct (gcd_asin ra1 dec1 ra2 dec2) as [-> Hs]. pose proof (asin_range01 _ Hs). lra.
Qed.
Lemma gcd_range ra1 dec1 ra2 dec2 : 0 <= gcd ra1 dec1 ra2 dec2 <= 180.
Proof.
  pose proof (gcd_rad_range ra1 dec1 ra2 dec2) as [H0 H1].
  rewrite <- (deg_rad (gcd ra1 dec1 ra2 dec2)). rewrite <- deg_0 at 1. rewrite <- deg_PI.
  split; apply deg_le; assumption.
Qed.

(* the separation is the angle between the unit vectors *)
Lemma gcd_vector ra1 dec1 ra2 dec2 :
  cos (rad (gcd ra1 dec1 ra2 dec2)) = dot (uvec ra1 dec1) (uvec ra2 dec2).
Proof.
  destruct (gcd_asin ra1 dec1 ra2 dec2) as [-> Hs].
  rewrite cos_2a_sin, sin_asin by lra.
  rewrite Rmult_assoc, sqrt_sqrt by apply hav_range.
  rewrite hav_dot. field.
Qed.
Lemma gcd_angle ra1 dec1 ra2 dec2 :
  gcd ra1 dec1 ra2 dec2 = deg (acos (dot (uvec ra1 dec1) (uvec ra2 dec2))).
Proof.
  rewrite <- gcd_vector, acos_cos by apply gcd_rad_range. symmetry; apply deg_rad.
Qed.
Lemma gcd_zero_iff ra1 dec1 ra2 dec2 :
  gcd ra1 dec1 ra2 dec2 = 0 <-> uvec ra1 dec1 = uvec ra2 dec2.
Proof.
  rewrite <- (dot_unit_one _ _ (uvec_unit ra1 dec1) (uvec_unit ra2 dec2)), <- gcd_vector. split.
  - intros ->. rewrite rad_0. apply cos_0.
  - intros H.
    pose proof (gcd_rad_range ra1 dec1 ra2 dec2) as Hr.
    assert (H0 : rad (gcd ra1 dec1 ra2 dec2) = 0).
    { apply cos_inj; [exact Hr | pose proof PI_RGT_0; lra | rewrite cos_0; exact H]. }
    rewrite <- (deg_rad (gcd ra1 dec1 ra2 dec2)), H0. apply deg_0.
Qed.
(* ---------------------------------------------------------------------------------------- *)
(* triangle inequality for the angle between unit vectors, then for gcd *)
Lemma angle_triangle_cos (p q r : vec) : unit p -> unit q -> unit r ->
  let X := dot p r - dot p q * dot q r in
  X * X <= (1 - dot p q * dot p q) * (1 - dot q r * dot q r).
Proof.
  destruct p as [[p1 p2] p3], q as [[q1 q2] q3], r as [[r1 r2] r3]. unfold unit, dot. intros Hp Hq Hr. cbv zeta.
  set (a := p1 * q1 + p2 * q2 + p3 * q3). set (b := q1 * r1 + q2 * r2 + q3 * r3).
  (* components of p and r orthogonal to q *)
  set (P1 := p1 - a * q1); set (P2 := p2 - a * q2); set (P3 := p3 - a * q3).
  set (R1 := r1 - b * q1); set (R2 := r2 - b * q2); set (R3 := r3 - b * q3).
  assert (HPP : P1 * P1 + P2 * P2 + P3 * P3 = 1 - a * a) by (unfold P1, P2, P3, a; nsatz).
  assert (HRR : R1 * R1 + R2 * R2 + R3 * R3 = 1 - b * b) by (unfold R1, R2, R3, b; nsatz).
  assert (HPR : P1 * R1 + P2 * R2 + P3 * R3 = p1 * r1 + p2 * r2 + p3 * r3 - a * b)
    by (unfold P1, P2, P3, R1, R2, R3, a, b; nsatz).
  rewrite <- HPP, <- HRR, <- HPR.
  (* Lagrange identity *)
  assert (HL : (P1 * P1 + P2 * P2 + P3 * P3) * (R1 * R1 + R2 * R2 + R3 * R3)
               - (P1 * R1 + P2 * R2 + P3 * R3) * (P1 * R1 + P2 * R2 + P3 * R3)
               = (P1 * R2 - P2 * R1) * (P1 * R2 - P2 * R1) + (P1 * R3 - P3 * R1) * (P1 * R3 - P3 * R1)
                 + (P2 * R3 - P3 * R2) * (P2 * R3 - P3 * R2)) by ring.
  pose proof (Rle_0_sqr (P1 * R2 - P2 * R1)). pose proof (Rle_0_sqr (P1 * R3 - P3 * R1)).
  pose proof (Rle_0_sqr (P2 * R3 - P3 * R2)). unfold Rsqr in *. lra.
Qed.

Lemma gcd_triangle ra1 dec1 ra2 dec2 ra3 dec3 :
  gcd ra1 dec1 ra3 dec3 <= gcd ra1 dec1 ra2 dec2 + gcd ra2 dec2 ra3 dec3.
Proof.
  pose proof PI_RGT_0 as HPI.
  set (a := rad (gcd ra1 dec1 ra2 dec2)). set (b := rad (gcd ra2 dec2 ra3 dec3)).
  set (c := rad (gcd ra1 dec1 ra3 dec3)).
  assert (Hgoal : c <= a + b).
  2:{ unfold a, b, c, rad in Hgoal. nra. }
  pose proof (gcd_rad_range ra1 dec1 ra2 dec2) as Ha. fold a in Ha.
  pose proof (gcd_rad_range ra2 dec2 ra3 dec3) as Hb. fold b in Hb.
  pose proof (gcd_rad_range ra1 dec1 ra3 dec3) as Hc. fold c in Hc.
  destruct (Rle_dec PI (a + b)) as [Hbig|Hsmall]; [lra|].
  apply cos_decr_0; try lra.
  rewrite cos_plus.
  pose proof (angle_triangle_cos _ _ _ (uvec_unit ra1 dec1) (uvec_unit ra2 dec2) (uvec_unit ra3 dec3)) as HX.
  cbv zeta in HX. rewrite <- !gcd_vector in HX. fold a b c in HX.
  assert (Hsa : 0 <= sin a) by (apply sin_ge_0; lra).
  assert (Hsb : 0 <= sin b) by (apply sin_ge_0; lra).
  pose proof (sin2_cos2 a) as H2a. pose proof (sin2_cos2 b) as H2b. unfold Rsqr in *.
  replace (1 - cos a * cos a) with (sin a * sin a) in HX by lra.
  replace (1 - cos b * cos b) with (sin b * sin b) in HX by lra.
  set (X := cos c - cos a * cos b) in *. set (S := sin a * sin b).
  assert (HS : 0 <= S) by (unfold S; nra).
  assert (HXS : X * X <= S * S) by (unfold S; nra).
  assert (- S <= X) by nra.
  unfold X, S in *. lra.
Qed.
(* ---------------------------------------------------------------------------------------- *)
(* bearing = position angle: the direction of point 2 seen from point 1, measured in the tangent
   plane at point 1 from local north through local east *)
Lemma bear_frame ra1 dec1 ra2 dec2 :
  bear_y ra1 dec1 ra2 dec2 = dot (uvec ra2 dec2) (east ra1 dec1) /\
  bear_x ra1 dec1 ra2 dec2 = dot (uvec ra2 dec2) (north ra1 dec1).
Proof.
  unfold bear_y, bear_x, dot, uvec, east, north. rewrite rad_sub, sin_minus, cos_minus. split; ring.
Qed.
Lemma bear_range ra1 dec1 ra2 dec2 : -180 < bear ra1 dec1 ra2 dec2 <= 180.
Proof.
  rewrite bear_eq. pose proof (atan2_range (bear_y ra1 dec1 ra2 dec2) (bear_x ra1 dec1 ra2 dec2)) as [Hl Hu].
  pose proof PI_RGT_0 as HPI.
  split.
  - replace (-180) with (deg (- PI)) by (unfold deg; field; lra).
    unfold deg. apply Rmult_lt_compat_r; [apply Rinv_0_lt_compat; lra | lra].
  - rewrite <- deg_PI. apply deg_le. assumption.
Qed.
(* (bear_x, bear_y) has length sin(separation) *)
Lemma bear_hyp ra1 dec1 ra2 dec2 :
  bear_x ra1 dec1 ra2 dec2 * bear_x ra1 dec1 ra2 dec2 + bear_y ra1 dec1 ra2 dec2 * bear_y ra1 dec1 ra2 dec2
  = 1 - dot (uvec ra1 dec1) (uvec ra2 dec2) * dot (uvec ra1 dec1) (uvec ra2 dec2).
Proof.
  rewrite dot_uvec. unfold bear_x, bear_y.
  pose proof (sin2_cos2 (rad dec1)) as H1. pose proof (sin2_cos2 (rad dec2)) as H2.
  pose proof (sin2_cos2 (rad (ra2 - ra1))) as H3. unfold Rsqr in *.
  set (s1 := sin (rad dec1)) in *; set (c1 := cos (rad dec1)) in *;
  set (s2 := sin (rad dec2)) in *; set (c2 := cos (rad dec2)) in *;
  set (sd := sin (rad (ra2 - ra1))) in *; set (cd := cos (rad (ra2 - ra1))) in *. nsatz.
Qed.
Lemma bear_polar ra1 dec1 ra2 dec2 :
  0 < gcd ra1 dec1 ra2 dec2 < 180 ->
  let d := rad (gcd ra1 dec1 ra2 dec2) in let t := rad (bear ra1 dec1 ra2 dec2) in
  bear_x ra1 dec1 ra2 dec2 = sin d * cos t /\ bear_y ra1 dec1 ra2 dec2 = sin d * sin t.
Proof.
  intros Hg. cbv zeta. pose proof PI_RGT_0 as HPI.
  set (d := rad (gcd ra1 dec1 ra2 dec2)).
  assert (Hd : 0 < d < PI) by (unfold d, rad; split; nra).
  assert (Hsd : 0 < sin d) by (apply sin_gt_0; lra).
  pose proof (bear_hyp ra1 dec1 ra2 dec2) as Hh. rewrite <- gcd_vector in Hh. fold d in Hh.
  set (x := bear_x ra1 dec1 ra2 dec2) in *. set (y := bear_y ra1 dec1 ra2 dec2) in *.
  assert (Hsq : x * x + y * y = sin d * sin d).
  { pose proof (sin2_cos2 d) as H2. unfold Rsqr in H2. lra. }
  assert (Hsqrt : sqrt (x * x + y * y) = sin d) by (rewrite Hsq; apply sqrt_square; lra).
  assert (Hnz : x <> 0 \/ y <> 0).
  { destruct (Req_dec x 0) as [Hx0|]; [|left; assumption]. right; intros Hy0. rewrite Hx0, Hy0 in Hsq. nra. }
  rewrite bear_eq, rad_deg. fold x y.
  pose proof (cos_atan2 y x Hnz) as Hc. pose proof (sin_atan2 y x Hnz) as Hs. rewrite Hsqrt in Hc, Hs.
  split; symmetry; assumption.
Qed.

(* ---------------------------------------------------------------------------------------- *)
(* translate: the destination point lies at distance r and initial bearing theta *)
Section Translate.
  Variables ra dec r theta : R.
  Let F := tr_factor dec r theta.
  Let x := tr_x dec r theta.
  Let y := tr_y dec r theta.
  Let ra' := fst (translate ra dec r theta).
  Let dec' := snd (translate ra dec r theta).

  Lemma translate_fst : ra' = ra + deg (atan2 y x).
  Proof. unfold ra'. rewrite translate_eq. reflexivity. Qed.
  Lemma translate_snd : dec' = deg (asin F).
  Proof. unfold dec'. rewrite translate_eq. reflexivity. Qed.
  Lemma translate_sin_dec : sin (rad dec') = F.
  Proof. rewrite translate_snd, rad_deg. apply sin_asin, factor_range. Qed.
  Lemma translate_dec_range : -90 <= dec' <= 90.
  Proof.
    rewrite translate_snd. pose proof (asin_bound F) as [Hl Hu]. pose proof PI_RGT_0 as HPI.
    replace (-90) with (deg (- (PI / 2))) by (unfold deg; field; lra).
    replace 90 with (deg (PI / 2)) by (unfold deg; field; lra).
    split; apply deg_le; assumption.
  Qed.

  Hypothesis Hdec : -90 < dec < 90.
  Hypothesis Hdec' : -90 < dec' < 90.

  Lemma translate_cos_pos : 0 < cos (rad dec) /\ 0 < cos (rad dec').
  Proof. pose proof PI_RGT_0. split; apply cos_gt_0; unfold rad; nra. Qed.

  (* the key identity: (x, y) has length cos dec * cos dec' *)
  Lemma translate_key : x * x + y * y = (cos (rad dec) * cos (rad dec')) * (cos (rad dec) * cos (rad dec')).
  Proof.
    pose proof (sin2_cos2 (rad dec)) as H1. pose proof (sin2_cos2 (rad r)) as H2.
    pose proof (sin2_cos2 (rad theta)) as H3. pose proof (sin2_cos2 (rad dec')) as H4.
    rewrite translate_sin_dec in H4.
    unfold x, y, tr_x, tr_y. unfold F in H4. unfold tr_factor in *. unfold Rsqr in *.
    set (s := sin (rad dec)) in *; set (c := cos (rad dec)) in *; set (sr := sin (rad r)) in *; set (cr := cos (rad r)) in *;
    set (st := sin (rad theta)) in *; set (ct := cos (rad theta)) in *; set (c' := cos (rad dec')) in *.
    nsatz.
  Qed.
  Lemma translate_dlon : let L := atan2 y x in
    cos (rad dec) * cos (rad dec') * cos L = x /\ cos (rad dec) * cos (rad dec') * sin L = y.
  Proof.
    cbv zeta. destruct translate_cos_pos as [Hc Hc'].
    assert (Hsqrt : sqrt (x * x + y * y) = cos (rad dec) * cos (rad dec')).
    { rewrite translate_key. apply sqrt_square. nra. }
    assert (Hnz : x <> 0 \/ y <> 0).
    { destruct (Req_dec x 0) as [Hx0|]; [|left; assumption]. right. intro Hy0.
      pose proof translate_key as Hk. rewrite Hx0, Hy0 in Hk.
      assert (Hp : 0 < cos (rad dec) * cos (rad dec')) by (apply Rmult_lt_0_compat; assumption). nra. }
    pose proof (cos_atan2 y x Hnz) as H1. pose proof (sin_atan2 y x Hnz) as H2. rewrite Hsqrt in H1, H2.
    split; assumption.
  Qed.

  Lemma translate_hav : hav ra dec ra' dec' = sin (rad r / 2) ^ 2.
  Proof.
    destruct translate_cos_pos as [Hc Hc']. destruct translate_dlon as [HL _]. pose proof PI_RGT_0 as HPI.
    rewrite hav_dot, dot_uvec, sin2_half, translate_sin_dec.
    replace (rad (ra' - ra)) with (atan2 y x) by (rewrite translate_fst; unfold rad, deg; field; lra).
    rewrite HL. unfold x, tr_x. fold F. field.
  Qed.

  Theorem translate_gcd : 0 < r < 180 -> gcd ra dec ra' dec' = r.
  Proof.
    intros Hr. pose proof PI_RGT_0 as HPI.
    rewrite gcd_hav, translate_hav.
    assert (Hhalf : 0 < rad r / 2 < PI / 2) by (unfold rad; split; nra).
    assert (Hs : 0 < sin (rad r / 2)) by (apply sin_gt_0; lra).
    replace (sin (rad r / 2) ^ 2) with (sin (rad r / 2) * sin (rad r / 2)) by ring.
    rewrite sqrt_square by lra.
    rewrite Rmin_right by (pose proof (SIN_bound (rad r / 2)); lra).
    rewrite asin_sin by lra.
    replace (2 * (rad r / 2)) with (rad r) by field. apply deg_rad.
  Qed.

  Theorem translate_bear : 0 < r < 180 -> -180 < theta <= 180 -> bear ra dec ra' dec' = theta.
  Proof.
    intros Hr Ht. pose proof PI_RGT_0 as HPI.
    destruct translate_cos_pos as [Hc Hc']. destruct translate_dlon as [HLc HLs].
    assert (Hsr : 0 < sin (rad r)) by (apply sin_gt_0; unfold rad; nra).
    rewrite bear_eq. unfold bear_y, bear_x. rewrite translate_sin_dec.
    replace (rad (ra' - ra)) with (atan2 y x) by (rewrite translate_fst; unfold rad, deg; field; lra).
    set (L := atan2 y x) in *.
    assert (HY : sin L * cos (rad dec') = sin (rad r) * sin (rad theta)).
    { apply Rmult_eq_reg_l with (cos (rad dec)); [|lra].
      transitivity y; [rewrite <- HLs; ring | unfold y, tr_y; ring]. }
    assert (HX : cos (rad dec) * F - sin (rad dec) * cos (rad dec') * cos L = sin (rad r) * cos (rad theta)).
    { apply Rmult_eq_reg_l with (cos (rad dec)); [|lra].
      transitivity (cos (rad dec) * cos (rad dec) * F - sin (rad dec) * x); [rewrite <- HLc; ring|].
      unfold x, tr_x. fold F. unfold F, tr_factor.
      pose proof (sin2_cos2 (rad dec)) as H1. unfold Rsqr in H1.
      set (s := sin (rad dec)) in *; set (c := cos (rad dec)) in *. nsatz. }
    rewrite HY, HX, atan2_polar; [apply deg_rad | assumption | unfold rad; split; nra].
  Qed.
End Translate.

(* r = 0: the point itself (also at the poles) *)
Lemma translate_zero ra dec theta : -90 <= dec <= 90 -> translate ra dec 0 theta = (ra, dec).
Proof.
  intros Hdec. pose proof PI_RGT_0 as HPI. rewrite translate_eq. unfold tr_y, tr_x, tr_factor.
  rewrite rad_0, sin_0, cos_0.
  replace (sin (rad dec) * 1 + cos (rad dec) * 0 * cos (rad theta)) with (sin (rad dec)) by ring.
  replace (sin (rad theta) * 0 * cos (rad dec)) with 0 by ring.
  pose proof (sin2_cos2 (rad dec)) as H1. unfold Rsqr in H1.
  replace (1 - sin (rad dec) * sin (rad dec)) with (cos (rad dec) * cos (rad dec)) by lra.
  rewrite asin_sin by (unfold rad; split; nra). rewrite deg_rad.
  assert (Hat : atan2 0 (cos (rad dec) * cos (rad dec)) = 0).
  { destruct (Req_dec (cos (rad dec)) 0) as [H0|H0].
    - rewrite H0, Rmult_0_l. apply atan2_0_0.
    - apply atan2_0_pos. nra. }
  rewrite Hat, deg_0. f_equal. ring.
Qed.
