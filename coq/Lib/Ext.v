(* Extended pixel values (finite / -inf / +inf / NaN) and the fill used for non-finite pixels before a
   rank filter - used by the curvature leaves of C13 (tools/points_c13.py). *)
From Coq Require Import ZArith Bool List Lia.
Import ListNotations.
Open Scope Z_scope.

Inductive ev := Fin (z : Z) | NInf | PInf | NaN.
Definition neg_ev (x : ev) : ev :=
  match x with Fin z => Fin (- z) | NInf => PInf | PInf => NInf | NaN => NaN end.
(* float == : NaN is equal to nothing *)
Definition ev_eqb (x y : ev) : bool :=
  match x, y with
  | Fin a, Fin b => a =? b
  | NInf, NInf => true
  | PInf, PInf => true
  | _, _ => false
  end.

(* np.where(np.isfinite(x), x, FILL): what replaces the non-finite pixels (FillNone: nothing is replaced) *)
Inductive fill := FillNone | FillNegInf | FillPosInf | FillConst (z : Z).
Definition apply_fill (f : fill) (x : ev) : ev :=
  match f, x with
  | FillNone, _ => x
  | _, Fin z => x
  | FillNegInf, _ => NInf
  | FillPosInf, _ => PInf
  | FillConst z, _ => Fin z
  end.
Definition neg_fill (f : fill) : fill :=
  match f with FillNone => FillNone | FillNegInf => FillPosInf | FillPosInf => FillNegInf
             | FillConst z => FillConst (- z) end.

Lemma neg_ev_invol : forall x, neg_ev (neg_ev x) = x.
Proof. intros [z| | |]; cbn [neg_ev]; try reflexivity. rewrite Z.opp_involutive. reflexivity. Qed.
Lemma neg_fill_invol : forall f, neg_fill (neg_fill f) = f.
Proof. intros [| | |z]; cbn [neg_fill]; try reflexivity. rewrite Z.opp_involutive. reflexivity. Qed.
Lemma ev_eqb_neg : forall x y, ev_eqb (neg_ev x) (neg_ev y) = ev_eqb x y.
Proof.
  intros [a| | |] [b| | |]; cbn [neg_ev ev_eqb]; try reflexivity.
  destruct (Z.eqb_spec a b) as [->|Hne]; [apply Z.eqb_refl|apply Z.eqb_neq; lia].
Qed.
Lemma apply_fill_neg : forall f x, apply_fill (neg_fill f) (neg_ev x) = neg_ev (apply_fill f x).
Proof. intros [| | |z] [a| | |]; reflexivity. Qed.

(* rank filters on windows without NaN (-inf < finite < +inf); with NaN in the window the result of
   scipy's filters is whatever its running comparison leaves - not modelled *)
Definition ev_leb (x y : ev) : bool :=
  match x, y with
  | NInf, _ => true | _, PInf => true
  | Fin a, Fin b => a <=? b
  | _, _ => false
  end.
Definition max_ev (l : list ev) : ev :=
  match l with [] => NaN | a :: t => fold_left (fun m x => if ev_leb m x then x else m) t a end.
Definition min_ev (l : list ev) : ev :=
  match l with [] => NaN | a :: t => fold_left (fun m x => if ev_leb x m then x else m) t a end.
