(* Linear interpolation on a rectilinear grid over Q (the contract of
   scipy.interpolate.RegularGridInterpolator(method='linear') in two dimensions).

   rgi_spec  : the library contract used as an explicit hypothesis by the C15 theorems: at a point
               that lies in cell (i, j) of strictly increasing axes the value is the bilinear
               combination of the four corner values of that cell (any cell that contains the point).
   bilinear  : an executable instance (scan for the cell, then the formula), with the proof that it
               satisfies rgi_spec - so the contract is consistent and the C15 theorems are not vacuous.
   Axiom-free. *)
From Coq Require Import ZArith QArith Qfield Lqa Lia List Bool.
Import ListNotations.
Open Scope Q_scope.

Definition bilin_cell (x0 x1 y0 y1 v00 v01 v10 v11 x y : Q) : Q :=
  let tx := (x - x0) / (x1 - x0) in
  let ty := (y - y0) / (y1 - y0) in
  (1 - tx) * (1 - ty) * v00 + (1 - tx) * ty * v01 + tx * (1 - ty) * v10 + tx * ty * v11.

(* value at (x, y) computed from cell (i, j) of the axes rn (rows) and cn (columns) *)
Definition cell_value (rn cn : Z -> Q) (v : Z -> Z -> Q) (i j : Z) (x y : Q) : Q :=
  bilin_cell (rn i) (rn (i + 1)%Z) (cn j) (cn (j + 1)%Z)
             (v i j) (v i (j + 1)%Z) (v (i + 1)%Z j) (v (i + 1)%Z (j + 1)%Z) x y.

(* an axis is the function k |-> node k on indices 0 .. n-1 *)
Definition increasing (g : Z -> Q) (n : Z) : Prop :=
  forall k, (0 <= k)%Z -> (k + 1 < n)%Z -> g k < g (k + 1)%Z.

Definition in_cell (g : Z -> Q) (n i : Z) (x : Q) : Prop :=
  (0 <= i)%Z /\ (i + 1 < n)%Z /\ g i <= x /\ x <= g (i + 1)%Z.

Definition interpolator := (Z -> Q) -> Z -> (Z -> Q) -> Z -> (Z -> Z -> Q) -> Q -> Q -> Q.

Definition rgi_spec (rgi : interpolator) : Prop :=
  forall rn nr cn nc v x y i j,
    increasing rn nr -> increasing cn nc -> in_cell rn nr i x -> in_cell cn nc j y ->
    rgi rn nr cn nc v x y == cell_value rn cn v i j x y.

(* ---- what the library checks before it interpolates: strictly ascending axes, query inside *)
Fixpoint zrange_from (a : Z) (n : nat) : list Z :=
  match n with O => [] | S m => a :: zrange_from (a + 1)%Z m end.
Definition zrange (n : Z) : list Z := zrange_from 0%Z (Z.to_nat n).

Definition Qlt_bool (a b : Q) : bool := negb (Qle_bool b a).

Definition increasingb (g : Z -> Q) (n : Z) : bool :=
  forallb (fun k => Qlt_bool (g k) (g (k + 1)%Z)) (zrange (n - 1)).

(* the axis has >= 2 nodes, is strictly ascending, and [lo, hi] lies inside [g 0, g (n-1)] *)
Definition axis_ok (g : Z -> Q) (n : Z) (lo hi : Q) : bool :=
  (2 <=? n)%Z && increasingb g n && Qle_bool (g 0%Z) lo && Qle_bool hi (g (n - 1)%Z).

(* ---- executable instance *)
Fixpoint find_from (g : Z -> Q) (x : Q) (fuel : nat) (i : Z) : Z :=
  match fuel with
  | O => i
  | S m => if Qle_bool x (g (i + 1)%Z) then i else find_from g x m (i + 1)%Z
  end.

Definition find_cell (g : Z -> Q) (n : Z) (x : Q) : Z := find_from g x (Z.to_nat (n - 2)) 0%Z.

Definition bilinear : interpolator :=
  fun rn nr cn nc v x y => cell_value rn cn v (find_cell rn nr x) (find_cell cn nc y) x y.

(* ======================================================================================= *)
(* lemmas *)

(* side conditions of `field`: denominators are differences of strictly ordered nodes *)
Ltac nonzero := repeat split; intros ZZ; lra.

Lemma Qlt_bool_iff a b : Qlt_bool a b = true <-> a < b.
Proof.
  unfold Qlt_bool. rewrite negb_true_iff. split.
  - intros H. apply Qnot_le_lt. intros L. apply Qle_bool_iff in L. congruence.
  - intros H. destruct (Qle_bool b a) eqn:E; [|reflexivity].
    apply Qle_bool_iff in E. exfalso. apply (Qlt_not_le _ _ H E).
Qed.

Lemma in_zrange_from k : forall n a, In k (zrange_from a n) <-> (a <= k < a + Z.of_nat n)%Z.
Proof.
  induction n as [|n IH]; intros a; cbn [zrange_from In].
  - lia.
  - rewrite IH. lia.
Qed.

Lemma in_zrange k n : In k (zrange n) <-> (0 <= k < n)%Z.
Proof. unfold zrange. rewrite in_zrange_from. lia. Qed.

Lemma increasingb_iff g n : increasingb g n = true <-> increasing g n.
Proof.
  unfold increasingb, increasing. rewrite forallb_forall. split.
  - intros H k H0 H1. apply Qlt_bool_iff. apply H. apply in_zrange. lia.
  - intros H k Hk. apply in_zrange in Hk. apply Qlt_bool_iff. apply H; lia.
Qed.

Lemma axis_ok_iff g n lo hi :
  axis_ok g n lo hi = true <-> ((2 <= n)%Z /\ increasing g n /\ g 0%Z <= lo /\ hi <= g (n - 1)%Z).
Proof.
  unfold axis_ok. rewrite !andb_true_iff, Z.leb_le, increasingb_iff, !Qle_bool_iff. tauto.
Qed.

Lemma increasing_lt g n : increasing g n ->
  forall a b, (0 <= a)%Z -> (a < b)%Z -> (b < n)%Z -> g a < g b.
Proof.
  intros Hinc a b Ha Hab Hb.
  assert (G : forall d : nat, (a + 1 + Z.of_nat d < n)%Z -> g a < g (a + 1 + Z.of_nat d)%Z).
  { induction d as [|d IH]; intros Hd.
    - replace (a + 1 + Z.of_nat 0)%Z with (a + 1)%Z by lia. apply Hinc; lia.
    - apply Qlt_trans with (g (a + 1 + Z.of_nat d)%Z).
      + apply IH. lia.
      + replace (a + 1 + Z.of_nat (S d))%Z with ((a + 1 + Z.of_nat d) + 1)%Z by lia.
        apply Hinc; lia. }
  replace b with (a + 1 + Z.of_nat (Z.to_nat (b - a - 1)))%Z by lia.
  apply G. lia.
Qed.

Lemma find_from_in_cell g n x : increasing g n -> x <= g (n - 1)%Z ->
  forall fuel i, (0 <= i)%Z -> (i + Z.of_nat fuel = n - 2)%Z -> g i <= x ->
  in_cell g n (find_from g x fuel i) x.
Proof.
  intros Hinc Hhi. induction fuel as [|m IH]; intros i Hi Hf Hlo; cbn [find_from].
  - unfold in_cell. repeat split; try lia; [exact Hlo|].
    replace (i + 1)%Z with (n - 1)%Z by lia. exact Hhi.
  - destruct (Qle_bool x (g (i + 1)%Z)) eqn:E.
    + apply Qle_bool_iff in E. unfold in_cell. repeat split; try lia; assumption.
    + apply IH; try lia.
      apply Qlt_le_weak. apply Qnot_le_lt. intros L. apply Qle_bool_iff in L. congruence.
Qed.

Lemma find_cell_in_cell g n x : (2 <= n)%Z -> increasing g n -> g 0%Z <= x -> x <= g (n - 1)%Z ->
  in_cell g n (find_cell g n x) x.
Proof.
  intros Hn Hinc Hlo Hhi. unfold find_cell. apply find_from_in_cell; try assumption; lia.
Qed.

(* two cells of a strictly increasing axis that both contain x are equal or adjacent with x on
   the shared node *)
Lemma cells_containing g n x i i' : increasing g n -> in_cell g n i x -> in_cell g n i' x ->
  i = i' \/ (i' = i + 1 /\ x == g (i + 1))%Z \/ (i = i' + 1 /\ x == g (i' + 1))%Z.
Proof.
  intros Hinc (Hi0 & Hi1 & Hlo & Hhi) (Hj0 & Hj1 & Hlo' & Hhi').
  destruct (Z.lt_trichotomy i i') as [H|[H|H]]; [|left; exact H|].
  - right; left.
    destruct (Z.eq_dec i' (i + 1)) as [->|N].
    + split; [reflexivity|]. apply Qle_antisym; assumption.
    + exfalso. pose proof (increasing_lt g n Hinc (i + 1)%Z i' ltac:(lia) ltac:(lia) ltac:(lia)) as L.
      apply (Qlt_not_le _ _ L). apply Qle_trans with x; assumption.
  - right; right.
    destruct (Z.eq_dec i (i' + 1)) as [->|N].
    + split; [reflexivity|]. apply Qle_antisym; assumption.
    + exfalso. pose proof (increasing_lt g n Hinc (i' + 1)%Z i ltac:(lia) ltac:(lia) ltac:(lia)) as L.
      apply (Qlt_not_le _ _ L). apply Qle_trans with x; assumption.
Qed.

(* the value does not depend on which containing cell is used along the row axis ... *)
Lemma cell_value_row_indep rn nr cn v i i' j x y : increasing rn nr -> cn j < cn (j + 1)%Z ->
  in_cell rn nr i x -> in_cell rn nr i' x ->
  cell_value rn cn v i j x y == cell_value rn cn v i' j x y.
Proof.
  intros Hinc Hother Hi Hi'.
  assert (K : forall a, in_cell rn nr a x -> in_cell rn nr (a + 1) x -> x == rn (a + 1)%Z ->
              cell_value rn cn v a j x y == cell_value rn cn v (a + 1) j x y).
  { intros a (A0 & A1 & _ & _) (B0 & B1 & _ & _) E.
    pose proof (Hinc a A0 A1) as L1. pose proof (Hinc (a + 1)%Z B0 B1) as L2.
    unfold cell_value, bilin_cell. rewrite E. field. nonzero. }
  destruct (cells_containing rn nr x i i' Hinc Hi Hi') as [->|[[-> E]|[-> E]]].
  - reflexivity.
  - apply K; assumption.
  - symmetry. apply K; assumption.
Qed.

(* ... nor along the column axis *)
Lemma cell_value_col_indep rn cn nc v i j j' x y : increasing cn nc -> rn i < rn (i + 1)%Z ->
  in_cell cn nc j y -> in_cell cn nc j' y ->
  cell_value rn cn v i j x y == cell_value rn cn v i j' x y.
Proof.
  intros Hinc Hother Hj Hj'.
  assert (K : forall a, in_cell cn nc a y -> in_cell cn nc (a + 1) y -> y == cn (a + 1)%Z ->
              cell_value rn cn v i a x y == cell_value rn cn v i (a + 1) x y).
  { intros a (A0 & A1 & _ & _) (B0 & B1 & _ & _) E.
    pose proof (Hinc a A0 A1) as L1. pose proof (Hinc (a + 1)%Z B0 B1) as L2.
    unfold cell_value, bilin_cell. rewrite E. field. nonzero. }
  destruct (cells_containing cn nc y j j' Hinc Hj Hj') as [->|[[-> E]|[-> E]]].
  - reflexivity.
  - apply K; assumption.
  - symmetry. apply K; assumption.
Qed.

Theorem bilinear_spec : rgi_spec bilinear.
Proof.
  intros rn nr cn nc v x y i j Hr Hc Hi Hj. unfold bilinear.
  assert (Fi : in_cell rn nr (find_cell rn nr x) x).
  { destruct Hi as (I0 & I1 & Lo & Hi').
    apply find_cell_in_cell; try assumption; try lia.
    - apply Qle_trans with (rn i); [|exact Lo].
      destruct (Z.eq_dec i 0) as [->|N]; [apply Qle_refl|].
      apply Qlt_le_weak. apply (increasing_lt rn nr Hr); lia.
    - apply Qle_trans with (rn (i + 1)%Z); [exact Hi'|].
      destruct (Z.eq_dec (i + 1) (nr - 1)) as [->|N]; [apply Qle_refl|].
      apply Qlt_le_weak. apply (increasing_lt rn nr Hr); lia. }
  assert (Fj : in_cell cn nc (find_cell cn nc y) y).
  { destruct Hj as (I0 & I1 & Lo & Hi').
    apply find_cell_in_cell; try assumption; try lia.
    - apply Qle_trans with (cn j); [|exact Lo].
      destruct (Z.eq_dec j 0) as [->|N]; [apply Qle_refl|].
      apply Qlt_le_weak. apply (increasing_lt cn nc Hc); lia.
    - apply Qle_trans with (cn (j + 1)%Z); [exact Hi'|].
      destruct (Z.eq_dec (j + 1) (nc - 1)) as [->|N]; [apply Qle_refl|].
      apply Qlt_le_weak. apply (increasing_lt cn nc Hc); lia. }
  assert (Lc : cn (find_cell cn nc y) < cn (find_cell cn nc y + 1)%Z)
    by (destruct Fj as (? & ? & _); apply Hc; assumption).
  assert (Lr : rn i < rn (i + 1)%Z) by (destruct Hi as (? & ? & _); apply Hr; assumption).
  rewrite (cell_value_row_indep rn nr cn v _ i _ x y Hr Lc Fi Hi).
  apply (cell_value_col_indep rn cn nc v i _ j x y Hc Lr Fj Hj).
Qed.

(* ---- consequences of the contract that the C15 proofs use (about cell_value only) *)

(* at the lower-left corner of a cell the value is the corner value *)
Lemma cell_value_corner rn cn v i j x y :
  rn i < rn (i + 1)%Z -> cn j < cn (j + 1)%Z -> x == rn i -> y == cn j ->
  cell_value rn cn v i j x y == v i j.
Proof.
  intros L1 L2 Ex Ey. unfold cell_value, bilin_cell. rewrite Ex, Ey. field. nonzero.
Qed.

Lemma lerp_range lo hi a b t : 0 <= t -> t <= 1 -> lo <= a -> a <= hi -> lo <= b -> b <= hi ->
  lo <= (1 - t) * a + t * b /\ (1 - t) * a + t * b <= hi.
Proof.
  intros T0 T1 A0 A1 B0 B1.
  assert (P1 : 0 <= (1 - t) * (a - lo)) by (apply Qmult_le_0_compat; lra).
  assert (P2 : 0 <= t * (b - lo)) by (apply Qmult_le_0_compat; lra).
  assert (P3 : 0 <= (1 - t) * (hi - a)) by (apply Qmult_le_0_compat; lra).
  assert (P4 : 0 <= t * (hi - b)) by (apply Qmult_le_0_compat; lra).
  split; lra.
Qed.

Lemma frac_01 x0 x1 x : x0 < x1 -> x0 <= x -> x <= x1 ->
  0 <= (x - x0) / (x1 - x0) /\ (x - x0) / (x1 - x0) <= 1.
Proof.
  intros L A B. assert (D : 0 < x1 - x0) by lra. split.
  - apply Qle_shift_div_l; [exact D|]. lra.
  - apply Qle_shift_div_r; [exact D|]. lra.
Qed.

(* a point of a cell gets a convex combination of the four corner values *)
Lemma cell_value_range rn cn v i j x y lo hi :
  rn i < rn (i + 1)%Z -> cn j < cn (j + 1)%Z ->
  rn i <= x -> x <= rn (i + 1)%Z -> cn j <= y -> y <= cn (j + 1)%Z ->
  (forall a b, (i <= a <= i + 1)%Z -> (j <= b <= j + 1)%Z -> lo <= v a b /\ v a b <= hi) ->
  lo <= cell_value rn cn v i j x y /\ cell_value rn cn v i j x y <= hi.
Proof.
  intros L1 L2 X0 X1 Y0 Y1 HV. unfold cell_value, bilin_cell.
  destruct (frac_01 _ _ _ L1 X0 X1) as [TX0 TX1].
  destruct (frac_01 _ _ _ L2 Y0 Y1) as [TY0 TY1].
  set (tx := (x - rn i) / (rn (i + 1)%Z - rn i)) in *.
  set (ty := (y - cn j) / (cn (j + 1)%Z - cn j)) in *.
  destruct (HV i j ltac:(lia) ltac:(lia)) as [A0 A1].
  destruct (HV i (j + 1)%Z ltac:(lia) ltac:(lia)) as [B0 B1].
  destruct (HV (i + 1)%Z j ltac:(lia) ltac:(lia)) as [C0 C1].
  destruct (HV (i + 1)%Z (j + 1)%Z ltac:(lia) ltac:(lia)) as [D0 D1].
  destruct (lerp_range lo hi _ _ ty TY0 TY1 A0 A1 B0 B1) as [E0 E1].
  destruct (lerp_range lo hi _ _ ty TY0 TY1 C0 C1 D0 D1) as [F0 F1].
  destruct (lerp_range lo hi _ _ tx TX0 TX1 E0 E1 F0 F1) as [G0 G1].
  split.
  - eapply Qle_trans; [exact G0|]. apply Qle_lteq. right. ring.
  - eapply Qle_trans; [|exact G1]. apply Qle_lteq. right. ring.
Qed.

(* bilinear interpolation reproduces a function that is affine on the cell *)
Lemma cell_value_affine rn cn v i j x y a b c :
  rn i < rn (i + 1)%Z -> cn j < cn (j + 1)%Z ->
  (forall p q, (i <= p <= i + 1)%Z -> (j <= q <= j + 1)%Z -> v p q == a + b * rn p + c * cn q) ->
  cell_value rn cn v i j x y == a + b * x + c * y.
Proof.
  intros L1 L2 HV. unfold cell_value, bilin_cell.
  rewrite (HV i j), (HV i (j + 1)%Z), (HV (i + 1)%Z j), (HV (i + 1)%Z (j + 1)%Z) by lia.
  field. nonzero.
Qed.

(* the value depends only on the four corner values *)
Lemma cell_value_ext rn cn v w i j x y :
  (forall p q, (i <= p <= i + 1)%Z -> (j <= q <= j + 1)%Z -> v p q == w p q) ->
  cell_value rn cn v i j x y == cell_value rn cn w i j x y.
Proof.
  intros HV. unfold cell_value, bilin_cell.
  rewrite (HV i j), (HV i (j + 1)%Z), (HV (i + 1)%Z j), (HV (i + 1)%Z (j + 1)%Z) by lia.
  reflexivity.
Qed.
