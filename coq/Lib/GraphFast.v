(* Lib/GraphFast.v - the connectivity classes of Lib/Graph.v computed with an early exit:
   [grow] always runs [length nodes] rounds, [grow_fast] stops at the first empty frontier.
   The two are equal (not just equivalent), so every theorem of Graph.v applies verbatim. *)
From Coq Require Import List Bool Arith.
From Aegean Require Import Lib.Graph.
Import ListNotations.

Section Fast.
Variable A : Type.
Variable eqb : A -> A -> bool.
Variable adj : A -> A -> bool.
Variable nodes : list A.

Fixpoint grow_fast (fuel : nat) (acc : list A) : list A :=
  match fuel with
  | O => acc
  | S f => match frontier A eqb adj nodes acc with
           | [] => acc
           | fr => grow_fast f (fr ++ acc)
           end
  end.
Definition component_fast (x : A) : list A := grow_fast (length nodes) [x].
Fixpoint comps_aux_fast (todo : list A) (acc : list (list A)) : list (list A) :=
  match todo with
  | [] => rev acc
  | x :: t => if existsb (mem A eqb x) acc then comps_aux_fast t acc
              else comps_aux_fast t (component_fast x :: acc)
  end.
Definition components_fast : list (list A) := comps_aux_fast nodes [].

Lemma grow_fast_eq fuel acc : grow_fast fuel acc = grow A eqb adj nodes fuel acc.
Proof.
  revert acc. induction fuel as [|f IH]; intros acc; cbn [grow_fast grow]; [reflexivity|].
  destruct (frontier A eqb adj nodes acc) as [|a fr] eqn:E.
  - rewrite (step_fixed A eqb adj nodes acc E). symmetry. apply grow_fixed, E.
  - rewrite IH. unfold step. rewrite E. reflexivity.
Qed.

Lemma component_fast_eq x : component_fast x = component A eqb adj nodes x.
Proof. apply grow_fast_eq. Qed.

Lemma comps_aux_fast_eq todo acc : comps_aux_fast todo acc = comps_aux A eqb adj nodes todo acc.
Proof.
  revert acc. induction todo as [|x t IH]; intros acc; cbn [comps_aux_fast comps_aux]; [reflexivity|].
  destruct (existsb (mem A eqb x) acc); rewrite IH; [reflexivity|]. rewrite component_fast_eq. reflexivity.
Qed.

Theorem components_fast_eq : components_fast = components A eqb adj nodes.
Proof. apply comps_aux_fast_eq. Qed.
End Fast.
