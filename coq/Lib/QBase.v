(* Boolean comparisons on Q used by the generated leaves of the Q back end (tools/points_c13.py). *)
From Coq Require Import ZArith QArith Qabs Qminmax Bool Lia Lqa.
Open Scope Q_scope.

Definition Qleb (a b : Q) : bool := Qle_bool a b.
Definition Qltb (a b : Q) : bool := negb (Qle_bool b a).

Lemma Qleb_le : forall a b, Qleb a b = true <-> a <= b.
Proof. intros a b. unfold Qleb. apply Qle_bool_iff. Qed.

Lemma Qltb_lt : forall a b, Qltb a b = true <-> a < b.
Proof.
  intros a b. unfold Qltb. rewrite negb_true_iff, <- not_true_iff_false, Qle_bool_iff.
  split; [apply Qnot_le_lt | apply Qlt_not_le].
Qed.

Lemma Qltb_false : forall a b, Qltb a b = false <-> b <= a.
Proof.
  intros a b. rewrite <- not_true_iff_false, Qltb_lt. split; [apply Qnot_lt_le | apply Qle_not_lt].
Qed.

(* two boolean tests are equal when they hold for the same inputs *)
Lemma bool_eq_iff : forall a b : bool, (a = true <-> b = true) -> a = b.
Proof.
  intros a b [H1 H2]. destruct a, b; try reflexivity.
  - symmetry. apply H1. reflexivity.
  - apply H2. reflexivity.
Qed.

Lemma Qltb_opp : forall a b, Qltb (- a) (- b) = Qltb b a.
Proof. intros a b. apply bool_eq_iff. rewrite !Qltb_lt. split; intro H; lra. Qed.

Lemma Qmin_cases : forall a b, (a <= b /\ Qmin a b == a) \/ (b <= a /\ Qmin a b == b).
Proof.
  intros a b. destruct (Qlt_le_dec b a) as [H|H].
  - right. split; [lra|]. apply Q.min_r. lra.
  - left. split; [exact H|]. apply Q.min_l. exact H.
Qed.

Lemma Qmax_cases : forall a b, (a <= b /\ Qmax a b == b) \/ (b <= a /\ Qmax a b == a).
Proof.
  intros a b. destruct (Qlt_le_dec b a) as [H|H].
  - right. split; [lra|]. apply Q.max_l. lra.
  - left. split; [exact H|]. apply Q.max_r. exact H.
Qed.

Lemma Qabs_opp_eq : forall a, Qabs (- a) = Qabs a.
Proof. intros [n d]. unfold Qabs, Qopp. cbn [Qnum Qden]. rewrite Z.abs_opp. reflexivity. Qed.
