(* Extended values for catalogue columns: what a binary64 field of an Aegean source can hold,
   read as an exact rational (every finite float is a dyadic rational), +-inf or NaN.
   Comparisons and additions follow IEEE-754 for the special values (NaN compares false with
   everything, inf - inf = NaN).  Rounding of finite results is NOT modelled: arithmetic on
   Fin is exact rational arithmetic. *)
From Coq Require Import QArith Qround Lqa ZArith Bool Lia.
Open Scope Q_scope.

Definition Qleb (a b : Q) : bool := Qle_bool a b.
Definition Qltb (a b : Q) : bool := negb (Qle_bool b a).

Lemma Qleb_iff a b : Qleb a b = true <-> a <= b.
Proof. apply Qle_bool_iff. Qed.
Lemma Qltb_iff a b : Qltb a b = true <-> a < b.
Proof.
  unfold Qltb. rewrite negb_true_iff. split; intro H.
  - apply Qnot_le_lt. intro Hle. apply Qle_bool_iff in Hle. congruence.
  - destruct (Qle_bool b a) eqn:E; [|reflexivity].
    apply Qle_bool_iff in E. exfalso. apply (Qlt_not_le _ _ H E).
Qed.
Lemma Qleb_false a b : Qleb a b = false <-> b < a.
Proof.
  rewrite <- Qltb_iff. unfold Qltb, Qleb. destruct (Qle_bool a b); simpl; split; congruence.
Qed.
Lemma Qltb_false a b : Qltb a b = false <-> b <= a.
Proof.
  rewrite <- Qleb_iff. unfold Qltb, Qleb. destruct (Qle_bool b a); simpl; split; congruence.
Qed.

Inductive fval : Type := Fin (q : Q) | PInf | NInf | NaN.

Definition FZ (z : Z) : fval := Fin (inject_Z z).

Definition is_fin (x : fval) : bool := match x with Fin _ => true | _ => false end.

(* x <= y, x < y  (numpy / IEEE semantics) *)
Definition fle (x y : fval) : bool :=
  match x, y with
  | NaN, _ | _, NaN => false
  | Fin a, Fin b => Qleb a b
  | NInf, _ => true
  | _, PInf => true
  | _, _ => false
  end.
Definition flt (x y : fval) : bool :=
  match x, y with
  | NaN, _ | _, NaN => false
  | Fin a, Fin b => Qltb a b
  | PInf, _ => false
  | _, NInf => false
  | _, _ => true
  end.

Definition fadd (x y : fval) : fval :=
  match x, y with
  | NaN, _ | _, NaN => NaN
  | Fin a, Fin b => Fin (a + b)
  | PInf, NInf | NInf, PInf => NaN
  | PInf, _ | _, PInf => PInf
  | NInf, _ | _, NInf => NInf
  end.
Definition fneg (x : fval) : fval :=
  match x with Fin a => Fin (- a) | PInf => NInf | NInf => PInf | NaN => NaN end.
Definition fsub (x y : fval) : fval := fadd x (fneg y).

Lemma fle_fin a b : fle (Fin a) (Fin b) = true <-> a <= b.
Proof. apply Qleb_iff. Qed.
Lemma flt_fin a b : flt (Fin a) (Fin b) = true <-> a < b.
Proof. apply Qltb_iff. Qed.
Lemma fle_fin_false a b : fle (Fin a) (Fin b) = false <-> b < a.
Proof. apply Qleb_false. Qed.
Lemma flt_fin_false a b : flt (Fin a) (Fin b) = false <-> b <= a.
Proof. apply Qltb_false. Qed.

(* executable range predicates on fval with their meaning *)
Definition fin_in_lo_hi (strict_lo strict_hi : bool) (lo hi : Q) (x : fval) : bool :=
  match x with
  | Fin q => (if strict_lo then Qltb lo q else Qleb lo q) && (if strict_hi then Qltb q hi else Qleb q hi)
  | _ => false
  end.
