(* Lib/Graph.v - finite undirected graphs given as a node list plus a boolean adjacency.

   component x : the connectivity class of x (fuelled closure of the frontier step)
   components  : all connectivity classes, in order of their first node in [nodes]

   Definitions depend only on A / eqb / adj / nodes; the hypotheses eqb_spec, nodes_nodup and
   adj_sym are premises of the theorems that need them.  After [End Graph] the argument order
   is  connected A adj nodes x y,  component A eqb adj nodes x,  components A eqb adj nodes. *)
From Coq Require Import List Bool Arith Lia Relations.
Import ListNotations.

(* ---------- generic list lemmas ---------- *)

Lemma NoDup_app_intro {A} (l1 l2 : list A) :
  NoDup l1 -> NoDup l2 -> (forall x, In x l1 -> ~ In x l2) -> NoDup (l1 ++ l2).
Proof.
  induction l1 as [|a l1 IH]; simpl; intros H1 H2 H; auto.
  inversion H1; subst. constructor.
  - rewrite in_app_iff. intros [Hin|Hin]; [contradiction|]. apply (H a); auto.
  - apply IH; auto.
Qed.

(* R holds between any two elements at different positions (R is used symmetrically) *)
Fixpoint pairwise {A} (R : A -> A -> Prop) (l : list A) : Prop :=
  match l with
  | [] => True
  | a :: t => (forall b, In b t -> R a b) /\ pairwise R t
  end.

Lemma pairwise_app {A} (R : A -> A -> Prop) (l1 l2 : list A) :
  pairwise R (l1 ++ l2) <->
  pairwise R l1 /\ pairwise R l2 /\ (forall a b, In a l1 -> In b l2 -> R a b).
Proof.
  induction l1 as [|x l1 IH]; simpl.
  - split; [intros H; repeat split; auto; intros a b []|tauto].
  - rewrite IH. split.
    + intros (Hx & H1 & H2 & H12). repeat split; auto.
      * intros b Hb. apply Hx, in_or_app; auto.
      * intros a b [<-|Ha] Hb; [apply Hx, in_or_app; auto|apply H12; auto].
    + intros ((Hx & H1) & H2 & H12). repeat split; auto.
      intros b Hb. apply in_app_or in Hb as [Hb|Hb]; auto.
Qed.

Lemma pairwise_rev {A} (R : A -> A -> Prop) (l : list A) :
  (forall a b, R a b -> R b a) -> pairwise R l -> pairwise R (rev l).
Proof.
  intros Hsym. induction l as [|x l IH]; simpl; auto.
  intros (Hx & Hl). apply pairwise_app. repeat split; auto.
  - intros b [].
  - intros a b Ha [<-|[]]. apply Hsym, Hx, in_rev, Ha.
Qed.

Lemma pairwise_filter {A} (R : A -> A -> Prop) (f : A -> bool) (l : list A) :
  pairwise R l -> pairwise R (filter f l).
Proof.
  induction l as [|x l IH]; simpl; auto.
  intros (Hx & Hl). destruct (f x); simpl; auto.
  split; auto. intros b Hb. apply filter_In in Hb as (Hb & _). auto.
Qed.

Lemma pairwise_nth_error {A} (R : A -> A -> Prop) (l : list A) :
  (forall a b, R a b -> R b a) -> pairwise R l ->
  forall i j a b, nth_error l i = Some a -> nth_error l j = Some b -> i <> j -> R a b.
Proof.
  intros Hsym. induction l as [|x l IH]; intros Hp i j a b Hi Hj Hij.
  - destruct i; discriminate.
  - destruct Hp as (Hx & Hl). destruct i as [|i], j as [|j]; simpl in Hi, Hj.
    + congruence.
    + injection Hi as <-. apply Hx. eapply nth_error_In; eauto.
    + injection Hj as <-. apply Hsym, Hx. eapply nth_error_In; eauto.
    + apply (IH Hl i j); auto.
Qed.

Definition disjoint {A} (C D : list A) : Prop := forall p, In p C -> ~ In p D.

Lemma disjoint_sym {A} (C D : list A) : disjoint C D -> disjoint D C.
Proof. intros H p HD HC. exact (H p HC HD). Qed.

(* ---------- graphs ---------- *)

Section Graph.
Variable A : Type.
Variable eqb : A -> A -> bool.
Hypothesis eqb_spec : forall x y, reflect (x = y) (eqb x y).
Variable adj : A -> A -> bool.
Variable nodes : list A.
Hypothesis nodes_nodup : NoDup nodes.
Hypothesis adj_sym : forall x y, adj x y = true -> adj y x = true.

Definition mem (x : A) (l : list A) : bool := existsb (eqb x) l.

Lemma mem_In x l : mem x l = true <-> In x l.
Proof. unfold mem. rewrite existsb_exists. split.
  - intros [y [Hy He]]. destruct (eqb_spec x y); [subst; auto|discriminate].
  - intros H. exists x. split; auto. destruct (eqb_spec x x); auto. Qed.
Lemma mem_false x l : mem x l = false <-> ~ In x l.
Proof. rewrite <- mem_In. destruct (mem x l); split; congruence. Qed.

Definition edge (x y : A) : Prop := In x nodes /\ In y nodes /\ adj x y = true.
Definition connected : A -> A -> Prop := clos_refl_trans A edge.

Definition frontier (acc : list A) : list A :=
  filter (fun n => negb (mem n acc) && existsb (fun a => adj a n) acc) nodes.
Definition step (acc : list A) : list A := frontier acc ++ acc.
Fixpoint grow (fuel : nat) (acc : list A) : list A :=
  match fuel with O => acc | S f => grow f (step acc) end.
Definition component (x : A) : list A := grow (length nodes) [x].

(* all connectivity classes, in order of their first node in [nodes] *)
Fixpoint comps_aux (todo : list A) (acc : list (list A)) : list (list A) :=
  match todo with
  | [] => rev acc
  | x :: t => if existsb (mem x) acc then comps_aux t acc else comps_aux t (component x :: acc)
  end.
Definition components : list (list A) := comps_aux nodes [].

(* ----- component ----- *)

Lemma frontier_In acc n : In n (frontier acc) <->
  In n nodes /\ ~ In n acc /\ exists a, In a acc /\ adj a n = true.
Proof. unfold frontier. rewrite filter_In, andb_true_iff, negb_true_iff, mem_false, existsb_exists. tauto. Qed.

Definition Inv (x : A) (acc : list A) : Prop :=
  NoDup acc /\ incl acc nodes /\ In x acc /\ forall y, In y acc -> connected x y.

Lemma step_inv x acc : Inv x acc -> Inv x (step acc).
Proof.
  intros (Hnd & Hincl & Hx & Hc). unfold step. split; [|split; [|split]].
  - apply NoDup_app_intro; auto. apply NoDup_filter, nodes_nodup.
    intros n Hn. apply frontier_In in Hn. tauto.
  - intros n Hn. apply in_app_or in Hn as [Hn|Hn]; auto. apply frontier_In in Hn. tauto.
  - apply in_or_app; auto.
  - intros y Hy. apply in_app_or in Hy as [Hy|Hy]; auto.
    apply frontier_In in Hy as (Hyn & _ & a & Ha & Hadj).
    apply rt_trans with a; [apply Hc; exact Ha|]. apply rt_step. split; [apply Hincl, Ha|split; auto].
Qed.

Lemma grow_inv x fuel acc : Inv x acc -> Inv x (grow fuel acc).
Proof. revert acc; induction fuel as [|f IH]; simpl; intros acc H; auto. apply IH, step_inv, H. Qed.

Lemma step_fixed acc : frontier acc = [] -> step acc = acc.
Proof. unfold step; intros ->; reflexivity. Qed.
Lemma grow_fixed fuel acc : frontier acc = [] -> grow fuel acc = acc.
Proof. induction fuel as [|f IH]; simpl; intros H; auto. rewrite (step_fixed _ H); auto. Qed.

Lemma grow_len fuel acc :
  frontier (grow fuel acc) = [] \/ length (grow fuel acc) >= length acc + fuel.
Proof.
  revert acc; induction fuel as [|f IH]; simpl; intros acc; [right; lia|].
  destruct (frontier acc) eqn:E.
  - left. rewrite (step_fixed _ E), (grow_fixed _ _ E); exact E.
  - destruct (IH (step acc)) as [H|H]; [left; exact H|right].
    unfold step in H at 2. rewrite E, app_length in H. simpl in H. lia.
Qed.

Lemma inv_init x : In x nodes -> Inv x [x].
Proof.
  intros Hx. split; [|split; [|split]].
  - repeat constructor; simpl; tauto.
  - intros y [->|[]]; auto.
  - simpl; auto.
  - intros y [->|[]]; apply rt_refl.
Qed.

Lemma component_inv x : In x nodes -> Inv x (component x).
Proof. intros Hx. apply grow_inv, inv_init, Hx. Qed.

Lemma component_closed x : In x nodes -> frontier (component x) = [].
Proof.
  intros Hx. unfold component.
  destruct (grow_len (length nodes) [x]) as [H|H]; auto.
  pose proof (grow_inv x (length nodes) [x] (inv_init x Hx)) as (Hnd & Hincl & _).
  pose proof (NoDup_incl_length Hnd Hincl). simpl in H. lia.
Qed.

Theorem component_spec x y : In x nodes ->
  (In y (component x) <-> connected x y).
Proof.
  intros Hx.
  pose proof (component_inv x Hx) as (Hnd & Hincl & Hxin & Hsound).
  split; [apply Hsound|].
  intros Hc. apply clos_rt_rt1n in Hc.
  assert (G : forall z, clos_refl_trans_1n A edge z y -> In z (component x) -> In y (component x)).
  { clear Hc. intros z Hc. induction Hc as [z|z w y Hzw _ IH]; intros Hz; auto.
    apply IH. destruct Hzw as (Hzn & Hwn & Hadj).
    destruct (mem w (component x)) eqn:Em; [apply mem_In; auto|].
    apply mem_false in Em. exfalso.
    assert (Hf : In w (frontier (component x))) by (apply frontier_In; eauto 6).
    rewrite (component_closed x Hx) in Hf. inversion Hf. }
  apply (G x Hc). exact Hxin.
Qed.

Lemma component_self x : In x nodes -> In x (component x).
Proof. intros Hx. apply (component_inv x Hx). Qed.
Lemma component_NoDup x : In x nodes -> NoDup (component x).
Proof. intros Hx. apply (component_inv x Hx). Qed.
Lemma component_incl x : In x nodes -> incl (component x) nodes.
Proof. intros Hx. apply (component_inv x Hx). Qed.

(* ----- connected ----- *)

Lemma connected_refl x : connected x x.
Proof. apply rt_refl. Qed.
Lemma connected_trans x y z : connected x y -> connected y z -> connected x z.
Proof. intros H1 H2. eapply rt_trans; eauto. Qed.
Lemma edge_sym x y : edge x y -> edge y x.
Proof. intros (Hx & Hy & Ha). split; [|split]; auto. Qed.
Lemma connected_sym x y : connected x y -> connected y x.
Proof.
  intros H. induction H as [x y H|x|x y z _ IH1 _ IH2].
  - apply rt_step, edge_sym, H.
  - apply rt_refl.
  - eapply rt_trans; eauto.
Qed.
(* a path that leaves a node of the graph stays inside the graph *)
Lemma connected_in_nodes x y : connected x y -> In x nodes -> In y nodes.
Proof.
  intros H. induction H as [x y (_ & Hy & _)|x|x y z _ IH1 _ IH2]; auto.
Qed.

(* the class of x, seen from any of its members *)
Lemma component_class x p q : In x nodes -> In p (component x) ->
  (In q (component x) <-> connected p q).
Proof.
  intros Hx Hp. apply (component_spec x p Hx) in Hp. rewrite (component_spec x q Hx). split.
  - intros Hq. eapply connected_trans; [apply connected_sym, Hp|exact Hq].
  - intros Hpq. eapply connected_trans; eauto.
Qed.

Lemma component_disjoint x y : In x nodes -> In y nodes ->
  ~ In x (component y) -> disjoint (component x) (component y).
Proof.
  intros Hx Hy Hn p Hpx Hpy. apply Hn.
  apply (component_class y p x Hy Hpy). apply connected_sym.
  apply (component_spec x p Hx), Hpx.
Qed.

(* ----- components ----- *)

Definition is_class (C : list A) : Prop := exists x, In x nodes /\ C = component x.

Lemma comps_aux_acc todo acc C : In C acc -> In C (comps_aux todo acc).
Proof.
  revert acc. induction todo as [|x t IH]; intros acc H; cbn [comps_aux].
  - apply in_rev in H. exact H.
  - destruct (existsb (mem x) acc); apply IH; simpl; auto.
Qed.

Lemma comps_aux_In todo acc C : In C (comps_aux todo acc) ->
  In C acc \/ exists x, In x todo /\ C = component x.
Proof.
  revert acc. induction todo as [|x t IH]; intros acc H; cbn [comps_aux] in H.
  - left. apply in_rev, H.
  - destruct (existsb (mem x) acc).
    + destruct (IH _ H) as [H1|(y & Hy & E)]; auto. right. exists y. simpl; auto.
    + destruct (IH _ H) as [[<-|H1]|(y & Hy & E)]; auto.
      * right. exists x. simpl; auto.
      * right. exists y. simpl; auto.
Qed.

Lemma comps_aux_cover todo acc x : incl todo nodes -> In x todo ->
  exists C, In C (comps_aux todo acc) /\ In x C.
Proof.
  revert acc. induction todo as [|y t IH]; intros acc Hincl Hx; [destruct Hx|].
  assert (Ht : incl t nodes) by (intros z Hz; apply Hincl; simpl; auto).
  cbn [comps_aux]. destruct (existsb (mem y) acc) eqn:E.
  - destruct Hx as [<-|Hx]; [|apply IH; auto].
    apply existsb_exists in E as (C & HC & Hm). apply mem_In in Hm.
    exists C. split; auto. apply comps_aux_acc, HC.
  - destruct Hx as [<-|Hx]; [|apply IH; auto].
    exists (component y). split; [apply comps_aux_acc; simpl; auto|].
    apply component_self, Hincl. simpl; auto.
Qed.

Lemma comps_aux_pairwise todo acc : incl todo nodes ->
  (forall C, In C acc -> is_class C) -> pairwise disjoint acc ->
  pairwise disjoint (comps_aux todo acc).
Proof.
  revert acc. induction todo as [|y t IH]; intros acc Hincl Hcl Hp; cbn [comps_aux].
  - apply pairwise_rev; auto. intros a b. apply disjoint_sym.
  - assert (Ht : incl t nodes) by (intros z Hz; apply Hincl; simpl; auto).
    assert (Hy : In y nodes) by (apply Hincl; simpl; auto).
    destruct (existsb (mem y) acc) eqn:E; [apply IH; auto|].
    apply IH; auto.
    + intros C [<-|HC]; auto. exists y. auto.
    + split; auto. intros D HD. destruct (Hcl D HD) as (z & Hz & ->).
      apply component_disjoint; auto.
      intros Hin. apply not_true_iff_false in E. apply E.
      apply existsb_exists. exists (component z). split; auto. apply mem_In, Hin.
Qed.

(* every class is the component of one of the nodes *)
Theorem components_class C : In C components -> is_class C.
Proof.
  intros H. apply comps_aux_In in H as [[]|(x & Hx & ->)]. exists x. auto.
Qed.

(* every node is in some class *)
Theorem components_cover x : In x nodes -> exists C, In C components /\ In x C.
Proof. intros Hx. apply comps_aux_cover; auto. apply incl_refl. Qed.

Theorem components_nonempty C : In C components -> C <> [].
Proof.
  intros H. destruct (components_class C H) as (x & Hx & ->).
  intros E. pose proof (component_self x Hx) as Hs. rewrite E in Hs. destruct Hs.
Qed.

Theorem components_NoDup C : In C components -> NoDup C.
Proof.
  intros H. destruct (components_class C H) as (x & Hx & ->). apply component_NoDup, Hx.
Qed.

Theorem components_incl C : In C components -> incl C nodes.
Proof.
  intros H. destruct (components_class C H) as (x & Hx & ->). apply component_incl, Hx.
Qed.

Theorem components_pairwise : pairwise disjoint components.
Proof.
  apply comps_aux_pairwise; simpl; auto.
  - apply incl_refl.
  - intros C [].
Qed.

(* two classes at different positions are disjoint *)
Theorem components_disjoint i j C D :
  nth_error components i = Some C -> nth_error components j = Some D -> i <> j ->
  forall p, In p C -> ~ In p D.
Proof.
  intros Hi Hj Hij.
  apply (pairwise_nth_error disjoint components (@disjoint_sym A) components_pairwise i j); auto.
Qed.

(* membership of a class is exactly connectedness to any of its members *)
Theorem components_spec C p q : In C components -> In p C -> (In q C <-> connected p q).
Proof.
  intros H Hp. destruct (components_class C H) as (x & Hx & ->).
  apply component_class; auto.
Qed.

(* a node and everything connected to it lie in one class *)
Theorem components_complete p q : In p nodes -> connected p q ->
  exists C, In C components /\ In p C /\ In q C.
Proof.
  intros Hp Hpq. destruct (components_cover p Hp) as (C & HC & HpC).
  exists C. split; [|split]; auto. apply (components_spec C p q HC HpC), Hpq.
Qed.

End Graph.

Arguments pairwise {A} R l.
Arguments disjoint {A} C D.
