(* Real-number vocabulary shared by the generated (R back end) definitions. *)
From Coq Require Import Reals.
Open Scope R_scope.

Definition rad (x : R) : R := x * PI / 180.
Definition deg (x : R) : R := x * 180 / PI.

(* numpy.arctan2 *)
Definition atan2 (y x : R) : R :=
  if Rlt_dec 0 x then atan (y / x)
  else if Rlt_dec x 0 then (if Rle_dec 0 y then atan (y / x) + PI else atan (y / x) - PI)
  else if Rlt_dec 0 y then PI / 2 else if Rlt_dec y 0 then - (PI / 2) else 0.

Definition hypot (x y : R) : R := sqrt (x * x + y * y).

Definition Rltb (a b : R) : bool := if Rlt_dec a b then true else false.
Definition Rleb (a b : R) : bool := if Rle_dec a b then true else false.

Lemma deg_rad x : deg (rad x) = x.
Proof. unfold deg, rad. field. apply PI_neq0. Qed.
Lemma rad_deg x : rad (deg x) = x.
Proof. unfold deg, rad. field. apply PI_neq0. Qed.
