(* Keyword maps (FITS header cards of one value type) as association lists with the
   semantics of a Python mapping: `k in h`, `h[k]`, `h[k] = v` (replace in place or append),
   `del h[k]`.  Axiom-free. *)
From Coq Require Import List String Bool.
Import ListNotations.
Open Scope string_scope.

Section Kw.
Context {A : Type}.

Definition kws := list (string * A).

Fixpoint kget (k : string) (h : kws) : option A :=
  match h with
  | [] => None
  | (k', v) :: t => if String.eqb k k' then Some v else kget k t
  end.

Definition khas (k : string) (h : kws) : bool :=
  match kget k h with Some _ => true | None => false end.

Fixpoint kset (k : string) (v : A) (h : kws) : kws :=
  match h with
  | [] => [(k, v)]
  | (k', v') :: t => if String.eqb k k' then (k, v) :: t else (k', v') :: kset k v t
  end.

Fixpoint kdel (k : string) (h : kws) : kws :=
  match h with
  | [] => []
  | (k', v') :: t => if String.eqb k k' then kdel k t else (k', v') :: kdel k t
  end.

(* h[k] = g(h[k]);  KeyError (None) when k is absent *)
Definition kupd (k : string) (g : A -> A) (h : kws) : option kws :=
  match kget k h with Some v => Some (kset k (g v) h) | None => None end.

(* first key of the list that is present: the if / elif chain `if 'K1' in h: .. elif 'K2' in h: ..` *)
Fixpoint first_present (keys : list string) (h : kws) : option string :=
  match keys with
  | [] => None
  | k :: ks => if khas k h then Some k else first_present ks h
  end.

Definition ksetall (kvs : list (string * A)) (h : kws) : kws :=
  fold_left (fun h kv => kset (fst kv) (snd kv) h) kvs h.

Definition kdelall (ks : list string) (h : kws) : kws :=
  fold_left (fun h k => kdel k h) ks h.

(* ---- lemmas *)
Lemma kget_kset (k k' : string) (v : A) (h : kws) :
  kget k' (kset k v h) = if String.eqb k' k then Some v else kget k' h.
Proof.
  induction h as [|[k0 v0] t IH]; cbn [kset kget].
  - reflexivity.
  - destruct (String.eqb k k0) eqn:E; cbn [kget].
    + apply String.eqb_eq in E. subst k0.
      destruct (String.eqb k' k); reflexivity.
    + destruct (String.eqb k' k0) eqn:E0.
      * apply String.eqb_eq in E0. subst k0.
        rewrite String.eqb_sym in E. rewrite E. reflexivity.
      * exact IH.
Qed.

Lemma kget_kset_same k v h : kget k (kset k v h) = Some v.
Proof. rewrite kget_kset, String.eqb_refl. reflexivity. Qed.

Lemma kget_kset_other k k' v h : k' <> k -> kget k' (kset k v h) = kget k' h.
Proof. intros N. rewrite kget_kset. apply String.eqb_neq in N. rewrite N. reflexivity. Qed.

Lemma kget_kdel (k k' : string) (h : kws) :
  kget k' (kdel k h) = if String.eqb k' k then None else kget k' h.
Proof.
  induction h as [|[k0 v0] t IH]; cbn [kdel kget].
  - destruct (String.eqb k' k); reflexivity.
  - destruct (String.eqb k k0) eqn:E.
    + apply String.eqb_eq in E. subst k0. rewrite IH.
      destruct (String.eqb k' k); reflexivity.
    + cbn [kget]. destruct (String.eqb k' k0) eqn:E0.
      * apply String.eqb_eq in E0. subst k0.
        rewrite String.eqb_sym in E. rewrite E. reflexivity.
      * exact IH.
Qed.

Lemma kget_kdelall (ks : list string) : forall (k' : string) (h : kws),
  kget k' (kdelall ks h) = if existsb (String.eqb k') ks then None else kget k' h.
Proof.
  unfold kdelall. induction ks as [|k ks IH]; intros k' h; cbn [fold_left existsb].
  - reflexivity.
  - rewrite IH, kget_kdel. destruct (String.eqb k' k); cbn [orb].
    + destruct (existsb (String.eqb k') ks); reflexivity.
    + reflexivity.
Qed.

Lemma khas_kset k k' v h : khas k' (kset k v h) = (String.eqb k' k || khas k' h)%bool.
Proof. unfold khas. rewrite kget_kset. destruct (String.eqb k' k); reflexivity. Qed.

Lemma khas_kset_present k k' v h : khas k h = true -> khas k' (kset k v h) = khas k' h.
Proof.
  intros H. rewrite khas_kset. destruct (String.eqb k' k) eqn:E; [|reflexivity].
  apply String.eqb_eq in E. subst k'. rewrite H. reflexivity.
Qed.

Lemma kupd_some k g h h' : kupd k g h = Some h' ->
  khas k h = true /\ forall k', kget k' h' = if String.eqb k' k then option_map g (kget k' h) else kget k' h.
Proof.
  unfold kupd, khas. destruct (kget k h) as [v|] eqn:E; [|discriminate].
  intros H. injection H as <-. split; [reflexivity|]. intros k'. rewrite kget_kset.
  destruct (String.eqb k' k) eqn:E'; [|reflexivity].
  apply String.eqb_eq in E'. subst k'. rewrite E. reflexivity.
Qed.

Lemma kupd_present k g h : khas k h = true -> exists h', kupd k g h = Some h'.
Proof. unfold kupd, khas. destruct (kget k h); [eauto|discriminate]. Qed.

Lemma kupd_khas k g h h' k' : kupd k g h = Some h' -> khas k' h' = khas k' h.
Proof.
  intros H. destruct (kupd_some _ _ _ _ H) as [_ G]. unfold khas. rewrite G.
  destruct (String.eqb k' k); [|reflexivity]. destruct (kget k' h); reflexivity.
Qed.

Lemma first_present_ext keys h h' : (forall k, khas k h' = khas k h) ->
  first_present keys h' = first_present keys h.
Proof. intros E. induction keys as [|k ks IH]; cbn [first_present]; [reflexivity|]. rewrite E, IH. reflexivity. Qed.

Lemma first_present_in keys h k : first_present keys h = Some k -> In k keys /\ khas k h = true.
Proof.
  induction keys as [|k0 ks IH]; cbn [first_present]; [discriminate|].
  destruct (khas k0 h) eqn:E.
  - intros H. injection H as <-. split; [left; reflexivity|exact E].
  - intros H. destruct (IH H). split; [right; assumption|assumption].
Qed.

Lemma first_present_exists keys h k : In k keys -> khas k h = true -> exists k', first_present keys h = Some k'.
Proof.
  induction keys as [|k0 ks IH]; cbn [first_present In]; [tauto|].
  intros [->|Hin] Hk.
  - rewrite Hk. eauto.
  - destruct (khas k0 h); [eauto|auto].
Qed.

End Kw.
Arguments kws A : clear implicits.
