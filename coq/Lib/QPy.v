(* Executable rational helpers used by the Q back end of the translator (tools/points_c05.py):
   Python's min/max, //, int(), round() and comparisons on exact rationals, and the lemmas that
   carry them to Z on integral arguments.  Axiom-free. *)
From Coq Require Import ZArith QArith Qround Lia Lqa Bool.
Open Scope Q_scope.

Definition Qleb (a b : Q) : bool := Qle_bool a b.
Definition Qltb (a b : Q) : bool := negb (Qle_bool b a).
(* Python: min(a, b) returns b only when b < a; max(a, b) returns b only when b > a *)
Definition qmin (a b : Q) : Q := if Qltb b a then b else a.
Definition qmax (a b : Q) : Q := if Qltb a b then b else a.
(* Python a // b on numbers: floor of the quotient *)
Definition floordiv (a b : Q) : Q := inject_Z (Qfloor (a / b)).
(* int(q): truncation toward zero *)
Definition Qtrunc (q : Q) : Z := if Qleb 0 q then Qfloor q else Qceiling q.
(* round(q) for one argument: nearest integer, ties to the even one *)
Definition round_half_even (q : Q) : Z :=
  let f := Qfloor q in
  match Qcompare (q - inject_Z f) (1 # 2) with
  | Lt => f
  | Gt => (f + 1)%Z
  | Eq => if Z.even f then f else (f + 1)%Z
  end.

Lemma Qleb_iff : forall a b, Qleb a b = true <-> a <= b.
Proof. intros a b. unfold Qleb. apply Qle_bool_iff. Qed.

Lemma Qltb_iff : forall a b, Qltb a b = true <-> a < b.
Proof.
  intros a b. unfold Qltb. rewrite negb_true_iff. split.
  - intro H. apply Qnot_le_lt. intro Hle. apply Qle_bool_iff in Hle. congruence.
  - intro H. destruct (Qle_bool b a) eqn:E; [|reflexivity].
    apply Qle_bool_iff in E. exfalso. apply (Qlt_not_le _ _ H E).
Qed.

Lemma Qleb_Z : forall a b : Z, Qleb (inject_Z a) (inject_Z b) = (a <=? b)%Z.
Proof.
  intros a b. apply eq_true_iff_eq. rewrite Qleb_iff, Z.leb_le, Zle_Qle. reflexivity.
Qed.

Lemma Qltb_Z : forall a b : Z, Qltb (inject_Z a) (inject_Z b) = (a <? b)%Z.
Proof.
  intros a b. apply eq_true_iff_eq. rewrite Qltb_iff, Z.ltb_lt, Zlt_Qlt. reflexivity.
Qed.

Lemma qmin_Z : forall a b : Z, qmin (inject_Z a) (inject_Z b) = inject_Z (Z.min a b).
Proof.
  intros a b. unfold qmin. rewrite Qltb_Z. destruct (Z.ltb_spec b a) as [H|H].
  - rewrite Z.min_r by lia. reflexivity.
  - rewrite Z.min_l by lia. reflexivity.
Qed.

Lemma qmax_Z : forall a b : Z, qmax (inject_Z a) (inject_Z b) = inject_Z (Z.max a b).
Proof.
  intros a b. unfold qmax. rewrite Qltb_Z. destruct (Z.ltb_spec a b) as [H|H].
  - rewrite Z.max_r by lia. reflexivity.
  - rewrite Z.max_l by lia. reflexivity.
Qed.

Lemma qmin_comp : forall a a' b b', a == a' -> b == b' -> qmin a b == qmin a' b'.
Proof.
  intros a a' b b' Ha Hb. unfold qmin.
  destruct (Qltb b a) eqn:E1; destruct (Qltb b' a') eqn:E2; try assumption.
  - apply Qltb_iff in E1. rewrite Ha, Hb in E1. apply Qltb_iff in E1. congruence.
  - apply Qltb_iff in E2. rewrite <- Ha, <- Hb in E2. apply Qltb_iff in E2. congruence.
Qed.

Lemma qmax_comp : forall a a' b b', a == a' -> b == b' -> qmax a b == qmax a' b'.
Proof.
  intros a a' b b' Ha Hb. unfold qmax.
  destruct (Qltb a b) eqn:E1; destruct (Qltb a' b') eqn:E2; try assumption.
  - apply Qltb_iff in E1. rewrite Ha, Hb in E1. apply Qltb_iff in E1. congruence.
  - apply Qltb_iff in E2. rewrite <- Ha, <- Hb in E2. apply Qltb_iff in E2. congruence.
Qed.

Lemma floordiv_comp : forall a a' b b', a == a' -> b == b' -> floordiv a b == floordiv a' b'.
Proof.
  intros a a' b b' Ha Hb. unfold floordiv.
  assert (H : a / b == a' / b') by (rewrite Ha, Hb; reflexivity).
  rewrite (Qfloor_comp _ _ H). reflexivity.
Qed.

(* // by the literal 2 on an integer *)
Lemma floordiv2_Z : forall w : Z, floordiv (inject_Z w) (2 # 1) = inject_Z (w / 2).
Proof.
  intro w. unfold floordiv, Qfloor, Qdiv, Qmult, Qinv, inject_Z. cbn [Qnum Qden Pos.mul].
  rewrite Z.mul_1_r. reflexivity.
Qed.

Lemma Qtrunc_Z : forall z : Z, Qtrunc (inject_Z z) = z.
Proof.
  intro z. unfold Qtrunc. destruct (Qleb 0 (inject_Z z)); [apply Qfloor_Z|apply Qceiling_Z].
Qed.

Lemma Qtrunc_comp : forall a b, a == b -> Qtrunc a = Qtrunc b.
Proof.
  intros a b H. unfold Qtrunc.
  assert (E : Qleb 0 a = Qleb 0 b).
  { apply eq_true_iff_eq. rewrite !Qleb_iff. rewrite H. reflexivity. }
  rewrite E. destruct (Qleb 0 b).
  - apply Qfloor_comp; assumption.
  - unfold Qceiling. f_equal. apply Qfloor_comp. rewrite H. reflexivity.
Qed.

Lemma round_half_even_Z : forall z : Z, round_half_even (inject_Z z) = z.
Proof.
  intro z. unfold round_half_even. rewrite Qfloor_Z.
  assert (H : inject_Z z - inject_Z z == 0) by ring.
  assert (C : Qcompare (inject_Z z - inject_Z z) (1 # 2) = Lt).
  { rewrite (Qcompare_comp _ _ H (1#2) (1#2) (Qeq_refl _)). reflexivity. }
  rewrite C. reflexivity.
Qed.

(* the rounded value is within half a pixel *)
Lemma round_half_even_near : forall q, inject_Z (round_half_even q) - (1 # 2) <= q <= inject_Z (round_half_even q) + (1 # 2).
Proof.
  intro q. unfold round_half_even.
  pose proof (Qfloor_le q) as Hlo. pose proof (Qlt_floor q) as Hhi.
  rewrite inject_Z_plus in Hhi. change (inject_Z 1) with 1 in Hhi.
  destruct (Qcompare (q - inject_Z (Qfloor q)) (1 # 2)) eqn:C.
  - apply Qeq_alt in C. destruct (Z.even (Qfloor q)).
    + split; lra.
    + rewrite inject_Z_plus. change (inject_Z 1) with 1. split; lra.
  - apply Qlt_alt in C. split; lra.
  - apply Qgt_alt in C. rewrite inject_Z_plus. change (inject_Z 1) with 1. split; lra.
Qed.

Lemma inject_Z_sub : forall x y : Z, inject_Z (x - y) = inject_Z x - inject_Z y.
Proof. intros x y. unfold Qminus, Qplus, Qopp, inject_Z. cbn [Qnum Qden Pos.mul]. f_equal. ring. Qed.

Lemma Qltb_comp : forall a a' b b', a == a' -> b == b' -> Qltb a b = Qltb a' b'.
Proof.
  intros a a' b b' Ha Hb. apply eq_true_iff_eq. rewrite !Qltb_iff. rewrite Ha, Hb. reflexivity.
Qed.

Lemma Qleb_comp : forall a a' b b', a == a' -> b == b' -> Qleb a b = Qleb a' b'.
Proof.
  intros a a' b b' Ha Hb. apply eq_true_iff_eq. rewrite !Qleb_iff. rewrite Ha, Hb. reflexivity.
Qed.

Lemma Qltb_false_iff : forall a b, Qltb a b = false <-> b <= a.
Proof.
  intros a b. split.
  - intro H. apply Qnot_lt_le. intro Hlt. apply Qltb_iff in Hlt. congruence.
  - intro H. destruct (Qltb a b) eqn:E; [|reflexivity]. apply Qltb_iff in E. exfalso. apply (Qlt_not_le _ _ E H).
Qed.

Lemma Qleb_false_iff : forall a b, Qleb a b = false <-> b < a.
Proof.
  intros a b. split.
  - intro H. apply Qnot_le_lt. intro Hle. apply Qleb_iff in Hle. congruence.
  - intro H. destruct (Qleb a b) eqn:E; [|reflexivity]. apply Qleb_iff in E. exfalso. apply (Qlt_not_le _ _ H E).
Qed.

Lemma qmin_le_l : forall a b, qmin a b <= a.
Proof.
  intros a b. unfold qmin. destruct (Qltb b a) eqn:E; [|apply Qle_refl].
  apply Qltb_iff in E. apply Qlt_le_weak. exact E.
Qed.
Lemma qmin_le_r : forall a b, qmin a b <= b.
Proof.
  intros a b. unfold qmin. destruct (Qltb b a) eqn:E; [apply Qle_refl|]. apply Qltb_false_iff in E. exact E.
Qed.
Lemma qmax_ge_l : forall a b, a <= qmax a b.
Proof.
  intros a b. unfold qmax. destruct (Qltb a b) eqn:E; [|apply Qle_refl].
  apply Qltb_iff in E. apply Qlt_le_weak. exact E.
Qed.
Lemma qmax_ge_r : forall a b, b <= qmax a b.
Proof.
  intros a b. unfold qmax. destruct (Qltb a b) eqn:E; [apply Qle_refl|]. apply Qltb_false_iff in E. exact E.
Qed.

(* canonical output of a rational for the harness: (numerator, denominator) in lowest terms *)
Definition qout (q : Q) : Z * Z := let r := Qred q in (Qnum r, Zpos (Qden r)).
