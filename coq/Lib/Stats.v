(* Sample statistics and iterated sigma clipping, written once over an arbitrary scalar type and instantiated
   at Q (executable: mean and population VARIANCE, the comparisons with mean -+ std*level are decided exactly
   by comparing squares) and at R (mean and standard deviation sqrt(variance), the comparisons as the code
   writes them).  Definitions only; lemmas are in Proofs/StatsProofs.v. *)
From Coq Require Import ZArith QArith Reals Bool List.
Import ListNotations.

Section Generic.
  Variable X : Type.
  Variable zero : X.
  Variable add sub mul div : X -> X -> X.
  Variable ofnat : nat -> X.

  Definition sum (l : list X) : X := fold_right add zero l.
  Definition mean (l : list X) : X := div (sum l) (ofnat (length l)).
  (* numpy.std / numpy.var: mean of squared deviations from the mean (ddof = 0) *)
  Definition var (l : list X) : X :=
    let m := mean l in div (sum (map (fun x => mul (sub x m) (sub x m)) l)) (ofnat (length l)).

  (* spread: what is carried beside the mean (variance over Q, standard deviation over R);
     keep m s x: does x survive a clipping round with centre m and spread s *)
  Variable spread : list X -> X.
  Variable keep : X -> X -> X -> bool.

  (* the loop of BANE.sigmaclip: at most `reps` rounds; stop when nothing survives (the statistics of the
     previous round are returned) or when no element was removed *)
  Fixpoint clip_loop (reps : nat) (l : list X) (m s : X) : X * X :=
    match reps with
    | O => (m, s)
    | S n =>
        let l' := filter (keep m s) l in
        match l' with
        | [] => (m, s)
        | _ => if Nat.eqb (length l') (length l) then (m, s)
               else clip_loop n l' (mean l') (spread l')
        end
    end.
  Definition clip (reps : nat) (l : list X) : X * X := clip_loop reps l (mean l) (spread l).
End Generic.

(* ---- Q: executable.  lo, hi >= 0 are the clipping levels, sl / sh the strictness of the comparisons.
   x > m - sqrt v * lo   is decided as   x > m  or  (m - x)^2 < lo^2 v      (strict)
   x >= m - sqrt v * lo  is decided as   x >= m or  (m - x)^2 <= lo^2 v     (non strict) *)
Definition Qltb (a b : Q) : bool := negb (Qle_bool b a).
Definition qcmp (strict : bool) (a b : Q) : bool := if strict then Qltb a b else Qle_bool a b.
Definition keep_q (lo hi : Z) (sl sh : bool) (m v x : Q) : bool :=
  (qcmp sl m x || qcmp sl ((m - x) * (m - x)) (inject_Z (lo * lo) * v))%Q
  && (qcmp sh x m || qcmp sh ((x - m) * (x - m)) (inject_Z (hi * hi) * v))%Q.
Definition q_ofnat (n : nat) : Q := inject_Z (Z.of_nat n).
(* sums are kept in lowest terms (Qred is the identity up to Qeq) *)
Definition qadd (a b : Q) : Q := Qred (a + b).
Definition mean_q := mean Q 0%Q qadd Qdiv q_ofnat.
Definition var_q := var Q 0%Q qadd Qminus Qmult Qdiv q_ofnat.
(* returns (mean, variance) of the surviving elements; the argument must be non-empty *)
Definition sigmaclip_q (lo hi : Z) (sl sh : bool) (reps : Z) (l : list Q) : Q * Q :=
  let r := clip Q 0%Q qadd Qdiv q_ofnat var_q (keep_q lo hi sl sh) (Z.to_nat reps) l in (Qred (fst r), Qred (snd r)).

(* margin of the closest comparison to its threshold over all rounds, as min over elements and rounds of
   |(x-m)^2 - level^2 v| / (level^2 v)  (used by the harness to discard inputs on which binary64 rounding could decide a
   comparison differently); None when v = 0 in a round that compares *)
Definition q_abs (a : Q) : Q := if Qle_bool 0 a then a else Qopp a.
Definition q_min (a b : Q) : Q := if Qle_bool a b then a else b.
Fixpoint margin_loop (lo hi : Z) (sl sh : bool) (reps : nat) (l : list Q) (m v : Q) (acc : Q) : option Q :=
  match reps with
  | O => Some acc
  | S n =>
      if Qle_bool v 0 then None else
      let t1 := (inject_Z (lo * lo) * v)%Q in
      let t2 := (inject_Z (hi * hi) * v)%Q in
      let acc' := fold_right (fun x a => q_min a (q_min (q_abs (((m - x) * (m - x) - t1) / t1)) (q_abs (((m - x) * (m - x) - t2) / t2))))%Q
                             acc l in
      let l' := filter (keep_q lo hi sl sh m v) l in
      match l' with
      | [] => Some acc'
      | _ => if Nat.eqb (length l') (length l) then Some acc'
             else margin_loop lo hi sl sh n l' (mean_q l') (var_q l') acc'
      end
  end.
Definition sigmaclip_margin (lo hi : Z) (sl sh : bool) (reps : Z) (l : list Q) : option Q :=
  option_map Qred (margin_loop lo hi sl sh (Z.to_nat reps) l (mean_q l) (var_q l) 1%Q).

(* ---- R: the statement-level version, with the standard deviation and the comparisons of the source *)
Definition Rltb (a b : R) : bool := if Rlt_dec a b then true else false.
Definition Rleb (a b : R) : bool := if Rle_dec a b then true else false.
Definition rcmp (strict : bool) (a b : R) : bool := if strict then Rltb a b else Rleb a b.
Definition keep_r (lo hi : Z) (sl sh : bool) (m s x : R) : bool :=
  rcmp sl (m - s * IZR lo)%R x && rcmp sh x (m + s * IZR hi)%R.
Definition mean_r := mean R 0%R Rplus Rdiv INR.
Definition var_r := var R 0%R Rplus Rminus Rmult Rdiv INR.
Definition std_r (l : list R) : R := sqrt (var_r l).
Definition sigmaclip_r (lo hi : Z) (sl sh : bool) (reps : Z) (l : list R) : R * R :=
  clip R 0%R Rplus Rdiv INR std_r (keep_r lo hi sl sh) (Z.to_nat reps) l.
