(* C09 - circle and polygon regions cover their shape and nothing far from it.
   Only statements and `exact <lemma>`; the lemmas are in Proofs/SkyCoordsProofs.v, the model in
   Model/SkyCoords.v over the generated leaves Gen/SkyCoords.v (regenerated from regions.py on every run)
   and the C08 region model.  healpy and the HEALPix tessellation are NOT axiomatised: every theorem that
   needs them is an implication from the named hypotheses of Model/SkyCoordsSpec.v (H0-H6, P0-P2 about a
   `healpy` record `hp` and an abstract cell geometry `incell`), which the harness validates against the
   real healpy on every run. *)
From Coq Require Import Reals ZArith Bool List Lia Lra.
From Aegean Require Import Lib.RBase Gen.SkyCoords Model.RegionModel Model.RegionSpec Model.SkyCoords
  Model.SkyCoordsSpec Proofs.SkyCoordsProofs.
Import ListNotations.
Open Scope R_scope.

(* sky2vec of (ra, dec) is the unit vector (cos dec cos ra, cos dec sin ra, sin dec): this is where a
   theta/phi swap or a forgotten `pi/2 -` in sky2ang would show *)
Theorem C09_vec_is_unit_vector : forall hp, H4_ang2vec hp ->
  forall ra dec, sky2vec hp (ra, dec) = (cos dec * cos ra, cos dec * sin ra, sin dec)
                 /\ dot (sky2vec hp (ra, dec)) (sky2vec hp (ra, dec)) = 1.
Proof. exact vec_is_unit_vector. Qed.

(* vec2sky inverts sky2vec on the principal range (radians and degrees), and conversely *)
Theorem C09_vec2sky_sky2vec : forall hp, H4b_vec2ang hp ->
  forall ra dec, 0 <= ra < 2 * PI -> - (PI / 2) < dec < PI / 2 ->
  vec2sky hp (sky2vec hp (ra, dec)) false = (ra, dec) /\
  vec2sky hp (sky2vec hp (ra, dec)) true = (deg ra, deg dec).
Proof. exact vec2sky_sky2vec. Qed.

Theorem C09_sky2vec_vec2sky : forall hp, H4c_ang2vec_vec2ang hp ->
  forall v, dot v v = 1 -> sky2vec hp (vec2sky hp v false) = v.
Proof. exact sky2vec_vec2sky. Qed.

(* a region to which circles have been added (whatever it held before; any region depth D >= 1; any
   insertion depth, None or >= 1, clamped to D as the code does) answers True for every position within
   the radius of a centre - poles and RA wrap included since the statement is about unit vectors -
   in radians and in degrees *)
Theorem C09_circle_covers : forall hp incell,
  H4_ang2vec hp -> H3_ang2pix hp incell -> H5_nested hp -> H0_disc_valid hp -> H1_disc_complete hp incell ->
  forall s cs d ra dec r ra' dec',
  Inv s -> depth_ok d -> In (ra, dec, r) cs -> 0 <= r <= PI -> - (PI / 2) <= dec' <= PI / 2 ->
  angdist (unitvec ra dec) (unitvec ra' dec') <= r ->
  sky_within1 hp (add_circles hp s cs d) (Some ra') (Some dec') false = true /\
  sky_within1 hp (add_circles hp s cs d) (Some (deg ra')) (Some (deg dec')) true = true.
Proof. exact circle_covers. Qed.

(* a region built from circles only contains nothing farther from every centre than the radius plus
   three pixel sizes of the insertion depth *)
Theorem C09_circle_tight : forall hp incell pixsize,
  H4_ang2vec hp -> H3_ang2pix hp incell -> H5_nested hp -> H0_disc_valid hp ->
  H2_disc_tight hp incell pixsize 3 ->
  forall D cs d ra' dec',
  (1 <= D)%Z -> depth_ok d -> (forall ra dec r, In (ra, dec, r) cs -> 0 <= r <= PI) ->
  - (PI / 2) <= dec' <= PI / 2 ->
  sky_within1 hp (add_circles hp (init D) cs d) (Some ra') (Some dec') false = true ->
  exists ra dec r, In (ra, dec, r) cs /\
    angdist (unitvec ra dec) (unitvec ra' dec') <= r + 3 * pixsize (circle_depth D d).
Proof. exact (fun hp incell pixsize => circle_tight hp incell pixsize 3). Qed.

(* PARTIAL.  Full statement: "the area of a region built from one circle lies between the areas of the
   caps of radius r and r + 3 pixel sizes".  Proved here from C09_circle_covers / C09_circle_tight for ANY
   monotone set function mu on sky positions that gives n distinct depth-D cells n pixel areas and a cap
   2 pi (1 - cos r) (Mu_mono, Mu_cells, Mu_cap), with nested cells (H6).  What is missing for the full
   statement is the construction of the area measure of the sphere with these three properties (measure
   theory on S^2 is not developed here); the harness checks the inequality itself on the real Region.
   IZR (area_units s) * pixarea D is what Region.get_area(degrees=False) sums (C08_area). *)
Theorem C09_area_between_caps_partial : forall hp incell pixsize,
  H4_ang2vec hp -> H3_ang2pix hp incell -> H5_nested hp -> H0_disc_valid hp ->
  H1_disc_complete hp incell -> H2_disc_tight hp incell pixsize 3 ->
  forall mu, Mu_mono mu -> Mu_cells incell mu -> Mu_cap mu -> H6_cells_nested incell ->
  forall D d ra dec r,
  (1 <= D)%Z -> depth_ok d -> 0 <= r -> r + 3 * pixsize (circle_depth D d) <= PI ->
  0 <= 3 * pixsize (circle_depth D d) ->
  let s := add_circles hp (init D) [(ra, dec, r)] d in
  2 * PI * (1 - cos r) <= IZR (area_units s) * pixarea D
                       <= 2 * PI * (1 - cos (r + 3 * pixsize (circle_depth D d))).
Proof. exact (fun hp incell pixsize => area_between_caps hp incell pixsize 3). Qed.

(* polygons: every position on the inner side of all edges answers True ... *)
Theorem C09_poly_covers : forall hp incell accepted,
  H4_ang2vec hp -> H3_ang2pix hp incell -> H5_nested hp -> P0_poly_valid hp ->
  P1_poly_complete hp incell accepted ->
  forall s vs d ra' dec',
  Inv s -> depth_ok d -> accepted (map skyvec vs) -> - (PI / 2) <= dec' <= PI / 2 ->
  inside_poly (map skyvec vs) (unitvec ra' dec') ->
  sky_within1 hp (add_poly hp s vs d) (Some ra') (Some dec') false = true /\
  sky_within1 hp (add_poly hp s vs d) (Some (deg ra')) (Some (deg dec')) true = true.
Proof. exact poly_covers. Qed.

(* ... and nothing farther than three pixel sizes outside any circle that contains all vertices *)
Theorem C09_poly_tight : forall hp incell pixsize accepted,
  H4_ang2vec hp -> H3_ang2pix hp incell -> H5_nested hp -> P0_poly_valid hp ->
  P2_poly_tight hp incell pixsize 3 accepted ->
  forall D vs d cra cdec rho ra' dec',
  (1 <= D)%Z -> depth_ok d -> accepted (map skyvec vs) -> 0 <= rho < PI / 2 ->
  (forall x, In x vs -> angdist (unitvec cra cdec) (skyvec x) <= rho) ->
  - (PI / 2) <= dec' <= PI / 2 ->
  sky_within1 hp (add_poly hp (init D) vs d) (Some ra') (Some dec') false = true ->
  angdist (unitvec cra cdec) (unitvec ra' dec') <= rho + 3 * pixsize (polygon_depth D d).
Proof. exact (fun hp incell pixsize accepted => poly_tight hp incell pixsize 3 accepted). Qed.

(* NaN / infinite coordinates are never inside, whatever healpy answers for the filled-in angles *)
Theorem C09_nan_false : forall hp s ra dec degin, ra = None \/ dec = None ->
  sky_within1 hp s ra dec degin = false.
Proof. exact nan_false. Qed.

(* degrees in = the same position in radians in *)
Theorem C09_degin : forall hp s ra dec,
  sky_within1 hp s ra dec true = sky_within1 hp s (omap rad ra) (omap rad dec) false.
Proof. exact degin_same. Qed.

(* scalar and vector inputs: row by row the same answer *)
Theorem C09_scalar_vector : forall hp s c degin,
  sky_within hp s c degin = map (fun r => sky_within1 hp s (fst r) (snd r) degin) (radec2sky c).
Proof. exact within_rows. Qed.

(* the real-free logic that the harness runs against the implementation (healpy replaced by a table) is
   the logic of sky_within1 *)
Theorem C09_logic_is_model : forall hp s ra dec degin,
  within_logic [(finite ra, finite dec)] [within_pix hp (depth s) (within_angles degin (ra, dec))]
     (level (cells (demote_all s)) (depth (demote_all s)))
  = [(a_mask (within_angles degin (ra, dec)), sky_within1 hp s ra dec degin)].
Proof. exact within_logic_row. Qed.

(* ---- non-vacuity.  (1) the hypotheses are jointly satisfiable: a one-pixel "tessellation" *)
Definition C09_toy : healpy :=
  mkHealpy dirvec (fun _ => (0, 0)) (fun _ _ _ _ => 0%Z) (fun _ _ _ _ _ => [0%Z]) (fun _ _ _ _ => [0%Z]).
Definition C09_toy_cell (d p : Z) (v : vec) : Prop := p = 0%Z.

Example C09_hyps_consistent :
  H4_ang2vec C09_toy /\ H3_ang2pix C09_toy C09_toy_cell /\ H5_nested C09_toy /\ H0_disc_valid C09_toy /\
  H1_disc_complete C09_toy C09_toy_cell /\ H2_disc_tight C09_toy C09_toy_cell (fun _ => PI) 3 /\
  P0_poly_valid C09_toy /\ P1_poly_complete C09_toy C09_toy_cell (fun _ => True) /\
  P2_poly_tight C09_toy C09_toy_cell (fun _ => PI) 3 (fun _ => True) /\ H6_cells_nested C09_toy_cell.
Proof.
  assert (Hv : forall d, (1 <= d)%Z -> valid_pix d [0%Z]).
  { intros d Hd. apply Forall_cons; [|apply Forall_nil].
    assert (0 < 4 ^ d)%Z by (apply Z.pow_pos_nonneg; lia). lia. }
  assert (Ha : forall x, acos x <= PI) by (intros x; apply acos_bound).
  pose proof PI_RGT_0 as Hpi.
  refine (conj _ (conj _ (conj _ (conj _ (conj _ (conj _ (conj _ (conj _ (conj _ _))))))))).
  - intros t p. reflexivity.
  - intros d t p _. reflexivity.
  - intros d D t p Hd _. cbn [C09_toy ang2pix]. apply Z.div_0_l. apply Z.pow_nonzero; lia.
  - intros d c r. apply Hv.
  - intros d c r p v _ Hc _. cbn. left. symmetry. exact Hc.
  - intros d c r p v Hr _ _. unfold angdist. pose proof (Ha (dot c v)). lra.
  - intros d vs. apply Hv.
  - intros d vs p v _ Hc _. cbn. left. symmetry. exact Hc.
  - intros d vs c rho p v _ Hr _ _ _. unfold angdist. pose proof (Ha (dot c v)). lra.
  - intros d D q v Hd Hc. unfold C09_toy_cell in *. subst q. apply Z.div_0_l. apply Z.pow_nonzero; lia.
Qed.

(* (2) the model computes: the depth clamp; a NaN row is masked and answers False even when the table
   pixel is in the region; a finite row follows the membership bit *)
Example C09_example_depth :
  circle_depth 8 None = 8%Z /\ circle_depth 8 (Some 12%Z) = 8%Z /\ circle_depth 8 (Some 5%Z) = 5%Z /\
  polygon_depth 8 (Some 9%Z) = 8%Z.
Proof. repeat split; vm_compute; reflexivity. Qed.

Example C09_example_logic :
  within_logic [(true, true); (false, true); (true, false); (true, true)] [7; 7; 7; 8]%Z [7%Z]
  = [(false, true); (true, false); (true, false); (false, false)].
Proof. vm_compute; reflexivity. Qed.

(* (3) the hypotheses of C09_circle_covers hold for the toy instance and a concrete circle and probe
   (centre at the north pole, probe at the centre): the theorem applies and gives True *)
Example C09_example_covers :
  sky_within1 C09_toy (add_circles C09_toy (init 3) [(0, PI / 2, 1)] None) (Some 0) (Some (PI / 2)) false = true.
Proof.
  destruct C09_hyps_consistent as [H4 [H3 [H5 [H0 [H1 _]]]]].
  refine (proj1 (C09_circle_covers C09_toy C09_toy_cell H4 H3 H5 H0 H1 (init 3) [(0, PI / 2, 1)] None
                   0 (PI / 2) 1 0 (PI / 2) _ I (or_introl eq_refl) _ _ _)).
  - apply Proofs.RegionProofs.init_Inv. lia.
  - pose proof PI2_1. lra.
  - pose proof PI_RGT_0. lra.
  - unfold angdist. rewrite unitvec_norm, acos_1. lra.
Qed.

Print Assumptions C09_vec_is_unit_vector.
Print Assumptions C09_vec2sky_sky2vec.
Print Assumptions C09_circle_covers.
Print Assumptions C09_circle_tight.
Print Assumptions C09_area_between_caps_partial.
Print Assumptions C09_poly_covers.
Print Assumptions C09_poly_tight.
Print Assumptions C09_nan_false.
Print Assumptions C09_degin.
Print Assumptions C09_scalar_vector.
Print Assumptions C09_hyps_consistent.
