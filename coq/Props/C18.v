(* C18 - Catalogues survive a write/read round trip in every readable format.
   Only statements and `exact <lemma>`; the lemmas live in Proofs/CatalogProofs.v and
   Proofs/CatalogRoundtrip.v, the model in Model/Catalog.v, the leaves in Gen/Catalog.v are regenerated
   from AegeanTools/catalogs.py and models.py on every run.

   Class codes: 2 ComponentSource, 1 IslandSource, 0 SimpleSource, anything else = not a source.
   F is the (abstract) type of floats: Aegean's code never looks inside one on these paths.
   The file formats are astropy's / sqlite's: they enter C18_roundtrip* as hypotheses that the
   harness validates with real files on every run. *)
From Coq Require Import ZArith Bool List String Lia Permutation.
From Aegean Require Import Gen.Catalog Model.Catalog Proofs.CatalogProofs Proofs.CatalogRoundtrip Proofs.CatalogSplitext.
Import ListNotations.
Open Scope string_scope.
Open Scope Z_scope.

(* each file gets exactly the sources of its kind, in the original relative order (filter); nothing is
   written for an absent kind; together the three lists are a permutation of the catalogue; the sqlite
   writer makes one table per non-empty kind with the `names` columns and one unmodified row per source *)
Theorem C18_split_exact : forall (F : Type) (eqi : F -> Z -> bool) (filename : string) (cat : list (source F)),
  let comps := filter (is_class F 2) cat in
  let isles := filter (is_class F 1) cat in
  let simps := filter (is_class F 0) cat in
  classify F cat = [comps; isles; simps] /\
  write_files F filename cat =
    (file_if F (out_name "_comp" filename) comps ++ file_if F (out_name "_isle" filename) isles ++
     file_if F (out_name "_simp" filename) simps)%list /\
  db_tables F eqi cat =
    (db_if F "components" 2 comps ++ db_if F "islands" 1 isles ++ db_if F "simples" 0 simps)%list /\
  (Forall (fun s => 0 <= s_class s <= 2) cat -> Permutation (comps ++ isles ++ simps)%list cat).
Proof.
  intros F eqi filename cat. cbv zeta.
  split; [exact (classify_spec F cat)|split; [exact (write_files_spec F filename cat)|
  split; [exact (db_tables_spec F eqi cat)|exact (partition3_perm F cat)]]].
Qed.

(* file names: root ++ suffix ++ ext where (root, ext) = splitext filename; distinct kinds get distinct
   names; the written name splits into (root ++ suffix, ext) again, so its extension - from which load_table
   chooses the reader - is the one save_catalog chose the writer from *)
Theorem C18_names : forall filename root ext, splitext filename = (root, ext) ->
  filename = root ++ ext /\
  (forall sfx, out_name sfx filename = root ++ sfx ++ ext) /\
  (forall s1 s2, In s1 suffixes -> In s2 suffixes -> out_name s1 filename = out_name s2 filename -> s1 = s2) /\
  (forall sfx, In sfx suffixes ->
     splitext (out_name sfx filename) = (root ++ sfx, ext) /\
     forall lowered, extension_of lowered (out_name sfx filename) = extension_of lowered filename).
Proof.
  intros filename root ext H.
  split; [exact (splitext_app filename root ext H)|split;
  [exact (fun sfx => out_name_spec sfx filename root ext H)|split; [exact (out_name_injective filename)|
   exact (fun sfx => out_name_splitext filename root ext sfx H)]]].
Qed.

(* the written columns are exactly `names` of the kind of the first source, in order, renamed when galactic,
   with the prefix; they are pairwise distinct; every column has one cell per source *)
Theorem C18_columns : forall (F : Type) (pre : option string) (s0 : source F) (rest : list (source F)),
  map fst (build_table F pre (s0 :: rest)) = map (col_name pre (s_galactic s0)) (names_of_class (s_class s0)) /\
  NoDup (map (col_name pre (s_galactic s0)) (names_of_class (s_class s0))) /\
  (forall n col, In (n, col) (build_table F pre (s0 :: rest)) -> List.length col = List.length (s0 :: rest)).
Proof.
  intros F pre s0 rest.
  split; [exact (build_table_names F pre s0 rest)|split;
  [exact (col_names_nodup pre (s_galactic s0) (s_class s0))|exact (build_table_lengths F pre (s0 :: rest))]].
Qed.

(* a FITS 'nA' column is at least 1 wide (astropy rejects 0A) and wide enough for every entry
   (columns have one dtype: numpy) *)
Theorem C18_string_width : forall (F : Type) (name : string) (col : list (cell F)) (w : nat),
  homogeneous F col -> fits_format F name col = FA w ->
  (1 <= w)%nat /\ forall s, In (CStr s) col -> (String.length s <= w)%nat.
Proof. exact string_width. Qed.

(* any table format whose reader returns the written cells as cell_rt: floats through rnd (identity for
   csv / tab / tex / VOTable), NaN masked when mask_nan (VOTable), '' masked when mask_empty (csv, tab, tex).
   load (read (write cat)) gives as many sources, of the same class; attribute n holds post (cell_rt v):
   the cell that was read, or - the loader skips masked cells - the class default.  No prefix, equatorial names. *)
Theorem C18_roundtrip : forall (F : Type) (nan : F) (is_nan : F -> bool) (rnd : F -> F) (mask_nan mask_empty : bool)
    (dom : table F -> Prop) (file_rt : table F -> table F),
  (forall t, dom t -> file_rt t = map (fun '(n, col) => (n, map (cell_rt F is_nan rnd mask_nan mask_empty) col)) t) ->
  forall (c : Z) (uuids : nat -> string) (cat : list (source F)),
  cat <> [] ->
  (forall s, In s cat -> s_class s = c) ->
  (forall s, In s cat -> s_galactic s = false) ->
  (forall s, In s cat -> is_masked F (cell_rt F is_nan rnd mask_nan mask_empty (getattr F s "uuid")) = false) ->
  dom (build_table F None cat) ->
  let loaded := table_to_source_list F nan c uuids (file_rt (build_table F None cat)) in
  List.length loaded = List.length cat /\
  (forall s, In s loaded -> s_class s = c) /\
  map (as_list F) loaded =
    map (fun s => map (fun n => post F nan c n (cell_rt F is_nan rnd mask_nan mask_empty (getattr F s n)))
                      (names_of_class c)) cat.
Proof. exact roundtrip_generic. Qed.

(* ... and when every NaN sits in an attribute that starts as NaN and every '' in one that starts as ''
   (restorable; C18_restorable: all float attributes of `names`, ra_str, dec_str) the sources come back
   cell by cell: NaN as NaN, '' as '', other floats through rnd, ints and strings unchanged *)
Theorem C18_roundtrip_restored : forall (F : Type) (nan : F) (is_nan : F -> bool) (rnd : F -> F)
    (mask_nan mask_empty : bool) (dom : table F -> Prop) (file_rt : table F -> table F),
  (forall t, dom t -> file_rt t = map (fun '(n, col) => (n, map (cell_rt F is_nan rnd mask_nan mask_empty) col)) t) ->
  forall (c : Z) (uuids : nat -> string) (cat : list (source F)),
  cat <> [] ->
  (forall s, In s cat -> s_class s = c) ->
  (forall s, In s cat -> s_galactic s = false) ->
  (forall s, In s cat -> is_masked F (cell_rt F is_nan rnd mask_nan mask_empty (getattr F s "uuid")) = false) ->
  (forall s n, In s cat -> In n (names_of_class c) -> restorable F nan is_nan c n (getattr F s n)) ->
  dom (build_table F None cat) ->
  map (as_list F) (table_to_source_list F nan c uuids (file_rt (build_table F None cat))) =
  map (fun s => map (expected F nan is_nan rnd mask_nan) (as_list F s)) cat.
Proof. exact roundtrip_restored. Qed.

Theorem C18_restorable : forall (F : Type) (nan : F) (is_nan : F -> bool) (c : Z) (n : string),
  (c = 0 \/ c = 1 \/ c = 2 -> In n (names_of_class c) -> ~ In n nonfloat_attrs ->
     forall f, restorable F nan is_nan c n (CFlt f)) /\
  (c = 1 \/ c = 2 -> n = "ra_str" \/ n = "dec_str" -> forall s, restorable F nan is_nan c n (CStr s)).
Proof.
  intros F nan is_nan c n.
  split; [exact (fun Hc Hn Hf f => restorable_float F nan is_nan c n f Hc Hn Hf)|
          exact (fun Hc Hn s => restorable_coord F nan is_nan c n s Hc Hn)].
Qed.

(* FITS: Aegean's column formats + the library storing each column in its format (strings cut to the width,
   'E' = rnd, an int in an 'E' column becomes a float) and masking NaN and '' on reading: strings and integers
   come back unchanged (no truncation, by C18_string_width), floats rounded, NaN as NaN and '' as '' (skip rule),
   the int -1 of an err_ column as float *)
Theorem C18_roundtrip_fits : forall (F : Type) (nan : F) (is_nan : F -> bool) (rnd : F -> F) (of_int : Z -> F)
    (fdom : list (string * fitsfmt * list (cell F)) -> Prop)
    (fits_rt : list (string * fitsfmt * list (cell F)) -> table F),
  (forall cols, fdom cols ->
     fits_rt cols = map (fun '(n, f, col) => (n, map (fits_cell F is_nan rnd of_int f) col)) cols) ->
  forall (c : Z) (uuids : nat -> string) (cat : list (source F)),
  cat <> [] ->
  (forall s, In s cat -> s_class s = c) ->
  (forall s, In s cat -> s_galactic s = false) ->
  (forall n, In n (names_of_class c) -> homogeneous F (map (fun s => getattr F s n) cat)) ->
  (forall s, In s cat -> exists u, getattr F s "uuid" = CStr u /\ is_empty u = false) ->
  (forall s n, In s cat -> In n (names_of_class c) -> restorable F nan is_nan c n (getattr F s n)) ->
  fdom (fits_columns F (build_table F None cat)) ->
  let loaded := table_to_source_list F nan c uuids (fits_rt (fits_columns F (build_table F None cat))) in
  List.length loaded = List.length cat /\
  (forall s, In s loaded -> s_class s = c) /\
  map (as_list F) loaded =
    map (fun s => map (fun n => fits_expected F nan is_nan rnd of_int n (getattr F s n)) (names_of_class c)) cat.
Proof. exact roundtrip_fits. Qed.

(* -1 and NaN: Aegean's own code hands every cell on unchanged.  (a) the table cell of row i, column n is
   getattr (source i) n; (b) a NaN that the reader masks (VOTable, FITS) is restored by the skip rule: the
   attribute keeps the class default NaN, for every float attribute of every class; every other float -
   the -1 marker included - is what the reader returned; (c) with a value-exact reader that masks no NaN
   (csv, tab, tex) `expected` is the identity: every cell comes back; (d) writeDB applies nulls to rows
   (lists), which never equal -1, so a row goes to sqlite unmodified although nulls would turn a -1 CELL into None *)
Theorem C18_markers : forall (F : Type) (nan : F) (is_nan : F -> bool) (eqi : F -> Z -> bool),
  (forall pre (s0 : source F) rest n, In n (names_of_class (s_class s0)) ->
     In (col_name pre (s_galactic s0) n, map (fun s => getattr F s n) (s0 :: rest)) (build_table F pre (s0 :: rest))) /\
  (forall rnd mask_empty c n f, c = 0 \/ c = 1 \/ c = 2 -> In n (names_of_class c) -> ~ In n nonfloat_attrs ->
     post F nan c n (cell_rt F is_nan rnd true mask_empty (CFlt f)) = if is_nan f then CFlt nan else CFlt (rnd f)) /\
  (forall c : cell F, expected F nan is_nan (fun x => x) false c = c) /\
  (forall s : source F, db_row F eqi s = map Some (as_list F s)) /\
  (forall r : list (cell F), nulls F eqi (VRow r) = VRow r) /\
  nulls F eqi (VCell (CInt (-1))) = VNone.
Proof.
  intros F nan is_nan eqi.
  split; [exact (build_table_cells F)|split; [|split; [exact (expected_id F nan is_nan)|split;
  [exact (db_row_spec F eqi)|split; [exact (nulls_row F eqi)|reflexivity]]]]].
  intros rnd mask_empty c n f Hc Hn Hf.
  exact (post_cell_rt F nan is_nan rnd true mask_empty c n (CFlt f) (restorable_float F nan is_nan c n f Hc Hn Hf)).
Qed.

(* writer / reader per extension: every extension load_table accepts is written by the table writer in the
   format of that name and read by the matching astropy reader (0 ascii.read, 1 Table.read) *)
Theorem C18_dispatch :
  map (fun e => (writer_code (save_writer e), load_reader e)) ["csv"; "tab"; "tex"; "vo"; "vot"; "xml"; "fits"] =
  [((3, "csv"), Some 0); ((3, "tab"), Some 0); ((3, "latex"), Some 0);
   ((0, "vo"), Some 1); ((0, "vot"), Some 1); ((0, "xml"), Some 1); ((2, "fits"), Some 1)].
Proof. exact leaf_dispatch. Qed.

(* non-vacuity *)
Example C18_example_names : out_name "_isle" "d.ir/sub/x.y.fits" = "d.ir/sub/x.y_isle.fits"
  /\ out_name "_comp" ".csv" = ".csv_comp".
Proof. split; reflexivity. Qed.

Example C18_example_split :
  map (fun '(n, l) => (n, map (@s_class unit) l))
      (write_files unit "a.csv" [ {| s_class := 0; s_galactic := false; s_attr := [] |};
                                  {| s_class := 2; s_galactic := false; s_attr := [] |};
                                  {| s_class := 7; s_galactic := false; s_attr := [] |};
                                  {| s_class := 2; s_galactic := false; s_attr := [] |} ]) =
  [("a_comp.csv", [2; 2]); ("a_simp.csv", [0])].
Proof. reflexivity. Qed.

Example C18_example_width :
  fits_format unit "ra_str" [CStr "1:2:3"; CStr "12:34:56.78"] = FA 11
  /\ fits_format unit "ra_str" [CStr ""; CStr ""] = FA 1
  /\ fits_format unit "err_ra" [CInt (-1); CInt (-1)] = FE
  /\ fits_format unit "island" [CInt 3; CInt 4] = FJ.
Proof. rewrite !leaf_fits_format. repeat split. Qed.

Print Assumptions C18_split_exact.
Print Assumptions C18_names.
Print Assumptions C18_columns.
Print Assumptions C18_string_width.
Print Assumptions C18_roundtrip.
Print Assumptions C18_roundtrip_restored.
Print Assumptions C18_restorable.
Print Assumptions C18_roundtrip_fits.
Print Assumptions C18_markers.
Print Assumptions C18_dispatch.
