(* C16 - Pixel <-> sky conversion of positions, vectors, ellipses: inverse and correct.
   Statements only.  The model (Model/WcsHelper.v) is WCSHelper.pix2sky / sky2pix with the GENERATED slot order and
   origin argument, and the GENERATED whole functions sky2pix_vec / pix2sky_vec / sky2pix_ellipse / pix2sky_ellipse
   (Gen/WcsHelper.v, regenerated from AegeanTools/wcs_helpers.py on every run) over gcd / bear / translate of
   Gen/Sphere.v.  Lemmas: Proofs/WcsHelperProofs.v (on Lib/Sphere.v).

   wcslib is NOT axiomatised.  P (FITS pixel -> sky) and S (sky -> FITS pixel) are universally quantified functions on
   FITS coordinates (p1 = axis 1 = column, p2 = axis 2 = row, 1-based); every theorem is an implication from
       SP : S (P p) = p             on the pixel domain Dp
       PS : P (S s) = s (RA mod 360) on the sky domain Ds
   and the harness validates both on real astropy WCS objects on every run, and validates P against an independent
   implementation of the FITS zenithal projections ("agrees with the FITS WCS standard" is decided there, by execution).
   The theorems are instantiated at the generated leaves: a tree that drops the x/y swap or passes origin 0 makes
   `exact` ill-typed.

   NOT theorems (decided by execution in tools/harness/c16.py on the real code): the tolerances 1e-6 pixel, 1e-3
   relative, 0.01 deg in binary64 with the real wcslib; the minor axis of an ellipse for a general (non-conformal,
   non-linear) projection - see C16_ellipse_roundtrip_partial. *)
From Coq Require Import Reals ZArith Lra.
From Aegean Require Import Lib.RBase Gen.Sphere Lib.Sphere Gen.WcsHelper Model.WcsHelper Proofs.WcsHelperProofs Proofs.WcsHelperExamples.
Open Scope R_scope.

(* a pixel (x, y) = (row, column) is sent to the FITS position (axis 1 = y, axis 2 = x) with origin 1, and sky2pix
   inverts pix2sky on the image *)
Theorem C16_point_roundtrip : forall (P S : pt -> pt) (Dp : pt -> Prop),
  (forall p, Dp p -> S (P p) = p) ->
  forall x y, m_pix2sky P (x, y) = P (y, x) /\ (Dp (y, x) -> m_sky2pix S (m_pix2sky P (x, y)) = (x, y)).
Proof. exact point_roundtrip. Qed.

(* sky -> pixel -> sky of a vector returns the origin (RA modulo 360), the length and the position angle EXACTLY, for
   0 < r < 180 with both ends away from the poles and inside the region where the WCS is invertible *)
Theorem C16_vec_roundtrip : forall (P S : pt -> pt) (Ds : pt -> Prop),
  (forall s, Ds s -> same_sky (P (S s)) s) ->
  forall (pos : pt) (r pa : R),
  Ds pos -> Ds (translate (fst pos) (snd pos) r pa) ->
  -90 < snd pos < 90 -> -90 < snd (translate (fst pos) (snd pos) r pa) < 90 -> 0 < r < 180 ->
  let '(x, y, l, th) := m_sky2pix_vec P S pos r pa in
  let '(ra', dec', r', pa') := m_pix2sky_vec P S (x, y) l th in
  same_sky (ra', dec') pos /\ r' = r /\ (-180 < pa <= 180 -> pa' = pa).
Proof. exact vec_roundtrip. Qed.

(* ellipse: centre, semi-major axis and position angle exactly (no assumption on the projection) *)
Theorem C16_ellipse_major_pa : forall (P S : pt -> pt) (Ds : pt -> Prop),
  (forall s, Ds s -> same_sky (P (S s)) s) ->
  forall (pos : pt) (a b pa : R),
  Ds pos -> Ds (translate (fst pos) (snd pos) a pa) ->
  -90 < snd pos < 90 -> -90 < snd (translate (fst pos) (snd pos) a pa) < 90 -> 0 < a < 180 ->
  let '(x, y, sx, sy, th) := m_sky2pix_ellipse P S pos a b pa in
  let '(ra', dec', a', b', pa') := m_pix2sky_ellipse P S (x, y) sx sy th in
  same_sky (ra', dec') pos /\ a' = a /\ (-180 < pa <= 180 -> pa' = pa).
Proof. exact ellipse_major_pa. Qed.

(* what the non-orthogonality correction of sky2pix_ellipse computes: with X, A, B the pixels of the centre, of the end
   of the major axis (translate pos a pa) and of the end of the minor axis (translate pos b (pa - 90)), the returned
   minor axis is the component of B - X perpendicular to the major axis A - X (not |B - X|) *)
Theorem C16_ellipse_minor_projection : forall (P S : pt -> pt) (Ds : pt -> Prop),
  (forall s, Ds s -> same_sky (P (S s)) s) ->
  forall (pos : pt) (a b pa : R),
  Ds pos -> Ds (translate (fst pos) (snd pos) a pa) ->
  -90 < snd pos < 90 -> -90 < snd (translate (fst pos) (snd pos) a pa) < 90 -> 0 < a < 180 ->
  let X := m_sky2pix S pos in
  let A := m_sky2pix S (translate (fst pos) (snd pos) a pa) in
  let B := m_sky2pix S (translate (fst pos) (snd pos) b (pa - 90)) in
  let '(x, y, sx, sy, th) := m_sky2pix_ellipse P S pos a b pa in
  (x, y) = X /\ (x + sx * cos (rad th), y + sx * sin (rad th)) = A /\ 0 < sx /\
  sy = Rabs ((snd B - snd X) * cos (rad th) - (fst B - fst X) * sin (rad th)).
Proof. exact ellipse_pixel_facts. Qed.

(* FULL statement wanted by the property: for every supported projection the minor axis returns within 1e-3 relative.
   Over an abstract WCS that is not a theorem (it bounds the non-linearity of the projection over the ellipse).
   PROVED: the minor axis returns EXACTLY when, at this point,
     (conformality)  the pixel images of the two sky-perpendicular axes are perpendicular, and
     (odd linearity) the reflection of the minor-axis end pixel through the centre pixel is the pixel of the reflected
                     sky point translate pos b (pa + 90)
   (pix2sky_ellipse queries the pixel on the OTHER side of the centre when the pixel frame has the usual handedness).
   MISSING: a bound in terms of the defects of these two hypotheses; the harness measures both defects on real WCS and
   decides the 1e-3 / 0.01 deg clause by execution. *)
Theorem C16_ellipse_roundtrip_partial : forall (P S : pt -> pt) (Ds : pt -> Prop),
  (forall s, Ds s -> same_sky (P (S s)) s) ->
  forall (pos : pt) (a b pa : R),
  let qa := translate (fst pos) (snd pos) a pa in
  let qb := translate (fst pos) (snd pos) b (pa - 90) in
  let qc := translate (fst pos) (snd pos) b (pa + 90) in
  let X := m_sky2pix S pos in let A := m_sky2pix S qa in let B := m_sky2pix S qb in
  Ds pos -> Ds qa -> -90 < snd pos < 90 -> -90 < snd qa < 90 -> 0 < a < 180 ->
  Ds qb -> -90 < snd qb < 90 -> -90 < snd qc < 90 -> 0 < b < 180 -> -180 < pa <= 180 ->
  (fst B - fst X) * (fst A - fst X) + (snd B - snd X) * (snd A - snd X) = 0 ->
  same_sky (m_pix2sky P (2 * fst X - fst B, 2 * snd X - snd B)) qc ->
  let '(x, y, sx, sy, th) := m_sky2pix_ellipse P S pos a b pa in
  let '(ra', dec', a', b', pa') := m_pix2sky_ellipse P S (x, y) sx sy th in
  same_sky (ra', dec') pos /\ a' = a /\ b' = b /\ pa' = pa.
Proof. exact ellipse_roundtrip. Qed.

(* lengths are great-circle lengths: the length returned by pix2sky_vec IS gcd of the two mapped end points, i.e. the
   angle in [0, 180] between their unit vectors; the angle is the bearing at the first one *)
Theorem C16_lengths_great_circle : forall (P S : pt -> pt) (pixel : pt) (r theta : R),
  let s1 := m_pix2sky P pixel in
  let s2 := m_pix2sky P (fst pixel + r * cos (rad theta), snd pixel + r * sin (rad theta)) in
  let '(ra, dec, l, pa) := m_pix2sky_vec P S pixel r theta in
  (ra, dec) = s1 /\ l = gcd (fst s1) (snd s1) (fst s2) (snd s2) /\
  cos (rad l) = dot (uvec (fst s1) (snd s1)) (uvec (fst s2) (snd s2)) /\ 0 <= l <= 180 /\
  pa = bear (fst s1) (snd s1) (fst s2) (snd s2).
Proof. intros P S. exact (lengths_great_circle (m_pix2sky P) (m_sky2pix S)). Qed.
(* the same for both axes of pix2sky_ellipse (the minor axis carries the correction factor |cos defect| <= 1) *)
Theorem C16_ellipse_lengths_great_circle : forall (P S : pt -> pt) (pixel : pt) (sx sy theta : R),
  let s0 := m_pix2sky P pixel in
  let s1 := m_pix2sky P (fst pixel + sx * cos (rad theta), snd pixel + sx * sin (rad theta)) in
  let s2 := m_pix2sky P (fst pixel + sy * cos (rad (theta - 90)), snd pixel + sy * sin (rad (theta - 90))) in
  let '(ra, dec, major, minor, pa) := m_pix2sky_ellipse P S pixel sx sy theta in
  major = gcd (fst s0) (snd s0) (fst s1) (snd s1) /\
  cos (rad major) = dot (uvec (fst s0) (snd s0)) (uvec (fst s1) (snd s1)) /\
  pa = bear (fst s0) (snd s0) (fst s1) (snd s1) /\
  minor = gcd (fst s0) (snd s0) (fst s2) (snd s2) *
          Rabs (cos (rad (pa - (bear (fst s0) (snd s0) (fst s2) (snd s2) - 90)))) /\
  0 <= minor <= gcd (fst s0) (snd s0) (fst s2) (snd s2).
Proof. intros P S. exact (ellipse_lengths_great_circle (m_pix2sky P) (m_sky2pix S)). Qed.

(* angles are measured East of North: the bearing (= the angle returned by pix2sky_vec / pix2sky_ellipse, and by
   C16_vec_roundtrip the angle consumed by sky2pix_vec) of a point displaced due north is 0, due south 180, towards
   increasing RA positive (exactly +90 on the equator), towards decreasing RA negative (exactly -90 on the equator) *)
Theorem C16_pa_east_of_north : forall ra dec d, 0 < d < 180 ->
  bear ra dec ra (dec + d) = 0 /\ bear ra dec ra (dec - d) = 180 /\
  (-90 < dec < 90 ->
   0 < bear ra dec (ra + d) dec < 180 /\ -180 < bear ra dec (ra - d) dec < 0 /\
   (dec = 0 -> bear ra dec (ra + d) dec = 90 /\ bear ra dec (ra - d) dec = -90)).
Proof. exact pa_east_of_north. Qed.

(* ---------------- non-vacuity ----------------
   exP / exS (Proofs/WcsHelperExamples.v): a linear WCS with 0.01 degree pixels, reference pixel (5, 5) at (10, 0).
   It is invertible, and concrete inputs satisfy every hypothesis of the round-trip theorems (for the ellipse also the
   conformality and odd-linearity hypotheses of C16_ellipse_roundtrip_partial). *)
Example C16_wcs_exists : (forall p, exS (exP p) = p) /\ (forall s, same_sky (exP (exS s)) s).
Proof. split; [exact exSP | exact exPS]. Qed.
Example C16_vec_hypotheses_hold :
  (forall s, True -> same_sky (exP (exS s)) s) /\
  let pos := (10, 0) in let r := 1 in let pa := 90 in
  -90 < snd pos < 90 /\ -90 < snd (translate (fst pos) (snd pos) r pa) < 90 /\ 0 < r < 180 /\ -180 < pa <= 180.
Proof. exact example_vec. Qed.
Example C16_ellipse_hypotheses_hold :
  let pos := (10, 0) in let a := 2 in let b := 1 in let pa := 0 in
  let qa := translate (fst pos) (snd pos) a pa in
  let qb := translate (fst pos) (snd pos) b (pa - 90) in
  let qc := translate (fst pos) (snd pos) b (pa + 90) in
  let X := m_sky2pix exS pos in let A := m_sky2pix exS qa in let B := m_sky2pix exS qb in
  -90 < snd pos < 90 /\ -90 < snd qa < 90 /\ 0 < a < 180 /\
  -90 < snd qb < 90 /\ -90 < snd qc < 90 /\ 0 < b < 180 /\ -180 < pa <= 180 /\
  (fst B - fst X) * (fst A - fst X) + (snd B - snd X) * (snd A - snd X) = 0 /\
  same_sky (m_pix2sky exP (2 * fst X - fst B, 2 * snd X - snd B)) qc.
Proof. exact example_ellipse. Qed.
(* the east-of-north statement at a concrete point: one degree towards increasing RA on the equator is at +90 *)
Example C16_east_is_plus_90 : bear 10 0 11 0 = 90.
Proof.
  replace 11 with (10 + 1) by lra.
  destruct (C16_pa_east_of_north 10 0 1 ltac:(lra)) as [_ [_ H]]. destruct H as [_ [_ H]]; [lra|]. apply H. reflexivity.
Qed.

Print Assumptions C16_point_roundtrip.
Print Assumptions C16_vec_roundtrip.
Print Assumptions C16_ellipse_roundtrip_partial.
