(* C01 - closed-loop recovery of an injected elliptical Gaussian.
   Statements only; proofs in Proofs/RecoveryProofs.v (conversion chain, canonical forms, bounds, recovery) and
   Proofs/GaussProofs.v (C04: derivatives).  The leaves (sky2pix_ellipse, pix2sky_ellipse, FWHM2CC/CC2FHWM, fix_shape, pa_limit,
   the arithmetic of result_to_components, the bounds of estimate_lmfit_parinfo, the Gaussian and its Jacobian) are regenerated
   from the sources into Gen/Recovery.v, Gen/Gauss.v, Gen/Sphere.v on every run.

   What is NOT proved: (1) the optimiser (lmfit / MINPACK) - it is the Section hypothesis `optimiser_finds_zero` of C01_recovery
   and is validated by the real closed loop on every run; (2) the WCS (astropy / wcslib): P = pix2sky, S = sky2pix are variables
   with the explicit hypotheses wcs_roundtrip_at / conformal_at / locally_conformal / uniform_scale, which a real projection
   satisfies only to second order in (source size / radius of curvature) - the harness measures the residue; (3) noise:
   "within 5 reported standard errors" is validated by execution only.

   FULL STATEMENT (property text) that is not a theorem of the current code:
     forall injected isolated source at least as large as the beam, the finder reports exactly the injected component.
   It fails on the recorded input class (known_findings.txt; Refuted/C01_amp_bound.v): a bright, coarsely sampled, off-centre source
   violates `amp (1 - 1.05 g) <= innerclip rms`, the upper bound of the amplitude then excludes the truth, and the reported peak is
   1.05 g x truth with flags = 0.  C01_truth_within_bounds_partial derives that condition; C01_recovery carries it (in_box).
   Two more recorded input classes, both faint (S/N 5 - 6) elongated sources: (a) the island-size cap of sx / sy
   (hypothesis `c_sx c <= (Rmax xsize ysize + 1) * sqrt 2 * FWHM2CC` of C01_truth_within_bounds_partial) excludes the true major axis when
   the island is shorter than the source (Refuted/C01_shape_cap.v); (b) an island at most 2 pixels across is not given the
   six-parameter fit at all (flag FIXED2PSF) - outside the model: C01_recovery is about summits that ARE fitted with all six parameters.
   "EXACTLY ONE COMPONENT" IS NOT A THEOREM HERE: C01_recovery is per summit, and the number of summits of an island is validated by
   execution only, for sources whose summit region (pixels of negative curvature above the outer clip) is one 4-connected region, i.e.
   whose sampled image has a single 3x3 local maximum.  Otherwise (second recorded finding, replayed by tools/harness/c01.py: an exact
   tie between two diagonal pixels, or the second lattice minimum of an oblique ridge of axis ratio >~ 3.5) the source is split into
   components of identical shape whose peak fluxes sum to the injected peak.
   A defect found by this check (err_a / err_b of fitting.errors understated: sigma instead of FWHM, x component
   only, and not exchanged when the optimiser returns sx < sy) was repaired in /repo; C01_err_axes states what the repaired expressions compute. *)
From Coq Require Import Reals List Arith Lra.
From Coquelicot Require Import Coquelicot.
From Interval Require Import Tactic.
From Aegean Require Import Lib.RBase Gen.Sphere Lib.Sphere Gen.Gauss Gen.Recovery Model.FitModel Model.Recovery
     Proofs.GaussProofs Proofs.RecoveryProofs Props.C04 Gen.SmallIsland Model.SmallIsland Proofs.SmallIslandProofs.
Import ListNotations.
Open Scope R_scope.

(* result_to_components undoes the injection.  For every source with a >= b > 0, -90 < pa <= 90, away from the poles, every island
   offset and every WCS that round-trips at the centre and at the end of the major axis:
   (1) if fix_shape does not swap (the minor axis obtained from the WCS does not exceed the injected major axis), position, peak
       flux, major axis and position angle are returned EXACTLY;
   (2) if moreover the WCS is conformal and point-symmetric at the source and has one linear scale there and at the reference pixel,
       the whole component (minor axis and integrated flux included) is the injected one. *)
Theorem C01_conversion_inverse : forall P S psf_a psf_b bmaj bmin s xmin ymin,
  regular_source s -> wcs_roundtrip_at P S s ->
  let k := to_component P psf_a psf_b (params_of (render S s) xmin ymin) xmin ymin in
  (minor_raw P S s * 3600 <= s_a s ->
     k_ra k = s_ra s /\ k_dec k = s_dec s /\ k_peak k = s_peak s /\ k_a k = s_a s /\ k_pa k = s_pa s) /\
  (conformal_at P S s -> uniform_scale S s psf_a psf_b bmaj bmin -> k = injected bmaj bmin s).
Proof. exact c01_conversion_inverse. Qed.

(* without conformality: the reported minor axis is the angular distance dq of the sky point found at the end of the fitted minor
   axis, shortened by |cos defect|; it never exceeds dq *)
Theorem C01_minor_bound_partial : forall P S psf_a psf_b s xmin ymin,
  regular_source s -> wcs_roundtrip_at P S s -> minor_raw P S s * 3600 <= s_a s ->
  let k := to_component P psf_a psf_b (params_of (render S s) xmin ymin) xmin ymin in
  let q := minor_sky_point P S s in
  let dq := gcd (s_ra s) (s_dec s) (fst q) (snd q) * 3600 in
  let defect := s_pa s - (bear (s_ra s) (s_dec s) (fst q) (snd q) - 90) in
  k_b k = dq * Rabs (cos (rad defect)) /\ k_b k <= dq /\ dq - k_b k = dq * (1 - Rabs (cos (rad defect))).
Proof. exact c01_minor_bound. Qed.

(* the parameterisations an optimiser may equally return.  (a) theta + 360: the same component for EVERY WCS.  (b) theta + 180 and
   (sx, sy, theta) -> (sy, sx, theta +- 90): the same component when the WCS is conformal and point-symmetric on the four ends of
   the axes (locally_conformal) and a > b.  (c) at the level of the reported shape, fix_shape / pa_limit give a >= b, -90 < pa <= 90
   and identify the four parameterisations, whatever the WCS.
   Partial: for a real projection (b) holds to second order in the source size only; this is measured by the closed loop. *)
Theorem C01_canonical_partial :
  (forall P psf_a psf_b c xmin ymin,
     to_component P psf_a psf_b (mkComp (c_amp c) (c_xo c) (c_yo c) (c_sx c) (c_sy c) (c_theta c + 360)) xmin ymin =
     to_component P psf_a psf_b c xmin ymin) /\
  (forall P psf_a psf_b x y sxF syF theta ra dec a b pa xmin ymin amp r,
     locally_conformal P x y sxF syF theta ra dec a b pa -> b < a ->
     let c0 := mkComp amp (x - 1 - xmin) (y - 1 - ymin) (sxF * FWHM2CC) (syF * FWHM2CC) theta in
     same_gaussian c0 r -> to_component P psf_a psf_b r xmin ymin = to_component P psf_a psf_b c0 xmin ymin) /\
  (forall a b pa, -450 < pa <= 180 ->
     (let k := canon a b pa in snd (fst k) <= fst (fst k) /\ -90 < snd k <= 90) /\
     canon a b (pa + 180) = canon a b pa /\
     (b < a -> -360 < pa -> canon b a (pa - 90) = canon a b pa) /\
     (b < a -> pa <= 90 -> canon b a (pa + 90) = canon a b pa)).
Proof. exact c01_canonical_all. Qed.

(* for every list of injected sources, every island offset, every pixel list / mask and every weighting of the pixels (noise scaling,
   any row of any whitening matrix B) the residual handed to the optimiser vanishes at the true parameters *)
Theorem C01_truth_zero_residual : forall S srcs xmin ymin pix,
  lin_residual (island_pts S srcs xmin ymin pix) (model (map (fun s => params_of (render S s) xmin ymin) srcs)) = 0.
Proof. exact truth_zero_residual. Qed.

(* the optimiser is handed the true derivatives (C04), also after whitening *)
Theorem C01_jacobian_true : forall cs i c p x y, nth_error cs i = Some c -> regular c -> (p < 6)%nat ->
  is_derive (fun t => model (upd cs i (set_par c p t)) x y) (get_par c p) (deriv p c x y).
Proof. exact C04_multi. Qed.
Theorem C01_jacobian_whitened : forall pts (f : R -> R -> R -> R) (g : R -> R -> R) t0,
  (forall x y, is_derive (fun t => f t x y) t0 (g x y)) ->
  is_derive (fun t => lin_residual pts (f t)) t0 (lin_jacobian pts g).
Proof. exact C04_whitened. Qed.

(* the box handed to lmfit.  The fit starts inside it; for an isolated noise-free positive source whose peak pixel is at least as
   bright as a pixel within half a pixel of the centre, with axis ratio^2 <= (ba^2 + bb^2) / 2 (pixel beam FWHM), at least as large
   as the pixel beam's minor axis and not longer than the island-size cap, the box contains the truth EXACTLY WHEN
        amp * (1 - 1.05 g) <= innerclip * rms,      g = peak pixel / amp = sub-pixel attenuation
   (c105 = the binary64 literal 1.05).  Partial: the condition is necessary, and it fails for bright, coarsely sampled, off-centre
   sources (recorded finding). *)
Theorem C01_truth_within_bounds_partial :
  (forall u bpa, summit_sane u -> in_box u (start_of u bpa)) /\
  (forall u c kx ky,
     0 < c_amp c -> 0 < c_sy c <= c_sx c -> 0 <= u_rms u -> 0 <= u_oc u -> 0 <= u_bb u ->
     u_pk u = gauss_c c (u_px u) (u_py u) ->
     Rabs (kx - c_xo c) <= 1 / 2 -> Rabs (ky - c_yo c) <= 1 / 2 -> gauss_c c kx ky <= gauss_c c (u_px u) (u_py u) ->
     2 * c_sx c ^ 2 <= c_sy c ^ 2 * (u_ba u ^ 2 + u_bb u ^ 2) ->
     u_bb u * FWHM2CC <= c_sy c ->
     c_sx c <= (Rmax (u_xsize u) (u_ysize u) + 1) * sqrt 2 * FWHM2CC ->
     (in_box u c <-> c_amp c * (1 - c105 * atten c (u_px u) (u_py u)) <= u_ic u * u_rms u)) /\
  1.05 - 1 / 10 ^ 15 < c105 < 1.05 + 1 / 10 ^ 15.
Proof. exact c01_bounds_all. Qed.

(* optimiser hypothesis + the above => the reported component is the injected one *)
Theorem C01_recovery : forall P S psf_a psf_b bmaj bmin minimize full_rank s xmin ymin rows u bpa,
  optimiser_finds_zero minimize full_rank ->
  summit_sane u ->
  in_box u (params_of (render S s) xmin ymin) ->
  full_rank (island_residual S s xmin ymin rows) (params_of (render S s) xmin ymin) ->
  (let e := pixel_ellipse S s in
   locally_conformal P (t5_1 e) (t5_2 e) (t5_3 e) (t5_4 e) (t5_5 e) (s_ra s) (s_dec s) (s_a s / 3600) (s_b s / 3600) (s_pa s)) ->
  s_b s < s_a s -> 0 <= s_ra s ->
  uniform_scale S s psf_a psf_b bmaj bmin ->
  to_component P psf_a psf_b (minimize (start_of u bpa) (in_box u) (island_residual S s xmin ymin rows)) xmin ymin
  = injected bmaj bmin s.
Proof. exact c01_recovery. Qed.

(* which islands are given the six-parameter fit that C01_recovery is about (leaves regenerated from estimate_lmfit_parinfo /
   _fit_island): every component of an island has its shape fitted exactly when the island has more than 6 finite pixels, is more
   than 2 pixels across and has 6 pixels per component; FIXED2PSF is set exactly for islands of at most 6 pixels or at most 2 pixels
   across (recorded finding (d): a faint source larger than the beam can have such an island), and then only then is no flag set.
   An island 3 pixels across IS fitted: a tree that fixes it to the psf generates another si_tiny_dim and these lemmas fail. *)
Theorem C01_six_parameter_fit : forall npix mindim ncomp : Z, (0 < ncomp)%Z ->
  (shape_fitted npix mindim ncomp = true <-> (6 < npix /\ 2 < mindim /\ 6 * ncomp <= npix)%Z).
Proof. exact shape_fitted_iff. Qed.
Theorem C01_fixed2psf_iff : forall npix mindim ncomp : Z,
  si_has (fit_flags npix mindim ncomp) si_FIXED2PSF = false <-> (6 < npix /\ 2 < mindim)%Z.
Proof. exact fixed2psf_iff. Qed.
Theorem C01_unflagged_iff : forall npix mindim ncomp : Z, (0 < ncomp)%Z ->
  (fit_flags npix mindim ncomp = 0%N <-> (6 < npix /\ 2 < mindim /\ 6 * ncomp <= npix)%Z).
Proof. exact unflagged_iff. Qed.

(* the reported uncertainties of the axes are the propagated ones, in sky units: err_a (err_b) is the great-circle distance, in
   arcseconds, between the sky images of the end of the FWHM major (minor) axis and of the same end when the fitted standard
   deviation is one standard error larger *)
Theorem C01_err_axes : forall P xo yo sx sy err_sx err_sy theta,
  reported_err_a P xo yo sx sy err_sx theta =
    (let r := P (major_end xo yo (sx * CC2FHWM) theta) in let o := P (major_end xo yo ((sx + err_sx) * CC2FHWM) theta) in
     gcd (fst r) (snd r) (fst o) (snd o)) * 3600 /\
  reported_err_b P xo yo sx sy err_sy theta =
    (let r := P (major_end xo yo (sy * CC2FHWM) (theta + 90)) in let o := P (major_end xo yo ((sy + err_sy) * CC2FHWM) (theta + 90)) in
     gcd (fst r) (snd r) (fst o) (snd o)) * 3600.
Proof. exact c01_err_axes. Qed.

(* ... and the pair stored as (err_a, err_b) follows the shape: err_a is the propagated error of the larger of the two fitted
   standard deviations (the axis that fix_shape made the major axis), whichever of sx, sy the optimiser made the larger one *)
Theorem C01_err_axes_follow_shape : forall P xo yo sx sy err_sx err_sy theta,
  reported_err_axes P xo yo sx sy err_sx err_sy theta =
  if Rlt_dec sx sy then (axis_err P xo yo sy err_sy (theta + 90), axis_err P xo yo sx err_sx theta)
  else (axis_err P xo yo sx err_sx theta, axis_err P xo yo sy err_sy (theta + 90)).
Proof. exact c01_err_axes_shape. Qed.

(* ---- non-vacuity *)
(* a source on the equator, 36 x 18 arcsec, pa = 0 *)
Example C01_example_source : regular_source (mkSource 10 0 1 36 18 0).
Proof.
  unfold regular_source. cbn [s_ra s_dec s_peak s_a s_b s_pa].
  pose proof (translate_dec_range 10 0 (36 / 3600) 0) as [Hl Hu]. pose proof (translate_sin_dec 10 0 (36 / 3600) 0) as Hs.
  assert (HF : -1 < tr_factor 0 (36 / 3600) 0 < 1) by (unfold tr_factor, rad; split; interval).
  set (d := snd (translate 10 0 (36 / 3600) 0)) in *.
  repeat split; try lra.
  - destruct Hl as [Hl|Hl]; [exact Hl|]. exfalso. rewrite <- Hl in Hs.
    replace (rad (-90)) with (- (PI / 2)) in Hs by (unfold rad; field). rewrite sin_neg, sin_PI2 in Hs. lra.
  - destruct Hu as [Hu|Hu]; [exact Hu|]. exfalso. rewrite Hu in Hs.
    replace (rad 90) with (PI / 2) in Hs by (unfold rad; field). rewrite sin_PI2 in Hs. lra.
Qed.
(* a WCS with a global inverse round-trips everywhere *)
Example C01_example_roundtrip : forall s,
  wcs_roundtrip_at (fun p => (- snd p / 360 + 10, fst p / 360)) (fun q => (360 * snd q, - 360 * (fst q - 10))) s.
Proof.
  intros s. unfold wcs_roundtrip_at. cbn [fst snd]. split.
  - f_equal; field.
  - rewrite (surjective_pairing (translate (s_ra s) (s_dec s) (s_a s / 3600) (s_pa s))) at 3. f_equal; field.
Qed.
(* the canonical shape of a swapped, out-of-range parameterisation *)
Example C01_example_canon : canon 2 3 100 = (3, 2, 10).
Proof. unfold canon. rewrite fix_shape_swap by lra. cbn [fst snd]. rewrite pa_limit_up by lra. f_equal. lra. Qed.
(* a centred, well sampled source satisfies the amplitude condition (g = 1) *)
Example C01_example_amp_condition : forall amp rms, 0 < amp -> 0 <= rms -> amp * (1 - c105 * 1) <= 5 * rms.
Proof. intros amp rms Ha Hr. pose proof c105_val. nra. Qed.
(* the sane summit / start *)
Example C01_example_start : in_box (mkSummit 1 10 10 (1/100) 5 4 3 3 9 9) (start_of (mkSummit 1 10 10 (1/100) 5 4 3 3 9 9) 0).
Proof. apply start_in_box; cbn; lra. Qed.

(* the two recorded thin islands: 10 x 3 pixels is fitted, 2 x 7 pixels is fixed to the psf *)
Example C01_example_islands : shape_fitted 28 3 1 = true /\ shape_fitted 14 2 1 = false /\ fit_flags 14 2 1 = 4%N.
Proof. vm_compute. auto. Qed.

Print Assumptions C01_conversion_inverse.
Print Assumptions C01_minor_bound_partial.
Print Assumptions C01_canonical_partial.
Print Assumptions C01_truth_zero_residual.
Print Assumptions C01_jacobian_true.
Print Assumptions C01_jacobian_whitened.
Print Assumptions C01_truth_within_bounds_partial.
Print Assumptions C01_recovery.
Print Assumptions C01_six_parameter_fit.
Print Assumptions C01_fixed2psf_iff.
Print Assumptions C01_err_axes.
Print Assumptions C01_err_axes_follow_shape.
