(* C13 - Sign symmetry and polarity filters of the source finder.
   Statements only; proofs in Proofs/IslandProofs.v and Proofs/PolarityProofs.v; leaves regenerated
   into Gen/Islands.v and Gen/Polarity.v.

   What is proved here is the symmetry of everything that happens BEFORE and AFTER the optimiser:
   island detection, the initial values / bounds / flags handed to lmfit, and the polarity filter.
   That the Levenberg-Marquardt iterates for mirrored inputs are mirror images (up to round-off) is not
   proved; tools/harness/c13.py validates it on the real finder on every run. *)
From Coq Require Import ZArith QArith Bool List.
From Aegean Require Import Lib.QBase Lib.Ext Gen.Islands Gen.Polarity Model.IslandModel Model.Polarity
                           Proofs.IslandProofs Proofs.PolarityProofs.
Import ListNotations.

(* (a) negating image and background gives the same islands *)
Theorem C13_islands_symmetric : forall img fl sd, islands (neg_image img) fl sd = islands img fl sd.
Proof. exact sign_symmetric. Qed.

(* (b) FULL statement (false for the current code - see Refuted/C13_mixed_island.v):

     forall segs psf_ok ic oc ms shape isl, (forall p, In p isl -> ~ ip_val p == 0) ->
       Forall2 mirror_of (estimate gen_leaves segs psf_ok ic oc ms shape isl)
                         (estimate gen_leaves segs psf_ok ic oc ms shape (neg_island isl)).

   Proved part: islands whose pixels all have the same sign.  Missing: islands containing pixels of
   both signs (`isnegative` is "all pixels negative", whose mirror image is "all pixels positive",
   but the other branch is taken whenever some pixel is positive).
   mirror_of c c' : amp' = -amp, min' == -max, max' == -min, same peak position, component index,
   flags and vary switches (position / shape / angle values and bounds are functions of the peak
   position and the index only - checked by the translator, `other_parameters_value_independent`).
   segs = segmentation of the summit pixels (scipy label), psf_ok = psf finite at a position. *)
Theorem C13_estimate_mirrored_partial : forall segs psf_ok ic oc ms shape isl, single_signed isl ->
  Forall2 mirror_of (estimate gen_leaves segs psf_ok ic oc ms shape isl)
                    (estimate gen_leaves segs psf_ok ic oc ms shape (neg_island isl)).
Proof. exact estimate_mirrored_partial. Qed.

(* (c) polarity filter.  catalogue peak nopositive nonegative l = rows of l that survive the filter.
   For rows with finite non-zero peak: both-polarities = everything; the positive-only
   (nonegative) and negative-only (nopositive) catalogues interleave, in order, to the full list;
   they contain only the requested sign; they are disjoint; with both switches nothing is left. *)
Theorem C13_filter_partition : forall (row : Type) (peak : row -> option Q) (l : list row),
  (forall s, In s l -> finite_nonzero (peak s)) ->
  catalogue row peak false false l = l /\
  interleave (catalogue row peak false true l) (catalogue row peak true false l) l /\
  (forall s, In s (catalogue row peak false true l) -> is_pos (peak s)) /\
  (forall s, In s (catalogue row peak true false l) -> is_neg (peak s)) /\
  (forall s, ~ (In s (catalogue row peak false true l) /\ In s (catalogue row peak true false l))) /\
  catalogue row peak true true l = [].
Proof. exact filter_partition. Qed.

(* the hypothesis `finite_nonzero` is needed: a row whose peak flux is exactly zero or NaN is dropped
   by NO setting of the current filter - it is in the positive-only catalogue, in the negative-only
   one, and in the one where both polarities are switched off *)
Theorem C13_filter_zero_nan_survives : forall (row : Type) (peak : row -> option Q) (l : list row) s np nn,
  In s l -> (peak s = None \/ exists q, peak s = Some q /\ (q == 0)%Q) -> In s (catalogue row peak np nn l).
Proof. exact zero_nan_survives. Qed.

(* (d) the curvature map that _fit_island hands to estimate_lmfit_parinfo: wherever the filter window
   of a pixel is not a plateau (pixel = maximum = minimum of its window), the curvature of the negated
   image is minus the curvature of the image - whatever replaces non-finite pixels before the two rank
   filters, the replacement for the minimum filter must be the mirror image of the one for the
   maximum filter.  maxf / minf = scipy's filters on one window, with the (validated) hypothesis that
   negation exchanges them.  This is hypothesis `ip_curve (neg) = - ip_curve` of neg_island in (b). *)
Theorem C13_curvature_mirrored : forall maxf minf : list ev -> ev,
  (forall v, maxf (map neg_ev v) = neg_ev (minf v)) -> (forall v, minf (map neg_ev v) = neg_ev (maxf v)) ->
  forall w c, plateau_gen maxf minf w c = false ->
  curve_gen maxf minf (map neg_ev w) (neg_ev c) = (- curve_gen maxf minf w c)%Z.
Proof. exact curvature_mirrored. Qed.

(* ---------- non-vacuity ---------- *)
(* a local maximum beside a blank pixel: curvature -1; negated: local minimum beside a blank pixel: +1
   (max_ev / min_ev: the rank filters on windows from which the fill has removed every NaN - here
   the window is written with the blank pixel left out, which is what scipy's filters do with it) *)
Example ex_curvature :
  curve_gen max_ev min_ev [Fin 3; Fin 5; Fin 9; Fin 4; Fin 2; Fin 1; Fin 6; Fin 7] (Fin 9) = (-1)%Z /\
  curve_gen max_ev min_ev (map neg_ev [Fin 3; Fin 5; Fin 9; Fin 4; Fin 2; Fin 1; Fin 6; Fin 7]) (neg_ev (Fin 9)) = 1%Z /\
  plateau_gen max_ev min_ev [Fin 3; Fin 5; Fin 9; Fin 4; Fin 2; Fin 1; Fin 6; Fin 7] (Fin 9) = false /\
  plateau_gen max_ev min_ev [Fin 4; Fin 4; Fin 4] (Fin 4) = true.
Proof. vm_compute. auto. Qed.
Example ex_filters_exchange : forall v, In v [[Fin 3; Fin (-5); PInf]; [NInf; Fin 0]; [Fin 7]] ->
  max_ev (map neg_ev v) = neg_ev (min_ev v) /\ min_ev (map neg_ev v) = neg_ev (max_ev v).
Proof. intros v [<-|[<-|[<-|[]]]]; vm_compute; auto. Qed.

Definition ex_p (r c v cu : Z) : ipx := mkIpx (r, c) (v # 1) (1 # 2) (cu # 1).
(* 4 x 6 island, all pixels positive, two local maxima (20 and 12), rms 1/2, clips 5 / 4 *)
Definition ex_isl : island :=
  [ex_p 0 1 5 0; ex_p 0 2 6 0; ex_p 0 3 5 0;
   ex_p 1 0 5 0; ex_p 1 1 8 0; ex_p 1 2 20 (-1); ex_p 1 3 9 0; ex_p 1 4 6 0; ex_p 1 5 5 0;
   ex_p 2 1 6 0; ex_p 2 2 9 0; ex_p 2 3 7 0; ex_p 2 4 12 (-1); ex_p 2 5 6 0;
   ex_p 3 2 5 0; ex_p 3 3 6 0; ex_p 3 4 7 0; ex_p 3 5 5 0].
Definition ex_est (isl : island) :=
  map (fun c => (c_amp c, c_pos c, c_index c)) (estimate gen_leaves segs4 (fun _ => true) (5 # 1) (4 # 1) None (4, 6)%Z isl).

Example ex_single_signed : single_signed ex_isl.
Proof.
  left. intros p Hin. repeat (destruct Hin as [<-|Hin]; [unfold Qlt; cbn; reflexivity|]). destruct Hin.
Qed.
Example ex_estimates :
  ex_est ex_isl = [(20 # 1, (1, 2)%Z, 0%Z); (12 # 1, (2, 4)%Z, 1%Z)] /\
  ex_est (neg_island ex_isl) = [((-20) # 1, (1, 2)%Z, 0%Z); ((-12) # 1, (2, 4)%Z, 1%Z)].
Proof. split; vm_compute; reflexivity. Qed.
Example ex_bounds :
  map (fun c => (Qred (c_min c), Qred (c_max c))) (estimate gen_leaves segs4 (fun _ => true) (5 # 1) (4 # 1) None (4, 6)%Z ex_isl)
  = map (fun c => (Qred (- c_max c), Qred (- c_min c)))
        (estimate gen_leaves segs4 (fun _ => true) (5 # 1) (4 # 1) None (4, 6)%Z (neg_island ex_isl)).
Proof. vm_compute. reflexivity. Qed.
Example ex_mirrored :
  Forall2 mirror_of (estimate gen_leaves segs4 (fun _ => true) (5 # 1) (4 # 1) None (4, 6)%Z ex_isl)
                    (estimate gen_leaves segs4 (fun _ => true) (5 # 1) (4 # 1) None (4, 6)%Z (neg_island ex_isl)).
Proof. apply C13_estimate_mirrored_partial, ex_single_signed. Qed.

(* the translator's dependency check on the remaining parameters is part of the generated file *)
Example ex_other_parameters : other_parameters_value_independent = true.
Proof. reflexivity. Qed.

(* filter: rows are their own peak fluxes *)
Definition ex_rows : list (option Q) := [Some (3 # 1); Some ((-2) # 1); Some (5 # 2); Some ((-7) # 3)].
Example ex_rows_ok : forall s, In s ex_rows -> finite_nonzero s.
Proof.
  intros s Hin. repeat (destruct Hin as [<-|Hin]; [eexists; split; [reflexivity|unfold Qeq; cbn; discriminate]|]).
  destruct Hin.
Qed.
Example ex_filter :
  catalogue _ (fun s => s) false true ex_rows = [Some (3 # 1); Some (5 # 2)] /\
  catalogue _ (fun s => s) true false ex_rows = [Some ((-2) # 1); Some ((-7) # 3)] /\
  catalogue _ (fun s => s) false false ex_rows = ex_rows /\
  catalogue _ (fun s => s) true true ex_rows = [].
Proof. vm_compute. auto. Qed.
(* a zero row and a NaN row are in every catalogue *)
Example ex_zero_nan :
  catalogue _ (fun s => s) true true [Some (3 # 1); Some (0 # 1); None; Some ((-2) # 1)] = [Some (0 # 1); None] /\
  catalogue _ (fun s => s) false true [Some (3 # 1); Some (0 # 1); None; Some ((-2) # 1)] = [Some (3 # 1); Some (0 # 1); None] /\
  catalogue _ (fun s => s) true false [Some (3 # 1); Some (0 # 1); None; Some ((-2) # 1)] = [Some (0 # 1); None; Some ((-2) # 1)].
Proof. vm_compute. auto. Qed.

Print Assumptions C13_islands_symmetric.
Print Assumptions C13_estimate_mirrored_partial.
Print Assumptions C13_filter_partition.
Print Assumptions C13_filter_zero_nan_survives.
Print Assumptions C13_curvature_mirrored.
