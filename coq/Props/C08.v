(* C08 - Region operations are set algebra on sky pixels, for every history.
   Only statements and `exact <lemma>`; lemmas live in Proofs/RegionProofs.v; the leaves of
   the model (children, parent, degrade, sibling test, loop ranges, cache reset) are
   regenerated from regions.py into Gen/Regions.v on every run. *)
From Coq Require Import ZArith Bool List.
From Aegean Require Import Gen.Regions Gen.RegionOps Model.RegionModel Model.RegionSpec Model.RegionOps Proofs.RegionProofs
  Proofs.RegionOpsProofs.
Import ListNotations.
Open Scope Z_scope.

(* every state reachable by any history of well-formed operations is well formed: levels
   within 1..depth, pixel identifiers valid integers for their level, cache coherent *)
Theorem C08_reachable_inv : forall D ops, 1 <= D -> Forall (op_ok D) ops ->
  Inv (run (init D) ops) /\ depth (run (init D) ops) = D.
Proof. exact reachable_inv. Qed.

Theorem C08_step_inv : forall s o, Inv s -> op_ok (depth s) o ->
  Inv (fst (step s o)) /\ depth (fst (step s o)) = depth s.
Proof. exact step_inv. Qed.

(* refinement: each operation changes the pixel set exactly as the set operation does, and
   every answer (membership, deepest-level pixel list, error on depth mismatch) is the
   set-algebra answer *)
Theorem C08_refines_step : forall s o, Inv s -> op_ok (depth s) o ->
  (forall q, absP (fst (step s o)) q <-> spec_step (depth s) (absP s) o q) /\
  spec_out (depth s) (absP s) o (snd (step s o)).
Proof. exact step_refines. Qed.

(* ... hence for every history: the pixel set after the history is the fold of the set
   operations over the empty set *)
Theorem C08_refines_history : forall D ops, 1 <= D -> Forall (op_ok D) ops ->
  forall q, absP (run (init D) ops) q <-> fold_left (spec_step D) ops (fun _ => False) q.
Proof. exact history_refines. Qed.

(* the closed form `cover` really is "all descendants by the generated children function" *)
(* the three same-depth operations of the model ARE the operations of the source: rebuilt from the Python set method each of
   regions.Region.without / intersect / symmetric_difference applies (Gen/RegionOps.v, re-read on every run: difference_update,
   intersection_update, symmetric_difference_update inside the skeleton guard; _demote_all; operand copy; method; _renorm) they
   coincide with the operations the refinement theorems above are about *)
Theorem C08_setops_follow_the_source : forall s o,
  without_src s o = without s o /\ intersect_src s o = intersect s o /\ symdiff_src s o = symdiff s o.
Proof. exact setops_follow_source. Qed.

Theorem C08_cover_is_descendants : forall D d p q, 1 <= d <= D -> 0 <= p ->
  (In q (expand (Z.to_nat (D - d)) p) <-> cover D (d, p) q).
Proof. exact expand_cover. Qed.

(* no patch of sky is represented twice, and nothing is left to merge, after every
   operation that renormalises; queries keep this *)
Theorem C08_normal_form : forall s o, Inv s -> op_ok (depth s) o -> renormalises (depth s) o = true ->
  no_overlap (fst (step s o)) /\ no_mergeable (fst (step s o)).
Proof. exact normal_form. Qed.

Theorem C08_queries_pure : forall s o, Inv s ->
  match o with Within _ | GetDemoted | GetArea | Uniq | SaveLoad => True | _ => False end ->
  (forall q, absP (fst (step s o)) q <-> absP s q) /\
  (no_overlap s -> no_overlap (fst (step s o))).
Proof. exact queries_pure. Qed.

(* area: on a state without overlap the reported area (in deepest-pixel units) is the number
   of pixels of the set *)
Theorem C08_area : forall s l, Inv s -> no_overlap s -> enumerates l (absP s) ->
  area_units s = Z.of_nat (length l).
Proof. exact area_is_cardinality. Qed.

(* non-vacuity: a mixed-depth history (an AddShape with a complete sibling group 0..3 that
   _renorm merges, a union with a depth-5 region holding one finer and one coarser cell, and a
   membership query that triggers _demote_all) *)
Definition C08_example_ops : list op :=
  [AddShape 3 [0;1;2;3;21]; Union (mkRegion 5 [(5, 340); (2, 1)] false) true; Within [21; 16; 5]].

(* the stored pixels per level after the history: everything demoted to level 3 by the query;
   (5,340) has been degraded to (3,21), (2,1) expanded to 4..7, (2,0) expanded back to 0..3 *)
Example C08_example :
  obs_levels (run (init 3) C08_example_ops) = [[]; []; [4; 5; 6; 7; 0; 1; 2; 3; 21]].
Proof. vm_compute; reflexivity. Qed.

(* outputs and stored levels after every operation: the first renorm merges 0..3 into (2,0);
   the query answers 21 in, 16 out, 5 in *)
Example C08_example_trace :
  trace (init 3) C08_example_ops =
  [([0], [[]; [0]; [21]]);
   ([0], [[]; [1; 0]; [21]]);
   ([2; 1; 0; 1], [[]; []; [4; 5; 6; 7; 0; 1; 2; 3; 21]])].
Proof. vm_compute; reflexivity. Qed.

(* the hypotheses of the theorems above hold for this history: every operation is well formed
   (op_ok), and before each operation the state satisfies Inv and has depth 3 - so
   C08_step_inv, C08_refines_step, C08_normal_form and C08_queries_pure all apply to each of
   its steps, and C08_reachable_inv / C08_refines_history to the whole *)
Example C08_example_ops_ok : Forall (op_ok 3) C08_example_ops.
Proof.
  unfold C08_example_ops, op_ok, valid, vcell; cbn [depth cells fst snd].
  repeat (apply Forall_cons || apply Forall_nil || split); vm_compute; congruence.
Qed.

Example C08_example_hyps :
  forall n, let s := run (init 3) (firstn n C08_example_ops) in
  Inv s /\ depth s = 3 /\
  match nth_error C08_example_ops n with Some o => op_ok (depth s) o | None => True end.
Proof.
  intros n s.
  assert (Hpre : Forall (op_ok 3) (firstn n C08_example_ops)).
  { apply Forall_forall. intros o Ho. apply (proj1 (Forall_forall _ _) C08_example_ops_ok).
    rewrite <- (firstn_skipn n C08_example_ops). apply in_or_app. left. exact Ho. }
  destruct (C08_reachable_inv 3 (firstn n C08_example_ops) ltac:(vm_compute; congruence) Hpre)
    as [HI HD].
  split; [exact HI|]. split; [exact HD|]. fold s in HD. rewrite HD.
  destruct (nth_error C08_example_ops n) as [o|] eqn:E; [|exact I].
  apply nth_error_In in E. exact (proj1 (Forall_forall _ _) C08_example_ops_ok o E).
Qed.

(* the history is not trivial for the normal-form theorem either: its second operation
   renormalises, and the state it produces is overlap-free with nothing left to merge *)
Example C08_example_normal :
  let s1 := run (init 3) (firstn 1 C08_example_ops) in
  let s2 := run (init 3) (firstn 2 C08_example_ops) in
  cells s1 = [(2, 0); (3, 21)] /\ cells s2 = [(2, 1); (2, 0); (3, 21); (3, 21)] /\
  no_overlap s2 /\ no_mergeable s2.
Proof.
  split; [vm_compute; reflexivity|]. split; [vm_compute; reflexivity|].
  destruct (C08_example_hyps 1%nat) as [HI [HD Hok]].
  exact (C08_normal_form _ _ HI Hok eq_refl).
Qed.

Print Assumptions C08_reachable_inv.
Print Assumptions C08_step_inv.
Print Assumptions C08_refines_step.
Print Assumptions C08_refines_history.
Print Assumptions C08_setops_follow_the_source.
Print Assumptions C08_cover_is_descendants.
Print Assumptions C08_normal_form.
Print Assumptions C08_queries_pure.
Print Assumptions C08_area.
Print Assumptions C08_example_hyps.
Print Assumptions C08_example_normal.
