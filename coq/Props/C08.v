From Coq Require Import ZArith Bool List.
From Aegean Require Import Gen.Regions Model.RegionModel.
Import ListNotations.
Open Scope Z_scope.
Theorem C08_placeholder : True. Proof. exact I. Qed.
