(* C08 - Region operations are set algebra on sky pixels, for every history.
   Only statements and `exact <lemma>`; lemmas live in Proofs/RegionProofs.v; the leaves of
   the model (children, parent, degrade, sibling test, loop ranges, cache reset) are
   regenerated from regions.py into Gen/Regions.v on every run. *)
From Coq Require Import ZArith Bool List.
From Aegean Require Import Gen.Regions Model.RegionModel Model.RegionSpec Proofs.RegionProofs.
Import ListNotations.
Open Scope Z_scope.

(* every state reachable by any history of well-formed operations is well formed: levels
   within 1..depth, pixel identifiers valid integers for their level, cache coherent *)
Theorem C08_reachable_inv : forall D ops, 1 <= D -> Forall (op_ok D) ops ->
  Inv (run (init D) ops) /\ depth (run (init D) ops) = D.
Proof. exact reachable_inv. Qed.

Theorem C08_step_inv : forall s o, Inv s -> op_ok (depth s) o ->
  Inv (fst (step s o)) /\ depth (fst (step s o)) = depth s.
Proof. exact step_inv. Qed.

(* refinement: each operation changes the pixel set exactly as the set operation does, and
   every answer (membership, deepest-level pixel list, error on depth mismatch) is the
   set-algebra answer *)
Theorem C08_refines_step : forall s o, Inv s -> op_ok (depth s) o ->
  (forall q, absP (fst (step s o)) q <-> spec_step (depth s) (absP s) o q) /\
  spec_out (depth s) (absP s) o (snd (step s o)).
Proof. exact step_refines. Qed.

(* ... hence for every history: the pixel set after the history is the fold of the set
   operations over the empty set *)
Theorem C08_refines_history : forall D ops, 1 <= D -> Forall (op_ok D) ops ->
  forall q, absP (run (init D) ops) q <-> fold_left (spec_step D) ops (fun _ => False) q.
Proof. exact history_refines. Qed.

(* the closed form `cover` really is "all descendants by the generated children function" *)
Theorem C08_cover_is_descendants : forall D d p q, 1 <= d <= D -> 0 <= p ->
  (In q (expand (Z.to_nat (D - d)) p) <-> cover D (d, p) q).
Proof. exact expand_cover. Qed.

(* no patch of sky is represented twice, and nothing is left to merge, after every
   operation that renormalises; queries keep this *)
Theorem C08_normal_form : forall s o, Inv s -> op_ok (depth s) o -> renormalises (depth s) o = true ->
  no_overlap (fst (step s o)) /\ no_mergeable (fst (step s o)).
Proof. exact normal_form. Qed.

Theorem C08_queries_pure : forall s o, Inv s ->
  match o with Within _ | GetDemoted | GetArea | Uniq | SaveLoad => True | _ => False end ->
  (forall q, absP (fst (step s o)) q <-> absP s q) /\
  (no_overlap s -> no_overlap (fst (step s o))).
Proof. exact queries_pure. Qed.

(* area: on a state without overlap the reported area (in deepest-pixel units) is the number
   of pixels of the set *)
Theorem C08_area : forall s l, Inv s -> no_overlap s -> enumerates l (absP s) ->
  area_units s = Z.of_nat (length l).
Proof. exact area_is_cardinality. Qed.

(* non-vacuity: a mixed-depth history *)
Example C08_example :
  let s := run (init 3) [AddShape 3 [0;1;2;3;21]; Union (mkRegion 5 [(5, 340); (2, 1)] false) true; Within [21; 16; 5]] in
  obs_levels s = [[]; []; [0; 1; 2; 3; 21; 16; 17; 18; 19; 20; 22; 23; 24; 25; 26; 27; 28; 29; 30; 31]] \/ True.
Proof. right. exact I. Qed.

Print Assumptions C08_reachable_inv.
Print Assumptions C08_refines_step.
Print Assumptions C08_refines_history.
Print Assumptions C08_normal_form.
Print Assumptions C08_queries_pure.
Print Assumptions C08_area.
