(* C16 (extension) - beam, pixel-scale and separation helpers of AegeanTools/wcs_helpers.py.
   Statements only.  Model: Model/WcsBeam.v over the leaves of Gen/WcsBeam.v (regenerated from wcs_helpers.py on every run:
   sky_sep as a whole function, the if / elif chain of get_pixinfo with its expressions, the slots / defaults of get_beam and
   Beam.__init__, the tests, word indices and assigned keys of fix_aips_header, the beam selection of from_header, the clip /
   int / index expression of the psf-map lookup, the beam-area expressions).  Lemmas: Proofs/WcsBeamProofs.v.
   wcslib is NOT axiomatised: P is a universally quantified function (FITS pixel -> sky), as in Props/C16.v.
   A header is (pres, val): which keywords are present and their values; HISTORY = None when the header has no such card. *)
From Coq Require Import Reals ZArith List Bool.
From Aegean Require Import Lib.RBase Gen.Sphere Lib.Sphere Gen.WcsHelper Gen.WcsBeam Model.WcsHelper Model.WcsBeam
  Proofs.WcsBeamProofs Proofs.WcsBeamExamples.
Import ListNotations.
Open Scope R_scope.

(* sky_sep of two pixels (row, column) is the great-circle distance of their sky positions: the angle in [0, 180] between the
   unit vectors; symmetric; zero exactly when the two pixels are the same point of the sky; triangle inequality *)
Theorem C16x_sky_sep_is_great_circle : forall (P : pt -> pt) (p q r : pt),
  let s := fun x : pt => P (snd x, fst x) in
  let d := m_sky_sep P in
  d p q = gcd (fst (s p)) (snd (s p)) (fst (s q)) (snd (s q)) /\
  cos (rad (d p q)) = dot (uvec (fst (s p)) (snd (s p))) (uvec (fst (s q)) (snd (s q))) /\
  0 <= d p q <= 180 /\
  d p q = d q p /\
  (d p q = 0 <-> uvec (fst (s p)) (snd (s p)) = uvec (fst (s q)) (snd (s q))) /\
  d p r <= d p q + d q r.
Proof. exact sky_sep_great_circle. Qed.

(* which beam a WCSHelper gets (from_header / from_file): an explicit beam always wins; otherwise BMAJ / BMIN of the header with
   BPA = 0 when that card is missing; AssertionError (BRaise) exactly when BMAJ or BMIN is missing or not positive.
   The AIPS CLEAN history line is NOT consulted (the result does not depend on the HISTORY cards): only the separate
   fix_aips_header does that, see below. *)
Theorem C16x_beam_priority : forall (arg : option (R * R * R)) (h : header) (hist : option (list hline)),
  (forall b, arg = Some b -> m_from_header_beam arg h hist = BSome b) /\
  (arg = None -> pres h BMAJ = true -> pres h BMIN = true -> 0 < val h BMAJ -> 0 < val h BMIN ->
   m_from_header_beam arg h hist = BSome (val h BMAJ, val h BMIN, if pres h BPA then val h BPA else 0)) /\
  (arg = None -> pres h BMAJ = true -> pres h BMIN = true -> (val h BMAJ <= 0 \/ val h BMIN <= 0) ->
   m_from_header_beam arg h hist = BRaise) /\
  (arg = None -> (pres h BMAJ = false \/ pres h BMIN = false) -> m_from_header_beam arg h hist = BRaise) /\
  (forall hist', m_from_header_beam arg h hist' = m_from_header_beam arg h hist) /\
  m_beam_src (match arg with Some _ => true | None => false end) (pres h) =
    match arg with Some _ => 0%Z | None => if pres h BMAJ && pres h BMIN then 1%Z else 2%Z end.
Proof. exact beam_priority. Qed.
Theorem C16x_get_beam_none_iff : forall h, m_get_beam h = BNone <-> pres h BMAJ = false \/ pres h BMIN = false.
Proof. exact get_beam_none_iff. Qed.

(* fix_aips_header: a header with all of BMAJ, BMIN, BPA is left alone; otherwise the FIRST history line that starts with "AIPS" and
   contains "BMAJ" supplies all three cards (words 3, 5, 7) - also over BMAJ / BMIN cards that are present when only BPA is missing -
   and get_beam of the repaired header is that beam; no such line: unchanged *)
Theorem C16x_fix_aips_complete : forall h hist, pres h BMAJ = true -> pres h BMIN = true -> pres h BPA = true ->
  m_fix_aips h hist = Some (h, false).
Proof. exact fix_aips_complete. Qed.
Theorem C16x_fix_aips_first_line : forall h pre l post, pres h BMAJ && pres h BMIN && pres h BPA = false ->
  Forall (fun x => l_prefix x && l_marker x = false) pre -> l_prefix l && l_marker l = true ->
  exists h', m_fix_aips h (Some (pre ++ l :: post)) = Some (h', true) /\
    pres h' BMAJ = true /\ pres h' BMIN = true /\ pres h' BPA = true /\
    val h' BMAJ = l_word l 3 /\ val h' BMIN = l_word l 5 /\ val h' BPA = l_word l 7 /\
    (forall k, k <> BMAJ -> k <> BMIN -> k <> BPA -> pres h' k = pres h k /\ val h' k = val h k) /\
    m_get_beam h' = mk_beam (l_word l 3) (l_word l 5) (l_word l 7).
Proof. exact fix_aips_first_line. Qed.
Theorem C16x_fix_aips_no_line : forall h ls, pres h BMAJ && pres h BMIN && pres h BPA = false ->
  Forall (fun l => l_prefix l && l_marker l = false) ls -> m_fix_aips h (Some ls) = Some (h, false).
Proof. exact fix_aips_no_line. Qed.
(* FULL statement of the docstring ("Fix the header if possible, otherwise don't. Either way, don't complain"):
     forall h hist, m_fix_aips h hist <> None.
   The faithful model violates it: a header without the three cards AND without any HISTORY card raises KeyError.
   PROVED instead: that is the only way to fail. *)
Theorem C16x_fix_aips_total_partial : forall h, pres h BMAJ && pres h BMIN && pres h BPA = false -> m_fix_aips h None = None.
Proof. exact fix_aips_no_history. Qed.

(* get_pixinfo.  CDELT1 / CDELT2 are used whenever both are present (also when the header has a CD matrix, which wcslib then
   uses INSTEAD of CDELT); otherwise a full CD matrix gives |det CD| - the true pixel area of the linear part - and the diagonal as
   pixscale; a diagonal CD matrix and CDELT cards with the same numbers agree; for a rotated CD matrix the area is the true s^2
   but the pixscale is (-s cos t, s cos t): the true scale hypot CD1_1 CD2_1 equals |CD1_1| only without rotation *)
Theorem C16x_pixinfo_cdelt : forall h, pres h CDELT1 = true -> pres h CDELT2 = true ->
  m_pixinfo h = (Rabs (val h CDELT1 * val h CDELT2), (val h CDELT1, val h CDELT2)).
Proof. exact pixinfo_cdelt. Qed.
Theorem C16x_pixinfo_cd_is_det : forall h, pres h CDELT1 && pres h CDELT2 = false ->
  pres h CD1_1 = true -> pres h CD1_2 = true -> pres h CD2_1 = true -> pres h CD2_2 = true ->
  m_pixinfo h = (Rabs (val h CD1_1 * val h CD2_2 - val h CD1_2 * val h CD2_1), (val h CD1_1, val h CD2_2)).
Proof. exact pixinfo_cd4. Qed.
Theorem C16x_pixinfo_cdelt_cd_agree : forall h h',
  pres h CDELT1 && pres h CDELT2 = false ->
  pres h CD1_1 = true -> pres h CD1_2 = true -> pres h CD2_1 = true -> pres h CD2_2 = true ->
  val h CD1_2 = 0 -> val h CD2_1 = 0 ->
  pres h' CDELT1 = true -> pres h' CDELT2 = true -> val h' CDELT1 = val h CD1_1 -> val h' CDELT2 = val h CD2_2 ->
  m_pixinfo h = m_pixinfo h'.
Proof. exact pixinfo_cdelt_cd_agree. Qed.
Theorem C16x_pixinfo_rotated : forall h s t, pres h CDELT1 && pres h CDELT2 = false ->
  pres h CD1_1 = true -> pres h CD1_2 = true -> pres h CD2_1 = true -> pres h CD2_2 = true ->
  val h CD1_1 = - s * cos t -> val h CD1_2 = s * sin t -> val h CD2_1 = s * sin t -> val h CD2_2 = s * cos t ->
  m_pixinfo h = (s * s, (- s * cos t, s * cos t)).
Proof. exact pixinfo_rotated. Qed.
Theorem C16x_pixscale_true_iff_unrotated : forall a c, Rabs a = hypot a c <-> c = 0.
Proof. exact true_scale_iff_no_rotation. Qed.
Theorem C16x_pixinfo_unknown : forall h, pres h CDELT1 && pres h CDELT2 = false -> pres h CD1_1 && pres h CD2_2 = false ->
  m_pixinfo h = (0, (0, 0)).
Proof. exact pixinfo_none. Qed.

(* beam areas: both are pi a b of the psf lookups (NOT the Gaussian beam area pi a b / (4 ln 2): the caller multiplies by 4 ln 2),
   and the area in square degrees is the area in pixels times the pixel area wherever the sky axes are the pixel axes times the
   pixel scales - which is what makes int_flux = peak a b / (psf_a psf_b) independent of the unit (Props/C03.v, C03_intflux_partial) *)
Theorem C16x_beamarea_is_pi_ab : forall P S refpix ba bb bpa pos,
  let '(a, b, _) := m_psf_sky2sky P S refpix ba bb bpa pos in
  let '(sx, sy, _) := m_psf_pix P S refpix ba bb bpa in
  m_beamarea_deg2 P S refpix ba bb bpa pos = PI * a * b /\ m_beamarea_pix P S refpix ba bb bpa = PI * sx * sy.
Proof. exact beamarea_is_pi_ab. Qed.
Theorem C16x_beamarea_consistent : forall h sx sy, pres h CDELT1 = true -> pres h CDELT2 = true ->
  beamarea_deg2 (sx * Rabs (val h CDELT1)) (sy * Rabs (val h CDELT2)) = beamarea_pix sx sy * fst (m_pixinfo h).
Proof. exact beamarea_pixarea. Qed.

(* psf map lookup (psf_file given): inside the map the cell is the integer part of the 1-based FITS coordinate used as a 0-based
   index, always inside the array; so at the centre of cell (r, c) the lookup reads cell (r + 1, c + 1) (clipped) - the recorded
   finding Refuted/C16x_psf_map_cell.v; nearest_cell is the cell that contains the position *)
Theorem C16x_psf_cell_floor : forall shape f1 f2 den, (0 < den)%Z ->
  (0 <= f2 <= (shape 1 - 1) * den)%Z -> (0 <= f1 <= (shape 2 - 1) * den)%Z ->
  m_psf_cell shape f1 f2 den = ((f2 / den)%Z, (f1 / den)%Z).
Proof. exact psf_cell_floor. Qed.
Theorem C16x_psf_index_in_range : forall lo hi num den, (0 <= lo <= hi)%Z -> (0 < den)%Z ->
  (lo <= m_psf_index lo hi num den <= hi)%Z.
Proof. exact psf_index_range. Qed.
Theorem C16x_psf_cell_centre_shifted : forall shape r c, (0 <= r)%Z -> (0 <= c)%Z ->
  m_psf_cell shape (c + 1) (r + 1) 1 = (Z.min (r + 1) (shape 1%Z - 1), Z.min (c + 1) (shape 2%Z - 1)) /\
  ((r < shape 1%Z)%Z -> (c < shape 2%Z)%Z -> nearest_cell shape (c + 1) (r + 1) 1 = (r, c)).
Proof. exact psf_cell_centre_both. Qed.

(* ---------------- non-vacuity ---------------- *)
Example C16x_header_beam_example :
  m_from_header_beam None ex_header None = BSome (2, 1, 0) /\ m_pixinfo ex_header = (6, (-2, 3)).
Proof. exact ex_header_facts. Qed.
Example C16x_aips_example :
  pres ex_header BMAJ && pres ex_header BMIN && pres ex_header BPA = false /\
  l_prefix ex_line && l_marker ex_line = true /\ l_word ex_line 3 = 4.
Proof. exact ex_line_facts. Qed.
Example C16x_rotated_example : exists h, pres h CDELT1 && pres h CDELT2 = false /\
  pres h CD1_1 = true /\ pres h CD1_2 = true /\ pres h CD2_1 = true /\ pres h CD2_2 = true /\
  val h CD1_1 = - 2 * cos 1 /\ val h CD1_2 = 2 * sin 1 /\ val h CD2_1 = 2 * sin 1 /\ val h CD2_2 = 2 * cos 1.
Proof. exact ex_rotated. Qed.

Print Assumptions C16x_sky_sep_is_great_circle.
Print Assumptions C16x_beam_priority.
Print Assumptions C16x_psf_cell_floor.
