(* C09 (extension) - the front end that turns user shapes into the circles / polygons / pixel sets of C09:
   MIMAS.circle2circle, box2poly, poly2poly, reg2mim (DS9 region text), MIMAS.mask2mim (image mask) and the scalar / sequence
   handling of Region.add_circles.  Only statements and `exact <lemma>`; the lemmas are in Proofs/Ds9Proofs.v, the model in
   Model/Ds9.v over the leaves Gen/Ds9.v (regenerated from MIMAS.py / regions.py on every run).

   Text is a list of character codes; ds9_delims = white space ( ) , is the generated character class of re.split.
   astropy (Angle, SkyCoord, float parsing), healpy (vec2pix, ang2pix) and wcslib (all_pix2world) are NOT axiomatised: they are
   function arguments, and every theorem that needs a fact about them is an implication from a named hypothesis which the
   harness validates against the real library on every run. *)
From Coq Require Import Reals ZArith Bool List.
From Aegean Require Import Lib.RBase Gen.Ds9 Model.RegionModel Model.RegionSpec Model.SkyCoords Model.SkyCoordsSpec Model.Ds9
  Proofs.Ds9Proofs.
Import ListNotations.
Open Scope Z_scope.

(* circle(a,b,rq): centre (a, b) degrees - a x 15 when it is written h:m:s -, radius r / 3600 degrees.  The character q after the
   number is cut off WITHOUT being looked at (so r' and rd are read as arc seconds too, and a radius without unit suffix loses
   its last digit: recorded finding, see the harness notes).
   A1: Angle(s, arcsec).degree = float(s) / 3600 for decimal s;  A2: Angle(s, hour).degree = 15 Angle(s, deg).degree *)
Theorem C09x_circle_units : forall (A : astro) (numeric coordinate : str -> Prop),
  (forall s, numeric s -> angle_str A 3 s = (pyfloat A s / 3600)%R) ->
  (forall s, coordinate s -> angle_str A 1 s = (15 * angle_str A 0 s)%R) ->
  forall head d1 a d2 b d3 r q d4 tail,
  clean ds9_delims head -> clean ds9_delims a -> clean ds9_delims b -> clean ds9_delims (r ++ [q]) ->
  delim ds9_delims d1 -> delim ds9_delims d2 -> delim ds9_delims d3 -> delim ds9_delims d4 ->
  coordinate a -> numeric r ->
  circle2circle A (head ++ d1 :: a ++ d2 :: b ++ d3 :: (r ++ [q]) ++ d4 :: tail) =
  Some ((if has_colon a then 15 * angle_str A 0 a else angle_str A 0 a)%R, angle_str A 0 b, (pyfloat A r / 3600)%R).
Proof. exact circle_units. Qed.

(* polygon(a1,b1,...,an,bn) + white space: exactly the n pairs, in file order, none dropped or duplicated ... *)
Theorem C09x_poly_vertices_in_order : forall head vs tail,
  clean ds9_delims head -> Forall (fun v => coordword (fst v) /\ coordword (snd v)) vs ->
  Forall (fun c => is_in c ws_chars = true) tail ->
  poly_sym (head ++ join (pair_text 40 vs) ++ 41 :: tail) = map units_of vs.
Proof. exact poly_vertices_in_order. Qed.

(* ... and with an odd number of coordinates the last one is dropped without a message *)
Theorem C09x_poly_odd_drops_last : forall head vs x tail,
  clean ds9_delims head -> Forall (fun v => coordword (fst v) /\ coordword (snd v)) vs -> clean ds9_delims x ->
  Forall (fun c => is_in c ws_chars = true) tail ->
  poly_sym (head ++ join (pair_text 40 vs ++ [(44, x)]) ++ 41 :: tail) = map units_of vs.
Proof. exact poly_odd_drops_last. Qed.

(* box a b w'' h'' ...: corners = centre (as SkyCoord reports it) +- w / 7200, +- h / 7200 degrees IN COORDINATES, order ++ -+ -- +-
   (A3: Angle(x, arcsec).degree = x / 3600).  No 1 / cos(dec) on the RA side and no rotation: recorded findings *)
Theorem C09x_box_corners : forall (A : astro), (forall x, angle_num A 3 x = (x / 3600)%R) ->
  forall line head a b w qw h qh rest,
  split ds9_delims line = head :: a :: b :: (w ++ [qw]) :: (h ++ [qh]) :: rest ->
  let c := skycoord A (angle_str A (if has_colon a then 1 else 0) a) (angle_str A 0 b) in
  let hw := (pyfloat A w / 7200)%R in let hh := (pyfloat A h / 7200)%R in
  box2poly A line = Some [(fst c + hw, snd c + hh); (fst c - hw, snd c + hh); (fst c - hw, snd c - hh); (fst c + hw, snd c - hh)]%R.
Proof. exact box_corners_thm. Qed.

(* opposite corners are symmetric about the centre and the sides run along RA / Dec *)
Theorem C09x_box_symmetric : forall ra dec w h p1 p2 p3 p4, box_corners ra dec w h = [p1; p2; p3; p4] ->
  (fst p1 + fst p3 = 2 * ra /\ snd p1 + snd p3 = 2 * dec /\ fst p2 + fst p4 = 2 * ra /\ snd p2 + snd p4 = 2 * dec /\
   snd p1 = snd p2 /\ fst p2 = fst p3 /\ snd p3 = snd p4 /\ fst p4 = fst p1)%R.
Proof. exact box_symmetric. Qed.

(* the rotation angle (anything after the fifth word) is never read *)
Theorem C09x_box_angle_ignored : forall A l1 l2, firstn 5 (split ds9_delims l1) = firstn 5 (split ds9_delims l2) ->
  box2poly A l1 = box2poly A l2.
Proof. exact box_angle_ignored. Qed.

(* add_circles: a scalar circle is the one-element sequence; n circles in one call = the union of the n one-circle regions *)
Theorem C09x_add_circles_scalar_list : forall hp s ra dec r d,
  add_circles_args hp s (CScalar ra dec r) d = add_circles_args hp s (CVector [ra] [dec] [r]) d.
Proof. exact add_circles_scalar_list. Qed.

Theorem C09x_add_circles_union : forall hp, H0_disc_valid hp -> forall s ras decs rs d q,
  Inv s -> depth_ok d ->
  (absP (add_circles_args hp s (CVector ras decs rs) d) q <->
   absP s q \/ exists c, In c (combine (combine ras decs) rs) /\
                         absP (add_circles_args hp (init (depth s)) (CScalar (fst (fst c)) (snd (fst c)) (snd c)) d) q).
Proof. exact add_circles_union. Qed.

(* mask2mim takes exactly the pixels (row r, column c) with a non-NaN value >= threshold ... *)
Theorem C09x_mask2mim_selection : forall img thr r c,
  In (r, c) (selected img thr) <-> 0 <= r /\ 0 <= c /\ exists x, pixel_value img r c = Some (Some x) /\ thr <= x.
Proof. exact selected_spec. Qed.

(* ... the sky position all_pix2world(c, r, 0) of each of them is inside the region (asked in degrees or radians) ...
   V1: hp.vec2pix(2^d, ang2vec(t, p), nest) = hp.ang2pix(2^d, t, p, nest) for 0 < t < pi (at the pole the vector forgets p);  V2: it is a valid pixel number;  H5: nested numbering *)
Theorem C09x_mask2mim_covers : forall hp (vec2pix : Z -> bool -> vec -> Z) (pix2world : R -> R -> Z -> R * R),
  H5_nested hp ->
  (forall d t p, (0 < t < PI)%R -> vec2pix d true (ang2vec hp t p) = ang2pix hp d true t p) ->
  (forall d v, 1 <= d -> 0 <= vec2pix d true v < 12 * 4 ^ d) ->
  forall D img thr r c, 1 <= D -> In (r, c) (selected img thr) ->
  let s := pix2world (IZR c) (IZR r) 0 in (- 90 < snd s < 90)%R ->
  sky_within1 hp (mask2mim hp vec2pix pix2world D img thr) (Some (fst s)) (Some (snd s)) true = true /\
  sky_within1 hp (mask2mim hp vec2pix pix2world D img thr) (Some (rad (fst s))) (Some (rad (snd s))) false = true.
Proof. exact mask2mim_covers. Qed.

(* ... and nothing else, up to one HEALPix cell of depth D: a position inside the region shares its depth-D pixel with the sky
   position of a selected image pixel *)
Theorem C09x_mask2mim_only : forall hp (vec2pix : Z -> bool -> vec -> Z) (pix2world : R -> R -> Z -> R * R),
  H5_nested hp ->
  (forall d t p, (0 < t < PI)%R -> vec2pix d true (ang2vec hp t p) = ang2pix hp d true t p) ->
  (forall d v, 1 <= d -> 0 <= vec2pix d true v < 12 * 4 ^ d) ->
  forall D img thr ra dec, 1 <= D -> (- (PI / 2) <= dec <= PI / 2)%R ->
  (forall r c, In (r, c) (selected img thr) -> (- 90 < snd (pix2world (IZR c) (IZR r) 0%Z) < 90)%R) ->
  sky_within1 hp (mask2mim hp vec2pix pix2world D img thr) (Some ra) (Some dec) false = true ->
  exists r c, In (r, c) (selected img thr) /\
    let s := pix2world (IZR c) (IZR r) 0 in
    ang2pix hp D true (PI / 2 - dec) ra = ang2pix hp D true (PI / 2 - rad (snd s)) (rad (fst s)).
Proof. exact mask2mim_only. Qed.

(* defaults and guards that users see *)
Theorem C09x_defaults : mask_default_threshold = 1 /\ mask_default_depth = 8 /\ poly_min_vertices = 3 /\ reg_comment_char = 35.
Proof. exact (conj (proj1 mask_defaults_eq) (conj (proj2 mask_defaults_eq) (conj poly_min_vertices_eq reg_comment_char_eq))). Qed.

(* ---- non-vacuity: concrete lines through the model (characters as codes) *)
(* circle(12:30:00,-00:30:00,36 + double quote) -> ra word as hours, dec word as degrees, 36 as arc seconds *)
Example C09x_circle_example :
  circle_sym [99;105;114;99;108;101;40; 49;50;58;51;48;58;48;48; 44; 45;48;48;58;51;48;58;48;48; 44; 51;54;34; 41; 10] =
  Some ((1, [49;50;58;51;48;58;48;48]), (0, [45;48;48;58;51;48;58;48;48]), (3, [51;54])).
Proof. vm_compute. reflexivity. Qed.

(* polygon(1,2,3,4,5,6) keeps three vertices; polygon(1,2, 3,4, 5,6) - a blank after every second comma - silently keeps only
   (1,2) and (5,6): the hypothesis "comma only" of C09x_poly_vertices_in_order is needed (recorded finding) *)
Example C09x_poly_example :
  poly_sym [112;111;108;121;103;111;110;40; 49;44;50;44;51;44;52;44;53;44;54; 41] =
    [((0, [49]), (0, [50])); ((0, [51]), (0, [52])); ((0, [53]), (0, [54]))] /\
  poly_sym [112;111;108;121;103;111;110;40; 49;44;50;44;32;51;44;52;44;32;53;44;54; 41] =
    [((0, [49]), (0, [50])); ((0, [53]), (0, [54]))].
Proof. split; vm_compute; reflexivity. Qed.

(* a 2 x 3 mask with a NaN: pixels >= 1 in row-major (row, col) order; the region of pixels 5 6 7 4 (one complete depth-2 cell)
   and 100 at depth 3 is stored in normal form *)
Example C09x_mask_example :
  selected [[Some 0; Some 1; None]; [Some 2; Some 0; Some 1]] 1 = [(0, 1); (1, 0); (1, 2)] /\
  mask_obs 3 [5; 6; 7; 4; 100] = [[]; [1]; [100]].
Proof. split; vm_compute; reflexivity. Qed.

Print Assumptions C09x_circle_units.
Print Assumptions C09x_poly_vertices_in_order.
Print Assumptions C09x_box_corners.
Print Assumptions C09x_add_circles_union.
Print Assumptions C09x_mask2mim_covers.
Print Assumptions C09x_mask2mim_only.
