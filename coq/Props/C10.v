(* C10 - Masking keeps or removes exactly the pixels/rows whose position is in the region.
   Only statements and `exact <lemma>`; lemmas in Proofs/MaskProofs.v, model in Model/Mask.v, the index
   construction / origin / negate leaves in Gen/Mask.v are regenerated from MIMAS.py on every run.

   Conventions.  An s0 x s1 array is the flat row-major list of its entries (numpy C order): array pixel
   (r, c) is entry r*C + c.  A pixel value is `option Z`: None = NaN (blank), Some z = a non-NaN value.
   External libraries are universally quantified parameters with an explicit hypothesis:
     pix2world p o  = wcs.wcs_pix2world([p], o)            (astropy)
     within s       = region.sky_within(s, degin=True)     (Region / healpy)
     W1 (x, y)      = sky position of the centre of FITS pixel (x, y) (1-based; x = column + 1, y = row + 1)
     hypothesis     : pix2world p o = W1 (p + 1 - o)        (validated against astropy on every run) *)
From Coq Require Import ZArith Bool List.
From Aegean Require Import Gen.Mask Model.Mask Proofs.MaskProofs.
Import ListNotations.
Open Scope Z_scope.

(* masking an R x C image succeeds, keeps the shape, and output pixel (r, c) is blank exactly when
   negate xor (the centre of FITS pixel (c+1, r+1) is NOT in the region) - or it was blank already;
   every other pixel keeps its value *)
Theorem C10_plane_exact :
  forall (sky : Type) (pix2world : Z * Z -> Z -> sky) (within : sky -> bool) (W1 : Z * Z -> sky),
  (forall p o, pix2world p o = W1 (fst p + 1 - o, snd p + 1 - o)) ->
  forall R C data negate, 0 <= R -> 0 <= C -> Z.of_nat (length data) = R * C ->
  exists out, mask_plane sky pix2world within R C data negate = Some out /\
    length out = length data /\
    forall r c, 0 <= r < R -> 0 <= c < C ->
      nth (Z.to_nat (r * C + c)) out None =
      if xorb negate (negb (within (W1 (c + 1, r + 1)))) then None else nth (Z.to_nat (r * C + c)) data None.
Proof. exact plane_exact. Qed.

(* the same, as an equivalence *)
Theorem C10_plane_blank_iff :
  forall (sky : Type) (pix2world : Z * Z -> Z -> sky) (within : sky -> bool) (W1 : Z * Z -> sky),
  (forall p o, pix2world p o = W1 (fst p + 1 - o, snd p + 1 - o)) ->
  forall R C data negate out r c, 0 <= R -> 0 <= C -> Z.of_nat (length data) = R * C ->
  mask_plane sky pix2world within R C data negate = Some out -> 0 <= r < R -> 0 <= c < C ->
  (nth (Z.to_nat (r * C + c)) out None = None <->
   nth (Z.to_nat (r * C + c)) data None = None \/ xorb negate (negb (within (W1 (c + 1, r + 1)))) = true) /\
  (xorb negate (negb (within (W1 (c + 1, r + 1)))) = false ->
   nth (Z.to_nat (r * C + c)) out None = nth (Z.to_nat (r * C + c)) data None).
Proof. exact plane_blank_iff. Qed.

(* on a finite pixel the two polarities are complementary: blanked without negate <-> kept with negate,
   and blanked without negate <-> outside the region *)
Theorem C10_complementary :
  forall (sky : Type) (pix2world : Z * Z -> Z -> sky) (within : sky -> bool) (W1 : Z * Z -> sky),
  (forall p o, pix2world p o = W1 (fst p + 1 - o, snd p + 1 - o)) ->
  forall R C data o1 o2 r c, 0 <= R -> 0 <= C -> Z.of_nat (length data) = R * C ->
  mask_plane sky pix2world within R C data false = Some o1 ->
  mask_plane sky pix2world within R C data true = Some o2 ->
  0 <= r < R -> 0 <= c < C -> nth (Z.to_nat (r * C + c)) data None <> None ->
  (nth (Z.to_nat (r * C + c)) o1 None = None <-> nth (Z.to_nat (r * C + c)) o2 None <> None) /\
  (nth (Z.to_nat (r * C + c)) o1 None = None <-> within (W1 (c + 1, r + 1)) = false).
Proof. exact complementary. Qed.

(* mask_file on a cube of P >= 2 planes of ANY image shape (also a single row or a single column): ONE mask (that of
   C10_plane_exact: the_mask, a function of the WCS, the region and negate only) is applied to every plane; shape kept.
   (The tree before the squeeze repair violated this for R = 1 or C = 1: Refuted/C10_squeeze.v.) *)
Theorem C10_cube_planes_equal :
  forall (sky : Type) (pix2world : Z * Z -> Z -> sky) (within : sky -> bool) (W1 : Z * Z -> sky),
  (forall p o, pix2world p o = W1 (fst p + 1 - o, snd p + 1 - o)) ->
  forall P R C data negate, 2 <= P -> 0 <= R -> 0 <= C ->
  Z.of_nat (length data) = P * (R * C) ->
  mask_file_data sky pix2world within [P; R; C] data negate =
  Some ([P; R; C], concat (map (apply_mask (the_mask sky within W1 R C negate))
                               (chunks (Z.to_nat (R * C)) (Z.to_nat P) data))).
Proof. exact cube_planes. Qed.

(* 2-D file = mask_plane with the same mask; (1, R, C) and 4-D arrays with degenerate leading axes reduce to these *)
Theorem C10_file_2d :
  forall (sky : Type) (pix2world : Z * Z -> Z -> sky) (within : sky -> bool) (W1 : Z * Z -> sky),
  (forall p o, pix2world p o = W1 (fst p + 1 - o, snd p + 1 - o)) ->
  forall R C data negate, 0 <= R -> 0 <= C -> Z.of_nat (length data) = R * C ->
  mask_file_data sky pix2world within [R; C] data negate =
  Some ([R; C], apply_mask (the_mask sky within W1 R C negate) data).
Proof. exact image_2d. Qed.

Theorem C10_file_degenerate_axes :
  forall (sky : Type) (pix2world : Z * Z -> Z -> sky) (within : sky -> bool),
  forall P R C data negate,
  (mask_file_data sky pix2world within [1; R; C] data negate = mask_file_data sky pix2world within [R; C] data negate) /\
  (P <> 1 ->
   (mask_file_data sky pix2world within [1; P; R; C] data negate = mask_file_data sky pix2world within [P; R; C] data negate) /\
   (mask_file_data sky pix2world within [P; 1; R; C] data negate = mask_file_data sky pix2world within [P; R; C] data negate) /\
   (mask_file_data sky pix2world within [1; 1; R; C] data negate = mask_file_data sky pix2world within [R; C] data negate)).
Proof.
  intros sky p2w within P R C data negate.
  split; [exact (cube_one_plane sky p2w within R C data negate)|].
  intros HP. exact (cube_4d sky p2w within P R C data negate HP).
Qed.

(* the mask applied above is pointwise the rule of C10_plane_exact *)
Theorem C10_the_mask :
  forall (sky : Type) (within : sky -> bool) (W1 : Z * Z -> sky) R C negate r c, 0 <= r < R -> 0 <= c < C ->
  nth (Z.to_nat (r * C + c)) (the_mask sky within W1 R C negate) true = xorb negate (negb (within (W1 (c + 1, r + 1)))).
Proof. exact the_mask_nth. Qed.

(* tables: rows of any type; ra/dec = None when the coordinate is NaN (not finite); within_c = the region's
   answer for a finite coordinate pair.  A row is inside iff both coordinates are defined and within_c holds.
   The result is the filter of the table (same rows, same order, rows untouched) *)
Theorem C10_table_exact :
  forall (row : Type) (ra dec : row -> option Z) (within_c : Z -> Z -> bool) rows negate,
  mask_table row ra dec within_c rows negate =
  filter (fun x => xorb negate (negb (match ra x, dec x with Some a, Some d => within_c a d | _, _ => false end))) rows.
Proof. exact table_exact. Qed.

Theorem C10_table_member :
  forall (row : Type) (ra dec : row -> option Z) (within_c : Z -> Z -> bool) rows negate x,
  In x (mask_table row ra dec within_c rows negate) <->
  In x rows /\ (match ra x, dec x with Some a, Some d => within_c a d | _, _ => false end) = negate.
Proof. exact table_member. Qed.

(* rows with an undefined coordinate are never treated as inside: kept without negate, removed with negate *)
Theorem C10_table_nan_never_inside :
  forall (row : Type) (ra dec : row -> option Z) (within_c : Z -> Z -> bool) rows x,
  In x rows -> ra x = None \/ dec x = None ->
  In x (mask_table row ra dec within_c rows false) /\ ~ In x (mask_table row ra dec within_c rows true).
Proof. exact table_nan_kept. Qed.

(* the two polarities are complementary with order and multiplicity: the table is the order-preserving
   interleaving of the rows kept without negate and the rows kept with negate *)
Theorem C10_table_complementary :
  forall (row : Type) (ra dec : row -> option Z) (within_c : Z -> Z -> bool) rows,
  merge_by row (fun x => negb (match ra x, dec x with Some a, Some d => within_c a d | _, _ => false end)) rows
    (mask_table row ra dec within_c rows false) (mask_table row ra dec within_c rows true).
Proof. exact table_partition. Qed.

(* ---------- non-vacuity.  Sky positions named by the FITS pixel: W1 = identity, pix2world = fits_p2w.
   2 x 3 image; the region contains FITS pixels (1,1) and (3,2), i.e. array pixels (0,0) and (1,2) ---------- *)
Example ex_hyp : forall p o, fits_p2w p o = (fun q : Z * Z => q) (fst p + 1 - o, snd p + 1 - o).
Proof. reflexivity. Qed.
Definition ex_reg : list (Z * Z) := [(1, 1); (3, 2)].
Definition ex_data : list (option Z) := [Some 10; Some 11; None; Some 13; Some 14; Some 15].
Example ex_plane : obs_plane ex_reg 2 3 ex_data false = Some [Some 10; None; None; None; None; Some 15].
Proof. vm_compute. reflexivity. Qed.
Example ex_plane_negate : obs_plane ex_reg 2 3 ex_data true = Some [None; Some 11; None; Some 13; Some 14; None].
Proof. vm_compute. reflexivity. Qed.
(* x is the column: the transposed region (x = 2, y = 3 is outside the image) blanks array pixel (1,2) too *)
Example ex_plane_transposed :
  obs_plane (map (fun q => (snd q, fst q)) ex_reg) 2 3 ex_data false = Some [Some 10; None; None; None; None; None].
Proof. vm_compute. reflexivity. Qed.
Example ex_index_grid : index_grid 2 3 = Some [(0, 0); (1, 0); (2, 0); (0, 1); (1, 1); (2, 1)].
Proof. vm_compute. reflexivity. Qed.
Example ex_plane_exact_applies : exists out, obs_plane ex_reg 2 3 ex_data false = Some out /\
  nth (Z.to_nat (1 * 3 + 2)) out None = Some 15 /\ nth (Z.to_nat (1 * 3 + 1)) out None = None.
Proof.
  destruct (C10_plane_exact (Z * Z) fits_p2w (in_table ex_reg) (fun q => q) ex_hyp 2 3 ex_data false)
    as (out & Ho & _ & Hn); [discriminate|discriminate|reflexivity|].
  exists out. split; [exact Ho|]. split.
  - rewrite (Hn 1 2) by (split; [discriminate|reflexivity]). reflexivity.
  - rewrite (Hn 1 1) by (split; [discriminate|reflexivity]). reflexivity.
Qed.
Example ex_cube : obs_file ex_reg [2; 2; 3] (ex_data ++ [Some 20; Some 21; Some 22; Some 23; Some 24; Some 25]) false =
  Some ([2; 2; 3], [Some 10; None; None; None; None; Some 15; Some 20; None; None; None; None; Some 25]).
Proof. vm_compute. reflexivity. Qed.
Example ex_cube_4d : obs_file ex_reg [1; 1; 2; 3] ex_data false = Some ([2; 3], [Some 10; None; None; None; None; Some 15]).
Proof. vm_compute. reflexivity. Qed.
(* two planes of a 1 x 2 image, region = the whole FITS row y = 1: nothing is blanked in either plane *)
Example ex_cube_single_row :
  mask_file_data (Z * Z) fits_p2w (fun q => snd q =? 1) [2; 1; 2] [Some 1; Some 2; Some 3; Some 4] false =
  Some ([2; 1; 2], [Some 1; Some 2; Some 3; Some 4]).
Proof. vm_compute. reflexivity. Qed.
(* rows (number, ra code, dec code); region = the coordinate pair (0, 0) *)
Definition ex_rows : list (Z * option Z * option Z) :=
  [(0, Some 0, Some 0); (1, None, Some 0); (2, Some 1, Some 0); (3, Some 0, None); (4, Some 0, Some 0)].
Example ex_table : obs_table [(0, 0)] ex_rows false = [1; 2; 3] /\ obs_table [(0, 0)] ex_rows true = [0; 4].
Proof. vm_compute. split; reflexivity. Qed.
Example ex_table_empty : obs_table [(0, 0)] [] false = [] /\ obs_table [(0, 0)] [] true = [].
Proof. vm_compute. split; reflexivity. Qed.

Print Assumptions C10_plane_exact.
Print Assumptions C10_plane_blank_iff.
Print Assumptions C10_complementary.
Print Assumptions C10_cube_planes_equal.
Print Assumptions C10_file_2d.
Print Assumptions C10_file_degenerate_axes.
Print Assumptions C10_the_mask.
Print Assumptions C10_table_exact.
Print Assumptions C10_table_member.
Print Assumptions C10_table_nan_never_inside.
Print Assumptions C10_table_complementary.
