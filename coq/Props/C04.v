(* C04 - Model derivatives and per-parameter 1-sigma errors are the true ones.
   Statements only; proofs in Proofs/GaussProofs.v.  gauss, the six derivative expressions,
   the row order and the stderr hand-out order are regenerated from fitting.py into
   Gen/Gauss.v on every run, so any edit of a formula re-opens these obligations. *)
From Coq Require Import Reals List Arith Lra.
From Coquelicot Require Import Coquelicot.
From Aegean Require Import Lib.RBase Gen.Gauss Model.FitModel Proofs.GaussProofs.
Import ListNotations.
Open Scope R_scope.

(* each analytic derivative is the true partial derivative of the Gaussian with respect to
   that parameter in the parameter's own units - theta in degrees - at every point (x,y) and
   for every parameter value with amp, sx, sy non-zero *)
Theorem C04_partials : forall (c : comp) (p : nat) x y, regular c -> (p < 6)%nat ->
  is_derive (fun t => gauss_c (set_par c p t) x y) (get_par c p) (deriv p c x y).
Proof. exact partials. Qed.

(* for a model of any number of components, varying parameter p of component i changes the
   summed model at the rate the code computes from component i alone *)
Theorem C04_multi : forall cs i c p x y, nth_error cs i = Some c -> regular c -> (p < 6)%nat ->
  is_derive (fun t => model (upd cs i (set_par c p t)) x y) (get_par c p) (deriv p c x y).
Proof. exact multi. Qed.

(* for every choice of free parameters the k-th row of the Jacobian is the derivative with
   respect to the k-th free parameter, components in order and within a component in the
   documented order amp, xo, yo, sx, sy, theta *)
Theorem C04_rows : forall cs vs x y k i p c,
  nth_error (slots jacobian_order 0 vs) k = Some (i, p) -> nth_error cs i = Some c ->
  nth_error (jac_rows cs vs x y) k = Some (deriv p c x y).
Proof. exact rows. Qed.
Theorem C04_order_documented : jacobian_order = [0; 1; 2; 3; 4; 5]%nat.
Proof. exact jacobian_order_documented. Qed.

(* the matrix handed to the optimiser (rows scaled by 1/errs and multiplied by B) is the
   derivative of the residual handed to the optimiser: scaling and whitening are linear *)
Theorem C04_whitened : forall pts (f : R -> R -> R -> R) (g : R -> R -> R) t0,
  (forall x y, is_derive (fun t => f t x y) t0 (g x y)) ->
  is_derive (fun t => lin_residual pts (f t)) t0 (lin_jacobian pts g).
Proof. exact whitened. Qed.

(* covar_errors gives the k-th free parameter (in Jacobian row order) the k-th diagonal entry
   of the inverse Fisher matrix - its own - for any number of components and any free subset *)
Theorem C04_slot_own : forall vs k ip, nth_error (slots jacobian_order 0 vs) k = Some ip ->
  nth_error (stderr_slots vs) k = Some (ip, k).
Proof. exact slot_own_nth. Qed.

(* non-vacuity: two components, the second one's amp and theta free *)
Example C04_example_slots :
  stderr_slots [[true; false; false; true; false; false]; [true; false; false; false; false; true]]
  = [((0, 0), 0); ((0, 3), 1); ((1, 0), 2); ((1, 5), 3)]%nat.
Proof. reflexivity. Qed.
Example C04_example_regular : regular (mkComp 2 10 12 3 (3/2) 30).
Proof. unfold regular; cbn; repeat split; lra. Qed.

Print Assumptions C04_partials.
Print Assumptions C04_multi.
Print Assumptions C04_rows.
Print Assumptions C04_whitened.
Print Assumptions C04_slot_own.
