(* C11 - Region-restricted finding = unrestricted finding filtered by island membership. *)
From Coq Require Import ZArith Bool List.
From Aegean Require Import Gen.Islands Lib.Graph Model.IslandModel Proofs.IslandProofs.
Import ListNotations.
Open Scope Z_scope.

(* inside x y: the sky position of FITS pixel (x, y) (1-based, x = column + 1, y = row + 1,
   the image WCS applied by the caller) lies in the region *)
Definition touches (inside : Z -> Z -> bool) (I : list pix) : bool :=
  existsb (fun p => inside (snd p + 1) (fst p + 1)) I.

(* restricted finding returns exactly the islands of the unrestricted run that have at least
   one OWN pixel whose centre is inside the region - same islands, same order, same pixels *)
Theorem C11_filter : forall img fl sd inside,
  islands_region img fl sd inside = filter (touches inside) (islands img fl sd).
Proof. exact region_filter. Qed.

Theorem C11_inside_kept : forall img fl sd inside I, In I (islands img fl sd) ->
  (exists p, In p I /\ inside (snd p + 1) (fst p + 1) = true) -> In I (islands_region img fl sd inside).
Proof. exact region_inside_kept. Qed.

Theorem C11_outside_dropped : forall img fl sd inside I, In I (islands_region img fl sd inside) ->
  In I (islands img fl sd) /\ exists p, In p I /\ inside (snd p + 1) (fst p + 1) = true.
Proof. exact region_outside_dropped. Qed.

Theorem C11_full_region_id : forall img fl sd inside, (forall x y, inside x y = true) ->
  islands_region img fl sd inside = islands img fl sd.
Proof. exact region_full_id. Qed.

(* what is handed to the fitter for a kept island (box, own pixels, mask) does not depend on the region *)
Theorem C11_same_fit_input : forall img fl sd inside,
  obs_region img fl sd inside = filter (fun o => touches inside (snd (fst o))) (obs img fl sd).
Proof. exact region_same_obs. Qed.

Print Assumptions C11_filter.
Print Assumptions C11_inside_kept.
Print Assumptions C11_outside_dropped.
Print Assumptions C11_full_region_id.
Print Assumptions C11_same_fit_input.
