(* C11 - Region-restricted finding = unrestricted finding filtered by island membership. *)
From Coq Require Import ZArith Bool List.
From Aegean Require Import Gen.Islands Lib.Graph Model.IslandModel Proofs.IslandProofs.
Import ListNotations.
Open Scope Z_scope.

(* inside x y: the sky position of FITS pixel (x, y) (1-based, x = column + 1, y = row + 1,
   the image WCS applied by the caller) lies in the region *)
Definition touches (inside : Z -> Z -> bool) (I : list pix) : bool :=
  existsb (fun p => inside (snd p + 1) (fst p + 1)) I.

(* restricted finding returns exactly the islands of the unrestricted run that have at least
   one OWN pixel whose centre is inside the region - same islands, same order, same pixels *)
Theorem C11_filter : forall img fl sd inside,
  islands_region img fl sd inside = filter (touches inside) (islands img fl sd).
Proof. exact region_filter. Qed.

Theorem C11_inside_kept : forall img fl sd inside I, In I (islands img fl sd) ->
  (exists p, In p I /\ inside (snd p + 1) (fst p + 1) = true) -> In I (islands_region img fl sd inside).
Proof. exact region_inside_kept. Qed.

Theorem C11_outside_dropped : forall img fl sd inside I, In I (islands_region img fl sd inside) ->
  In I (islands img fl sd) /\ exists p, In p I /\ inside (snd p + 1) (fst p + 1) = true.
Proof. exact region_outside_dropped. Qed.

Theorem C11_full_region_id : forall img fl sd inside, (forall x y, inside x y = true) ->
  islands_region img fl sd inside = islands img fl sd.
Proof. exact region_full_id. Qed.

(* what is handed to the fitter for a kept island (box, own pixels, mask) does not depend on the region *)
Theorem C11_same_fit_input : forall img fl sd inside,
  obs_region img fl sd inside = filter (fun o => touches inside (snd (fst o))) (obs img fl sd).
Proof. exact region_same_obs. Qed.

(* ---------- non-vacuity: the image of Props/C02.v (islands A = {(0,0),(1,1)}, C = {(3,1),(3,2)};
   group B = {(0,4),(1,4)} has no seed; (0,2) is NaN) with regions given on FITS pixels ---------- *)
Definition ex_px (i : Z) : pixel := mkPixel (Some i) (Some 0) (Some 1).
Definition ex_nan : pixel := mkPixel None (Some 0) (Some 1).
Definition ex_img : image :=
  [[ex_px 10; ex_px 0;    ex_nan;     ex_px 1; ex_px 4];
   [ex_px 0;  ex_px 3;    ex_px 0;    ex_px 0; ex_px 4];
   [ex_px 0;  ex_px 0;    ex_px 0;    ex_px 0; ex_px 0];
   [ex_px 2;  ex_px (-7); ex_px (-6); ex_px 0; ex_px 0]].
Definition ex_fl : clip := mkClip 3 1.
Definition ex_sd : clip := mkClip 5 1.
Definition ex_A : list pix := [(1, 1); (0, 0)].
Definition ex_C : list pix := [(3, 2); (3, 1)].
(* the single FITS pixel x = 3, y = 4, i.e. array position (row 3, column 2), a pixel of C *)
Definition ex_region (x y : Z) : bool := (x =? 3) && (y =? 4).
(* FITS pixel x = 5, y = 1, i.e. array position (0, 4): a flood pixel of the unseeded group B *)
Definition ex_region_B (x y : Z) : bool := (x =? 5) && (y =? 1).

Example ex_rms_pos : rms_pos ex_img.
Proof. apply rms_pos_check. vm_compute. reflexivity. Qed.
Example ex_clip_ok : clip_ok ex_fl /\ clip_ok ex_sd.
Proof. vm_compute. auto. Qed.
Example ex_islands : islands ex_img ex_fl ex_sd = [ex_A; ex_C].
Proof. vm_compute. reflexivity. Qed.
Example ex_islands_region : islands_region ex_img ex_fl ex_sd ex_region = [ex_C].
Proof. vm_compute. reflexivity. Qed.
(* x is the column and y the row: the transposed region (x = 4, y = 3 -> array (2, 3)) keeps nothing *)
Example ex_islands_region_transposed :
  islands_region ex_img ex_fl ex_sd (fun x y => ex_region y x) = [].
Proof. vm_compute. reflexivity. Qed.
(* a region that only touches a group without seed pixel keeps nothing *)
Example ex_islands_region_B : islands_region ex_img ex_fl ex_sd ex_region_B = [].
Proof. vm_compute. reflexivity. Qed.
Example ex_touches : touches ex_region ex_C = true /\ touches ex_region ex_A = false.
Proof. vm_compute. auto. Qed.
Example ex_obs_region : obs_region ex_img ex_fl ex_sd ex_region = [((3, 4, 1, 3), ex_C, [(3, 1); (3, 2)])].
Proof. vm_compute. reflexivity. Qed.
Example ex_kept_premises : In ex_C (islands ex_img ex_fl ex_sd) /\
  exists p, In p ex_C /\ ex_region (snd p + 1) (fst p + 1) = true.
Proof.
  rewrite ex_islands. split; [right; left; reflexivity|]. exists (3, 2). split; [left|]; reflexivity.
Qed.
Example ex_kept : In ex_C (islands_region ex_img ex_fl ex_sd ex_region).
Proof. apply C11_inside_kept; apply ex_kept_premises. Qed.

Print Assumptions C11_filter.
Print Assumptions C11_inside_kept.
Print Assumptions C11_outside_dropped.
Print Assumptions C11_full_region_id.
Print Assumptions C11_same_fit_input.
