(* C02 - Islands are exactly the seeded, flood-thresholded 8-connected pixel groups.
   Statements only; proofs in Proofs/IslandProofs.v; leaves regenerated into Gen/Islands.v. *)
From Coq Require Import ZArith Bool List Relations.
From Aegean Require Import Gen.Islands Lib.Graph Model.IslandModel Proofs.IslandProofs.
Import ListNotations.
Open Scope Z_scope.

(* two flood-passing pixels are linked when a chain of 8-neighbour steps through
   flood-passing pixels joins them *)
Definition linked (img : image) (fl : clip) : pix -> pix -> Prop :=
  connected pix adj (nodes img fl).

(* a pixel passes the flood test iff it is inside the image, finite, and |im-bkg|/rms >= flood *)
Theorem C02_flood_rule : forall img fl p, rms_pos img -> clip_ok fl ->
  (flood_ok img fl p = true <->
   exists px i b r, get img p = Some px /\ p_im px = Some i /\ p_bkg px = Some b /\ p_rms px = Some r /\
                    c_num fl * r <= Z.abs (i - b) * c_den fl).
Proof. exact flood_rule. Qed.

Theorem C02_seed_rule : forall img sd p, rms_pos img -> clip_ok sd ->
  (seed_ok img sd p = true <->
   exists px i b r, get img p = Some px /\ p_im px = Some i /\ p_bkg px = Some b /\ p_rms px = Some r /\
                    c_num sd * r < Z.abs (i - b) * c_den sd).
Proof. exact seed_rule. Qed.

(* soundness: every reported island is a whole linkage class of flood-passing pixels and
   contains one of ITS OWN pixels above the seed threshold *)
Theorem C02_islands_sound : forall img fl sd I, In I (islands img fl sd) ->
  I <> [] /\ NoDup I /\
  (forall p, In p I -> flood_ok img fl p = true) /\
  (forall p q, In p I -> (In q I <-> linked img fl p q)) /\
  (exists s, In s I /\ seed_ok img sd s = true).
Proof. exact islands_sound. Qed.

(* completeness: every flood-passing pixel linked to a seed pixel is in a reported island *)
Theorem C02_islands_complete : forall img fl sd p s,
  flood_ok img fl p = true -> linked img fl p s -> seed_ok img sd s = true -> flood_ok img fl s = true ->
  exists I, In I (islands img fl sd) /\ In p I /\ In s I.
Proof. exact islands_complete. Qed.

(* islands are pairwise disjoint *)
Theorem C02_disjoint : forall img fl sd i j I J,
  nth_error (islands img fl sd) i = Some I -> nth_error (islands img fl sd) j = Some J -> i <> j ->
  forall p, In p I -> ~ In p J.
Proof. exact islands_disjoint. Qed.

(* the box is the tight box of the island's own pixels *)
Theorem C02_bbox_tight : forall (I : list pix) r0 r1 c0 c1, I <> [] -> bbox I = (r0, r1, c0, c1) ->
  (forall p, In p I -> r0 <= fst p < r1 /\ c0 <= snd p < c1) /\
  (exists p, In p I /\ fst p = r0) /\ (exists p, In p I /\ fst p = r1 - 1) /\
  (exists p, In p I /\ snd p = c0) /\ (exists p, In p I /\ snd p = c1 - 1).
Proof. exact bbox_tight. Qed.

(* inside the box the mask leaves exactly the island's own pixels unblanked *)
Theorem C02_mask_exact : forall img fl sd I p, rms_pos img -> clip_ok fl -> In I (islands img fl sd) ->
  (In p (unmasked img fl I) <-> In p I).
Proof. exact mask_exact. Qed.

(* blank (NaN) pixels never belong to an island *)
Theorem C02_no_blank : forall img fl sd I p, In I (islands img fl sd) -> In p I ->
  exists px i b r, get img p = Some px /\ p_im px = Some i /\ p_bkg px = Some b /\ p_rms px = Some r.
Proof. exact no_blank. Qed.

(* raising the seed threshold can only remove islands *)
Theorem C02_seed_monotone : forall img fl sd sd' I, rms_pos img -> clip_ok sd -> clip_ok sd' -> clip_le sd sd' ->
  In I (islands img fl sd') -> In I (islands img fl sd).
Proof. exact seed_monotone. Qed.

(* negating image and background gives the same islands (used by C13) *)
Theorem C02_sign_symmetric : forall img fl sd, islands (neg_image img) fl sd = islands img fl sd.
Proof. exact sign_symmetric. Qed.

Print Assumptions C02_islands_sound.
Print Assumptions C02_islands_complete.
Print Assumptions C02_disjoint.
Print Assumptions C02_bbox_tight.
Print Assumptions C02_mask_exact.
Print Assumptions C02_no_blank.
Print Assumptions C02_seed_monotone.
Print Assumptions C02_sign_symmetric.
