(* C02 - Islands are exactly the seeded, flood-thresholded 8-connected pixel groups.
   Statements only; proofs in Proofs/IslandProofs.v; leaves regenerated into Gen/Islands.v. *)
From Coq Require Import ZArith Bool List Relations.
From Aegean Require Import Gen.Islands Gen.IslandBox Lib.Graph Model.IslandModel Model.IslandBox Proofs.IslandProofs
  Proofs.IslandBoxProofs.
Import ListNotations.
Open Scope Z_scope.

(* two flood-passing pixels are linked when a chain of 8-neighbour steps through
   flood-passing pixels joins them *)
Definition linked (img : image) (fl : clip) : pix -> pix -> Prop :=
  connected pix adj (nodes img fl).

(* a pixel passes the flood test iff it is inside the image, finite, and |im-bkg|/rms >= flood *)
Theorem C02_flood_rule : forall img fl p, rms_pos img -> clip_ok fl ->
  (flood_ok img fl p = true <->
   exists px i b r, get img p = Some px /\ p_im px = Some i /\ p_bkg px = Some b /\ p_rms px = Some r /\
                    c_num fl * r <= Z.abs (i - b) * c_den fl).
Proof. exact flood_rule. Qed.

Theorem C02_seed_rule : forall img sd p, rms_pos img -> clip_ok sd ->
  (seed_ok img sd p = true <->
   exists px i b r, get img p = Some px /\ p_im px = Some i /\ p_bkg px = Some b /\ p_rms px = Some r /\
                    c_num sd * r < Z.abs (i - b) * c_den sd).
Proof. exact seed_rule. Qed.

(* soundness: every reported island is a whole linkage class of flood-passing pixels and
   contains one of ITS OWN pixels above the seed threshold *)
Theorem C02_islands_sound : forall img fl sd I, In I (islands img fl sd) ->
  I <> [] /\ NoDup I /\
  (forall p, In p I -> flood_ok img fl p = true) /\
  (forall p q, In p I -> (In q I <-> linked img fl p q)) /\
  (exists s, In s I /\ seed_ok img sd s = true).
Proof. exact islands_sound. Qed.

(* completeness: every flood-passing pixel linked to a seed pixel is in a reported island *)
Theorem C02_islands_complete : forall img fl sd p s,
  flood_ok img fl p = true -> linked img fl p s -> seed_ok img sd s = true -> flood_ok img fl s = true ->
  exists I, In I (islands img fl sd) /\ In p I /\ In s I.
Proof. exact islands_complete. Qed.

(* islands are pairwise disjoint *)
Theorem C02_disjoint : forall img fl sd i j I J,
  nth_error (islands img fl sd) i = Some I -> nth_error (islands img fl sd) j = Some J -> i <> j ->
  forall p, In p I -> ~ In p J.
Proof. exact islands_disjoint. Qed.

(* the box is the tight box of the island's own pixels *)
Theorem C02_bbox_tight : forall (I : list pix) r0 r1 c0 c1, I <> [] -> bbox I = (r0, r1, c0, c1) ->
  (forall p, In p I -> r0 <= fst p < r1 /\ c0 <= snd p < c1) /\
  (exists p, In p I /\ fst p = r0) /\ (exists p, In p I /\ fst p = r1 - 1) /\
  (exists p, In p I /\ snd p = c0) /\ (exists p, In p I /\ snd p = c1 - 1).
Proof. exact bbox_tight. Qed.

(* the box an island REPORTS is computed by PixelIsland.calc_bounding_box (body regenerated into Gen/IslandBox.v) from the
   island's own pixels inside the find_objects cut-out and the cut-out's start; it is that same tight box, for every
   island of every image - and for any cut-out start whatever, because the offsets cancel *)
Theorem C02_reported_box_is_tight : forall (I : list pix) r0 r1 c0 c1, I <> [] -> reported_box I = (r0, r1, c0, c1) ->
  (forall p, In p I -> r0 <= fst p < r1 /\ c0 <= snd p < c1) /\
  (exists p, In p I /\ fst p = r0) /\ (exists p, In p I /\ fst p = r1 - 1) /\
  (exists p, In p I /\ snd p = c0) /\ (exists p, In p I /\ snd p = c1 - 1).
Proof. exact reported_box_tight. Qed.
Theorem C02_calc_bounding_box_any_cutout : forall (I : list pix) r0 c0, I <> [] ->
  calc_bounding_box (rel_pixels I r0 c0) r0 c0 = bbox I.
Proof. exact calc_box_any_cutout. Qed.
Theorem C02_every_island_reports_its_box : forall img fl sd I, In I (islands img fl sd) -> reported_box I = bbox I.
Proof. exact island_reports_tight_box. Qed.

(* inside the box the mask leaves exactly the island's own pixels unblanked *)
Theorem C02_mask_exact : forall img fl sd I p, rms_pos img -> clip_ok fl -> In I (islands img fl sd) ->
  (In p (unmasked img fl I) <-> In p I).
Proof. exact mask_exact. Qed.

(* blank (NaN) pixels never belong to an island *)
Theorem C02_no_blank : forall img fl sd I p, In I (islands img fl sd) -> In p I ->
  exists px i b r, get img p = Some px /\ p_im px = Some i /\ p_bkg px = Some b /\ p_rms px = Some r.
Proof. exact no_blank. Qed.

(* raising the seed threshold can only remove islands *)
Theorem C02_seed_monotone : forall img fl sd sd' I, rms_pos img -> clip_ok sd -> clip_ok sd' -> clip_le sd sd' ->
  In I (islands img fl sd') -> In I (islands img fl sd).
Proof. exact seed_monotone. Qed.

(* negating image and background gives the same islands (used by C13) *)
Theorem C02_sign_symmetric : forall img fl sd, islands (neg_image img) fl sd = islands img fl sd.
Proof. exact sign_symmetric. Qed.

(* ---------- non-vacuity: a concrete image on which every premise above is satisfiable ----------
   4 x 5, bkg = 0, rms = 1, flood 3, seed 5:
     island A = {(0,0)=10, (1,1)=3}   touching only diagonally, seed pixel (0,0)
     group  B = {(0,4)=4, (1,4)=4}    passes the flood test but has no seed pixel: dropped
     island C = {(3,1)=-7, (3,2)=-6}  negative
     (0,2) is NaN: it is an 8-neighbour of (1,1) but belongs to no island *)
Definition ex_px (i : Z) : pixel := mkPixel (Some i) (Some 0) (Some 1).
Definition ex_nan : pixel := mkPixel None (Some 0) (Some 1).
Definition ex_img : image :=
  [[ex_px 10; ex_px 0;    ex_nan;     ex_px 1; ex_px 4];
   [ex_px 0;  ex_px 3;    ex_px 0;    ex_px 0; ex_px 4];
   [ex_px 0;  ex_px 0;    ex_px 0;    ex_px 0; ex_px 0];
   [ex_px 2;  ex_px (-7); ex_px (-6); ex_px 0; ex_px 0]].
Definition ex_fl : clip := mkClip 3 1.
Definition ex_sd : clip := mkClip 5 1.
Definition ex_A : list pix := [(1, 1); (0, 0)].
Definition ex_B : list pix := [(1, 4); (0, 4)].
Definition ex_C : list pix := [(3, 2); (3, 1)].

Example ex_rms_pos : rms_pos ex_img.
Proof. apply rms_pos_check. vm_compute. reflexivity. Qed.
Example ex_clip_ok : clip_ok ex_fl /\ clip_ok ex_sd /\ clip_ok (mkClip 13 2) /\ clip_le ex_sd (mkClip 13 2).
Proof. vm_compute. repeat split; discriminate. Qed.

Example ex_groups : components pix pix_eqb adj (nodes ex_img ex_fl) = [ex_A; ex_B; ex_C].
Proof. vm_compute. reflexivity. Qed.
Example ex_islands : islands ex_img ex_fl ex_sd = [ex_A; ex_C].
Proof. vm_compute. reflexivity. Qed.
Example ex_islands_higher_seed : islands ex_img ex_fl (mkClip 13 2) = [ex_A; ex_C].
Proof. vm_compute. reflexivity. Qed.
Example ex_obs : obs ex_img ex_fl ex_sd =
  [((0, 2, 0, 2), ex_A, [(0, 0); (1, 1)]); ((3, 4, 1, 3), ex_C, [(3, 1); (3, 2)])].
Proof. vm_compute. reflexivity. Qed.
Example ex_reported_boxes : map reported_box (islands ex_img ex_fl ex_sd) = [(0, 2, 0, 2); (3, 4, 1, 3)].
Proof. vm_compute. reflexivity. Qed.
(* a non-square island in a cut-out that starts elsewhere: rows 5..6, columns 2..5 *)
Example ex_calc_box : calc_bounding_box (rel_pixels [(5, 2); (6, 5); (5, 3)] 4 1) 4 1 = (5, 7, 2, 6).
Proof. vm_compute. reflexivity. Qed.
Example ex_nan_pixel : get ex_img (0, 2) = Some ex_nan /\ flood_ok ex_img ex_fl (0, 2) = false /\
                       adj (0, 2) (1, 1) = true.
Proof. vm_compute. auto. Qed.
Example ex_B_fails_seed : existsb (flood_ok ex_img ex_fl) ex_B = true /\
                          existsb (seed_ok ex_img ex_sd) ex_B = false.
Proof. vm_compute. auto. Qed.

Example ex_A_in : In ex_A (islands ex_img ex_fl ex_sd).
Proof. rewrite ex_islands. left. reflexivity. Qed.

(* the theorems applied: the diagonal touch links (0,0) and (1,1); B's pixels are linked to no seed *)
Example ex_diagonal_linked : linked ex_img ex_fl (0, 0) (1, 1).
Proof.
  destruct (C02_islands_sound ex_img ex_fl ex_sd ex_A ex_A_in) as (_ & _ & _ & Hl & _).
  apply (Hl (0, 0) (1, 1)); vm_compute; auto.
Qed.
Example ex_complete_premises :
  flood_ok ex_img ex_fl (1, 1) = true /\ linked ex_img ex_fl (1, 1) (0, 0) /\
  seed_ok ex_img ex_sd (0, 0) = true /\ flood_ok ex_img ex_fl (0, 0) = true.
Proof.
  split; [reflexivity|split; [|split; reflexivity]].
  destruct (C02_islands_sound ex_img ex_fl ex_sd ex_A ex_A_in) as (_ & _ & _ & Hl & _).
  apply (Hl (1, 1) (0, 0)); vm_compute; auto.
Qed.
Example ex_B_in_no_island : forall I, In I (islands ex_img ex_fl ex_sd) -> ~ In (0, 4) I /\ ~ In (1, 4) I.
Proof.
  rewrite ex_islands. intros I [<-|[<-|[]]]; split; intros H; cbn [In ex_A ex_C] in H;
    repeat (destruct H as [H|H]; [discriminate H|]); exact H.
Qed.
Example ex_disjoint_premises :
  nth_error (islands ex_img ex_fl ex_sd) 0 = Some ex_A /\ nth_error (islands ex_img ex_fl ex_sd) 1 = Some ex_C.
Proof. rewrite ex_islands. split; reflexivity. Qed.
Example ex_monotone_premise : In ex_A (islands ex_img ex_fl (mkClip 13 2)).
Proof. rewrite ex_islands_higher_seed. left. reflexivity. Qed.
Example ex_sign : islands (neg_image ex_img) ex_fl ex_sd = [ex_A; ex_C].
Proof. vm_compute. reflexivity. Qed.

Print Assumptions C02_flood_rule.
Print Assumptions C02_seed_rule.
Print Assumptions C02_islands_sound.
Print Assumptions C02_islands_complete.
Print Assumptions C02_disjoint.
Print Assumptions C02_bbox_tight.
Print Assumptions C02_reported_box_is_tight.
Print Assumptions C02_calc_bounding_box_any_cutout.
Print Assumptions C02_every_island_reports_its_box.
Print Assumptions C02_mask_exact.
Print Assumptions C02_no_blank.
Print Assumptions C02_seed_monotone.
Print Assumptions C02_sign_symmetric.
