(* C17 - Spherical geometry and sexagesimal primitives are exact and well formed.
   Statements only.  gcd / bear / translate (Gen/Sphere.v) and the divmod chains, scale constants and
   parse arithmetic of dec2dms / dec2hms / dec2dec / ra2dec (Gen/Sexagesimal.v) are regenerated from
   AegeanTools/angle_tools.py on every run.  Lemmas: Lib/Sphere.v, Proofs/SphereProofs.v,
   Proofs/SexagesimalProofs.v.

   NOT a theorem (decided by execution in tools/harness/c17.py, strictly over 0..180 deg): "agrees with an
   independent vector formula to 1e-9 deg" in binary64 - a statement about round-off.  Over R the agreement
   is exact (C17_gcd_vector, C17_gcd_cross_form); gcd is the atan2 form atan2 |u x v| (u.v), which is well
   conditioned at both ends (the earlier haversine form lost 1e-6 deg next to the antipode; over R it is the
   same function: C17_gcd_haversine_form). *)
From Coq Require Import Reals ZArith Lra String PrimFloat.
From Aegean Require Import Lib.RBase Gen.Sphere Lib.Sphere Proofs.SphereProofs.
From Aegean Require Import Gen.Sexagesimal Model.Sexagesimal Proofs.SexagesimalProofs Proofs.SexagesimalFloat.
Open Scope R_scope.

(* ---------------- geometry over R ---------------- *)
(* metric: symmetry *)
Theorem C17_gcd_sym : forall ra1 dec1 ra2 dec2, gcd ra1 dec1 ra2 dec2 = gcd ra2 dec2 ra1 dec1.
Proof. exact gcd_sym. Qed.
(* metric: range *)
Theorem C17_gcd_range : forall ra1 dec1 ra2 dec2, 0 <= gcd ra1 dec1 ra2 dec2 <= 180.
Proof. exact gcd_range. Qed.
(* metric: zero exactly for identical points of the sphere (same unit vector: equal dec and RA equal
   modulo 360, or both at the same pole) *)
Theorem C17_gcd_zero_iff : forall ra1 dec1 ra2 dec2,
  gcd ra1 dec1 ra2 dec2 = 0 <-> uvec ra1 dec1 = uvec ra2 dec2.
Proof. exact gcd_zero_iff. Qed.
(* agreement with the vector formula: the great-circle distance IS the angle between the unit vectors *)
Theorem C17_gcd_vector : forall ra1 dec1 ra2 dec2,
  cos (rad (gcd ra1 dec1 ra2 dec2)) = dot (uvec ra1 dec1) (uvec ra2 dec2) /\
  gcd ra1 dec1 ra2 dec2 = deg (acos (dot (uvec ra1 dec1) (uvec ra2 dec2))).
Proof. exact c17_gcd_vector. Qed.
(* the generated text itself, in vector terms: atan2 of the length of the cross product and the dot product (the
   formula the harness evaluates in 80-bit arithmetic as the independent reference) *)
Theorem C17_gcd_cross_form : forall ra1 dec1 ra2 dec2,
  gcd ra1 dec1 ra2 dec2 =
  deg (atan2 (norm (cross (uvec ra1 dec1) (uvec ra2 dec2))) (dot (uvec ra1 dec1) (uvec ra2 dec2))).
Proof. exact gcd_cross. Qed.
(* the haversine formula gives the same real number (a lemma about the vector form since the repair of gcd) *)
Theorem C17_gcd_haversine_form : forall ra1 dec1 ra2 dec2,
  gcd ra1 dec1 ra2 dec2 = deg (2 * asin (Rmin 1 (R_sqrt.sqrt (hav ra1 dec1 ra2 dec2)))) /\
  hav ra1 dec1 ra2 dec2 = (1 - dot (uvec ra1 dec1) (uvec ra2 dec2)) / 2.
Proof. exact c17_gcd_haversine. Qed.
(* metric: triangle inequality - full statement on the generated gcd (the bridge from the
   vector-angle form closes, so no _partial) *)
Theorem C17_triangle : forall ra1 dec1 ra2 dec2 ra3 dec3,
  gcd ra1 dec1 ra3 dec3 <= gcd ra1 dec1 ra2 dec2 + gcd ra2 dec2 ra3 dec3.
Proof. exact gcd_triangle. Qed.
(* bearing = standard position-angle formula = angle from local north through local east *)
Theorem C17_bear_pa : forall ra1 dec1 ra2 dec2,
  bear ra1 dec1 ra2 dec2 =
    deg (atan2 (sin (rad (ra2 - ra1)) * cos (rad dec2))
               (cos (rad dec1) * sin (rad dec2) - sin (rad dec1) * cos (rad dec2) * cos (rad (ra2 - ra1)))) /\
  bear ra1 dec1 ra2 dec2 =
    deg (atan2 (dot (uvec ra2 dec2) (east ra1 dec1)) (dot (uvec ra2 dec2) (north ra1 dec1))) /\
  -180 < bear ra1 dec1 ra2 dec2 <= 180.
Proof. exact c17_bear_pa. Qed.
(* translate: distance r and initial bearing theta (bear reports (-180,180], so theta in (180,360)
   comes back as theta - 360), for 0 < r < 180 with start and destination away from the poles.
   r = 0 is C17_translate_zero. *)
Theorem C17_translate : forall ra dec r theta,
  0 < r < 180 -> -90 < dec < 90 ->
  let q := translate ra dec r theta in
  -90 < snd q < 90 ->
  gcd ra dec (fst q) (snd q) = r /\
  (-180 < theta <= 180 -> bear ra dec (fst q) (snd q) = theta) /\
  (180 < theta < 360 -> bear ra dec (fst q) (snd q) = theta - 360).
Proof. exact c17_translate. Qed.
Theorem C17_translate_zero : forall ra dec theta, -90 <= dec <= 90 -> translate ra dec 0 theta = (ra, dec).
Proof. exact translate_zero. Qed.

(* ---------------- strings over Z / R ---------------- *)
(* every printed field is in range, for EVERY value cs of the single rounding int(round(x*K)) - hence
   for every input: minutes < 60, seconds field ss.cc < 60.00, hours < 24; degrees <= 90 (<= 360) as
   soon as the rounded value is, and 90 (360) degrees only as 90:00:00.00 *)
Theorem C17_fields_in_range : forall cs : Z,
  (let '(d, m, s, c) := dms_split cs in
   (0 <= m < 60 /\ 0 <= s < 60 /\ 0 <= c < 100 /\ cs = 360000 * d + 6000 * m + 100 * s + c)%Z) /\
  (0 <= cs -> let '(d, m, s, c) := dms_split cs in
   (0 <= d /\ (cs <= 90 * 360000 -> d <= 90 /\ (d = 90 -> m = 0 /\ s = 0 /\ c = 0)) /\
    (cs <= 360 * 360000 -> d <= 360 /\ (d = 360 -> m = 0 /\ s = 0 /\ c = 0)))%Z)%Z /\
  (let '(h, m, s, c) := hms_split cs in
   (0 <= h < 24 /\ 0 <= m < 60 /\ 0 <= s < 60 /\ 0 <= c < 100 /\
    cs mod 8640000 = 360000 * h + 6000 * m + 100 * s + c)%Z).
Proof. exact c17_fields_in_range. Qed.

(* format then parse (dec2dms;dec2dec and dec2hms;ra2dec on the printed fields): the error is exactly that of the
   single rounding.  With cs within 1/2 + e of |x| * 360000 the round trip is within 0.005 arcsec + e/100 arcsec; for
   RA within 0.005 s of time (+ e/100 s), modulo 360 deg (k = 0 or 1 full turns for x in [0, 360]).
   e = 0 in exact arithmetic.  For the binary64 code cs = int(round(x * K)): e <= |x| * K * 2^-53 (one correctly
   rounded product, then nearest-even integer) - this fact about IEEE-754 multiplication is NOT proved here; it is
   the hypothesis of the theorem, and the harness validates it exactly (rational arithmetic) on the bit-exact
   PrimFloat model Model/Sexagesimal.v and on the implementation for every string case of every run. *)
Theorem C17_roundtrip_half_unit :
  (forall (x e : R) (cs : Z),
     Rabs (IZR cs - Rabs x * IZR dms_scale) <= 1 / 2 + e ->
     Rabs (parse_dms (if Rlt_dec x 0 then true else false) (dms_split cs) - x) <= (5 / 1000 + e / 100) / 3600) /\
  (forall (x' e : R) (cs : Z),
     Rabs (IZR cs - x' * IZR hms_scale) <= 1 / 2 + e ->
     exists k : Z, Rabs (parse_hms (hms_split cs) + 360 * IZR k - x') <= (5 / 1000 + e / 100) / 3600 * 15
                   /\ (0 <= x' <= 360 -> e < 1 / 2 -> (k = 0 \/ k = 1)%Z)).
Proof. exact c17_roundtrip_half_unit. Qed.

(* the same for EVERY finite binary64 input of the bit-exact model (FR x = real value of the float x; |x| <= 2^1000
   so that x * 360000 cannot overflow; u64 = 2^-53, eta64 = 2^-1075): the string printed by dec2dms is the sign
   and the fields of cs, parsing them gives x back to 0.005 arcsec plus the round-off of the ONE product, and the
   degrees field is <= 90 (<= 360) whenever |x| is.  Uses the IEEE-754 specification of Coq's primitive floats
   (FloatAxioms) and Flocq. *)
Theorem C17_roundtrip_binary64_dms : forall (x : PrimFloat.float) (cs : Z),
  is_finite x = true -> Rabs (FR x) <= Raux.bpow Zaux.radix2 1000 -> dms_hundredths x = Some cs ->
  Rabs (parse_dms (PrimFloat.ltb x PrimFloat.zero) (dms_split cs) - FR x)
    <= (5 / 1000 + (Rabs (FR x) * 360000 * u64 + eta64) / 100) / 3600 /\
  (let '(d, m, s, c) := dms_split cs in
   (0 <= d)%Z /\
   (Rabs (FR x) <= 90 -> (d <= 90)%Z /\ (d = 90%Z -> m = 0%Z /\ s = 0%Z /\ c = 0%Z)) /\
   (Rabs (FR x) <= 360 -> (d <= 360)%Z /\ (d = 360%Z -> m = 0%Z /\ s = 0%Z /\ c = 0%Z))).
Proof. exact c17_dms_binary64. Qed.
Theorem C17_dec2dms_string : forall (x : PrimFloat.float) (cs : Z),
  is_finite x = true -> dms_hundredths x = Some cs ->
  dec2dms x = ((if PrimFloat.ltb x PrimFloat.zero then "-" else "+") ++ fields_string (dms_split cs))%string.
Proof. exact dec2dms_shape. Qed.
(* dec2hms: x' is the wrapped value (x + 360 in binary64 if x < 0, else x - see hms_wrapped_nonneg) *)
Theorem C17_roundtrip_binary64_hms : forall (x : PrimFloat.float) (cs : Z),
  is_finite (hms_wrapped x) = true -> Rabs (FR (hms_wrapped x)) <= Raux.bpow Zaux.radix2 1000 ->
  hms_hundredths x = Some cs ->
  let x' := FR (hms_wrapped x) in
  exists k : Z,
    Rabs (parse_hms (hms_split cs) + 360 * IZR k - x') <= (5 / 1000 + (Rabs (x' * 24000) * u64 + eta64) / 100) / 3600 * 15 /\
    (0 <= x' <= 360 -> (k = 0 \/ k = 1)%Z).
Proof. exact c17_hms_binary64. Qed.
Theorem C17_dec2hms_string : forall (x : PrimFloat.float) (cs : Z),
  is_finite x = true -> hms_hundredths x = Some cs -> dec2hms x = fields_string (hms_split cs).
Proof. exact dec2hms_shape. Qed.
Theorem C17_round_off_constants : u64 = / 9007199254740992 /\ 0 < eta64 <= u64.
Proof. exact (conj u64_val eta64_le_u64). Qed.

(* ---------------- non-vacuity ---------------- *)
Example C17_example_carry_dms : dec2dms (0x1.fffffca581b5p-1)%float = "+01:00:00.00"%string.   (* 0.9999999 *)
Proof. vm_compute. reflexivity. Qed.
Example C17_example_carry_hms : dec2hms (0x1.67ffffffd50c3p+8)%float = "00:00:00.00"%string.   (* 359.99999999 *)
Proof. vm_compute. reflexivity. Qed.
Example C17_example_neg_small : dec2dms (-0x1p-1)%float = "-00:30:00.00"%string.
Proof. vm_compute. reflexivity. Qed.
Example C17_example_split : dms_split 21599999%Z = (59, 59, 59, 99)%Z /\ hms_split 8640000%Z = (0, 0, 0, 0)%Z.
Proof. split; reflexivity. Qed.
Example C17_example_translate_hyp : 0 < 1 < 180 /\ -90 < 10 < 90.
Proof. lra. Qed.
Example C17_example_pole : gcd 0 90 123 90 = 0.
Proof.
  apply gcd_zero_iff. unfold uvec.
  replace (rad 90) with (PI / 2) by (unfold rad; field). rewrite cos_PI2. f_equal. f_equal; ring.
Qed.

Print Assumptions C17_gcd_sym.
Print Assumptions C17_gcd_cross_form.
Print Assumptions C17_gcd_haversine_form.
Print Assumptions C17_triangle.
Print Assumptions C17_translate.
Print Assumptions C17_fields_in_range.
Print Assumptions C17_roundtrip_half_unit.
Print Assumptions C17_roundtrip_binary64_dms.
