(* C15 - Compress then expand restores shape, WCS and grid-node values.
   Only statements and `exact <lemma>`; the lemmas live in Proofs/FitsToolsProofs.v (and Lib/Interp.v),
   the model in Model/FitsTools.v, and the arithmetic / keyword leaves in Gen/FitsTools.v are
   regenerated from fits_tools.compress / expand / is_compressed on every run.

   scipy's RegularGridInterpolator is not axiomatised: every theorem quantifies over an arbitrary
   interpolator `rgi`; those that speak about interpolated values assume the library contract
   `rgi_spec rgi` (in a cell of strictly increasing axes the value is the bilinear combination of
   the cell's four corner values).  C15_contract_consistent shows that the contract is satisfiable
   (by the executable instance that the correspondence run compares with scipy), and the harness
   validates the contract against the real library on every run. *)
From Coq Require Import ZArith QArith Bool List String.
From Aegean Require Import Lib.Keywords Lib.Interp Gen.FitsTools Model.FitsTools Proofs.FitsToolsProofs.
Import ListNotations.
Open Scope string_scope.
Open Scope Z_scope.

(* for every shape >= 2 x 2 and every factor >= 1 (no upper bound: also factor > size) both steps
   succeed on a well-formed image (NAXISn agree with the array; CRPIXn and CDELTn or CDn_n present) *)
Theorem C15_succeeds : forall (rgi : interpolator) im f, wf im -> 1 <= f ->
  exists c e, compress im f = Some c /\ expand rgi c = Some e.
Proof. exact roundtrip_ok. Qed.

(* ... because the node axes given to the interpolator have >= 2 nodes, are strictly increasing,
   start at 0 and reach the last pixel, for every size >= 1 and factor >= 1 *)
Theorem C15_node_axes : forall r c f lcx lcy, 1 <= r -> 1 <= c -> 1 <= f -> 0 <= lcx < f -> 0 <= lcy < f ->
  let nr := comp_out_rows (comp_nx r c f) (comp_ny r c f) in
  let nc := comp_out_cols (comp_nx r c f) (comp_ny r c f) in
  (2 <= nr /\ (forall k, 0 <= k -> k + 1 < nr -> exp_row_node k lcx lcy f < exp_row_node (k + 1) lcx lcy f) /\
   exp_row_node 0 lcx lcy f <= 0 /\ r - 1 <= exp_row_node (nr - 1) lcx lcy f) /\
  (2 <= nc /\ (forall k, 0 <= k -> k + 1 < nc -> exp_col_node k lcx lcy f < exp_col_node (k + 1) lcx lcy f) /\
   exp_col_node 0 lcx lcy f <= 0 /\ c - 1 <= exp_col_node (nc - 1) lcx lcy f).
Proof. exact node_axes. Qed.

Theorem C15_shape_restored : forall (rgi : interpolator) im c e f,
  wf im -> compress im f = Some c -> expand rgi c = Some e ->
  rows e = rows im /\ cols e = cols im /\
  kget "NAXIS1" (ikw e) = Some (cols im) /\ kget "NAXIS2" (ikw e) = Some (rows im).
Proof. exact rt_shape. Qed.

(* every rational card (CRPIX1/2, CDELT1/2 or CD1_1/CD2_2, and all the untouched ones) is restored *)
Theorem C15_wcs_restored : forall (rgi : interpolator) im c e f,
  wf im -> compress im f = Some c -> expand rgi c = Some e ->
  forall k, option_Qeq (kget k (rkw e)) (kget k (rkw im)).
Proof. exact rt_wcs. Qed.

(* the BN_ cards are gone (the result is no longer "compressed"), every other integer card is as before *)
Theorem C15_keywords_removed : forall (rgi : interpolator) im c e f,
  wf im -> compress im f = Some c -> expand rgi c = Some e ->
  is_compressed (ikw e) = false /\ (forall k, In k compressed_keys -> kget k (ikw e) = None) /\
  (forall k, ~ In k compressed_keys -> kget k (ikw e) = kget k (ikw im)).
Proof. exact rt_keywords_removed. Qed.

(* the original value at every decimation-grid node (i f, j f) inside the image *)
Theorem C15_nodes_exact : forall (rgi : interpolator), rgi_spec rgi -> forall im c e f,
  wf im -> compress im f = Some c -> expand rgi c = Some e ->
  forall i j, 0 <= i -> 0 <= j -> i * f < rows im -> j * f < cols im ->
  (pix e (i * f) (j * f) == pix im (i * f) (j * f))%Q.
Proof. exact rt_nodes_exact. Qed.

(* every expanded pixel lies within the range of the compressed samples *)
Theorem C15_in_range : forall (rgi : interpolator), rgi_spec rgi -> forall im c e f,
  wf im -> compress im f = Some c -> expand rgi c = Some e ->
  forall lo hi,
  (forall i j, 0 <= i < rows c -> 0 <= j < cols c -> (lo <= pix c i j)%Q /\ (pix c i j <= hi)%Q) ->
  forall x y, 0 <= x < rows e -> 0 <= y < cols e -> (lo <= pix e x y)%Q /\ (pix e x y <= hi)%Q.
Proof. exact rt_in_range. Qed.

(* ... and hence within the range of the image (the compressed samples are image pixels) *)
Theorem C15_in_image_range : forall (rgi : interpolator), rgi_spec rgi -> forall im c e f,
  wf im -> compress im f = Some c -> expand rgi c = Some e ->
  forall lo hi,
  (forall a b, 0 <= a < rows im -> 0 <= b < cols im -> (lo <= pix im a b)%Q /\ (pix im a b <= hi)%Q) ->
  forall x y, 0 <= x < rows e -> 0 <= y < cols e -> (lo <= pix e x y)%Q /\ (pix e x y <= hi)%Q.
Proof. exact rt_in_image_range. Qed.

(* complete cells (all four corners are grid nodes inside the image): the expanded image is the
   bilinear interpolant of the ORIGINAL corner values - so an image that is bilinear between nodes
   (a BANE map) is reproduced exactly there ... *)
Theorem C15_bilinear_complete_cells : forall (rgi : interpolator), rgi_spec rgi -> forall im c e f,
  wf im -> compress im f = Some c -> expand rgi c = Some e ->
  forall i j, 0 <= i -> 0 <= j -> (i + 1) * f < rows im -> (j + 1) * f < cols im ->
  forall x y, i * f <= x <= (i + 1) * f -> j * f <= y <= (j + 1) * f ->
  (pix e x y == cell_value (fun k => inject_Z (k * f)) (fun k => inject_Z (k * f))
                           (fun p q => pix im (p * f) (q * f)) i j (inject_Z x) (inject_Z y))%Q.
Proof. exact rt_bilinear_complete_cell. Qed.

(* ... and so is an image that is affine on the cell.  Nothing is claimed for the last, partial cell
   (the copied last row / column is placed at nx * f, not at rows - 1) - as in the property text. *)
Theorem C15_affine_complete_cells : forall (rgi : interpolator), rgi_spec rgi -> forall im c e f,
  wf im -> compress im f = Some c -> expand rgi c = Some e ->
  forall i j (a b d : Q), 0 <= i -> 0 <= j -> (i + 1) * f < rows im -> (j + 1) * f < cols im ->
  (forall x y, i * f <= x <= (i + 1) * f -> j * f <= y <= (j + 1) * f ->
               (pix im x y == a + b * inject_Z x + d * inject_Z y)%Q) ->
  forall x y, i * f <= x <= (i + 1) * f -> j * f <= y <= (j + 1) * f -> (pix e x y == pix im x y)%Q.
Proof. exact rt_affine_complete_cell. Qed.

(* the library contract is satisfiable: the executable interpolator of the model satisfies it *)
Theorem C15_contract_consistent : rgi_spec bilinear.
Proof. exact bilinear_spec. Qed.

(* non-vacuity: a 5 x 7 image (value 64 r + c), factor 3 (residuals 2 and 1) and factor 9 > size *)
Definition ex_image : image :=
  mk_image 1 [[0;1;2;3;4;5;6]; [64;65;66;67;68;69;70]; [128;129;130;131;132;133;134];
              [192;193;194;195;196;197;198]; [256;257;258;259;260;261;262]]
           [("NAXIS", 2); ("NAXIS1", 7); ("NAXIS2", 5)]
           [("CRPIX1", 4 # 1); ("CRPIX2", 3 # 1); ("CD1_1", (-1) # 360); ("CD2_2", 1 # 360)]%Q.

Example C15_example_wf : wf ex_image.
Proof.
  unfold wf, rkw_ok.
  split; [vm_compute; discriminate|]. split; [vm_compute; discriminate|].
  split; [vm_compute; reflexivity|]. split; [vm_compute; reflexivity|].
  split; [exists "CD1_1"; split; [vm_compute; tauto|vm_compute; reflexivity]|].
  split; [exists "CD2_2"; split; [vm_compute; tauto|vm_compute; reflexivity]|].
  split; vm_compute; reflexivity.
Qed.

Example C15_example_f3 :
  option_map (fun e => (rows e, cols e, qpair (pix e 3 6), qpair (pix e 4 0), ikw e))
             (roundtrip_exec ex_image 3)
  = Some (5, 7, (198, 1), (640, 3), [("NAXIS", 2); ("NAXIS1", 7); ("NAXIS2", 5)]).
Proof. vm_compute. reflexivity. Qed.

Example C15_example_factor_gt_size :
  option_map (fun e => (rows e, cols e, qpair (pix e 0 0), qpair (pix e 2 3)))
             (roundtrip_exec ex_image 9) = Some (5, 7, (0, 1), (530, 9)).
Proof. vm_compute. reflexivity. Qed.

Print Assumptions C15_succeeds.
Print Assumptions C15_node_axes.
Print Assumptions C15_shape_restored.
Print Assumptions C15_wcs_restored.
Print Assumptions C15_keywords_removed.
Print Assumptions C15_nodes_exact.
Print Assumptions C15_in_range.
Print Assumptions C15_in_image_range.
Print Assumptions C15_bilinear_complete_cells.
Print Assumptions C15_affine_complete_cells.
Print Assumptions C15_contract_consistent.
