(* C03 - every output catalogue is internally consistent and reproducible.

   Proved here (Aegean's own logic, on the executable model Model/CatalogRows.v whose leaves are regenerated
   from /repo on every run): numbering (blind and priorized, any number of island groups), contiguity of the
   component numbers, a >= b and -90 < pa <= 90 after fix_shape + pa_limit with explicit termination,
   0 <= ra < 360 after the wrap, flags confined to the seven documented bits, the decision table of
   fitting.errors (repaired: full input domain), the int_flux formula, the sexagesimal field arithmetic, and the meaning of the executable
   row / catalogue predicates that every real catalogue is pushed through.

   NOT proved (validated on the real finder by tools/harness/c03.py on every run): blind and priorized
   fitting complete on every valid image, the optimiser leaves finite positive values, the 1 % int_flux
   agreement where the pixel->sky map is not a similarity, strings vs decimals for binary64 inputs,
   island rows vs detected pixels, and run-to-run identity.  The full property text is therefore covered
   as: theorems below + row_ok / cat_ok / islands_ok (vm_compute) on every row of every catalogue. *)
From Coq Require Import ZArith NArith QArith Reals Bool List.
From Aegean Require Import Lib.FVal Gen.CatRows Gen.CatRowsFlux Model.CatalogRows Model.CatalogFluxModel
  Proofs.CatRowsProofs Proofs.CatRowsFluxProofs.
Import ListNotations.
Open Scope Z_scope.

(* ---- identities ---- *)
(* blind: islands that are fitted are numbered 1, 2, 3, ... in order *)
Theorem C03_blind_ids_consecutive : forall nonempty, blind_ids nonempty = zseq 1 (count_true nonempty).
Proof. exact blind_ids_spec. Qed.
Theorem C03_blind_ids_unique : forall isl, NoDup (blind_rows isl).
Proof. exact blind_rows_unique. Qed.
(* priorized: (batch g, position k) |-> istart g + k is injective for k < group_size, at the generated
   istart and group_size.  (The pre-fix leaf istart = g collides: Refuted/C03_istart.v) *)
Theorem C03_priorized_ids_unique : forall g g' k k', 0 <= k < group_size -> 0 <= k' < group_size ->
  istart g group_size + k = istart g' group_size + k' -> g = g' /\ k = k'.
Proof. exact priorized_injective. Qed.
(* the whole batching loop: n island groups get the numbers 0 .. n-1, for every n *)
Theorem C03_priorized_ids_consecutive : forall (groups : list (option Z)), priorized_ids groups = zseq 0 (length groups).
Proof. exact (@priorized_ids_spec (option Z)). Qed.
Theorem C03_priorized_rows_unique : forall groups, NoDup (priorized_rows groups).
Proof. exact priorized_rows_unique. Qed.

(* ---- components numbered 0..n-1 ---- *)
(* skipped summits leave no holes, and `components` is the number of accepted summits *)
Theorem C03_components_contiguous : forall accepted,
  snd (summit_ids accepted) = Z.of_nat (count_true accepted) /\
  fst (summit_ids accepted) = component_numbers (snd (summit_ids accepted)).
Proof. exact components_contiguous. Qed.
Theorem C03_refit_components_contiguous : forall usable,
  snd (refit_ids usable) = Z.of_nat (count_true usable) /\
  fst (refit_ids usable) = component_numbers (snd (refit_ids usable)).
Proof. exact refit_components_contiguous. Qed.
Theorem C03_blind_rows_contiguous : forall isl i j,
  In (i, j) (blind_rows isl) -> 0 <= j /\ (0 < j -> In (i, j - 1) (blind_rows isl)).
Proof. exact blind_rows_contiguous. Qed.
Theorem C03_priorized_rows_contiguous : forall groups i j,
  In (i, j) (priorized_rows groups) -> 0 <= j /\ (0 < j -> In (i, j - 1) (priorized_rows groups)).
Proof. exact priorized_rows_contiguous. Qed.
(* unique + contiguous is the same as: an island with n rows carries exactly the numbers 0 .. n-1 *)
Theorem C03_numbered_from_zero : forall ps i, NoDup ps -> contiguous ps ->
  forall j, In (i, j) ps <-> 0 <= j < count_island ps i.
Proof. exact numbered_from_zero. Qed.

(* ---- shape ---- *)
(* for every finite a, b, pa: after fix_shape a' >= b' (and b' > 0 when both were), and pa_limit terminates
   within pa_fuel iterations per loop with the representative of pa modulo 180 in (-90, 90] *)
Theorem C03_shape_range : forall a b pa ea eb,
  exists a' b' pa' ea' eb',
    fix_shape (mkShape (Fin a) (Fin b) (Fin pa) ea eb) = mkShape (Fin a') (Fin b') (Fin pa') ea' eb' /\
    (b' <= a')%Q /\ ((0 < a)%Q -> (0 < b)%Q -> (0 < b')%Q) /\
    forall n, (pa_fuel pa' <= n)%nat ->
      exists r, normalise n (mkShape (Fin a) (Fin b) (Fin pa) ea eb) = Some (mkShape (Fin a') (Fin b') (Fin r) ea' eb') /\
                (-(90) < r)%Q /\ (r <= 90)%Q /\ (r == pa_closed pa')%Q.
Proof. exact shape_range. Qed.
(* termination is not unconditional: with no fuel an out-of-range angle is not reduced, and for +-inf the
   loop condition never becomes false (NaN falls through both loops) *)
Theorem C03_pa_limit_needs_fuel : forall q, (q <= -(90))%Q \/ (90 < q)%Q -> pa_limit_fuel 0 (Fin q) = None.
Proof. exact pa_limit_no_fuel. Qed.
Theorem C03_pa_limit_nonfinite : forall n,
  pa_limit_fuel n PInf = None /\ pa_limit_fuel n NInf = None /\ pa_limit_fuel n NaN = Some NaN.
Proof. exact pa_limit_inf. Qed.
Theorem C03_ra_range : forall q, (-(360) <= q)%Q -> (q < 360)%Q ->
  exists r, ra_wrap (Fin q) = Fin r /\ (0 <= r)%Q /\ (r < 360)%Q /\ (r == q \/ r == q + 360)%Q.
Proof. exact ra_wrap_range. Qed.

(* ---- flags ---- *)
Theorem C03_flags_seven_bits : forall (input : N -> Prop), (forall x, input x -> (x < 128)%N) ->
  forall f, reach input f ->
    flags_ok f = true /\ N.land f flag_mask = f /\ forall k, (7 <= k)%N -> N.testbit f k = false.
Proof. exact flags_seven_bits. Qed.
Theorem C03_flag_constants : length flag_constants = 7%nat /\ NoDup flag_constants /\
  Forall (fun c => exists k, (k < 7)%N /\ c = N.shiftl 1 k) flag_constants.
Proof. exact flag_constants_seven. Qed.
Theorem C03_blind_flags_reachable : forall npix mindim ncomp, reach (fun _ => False) (blind_flags npix mindim ncomp).
Proof. exact blind_flags_reach. Qed.

(* ---- uncertainties ---- *)
(* the decision table of fitting.errors with its masking steps (stderr None read as nan; err_peak_flux, err_ra,
   err_dec, err_pa, err_a, err_b masked unless positive and finite before the relative errors are combined;
   err_int_flux masked unless positive and finite), FULL input domain: each stderr positive, zero, negative, nan,
   +-inf or None; each propagated sky value any float (a huge pixel stderr gives nan); peak, a, b floats other
   than 0; int_flux any float.  The call returns and every err_* is positive-finite or exactly -1.
   (Refuted/C03_errors.v keeps the pre-repair table, for which this fails.) *)
Theorem C03_errors_masked : forall i pv,
  is_nonzero_float (ei_peak i) = true -> is_nonzero_float (ei_a i) = true -> is_nonzero_float (ei_b i) = true ->
  is_float (ei_int i) = true ->
  is_float (pp_ra pv) = true -> is_float (pp_dec pv) = true -> is_float (pp_pa pv) = true ->
  is_float (pp_a pv) = true -> is_float (pp_b pv) = true ->
  exists o, errors_model2 i pv = Some o /\ err_out_ok o = true.
Proof. exact errors2_masked_current. Qed.
Theorem C03_errors_masked_not_fitted : forall i pv,
  has (ei_flags i) (N.lor NOTFIT FITERR) = true \/ ei_ref_finite i = false ->
  exists w, errors_model2 i pv = Some (all_masked w).
Proof. exact errors2_masked_when_not_fitted. Qed.
(* a singular covariance matrix leaves nan (not -2) in the stderr of every varying parameter *)
Theorem C03_singular_covariance_is_nan : singular_fallback_is_nan = true.
Proof. exact singular_fallback_char. Qed.
(* priorized fitting: an uncertainty that the chosen stage does not fit is copied from the input catalogue; whatever the
   catalogue holds there (nan when it has no err_* columns, 0, negative, inf) the row gets a positive finite value or -1,
   and a known value (positive, or -1) is passed on as it is.  (Refuted/C03_error_copies.v: the plain copy) *)
Theorem C03_copied_errors_masked : forall c, err_cls_ok (copied_error c) = true.
Proof. exact copied_error_ok. Qed.
Theorem C03_copied_errors_kept : forall c, err_cls_ok c = true -> c <> PyNone -> copied_error c = c.
Proof. exact copied_error_keeps_known. Qed.

(* ---- int_flux ---- *)
(* what the code computes: peak * (sx CC2FHWM) * (sy CC2FHWM) / (beam_a beam_b) in pixels = peak 8 ln2 sx sy / (..);
   equal to peak a b / (psf_a psf_b) wherever the pixel -> sky map is a similarity (the 1 % of the property
   covers the deviation from that, validated on every row) *)
Theorem C03_intflux_pixels : forall peak sx sy pa pb, pa <> 0%R -> pb <> 0%R ->
  int_flux peak sx sy pa pb = (peak * ellipse_axis sx * ellipse_axis sy / (pa * pb))%R.
Proof. exact int_flux_pixels. Qed.
Theorem C03_intflux_partial : forall s peak sx sy pa pb, s <> 0%R -> pa <> 0%R -> pb <> 0%R ->
  int_flux peak sx sy pa pb =
  (peak * sky_arcsec s (ellipse_axis sx) * sky_arcsec s (ellipse_axis sy) / (sky_arcsec s pa * sky_arcsec s pb))%R.
Proof. exact int_flux_sky. Qed.

(* ---- strings ---- *)
Theorem C03_strings_dms : forall cs, 0 <= cs ->
  let '(d, m, s, c) := dms_fields cs in
  fields_value (d, m, s, c) = cs /\ 0 <= d /\ 0 <= m < 60 /\ 0 <= s < 60 /\ 0 <= c < 100.
Proof. exact dms_fields_spec. Qed.
Theorem C03_strings_hms : forall cs, 0 <= cs ->
  let '(h, m, s, c) := hms_fields cs in
  fields_value (h, m, s, c) = cs mod (24 * 360000) /\ 0 <= h < 24 /\ 0 <= m < 60 /\ 0 <= s < 60 /\ 0 <= c < 100.
Proof. exact hms_fields_spec. Qed.

(* ---- the executable predicates used on the real catalogues ---- *)
Theorem C03_row_ok_iff : forall r, row_ok r = true <-> row_spec r.
Proof. exact row_ok_iff. Qed.
Theorem C03_cat_ok_iff : forall c, cat_ok c = true <-> cat_spec c.
Proof. exact cat_ok_iff. Qed.
Theorem C03_irow_ok_iff : forall ps ir d, irow_ok ps ir d = true <-> irow_spec ps ir d.
Proof. exact irow_ok_iff. Qed.

(* ---------- non-vacuity ---------- *)
(* 45 island groups (three batches of 20, 20, 5) with one skipped group: 44 distinct island numbers *)
Example ex_priorized_45 :
  map fst (priorized_islands_with istart group_size (Some 2 :: None :: repeat (Some 1) 43)) = 0 :: zseq 2 43.
Proof. vm_compute. reflexivity. Qed.
Example ex_blind : blind_rows [(true, [true; false; true]); (false, []); (true, [false]); (true, [true])]
  = [(1, 0); (1, 1); (3, 0)].
Proof. vm_compute. reflexivity. Qed.
Example ex_shape : normalise 3 (mkShape (FZ 30) (FZ 45) (FZ 100) (FZ 1) (FZ 2)) =
  Some (mkShape (FZ 45) (FZ 30) (Fin (100 + 90 - 180)) (FZ 2) (FZ 1)).
Proof. vm_compute. reflexivity. Qed.
Example ex_pa_boundary : pa_limit_fuel 2 (FZ (-90)) = Some (Fin (-90 + 180)) /\ pa_limit_fuel 2 (FZ 90) = Some (FZ 90).
Proof. vm_compute. auto. Qed.
Example ex_tiny_flags : blind_flags 1 1 1 = 21%N /\ blind_flags 3 2 1 = 5%N /\ blind_flags 5 3 1 = 4%N /\ blind_flags 40 6 2 = 0%N.
Proof. vm_compute. auto. Qed.
Example ex_errors_stage1 :
  errors_model2 (mkErrIn 64 true false false false false false Pos PyNone PyNone PyNone PyNone PyNone Pos Pos Pos Pos)
                (mkErrProp Pos Pos Pos Pos Pos)
  = Some (mkErrOut Pos MinusOne MinusOne MinusOne MinusOne MinusOne Pos false).
Proof. vm_compute. reflexivity. Qed.
(* the two defects found on real images, on the repaired table: stderr = nan after a singular covariance; a huge
   pixel stderr whose offset position has no sky coordinate *)
Example ex_errors_singular :
  errors_model2 (mkErrIn 64 true true true true true true CNan CNan CNan CNan CNan CNan Pos Pos Pos Pos)
                (mkErrProp Pos Pos Pos Pos Pos) = Some (all_masked false).
Proof. vm_compute. reflexivity. Qed.
Example ex_errors_huge_stderr :
  errors_model2 (mkErrIn 5 true true true false false false Pos Pos Pos PyNone PyNone PyNone Pos Pos Pos Pos)
                (mkErrProp CNan CNan Pos Pos Pos)
  = Some (mkErrOut Pos MinusOne MinusOne MinusOne MinusOne MinusOne Pos false).
Proof. vm_compute. reflexivity. Qed.
Example ex_errors_negative_amp_stderr :
  errors_model2 (mkErrIn 0 true true true true true true NegOther Zero Zero PyNone Pos CPInf NegOther Pos CNan Zero)
                (mkErrProp Zero Zero Pos Pos Pos) = Some (all_masked false).
Proof. vm_compute. reflexivity. Qed.
Example ex_row : row_ok (mkRow 1 0 7 0 (Fin (1499980755 # 10000000)) (Fin (-299991667 # 10000000))
    (Fin (706446 # 10000)) (Fin (470964 # 10000)) (Fin (-299990 # 10000)) (FZ 1) (Fin (36968 # 10000))
    (FZ 30) (FZ 30) [Fin (1 # 100000); Fin (1 # 100000); Fin (1 # 100); Fin (1 # 100); Fin (1 # 10); Fin (-1 # 1); Fin (2 # 1)]
    (Some (mkSexa false 9 59 59 54)) (Some (mkSexa true 29 59 57 0))) = true.
Proof. vm_compute. reflexivity. Qed.
Example ex_row_bad_pa : row_failures (mkRow 1 0 7 128 (FZ 360) (FZ 0) (FZ 2) (FZ 3) (FZ (-90)) (FZ 1) (FZ 1)
    (FZ 1) (FZ 1) [Fin 0; NaN] None None) = [1; 2; 3; 5; 6; 7; 8; 9].
Proof. vm_compute. reflexivity. Qed.
Example ex_cat_dup : cat_ok [] = true /\ nodupb pair_eqb [(1, 0); (2, 0); (1, 0)] = false /\
  contiguousb [(1, 0); (1, 2)] = false /\ contiguousb [(1, 1); (1, 0); (4, 0)] = true.
Proof. vm_compute. auto. Qed.

Print Assumptions C03_blind_ids_unique.
Print Assumptions C03_priorized_ids_unique.
Print Assumptions C03_priorized_rows_unique.
Print Assumptions C03_components_contiguous.
Print Assumptions C03_numbered_from_zero.
Print Assumptions C03_shape_range.
Print Assumptions C03_flags_seven_bits.
Print Assumptions C03_errors_masked.
Print Assumptions C03_copied_errors_masked.
Print Assumptions C03_intflux_partial.
Print Assumptions C03_row_ok_iff.
Print Assumptions C03_cat_ok_iff.
