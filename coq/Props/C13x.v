(* C13 (extension) - the global-data glue of the source finder (SourceFinder.load_globals, _make_bkg_rms, _load_aux_image and the
   first lines of find_sources_in_image / priorized_fit_islands / save_background_files).
   Only statements and `exact <lemma>`; the lemmas live in Proofs/GlobalsProofs.v.  The order of the statements of load_globals, its
   conditions, which map each block writes and which file / forced value it reads, the subtraction, the curvature constants, the
   mask block, the short cuts and the BANE call of _make_bkg_rms, the shape test of _load_aux_image and the transparent expansion of
   load_image_band are regenerated from source_finder.py / fits_tools.py into Gen/Globals.v on every run.

   globals bane inp = (state of the SourceFinder object after load_globals on a fresh object, true = returned normally).
   bane = BANE.filter_image on the selected image plane, a Section variable: the theorems that need something from it carry the
   hypothesis explicitly (shape; negation = C06_scale with k = -1), and bane_fake (the stand-in the harness patches in) satisfies them. *)
From Coq Require Import ZArith Bool List String.
From Aegean Require Import Gen.Globals Model.Globals Proofs.GlobalsProofs.
Import ListNotations.
Open Scope Z_scope.

(* the data that find_islands and the fitting see is the raw image minus the background map that is finally kept - subtracted
   exactly once, for every combination of rms= / bkg= / rmsin / bkgin / cube_index / mask / do_curve *)
Theorem C13x_background_subtracted_once : forall bane inp s, globals bane inp = (s, true) ->
  exists raw bkg, select inp = Some raw /\ s_bkg s = Some bkg /\ s_img s = Some (img_sub raw bkg).
Proof. exact background_subtracted_once. Qed.

(* decision table: each map comes from its file if one is given, else from the forced value, else from BANE *)
Theorem C13x_map_sources : forall bane inp s, globals bane inp = (s, true) ->
  exists raw, select inp = Some raw /\
    s_bkg s = Some (match i_bkgin inp with Some f => loaded f | None =>
                      match i_bkg inp with Some v => const_like v raw | None => fst (bane raw) end end) /\
    s_rms s = Some (match i_rmsin inp with Some f => loaded f | None =>
                      match i_rms inp with Some v => const_like v raw | None => snd (bane raw) end end) /\
    s_region s = region_of (i_mask inp).
Proof. exact map_sources. Qed.

(* BANE is not consulted when both files are given or both values are forced *)
Theorem C13x_bane_not_consulted : forall bane bane' s0 inp,
  (is_some (i_rmsin inp) && is_some (i_bkgin inp) || is_some (i_rms inp) && is_some (i_bkg inp)) = true ->
  load_globals bane s0 inp = load_globals bane' s0 inp.
Proof. exact bane_not_consulted. Qed.

Theorem C13x_forced_rms_constant : forall bane inp s v, globals bane inp = (s, true) -> i_rmsin inp = None -> i_rms inp = Some v ->
  exists raw, select inp = Some raw /\ s_rms s = Some (const_like v raw).
Proof. exact forced_rms_constant. Qed.

(* first half of C13 at the glue level: negating the image, the background file and the forced background negates the data and the
   background that the finder uses and leaves the noise map alone (hypothesis on BANE: C06_scale with k = -1).  With
   C13_islands_symmetric the islands are then identical. *)
Theorem C13x_negation : forall bane, (forall a, bane (img_neg a) = (img_neg (fst (bane a)), snd (bane a))) ->
  forall inp s, i_do_curve inp = false -> globals bane inp = (s, true) ->
  globals bane (neg_inputs inp) = (neg_state s, true).
Proof. exact negation. Qed.

(* an accepted auxiliary image has the shape of the image, compressed or not; compressed files are expanded first *)
Theorem C13x_aux_shape : forall img f a, load_aux img f = Some a ->
  a = (if af_compressed f then af_expanded f else af_stored f) /\ shape a = shape img.
Proof. exact aux_shape. Qed.
Theorem C13x_aux_accepts : forall img f, shape (loaded f) = shape img -> load_aux img f = Some (loaded f).
Proof. exact load_aux_accepts. Qed.
Theorem C13x_shapes : forall bane, (forall a, shape (fst (bane a)) = shape a /\ shape (snd (bane a)) = shape a) ->
  forall inp s, globals bane inp = (s, true) ->
  exists raw bkg rms, select inp = Some raw /\ s_bkg s = Some bkg /\ s_rms s = Some rms /\ shape bkg = shape raw /\ shape rms = shape raw.
Proof. exact shapes. Qed.

(* the curvature map is computed from the raw image, before the background is subtracted *)
Theorem C13x_curvature_from_raw : forall bane inp s, globals bane inp = (s, true) ->
  exists raw, select inp = Some raw /\ s_curve s = if i_do_curve inp then Some (curvature raw) else None.
Proof. exact curvature_from_raw. Qed.

(* the early return: a SourceFinder object that holds data ignores every later request - another file name, other maps, other
   forced values.  (Full statement one would want for "reproducible": a second call with other inputs describes the other inputs;
   that is FALSE for the code, so only this part is stated.) *)
Theorem C13x_reload_is_noop_partial : forall bane s0 inp, s_img s0 <> None -> load_globals bane s0 inp = (s0, true).
Proof. exact reload_is_noop. Qed.
(* and a call that raised inside _load_aux_image leaves the RAW image behind: the next call returns at once with data from which
   no background was subtracted *)
Theorem C13x_failed_load_sticks : forall bane inp s inp', globals bane inp = (s, false) -> select inp <> None ->
  load_globals bane s inp' = (s, true) /\ s_img s = select inp.
Proof. exact failed_load_sticks. Qed.

(* cube_index not given (the default of load_globals / find_sources_in_image / priorized_fit_islands): the first plane is used, as in
   BANE.filter_image - the call behaves exactly like cube_index = 0 (same data, maps, exceptions) and stores cube_index = 0, which is
   what BANE and the later calls then see.  Stated at the GENERATED constant lg_cube_default_first_plane (through load_globals): on a
   tree without `if cube_index is None: cube_index = 0` directly after the early return the leaf lemma lg_cube_default_eq fails
   (regression record: Refuted/C13x_cube_default.v) *)
Theorem C13x_cube_default_first_plane : forall bane s0 inp, i_ci inp = None ->
  load_globals bane s0 inp = load_globals bane s0 (set_ci inp (Some 0%nat)) /\
  (forall s, s_img s0 = None -> load_globals bane s0 inp = (s, true) -> s_ci s = Some 0%nat).
Proof. exact cube_default_first_plane. Qed.

(* statement order of load_globals and the constants of the callers *)
Theorem C13x_statement_order : lg_early_return = true /\ lg_stages = [1; 7; 2; 3; 4; 5; 6; 8; 9; 10; 11; 12; 2].
Proof. exact (conj lg_early_return_eq lg_stages_eq). Qed.
Theorem C13x_callers : fs_do_curve = false /\ prio_do_curve = false /\ save_do_curve = true.
Proof. exact do_curve_eq. Qed.
Theorem C13x_find_islands_gets_subtracted_data : fs_islands_on_subtracted_img = true /\ fs_islands_bkg_zero = true.
Proof. exact fs_islands_eq. Qed.
Theorem C13x_bane_box : forall s0 s1, mk_box_size s0 s1 = (5 * s0, 5 * s1).
Proof. exact mk_box_size_eq. Qed.
Theorem C13x_mask : forall m, region_of m = match m with MNone => None | MObj r => Some r | MFile true r => Some r
                                                        | MFile false _ => None end.
Proof. exact region_of_eq. Qed.
Theorem C13x_aux_whole_image : forall n, lib_row_min n 0 1 = 0 /\ lib_row_max n 0 1 = n.
Proof. exact row_bounds_default. Qed.
(* what save_background_files writes is what get_aux_files looks for *)
Theorem C13x_saved_files_autoload : save_suffix_bkg = aux_suffix_bkg /\ save_suffix_rms = aux_suffix_rms /\
  aux_suffix_bkg = "_bkg.fits"%string /\ aux_suffix_rms = "_rms.fits"%string /\ aux_suffix_mask = ".mim"%string.
Proof. exact suffixes_eq. Qed.

(* the stand-in for BANE satisfies the hypotheses of C13x_negation and C13x_shapes: they are not vacuous *)
Theorem C13x_hypotheses_consistent : (forall a, bane_fake (img_neg a) = (img_neg (fst (bane_fake a)), snd (bane_fake a))) /\
  (forall a, shape (fst (bane_fake a)) = shape a /\ shape (snd (bane_fake a)) = shape a).
Proof. exact (conj bane_fake_neg bane_fake_shape). Qed.

(* ---- non-vacuity *)
Definition ex_img : image := [[Some 8; Some 16; Some 0]; [Some (-8); None; Some 24]].
Definition ex_bkg : image := [[Some 8; Some 8; Some 8]; [Some 0; Some 0; Some 8]].
Definition ex_in (bkgin : option auxfile) (rms bkg : option Z) : inputs :=
  mkIn false [ex_img] None rms bkg None bkgin false MNone.
Example ex_file : fst (globals bane_fake (ex_in (Some (mkAux false ex_bkg [])) (Some 8) None)) =
  mkState (Some [[Some 0; Some 8; Some (-8)]; [Some (-8); None; Some 16]]) (Some ex_bkg)
          (Some [[Some 8; Some 8; Some 8]; [Some 8; Some 8; Some 8]]) None None (Some 0%nat).
Proof. vm_compute. reflexivity. Qed.
Example ex_bane : obs_state (globals bane_fake (ex_in None None None)) =
  (true, (Some [[Some 8; Some 0; Some (-8)]; [Some (-32); None; Some 32]],
          Some [[Some 0; Some 16; Some 8]; [Some 24; None; Some (-8)]],
          Some [[Some 32; Some 32; Some 32]; [Some 32; Some 32; Some 32]]), (None, None, Some 0%nat)).
Proof. vm_compute. reflexivity. Qed.
(* a background file of the wrong shape raises and leaves the raw image in the object; the repeated call with a good file then
   returns without subtracting anything *)
Example ex_sticks : map (fun r => (snd r, s_img (fst r)))
    (calls bane_fake fresh [ex_in (Some (mkAux false [[Some 1]] [])) (Some 8) None; ex_in (Some (mkAux false ex_bkg [])) (Some 8) None])
  = [(false, Some ex_img); (true, Some ex_img)].
Proof. vm_compute. reflexivity. Qed.

(* a cube read without cube_index: plane 0, and the object remembers index 0 *)
Example ex_cube : obs_state (globals bane_fake (mkIn true [ex_img; ex_bkg] None (Some 8) (Some 0) None None false MNone)) =
  (true, (Some ex_img, Some (const_like 0 ex_img), Some (const_like 8 ex_img)), (None, None, Some 0%nat)).
Proof. vm_compute. reflexivity. Qed.

Print Assumptions C13x_background_subtracted_once.
Print Assumptions C13x_map_sources.
Print Assumptions C13x_negation.
Print Assumptions C13x_shapes.
Print Assumptions C13x_failed_load_sticks.
Print Assumptions C13x_hypotheses_consistent.
Print Assumptions C13x_cube_default_first_plane.
