(* C06 - BANE background/noise maps obey the estimator contract.
   Statements only; the model is Model/BaneFilter.v (generic over the scalar type: run at Q against the real code, proved at
   R), the statistics are Lib/Stats.v, the proofs are in Proofs/StatsProofs.v and Proofs/BaneFilterProofs.v.  All index
   arithmetic and the comparison structure of sigmaclip are regenerated from BANE.py (Gen/BaneFilter.v, Gen/BaneSync.v).

   bane_bkg g img / bane_rms g img : the two maps for the configuration g (image size, grid steps, box sizes, rows per
   stripe, masking) with the sigma clipping of the real code over the reals (mean; standard deviation = sqrt of the
   population variance).  A pixel is `option R`, None = not finite.  real_geom g says that g subtracts the background
   from the rows the generated flag says (the_geom .. builds such a g); wf g is the quantifier of the property: steps >= 1,
   boxes >= 4, at least one row per stripe.  Every theorem below is first proved for ARBITRARY box statistics satisfying
   shift / scale / range hypotheses (Section Abstract of the proofs) and then instantiated.

   Known restriction, found by this work (see Refuted/C06_thin.v and the harness): for an image with a single row or a
   single column every box slice is empty, both maps are NaN everywhere; hence 2 <= rows, cols in C06_constant,
   C06_mask_far_finite and C06_no_blank_in_no_blank_out. *)
From Coq Require Import ZArith QArith Reals List Bool.
From Aegean Require Import Gen.BaneSync Gen.BaneFilter Lib.Stats Model.BaneFilter Proofs.StatsProofs Proofs.BaneFilterProofs.
Import ListNotations.
Open Scope R_scope.

(* the maps have the shape of the image (for every statistic) *)
Theorem C06_shape : forall g (t : list (list (option Q))) est_b est_r,
  let o := run QC est_b est_r g (of_table t) in
  (length (fst o) = Z.to_nat (nr g) /\ Forall (fun row => length row = Z.to_nat (nc g)) (fst o))
  /\ (length (snd o) = Z.to_nat (nr g) /\ Forall (fun row => length row = Z.to_nat (nc g)) (snd o)).
Proof. exact bane_shape. Qed.

(* a constant image gives background = the constant and noise = 0 at every pixel *)
Theorem C06_constant : forall g img k y c, real_geom g -> wf g -> (2 <= nr g)%Z -> (2 <= nc g)%Z -> in_image g y c ->
  (forall y' c', in_image g y' c' -> img y' c' = Some k) ->
  bane_bkg g img y c = Some k /\ bane_rms g img y c = Some 0.
Proof. exact bane_constant. Qed.

(* adding k to the image adds k to the background and leaves the noise unchanged: every pixel, every configuration
   (any number of stripes), blank pixels allowed *)
Theorem C06_shift : forall g img k y c, real_geom g ->
  bane_bkg g (shift_img img k) y c = omap RC (fun x => x + k) (bane_bkg g img y c)
  /\ bane_rms g (shift_img img k) y c = bane_rms g img y c.
Proof. exact bane_shift. Qed.

(* multiplying by any real k (also 0 and negative) scales the background by k and the noise by |k| *)
Theorem C06_scale : forall g img k y c,
  bane_bkg g (scale_img img k) y c = omap RC (fun x => k * x) (bane_bkg g img y c)
  /\ bane_rms g (scale_img img k) y c = omap RC (fun x => Rabs k * x) (bane_rms g img y c).
Proof. exact bane_scale. Qed.

(* lo <= finite pixels <= hi  ==>  lo <= background <= hi  and  0 <= noise <= hi - lo, wherever they are finite *)
Theorem C06_bounds : forall g img lo hi y c, real_geom g -> wf g -> in_image g y c ->
  (forall y' c' w, in_image g y' c' -> img y' c' = Some w -> lo <= w <= hi) ->
  (forall b, bane_bkg g img y c = Some b -> lo <= b <= hi)
  /\ (forall s, bane_rms g img y c = Some s -> 0 <= s <= hi - lo).
Proof. exact bane_bounds. Qed.

(* masking on: a non-finite input pixel is NaN in both maps *)
Theorem C06_mask_nan : forall g img y c, dm g = true -> img y c = None ->
  bane_bkg g img y c = None /\ bane_rms g img y c = None.
Proof. exact bane_mask_nan. Qed.

(* masking on or off: a pixel with no blank pixel within box/2 + grid (per axis: near g 1) is finite in BOTH maps.
   (sigmaclip drops non-finite samples, so a node is NaN only when its whole box is blank; the noise of a pixel needs, in
   the box of each of its four nodes, one pixel whose background is finite - a pixel of its own cell, or its neighbour when
   the last cell of the image is one pixel wide, whose own four boxes stay within box/2 + grid of the pixel.)
   Sharper facts proved on the way (Proofs/BaneFilterProofs.v): pass_finite_nodes - a map is finite at a pixel as soon as
   each of the four corner boxes of its cell holds ONE finite value; bkg_raw_finite_cell - for the background only the
   rows [cell_lo - box/2, cell_hi + box/2) and the corresponding columns matter. *)
Theorem C06_mask_far_finite : forall g img y c, real_geom g -> wf g -> (2 <= nr g)%Z -> (2 <= nc g)%Z -> in_image g y c ->
  (forall y' c', in_image g y' c' -> near g 1 y c y' c' -> img y' c' <> None) ->
  bane_bkg g img y c <> None /\ bane_rms g img y c <> None.
Proof. exact bane_far_finite. Qed.

Theorem C06_no_blank_in_no_blank_out : forall g img y c, real_geom g -> wf g -> (2 <= nr g)%Z -> (2 <= nc g)%Z -> in_image g y c ->
  (forall y' c', in_image g y' c' -> img y' c' <> None) -> bane_bkg g img y c <> None /\ bane_rms g img y c <> None.
Proof. exact bane_no_blank. Qed.

(* the executable sigma clipping over Q (mean, variance; comparisons decided by squares) computes the real-valued one *)
Theorem C06_sigmaclip_q_is_r : forall l, l <> [] ->
  let r := sigmaclip_q clip_lo clip_hi clip_lower_strict clip_upper_strict clip_reps l in
  est_mean_r (map Q2R l) = Q2R (fst r) /\ est_std_r (map Q2R l) = sqrt (Q2R (snd r)).
Proof. exact sigmaclip_q_is_r. Qed.

(* ---- non-vacuity *)
Example C06_real_geom : forall a b c d e f w m, real_geom (the_geom a b c d e f w m).
Proof. intros. reflexivity. Qed.
Example C06_wf_example : wf (the_geom 9 7 2 2 4 4 3 true) /\ in_image (the_geom 9 7 2 2 4 4 3 true) 8 6.
Proof. unfold wf, in_image. cbn. repeat split; try reflexivity; discriminate. Qed.
(* the executable model on a 5 x 4 constant image in 3 stripes, statistic (max, max - min): 5 and 0 everywhere *)
Example C06_constant_runs :
  run_maxrange (the_geom 5 4 2 2 4 4 2 true) (repeat (repeat (Some (5 # 1)%Q) 4) 5)
  = (repeat (repeat (Some (5 # 1)%Q) 4) 5, repeat (repeat (Some (0 # 1)%Q) 4) 5).
Proof. vm_compute. reflexivity. Qed.
(* a blank pixel is blank in both maps and its surroundings stay finite *)
Example C06_mask_runs :
  let o := run_maxrange (the_geom 4 4 1 1 4 4 4 true)
             [[Some 1%Q; Some 2%Q; Some 3%Q; Some 4%Q]; [Some 1%Q; None; Some 3%Q; Some 4%Q];
              [Some 1%Q; Some 2%Q; Some 3%Q; Some 4%Q]; [Some 1%Q; Some 2%Q; Some 3%Q; Some 4%Q]] in
  nth 1 (nth 1 (fst o) []) None = None /\ nth 1 (nth 1 (snd o) []) None = None /\ nth 0 (nth 0 (fst o) []) None <> None.
Proof. vm_compute. repeat split. discriminate. Qed.

Print Assumptions C06_shift.
Print Assumptions C06_scale.
Print Assumptions C06_bounds.
Print Assumptions C06_mask_far_finite.
Print Assumptions C06_sigmaclip_q_is_r.
