(* C07 - BANE always terminates, is schedule-independent and fails cleanly.
   Statements only; proofs in Proofs/BaneProtocolProofs.v; the synchronisation skeleton
   (which waits exist, abort on error, pool and barrier sizes) is regenerated from BANE.py
   into Gen/BaneSync.v on every run. *)
From Coq Require Import ZArith Bool List Lia.
From Aegean Require Import Gen.BaneSync Model.BaneProtocol Proofs.BaneProtocolProofs.
Import ListNotations.

(* the configuration of the real code is a good one, for every core count and every realised
   number of stripes (also when it exceeds the number of cores) *)
Theorem C07_real_cfg_good : forall cores nn dm, (1 <= nn)%Z -> good (the_cfg cores nn dm).
Proof. exact real_cfg_good. Qed.

Theorem C07_barrier_parties : forall cores nn, parties cores nn = nn.
Proof. exact parties_is_n. Qed.

(* no reachable state is stuck: under every schedule and every set of faults some stripe can
   move until all have ended *)
Theorem C07_progress : forall c s, good c -> reachable c s -> final s = false ->
  exists i a s', step c s i a = Some s'.
Proof. exact progress. Qed.

(* every step consumes the measure, so every schedule ends within 8 steps per stripe *)
Theorem C07_measure_decreases : forall c s i a s', step c s i a = Some s' -> (measure s' < measure s)%nat.
Proof. exact measure_decreases. Qed.

Theorem C07_terminates : forall c sched s, run c (init c) sched = Some s -> (length sched <= 8 * n c)%nat.
Proof. exact run_length_bound. Qed.

(* whenever a stripe reads the shared background (its rows and its neighbours' halo rows),
   every stripe's background rows have been written and none has been masked yet: what a
   stripe computes does not depend on the interleaving *)
Theorem C07_reads_stable : forall c s i x b, good c -> reachable c s ->
  nth_error (stripes s) i = Some x -> seen x = Some b -> b = true.
Proof. exact reads_stable. Qed.

(* all fault-free complete schedules end in one and the same state: every stripe done, every
   row of both maps written, masked iff masking is on *)
Theorem C07_confluent : forall c sched s, good c -> run c (init c) sched = Some s -> final s = true ->
  has_fault sched = false -> s = final_state c.
Proof. exact fault_free_final. Qed.

(* a failure in any stripe at any phase: the run still ends (C07_progress) and the parent raises *)
Theorem C07_fault_raises : forall c sched s, run c (init c) sched = Some s -> has_fault sched = true ->
  parent_outcome s = Raise.
Proof. exact fault_raises. Qed.

Theorem C07_unlink_always : unlink_in_finally = true.
Proof. exact unlink_true. Qed.

(* ... and terminates its worker pool before re-raising, so that nothing is left to block the calling process *)
Theorem C07_pool_terminated_on_failure : terminate_on_failure = true.
Proof. exact terminate_true. Qed.

(* what the hypotheses of `good` buy: without them the protocol can hang *)
Theorem C07_small_pool_deadlocks : forall c, (1 <= pool c)%nat -> (pool c < n c)%nat -> w1 c = true ->
  exists s, reachable c s /\ final s = false /\ forall i a, step c s i a = None.
Proof. exact small_pool_deadlocks. Qed.

Theorem C07_no_abort_hangs : forall c, (2 <= n c)%nat -> (n c <= pool c)%nat -> w1 c = true -> abrt c = false ->
  exists s, reachable c s /\ final s = false /\ forall i a, step c s i a = None.
Proof. exact no_abort_hangs. Qed.

(* without the second wait a stripe can read halo rows that a faster neighbour has already masked *)
Theorem C07_no_second_wait_races : forall c, (2 <= n c)%nat -> (n c <= pool c)%nat -> w1 c = true -> w2 c = false -> domask c = true ->
  exists s i x, reachable c s /\ nth_error (stripes s) i = Some x /\ seen x = Some false.
Proof. exact no_second_wait_races. Qed.

(* layout: for every image height and every stripe width >= 1 the stripes are consecutive,
   non-empty and cover every row exactly once *)
Theorem C07_layout_tiles : forall rows w, (1 <= rows)%Z -> (1 <= w)%Z ->
  layout rows w <> [] /\
  (exists b, nth_error (layout rows w) 0 = Some (0%Z, b)) /\
  (exists a, nth_error (layout rows w) (length (layout rows w) - 1) = Some (a, rows)) /\
  (forall k a b, nth_error (layout rows w) k = Some (a, b) -> (a < b)%Z) /\
  (forall k a b a' b', nth_error (layout rows w) k = Some (a, b) ->
                       nth_error (layout rows w) (S k) = Some (a', b') -> a' = b).
Proof. exact layout_tiles. Qed.

Theorem C07_every_row_in_one_stripe : forall rows w r, (1 <= rows)%Z -> (1 <= w)%Z -> (0 <= r < rows)%Z ->
  exists k a b, nth_error (layout rows w) k = Some (a, b) /\ (a <= r < b)%Z /\
    forall k' a' b', nth_error (layout rows w) k' = Some (a', b') -> (a' <= r < b')%Z -> k' = k.
Proof. exact row_in_one_stripe. Qed.

Print Assumptions C07_progress.
Print Assumptions C07_terminates.
Print Assumptions C07_reads_stable.
Print Assumptions C07_confluent.
Print Assumptions C07_fault_raises.
Print Assumptions C07_layout_tiles.
Print Assumptions C07_every_row_in_one_stripe.

(* ---- non-vacuity: concrete runs of the model and a concrete layout ---- *)
Definition ex_cfg : cfg := the_cfg 2 3 true.

(* 3 stripes on 2 cores (pool of 3): a complete fault-free schedule *)
Definition ex_sched_ok : list (nat * act) :=
  [(0, Start); (1, Start); (0, Arrive1); (2, Start); (2, Arrive1); (1, Arrive1);
   (1, Pass1); (1, Read); (0, Pass1); (1, Arrive2); (2, Pass1); (0, Read); (2, Read);
   (0, Arrive2); (2, Arrive2);
   (2, Pass2); (2, Finish); (0, Pass2); (1, Pass2); (1, Finish); (0, Finish)]%nat.

Example C07_ex_good : good ex_cfg.
Proof. apply C07_real_cfg_good. lia. Qed.

Example C07_ex_fault_free_run :
  run ex_cfg (init ex_cfg) ex_sched_ok = Some (final_state ex_cfg) /\
  final (final_state ex_cfg) = true /\ has_fault ex_sched_ok = false /\
  parent_outcome (final_state ex_cfg) = Return.
Proof. vm_compute. repeat split; reflexivity. Qed.

(* stripe 1 fails while computing its noise; the two stripes waiting at the second barrier get
   BrokenBarrierError; the run is complete and the parent raises *)
Definition ex_sched_fail : list (nat * act) :=
  [(0, Start); (1, Start); (2, Start); (0, Arrive1); (1, Arrive1); (2, Arrive1);
   (0, Pass1); (1, Pass1); (2, Pass1); (0, Read); (1, Read); (2, Read);
   (0, Arrive2); (2, Arrive2); (1, Fail); (0, Break); (2, Break)]%nat.

Example C07_ex_fault_run :
  exists s, run ex_cfg (init ex_cfg) ex_sched_fail = Some s /\ final s = true /\
            has_fault ex_sched_fail = true /\ parent_outcome s = Raise /\
            (forall i a, step ex_cfg s i a = None).
Proof.
  eexists. split; [vm_compute; reflexivity|]. repeat split.
  intros [|[|[|[|i]]]] a; destruct a; reflexivity.
Qed.

(* the premises of the three "what good buys" theorems are satisfiable *)
Example C07_ex_small_pool : exists s, reachable (mkCfg 3 2 true true true true) s /\ final s = false /\
  forall i a, step (mkCfg 3 2 true true true true) s i a = None.
Proof. apply C07_small_pool_deadlocks; cbn; lia || reflexivity. Qed.

Example C07_ex_layout : layout 100 18 = [(0, 18); (18, 36); (36, 54); (54, 72); (72, 90); (90, 100)]%Z.
Proof. vm_compute. reflexivity. Qed.

Print Assumptions C07_real_cfg_good.
Print Assumptions C07_measure_decreases.
Print Assumptions C07_small_pool_deadlocks.
Print Assumptions C07_no_abort_hangs.
Print Assumptions C07_no_second_wait_races.
Print Assumptions C07_ex_fault_free_run.
Print Assumptions C07_ex_fault_run.
