(* C04 (extension) - the noise / covariance model behind "the inverse Fisher matrix built from those derivatives and the
   noise/covariance model": fitting.Cmatrix, fitting.Bmatrix, the whitening of fitting.lmfit_jacobian and the Fisher matrices of
   fitting.covar_errors.  Only statements and `exact <lemma>`; the lemmas live in Proofs/NoiseProofs.v, the leaves cm_entry,
   bm_minL, bm_clip, bm_s, lj_scale, ce_sigma and the shape constants are regenerated from fitting.py into Gen/Noise.v on every run.

   scipy.linalg.eigh and scipy.linalg.inv are NOT modelled: their contracts appear as hypotheses (C = Q diag(L) Q^T, Q^T Q = I,
   Q Q^T = I, L ascending; C Cinv = I, Cinv C = I) and are validated against the real library on every run by tools/harness/c04x.py.
   meq r c A B : A and B agree on the first r rows and c columns;  mmul n : matrix product with inner dimension n. *)
From Coq Require Import Reals List Arith Lra.
From Aegean Require Import Lib.RBase Gen.Gauss Gen.Noise Model.NoiseModel Proofs.NoiseProofs.
Import ListNotations.
Open Scope R_scope.

(* ---- Cmatrix is a correlation matrix: symmetric, unit diagonal, entries in (0, 1] - for every pixel list (masked islands
   included: pts is any list), every theta, and sx, sy non-zero *)
Theorem C04x_cmatrix_symmetric : forall pts sx sy theta i j, cmatrix pts sx sy theta i j = cmatrix pts sx sy theta j i.
Proof. exact cmatrix_symmetric. Qed.
Theorem C04x_cmatrix_unit_diagonal : forall pts sx sy theta i, cmatrix pts sx sy theta i i = 1.
Proof. exact cmatrix_unit_diagonal. Qed.
Theorem C04x_cmatrix_entries_in_unit_interval : forall pts sx sy theta i j, sx <> 0 -> sy <> 0 ->
  0 < cmatrix pts sx sy theta i j <= 1.
Proof. exact cmatrix_unit_interval. Qed.

(* ---- Bmatrix.  The clip replaces every eigenvalue below minL = 1e-9 * L[-1] by minL ... *)
Theorem C04x_bmatrix_clip : forall n L k, clipped n L k = Rmax (L k) (bm_minL (L (pred n))).
Proof. exact clipped_char. Qed.
Theorem C04x_bmatrix_minL_documented : forall l, bm_minL l = bm_eps * l.
Proof. exact bm_minL_documented. Qed.
(* ... so that in general B B^T is Q diag(1 / clipped L) Q^T, the inverse of the matrix with the CLIPPED spectrum (not of C) *)
Theorem C04x_bmatrix_clipped_spectrum : forall n Q L, 0 < L (pred n) -> forall i j,
  mmul n (bmatrix n L Q) (mT (bmatrix n L Q)) i j = mmul n (mmul n Q (mdiag (fun k => / clipped n L k))) (mT Q) i j.
Proof. exact bbt_spectrum. Qed.
Theorem C04x_bmatrix_clipped_inverse : forall n Q L,
  meq n n (mmul n (mT Q) Q) mI -> meq n n (mmul n Q (mT Q)) mI -> 0 < L (pred n) ->
  meq n n (mmul n (mmul n (bmatrix n L Q) (mT (bmatrix n L Q))) (mmul n (mmul n Q (mdiag (clipped n L))) (mT Q))) mI.
Proof. exact bmatrix_clipped_inverse. Qed.
(* the documented contract "B.dot(B') = inv(C)": under the eigh contract, when the smallest eigenvalue is not below minL *)
Theorem C04x_bmatrix_contract : forall n C Q L,
  meq n n C (mmul n (mmul n Q (mdiag L)) (mT Q)) -> meq n n (mmul n (mT Q) Q) mI -> meq n n (mmul n Q (mT Q)) mI ->
  (forall i j, (i <= j < n)%nat -> L i <= L j) ->
  0 < L (pred n) -> bm_minL (L (pred n)) <= L 0%nat ->
  meq n n (mmul n (mmul n (bmatrix n L Q) (mT (bmatrix n L Q))) C) mI.
Proof. exact bmatrix_contract. Qed.

(* ---- covar_errors.  The matrix whose inverse's diagonal gives the errors (branch C is None: np.transpose(J).dot(J) with
   J = lmfit_jacobian(.., B=B, errs=errs) = ((jacobian / errs).dot(B))^T, i.e. B multiplies the PIXEL index of the row
   Jacobian from the right) is  (J/e) C^-1 (J/e)^T  for ANY B with B B^T C = I - it does not depend on the square root used *)
Theorem C04x_fisher_is_JCinvJ : forall n J e C Cinv, meq n n (mmul n C Cinv) mI ->
  forall B, meq n n (mmul n (mmul n B (mT B)) C) mI ->
  forall i j, fisher_B n J e B i j = fisher_ref n J e Cinv i j.
Proof. exact fisher_is_JCinvJ. Qed.
(* the branch that is given C (np.transpose(J).dot(inv(C)).dot(J)) builds that matrix directly, so the two branches agree *)
Theorem C04x_fisher_C_branch : forall n J e B Cinv i j, fisher_C n J e B Cinv i j = fisher_ref n J e Cinv i j.
Proof. exact fisher_C_ref. Qed.
Theorem C04x_branches_agree : forall n J e C Cinv, meq n n (mmul n C Cinv) mI ->
  forall B, meq n n (mmul n (mmul n B (mT B)) C) mI ->
  forall i j, fisher_B n J e B i j = fisher_C n J e B Cinv i j.
Proof. exact branches_agree. Qed.
(* it is J Sigma^-1 J^T for the covariance Sigma[a][b] = errs[a] * C[a][b] * errs[b] of the pixel noise *)
Theorem C04x_precision_is_inverse_covariance : forall n e C Cinv, meq n n (mmul n Cinv C) mI ->
  (forall a, (a < n)%nat -> e a <> 0) -> meq n n (mmul n (precision Cinv e) (covariance C e)) mI.
Proof. exact precision_is_inverse. Qed.
Theorem C04x_fisher_is_J_precision_J : forall n J e Cinv, (forall a, (a < n)%nat -> e a <> 0) -> forall i j,
  fisher_ref n J e Cinv i j = bsum n (fun a => bsum n (fun b => J i a * precision Cinv e a b * J j b)).
Proof. exact fisher_ref_precision. Qed.
(* each error is the square root of the diagonal entry of the inverse *)
Theorem C04x_onesigma : forall Finv k, onesigma Finv k = sqrt (Finv k k).
Proof. intros Finv k. exact (ce_sigma_char (Finv k k)). Qed.
(* the residual handed to the optimiser is whitened on the same side as the Jacobian and un-whitened on that side *)
Theorem C04x_residual_side : res_whiten_right = lj_whiten_right /\ res_unwhiten_right = res_whiten_right.
Proof. exact res_shape. Qed.

(* the side matters: a (non-symmetric) B with B B^T C = I for which multiplying on the other side, B.dot(J'), gives another
   matrix than J C^-1 J^T (1 instead of 2), while the code's side gives it.  Also the non-vacuity example of the hypotheses. *)
Theorem C04x_wrong_side_differs :
  meq 2 2 (mmul 2 (mmul 2 ws_B (mT ws_B)) ws_C) mI /\ meq 2 2 (mmul 2 ws_C ws_Cinv) mI /\
  fisher_B 2 ws_J (fun _ => 1) ws_B 0%nat 0%nat = fisher_ref 2 ws_J (fun _ => 1) ws_Cinv 0%nat 0%nat /\
  fisher_left 2 ws_J (fun _ => 1) ws_B 0%nat 0%nat <> fisher_ref 2 ws_J (fun _ => 1) ws_Cinv 0%nat 0%nat.
Proof. exact wrong_side_differs. Qed.

(* non-vacuity: a two-pixel island *)
Example C04x_example_cmatrix : cmatrix [(3, 4); (3, 5)] 1 1 0 0%nat 1%nat = exp (IZR (-1) / 2).
Proof.
  unfold cmatrix; cbn [nth fst snd]. rewrite cm_entry_char. f_equal. unfold rad.
  replace (0 * PI / 180) with 0 by (unfold Rdiv; ring). rewrite cos_0, sin_0. field.
Qed.

Print Assumptions C04x_cmatrix_symmetric.
Print Assumptions C04x_cmatrix_entries_in_unit_interval.
Print Assumptions C04x_bmatrix_clipped_inverse.
Print Assumptions C04x_bmatrix_contract.
Print Assumptions C04x_fisher_is_JCinvJ.
Print Assumptions C04x_branches_agree.
Print Assumptions C04x_precision_is_inverse_covariance.
Print Assumptions C04x_wrong_side_differs.
