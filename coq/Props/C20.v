(* C20 - Image bands tile the image exactly and keep its astrometry.
   Only statements and `exact <lemma>`; the lemmas live in Proofs/BandsProofs.v, the
   arithmetic in Gen/Bands.v is regenerated from fits_tools.load_image_band on every run. *)
From Coq Require Import ZArith Bool List.
From Aegean Require Import Gen.Bands Model.Bands Proofs.BandsProofs.
Import ListNotations.
Open Scope Z_scope.

(* every row of an image with N rows lies in exactly one of the n bands; no bound on N or n *)
Theorem C20_tiles_cover : forall N n r, 0 < n -> 0 <= r < N ->
  exists i, 0 <= i < n /\ row_min N i n <= r < row_max N i n.
Proof. exact band_of_row_exists. Qed.

Theorem C20_tiles_disjoint : forall N n r i j, 0 <= N -> 0 < n ->
  row_min N i n <= r < row_max N i n -> row_min N j n <= r < row_max N j n -> i = j.
Proof. exact band_of_row_unique. Qed.

Theorem C20_tiles_consecutive : forall N n, 0 < n ->
  row_min N 0 n = 0 /\ row_max N (n - 1) n = N /\ forall i, row_max N i n = row_min N (i + 1) n.
Proof. intros N n H. split; [exact (row_min_0 N n H)|split; [exact (row_max_last N n H)|exact (fun i => row_max_min_next N i n)]]. Qed.

(* the bands' pixel values, concatenated in order, are the image *)
Theorem C20_values : forall (A : Type) (img : list (list A)) n, 0 < n ->
  concat (map (fun i => band_rows img (Z.of_nat i) n) (seq 0 (Z.to_nat n))) = img.
Proof. exact @bands_concat. Qed.

(* each band's header maps band row y to the coordinate of full-image row y + row_min *)
Theorem C20_astrometry : forall crpix2 lo hi y,
  fits_offset (new_crpix2 crpix2 lo hi) y = fits_offset crpix2 (y + lo) /\ new_naxis2 lo hi = hi - lo.
Proof. intros. split; [exact (astrometry_kept crpix2 lo hi y)|exact (naxis2_is_rows lo hi)]. Qed.

(* exactly the invalid band specifications are rejected, and accepted ones are as above *)
Theorem C20_invalid_rejected : forall b0 b1, band_rejected b0 b1 = false <-> 0 <= b0 < b1.
Proof. exact rejected_iff. Qed.

Theorem C20_load_band : forall N crpix2 b0 b1,
  load_band N crpix2 b0 b1 =
  if (0 <=? b0) && (b0 <? b1) then
    Some {| br_lo := row_min N b0 b1; br_hi := row_max N b0 b1;
            br_naxis2 := row_max N b0 b1 - row_min N b0 b1;
            br_crpix2 := crpix2 - row_min N b0 b1 |}
  else None.
Proof. exact load_band_spec. Qed.

(* non-vacuity: a pair on which float arithmetic used to lose the last row *)
Example C20_example_1_49 : row_max 1 48 49 = 1 /\ row_min 1 48 49 = 0.
Proof. vm_compute. split; reflexivity. Qed.

Print Assumptions C20_tiles_cover.
Print Assumptions C20_tiles_disjoint.
Print Assumptions C20_tiles_consecutive.
Print Assumptions C20_values.
Print Assumptions C20_astrometry.
Print Assumptions C20_invalid_rejected.
Print Assumptions C20_load_band.
