(* C14 - AeRes model images are the catalogue's Gaussians; subtraction closes the loop.
   Statements only; proofs in Proofs/AeResProofs.v.  The leaves (guards, window arithmetic with
   floor/ceil/int, the xo-1/yo-1 and FWHM2CC conversion, accumulation, mask comparisons,
   add/subtract, rename pairing) are regenerated from AeRes.py into Gen/AeRes.v on every run and
   `gauss` from fitting.py into Gen/Gauss.v.

   sky2pix_ellipse is the function argument `ell` (no hypothesis about it is used): for a catalogue
   row it returns (xo, yo, sx, sy, theta) = 1-based pixel centre, FWHM axes in pixels, pixel-frame
   angle in degrees.  That these are the catalogued sky position / axes / position angle seen
   through the WCS is property C16's.

   NOT proved here (validated by the harness on every run, see the evidence): float32/binary64
   round-off of the array, and the find -> subtract residual < 1e-3 peak, which depends on the
   optimiser (C01). *)
From Coq Require Import Reals ZArith Bool List String Lra Lia.
From Flocq Require Import Raux.
From Interval Require Import Tactic.
From Aegean Require Import Lib.RBase Gen.Gauss Gen.AeRes Model.AeRes Proofs.AeResProofs.
Import ListNotations.
Open Scope R_scope.

(* the model image of a catalogue is, pixel by pixel, the sum over its rows of the elliptical
   Gaussian with the catalogued peak, centred on the 0-based pixel position (xo-1, yo-1), with
   sigma = FWHM/(2 sqrt(2 ln 2)) along the pixel-frame axes and angle - for the rows that are
   accepted (centre on the image) and on the pixels of their evaluation window; 0 otherwise *)
Theorem C14_model_is_sum : forall (ell : R * R * R * R * R -> R * R * R * R * R) s0 s1 (rows : list row) i j,
  model_px s0 s1 (map (to_src ell) rows) i j =
  Rsum (map (fun r =>
    let '(xo, yo, sx, sy, theta) := ell (r_ra r, r_dec r, r_a r / 3600, r_b r / 3600, r_pa r) in
    if covers s0 s1 (mkSrc (r_peak r) (r_rms r) xo yo sx sy theta) i j
    then gauss (IZR i) (IZR j) (r_peak r) (xo - 1) (yo - 1) (sx * (1 / (2 * sqrt (2 * ln 2)))) (sy * (1 / (2 * sqrt (2 * ln 2)))) theta
    else 0) rows).
Proof. exact model_is_sum_full. Qed.

(* what `covers` is, without floor / ceil / int: the guard on the centre and the pixel window *)
Theorem C14_covers_spec : forall s0 s1 s i j,
  covers s0 s1 s i j = true <->
  (1 / 2 <= s_xo s < IZR s0 + 1 / 2 /\ 1 / 2 <= s_yo s < IZR s1 + 1 / 2) /\
  ((0 <= i < s0)%Z /\ s_xo s - xoff (s_sx s) (s_sy s) (s_theta s) < IZR i + 1 /\ IZR i < s_xo s + xoff (s_sx s) (s_sy s) (s_theta s)) /\
  ((0 <= j < s1)%Z /\ s_yo s - yoff (s_sx s) (s_sy s) (s_theta s) < IZR j + 1 /\ IZR j < s_yo s + yoff (s_sx s) (s_sy s) (s_theta s)).
Proof. exact covers_iff. Qed.

(* additive over catalogue subsets (over R) *)
Theorem C14_additive : forall s0 s1 c1 c2 i j,
  model_px s0 s1 (c1 ++ c2) i j = model_px s0 s1 c1 i j + model_px s0 s1 c2 i j.
Proof. exact additive. Qed.

(* evaluated out to 5 sigma - in fact out to 5 FWHM = k_window sigma, k_window = 11.774.. :
   (a) every image pixel inside the 5-sigma ellipse of a source is evaluated;
   (b) on every image pixel that is not evaluated the term is at most 1e-30 |peak| (= 2^-100 |peak|),
       far below the 1e-4 |peak| of the property;
   (c) so the image differs from the untruncated sum over the accepted sources by <= 1e-30 sum |peak| *)
Theorem C14_window_5sigma_inside : forall s0 s1 s i j, 0 < s_sx s -> 0 < s_sy s -> (0 <= i < s0)%Z -> (0 <= j < s1)%Z ->
  quad (IZR i - (s_xo s - 1)) (IZR j - (s_yo s - 1)) (s_sx s * FWHM2CC) (s_sy s * FWHM2CC) (s_theta s) <= 5 ^ 2 ->
  in_window s0 s1 s i j = true.
Proof. exact five_sigma_evaluated. Qed.
Theorem C14_window_5sigma : forall s0 s1 s i j, 0 < s_sx s -> 0 < s_sy s -> (0 <= i < s0)%Z -> (0 <= j < s1)%Z ->
  in_window s0 s1 s i j = false ->
  Rabs (term s i j) <= Rabs (s_peak s) * exp (- (k_window ^ 2) / 2).
Proof. exact window_bound. Qed.
Theorem C14_window_tail : 5 < k_window /\ exp (- (k_window ^ 2) / 2) <= 1 / 10 ^ 30.
Proof. exact (conj k_window_ge_5 window_tail). Qed.
Theorem C14_truncation : forall s0 s1 cat i j, Forall regular cat -> (0 <= i < s0)%Z -> (0 <= j < s1)%Z ->
  Rabs (model_px s0 s1 cat i j - Rsum (map (fun s => full_term s0 s1 s i j) cat))
  <= exp (- (k_window ^ 2) / 2) * Rsum (map (fun s => Rabs (s_peak s)) cat).
Proof. exact truncation_error. Qed.

(* the generated guard accepts exactly the sources whose centre pixel (the pixel that contains the
   0-based centre (xo-1, yo-1); pixel k covers [k-1/2, k+1/2)) is a pixel of the image - first and
   last row / column included - and a rejected source changes no pixel (no error) *)
Theorem C14_offimage_skipped : forall s0 s1 s,
  accepted s0 s1 s = true <-> (0 <= centre_pixel (s_xo s) < s0)%Z /\ (0 <= centre_pixel (s_yo s) < s1)%Z.
Proof. exact offimage_skipped. Qed.
Theorem C14_offimage_ignored : forall s0 s1 s cat i j, accepted s0 s1 s = false ->
  model_px s0 s1 (s :: cat) i j = model_px s0 s1 cat i j.
Proof. exact rejected_ignored. Qed.

(* adding then subtracting (or subtracting then adding) a model restores the image - over R;
   for float32 data this is validated, not proved *)
Theorem C14_add_sub_inverse : forall d m,
  residual_px false false (residual_px true false d m) m = d /\ residual_px true false (residual_px false false d m) m = d.
Proof. exact (fun d m => conj (add_sub_inverse d m) (sub_add_inverse d m)). Qed.
(* subtracting the model of a catalogue from the image that is the sum of its contributions leaves 0 *)
Theorem C14_subtract_closes_partial : forall s0 s1 cat i j,
  residual false None s0 s1 cat (Rsum (map (fun s => contrib s0 s1 s i j) cat)) i j = Some 0.
Proof. exact subtract_own_model. Qed.

(* mask mode blanks exactly the pixels where the model of some accepted source reaches its threshold
   (|frac * peak| or sigma * local_rms), for positive and negative peaks alike.  The full statement
   over the whole image needs the threshold to be above the truncation level 1e-30 |peak| (`resolved`);
   without that hypothesis the statement holds with "on the pixels of its window" added *)
Theorem C14_mask_exact : forall s0 s1 mode cat i j, Forall (resolved mode) cat -> (0 <= i < s0)%Z -> (0 <= j < s1)%Z ->
  (blank_px s0 s1 mode cat i j = true <->
   exists s, In s cat /\ accepted s0 s1 s = true /\ threshold mode s <= Rabs (term s i j)).
Proof. exact mask_exact. Qed.
Theorem C14_mask_exact_window : forall s0 s1 mode cat i j,
  blank_px s0 s1 mode cat i j = true <-> exists s, In s cat /\ covers_P s0 s1 s i j /\ hit_P mode s i j.
Proof. exact mask_exact_window. Qed.
(* ... and the residual written in mask mode is nan there and the data elsewhere *)
Theorem C14_mask_residual : forall s0 s1 add mode cat d i j,
  residual add (Some mode) s0 s1 cat d i j = if blank_px s0 s1 mode cat i j then None else Some d.
Proof. exact mask_residual. Qed.

(* column renaming (load_sources, repaired shape: copy the requested columns, remove every column
   named like a requested or a catalogue column, add the copies under the catalogue names) - FULL
   statement: for every table that has the six requested columns - whatever other columns it has,
   including columns already named like a catalogue field (peak_col = int_flux next to peak_flux) and
   swapped names (a_col = b, b_col = a) - loading succeeds, the catalogue field of each parameter holds
   the user's column, every column that is neither requested nor a catalogue name is kept, and
   column names stay unique.  The pre-repair sequential rename_column violated this:
   Refuted/C14_rename.v (frozen regression record). *)
Theorem C14_rename_pairs :
  combine rename_from rename_to =
  [("ra_col", "ra"); ("dec_col", "dec"); ("peak_col", "peak_flux"); ("a_col", "a"); ("b_col", "b"); ("pa_col", "pa")]%string.
Proof. exact leaf_rename. Qed.
Theorem C14_rename : forall V (t : table V) colmap,
  (forall p, In p rename_from -> has V t (colmap p) = true) ->
  exists t', load_table V colmap t = Some t'
    /\ (forall p f, In (p, f) (combine rename_from rename_to) -> col V t' f = col V t (colmap p))
    /\ (forall c, ~ In c (map colmap rename_from ++ rename_to) -> col V t' c = col V t c)
    /\ (NoDup (map fst t) -> NoDup (map fst t')).
Proof. exact load_full. Qed.
(* a missing requested column is reported (None), never a silently wrong catalogue *)
Theorem C14_rename_missing : forall V (t : table V) colmap p,
  In p rename_from -> has V t (colmap p) = false -> load_table V colmap t = None.
Proof. exact load_missing. Qed.

(* ---- non-vacuity *)
Definition ex_src : psrc := mkSrc 2 (1 / 10) 6 7 3 2 30.
Example C14_example_accepted : accepted 12 14 ex_src = true.
Proof. apply accepted_iff. unfold accepted_P, ex_src; cbn [s_xo s_yo]. lra. Qed.
Example C14_example_last_row_accepted : accepted 12 14 (mkSrc 2 0 (12 + 1 / 4) 1 3 2 30) = true
                                        /\ accepted 12 14 (mkSrc 2 0 (12 + 1 / 2) 1 3 2 30) = false.
Proof.
  split; [apply accepted_iff; unfold accepted_P; cbn [s_xo s_yo]; lra|].
  apply not_true_is_false. rewrite accepted_iff. unfold accepted_P; cbn [s_xo s_yo]. lra.
Qed.
Example C14_example_covers : covers 12 14 ex_src 5 6 = true.
Proof.
  apply covers_iff. unfold covers_P, accepted_P, window_P, ex_src; cbn [s_xo s_yo s_sx s_sy s_theta].
  repeat split; try lia; try lra; unfold xoff, yoff, rad; interval.
Qed.
Example C14_example_regular : Forall regular [ex_src].
Proof. repeat constructor; unfold ex_src; cbn [s_sx s_sy]; lra. Qed.

(* the two inputs that used to fail: an Aegean-like table read with peak_col = int_flux, and swapped a / b *)
Definition ex_table : table nat := [("ra", 1%nat); ("dec", 2%nat); ("peak_flux", 3%nat); ("int_flux", 4%nat); ("a", 5%nat); ("b", 6%nat); ("pa", 7%nat); ("local_rms", 8%nat)]%string.
Example C14_example_collision :
  load_table nat (fun p => if String.eqb p "peak_col" then "int_flux" else default_colmap p)%string ex_table
  = Some [("local_rms", 8%nat); ("ra", 1%nat); ("dec", 2%nat); ("peak_flux", 4%nat); ("a", 5%nat); ("b", 6%nat); ("pa", 7%nat)]%string.
Proof. reflexivity. Qed.
Example C14_example_swap :
  load_table nat (fun p => if String.eqb p "a_col" then "b" else if String.eqb p "b_col" then "a" else default_colmap p)%string ex_table
  = Some [("int_flux", 4%nat); ("local_rms", 8%nat); ("ra", 1%nat); ("dec", 2%nat); ("peak_flux", 3%nat); ("a", 6%nat); ("b", 5%nat); ("pa", 7%nat)]%string.
Proof. reflexivity. Qed.

Print Assumptions C14_model_is_sum.
Print Assumptions C14_covers_spec.
Print Assumptions C14_additive.
Print Assumptions C14_window_5sigma_inside.
Print Assumptions C14_window_5sigma.
Print Assumptions C14_window_tail.
Print Assumptions C14_truncation.
Print Assumptions C14_offimage_skipped.
Print Assumptions C14_offimage_ignored.
Print Assumptions C14_add_sub_inverse.
Print Assumptions C14_subtract_closes_partial.
Print Assumptions C14_mask_exact.
Print Assumptions C14_mask_exact_window.
Print Assumptions C14_mask_residual.
Print Assumptions C14_rename_pairs.
Print Assumptions C14_rename.
Print Assumptions C14_rename_missing.
