(* C19 - Regrouping = eps-connected partition of the catalogue, independent of row order.
   Statements only; proofs in Proofs/ClusterProofs.v (Z, lists; axiom-free) and Proofs/ClusterRProofs.v
   (Reals); leaves regenerated into Gen/ClusterShape.v and Gen/ClusterR.v from AegeanTools/cluster.py,
   CLI/AeReg.py and source_finder.py on every run.

   sklearn's DBSCAN is not modelled: [dbscan] is a variable (the labels_ array returned for a catalogue)
   and [dbscan_ok link dbscan] - labels_ = index of the connectivity class of the relation [link], classes
   numbered by their first row - is a hypothesis of the theorems that depend on it; the harness validates
   it against sklearn on every case. *)
From Coq Require Import ZArith Bool List Relations Permutation Reals.
From Aegean Require Import Gen.ClusterShape Gen.ClusterR Lib.RBase Lib.Graph Model.Cluster
  Proofs.ClusterProofs Proofs.ClusterRProofs.
Import ListNotations.
Open Scope Z_scope.

(* the enumerated constants of the control skeletons have the values the hand-written model assumes:
   DBSCAN(min_samples = 1); regroup_vectorized scans reversed(groups), filters |dRA| <= rafar, joins on < eps *)
Theorem C19_shape_constants :
  dbscan_min_samples = 1 /\ greedy_scan_newest_first = true /\ greedy_ra_filter_le = true /\ greedy_join_strict = true.
Proof. exact (conj eq_refl (conj eq_refl (conj eq_refl eq_refl))). Qed.

(* ---------------- regroup_dbscan ---------------- *)

(* every input source is in exactly one group (the ids of all groups together are a permutation of the
   ids of the catalogue, which are pairwise distinct), no group is empty, and apart from the two labels the
   sources that come out are the sources that went in *)
Theorem C19_partition : forall link dbscan, dbscan_ok link dbscan -> forall cat, NoDup (ids cat) ->
  Permutation (map strip (concat (regroup_dbscan dbscan cat))) (map strip cat) /\
  Permutation (ids (concat (regroup_dbscan dbscan cat))) (ids cat) /\
  (forall g, In g (regroup_dbscan dbscan cat) -> g <> []).
Proof. exact dbscan_partition. Qed.

(* two sources share a group exactly when a chain of sources of the catalogue, consecutive ones related by
   [link] (separation <= linking length), joins them *)
Theorem C19_chain_iff : forall link dbscan cat s t, dbscan_ok link dbscan -> NoDup (ids cat) -> symmetric link ->
  In s cat -> In t cat ->
  (same_group (regroup_dbscan dbscan cat) s t <-> clos_refl_trans source (fun a b => In a cat /\ In b cat /\ link a b = true) s t).
Proof. intros link dbscan cat s t H1 H2 H3 H4 H5. exact (dbscan_same_group link dbscan H1 cat s t H2 H3 H4 H5). Qed.

(* the grouping (which sources are together) does not depend on the order of the rows *)
Theorem C19_perm_invariant : forall link dbscan cat cat' s t, dbscan_ok link dbscan -> NoDup (ids cat) ->
  symmetric link -> Permutation cat cat' -> In s cat -> In t cat ->
  (same_group (regroup_dbscan dbscan cat) s t <-> same_group (regroup_dbscan dbscan cat') s t).
Proof. intros link dbscan cat cat' s t H. exact (dbscan_perm_invariant link dbscan H cat cat' s t). Qed.

(* group number i carries island = i; inside a group the source labels are 0..n-1, a smaller label never
   has a smaller peak flux; (island, source) pairs are unique over the whole result.  True for whatever
   labels the clustering library returns. *)
Theorem C19_numbering : forall dbscan cat, NoDup (ids cat) ->
  let out := regroup_dbscan dbscan cat in
  (forall i g, nth_error out i = Some g ->
     (forall s, In s g -> s_island s = Z.of_nat i) /\
     Permutation (map s_source g) (map Z.of_nat (seq 0 (length g))) /\
     (forall s t, In s g -> In t g -> s_source s < s_source t -> s_flux t <= s_flux s)) /\
  NoDup (map label (concat out)).
Proof. exact dbscan_numbering. Qed.

(* no attribute other than island / source is changed *)
Theorem C19_attributes_untouched : forall dbscan cat s', In s' (concat (regroup_dbscan dbscan cat)) ->
  exists s, In s cat /\ s_id s = s_id s' /\ strip s' = strip s.
Proof. exact dbscan_attributes. Qed.

(* the relation used in the correspondence runs: Euclidean distance of the rational unit vectors <= eps
   (eps^2 = en/ed); it is symmetric, and its tabulated form is the same relation *)
Theorem C19_chord_relation : forall en ed,
  symmetric (link_chord en ed) /\
  (forall a b, link_chord en ed a b = true <-> ed * chord2_num (s_pt a) (s_pt b) <= en * chord2_den (s_pt a) (s_pt b)) /\
  (forall cat a b, NoDup (ids cat) -> In a cat -> In b cat ->
     link_tbl (tabulate (link_chord en ed) cat a) (tabulate (link_chord en ed) cat b) = link_chord en ed a b).
Proof.
  intros en ed. split; [apply link_chord_sym|split; [apply link_chord_spec|]].
  intros cat a b. apply tabulate_exact.
Qed.

(* ---------------- regroup (greedy, elliptical distance) ---------------- *)
(* [link rec m]: m passes the RA pre-filter of rec and norm_dist(rec, m) < eps; far >= 0 *)

Theorem C19_greedy_partition : forall link far, 0 <= far -> forall cat,
  Permutation (map strip (concat (regroup_greedy link far cat))) (map strip cat) /\
  Permutation (ids (concat (regroup_greedy link far cat))) (ids cat) /\
  (forall g, In g (regroup_greedy link far cat) -> g <> []).
Proof. exact greedy_partition. Qed.

(* every group is chain-connected: any two of its members are joined by links between members of the group *)
Theorem C19_greedy_groups_connected : forall link far cat g', 0 <= far -> In g' (regroup_greedy link far cat) ->
  exists g, In g (greedy_groups link far cat) /\ ids g' = ids g /\ incl g cat /\
            forall x y, In x g -> In y g ->
              clos_refl_sym_trans source (fun a b => In a g /\ In b g /\ link a b = true) x y.
Proof. intros link far cat g' H. exact (greedy_connected link far H cat g'). Qed.

(* for pairwise distinct declinations the whole result (groups, their order, all labels) does not depend
   on the order of the rows *)
Theorem C19_greedy_perm_invariant : forall link far cat cat', NoDup (map s_dec cat) -> Permutation cat cat' ->
  regroup_greedy link far cat' = regroup_greedy link far cat.
Proof. exact greedy_perm_invariant. Qed.

Theorem C19_greedy_numbering : forall link far, 0 <= far -> forall cat, NoDup (ids cat) ->
  let out := regroup_greedy link far cat in
  (forall i g, nth_error out i = Some g ->
     (forall s, In s g -> s_island s = Z.of_nat i) /\
     Permutation (map s_source g) (map Z.of_nat (seq 0 (length g))) /\
     (forall s t, In s g -> In t g -> s_source s < s_source t -> s_flux t <= s_flux s)) /\
  NoDup (map label (concat out)).
Proof. exact greedy_numbering. Qed.

(* ---------------- resize with a ratio, eps conversion (real numbers) ---------------- *)
Open Scope R_scope.

Theorem C19_resize_id : forall a b psf_a psf_b, 0 <= a -> 0 <= b ->
  resize_a a psf_a 1 = a /\ resize_b b psf_b 1 = b.
Proof. exact resize_id. Qed.

(* a ratio >= 1 never shrinks a source, and a larger ratio gives a source at least as large *)
Theorem C19_resize_mono : forall a b psf_a psf_b r, 1 <= r ->
  a <= resize_a a psf_a r /\ b <= resize_b b psf_b r /\
  (forall r', r <= r' -> resize_a a psf_a r <= resize_a a psf_a r' /\ resize_b b psf_b r <= resize_b b psf_b r').
Proof. exact resize_mono. Qed.

(* the eps handed to DBSCAN by AeReg and by priorized fitting is the chord of the linking length: two
   positions whose angular separation is gamma degrees (spherical law of cosines) have embedded unit
   vectors at Euclidean distance <= eps exactly when gamma <= linking length (e arcmin) *)
Theorem C19_eps_chord : forall ra1 dec1 ra2 dec2 gamma e, 0 <= gamma <= 180 -> 0 <= e <= 10800 ->
  cos (rad gamma) = sin (rad dec1) * sin (rad dec2) + cos (rad dec1) * cos (rad dec2) * cos (rad ra1 - rad ra2) ->
  (dist3 (emb ra1 dec1) (emb ra2 dec2) <= eps_chord_aereg e <-> gamma <= e / 60) /\
  (dist3 (emb ra1 dec1) (emb ra2 dec2) <= eps_chord_finder e <-> gamma <= e / 60).
Proof. exact eps_chord. Qed.

Open Scope Z_scope.

(* ---------- non-vacuity: a catalogue on which every premise is satisfiable ----------
   unit vectors N = (0,0,1), A = (3,0,4)/5, B = (0,3,4)/5, S = (0,0,-1); eps^2 = 1/2.
   |N-A|^2 = |N-B|^2 = 2/5 <= 1/2 < |A-B|^2 = 18/25: A - N - B is a chain, S is alone.
   fluxes: N 5, A 9, B 5 (tie with N, N is the earlier row), S 1; input labels are junk. *)
Definition ex_src (i : Z) (p : lpt) (dec fl : Z) : source := mkSource i p dec fl 7 7 [] (100 + i).
Definition ex_cat : list source :=
  [ex_src 0 (mkPt 0 0 1 1) 30 5; ex_src 1 (mkPt 3 0 4 5) 20 9; ex_src 2 (mkPt 0 0 (-1) 1) (-90) 1; ex_src 3 (mkPt 0 3 4 5) 10 5].
Definition ex_link := link_chord 1 2.
Definition ex_dbscan : list source -> list nat := comp_labels ex_link.

Example ex_dbscan_ok : dbscan_ok ex_link ex_dbscan.
Proof. intros cat. reflexivity. Qed.
Example ex_ids : NoDup (ids ex_cat).
Proof. vm_compute. repeat constructor; cbn; intuition discriminate. Qed.
Example ex_labels : ex_dbscan ex_cat = [0; 0; 1; 0]%nat.
Proof. vm_compute. reflexivity. Qed.
Example ex_regroup : obs (regroup_dbscan ex_dbscan ex_cat) = [[(0, 0, 1); (1, 0, 0); (3, 0, 2)]; [(2, 1, 0)]].
Proof. vm_compute. reflexivity. Qed.
Example ex_regroup_permuted : obs (regroup_dbscan ex_dbscan (rev ex_cat)) = [[(3, 0, 1); (1, 0, 0); (0, 0, 2)]; [(2, 1, 0)]].
Proof. vm_compute. reflexivity. Qed.
Example ex_tabulated : obs (regroup_dbscan (comp_labels link_tbl) (with_nbrs ex_link ex_cat)) = obs (regroup_dbscan ex_dbscan ex_cat).
Proof. vm_compute. reflexivity. Qed.
(* A and B are not related, yet share a group (chain through N) *)
Example ex_chain : ex_link (nth 1 ex_cat (ex_src 9 (mkPt 0 0 1 1) 0 0)) (nth 3 ex_cat (ex_src 9 (mkPt 0 0 1 1) 0 0)) = false /\
  same_group (regroup_dbscan ex_dbscan ex_cat) (nth 1 ex_cat (ex_src 9 (mkPt 0 0 1 1) 0 0)) (nth 3 ex_cat (ex_src 9 (mkPt 0 0 1 1) 0 0)).
Proof.
  split; [vm_compute; reflexivity|].
  apply (C19_chain_iff ex_link ex_dbscan ex_cat _ _ ex_dbscan_ok ex_ids (link_chord_sym 1 2)); try (cbn; tauto).
  apply rt_trans with (nth 0 ex_cat (ex_src 9 (mkPt 0 0 1 1) 0 0)); apply rt_step; cbn; repeat split; tauto.
Qed.
(* greedy variant on the same catalogue with its distinct declinations (30, 20, 10, -90), far = 1:
   order N, A, B, S; A joins N, B joins the group of N (linked to N, not to A), S is alone *)
Example ex_greedy : obs (regroup_greedy ex_link 1 ex_cat) = [[(0, 0, 1); (1, 0, 0); (3, 0, 2)]; [(2, 1, 0)]].
Proof. vm_compute. reflexivity. Qed.
Example ex_greedy_permuted : regroup_greedy ex_link 1 (rev ex_cat) = regroup_greedy ex_link 1 ex_cat.
Proof. apply C19_greedy_perm_invariant; [vm_compute; repeat constructor; cbn; intuition discriminate|apply Permutation_rev]. Qed.

Print Assumptions C19_partition.
Print Assumptions C19_chain_iff.
Print Assumptions C19_perm_invariant.
Print Assumptions C19_numbering.
Print Assumptions C19_attributes_untouched.
Print Assumptions C19_chord_relation.
Print Assumptions C19_greedy_partition.
Print Assumptions C19_greedy_groups_connected.
Print Assumptions C19_greedy_perm_invariant.
Print Assumptions C19_greedy_numbering.
Print Assumptions C19_resize_id.
Print Assumptions C19_resize_mono.
Print Assumptions C19_eps_chord.
