(* C08 (extension) - MIMAS.combine_regions / intersect_regions are set algebra on sky pixels, in the documented order.
   Only statements and `exact <lemma>`; the lemmas live in Proofs/CombineProofs.v (on top of Proofs/RegionProofs.v); the order of
   the stages, the depths of the fresh regions, the renorm flag, the insertion depth of shapes, the galactic branches and the
   skeleton of intersect_regions are regenerated from MIMAS.py / regions.py / CLI/MIMAS.py into Gen/Combine.v on every run.

   container (Model/CombineModel.v) = the Dummy / argparse object AFTER Region.load and healpy have answered:
   operand regions, and for every circle / polygon the pixel list healpy returns (`plain`: coordinates as FK5, `conv`: after
   galactic2fk5).  wf c = maxdepth >= 1, +r regions valid (any depth), -r regions valid with coherent cache, shape pixels valid
   for depth maxdepth. *)
From Coq Require Import ZArith Bool List.
From Aegean Require Import Gen.Regions Gen.Combine Model.RegionModel Model.RegionSpec Model.CombineModel
  Proofs.RegionProofs Proofs.CombineProofs.
Import ListNotations.
Open Scope Z_scope.

(* combine_regions raises (AssertionError, model: None) exactly when a subtracted region file has another depth than the
   container; region files that are ADDED may have any depth *)
Theorem C08x_combine_raises : forall c, wf c ->
  (combine c = None <-> exists r, In r (rem_region c) /\ depth r <> maxdepth c).
Proof. exact combine_raises. Qed.

(* otherwise the pixel set of the result is exactly
     ((((regions_added \ regions_removed) U circles_added) \ circles_removed) U polygons_added) \ polygons_removed
   (combine_spec, Model/CombineModel.v) - the documented order, left to right; obtained from C08_refines_history
   (history_refines) applied to the generated list of operations *)
Theorem C08x_combine_refines : forall c s, wf c -> combine c = Some s ->
  forall q, absP s q <-> combine_spec c q.
Proof. exact combine_refines. Qed.

(* every operation that combine_regions issues renormalises (union is called with renorm = True - a generated constant -,
   without on equal depths, add_circles / add_poly always), so the result is always in normal form: valid pixel ids, no
   patch of sky stored twice, nothing left to merge; the empty container gives the empty region *)
Theorem C08x_combine_normal_form : forall c s, wf c -> combine c = Some s ->
  Forall (fun o => renormalises (maxdepth c) o = true) (combine_ops c) /\
  Inv s /\ depth s = maxdepth c /\ no_overlap s /\ no_mergeable s.
Proof. exact combine_normal_form. Qed.

(* the healpy queries behind a shape are nested-scheme queries at nside 2^depth, and circles are converted from galactic
   coordinates when the container says so (polygons are NOT: Refuted/C08x_galactic_polygons.v) *)
Theorem C08x_shape_queries : circle_query_nest = true /\ poly_query_nest = true /\
  (forall d, circle_nside d = 2 ^ d) /\ (forall d, poly_nside d = 2 ^ d).
Proof. exact shape_queries. Qed.
Theorem C08x_galactic_circles : galactic_incl_circles = true /\ galactic_excl_circles = true.
Proof. exact galactic_circles_eq. Qed.

(* the command line: -depth defaults to 8 (as the help text and Dummy say), `--intersect` with exactly one file is refused, and a
   +r / -r option loads the FIRST file name it was given *)
Theorem C08x_cli_defaults :
  cli_default_depth = 8 /\ cli_intersect_single = 1 /\ add_region_file_index = 0 /\ rem_region_file_index = 0.
Proof. exact cli_defaults. Qed.

(* intersect_regions: fewer than two files -> Exception; a later file of another depth than the first -> AssertionError;
   equal depths -> the intersection of the pixel sets, in normal form *)
Theorem C08x_intersect_too_few : forall fl, (length fl < 2)%nat -> intersect_regions fl = ITooFew.
Proof. exact intersect_too_few. Qed.

Theorem C08x_intersect_raises : forall a rest, rest <> [] -> Inv a -> Forall Inv rest ->
  (intersect_regions (a :: rest) = IDepth <-> exists r, In r rest /\ depth r <> depth a).
Proof. exact intersect_raises. Qed.

Theorem C08x_intersect_refines : forall a rest D, rest <> [] -> Inv a -> Forall Inv rest ->
  depth a = D -> (forall r, In r rest -> depth r = D) ->
  exists s, intersect_regions (a :: rest) = IOk s /\
    (forall q, absP s q <-> forall r, In r (a :: rest) -> absP r q) /\
    Inv s /\ depth s = D /\ no_overlap s /\ no_mergeable s.
Proof. exact intersect_refines. Qed.

(* ---- the order is part of the statement: the same container with stages 3 and 4 (add circles / subtract circles) swapped
   gives another region *)
Definition C08x_order_container : container :=
  mkContainer 3 false [] [] [mkShape [5; 6] []] [mkShape [5] []] [] [].

Theorem C08x_combine_order_matters :
  option_map region_obs (combine C08x_order_container) = Some ([[]; []; [6]], [6]) /\
  option_map region_obs (combine_order [1; 2; 4; 3; 5; 6] C08x_order_container) = Some ([[]; []; [5; 6]], [5; 6]).
Proof. split; vm_compute; reflexivity. Qed.

(* ... and with union(renorm=False) the add-regions stage would leave sky stored twice: the normal-form theorem really uses the
   generated renorm flag *)
Example C08x_union_without_renorm_overlaps :
  cells (run (init 3) [Union (mkRegion 3 [(2, 0)] false) false; Union (mkRegion 3 [(3, 1)] false) false])
  = [(3, 1); (2, 0)].
Proof. vm_compute; reflexivity. Qed.

(* ---- non-vacuity: a container with every stage populated, a finer (+r at depth 5) and a coarser cell, galactic = true *)
Definition C08x_example : container :=
  mkContainer 3 true
    [mkRegion 3 [(3, 0); (3, 1); (3, 2); (3, 3); (2, 5)] false; mkRegion 5 [(5, 1300); (1, 11)] false]
    [mkRegion 3 [(3, 1); (2, 44)] false]
    [mkShape [8; 9; 10; 11] [12; 13]] [mkShape [9] [13; 20]]
    [mkShape [40; 41] [7]] [mkShape [41; 21] [40]].

(* circles use the converted answers (12, 13 added; 13, 20 removed), polygons the plain ones (40, 41 added; 41, 21 removed);
   176..179 = cell (2,44) removed from 176..191 = cell (1,11); 180..191 merged to (2,45) (2,46) (2,47) *)
Example C08x_example_result :
  option_map cells (combine C08x_example) =
  Some [(2, 45); (2, 46); (2, 47); (3, 40); (3, 22); (3, 23); (3, 12); (3, 0); (3, 2); (3, 3); (3, 81)].
Proof. vm_compute; reflexivity. Qed.

Example C08x_example_wf : wf C08x_example.
Proof.
  unfold wf, C08x_example, Inv, valid, cache_ok, shape_ok, pix_ok, vcell;
    cbn [maxdepth add_region rem_region include_circles exclude_circles include_polygons exclude_polygons depth cells cached
         plain conv fst snd].
  repeat (apply Forall_cons || apply Forall_nil || split); try (vm_compute; congruence); try discriminate.
Qed.

(* the theorems apply to it: pixel 22 (from cell (2,5), not removed) is in, pixel 21 (removed by the polygon) is out *)
Example C08x_example_refines : exists s, combine C08x_example = Some s /\
  (forall q, absP s q <-> combine_spec C08x_example q) /\ no_overlap s /\ no_mergeable s.
Proof.
  destruct (combine C08x_example) as [s|] eqn:E; [|vm_compute in E; discriminate E].
  exists s. split; [reflexivity|]. split; [exact (C08x_combine_refines _ _ C08x_example_wf E)|].
  exact (proj2 (proj2 (proj2 (C08x_combine_normal_form _ _ C08x_example_wf E)))).
Qed.

(* a depth-2 region file given to -r at depth 3: AssertionError *)
Example C08x_example_raises :
  combine (mkContainer 3 false [mkRegion 2 [(2, 1)] false] [mkRegion 2 [(2, 1)] false] [] [] [] []) = None.
Proof. vm_compute; reflexivity. Qed.

Example C08x_intersect_example :
  intersect_obs [mkRegion 3 [(2, 0); (3, 77)] false; mkRegion 3 [(3, 1); (3, 2); (3, 77)] false; mkRegion 3 [(2, 0); (2, 19)] false]
  = (0, ([[]; []; [1; 2; 77]], [1; 2; 77])) /\
  intersect_obs [mkRegion 3 [(2, 0)] false; mkRegion 2 [(2, 0)] false] = (2, ([], [])) /\
  intersect_obs [mkRegion 3 [(2, 0)] false] = (1, ([], [])) /\ intersect_obs [] = (1, ([], [])).
Proof. repeat split; vm_compute; reflexivity. Qed.

Print Assumptions C08x_combine_raises.
Print Assumptions C08x_combine_refines.
Print Assumptions C08x_combine_normal_form.
Print Assumptions C08x_shape_queries.
Print Assumptions C08x_galactic_circles.
Print Assumptions C08x_cli_defaults.
Print Assumptions C08x_intersect_too_few.
Print Assumptions C08x_intersect_raises.
Print Assumptions C08x_intersect_refines.
Print Assumptions C08x_combine_order_matters.
Print Assumptions C08x_example_refines.
