(* C12 - Region exports (MOC FITS, DS9 reg, .mim) describe exactly the region's sky area.
   Only statements and `exact <lemma>`; lemmas live in Proofs/RegionExportProofs.v (and, for the
   histories, Proofs/RegionProofs.v of C08).  The leaves (NUNIQ loop range and code, MOCORDER,
   write_reg level range and healpy.boundaries arguments, column width, keywords) are regenerated from
   regions.py into Gen/Regions.v and Gen/RegionExport.v on every run.  healpy.boundaries and pickle are
   hypotheses of the theorems that mention them (validated against the libraries on every run). *)
From Coq Require Import ZArith Bool List Permutation.
From Aegean Require Import Gen.Regions Gen.RegionExport Model.RegionModel Model.RegionSpec
  Model.RegionExport Proofs.RegionProofs Proofs.RegionExportProofs.
Import ListNotations.
Open Scope Z_scope.

(* ---- the NUNIQ codec: decoding (order = floor(log4(u/4)), pixel = u - 4*4^order) inverts the
   generated code 4^(d+1) + p for every valid pixel of every level *)
Theorem C12_ununiq_uniq : forall d p, 0 <= d -> 0 <= p < 12 * 4 ^ d -> ununiq (uniq_code d p) = (d, p).
Proof. exact ununiq_uniq. Qed.

Theorem C12_uniq_inj : forall d1 p1 d2 p2,
  0 <= d1 -> 0 <= p1 < 12 * 4 ^ d1 -> 0 <= d2 -> 0 <= p2 < 12 * 4 ^ d2 ->
  uniq_code d1 p1 = uniq_code d2 p2 -> d1 = d2 /\ p1 = p2.
Proof. exact uniq_inj. Qed.

(* ---- the exported list: every stored cell of every level 1..depth (the deepest included) is
   exported, nothing else, nothing twice *)
Theorem C12_uniq_complete : forall s u, valid s ->
  (In u (uniq s) <-> exists c, In c (cells s) /\ u = uniq_code (fst c) (snd c)).
Proof. exact uniq_complete. Qed.

Theorem C12_uniq_nodup : forall s, valid s -> NoDup (uniq s).
Proof. exact uniq_nodup. Qed.

Theorem C12_decode_is_cells : forall s c, valid s -> (In c (map ununiq (uniq s)) <-> In c (cells s)).
Proof. exact decode_is_cells. Qed.

(* ---- the stated order: MOCORDER = region depth, and every decoded cell has a level within
   1..MOCORDER and a valid pixel number for its level *)
Theorem C12_order : forall s, moc_order (write_fits s) = depth s /\ mocorder (depth s) = depth s.
Proof. exact moc_order_is_depth. Qed.

Theorem C12_decoded_levels : forall s u, valid s -> In u (uniq s) ->
  1 <= fst (ununiq u) <= mocorder (depth s) /\ 0 <= snd (ununiq u) < 12 * 4 ^ fst (ununiq u).
Proof. exact decoded_levels. Qed.

Theorem C12_keywords : forall s,
  moc_nuniq (write_fits s) = true /\ moc_healpix (write_fits s) = true /\ moc_icrs (write_fits s) = true.
Proof. exact moc_keywords. Qed.

(* the codes fit the (signed) integer column for every depth HEALPix supports *)
Theorem C12_fits_column : forall s, valid s -> depth s <= 29 ->
  Forall (fun u => 0 < u < 2 ^ (fits_column_bits - 1)) (uniq s).
Proof. exact uniq_fits_column. Qed.

(* ---- decoding the NUNIQ list yields exactly the region's pixel set (absP and cover are the
   specification of C08: the set of deepest-level pixels the region stands for) *)
Theorem C12_moc_is_region : forall s, valid s ->
  forall q, absP s q <-> exists u, In u (uniq s) /\ cover (depth s) (ununiq u) q.
Proof. exact moc_is_region. Qed.

(* the same for the executable reader: decode every value, expand to pixels of order MOCORDER *)
Theorem C12_moc_pixels : forall s, valid s -> forall q, In q (moc_pixels (write_fits s)) <-> absP s q.
Proof. exact moc_pixels_is_region. Qed.

(* ---- whatever operations or queries preceded the export: for every history of well-formed
   operations (queries that demote the representation included) the file states the depth, and its
   decoded content is the set-algebra fold of the operations *)
Theorem C12_moc_after_history : forall D ops, 1 <= D -> Forall (op_ok D) ops ->
  let s := run (init D) ops in
  moc_order (write_fits s) = D /\
  (forall q, (exists u, In u (moc_npix (write_fits s)) /\ cover (moc_order (write_fits s)) (ununiq u) q)
             <-> fold_left (spec_step D) ops (fun _ => False) q) /\
  (forall q, In q (moc_pixels (write_fits s)) <-> fold_left (spec_step D) ops (fun _ => False) q).
Proof. exact moc_after_history. Qed.

Theorem C12_export_after_query : forall s o, Inv s ->
  match o with Within _ | GetDemoted | GetArea | Uniq | SaveLoad => True | _ => False end ->
  forall q, In q (moc_pixels (write_fits (fst (step s o)))) <-> In q (moc_pixels (write_fits s)).
Proof. exact export_after_query. Qed.

(* ---- DS9 export: one polygon per distinct stored cell (each exactly once, all levels 1..depth) *)
Theorem C12_reg_cells : forall s, valid s ->
  NoDup (reg_cells s) /\ (forall c, In c (reg_cells s) <-> In c (cells s)) /\
  Permutation (reg_cells s) (nodup cell_eq_dec (cells s)).
Proof. exact reg_cells_exact. Qed.

Theorem C12_reg_count : forall (vertex : Type) (boundaries : Z -> Z -> Z -> bool -> list vertex) s, valid s ->
  length (write_reg vertex boundaries s) = length (nodup cell_eq_dec (cells s)).
Proof. exact reg_count. Qed.

(* healpy is asked for exactly (nside = 2^level, pixel, step = 1, nested) of each stored cell ... *)
Theorem C12_reg_requests : forall s,
  reg_requests s = map (fun c => (2 ^ fst c, snd c, 1, true)) (reg_cells s).
Proof. exact reg_requests_exact. Qed.

(* ... so, given that healpy.boundaries(2^d, p, step=1, nest=True) are the corners of cell (d, p), the
   vertices of each polygon are that pixel's corners *)
Theorem C12_reg_polygons : forall (vertex : Type) (boundaries : Z -> Z -> Z -> bool -> list vertex)
  (corners : cell -> list vertex),
  (forall d p, 1 <= d -> 0 <= p < 12 * 4 ^ d -> boundaries (2 ^ d) p 1 true = corners (d, p)) ->
  forall s, valid s -> write_reg vertex boundaries s = map corners (reg_cells s).
Proof. exact reg_polygons_are_corners. Qed.

Theorem C12_reg_ra_in_hours : 360 = 24 * reg_ra_divisor.
Proof. exact reg_ra_in_hours. Qed.

(* ---- .mim: save then load reproduces the region exactly (state, all later answers, and the
   MIMAS conversions mim2fits / mim2reg of the file), given that pickle round-trips the object *)
Theorem C12_saveload : forall (blob : Type) (dump : region -> blob) (load : blob -> region),
  (forall s, load (dump s) = s) ->
  forall s,
    load_mim blob load (save_mim blob dump s) = s /\
    (forall ops, trace (load_mim blob load (save_mim blob dump s)) ops = trace s ops) /\
    mim2fits blob load (save_mim blob dump s) = write_fits s /\
    mim2reg blob load (save_mim blob dump s) = reg_cells s.
Proof. exact saveload_id. Qed.

Theorem C12_saveload_step : forall s, step s SaveLoad = (s, OUnit).
Proof. exact saveload_step. Qed.

(* ---- non-vacuity.  A multi-level history at depth 3: pixels 0..3 and 21 of level 3 (0..3 merge into
   (2,0)), a raw add_pixels of cell (1,5), then a membership query that demotes everything to level 3. *)
Definition C12_ops_before : list op := [AddShape 3 [0; 1; 2; 3; 21]; AddPixels 1 [5]].
Definition C12_ops_after : list op := C12_ops_before ++ [Within [21; 16; 5]].

(* before the query: three levels in use, the deepest (level 3, code 4^4 + 21 = 277) included *)
Example C12_example_before :
  uniq (run (init 3) C12_ops_before) = [21; 64; 277] /\
  map ununiq (uniq (run (init 3) C12_ops_before)) = [(1, 5); (2, 0); (3, 21)] /\
  reg_cells (run (init 3) C12_ops_before) = [(1, 5); (2, 0); (3, 21)] /\
  reg_requests (run (init 3) C12_ops_before) = [(2, 5, 1, true); (4, 0, 1, true); (8, 21, 1, true)].
Proof. vm_compute. repeat split. Qed.

(* after the query everything is stored at level 3: 16 + 4 + 1 codes, all >= 256; the file is NOT
   empty and decodes to the same 21 pixels *)
Example C12_example_after :
  length (uniq (run (init 3) C12_ops_after)) = 21%nat /\
  Forall (fun u => fst (ununiq u) = 3) (uniq (run (init 3) C12_ops_after)) /\
  (forall q, In q (moc_pixels (write_fits (run (init 3) C12_ops_after))) <->
             In q (moc_pixels (write_fits (run (init 3) C12_ops_before)))) /\
  length (nodup Z.eq_dec (moc_pixels (write_fits (run (init 3) C12_ops_before)))) = 21%nat.
Proof.
  split; [vm_compute; reflexivity|]. split.
  - apply Forall_forall. intros u Hu. vm_compute in Hu.
    repeat (destruct Hu as [Hu|Hu]; [subst u; vm_compute; reflexivity|]). contradiction.
  - split; [|vm_compute; reflexivity].
    assert (Hok : Forall (op_ok 3) C12_ops_before).
    { unfold C12_ops_before, op_ok. repeat (apply Forall_cons || apply Forall_nil || split); vm_compute; congruence. }
    destruct (reachable_inv 3 C12_ops_before ltac:(vm_compute; congruence) Hok) as [HI _].
    unfold C12_ops_after, run. rewrite fold_left_app. cbn [fold_left].
    exact (C12_export_after_query _ (Within [21; 16; 5]) HI I).
Qed.

(* the hypotheses of the history theorem hold for this history *)
Example C12_example_ops_ok : Forall (op_ok 3) C12_ops_after.
Proof.
  unfold C12_ops_after, C12_ops_before, op_ok. cbn [app].
  repeat (apply Forall_cons || apply Forall_nil || split); vm_compute; congruence.
Qed.

(* codec corner cases: first and last pixel of levels 1 and 29 *)
Example C12_example_codec :
  map ununiq [16; 63; 64; 255; 4 ^ 30; 4 ^ 30 + 12 * 4 ^ 29 - 1] =
  [(1, 0); (1, 47); (2, 0); (2, 191); (29, 0); (29, 12 * 4 ^ 29 - 1)].
Proof. vm_compute. reflexivity. Qed.

(* whole sky at depth 2 after a query: 192 codes, every pixel of level 2 *)
Example C12_example_whole_sky :
  let s := run (init 2) [AddPixels 1 (zrange 0 48); GetDemoted] in
  length (uniq s) = 192%nat /\ moc_order (write_fits s) = 2 /\
  nodup Z.eq_dec (moc_pixels (write_fits s)) = moc_pixels (write_fits s) /\
  length (moc_pixels (write_fits s)) = 192%nat.
Proof. vm_compute. repeat split. Qed.

Print Assumptions C12_ununiq_uniq.
Print Assumptions C12_uniq_inj.
Print Assumptions C12_uniq_complete.
Print Assumptions C12_uniq_nodup.
Print Assumptions C12_decode_is_cells.
Print Assumptions C12_order.
Print Assumptions C12_decoded_levels.
Print Assumptions C12_keywords.
Print Assumptions C12_fits_column.
Print Assumptions C12_moc_is_region.
Print Assumptions C12_moc_pixels.
Print Assumptions C12_moc_after_history.
Print Assumptions C12_export_after_query.
Print Assumptions C12_reg_cells.
Print Assumptions C12_reg_count.
Print Assumptions C12_reg_requests.
Print Assumptions C12_reg_polygons.
Print Assumptions C12_reg_ra_in_hours.
Print Assumptions C12_saveload.
Print Assumptions C12_saveload_step.
Print Assumptions C12_example_after.
