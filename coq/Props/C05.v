(* C05 - Priorized fitting measures the catalogued sources where and as catalogued.
   Statements only; proofs in Proofs/PriorizedProofs.v (leaf lemmas in Proofs/PriorizedLeaves.v); the
   arithmetic leaves in Gen/Priorized.v are regenerated from source_finder._refit_islands /
   result_to_components / flags.py on every run; the skeleton is Model/Priorized.v.

   Outside the theorems (Section variables, hypotheses validated against the real libraries on every
   run): the WCS (S sky->pixel, P pixel->sky, SE / PE for ellipses), the FWHM<->sigma constants
   (kf * kc == 1), the pixel beam BM and the optimiser `fit`.  Recovery of fluxes / positions / shapes
   from a noise-free image is the optimiser's behaviour: validated by real runs, not proved. *)
From Coq Require Import ZArith QArith Bool List.
From Aegean Require Import Lib.QPy Gen.Priorized Model.Priorized Proofs.PriorizedLeaves Proofs.PriorizedProofs.
Import ListNotations.
Open Scope Q_scope.

(* stage 1 frees the amplitude only, stage 2 adds the position, stage 3 adds the shape; and the input
   uncertainties are kept exactly for the parameter groups that are not freed *)
Theorem C05_vary_table :
  vary_table 1 = [true; false; false; false; false; false] /\
  vary_table 2 = [true; true; true; false; false; false] /\
  vary_table 3 = [true; true; true; true; true; true] /\
  forall st,
    vary_amp st = true /\
    (vary_xo st = true <-> (2 <= st)%Z) /\ (vary_yo st = true <-> (2 <= st)%Z) /\
    (vary_sx st = true <-> (3 <= st)%Z) /\ (vary_sy st = true <-> (3 <= st)%Z) /\ (vary_theta st = true <-> (3 <= st)%Z) /\
    copy_pos_err st = negb (vary_xo st && vary_yo st) /\
    copy_shape_err st = negb (vary_sx st && vary_sy st && vary_theta st).
Proof. exact vary_table_spec. Qed.

(* a source is accepted iff its nearest pixel is on the image and finite in the data and in the rms map *)
Theorem C05_accept_rule : forall S SE BM kf im s,
  let p := place S SE BM kf s in
  accepted im p = ((0 <=? zx p)%Z && (zx p <? rows im)%Z && ((0 <=? zy p)%Z && (zy p <? cols im)%Z)
                   && finite_at (data_blank im) (zx p) (zy p) && finite_at (rms_blank im) (zx p) (zy p)) /\
  p_x p = inject_Z (round_half_even (p_px p)) /\ p_y p = inject_Z (round_half_even (p_py p)).
Proof.
  intros S SE BM kf im s p. split; [exact (accepted_spec im p (place_wf S SE BM kf s))|].
  split; [exact (nearest_x_spec (p_px p))|exact (nearest_y_spec (p_py p))].
Qed.

(* the cut-out of an island is a whole-pixel box inside the image, it contains the nearest pixel of
   every accepted source, and the offset subtracted from xo / yo (and their limits) is exactly the index
   at which the data cut-out starts - for every width parity and every clipping at the image edge *)
Theorem C05_cutout_registered : forall S SE BM kf im isle fi,
  (forall s, In s isle -> 0 <= p_sx (place S SE BM kf s)) ->
  refit_input S SE BM kf im isle = Some fi ->
  exists xlo xhi ylo yhi : Z,
    fi_box fi = mkBox (inject_Z xlo) (inject_Z xhi) (inject_Z ylo) (inject_Z yhi) /\
    fi_slice fi = (inject_Z xlo, inject_Z xhi, inject_Z ylo, inject_Z yhi) /\
    box_shift_x (fi_box fi) = inject_Z xlo /\ box_shift_y (fi_box fi) = inject_Z ylo /\
    (0 <= xlo < xhi /\ xhi <= rows im /\ 0 <= ylo < yhi /\ yhi <= cols im)%Z /\
    forall p, In p (included S SE BM kf im isle) ->
      (xlo <= zx p < xhi /\ ylo <= zy p < yhi)%Z /\
      c_xo (comp_params kf (fi_box fi) p) + inject_Z xlo == p_px p /\
      c_yo (comp_params kf (fi_box fi) p) + inject_Z ylo == p_py p /\
      c_xo_lo (comp_params kf (fi_box fi) p) + inject_Z xlo == xo_lower (p_px p) (p_sx p) /\
      c_xo_hi (comp_params kf (fi_box fi) p) + inject_Z xlo == xo_upper (p_px p) (p_sx p) /\
      c_yo_lo (comp_params kf (fi_box fi) p) + inject_Z ylo == yo_lower (p_py p) (p_sy p) /\
      c_yo_hi (comp_params kf (fi_box fi) p) + inject_Z ylo == yo_upper (p_py p) (p_sy p).
Proof. exact cutout_registered. Qed.

(* outputs are an order-preserving sub-sequence of the accepted inputs (which are one of the inputs),
   carry their uuid and the PRIORIZED bit (2^6); distinct input uuids give distinct output uuids *)
Theorem C05_at_most_one : forall S P SE PE BM kf kc fit im st islands,
  subseq (map o_uuid (run S P SE PE BM kf kc fit im st islands)) (map s_uuid (accepted_inputs S SE BM kf im islands)) /\
  subseq (map s_uuid (accepted_inputs S SE BM kf im islands)) (map s_uuid (concat islands)) /\
  (forall c, In c (run S P SE PE BM kf kc fit im st islands) -> Z.testbit (o_flags c) 6 = true) /\
  (NoDup (map s_uuid (concat islands)) -> NoDup (map o_uuid (run S P SE PE BM kf kc fit im st islands))).
Proof. exact at_most_one. Qed.

(* ... and exactly the accepted inputs when the optimiser returns every component it was given *)
Theorem C05_all_returned : forall S P SE PE BM kf kc fit im st islands,
  (forall fi, exists fs, fit st fi = Some fs /\ length fs = length (fi_pars fi)) ->
  map o_uuid (run S P SE PE BM kf kc fit im st islands) = map s_uuid (accepted_inputs S SE BM kf im islands).
Proof. exact all_returned. Qed.

(* uncertainties of the parameter groups that are not freed are the input ones, passed through copied_err (and FIXED2PSF, 2^2,
   is set at stage 1) *)
Theorem C05_errors_copied : forall S P SE PE BM kf kc fit im st islands c,
  In c (run S P SE PE BM kf kc fit im st islands) ->
  exists s, In s (accepted_inputs S SE BM kf im islands) /\ o_uuid c = s_uuid s /\
    ((st < 2)%Z -> o_err_ra c = copied_err (s_err_ra s) /\ o_err_dec c = copied_err (s_err_dec s) /\ Z.testbit (o_flags c) 2 = true) /\
    ((st < 3)%Z -> o_err_a c = copied_err (s_err_a s) /\ o_err_b c = copied_err (s_err_b s) /\ o_err_pa c = copied_err (s_err_pa s)).
Proof. exact errors_copied. Qed.
(* copied_err (generated from source_finder._known_error since /repo f7c2d89) hands on every input uncertainty that IS one -
   positive, or the catalogue's -1 = unknown - exactly as it is.  (What happens to values that are no uncertainties - 0,
   negative, NaN / inf in the float code - belongs to C03: C03_copied_errors_masked.  This lemma is proved for both shapes
   of the copy, so a tree with the plain copy does not disturb C05.) *)
Theorem C05_input_uncertainty_kept : forall e, 0 < e \/ e = -(1 # 1) -> copied_err e = e.
Proof. exact copied_err_keeps. Qed.

(* parameters that are not freed come back equal to the input values.
   Position (stage 1): given pix2sky inverts sky2pix.  Shape (stages 1-2): given that the ellipse conversion
   at the returned pixel position inverts the one at the catalogue position (at stage 1 that position IS the
   catalogue position, first conjunct, so wcs_ell_inverts gives it: C05_stage1_ellipse), for normalised input
   shapes (a >= b, -90 < pa <= 90) of non-negative pixel size.  No condition on the shape limits any more:
   C05_shape_never_clipped shows from the generated s_lims leaf that they always contain the catalogue shape
   (for the leaf before /repo 318103b they did not: Refuted/C05_shape_clipped.v). *)
Theorem C05_fixed_roundtrip : forall S P SE PE BM kf kc fit im,
  wcs_inverts S P -> kf * kc == 1 -> fit_keeps_fixed fit ->
  forall st islands c, In c (run S P SE PE BM kf kc fit im st islands) ->
  exists s, In s (accepted_inputs S SE BM kf im islands) /\ o_uuid c = s_uuid s /\
    ((st < 2)%Z -> peq (o_xpix c, o_ypix c) (S (s_ra s, s_dec s)) /\
                   (0 <= s_ra s -> o_ra c == s_ra s /\ o_dec c == s_dec s)) /\
    ((st < 3)%Z -> 0 <= p_sx (place S SE BM kf s) -> 0 <= p_sy (place S SE BM kf s) ->
       s_b s <= s_a s -> -(90 # 1) < s_pa s -> s_pa s <= (90 # 1) ->
       ell_inverts_at SE PE (s_ra s, s_dec s) (o_xpix c, o_ypix c) ->
       o_a c == s_a s /\ o_b c == s_b s /\ o_pa c == s_pa s).
Proof. exact fixed_roundtrip. Qed.

(* the limits put on sx / sy contain the catalogue values, so adding the parameters never moves them *)
Theorem C05_shape_never_clipped : forall kf p, 0 <= p_sx p -> 0 <= p_sy p ->
  shape_unclipped kf p = true /\
  forall b, c_sx (comp_params kf b p) = p_sx p /\ c_sy (comp_params kf b p) = p_sy p.
Proof.
  intros kf p Hx Hy. split; [exact (shape_unclipped_true kf p Hx Hy)|].
  intro b. destruct (shape_limits_spec (p_sx p) (p_sy p) (p_beam_a p) (p_beam_b p) kf Hx Hy) as (L1 & L2 & L3 & L4).
  split; [exact (clip_inside _ _ _ L1 L2)|exact (clip_inside _ _ _ L3 L4)].
Qed.

(* a position that cannot be projected never reaches the rounding: the guard is present in the source *)
Theorem C05_unprojectable_skipped : skips_unprojectable = true.
Proof. exact skips_unprojectable_spec. Qed.

Theorem C05_stage1_ellipse : forall (S : Q * Q -> Q * Q) SE PE sky p,
  wcs_ell_inverts S SE PE -> peq p (S sky) -> ell_inverts_at SE PE sky p.
Proof. exact stage1_ell. Qed.

(* a rejected source changes nothing: the island's cut-out, parameters and included list are those of the
   island without it; so are the outputs of the whole run when it is not the last source listed in its
   island (result_to_components receives the flags of the last listed source, accepted or not) *)
Theorem C05_skip_independent : forall S P SE PE BM kf kc fit im st I1 I2 l1 r l2,
  accepted im (place S SE BM kf r) = false ->
  refit_input S SE BM kf im (l1 ++ r :: l2) = refit_input S SE BM kf im (l1 ++ l2) /\
  (isle_flags (l1 ++ r :: l2) = isle_flags (l1 ++ l2) ->
   run S P SE PE BM kf kc fit im st (I1 ++ (l1 ++ r :: l2) :: I2) = run S P SE PE BM kf kc fit im st (I1 ++ (l1 ++ l2) :: I2)) /\
  (l2 <> [] -> isle_flags (l1 ++ r :: l2) = isle_flags (l1 ++ l2)).
Proof.
  intros S P SE PE BM kf kc fit im st I1 I2 l1 r l2 H. split; [exact (refit_input_skip S SE BM kf im l1 r l2 H)|].
  split; [exact (run_skip S P SE PE BM kf kc fit im st I1 I2 l1 r l2 H)|exact (isle_flags_skip l1 r l2)].
Qed.

(* ---------- non-vacuity: a 40 x 50 image with a blank pixel, an affine WCS, three sources ----------
   s0 (uuid 7) and s1 (uuid 8) blend in one island; s2 (uuid 9) sits on the blank pixel (3,3) *)
Definition ex_S := aff_S (21 # 1) (26 # 1) (256 # 1) (256 # 1) (150 # 1) (-30 # 1).
Definition ex_P := aff_P (21 # 1) (26 # 1) (256 # 1) (256 # 1) (150 # 1) (-30 # 1).
Definition ex_SE := aff_SE (256 # 1) (256 # 1) 0.
Definition ex_PE := aff_PE (256 # 1) (256 # 1) 0.
Definition ex_BM := fun _ : Q * Q => ((4 # 1), (4 # 1)).
Definition ex_im := mkImage 40 50 [(3, 3)%Z] [].
Definition ex_s0 := mkSrc 7 (150 # 1) (-30 # 1) (1 # 1) (3600 * 3 # 128) (3600 * 2 # 128) (30 # 1) (1 # 8) (2 # 8) (3 # 8) (4 # 8) (5 # 8) 0.
Definition ex_s1 := mkSrc 8 ((150 # 1) - (5 # 256)) ((-30 # 1) + (3 # 256)) (2 # 1) (3600 * 5 # 256) (3600 * 2 # 128) (10 # 1)
                          (1 # 8) (2 # 8) (3 # 8) (4 # 8) (5 # 8) 0.
Definition ex_s2 := mkSrc 9 ((150 # 1) + (22 # 256)) ((-30 # 1) - (17 # 256)) (1 # 1) (3600 * 3 # 128) (3600 * 2 # 128) (0 # 1)
                          (1 # 8) (2 # 8) (3 # 8) (4 # 8) (5 # 8) 0.
Definition ex_run st := run ex_S ex_P ex_SE ex_PE ex_BM (1 # 2) (2 # 1) fit_id ex_im st [[ex_s0; ex_s2; ex_s1]].

Example C05_example_outputs : map o_uuid (ex_run 1) = [7; 8]%Z /\ map o_flags (ex_run 1) = [68; 68]%Z /\ map o_flags (ex_run 3) = [64; 64]%Z.
Proof. vm_compute. repeat split; reflexivity. Qed.

Example C05_example_cutout :
  option_map (fun fi => (obs_box (fi_box fi), map s_uuid (fi_incl fi))) (refit_input ex_S ex_SE ex_BM (1 # 2) ex_im [ex_s0; ex_s2; ex_s1])
  = Some ([(14, 1); (29, 1); (19, 1); (36, 1)]%Z, [7; 8]%Z).
Proof. vm_compute. reflexivity. Qed.

Example C05_example_rejected : accepted ex_im (place ex_S ex_SE ex_BM (1 # 2) ex_s2) = false /\
  accepted ex_im (place ex_S ex_SE ex_BM (1 # 2) ex_s0) = true.
Proof. vm_compute. split; reflexivity. Qed.

Example C05_example_roundtrip :
  map (fun c => (qout (o_ra c), qout (o_dec c), qout (o_a c), qout (o_b c), qout (o_pa c), qout (o_err_ra c))) (ex_run 1) =
  map (fun s => (qout (s_ra s), qout (s_dec s), qout (s_a s), qout (s_b s), qout (s_pa s), qout (s_err_ra s))) [ex_s0; ex_s1].
Proof. vm_compute. reflexivity. Qed.

Example C05_example_hypotheses : wcs_inverts ex_S ex_P /\ fit_keeps_fixed fit_id.
Proof.
  split.
  - intros [ra dec] [x y] [H1 H2]. unfold peq, ex_S, ex_P, aff_S, aff_P in *. cbn [fst snd] in *. rewrite H1, H2. split; field.
  - intros st fi fs H. unfold fit_id in H. inversion H; subst; clear H.
    induction (fi_pars fi) as [|c l IH]; cbn [map]; constructor; [|exact IH].
    unfold keeps. cbn [f_par]. repeat split; intros _; reflexivity.
Qed.

Print Assumptions C05_vary_table.
Print Assumptions C05_accept_rule.
Print Assumptions C05_cutout_registered.
Print Assumptions C05_at_most_one.
Print Assumptions C05_all_returned.
Print Assumptions C05_errors_copied.
Print Assumptions C05_fixed_roundtrip.
Print Assumptions C05_shape_never_clipped.
Print Assumptions C05_unprojectable_skipped.
Print Assumptions C05_stage1_ellipse.
Print Assumptions C05_skip_independent.
