(* C03 (extension) - the ORDER of the rows of a catalogue.

   C03: "Re-running on identical input yields an identical catalogue apart from uuids" and "(island, source) pairs ... are
   unique".  Priorized fitting fits its island groups in batches and returns sorted(sources); island_itergen walks
   sorted(catalog).  Python's sorted() asks only __lt__; for components that is the generated comparison
   Gen.CatOrder.comp_lt on (island, source) (models.ComponentSource.__lt__, re-translated on every run).
   Statements only; proofs in Proofs/CatOrderProofs.v. *)
From Coq Require Import ZArith Bool List Sorting.Permutation Sorting.Sorted.
From Aegean Require Import Gen.CatOrder Model.CatOrder Proofs.CatOrderProofs.
Import ListNotations.
Open Scope Z_scope.

(* __lt__ on components is the strict lexicographic order on (island, source): irreflexive, transitive, total *)
Theorem C03x_component_order_is_lexicographic : forall i1 s1 i2 s2,
  comp_lt i1 s1 i2 s2 = true <-> (i1 < i2 \/ (i1 = i2 /\ s1 < s2)).
Proof. exact comp_lt_spec. Qed.
Theorem C03x_component_order_strict_total : (forall a, klt a a = false) /\
  (forall a b c, klt a b = true -> klt b c = true -> klt a c = true) /\
  (forall a b, klt a b = true \/ a = b \/ klt b a = true).
Proof. exact klt_strict_total. Qed.

(* sorted() of rows with unique (island, source) pairs is a permutation of the rows in strictly ascending order ... *)
Theorem C03x_sorted_is_ascending_permutation : forall l, NoDup l ->
  Permutation l (py_sorted l) /\ StronglySorted (fun a b => klt a b = true) (py_sorted l).
Proof. exact sorted_ascending_perm. Qed.
(* ... and it is THE ascending permutation: any list with these two properties is that list (so the result does not depend on
   the sorting algorithm, as long as it only asks __lt__) *)
Theorem C03x_sorted_is_the_ascending_permutation : forall l s, NoDup l -> Permutation l s ->
  StronglySorted (fun a b => klt a b = true) s -> s = py_sorted l.
Proof. exact ascending_perm_unique. Qed.

(* the catalogue returned by priorized fitting does not depend on the order in which the island groups / batches delivered
   their rows: same rows in any order, same catalogue *)
Theorem C03x_priorized_output_order_independent : forall rows rows', NoDup rows -> Permutation rows rows' ->
  priorized_output rows = priorized_output rows'.
Proof. exact priorized_output_order_independent. Qed.
Theorem C03x_priorized_output_ascending : forall rows, NoDup rows ->
  Permutation rows (priorized_output rows) /\ StronglySorted (fun a b => klt a b = true) (priorized_output rows).
Proof. exact priorized_output_ascending. Qed.

(* island rows are ordered by island number; island_itergen walks the sorted catalogue from its smallest element *)
Theorem C03x_island_order : forall i1 i2, island_lt i1 i2 = (i1 <? i2).
Proof. exact island_lt_char. Qed.
Theorem C03x_itergen_ascending : itergen_ascending = true.
Proof. exact itergen_ascending_char. Qed.

(* non-vacuity: rows delivered batch by batch (islands 20..22, then 0..1), one island with three components *)
Example ex_rows_nodup : NoDup [(21, 0); (20, 1); (20, 0); (22, 0); (1, 0); (0, 2); (0, 0); (0, 1)].
Proof. repeat (constructor; [cbn [In]; intros H; repeat (destruct H as [H|H]; [discriminate H|]); exact H|]). constructor. Qed.
Example ex_sorted : py_sorted [(21, 0); (20, 1); (20, 0); (22, 0); (1, 0); (0, 2); (0, 0); (0, 1)]
  = [(0, 0); (0, 1); (0, 2); (1, 0); (20, 0); (20, 1); (21, 0); (22, 0)].
Proof. vm_compute. reflexivity. Qed.
Example ex_other_delivery_order : priorized_output [(0, 0); (22, 0); (0, 1); (20, 0); (1, 0); (20, 1); (0, 2); (21, 0)]
  = priorized_output [(21, 0); (20, 1); (20, 0); (22, 0); (1, 0); (0, 2); (0, 0); (0, 1)].
Proof. vm_compute. reflexivity. Qed.

Print Assumptions C03x_component_order_is_lexicographic.
Print Assumptions C03x_component_order_strict_total.
Print Assumptions C03x_sorted_is_ascending_permutation.
Print Assumptions C03x_sorted_is_the_ascending_permutation.
Print Assumptions C03x_priorized_output_order_independent.
Print Assumptions C03x_priorized_output_ascending.
