(* C01 - proofs about Model/SmallIsland.v (leaves of Gen/SmallIsland.v are unfolded here only). *)
From Coq Require Import ZArith NArith Bool List Lia.
From Aegean Require Import Gen.SmallIsland Model.SmallIsland.
Import ListNotations.
Open Scope Z_scope.
Local Arguments Z.mul : simpl never.

Ltac si_cases npix mindim :=
  unfold shape_fitted, fit_flags, si_small_flag, si_tiny_dim, si_tiny_masks, si_cannot_fit;
  destruct (Z.leb_spec 4 npix); destruct (Z.leb_spec npix 6); destruct (Z.ltb_spec npix 4); destruct (Z.leb_spec mindim 2);
  try lia; cbn -[Z.mul Z.ltb Z.eqb];
  repeat match goal with |- context [?a <? ?b] => destruct (Z.ltb_spec a b) end;
  repeat match goal with |- context [?a =? ?b] => destruct (Z.eqb_spec a b) end;
  cbn -[Z.mul]; split; intros; try discriminate; try lia; try reflexivity.

(* no flag at all from Aegean's own logic: more than 6 finite pixels, more than 2 pixels across, 6 pixels per component *)
Lemma unflagged_iff : forall npix mindim ncomp, 0 < ncomp ->
  (fit_flags npix mindim ncomp = 0%N <-> (6 < npix /\ 2 < mindim /\ 6 * ncomp <= npix)).
Proof. intros npix mindim ncomp Hn. si_cases npix mindim. Qed.

(* FIXED2PSF (shape fixed to the beam) exactly for islands of at most 6 finite pixels or at most 2 pixels across *)
Lemma fixed2psf_iff : forall npix mindim ncomp,
  si_has (fit_flags npix mindim ncomp) si_FIXED2PSF = false <-> (6 < npix /\ 2 < mindim).
Proof. intros npix mindim ncomp. si_cases npix mindim. Qed.

Lemma shape_fitted_iff : forall npix mindim ncomp, 0 < ncomp ->
  (shape_fitted npix mindim ncomp = true <-> (6 < npix /\ 2 < mindim /\ 6 * ncomp <= npix)).
Proof. intros npix mindim ncomp Hn. si_cases npix mindim. Qed.
