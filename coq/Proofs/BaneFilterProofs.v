(* C06 - proofs about Model/BaneFilter.v.
   Part 1: tabulation is the identity.  Part 2: one characterising lemma per generated leaf (then the leaves are opaque).
   Part 3: a pass commutes with a pixel-wise transformation of the data (used for shift and scale);
   Part 4: a pass preserves a range predicate (bounds, constant image); Part 5: when a pass gives a finite value
   (mask rules).  Part 6: the theorems for arbitrary box statistics over R satisfying explicit hypotheses;
   Part 7: the sigma clipping of the real code satisfies these hypotheses. *)
From Coq Require Import ZArith QArith Reals Lra Lia List Bool Psatz.
From Coq Require Import Qreals.
From Aegean Require Import Gen.BaneSync Gen.BaneFilter Lib.Stats Model.BaneFilter Proofs.StatsProofs Proofs.StatsQR.
Import ListNotations.
Open Scope Z_scope.

(* ------------------------------------------------------------------ Part 1: memo *)
Lemma nth_error_seq_val s m k x : nth_error (seq s m) k = Some x -> x = (s + k)%nat.
Proof.
  revert s k. induction m as [|m IH]; intros s k H; cbn [seq] in H.
  - destruct k; discriminate.
  - destruct k as [|k]; cbn [nth_error] in H.
    + injection H as <-. lia.
    + apply IH in H. lia.
Qed.

Lemma memo1_eq {A} lo n (f : Z -> A) i : memo1 lo n f i = f i.
Proof.
  unfold memo1. destruct ((lo <=? i) && (i <? lo + n)) eqn:E; [|reflexivity].
  destruct (nth_error _ _) as [v|] eqn:N; [|reflexivity].
  apply andb_true_iff in E as [E1 E2]. apply Z.leb_le in E1. apply Z.ltb_lt in E2.
  rewrite nth_error_map in N.
  destruct (nth_error (seq 0 (Z.to_nat n)) (Z.to_nat (i - lo))) as [x|] eqn:S; [|discriminate].
  cbn [option_map] in N. injection N as <-. apply nth_error_seq_val in S. subst x.
  f_equal. rewrite Nat.add_0_l, Z2Nat.id by lia. lia.
Qed.

Lemma memo2_eq {A} rlo rn clo cn (f : Z -> Z -> A) r c : memo2 rlo rn clo cn f r c = f r c.
Proof. unfold memo2. rewrite !memo1_eq. reflexivity. Qed.

Lemma in_zrange a b x : In x (zrange a b) <-> a <= x < b.
Proof.
  unfold zrange. rewrite in_map_iff. split.
  - intros [k [<- Hk]]. apply in_seq in Hk. lia.
  - intros H. exists (Z.to_nat (x - a)). split; [rewrite Z2Nat.id by lia; lia|]. apply in_seq. lia.
Qed.

Lemma zrange_length a b : length (zrange a b) = Z.to_nat (b - a).
Proof. unfold zrange. rewrite map_length, seq_length. reflexivity. Qed.

(* ------------------------------------------------------------------ Part 2: leaves *)
Lemma box_r_min_spec r b n : box_r_min r b n = Z.max 0 (r - b / 2).   Proof. reflexivity. Qed.
Lemma box_r_max_spec r b n : box_r_max r b n = Z.min (n - 1) (r + b / 2). Proof. reflexivity. Qed.
Lemma box_c_min_spec c b n : box_c_min c b n = Z.max 0 (c - b / 2).   Proof. reflexivity. Qed.
Lemma box_c_max_spec c b n : box_c_max c b n = Z.min (n - 1) (c + b / 2). Proof. reflexivity. Qed.
Lemma grid_r_start_spec ymin ymax drm nrows ncols sr sc : grid_r_start ymin ymax drm nrows ncols sr sc = ymin - drm. Proof. reflexivity. Qed.
Lemma grid_r_stop_spec ymin ymax drm nrows ncols sr sc : grid_r_stop ymin ymax drm nrows ncols sr sc = ymax - drm. Proof. reflexivity. Qed.
Lemma grid_r_step_spec ymin ymax drm nrows ncols sr sc : grid_r_step ymin ymax drm nrows ncols sr sc = sr. Proof. reflexivity. Qed.
Lemma grid_c_start_spec ymin ymax drm nrows ncols sr sc : grid_c_start ymin ymax drm nrows ncols sr sc = 0. Proof. reflexivity. Qed.
Lemma grid_c_stop_spec ymin ymax drm nrows ncols sr sc : grid_c_stop ymin ymax drm nrows ncols sr sc = ncols. Proof. reflexivity. Qed.
Lemma grid_c_step_spec ymin ymax drm nrows ncols sr sc : grid_c_step ymin ymax drm nrows ncols sr sc = sc. Proof. reflexivity. Qed.
Lemma pix_r_lo_spec ymin ymax drm nrows ncols : pix_r_lo ymin ymax drm nrows ncols = ymin - drm. Proof. reflexivity. Qed.
Lemma pix_c_lo_spec ymin ymax drm nrows ncols : pix_c_lo ymin ymax drm nrows ncols = 0. Proof. reflexivity. Qed.
(* the pixel grid has exactly the rows / columns that are written *)
Lemma pix_r_extent ymin ymax drm nrows ncols : pix_r_hi ymin ymax drm nrows ncols - pix_r_lo ymin ymax drm nrows ncols = ymax - ymin.
Proof. unfold pix_r_hi, pix_r_lo. lia. Qed.
Lemma pix_c_extent ymin ymax drm nrows ncols : pix_c_hi ymin ymax drm nrows ncols - pix_c_lo ymin ymax drm nrows ncols = ncols.
Proof. unfold pix_c_hi, pix_c_lo. lia. Qed.
Lemma mask_r_lo_spec ymin ymax drm drx dh : mask_r_lo ymin ymax drm drx dh = ymin - drm. Proof. unfold mask_r_lo. lia. Qed.
Lemma mask_r_hi_spec ymin ymax drm drx dh : mask_r_hi ymin ymax drm drx dh = dh - (drx - ymax). Proof. reflexivity. Qed.
Lemma data_row_min_spec ymin ymax box rows : data_row_min ymin ymax box rows = Z.max 0 (ymin - box / 2). Proof. reflexivity. Qed.
Lemma data_row_max_spec ymin ymax box rows : data_row_max ymin ymax box rows = Z.min rows (ymax + box / 2). Proof. reflexivity. Qed.
Lemma subtract_all_rows_spec : subtract_all_rows = true. Proof. reflexivity. Qed.
Lemma clip_levels_spec : clip_lo = clip_hi /\ 0 <= clip_lo. Proof. split; [reflexivity | unfold clip_lo; lia]. Qed.
Lemma clip_strict_spec : clip_lower_strict = clip_upper_strict. Proof. reflexivity. Qed.

Local Opaque box_r_min box_r_max box_c_min box_c_max grid_r_start grid_r_stop grid_r_step grid_c_start grid_c_stop
  grid_c_step pix_r_lo pix_r_hi pix_c_lo pix_c_hi mask_r_lo mask_r_hi data_row_min data_row_max subtract_all_rows
  clip_lo clip_hi clip_lower_strict clip_upper_strict clip_reps.

(* ---- derived geometry *)
Lemma st_rs_eq g k : st_rs g k = st_ymin g k - st_drm g k. Proof. unfold st_rs. apply grid_r_start_spec. Qed.
Lemma st_re_eq g k : st_re g k = st_ymax g k - st_drm g k. Proof. unfold st_re. apply grid_r_stop_spec. Qed.
Lemma st_rstep_eq g k : st_rstep g k = sr g. Proof. unfold st_rstep. apply grid_r_step_spec. Qed.
Lemma st_cs_eq g k : st_cs g k = 0. Proof. unfold st_cs. apply grid_c_start_spec. Qed.
Lemma st_ce_eq g k : st_ce g k = nc g. Proof. unfold st_ce. apply grid_c_stop_spec. Qed.
Lemma st_cstep_eq g k : st_cstep g k = sc g. Proof. unfold st_cstep. apply grid_c_step_spec. Qed.
Lemma st_prow_eq g k y : st_prow g k y = y - st_drm g k. Proof. unfold st_prow. rewrite pix_r_lo_spec. lia. Qed.
Lemma st_pcol_eq g k c : st_pcol g k c = c. Proof. unfold st_pcol. rewrite pix_c_lo_spec. lia. Qed.
Lemma st_mrow_eq g k y : st_mrow g k y = y - st_drm g k. Proof. unfold st_mrow. rewrite mask_r_lo_spec. lia. Qed.

(* the stripe of row y *)
Lemma stripe_of_row g y : 0 < wy g -> 0 <= y < nr g ->
  let k := y / wy g in 0 <= k /\ st_ymin g k <= y < st_ymax g k /\ st_ymax g k <= nr g.
Proof.
  intros Hw Hy k. unfold st_ymin, st_ymax.
  pose proof (Z.div_mod y (wy g) ltac:(lia)) as Hd. pose proof (Z.mod_pos_bound y (wy g) Hw) as Hm.
  fold k in Hd. assert (0 <= k) by (apply Z.div_pos; lia). nia.
Qed.

Lemma cell_bracket start stop step x : 0 < step -> start <= x < stop ->
  let i := (x - start) / step in
  0 <= i /\ gnode start stop step i <= x < gnode start stop step (i + 1)
  /\ start <= gnode start stop step i /\ gnode start stop step (i + 1) <= stop
  /\ x - step < gnode start stop step i /\ gnode start stop step (i + 1) <= x + step.
Proof.
  intros Hs Hx i. unfold gnode.
  pose proof (Z.div_mod (x - start) step ltac:(lia)) as Hd. pose proof (Z.mod_pos_bound (x - start) step Hs) as Hm.
  fold i in Hd. assert (0 <= i) by (apply Z.div_pos; lia). nia.
Qed.

(* rows held by a stripe *)
Lemma stripe_rows g k : 0 <= st_ymin g k < st_ymax g k -> st_ymax g k <= nr g -> 0 <= br g ->
  0 <= st_drm g k <= st_ymin g k /\ st_ymax g k <= st_drx g k <= nr g.
Proof.
  intros H1 H2 Hb. unfold st_drm, st_drx. rewrite data_row_min_spec, data_row_max_spec.
  assert (0 <= br g / 2) by (apply Z.div_pos; lia). lia.
Qed.

Lemma stripe_rows_2 g k : 0 <= st_ymin g k < st_ymax g k -> st_ymax g k <= nr g -> 2 <= nr g -> 4 <= br g ->
  2 <= st_dh g k.
Proof.
  intros H1 H2 Hn Hb. unfold st_dh, st_drm, st_drx. rewrite data_row_min_spec, data_row_max_spec.
  assert (2 <= br g / 2) by (apply Z.div_le_lower_bound; lia). lia.
Qed.

(* ------------------------------------------------------------------ Part 3: a pass commutes with maps *)
Lemma flat_map_map_comm {A B C} (phi : B -> C) (f : A -> list B) (f' : A -> list C) l :
  (forall x, In x l -> f' x = map phi (f x)) -> flat_map f' l = map phi (flat_map f l).
Proof.
  induction l as [|a l IH]; intros H; cbn [flat_map]; [reflexivity|].
  rewrite map_app, H by (left; reflexivity). f_equal. apply IH. intros x Hx. apply H. right. exact Hx.
Qed.

Section PassMap.
  Variable K : carrier.
  Variables est est' : list (V K) -> V K.
  Variables phi phi' : V K -> V K.
  Hypothesis Hest : forall l, l <> [] -> est' (map phi l) = phi' (est l).
  Hypothesis Hlerp : forall a b c d t u,
    lerp2 K (phi' a) (phi' b) (phi' c) (phi' d) t u = phi' (lerp2 K a b c d t u).

  Lemma boxvals_map data data' dh ncols brow bcol r c :
    (forall rr cc, data' rr cc = omap K phi (data rr cc)) ->
    boxvals K data' dh ncols brow bcol r c = map phi (boxvals K data dh ncols brow bcol r c).
  Proof.
    intros H. unfold boxvals. apply flat_map_map_comm. intros rr _.
    apply flat_map_map_comm. intros cc _. rewrite H. destruct (data rr cc); reflexivity.
  Qed.

  Lemma node_stat_map l : node_stat K est' (map phi l) = omap K phi' (node_stat K est l).
  Proof.
    destruct l as [|a l]; [reflexivity|]. cbn [map node_stat omap]. f_equal.
    change (phi a :: map phi l) with (map phi (a :: l)). apply Hest. discriminate.
  Qed.

  Lemma stripe_map_map g k data data' y c :
    (forall rr cc, data' rr cc = omap K phi (data rr cc)) ->
    stripe_map K est' g k data' y c = omap K phi' (stripe_map K est g k data y c).
  Proof.
    intros H. unfold stripe_map, interp_at, stripe_vals. rewrite !memo2_eq.
    rewrite !(boxvals_map data data') by exact H. rewrite !node_stat_map.
    destruct (node_stat K est _); [|reflexivity].
    destruct (node_stat K est _); [|reflexivity].
    destruct (node_stat K est _); [|reflexivity].
    destruct (node_stat K est _); [|reflexivity].
    cbn [omap bilin]. rewrite Hlerp. reflexivity.
  Qed.

  Lemma pass_map g datak datak' y c :
    (forall k rr cc, datak' k rr cc = omap K phi (datak k rr cc)) ->
    pass K est' g datak' y c = omap K phi' (pass K est g datak y c).
  Proof.
    intros H. unfold pass. rewrite !memo2_eq, !memo1_eq. apply stripe_map_map. apply H.
  Qed.
End PassMap.

Lemma omap_id K o : omap K (fun x => x) o = o.
Proof. destruct o; reflexivity. Qed.

Lemma pass_ext K est g datak datak' y c :
  (forall k rr cc, datak' k rr cc = datak k rr cc) -> pass K est g datak' y c = pass K est g datak y c.
Proof.
  intros H. transitivity (omap K (fun x => x) (pass K est g datak y c)); [|apply omap_id].
  apply (pass_map K est est (fun x => x) (fun x => x)).
  - intros l _. rewrite map_id. reflexivity.
  - reflexivity.
  - intros. rewrite omap_id. apply H.
Qed.

(* ------------------------------------------------------------------ Part 4: a pass preserves ranges *)
Section PassPred.
  Variable K : carrier.
  Variable est : list (V K) -> V K.
  Variables P P' W : V K -> Prop.
  Hypothesis Hest : forall l, l <> [] -> Forall P l -> P' (est l).
  Hypothesis Hlerp : forall a b c d t u, W t -> W u -> P' a -> P' b -> P' c -> P' d -> P' (lerp2 K a b c d t u).
  Hypothesis Hfrac : forall lo hi x, lo <= x <= hi -> lo < hi -> W (frac K lo hi x).

  Lemma boxvals_forall (data : pix K) dh ncols brow bcol r c :
    (forall rr cc v, 0 <= rr < dh -> 0 <= cc < ncols -> data rr cc = Some v -> P v) ->
    Forall P (boxvals K data dh ncols brow bcol r c).
  Proof.
    intros H. apply Forall_forall. intros v Hv. unfold boxvals in Hv.
    apply in_flat_map in Hv as [rr [Hrr Hv]]. apply in_flat_map in Hv as [cc [Hcc Hv]].
    apply in_zrange in Hrr. apply in_zrange in Hcc.
    rewrite box_r_min_spec, box_r_max_spec in Hrr. rewrite box_c_min_spec, box_c_max_spec in Hcc.
    destruct (data rr cc) as [w|] eqn:E; [|destruct Hv].
    destruct Hv as [<-|[]]. apply (H rr cc); [lia | lia | exact E].
  Qed.

  Lemma node_stat_pred l v : Forall P l -> node_stat K est l = Some v -> P' v.
  Proof.
    intros HF H. destruct l as [|a l]; [discriminate|]. cbn [node_stat] in H. injection H as <-.
    apply Hest; [discriminate | exact HF].
  Qed.

  Lemma pass_pred g datak y c v :
    0 < wy g -> 0 < sr g -> 0 < sc g -> 0 <= br g -> 0 <= y < nr g -> 0 <= c < nc g ->
    (forall rr cc w, 0 <= rr < st_dh g (y / wy g) -> 0 <= cc < nc g -> datak (y / wy g) rr cc = Some w -> P w) ->
    pass K est g datak y c = Some v -> P' v.
  Proof.
    intros Hw Hsr Hsc Hb Hy Hc HP H. unfold pass in H. rewrite memo2_eq, memo1_eq in H.
    set (k := y / wy g) in *. unfold stripe_map, interp_at, stripe_vals in H. rewrite !memo2_eq in H.
    destruct (stripe_of_row g y Hw Hy) as [Hk [Hys Hym]]. fold k in Hk, Hys, Hym.
    destruct (stripe_rows g k ltac:(unfold st_ymin in *; nia) Hym Hb) as [Hd1 Hd2].
    rewrite st_prow_eq, st_pcol_eq, st_rs_eq, st_re_eq, st_rstep_eq, st_cs_eq, st_ce_eq, st_cstep_eq in H.
    pose proof (cell_bracket (st_ymin g k - st_drm g k) (st_ymax g k - st_drm g k) (sr g) (y - st_drm g k) Hsr ltac:(lia)) as Br.
    pose proof (cell_bracket 0 (nc g) (sc g) c Hsc ltac:(lia)) as Bc.
    cbv zeta in Br, Bc. rewrite Z.sub_0_r in *.
    set (i := (y - st_drm g k - (st_ymin g k - st_drm g k)) / sr g) in *.
    set (j := c / sc g) in *.
    match type of H with bilin _ ?a ?b ?c ?d _ _ = _ =>
      destruct a as [va|] eqn:Ea; [|discriminate]; destruct b as [vb|] eqn:Eb; [|discriminate];
      destruct c as [vc|] eqn:Ec; [|discriminate]; destruct d as [vd|] eqn:Ed; [|discriminate] end.
    cbn [bilin] in H. injection H as <-.
    assert (HF : forall r0 c0, Forall P (boxvals K (datak k) (st_dh g k) (nc g) (br g) (bc g) r0 c0))
      by (intros; apply boxvals_forall; exact HP).
    apply Hlerp.
    - apply Hfrac; lia.
    - apply Hfrac; lia.
    - eapply node_stat_pred; [apply HF | exact Ea].
    - eapply node_stat_pred; [apply HF | exact Eb].
    - eapply node_stat_pred; [apply HF | exact Ec].
    - eapply node_stat_pred; [apply HF | exact Ed].
  Qed.
End PassPred.

(* ------------------------------------------------------------------ Part 5: when a pass gives a finite value *)
Section PassFinite.
  Variable K : carrier.
  Variable est : list (V K) -> V K.

  Lemma boxvals_nonempty (data : pix K) dh ncols brow bcol r c rr cc :
    box_r_min r brow dh <= rr < box_r_max r brow dh -> box_c_min c bcol ncols <= cc < box_c_max c bcol ncols ->
    data rr cc <> None -> boxvals K data dh ncols brow bcol r c <> [].
  Proof.
    intros Hr Hc Hd. destruct (data rr cc) as [v|] eqn:E; [|congruence].
    assert (In v (boxvals K data dh ncols brow bcol r c)).
    { unfold boxvals. apply in_flat_map. exists rr. split; [apply in_zrange; exact Hr|].
      apply in_flat_map. exists cc. split; [apply in_zrange; exact Hc|]. rewrite E. left. reflexivity. }
    intros E0. rewrite E0 in H. destruct H.
  Qed.

  (* a node n of the row grid (0 <= n <= dh) that is within `step` of the data row r: its box is not empty, and all
     of its rows are within box/2 + step of r *)
  Lemma box_rows_witness n r b step dh : 2 <= dh -> 4 <= b -> 0 <= n <= dh -> 0 <= r < dh -> r - step <= n <= r + step -> 0 < step ->
    exists rr, box_r_min n b dh <= rr < box_r_max n b dh /\ 0 <= rr < dh /\ - (b / 2 + step) <= rr - r <= b / 2 + step.
  Proof.
    intros Hdh Hb Hn Hr Hs Hst. rewrite box_r_min_spec, box_r_max_spec.
    assert (2 <= b / 2) by (apply Z.div_le_lower_bound; lia).
    exists (Z.max 0 (n - b / 2)). lia.
  Qed.
  Lemma box_cols_witness n r b step dh : 2 <= dh -> 4 <= b -> 0 <= n <= dh -> 0 <= r < dh -> r - step <= n <= r + step -> 0 < step ->
    exists rr, box_c_min n b dh <= rr < box_c_max n b dh /\ 0 <= rr < dh /\ - (b / 2 + step) <= rr - r <= b / 2 + step.
  Proof.
    intros Hdh Hb Hn Hr Hs Hst. rewrite box_c_min_spec, box_c_max_spec.
    assert (2 <= b / 2) by (apply Z.div_le_lower_bound; lia).
    exists (Z.max 0 (n - b / 2)). lia.
  Qed.

  (* every data pixel of the stripe within (box/2 + step) of the pixel is finite => the pass is finite there *)
  Lemma pass_finite g datak y c :
    0 < wy g -> 0 < sr g -> 0 < sc g -> 4 <= br g -> 4 <= bc g -> 2 <= nr g -> 2 <= nc g ->
    0 <= y < nr g -> 0 <= c < nc g ->
    (forall rr cc, 0 <= rr < st_dh g (y / wy g) -> 0 <= cc < nc g ->
        - (br g / 2 + sr g) <= rr - (y - st_drm g (y / wy g)) <= br g / 2 + sr g ->
        - (bc g / 2 + sc g) <= cc - c <= bc g / 2 + sc g -> datak (y / wy g) rr cc <> None) ->
    pass K est g datak y c <> None.
  Proof.
    intros Hw Hsr Hsc Hbr Hbc Hnr Hnc Hy Hc HD. unfold pass. rewrite memo2_eq, memo1_eq.
    set (k := y / wy g) in *. unfold stripe_map, interp_at, stripe_vals. rewrite !memo2_eq.
    destruct (stripe_of_row g y Hw Hy) as [Hk [Hys Hym]]. fold k in Hk, Hys, Hym.
    assert (Hy0 : 0 <= st_ymin g k < st_ymax g k) by (unfold st_ymin in *; nia).
    destruct (stripe_rows g k Hy0 Hym ltac:(lia)) as [Hd1 Hd2].
    pose proof (stripe_rows_2 g k Hy0 Hym Hnr Hbr) as Hdh.
    rewrite st_prow_eq, st_pcol_eq, st_rs_eq, st_re_eq, st_rstep_eq, st_cs_eq, st_ce_eq, st_cstep_eq.
    pose proof (cell_bracket (st_ymin g k - st_drm g k) (st_ymax g k - st_drm g k) (sr g) (y - st_drm g k) Hsr ltac:(lia)) as Br.
    pose proof (cell_bracket 0 (nc g) (sc g) c Hsc ltac:(lia)) as Bc.
    cbv zeta in Br, Bc. rewrite Z.sub_0_r in *.
    set (i := (y - st_drm g k - (st_ymin g k - st_drm g k)) / sr g) in *.
    set (j := c / sc g) in *.
    assert (Hdh' : st_dh g k = st_drx g k - st_drm g k) by reflexivity.
    assert (NE : forall n m, 0 <= n <= st_dh g k -> (y - st_drm g k) - sr g <= n <= (y - st_drm g k) + sr g ->
                             0 <= m <= nc g -> c - sc g <= m <= c + sc g ->
               node_stat K est (boxvals K (datak k) (st_dh g k) (nc g) (br g) (bc g) n m) <> None).
    { intros n m Hn1 Hn2 Hm1 Hm2.
      destruct (box_rows_witness n (y - st_drm g k) (br g) (sr g) (st_dh g k)) as [rr [R1 [R2 R3]]]; try lia.
      destruct (box_cols_witness m c (bc g) (sc g) (nc g)) as [cc [C1 [C2 C3]]]; try lia.
      pose proof (boxvals_nonempty (datak k) (st_dh g k) (nc g) (br g) (bc g) n m rr cc R1 C1 (HD rr cc R2 C2 R3 C3)) as Hne.
      destruct (boxvals K (datak k) (st_dh g k) (nc g) (br g) (bc g) n m); [congruence | discriminate]. }
    match goal with |- bilin _ ?a ?b ?c ?d _ _ <> _ =>
      assert (Ha : a <> None) by (apply NE; lia); assert (Hb : b <> None) by (apply NE; lia);
      assert (Hc' : c <> None) by (apply NE; lia); assert (Hd : d <> None) by (apply NE; lia);
      destruct a; [|congruence]; destruct b; [|congruence]; destruct c; [|congruence]; destruct d; [|congruence] end.
    discriminate.
  Qed.
End PassFinite.

(* ------------------------------------------------------------------ Part 5b: cells, and a finite pixel in every corner box *)
(* corners (image coordinates) of the grid cell of row y (in the stripe that owns y) and of column c *)
Definition glo_r g y := Z.min (st_ymin g (y / wy g) + (y - st_ymin g (y / wy g)) / sr g * sr g) (st_ymax g (y / wy g)).
Definition ghi_r g y := Z.min (st_ymin g (y / wy g) + ((y - st_ymin g (y / wy g)) / sr g + 1) * sr g) (st_ymax g (y / wy g)).
Definition glo_c g c := Z.min (c / sc g * sc g) (nc g).
Definition ghi_c g c := Z.min ((c / sc g + 1) * sc g) (nc g).

Lemma cell_r_facts g y : 0 < wy g -> 0 < sr g -> 0 <= y < nr g ->
  0 <= y / wy g /\ st_ymin g (y / wy g) <= glo_r g y <= y /\ y < ghi_r g y <= st_ymax g (y / wy g)
  /\ y - sr g < glo_r g y /\ ghi_r g y <= y + sr g /\ st_ymax g (y / wy g) <= nr g
  /\ st_ymax g (y / wy g) <= st_ymin g (y / wy g) + wy g
  /\ glo_r g y = st_ymin g (y / wy g) + (y - st_ymin g (y / wy g)) / sr g * sr g.
Proof.
  intros Hw Hs Hy. destruct (stripe_of_row g y Hw Hy) as [Hk [Hys Hym]]. unfold glo_r, ghi_r.
  set (k := y / wy g) in *.
  pose proof (Z.div_mod (y - st_ymin g k) (sr g) ltac:(lia)) as Hd.
  pose proof (Z.mod_pos_bound (y - st_ymin g k) (sr g) Hs) as Hm.
  set (i := (y - st_ymin g k) / sr g) in *.
  assert (st_ymax g k <= st_ymin g k + wy g) by (unfold st_ymax, st_ymin; lia).
  assert (0 <= i) by (apply Z.div_pos; lia). assert (0 <= i * sr g) by nia.
  lia.
Qed.

Lemma cell_c_facts g c : 0 < sc g -> 0 <= c < nc g ->
  0 <= glo_c g c <= c /\ c < ghi_c g c <= nc g /\ c - sc g < glo_c g c /\ ghi_c g c <= c + sc g
  /\ glo_c g c = c / sc g * sc g.
Proof.
  intros Hs Hc. unfold glo_c, ghi_c.
  pose proof (Z.div_mod c (sc g) ltac:(lia)) as Hd. pose proof (Z.mod_pos_bound c (sc g) Hs) as Hm.
  assert (0 <= c / sc g) by (apply Z.div_pos; lia).
  set (j := c / sc g) in *. nia.
Qed.

(* a pixel of the same cell has the same cell *)
Lemma same_cell_r g y q : 0 < wy g -> 0 < sr g -> 0 <= y < nr g -> glo_r g y <= q < ghi_r g y ->
  glo_r g q = glo_r g y /\ ghi_r g q = ghi_r g y /\ 0 <= q < nr g.
Proof.
  intros Hw Hs Hy Hq. destruct (cell_r_facts g y Hw Hs Hy) as (Hk & H1 & H2 & H3 & H4 & H5 & H6 & H7).
  assert (Ek : q / wy g = y / wy g).
  { symmetry. apply Z.div_unique with (r := q - wy g * (y / wy g)); [left | ring].
    unfold st_ymin in *. lia. }
  assert (Hu : ghi_r g y <= st_ymin g (y / wy g) + ((y - st_ymin g (y / wy g)) / sr g + 1) * sr g) by (unfold ghi_r; lia).
  assert (Ei : (q - st_ymin g (y / wy g)) / sr g = (y - st_ymin g (y / wy g)) / sr g).
  { symmetry. apply Z.div_unique with (r := q - st_ymin g (y / wy g) - sr g * ((y - st_ymin g (y / wy g)) / sr g)); [left | ring].
    set (i := (y - st_ymin g (y / wy g)) / sr g) in *. lia. }
  assert (0 <= st_ymin g (y / wy g)) by (unfold st_ymin; nia).
  unfold glo_r, ghi_r in *. rewrite Ek, Ei. lia.
Qed.

Lemma same_cell_c g c q : 0 < sc g -> 0 <= c < nc g -> glo_c g c <= q < ghi_c g c ->
  glo_c g q = glo_c g c /\ ghi_c g q = ghi_c g c /\ 0 <= q < nc g.
Proof.
  intros Hs Hc Hq. destruct (cell_c_facts g c Hs Hc) as (H1 & H2 & H3 & H4 & H5).
  pose proof (Z.div_mod c (sc g) ltac:(lia)) as Hd. pose proof (Z.mod_pos_bound c (sc g) Hs) as Hm.
  assert (Ej : q / sc g = c / sc g).
  { symmetry. apply Z.div_unique with (r := q - sc g * (c / sc g)); [left | ring]. unfold ghi_c in Hq, H2. lia. }
  unfold glo_c, ghi_c in *. rewrite Ej. lia.
Qed.

(* the cell of a pixel of the same cell, or of the previous pixel, stays within one step of the pixel *)
Lemma cell_near_r g y q : 0 < wy g -> 0 < sr g -> 0 <= y < nr g -> 0 <= q < nr g ->
  (glo_r g y <= q < ghi_r g y) \/ q = y - 1 ->
  y - sr g <= glo_r g q /\ ghi_r g q <= y + sr g /\ - sr g <= q - y <= sr g.
Proof.
  intros Hw Hs Hy Hq [H|H].
  - destruct (same_cell_r g y q Hw Hs Hy H) as (E1 & E2 & _).
    destruct (cell_r_facts g y Hw Hs Hy) as (Hk & H1 & H2 & H3 & H4 & _). lia.
  - destruct (cell_r_facts g q Hw Hs Hq) as (Hk & H1 & H2 & H3 & H4 & _). lia.
Qed.

Lemma cell_near_c g c q : 0 < sc g -> 0 <= c < nc g -> 0 <= q < nc g ->
  (glo_c g c <= q < ghi_c g c) \/ q = c - 1 ->
  c - sc g <= glo_c g q /\ ghi_c g q <= c + sc g /\ - sc g <= q - c <= sc g.
Proof.
  intros Hs Hc Hq [H|H].
  - destruct (same_cell_c g c q Hs Hc H) as (E1 & E2 & _).
    destruct (cell_c_facts g c Hs Hc) as (H1 & H2 & H3 & H4 & _). lia.
  - destruct (cell_c_facts g q Hs Hq) as (H1 & H2 & H3 & H4 & _). lia.
Qed.

(* one axis: the data spans [m, x), the grid spans [a, e) inside it; each of the two nodes around y has, in its box
   (python slice [max 0 (n - b/2), min (len - 1) (n + b/2)) in data coordinates), a pixel of the cell of y or the pixel y - 1 *)
Lemma axis_witness m x a e step b y N : m <= a -> a <= y < e -> e <= x -> 2 <= x - m -> 0 < step -> 4 <= b ->
  N = Z.min (a + (y - a) / step * step) e \/ N = Z.min (a + ((y - a) / step + 1) * step) e ->
  exists q, Z.max 0 (N - m - b / 2) <= q - m < Z.min (x - m - 1) (N - m + b / 2) /\ m <= q < x
            /\ (Z.min (a + (y - a) / step * step) e <= q < Z.min (a + ((y - a) / step + 1) * step) e \/ q = y - 1).
Proof.
  intros Hm Hy He Hx Hs Hb HN.
  pose proof (Z.div_mod (y - a) step ltac:(lia)) as Hd. pose proof (Z.mod_pos_bound (y - a) step Hs) as Hmod.
  assert (2 <= b / 2) by (apply Z.div_le_lower_bound; lia).
  set (i := (y - a) / step) in *.
  assert (0 <= i) by (apply Z.div_pos; lia). assert (0 <= i * step) by nia.
  set (G0 := Z.min (a + i * step) e) in *. set (G1 := Z.min (a + (i + 1) * step) e) in *.
  assert (HG : G0 <= y < G1 /\ a <= G0 /\ G1 <= e) by (unfold G0, G1; lia).
  destruct HN as [-> | ->].
  - destruct (Z_lt_dec G0 (x - 1)).
    + exists G0. lia.
    + exists (G0 - 1). lia.
  - destruct (Z_lt_dec G1 x).
    + exists (G1 - 1). lia.
    + exists (x - 2). lia.
Qed.


Section PassFiniteNodes.
  Variable K : carrier.
  Variable est : list (V K) -> V K.

  (* the pass is finite at (y, c) as soon as the box of each of the four nodes around the pixel holds one finite value *)
  Lemma pass_finite_nodes g datak y c :
    0 < wy g -> 0 < sr g -> 0 < sc g -> 0 <= y < nr g -> 0 <= c < nc g ->
    (forall N M, N = glo_r g y \/ N = ghi_r g y -> M = glo_c g c \/ M = ghi_c g c ->
       exists rr cc, box_r_min (N - st_drm g (y / wy g)) (br g) (st_dh g (y / wy g)) <= rr
                       < box_r_max (N - st_drm g (y / wy g)) (br g) (st_dh g (y / wy g))
                     /\ box_c_min M (bc g) (nc g) <= cc < box_c_max M (bc g) (nc g)
                     /\ datak (y / wy g) rr cc <> None) ->
    pass K est g datak y c <> None.
  Proof.
    intros Hw Hsr Hsc Hy Hc HN. unfold pass. rewrite memo2_eq, memo1_eq.
    unfold stripe_map, interp_at, stripe_vals. rewrite !memo2_eq.
    rewrite st_prow_eq, st_pcol_eq, st_rs_eq, st_re_eq, st_rstep_eq, st_cs_eq, st_ce_eq, st_cstep_eq.
    rewrite Z.sub_0_r.
    replace (y - st_drm g (y / wy g) - (st_ymin g (y / wy g) - st_drm g (y / wy g))) with (y - st_ymin g (y / wy g)) by lia.
    assert (E1 : gnode (st_ymin g (y / wy g) - st_drm g (y / wy g)) (st_ymax g (y / wy g) - st_drm g (y / wy g)) (sr g)
                       ((y - st_ymin g (y / wy g)) / sr g) = glo_r g y - st_drm g (y / wy g))
      by (unfold gnode, glo_r; lia).
    assert (E2 : gnode (st_ymin g (y / wy g) - st_drm g (y / wy g)) (st_ymax g (y / wy g) - st_drm g (y / wy g)) (sr g)
                       ((y - st_ymin g (y / wy g)) / sr g + 1) = ghi_r g y - st_drm g (y / wy g))
      by (unfold gnode, ghi_r; lia).
    assert (E3 : gnode 0 (nc g) (sc g) (c / sc g) = glo_c g c) by (unfold gnode, glo_c; lia).
    assert (E4 : gnode 0 (nc g) (sc g) (c / sc g + 1) = ghi_c g c) by (unfold gnode, ghi_c; lia).
    rewrite E1, E2, E3, E4.
    assert (NE : forall N M, N = glo_r g y \/ N = ghi_r g y -> M = glo_c g c \/ M = ghi_c g c ->
               node_stat K est (boxvals K (datak (y / wy g)) (st_dh g (y / wy g)) (nc g) (br g) (bc g) (N - st_drm g (y / wy g)) M) <> None).
    { intros N M HNr HMc. destruct (HN N M HNr HMc) as (rr & cc & R1 & C1 & D).
      pose proof (boxvals_nonempty K (datak (y / wy g)) (st_dh g (y / wy g)) (nc g) (br g) (bc g) _ _ rr cc R1 C1 D) as Hne.
      destruct (boxvals K (datak (y / wy g)) (st_dh g (y / wy g)) (nc g) (br g) (bc g) (N - st_drm g (y / wy g)) M);
        [congruence | discriminate]. }
    pose proof (NE _ _ (or_introl eq_refl) (or_introl eq_refl)) as Ha.
    pose proof (NE _ _ (or_introl eq_refl) (or_intror eq_refl)) as Hb.
    pose proof (NE _ _ (or_intror eq_refl) (or_introl eq_refl)) as Hc'.
    pose proof (NE _ _ (or_intror eq_refl) (or_intror eq_refl)) as Hd.
    destruct (node_stat K est (boxvals K _ _ _ _ _ (glo_r g y - _) (glo_c g c))); [|congruence].
    destruct (node_stat K est (boxvals K _ _ _ _ _ (glo_r g y - _) (ghi_c g c))); [|congruence].
    destruct (node_stat K est (boxvals K _ _ _ _ _ (ghi_r g y - _) (glo_c g c))); [|congruence].
    destruct (node_stat K est (boxvals K _ _ _ _ _ (ghi_r g y - _) (ghi_c g c))); [|congruence].
    discriminate.
  Qed.
End PassFiniteNodes.

(* the two axis witnesses for the pixel (y, c) and one of its four nodes (N, M), in image coordinates *)
Lemma node_witness g y c N M : (0 < wy g /\ 0 < sr g /\ 0 < sc g /\ 4 <= br g /\ 4 <= bc g) -> 2 <= nr g -> 2 <= nc g -> (0 <= y < nr g) -> (0 <= c < nc g) ->
  N = glo_r g y \/ N = ghi_r g y -> M = glo_c g c \/ M = ghi_c g c ->
  exists qr qc,
    (box_r_min (N - st_drm g (y / wy g)) (br g) (st_dh g (y / wy g)) <= qr - st_drm g (y / wy g)
       < box_r_max (N - st_drm g (y / wy g)) (br g) (st_dh g (y / wy g)))
    /\ (box_c_min M (bc g) (nc g) <= qc < box_c_max M (bc g) (nc g))
    /\ (0 <= qr - st_drm g (y / wy g) < st_dh g (y / wy g)) /\ (0 <= qr < nr g) /\ (0 <= qc < nc g)
    /\ (glo_r g y - br g / 2 <= qr < ghi_r g y + br g / 2) /\ (glo_c g c - bc g / 2 <= qc < ghi_c g c + bc g / 2)
    /\ ((glo_r g y <= qr < ghi_r g y) \/ qr = y - 1) /\ ((glo_c g c <= qc < ghi_c g c) \/ qc = c - 1).
Proof.
  intros (Hw & Hsr & Hsc & Hbr & Hbc) Hnr Hnc Hy Hc HN HM.
  destruct (cell_r_facts g y Hw Hsr Hy) as (Hk & H1 & H2 & H3 & H4 & H5 & H6 & H7).
  destruct (cell_c_facts g c Hsc Hc) as (C1 & C2 & C3 & C4 & C5).
  set (k := y / wy g) in *.
  assert (Hy0 : 0 <= st_ymin g k < st_ymax g k) by (unfold st_ymin in *; nia).
  destruct (stripe_rows g k Hy0 H5 ltac:(lia)) as [Hd1 Hd2].
  pose proof (stripe_rows_2 g k Hy0 H5 Hnr Hbr) as Hdh.
  assert (Hb2r : 2 <= br g / 2) by (apply Z.div_le_lower_bound; lia).
  assert (Hb2c : 2 <= bc g / 2) by (apply Z.div_le_lower_bound; lia).
  assert (Hdh' : 2 <= st_drx g k - st_drm g k) by (unfold st_dh in Hdh; exact Hdh).
  assert (HN' : N = Z.min (st_ymin g k + (y - st_ymin g k) / sr g * sr g) (st_ymax g k)
                \/ N = Z.min (st_ymin g k + ((y - st_ymin g k) / sr g + 1) * sr g) (st_ymax g k))
    by (unfold glo_r, ghi_r in HN; fold k in HN; exact HN).
  destruct (axis_witness (st_drm g k) (st_drx g k) (st_ymin g k) (st_ymax g k) (sr g) (br g) y N
              ltac:(lia) ltac:(lia) ltac:(lia) Hdh' Hsr Hbr HN') as (qr & R1 & R2 & R3).
  assert (HM' : M = Z.min (0 + (c - 0) / sc g * sc g) (nc g) \/ M = Z.min (0 + ((c - 0) / sc g + 1) * sc g) (nc g))
    by (unfold glo_c, ghi_c in HM; rewrite Z.sub_0_r, !Z.add_0_l; exact HM).
  destruct (axis_witness 0 (nc g) 0 (nc g) (sc g) (bc g) c M
              ltac:(lia) ltac:(lia) ltac:(lia) ltac:(lia) Hsc Hbc HM') as (qc & Q1 & Q2 & Q3).
  rewrite Z.sub_0_r, !Z.add_0_l in Q3. rewrite !Z.sub_0_r in Q1.
  fold (glo_c g c) in Q3. fold (ghi_c g c) in Q3.
  assert (R3' : (glo_r g y <= qr < ghi_r g y) \/ qr = y - 1) by (unfold glo_r, ghi_r; fold k; exact R3).
  assert (HNb : glo_r g y <= N <= ghi_r g y) by (clear - HN H1 H2; destruct HN; lia).
  assert (HMb : glo_c g c <= M <= ghi_c g c) by (clear - HM C1 C2; destruct HM; lia).
  exists qr, qc. rewrite box_r_min_spec, box_r_max_spec, box_c_min_spec, box_c_max_spec.
  unfold st_dh. fold k.
  split; [exact R1|]. split; [exact Q1|].
  split; [clear - R2; lia|]. split; [clear - R2 Hd1 Hd2; lia|]. split; [exact Q2|].
  split; [clear - R1 HNb Hb2r; lia|]. split; [clear - Q1 HMb Hb2c; lia|].
  split; assumption.
Qed.

(* ------------------------------------------------------------------ Part 6: theorems for arbitrary statistics over R *)
Open Scope R_scope.

Lemma lerp_shift a b c d t u k : lerp2 RC (a + k) (b + k) (c + k) (d + k) t u = lerp2 RC a b c d t u + k.
Proof. unfold lerp2. cbn. ring. Qed.
Lemma lerp_scale a b c d t u k : lerp2 RC (k * a) (k * b) (k * c) (k * d) t u = k * lerp2 RC a b c d t u.
Proof. unfold lerp2. cbn. ring. Qed.

Lemma convex2 lo hi x y t : 0 <= t <= 1 -> lo <= x <= hi -> lo <= y <= hi -> lo <= x * (1 - t) + y * t <= hi.
Proof.
  intros Ht Hx Hy.
  assert (0 <= (x - lo) * (1 - t)) by (apply Rmult_le_pos; lra).
  assert (0 <= (y - lo) * t) by (apply Rmult_le_pos; lra).
  assert (0 <= (hi - x) * (1 - t)) by (apply Rmult_le_pos; lra).
  assert (0 <= (hi - y) * t) by (apply Rmult_le_pos; lra).
  split; lra.
Qed.

Lemma lerp_convex lo hi a b c d t u : 0 <= t <= 1 -> 0 <= u <= 1 ->
  lo <= a <= hi -> lo <= b <= hi -> lo <= c <= hi -> lo <= d <= hi -> lo <= lerp2 RC a b c d t u <= hi.
Proof.
  intros Ht Hu Ha Hb Hc Hd.
  replace (lerp2 RC a b c d t u) with ((a * (1 - u) + b * u) * (1 - t) + (c * (1 - u) + d * u) * t)
    by (unfold lerp2; cbn; ring).
  apply convex2; [exact Ht | apply convex2; assumption | apply convex2; assumption].
Qed.

Lemma frac_unit lo hi x : (lo <= x <= hi)%Z -> (lo < hi)%Z -> 0 <= frac RC lo hi x <= 1.
Proof.
  intros Hx Hl. unfold frac. cbn.
  assert (Hd : 0 < IZR (hi - lo)) by (apply IZR_lt; lia).
  assert (Ha : 0 <= IZR (x - lo)) by (apply IZR_le; lia).
  assert (Hb : IZR (x - lo) <= IZR (hi - lo)) by (apply IZR_le; lia).
  assert (Hi : 0 < / IZR (hi - lo)) by (apply Rinv_0_lt_compat; exact Hd).
  unfold Rdiv. split.
  - apply Rmult_le_pos; lra.
  - replace 1 with (IZR (hi - lo) * / IZR (hi - lo)) by (field; lra). apply Rmult_le_compat_r; lra.
Qed.

Definition shift_img (img : pix RC) (k : R) : pix RC := fun y c => omap RC (fun x => x + k) (img y c).
Definition scale_img (img : pix RC) (k : R) : pix RC := fun y c => omap RC (fun x => k * x) (img y c).
Definition in_image (g : geom) (y c : Z) : Prop := (0 <= y < nr g)%Z /\ (0 <= c < nc g)%Z.
(* what the property asks of the configuration: grid >= 1, box >= max(4, grid), at least one row per stripe *)
Definition wf (g : geom) : Prop :=
  (0 < wy g /\ 0 < sr g /\ 0 < sc g /\ 4 <= br g /\ 4 <= bc g)%Z.

Section Abstract.
  Variables est_b est_r : list R -> R.
  Hypothesis Hb_shift : forall l k, l <> [] -> est_b (map (fun x => x + k) l) = est_b l + k.
  Hypothesis Hb_scale : forall l k, l <> [] -> est_b (map (fun x => k * x) l) = k * est_b l.
  Hypothesis Hb_range : forall l lo hi, l <> [] -> Forall (fun x => lo <= x <= hi) l -> lo <= est_b l <= hi.
  Hypothesis Hr_shift : forall l k, l <> [] -> est_r (map (fun x => x + k) l) = est_r l.
  Hypothesis Hr_scale : forall l k, l <> [] -> est_r (map (fun x => k * x) l) = Rabs k * est_r l.
  Hypothesis Hr_range : forall l M, l <> [] -> Forall (fun x => - M <= x <= M) l -> 0 <= est_r l <= M.

  Notation bkg_raw := (bkg_raw RC est_b).
  Notation rms_raw := (rms_raw RC est_b est_r).
  Notation sub_data := (sub_data RC est_b).
  Notation out_bkg := (out_bkg RC est_b).
  Notation out_rms := (out_rms RC est_b est_r).
  Notation masked := (masked RC est_b).

  (* ---- shift *)
  Lemma bkg_raw_shift g img k y c : bkg_raw g (shift_img img k) y c = omap RC (fun x => x + k) (bkg_raw g img y c).
  Proof.
    unfold BaneFilter.bkg_raw. apply (pass_map RC est_b est_b (fun x => x + k) (fun x => x + k)).
    - intros l Hl. apply Hb_shift. exact Hl.
    - intros. apply lerp_shift.
    - intros. reflexivity.
  Qed.

  Lemma sub_data_shift g img k s r c : suball g = true -> sub_data g (shift_img img k) s r c = sub_data g img s r c.
  Proof.
    intros Hs. unfold BaneFilter.sub_data. rewrite !memo1_eq. unfold data2. rewrite !memo2_eq.
    rewrite Hs. cbn [orb]. rewrite bkg_raw_shift. unfold shift_img.
    destruct (img (st_drm g s + r)%Z c), (bkg_raw g img (st_drm g s + r)%Z c); cbn [omap osub]; try reflexivity.
    f_equal. cbn. ring.
  Qed.

  Lemma shift_abstract g img k y c : suball g = true ->
    out_bkg g (shift_img img k) y c = omap RC (fun x => x + k) (out_bkg g img y c)
    /\ out_rms g (shift_img img k) y c = out_rms g img y c.
  Proof.
    intros Hs. unfold BaneFilter.out_bkg, BaneFilter.out_rms, BaneFilter.masked.
    rewrite sub_data_shift by exact Hs. split.
    - destruct (dm g && _); [reflexivity | apply bkg_raw_shift].
    - destruct (dm g && _); [reflexivity|]. unfold BaneFilter.rms_raw. apply pass_ext.
      intros. apply sub_data_shift. exact Hs.
  Qed.

  (* ---- scale *)
  Lemma bkg_raw_scale g img k y c : bkg_raw g (scale_img img k) y c = omap RC (fun x => k * x) (bkg_raw g img y c).
  Proof.
    unfold BaneFilter.bkg_raw. apply (pass_map RC est_b est_b (fun x => k * x) (fun x => k * x)).
    - intros l Hl. apply Hb_scale. exact Hl.
    - intros. apply lerp_scale.
    - intros. reflexivity.
  Qed.

  Lemma sub_data_scale g img k s r c : sub_data g (scale_img img k) s r c = omap RC (fun x => k * x) (sub_data g img s r c).
  Proof.
    unfold BaneFilter.sub_data. rewrite !memo1_eq. unfold data2. rewrite !memo2_eq.
    rewrite bkg_raw_scale. unfold scale_img.
    destruct (suball g || own_row g s r).
    - destruct (img (st_drm g s + r)%Z c), (bkg_raw g img (st_drm g s + r)%Z c); cbn [omap osub]; try reflexivity.
      f_equal. cbn. ring.
    - reflexivity.
  Qed.

  Lemma is_none_omap f (o : option R) : is_none (omap RC f o) = is_none o.
  Proof. destruct o; reflexivity. Qed.

  Lemma scale_abstract g img k y c :
    out_bkg g (scale_img img k) y c = omap RC (fun x => k * x) (out_bkg g img y c)
    /\ out_rms g (scale_img img k) y c = omap RC (fun x => Rabs k * x) (out_rms g img y c).
  Proof.
    unfold BaneFilter.out_bkg, BaneFilter.out_rms, BaneFilter.masked.
    rewrite sub_data_scale, is_none_omap. split.
    - destruct (dm g && _); [reflexivity | apply bkg_raw_scale].
    - destruct (dm g && _); [reflexivity|]. unfold BaneFilter.rms_raw.
      apply (pass_map RC est_r est_r (fun x => k * x) (fun x => Rabs k * x)).
      + intros l Hl. apply Hr_scale. exact Hl.
      + intros. apply lerp_scale.
      + intros. apply sub_data_scale.
  Qed.

  (* ---- bounds *)
  Lemma bkg_raw_bounds g img lo hi y c v : wf g -> in_image g y c ->
    (forall y' c' w, in_image g y' c' -> img y' c' = Some w -> lo <= w <= hi) ->
    bkg_raw g img y c = Some v -> lo <= v <= hi.
  Proof.
    intros (Hw & Hsr & Hsc & Hbr & Hbc) [Hy Hc] HI H. unfold BaneFilter.bkg_raw in H.
    eapply (pass_pred RC est_b (fun x => lo <= x <= hi) (fun x => lo <= x <= hi) (fun t => 0 <= t <= 1)); try eassumption; try lia.
    - intros l Hl HF. apply Hb_range; assumption.
    - intros. apply lerp_convex; assumption.
    - intros. apply frac_unit; assumption.
    - intros rr cc w Hrr Hcc E. unfold data1 in E.
      destruct (stripe_of_row g y Hw Hy) as [Hk [Hys Hym]].
      destruct (stripe_rows g (y / wy g) ltac:(unfold st_ymin in *; nia) Hym ltac:(lia)) as [Hd1 Hd2].
      apply (HI (st_drm g (y / wy g) + rr)%Z cc); [|exact E]. unfold in_image, st_dh in *. lia.
  Qed.

  Lemma sub_data_bounds g img lo hi y rr cc w : wf g -> suball g = true -> (0 <= y < nr g)%Z ->
    (forall y' c' w, in_image g y' c' -> img y' c' = Some w -> lo <= w <= hi) ->
    (0 <= rr < st_dh g (y / wy g))%Z -> (0 <= cc < nc g)%Z ->
    sub_data g img (y / wy g) rr cc = Some w -> - (hi - lo) <= w <= hi - lo.
  Proof.
    intros Hwf Hs Hy HI Hrr Hcc E. pose proof Hwf as (Hw & Hsr & Hsc & Hbr & Hbc).
    unfold BaneFilter.sub_data in E. rewrite memo1_eq in E. unfold data2 in E. rewrite memo2_eq, Hs in E. cbn [orb] in E.
    destruct (stripe_of_row g y Hw Hy) as [Hk [Hys Hym]].
    destruct (stripe_rows g (y / wy g) ltac:(unfold st_ymin in *; nia) Hym ltac:(lia)) as [Hd1 Hd2].
    assert (Hin : in_image g (st_drm g (y / wy g) + rr)%Z cc) by (unfold in_image, st_dh in *; lia).
    destruct (img (st_drm g (y / wy g) + rr)%Z cc) as [a|] eqn:Ea; [|discriminate].
    destruct (bkg_raw g img (st_drm g (y / wy g) + rr)%Z cc) as [b|] eqn:Eb; [|discriminate].
    cbn [osub] in E. injection E as <-. cbn.
    pose proof (HI _ _ _ Hin Ea). pose proof (bkg_raw_bounds g img lo hi _ _ _ Hwf Hin HI Eb). lra.
  Qed.

  Lemma bounds_abstract g img lo hi y c : wf g -> suball g = true -> in_image g y c ->
    (forall y' c' w, in_image g y' c' -> img y' c' = Some w -> lo <= w <= hi) ->
    (forall b, out_bkg g img y c = Some b -> lo <= b <= hi)
    /\ (forall s, out_rms g img y c = Some s -> 0 <= s <= hi - lo).
  Proof.
    intros Hwf Hs Hin HI. pose proof Hwf as (Hw & Hsr & Hsc & Hbr & Hbc). pose proof Hin as [Hy Hc].
    unfold BaneFilter.out_bkg, BaneFilter.out_rms. split.
    - intros b H. destruct (dm g && _); [discriminate|]. eapply bkg_raw_bounds; eassumption.
    - intros s H. destruct (dm g && _); [discriminate|]. unfold BaneFilter.rms_raw in H.
      eapply (pass_pred RC est_r (fun x => - (hi - lo) <= x <= hi - lo) (fun x => 0 <= x <= hi - lo) (fun t => 0 <= t <= 1));
        try eassumption; try lia.
      + intros l Hl HF. apply Hr_range; assumption.
      + intros. apply lerp_convex; assumption.
      + intros. apply frac_unit; assumption.
      + intros rr cc w Hrr Hcc E. eapply sub_data_bounds; eassumption.
  Qed.

  (* ---- masking *)
  Lemma mask_nan_abstract g img y c : dm g = true -> img y c = None ->
    out_bkg g img y c = None /\ out_rms g img y c = None.
  Proof.
    intros Hd Hi. unfold BaneFilter.out_bkg, BaneFilter.out_rms, BaneFilter.masked.
    unfold BaneFilter.sub_data. rewrite memo1_eq. unfold data2. rewrite memo2_eq, st_mrow_eq.
    replace (st_drm g (y / wy g) + (y - st_drm g (y / wy g)))%Z with y by lia. rewrite Hi, Hd.
    destruct (suball g || _); cbn; split; reflexivity.
  Qed.

  Definition near (g : geom) (f : Z) (y c y' c' : Z) : Prop :=
    (- f * (br g / 2 + sr g) <= y' - y <= f * (br g / 2 + sr g) /\ - f * (bc g / 2 + sc g) <= c' - c <= f * (bc g / 2 + sc g))%Z.

  Lemma bkg_raw_finite g img y c : wf g -> (2 <= nr g)%Z -> (2 <= nc g)%Z -> in_image g y c ->
    (forall y' c', in_image g y' c' -> near g 1 y c y' c' -> img y' c' <> None) ->
    bkg_raw g img y c <> None.
  Proof.
    intros (Hw & Hsr & Hsc & Hbr & Hbc) Hnr Hnc [Hy Hc] HI. unfold BaneFilter.bkg_raw.
    apply pass_finite; try assumption. intros rr cc Hrr Hcc Hr1 Hc1. unfold data1.
    destruct (stripe_of_row g y Hw Hy) as [Hk [Hys Hym]].
    destruct (stripe_rows g (y / wy g) ltac:(unfold st_ymin in *; nia) Hym ltac:(lia)) as [Hd1 Hd2].
    apply HI; unfold in_image, near, st_dh in *; lia.
  Qed.

  (* sharper than bkg_raw_finite: only the rows / columns spanned by the four corner boxes of the cell of the pixel matter *)
  Lemma bkg_raw_finite_cell g img y c : wf g -> (2 <= nr g)%Z -> (2 <= nc g)%Z -> in_image g y c ->
    (forall y' c', in_image g y' c' -> (glo_r g y - br g / 2 <= y' < ghi_r g y + br g / 2)%Z ->
                   (glo_c g c - bc g / 2 <= c' < ghi_c g c + bc g / 2)%Z -> img y' c' <> None) ->
    bkg_raw g img y c <> None.
  Proof.
    intros Hwf Hnr Hnc [Hy Hc] HI. pose proof Hwf as (Hw & Hsr & Hsc & Hbr & Hbc). unfold BaneFilter.bkg_raw.
    apply pass_finite_nodes; try assumption. intros N M HN HM.
    destruct (node_witness g y c N M Hwf Hnr Hnc Hy Hc HN HM) as (qr & qc & B1 & B2 & L1 & I1 & I2 & S1 & S2 & _).
    exists (qr - st_drm g (y / wy g))%Z, qc. split; [exact B1|]. split; [exact B2|].
    unfold data1. replace (st_drm g (y / wy g) + (qr - st_drm g (y / wy g)))%Z with qr by lia.
    apply HI; [split; assumption | exact S1 | exact S2].
  Qed.

  (* the property's radius, for BOTH maps: no blank pixel within box/2 + grid (per axis) => background and noise finite.
     Noise: each of the four nodes around the pixel has in its box a pixel q of the pixel's own cell (or, when the last
     cell of the image is one pixel wide, the previous pixel); the cell of q lies within one grid step of the pixel, so
     the four boxes that decide the background of q lie within box/2 + grid of the pixel, and q itself is finite. *)
  Lemma far_finite_abstract g img y c : wf g -> suball g = true -> (2 <= nr g)%Z -> (2 <= nc g)%Z -> in_image g y c ->
    (forall y' c', in_image g y' c' -> near g 1 y c y' c' -> img y' c' <> None) ->
    out_bkg g img y c <> None /\ out_rms g img y c <> None.
  Proof.
    intros Hwf Hs Hnr Hnc Hin HI. pose proof Hwf as (Hw & Hsr & Hsc & Hbr & Hbc). pose proof Hin as [Hy Hc].
    assert (Hb2r : (0 <= br g / 2)%Z) by (apply Z.div_pos; lia).
    assert (Hb2c : (0 <= bc g / 2)%Z) by (apply Z.div_pos; lia).
    assert (Hb : bkg_raw g img y c <> None) by (apply bkg_raw_finite; assumption).
    assert (Hm : masked g img y c = false).
    { unfold BaneFilter.masked, BaneFilter.sub_data. rewrite memo1_eq. unfold data2.
      rewrite memo2_eq, st_mrow_eq, Hs. cbn [orb].
      replace (st_drm g (y / wy g) + (y - st_drm g (y / wy g)))%Z with y by lia.
      assert (Hi : img y c <> None) by (apply HI; [exact Hin | unfold near; lia]).
      destruct (img y c); [|congruence]. destruct (bkg_raw g img y c); [reflexivity | congruence]. }
    unfold BaneFilter.out_bkg, BaneFilter.out_rms. rewrite Hm, andb_false_r. split; [exact Hb|].
    unfold BaneFilter.rms_raw. apply pass_finite_nodes; try assumption. intros N M HN HM.
    destruct (node_witness g y c N M Hwf Hnr Hnc Hy Hc HN HM) as (qr & qc & B1 & B2 & L1 & I1 & I2 & S1 & S2 & W1 & W2).
    exists (qr - st_drm g (y / wy g))%Z, qc. split; [exact B1|]. split; [exact B2|].
    unfold BaneFilter.sub_data. rewrite memo1_eq. unfold data2. rewrite memo2_eq, Hs. cbn [orb].
    replace (st_drm g (y / wy g) + (qr - st_drm g (y / wy g)))%Z with qr by lia.
    destruct (cell_near_r g y qr Hw Hsr Hy I1 W1) as (N1 & N2 & N3).
    destruct (cell_near_c g c qc Hsc Hc I2 W2) as (M1 & M2 & M3).
    assert (Hi : img qr qc <> None) by (apply HI; [split; assumption | unfold near; lia]).
    assert (Hbq : bkg_raw g img qr qc <> None).
    { apply bkg_raw_finite_cell; try assumption; [split; assumption|].
      intros y' c' Hin' Hr' Hc'. apply HI; [exact Hin'|]. unfold near. lia. }
    destruct (img qr qc); [|congruence]. destruct (bkg_raw g img qr qc); [discriminate | congruence].
  Qed.

  Lemma no_blank_abstract g img y c : wf g -> suball g = true -> (2 <= nr g)%Z -> (2 <= nc g)%Z -> in_image g y c ->
    (forall y' c', in_image g y' c' -> img y' c' <> None) ->
    out_bkg g img y c <> None /\ out_rms g img y c <> None.
  Proof.
    intros Hwf Hs Hnr Hnc Hin HI. apply far_finite_abstract; try assumption. intros; apply HI; assumption.
  Qed.

  Lemma constant_abstract g img k y c : wf g -> suball g = true -> (2 <= nr g)%Z -> (2 <= nc g)%Z -> in_image g y c ->
    (forall y' c', in_image g y' c' -> img y' c' = Some k) ->
    out_bkg g img y c = Some k /\ out_rms g img y c = Some 0.
  Proof.
    intros Hwf Hs Hnr Hnc Hin HI.
    destruct (no_blank_abstract g img y c Hwf Hs Hnr Hnc Hin) as [N1 N2]; [intros y' c' H; rewrite (HI y' c' H); discriminate|].
    destruct (bounds_abstract g img k k y c Hwf Hs Hin) as [B1 B2].
    { intros y' c' w H E. rewrite (HI y' c' H) in E. injection E as <-. lra. }
    destruct (out_bkg g img y c) as [b|]; [|congruence]. destruct (out_rms g img y c) as [s|]; [|congruence].
    pose proof (B1 b eq_refl). pose proof (B2 s eq_refl). split; f_equal; lra.
  Qed.
End Abstract.

(* the executable entry point returns the tables of the two maps, of the shape of the image *)
Lemma table_shape K g (m : pix K) : length (table K g m) = Z.to_nat (nr g) /\ Forall (fun row => length row = Z.to_nat (nc g)) (table K g m).
Proof.
  unfold table. rewrite map_length, zrange_length, Z.sub_0_r. split; [reflexivity|].
  apply Forall_forall. intros row H. apply in_map_iff in H as [y [<- _]]. rewrite map_length, zrange_length, Z.sub_0_r. reflexivity.
Qed.

Lemma run_spec K est_b est_r g img :
  run K est_b est_r g img = (table K g (out_bkg K est_b g img), table K g (out_rms K est_b est_r g img)).
Proof.
  unfold run, out_bkg, out_rms, masked, rms_raw, sub_data, table. f_equal.
  - apply map_ext. intros y. apply map_ext. intros c. rewrite memo2_eq. reflexivity.
  - apply map_ext. intros y. apply map_ext. intros c. rewrite memo2_eq. reflexivity.
Qed.

(* ------------------------------------------------------------------ Part 7: the statistics of the real code *)
Lemma est_mean_shift l k : l <> [] -> est_mean_r (map (fun x => x + k) l) = est_mean_r l + k.
Proof. intros H. unfold est_mean_r. rewrite sigmaclip_shift by exact H. reflexivity. Qed.
Lemma est_std_shift l k : l <> [] -> est_std_r (map (fun x => x + k) l) = est_std_r l.
Proof. intros H. unfold est_std_r. rewrite sigmaclip_shift by exact H. reflexivity. Qed.
Lemma est_mean_scale l k : l <> [] -> est_mean_r (map (fun x => k * x) l) = k * est_mean_r l.
Proof.
  intros H. unfold est_mean_r. destruct clip_levels_spec as [<- Hp]. rewrite <- clip_strict_spec.
  rewrite sigmaclip_scale by assumption. reflexivity.
Qed.
Lemma est_std_scale l k : l <> [] -> est_std_r (map (fun x => k * x) l) = Rabs k * est_std_r l.
Proof.
  intros H. unfold est_std_r. destruct clip_levels_spec as [<- Hp]. rewrite <- clip_strict_spec.
  rewrite sigmaclip_scale by assumption. reflexivity.
Qed.
Lemma est_mean_range l lo hi : l <> [] -> Forall (fun x => lo <= x <= hi) l -> lo <= est_mean_r l <= hi.
Proof. intros. unfold est_mean_r. apply sigmaclip_range; assumption. Qed.
Lemma est_std_range l M : l <> [] -> Forall (fun x => - M <= x <= M) l -> 0 <= est_std_r l <= M.
Proof. intros. unfold est_std_r. apply sigmaclip_std_range; assumption. Qed.

Notation bane_bkg := (out_bkg RC est_mean_r).
Notation bane_rms := (out_rms RC est_mean_r est_std_r).

Lemma the_geom_suball rows cols steprow stepcol boxrow boxcol width mask :
  suball (the_geom rows cols steprow stepcol boxrow boxcol width mask) = true.
Proof. unfold the_geom. cbn [suball]. apply subtract_all_rows_spec. Qed.

Definition real_geom (g : geom) : Prop := suball g = subtract_all_rows.

Lemma real_suball g : real_geom g -> suball g = true.
Proof. unfold real_geom. intros ->. apply subtract_all_rows_spec. Qed.

Ltac est_hyps :=
  first [ apply est_mean_shift | apply est_std_shift | apply est_mean_scale | apply est_std_scale
        | apply est_mean_range | apply est_std_range | (apply real_suball; assumption) | assumption ].

Lemma bane_shift g img k y c : real_geom g ->
  bane_bkg g (shift_img img k) y c = omap RC (fun x => x + k) (bane_bkg g img y c)
  /\ bane_rms g (shift_img img k) y c = bane_rms g img y c.
Proof. intros Hg. apply shift_abstract; est_hyps. Qed.

Lemma bane_scale g img k y c :
  bane_bkg g (scale_img img k) y c = omap RC (fun x => k * x) (bane_bkg g img y c)
  /\ bane_rms g (scale_img img k) y c = omap RC (fun x => Rabs k * x) (bane_rms g img y c).
Proof. apply scale_abstract; est_hyps. Qed.

Lemma bane_bounds g img lo hi y c : real_geom g -> wf g -> in_image g y c ->
  (forall y' c' w, in_image g y' c' -> img y' c' = Some w -> lo <= w <= hi) ->
  (forall b, bane_bkg g img y c = Some b -> lo <= b <= hi)
  /\ (forall s, bane_rms g img y c = Some s -> 0 <= s <= hi - lo).
Proof. intros Hg Hwf. apply bounds_abstract; est_hyps. Qed.

Lemma bane_constant g img k y c : real_geom g -> wf g -> (2 <= nr g)%Z -> (2 <= nc g)%Z -> in_image g y c ->
  (forall y' c', in_image g y' c' -> img y' c' = Some k) ->
  bane_bkg g img y c = Some k /\ bane_rms g img y c = Some 0.
Proof. intros Hg Hwf. apply constant_abstract; est_hyps. Qed.

Lemma bane_mask_nan g img y c : dm g = true -> img y c = None -> bane_bkg g img y c = None /\ bane_rms g img y c = None.
Proof. apply mask_nan_abstract. Qed.

Lemma bane_far_finite g img y c : real_geom g -> wf g -> (2 <= nr g)%Z -> (2 <= nc g)%Z -> in_image g y c ->
  (forall y' c', in_image g y' c' -> near g 1 y c y' c' -> img y' c' <> None) ->
  bane_bkg g img y c <> None /\ bane_rms g img y c <> None.
Proof. intros Hg Hwf. apply far_finite_abstract; est_hyps. Qed.

Lemma bane_no_blank g img y c : real_geom g -> wf g -> (2 <= nr g)%Z -> (2 <= nc g)%Z -> in_image g y c ->
  (forall y' c', in_image g y' c' -> img y' c' <> None) -> bane_bkg g img y c <> None /\ bane_rms g img y c <> None.
Proof. intros Hg Hwf. apply no_blank_abstract; est_hyps. Qed.

Lemma bane_shape g (t : list (list (option Q))) est_b est_r :
  let o := run QC est_b est_r g (of_table t) in
  (length (fst o) = Z.to_nat (nr g) /\ Forall (fun row => length row = Z.to_nat (nc g)) (fst o))
  /\ (length (snd o) = Z.to_nat (nr g) /\ Forall (fun row => length row = Z.to_nat (nc g)) (snd o)).
Proof. cbv zeta. rewrite run_spec. cbn [fst snd]. split; apply table_shape. Qed.

(* the executable Q version of the real code's sigma clipping computes est_mean_r / est_std_r *)
Lemma sigmaclip_q_is_r l : l <> [] ->
  let r := sigmaclip_q clip_lo clip_hi clip_lower_strict clip_upper_strict clip_reps l in
  est_mean_r (map Q2R l) = Q2R (fst r) /\ est_std_r (map Q2R l) = sqrt (Q2R (snd r)).
Proof.
  intros H. cbv zeta. unfold est_mean_r, est_std_r. destruct clip_levels_spec as [E Hp].
  assert (Hh : (0 <= clip_hi)%Z) by (rewrite <- E; exact Hp).
  rewrite (sigmaclip_q2r clip_lo clip_hi clip_lower_strict clip_upper_strict Hp Hh clip_reps l H).
  split; reflexivity.
Qed.
