(* C18 - round trip through a file.  The file formats are library code (astropy.io.ascii, votable,
   fits): they appear as Section variables with an explicit hypothesis about what comes back from
   reading the file that was written from a table; the harness validates the hypotheses with real
   round trips on every run.  astropy returns numpy.ma.masked (CMasked) for a NaN read from a VOTable
   or FITS file and for an empty string read from a text or FITS file; the loader skips masked cells,
   so the class default (NaN / '') stays.  What is proved is that Aegean's table construction followed
   by Aegean's loader gives every source back, cell by cell. *)
From Coq Require Import ZArith Bool List String Ascii Lia.
From Aegean Require Import Gen.Catalog Model.Catalog Proofs.CatalogProofs.
Import ListNotations.
Open Scope string_scope.
Open Scope Z_scope.

Section Roundtrip.
Variable F : Type.
Variable nan : F.                (* the NaN the source classes start with (numpy.nan) *)
Variable is_nan : F -> bool.
(* what writing + reading does to a float that is not NaN: the identity for csv/tab/tex/VOTable
   (double precision), rounding to binary32 for a FITS 'E' column *)
Variable rnd : F -> F.
(* what the reader of the format masks *)
Variable mask_nan : bool.        (* VOTable, FITS *)
Variable mask_empty : bool.      (* csv, tab, tex, FITS *)
Notation source := (source F).
Notation cell := (cell F).

Definition is_empty (s : string) : bool := String.eqb s "".

Definition cell_rt (c : cell) : cell :=
  match c with
  | CFlt f => if mask_nan && is_nan f then CMasked else CFlt (rnd f)
  | CStr s => if mask_empty && is_empty s then CMasked else CStr s
  | _ => c
  end.

(* ---------------- text formats and VOTable: one (dec o enc) per table *)
Section Generic.
Variable dom : table F -> Prop.          (* tables on which the library round trip is claimed *)
Variable file_rt : table F -> table F.   (* read (write t) *)
Hypothesis file_rt_spec : forall t, dom t ->
  file_rt t = map (fun '(n, col) => (n, map cell_rt col)) t.

Lemma roundtrip_generic : forall c uuids (cat : list source),
  cat <> [] ->
  (forall s, In s cat -> s_class s = c) ->
  (forall s, In s cat -> s_galactic s = false) ->
  (forall s, In s cat -> is_masked F (cell_rt (getattr F s "uuid")) = false) ->
  dom (build_table F None cat) ->
  let loaded := table_to_source_list F nan c uuids (file_rt (build_table F None cat)) in
  List.length loaded = List.length cat /\
  (forall s, In s loaded -> s_class s = c) /\
  map (as_list F) loaded =
    map (fun s => map (fun n => post F nan c n (cell_rt (getattr F s n))) (names_of_class c)) cat.
Proof.
  intros c uuids cat Hne Hc Hg Hu Hd loaded. subst loaded. rewrite (file_rt_spec _ Hd).
  change (map (fun '(n, col) => (n, map cell_rt col)) (build_table F None cat))
    with (through F (fun _ _ => cell_rt) (build_table F None cat)).
  split; [apply loaded_length|]. split; [intros s Hs; exact (loaded_class F nan c uuids _ s Hs)|].
  exact (loaded_rows F nan (fun _ _ => cell_rt) c uuids cat Hne Hc Hg Hu).
Qed.
End Generic.

(* what the round trip must give back: NaN stays NaN (when the reader masks it, the skipped attribute keeps
   the class default nan), '' stays '', every other float goes through rnd, everything else is unchanged *)
Definition expected (c : cell) : cell :=
  match c with
  | CFlt f => if mask_nan && is_nan f then CFlt nan else CFlt (rnd f)
  | _ => c
  end.

(* the attribute is one whose class default restores what the reader masked *)
Definition restorable (c : Z) (n : string) (v : cell) : Prop :=
  match v with
  | CFlt f => is_nan f = true -> getattr F (default_source F nan c "") n = CFlt nan
  | CStr s => is_empty s = true -> getattr F (default_source F nan c "") n = CStr ""
  | CMasked => False          (* a catalogue does not hold masked cells *)
  | _ => True
  end.

Lemma post_cell_rt : forall c n v, restorable c n v -> post F nan c n (cell_rt v) = expected v.
Proof.
  intros c n v H. unfold post, cell_rt, expected. destruct v; try reflexivity.
  - cbn [restorable] in H. destruct (mask_nan && is_nan f) eqn:M; cbn [is_masked]; [|reflexivity].
    apply andb_prop in M. destruct M as [_ M]. exact (H M).
  - cbn [restorable] in H. destruct (mask_empty && is_empty s) eqn:M; cbn [is_masked]; [|reflexivity].
    apply andb_prop in M. destruct M as [_ M]. rewrite (H M). unfold is_empty in M.
    apply String.eqb_eq in M. subst. reflexivity.
  - contradiction.
Qed.

(* every float attribute of `names` (all but the six of nonfloat_attrs) starts as NaN, the coordinate strings as '' *)
Lemma restorable_float : forall c n f, c = 0 \/ c = 1 \/ c = 2 -> In n (names_of_class c) ->
  ~ In n nonfloat_attrs -> restorable c n (CFlt f).
Proof. intros c n f Hc Hn Hf _. apply leaf_default_nan; assumption. Qed.

Lemma restorable_coord : forall c n s, c = 1 \/ c = 2 -> n = "ra_str" \/ n = "dec_str" -> restorable c n (CStr s).
Proof. intros c n s Hc Hn _. apply leaf_default_str; assumption. Qed.

Lemma roundtrip_restored : forall (dom : table F -> Prop) (file_rt : table F -> table F),
  (forall t, dom t -> file_rt t = map (fun '(n, col) => (n, map cell_rt col)) t) ->
  forall c uuids (cat : list source),
  cat <> [] ->
  (forall s, In s cat -> s_class s = c) ->
  (forall s, In s cat -> s_galactic s = false) ->
  (forall s, In s cat -> is_masked F (cell_rt (getattr F s "uuid")) = false) ->
  (forall s n, In s cat -> In n (names_of_class c) -> restorable c n (getattr F s n)) ->
  dom (build_table F None cat) ->
  map (as_list F) (table_to_source_list F nan c uuids (file_rt (build_table F None cat))) =
  map (fun s => map expected (as_list F s)) cat.
Proof.
  intros dom file_rt H c uuids cat Hne Hc Hg Hu Hr Hd.
  destruct (roundtrip_generic dom file_rt H c uuids cat Hne Hc Hg Hu Hd) as [_ [_ E]]. rewrite E.
  apply map_ext_in. intros s Hs. unfold as_list. rewrite (Hc s Hs), map_map.
  apply map_ext_in. intros n Hn. apply post_cell_rt. apply Hr; assumption.
Qed.

(* ---------------- FITS: Aegean chooses the column formats; the library stores each column in its format
   and masks NaN / '' on reading *)
Section Fits.
Variable of_int : Z -> F.                 (* an integer stored in an 'E' column *)
Definition fits_cell (f : fitsfmt) (c : cell) : cell :=
  match c with
  | CStr s => let t := match f with FA w => truncate w s | _ => s end in   (* a longer string is cut *)
              if is_empty t then CMasked else CStr t
  | CFlt x => match f with FE => if is_nan x then CMasked else CFlt (rnd x) | _ => c end
  | CInt z => match f with FE => CFlt (of_int z) | _ => c end
  | _ => c
  end.
Definition fits_columns (t : table F) : list (string * fitsfmt * list cell) :=
  map (fun '(n, col) => (n, fits_format F n col, col)) t.
Variable fdom : list (string * fitsfmt * list cell) -> Prop.
Variable fits_rt : list (string * fitsfmt * list cell) -> table F.
Hypothesis fits_rt_spec : forall cols, fdom cols ->
  fits_rt cols = map (fun '(n, f, col) => (n, map (fits_cell f) col)) cols.

(* what the reader hands to the loader: strings and integers unchanged (the empty string masked), floats
   rounded (NaN masked), the integer -1 of an err_ column as a float *)
Definition fits_read (n : string) (c : cell) : cell :=
  match c with
  | CFlt x => if is_nan x then CMasked else CFlt (rnd x)
  | CInt z => if startswith "err_" n then CFlt (of_int z) else CInt z
  | CStr s => if is_empty s then CMasked else CStr s
  | _ => c
  end.
(* and what the loader makes of it when the attribute is restorable *)
Definition fits_expected (n : string) (c : cell) : cell :=
  match c with
  | CFlt x => if is_nan x then CFlt nan else CFlt (rnd x)
  | CInt z => if startswith "err_" n then CFlt (of_int z) else CInt z
  | _ => c
  end.

Lemma fits_cell_read : forall n (col : list cell) c,
  homogeneous F col -> In c col -> (n = "uuid" -> exists u, c = CStr u) ->
  fits_cell (fits_format F n col) c = fits_read n c.
Proof.
  intros n col c Hh Hin Hu. rewrite leaf_fits_format. unfold fits_read.
  assert (Hw : forall s, In (CStr s) col -> truncate (Nat.max 1 (max_len F col)) s = s).
  { intros s Hs. apply truncate_id. pose proof (max_len_ge F col s Hs). lia. }
  destruct (startswith "err_" n) eqn:Ee.
  - destruct c; reflexivity.
  - destruct (String.eqb n "uuid") eqn:En.
    + apply String.eqb_eq in En. destruct (Hu En) as [u ->]. cbn [orb fits_cell]. cbv zeta.
      rewrite (Hw u Hin). reflexivity.
    + cbn [orb]. specialize (Hh c Hin).
      destruct (first_cell F col) eqn:Ef; cbn [cell_isinstance Z.eqb Pos.eqb orb] in *;
        destruct c; cbn [cell_tag] in Hh; try discriminate; cbn [fits_cell]; try reflexivity.
      cbv zeta. match goal with H : In (CStr ?x) col |- _ => rewrite (Hw x H) end. reflexivity.
Qed.

Lemma post_fits_read : forall c n v, restorable c n v -> post F nan c n (fits_read n v) = fits_expected n v.
Proof.
  intros c n v H. unfold post, fits_read, fits_expected. destruct v; try reflexivity.
  - destruct (startswith "err_" n); reflexivity.
  - cbn [restorable] in H. destruct (is_nan f) eqn:N; cbn [is_masked]; [exact (H eq_refl)|reflexivity].
  - cbn [restorable] in H. destruct (is_empty s) eqn:M; cbn [is_masked]; [|reflexivity].
    rewrite (H eq_refl). unfold is_empty in M. apply String.eqb_eq in M. subst. reflexivity.
  - contradiction.
Qed.

Lemma roundtrip_fits : forall c uuids (cat : list source),
  cat <> [] ->
  (forall s, In s cat -> s_class s = c) ->
  (forall s, In s cat -> s_galactic s = false) ->
  (forall n, In n (names_of_class c) -> homogeneous F (map (fun s => getattr F s n) cat)) ->
  (forall s, In s cat -> exists u, getattr F s "uuid" = CStr u /\ is_empty u = false) ->
  (forall s n, In s cat -> In n (names_of_class c) -> restorable c n (getattr F s n)) ->
  fdom (fits_columns (build_table F None cat)) ->
  let loaded := table_to_source_list F nan c uuids (fits_rt (fits_columns (build_table F None cat))) in
  List.length loaded = List.length cat /\
  (forall s, In s loaded -> s_class s = c) /\
  map (as_list F) loaded = map (fun s => map (fun n => fits_expected n (getattr F s n)) (names_of_class c)) cat.
Proof.
  intros c uuids cat Hne Hc Hg Hh Hu Hr Hd loaded. subst loaded. rewrite (fits_rt_spec _ Hd).
  assert (E : map (fun '(n, f, col) => (n, map (fits_cell f) col)) (fits_columns (build_table F None cat)) =
              through F (fun n col => fits_cell (fits_format F n col)) (build_table F None cat)).
  { unfold fits_columns, through. rewrite map_map. apply map_ext. intros [n col]. reflexivity. }
  rewrite E. split; [apply loaded_length|]. split; [intros s Hs; exact (loaded_class F nan c uuids _ s Hs)|].
  assert (Hin : forall s n, In s cat -> In (getattr F s n) (map (fun s' => getattr F s' n) cat)).
  { intros s n Hs. apply in_map_iff. exists s. split; [reflexivity|exact Hs]. }
  assert (Huu : In "uuid" (names_of_class c)).
  { unfold names_of_class. destruct (c =? 2); [|destruct (c =? 1)]; apply str_in_In; reflexivity. }
  rewrite (loaded_rows F nan _ c uuids cat Hne Hc Hg).
  - apply map_ext_in. intros s Hs. apply map_ext_in. intros n Hn.
    rewrite fits_cell_read.
    + apply post_fits_read. apply Hr; assumption.
    + apply Hh. exact Hn.
    + apply Hin. exact Hs.
    + intros ->. destruct (Hu s Hs) as [u [Eu _]]. exists u. exact Eu.
  - intros s Hs. destruct (Hu s Hs) as [u [Eu Ne]].
    rewrite fits_cell_read; [|apply Hh; exact Huu|apply Hin; exact Hs|intros _; exists u; exact Eu].
    rewrite Eu. cbn [fits_read]. rewrite Ne. reflexivity.
Qed.
End Fits.

End Roundtrip.

(* value-exact formats that mask nothing the catalogue holds... : with rnd the identity and no NaN masking
   (csv, tab, tex) `expected` is the identity, so every cell - NaN and the -1 marker included - comes back *)
Lemma expected_id : forall F (nan : F) is_nan (c : cell F),
  expected F nan is_nan (fun x => x) false c = c.
Proof. intros F nan is_nan c. destruct c; reflexivity. Qed.
