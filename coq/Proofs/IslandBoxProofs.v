From Coq Require Import ZArith Bool List Lia.
From Aegean Require Import Gen.Islands Gen.IslandBox Model.IslandModel Model.IslandBox Proofs.IslandProofs.
Import ListNotations.
Open Scope Z_scope.

(* ---- one characterising lemma per generated leaf ---- *)
Lemma cbb_axis_0_spec : cbb_axis_0 = 1. Proof. reflexivity. Qed.
Lemma cbb_axis_1_spec : cbb_axis_1 = 0. Proof. reflexivity. Qed.
Lemma cbb_off_0_spec : cbb_off_0 = 0. Proof. reflexivity. Qed.
Lemma cbb_off_1_spec : cbb_off_1 = 1. Proof. reflexivity. Qed.
Lemma cbb_lo_0_spec off f l : cbb_lo_0 off f l = off + f. Proof. unfold cbb_lo_0. lia. Qed.
Lemma cbb_hi_0_spec off f l : cbb_hi_0 off f l = off + l + 1. Proof. unfold cbb_hi_0. lia. Qed.
Lemma cbb_lo_1_spec off f l : cbb_lo_1 off f l = off + f. Proof. unfold cbb_lo_1. lia. Qed.
Lemma cbb_hi_1_spec off f l : cbb_hi_1 off f l = off + l + 1. Proof. unfold cbb_hi_1. lia. Qed.
Lemma set_mask_spec : set_mask_stores_argument = true. Proof. reflexivity. Qed.
Local Opaque cbb_axis_0 cbb_axis_1 cbb_off_0 cbb_off_1 cbb_lo_0 cbb_hi_0 cbb_lo_1 cbb_hi_1.

Lemma fold_min_shift k a t :
  fold_right Z.min (a - k) (map (fun x => x - k) t) = fold_right Z.min a t - k.
Proof. induction t as [|x t IH]; cbn [map fold_right]; [reflexivity|]. rewrite IH. lia. Qed.
Lemma fold_max_shift k a t :
  fold_right Z.max (a - k) (map (fun x => x - k) t) = fold_right Z.max a t - k.
Proof. induction t as [|x t IH]; cbn [map fold_right]; [reflexivity|]. rewrite IH. lia. Qed.

Lemma first_rows p t r0 c0 :
  first_index (map fst (rel_pixels (p :: t) r0 c0)) = fold_right Z.min (fst p) (map fst t) - r0.
Proof.
  unfold rel_pixels. cbn [map first_index fst]. rewrite map_map. cbn [fst].
  rewrite <- (map_map fst (fun x => x - r0)). apply fold_min_shift.
Qed.
Lemma last_rows p t r0 c0 :
  last_index (map fst (rel_pixels (p :: t) r0 c0)) = fold_right Z.max (fst p) (map fst t) - r0.
Proof.
  unfold rel_pixels. cbn [map last_index fst]. rewrite map_map. cbn [fst].
  rewrite <- (map_map fst (fun x => x - r0)). apply fold_max_shift.
Qed.
Lemma first_cols p t r0 c0 :
  first_index (map snd (rel_pixels (p :: t) r0 c0)) = fold_right Z.min (snd p) (map snd t) - c0.
Proof.
  unfold rel_pixels. cbn [map first_index snd]. rewrite map_map. cbn [snd].
  rewrite <- (map_map snd (fun x => x - c0)). apply fold_min_shift.
Qed.
Lemma last_cols p t r0 c0 :
  last_index (map snd (rel_pixels (p :: t) r0 c0)) = fold_right Z.max (snd p) (map snd t) - c0.
Proof.
  unfold rel_pixels. cbn [map last_index snd]. rewrite map_map. cbn [snd].
  rewrite <- (map_map snd (fun x => x - c0)). apply fold_max_shift.
Qed.

(* calc_bounding_box on the own pixels of ANY cut-out that starts at (r0, c0) is the tight box of the island:
   the offsets cancel, so the result does not depend on the cut-out at all *)
Lemma calc_box_any_cutout : forall (I : list pix) r0 c0, I <> [] ->
  calc_bounding_box (rel_pixels I r0 c0) r0 c0 = bbox I.
Proof.
  intros I r0 c0 Hne. destruct I as [|p t]; [congruence|].
  unfold calc_bounding_box, any_indices, offset_of.
  rewrite cbb_axis_0_spec, cbb_axis_1_spec, cbb_off_0_spec, cbb_off_1_spec.
  rewrite cbb_lo_0_spec, cbb_hi_0_spec, cbb_lo_1_spec, cbb_hi_1_spec.
  change (1 =? 1) with true. change (0 =? 1) with false. change (0 =? 0) with true. change (1 =? 0) with false.
  cbv iota. rewrite first_rows, last_rows, first_cols, last_cols. cbn [bbox].
  f_equal; [f_equal; [f_equal|]|]; lia.
Qed.

Lemma reported_box_is_bbox : forall (I : list pix), I <> [] -> reported_box I = bbox I.
Proof.
  intros I Hne. unfold reported_box. destruct (bbox I) as [[[r0 r1] c0] c1] eqn:Eb.
  rewrite <- Eb. apply calc_box_any_cutout. exact Hne.
Qed.

Lemma reported_box_tight : forall (I : list pix) r0 r1 c0 c1, I <> [] -> reported_box I = (r0, r1, c0, c1) ->
  (forall p, In p I -> r0 <= fst p < r1 /\ c0 <= snd p < c1) /\
  (exists p, In p I /\ fst p = r0) /\ (exists p, In p I /\ fst p = r1 - 1) /\
  (exists p, In p I /\ snd p = c0) /\ (exists p, In p I /\ snd p = c1 - 1).
Proof.
  intros I r0 r1 c0 c1 Hne H. rewrite (reported_box_is_bbox I Hne) in H. exact (bbox_tight I r0 r1 c0 c1 Hne H).
Qed.

(* every island of an image reports its tight box *)
Lemma island_reports_tight_box : forall img fl sd I, In I (islands img fl sd) -> reported_box I = bbox I.
Proof.
  intros img fl sd I H. apply reported_box_is_bbox. apply islands_sound in H as (Hne & _). exact Hne.
Qed.
