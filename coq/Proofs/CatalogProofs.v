(* C18 - lemmas about Model/Catalog.v.  First one characterising lemma per generated leaf
   (by computation), then the leaves are made opaque and everything else uses only those lemmas. *)
From Coq Require Import ZArith Bool List String Ascii Lia Permutation.
From Aegean Require Import Gen.Catalog Model.Catalog.
Import ListNotations.
Open Scope string_scope.
Open Scope Z_scope.

(* ================================================================ leaf lemmas *)
Lemma leaf_classify_one : forall c,
  classify_one classify_tests c =
  if c =? 2 then Some 0 else if c =? 1 then Some 1 else if c =? 0 then Some 2 else None.
Proof.
  intro c.
  destruct (Z.eq_dec c 2) as [->|N2]; [reflexivity|].
  destruct (Z.eq_dec c 1) as [->|N1]; [reflexivity|].
  destruct (Z.eq_dec c 0) as [->|N0]; [reflexivity|].
  assert (H : (0 <=? c) && (c <? 3) = false).
  { destruct (0 <=? c) eqn:A; [|reflexivity]. destruct (c <? 3) eqn:B; [|reflexivity].
    apply Z.leb_le in A. apply Z.ltb_lt in B. lia. }
  assert (E2 : c =? 2 = false) by (apply Z.eqb_neq; exact N2).
  assert (E1 : c =? 1 = false) by (apply Z.eqb_neq; exact N1).
  assert (E0 : c =? 0 = false) by (apply Z.eqb_neq; exact N0).
  rewrite E2, E1, E0.
  unfold classify_tests, classify_one, isinstance. rewrite H. reflexivity.
Qed.

Lemma leaf_classify_return : classify_return = [0; 1; 2].
Proof. reflexivity. Qed.

Lemma leaf_write_blocks : write_blocks = [(0, "_comp"); (1, "_isle"); (2, "_simp")].
Proof. reflexivity. Qed.

Lemma leaf_write_min_len : write_min_len = 1.
Proof. reflexivity. Qed.

Lemma leaf_name_layout : forall suffix root ext,
  concat "" (map (fun i => nth (Z.to_nat i) [suffix; root; ext] "") name_layout) = root ++ suffix ++ ext.
Proof. intros. reflexivity. Qed.

Lemma leaf_db_nulls_on_rows : db_nulls_on_rows = true.
Proof. reflexivity. Qed.

Lemma leaf_db_table_names : db_table_names = ["components"; "islands"; "simples"].
Proof. reflexivity. Qed.

Lemma leaf_prefix_sep : prefix_sep = "_".
Proof. reflexivity. Qed.

(* the writer / reader chosen for every extension that load_table accepts *)
Lemma leaf_dispatch :
  map (fun e => (writer_code (save_writer e), load_reader e)) ["csv"; "tab"; "tex"; "vo"; "vot"; "xml"; "fits"] =
  [((3, "csv"), Some 0); ((3, "tab"), Some 0); ((3, "latex"), Some 0);
   ((0, "vo"), Some 1); ((0, "vot"), Some 1); ((0, "xml"), Some 1); ((2, "fits"), Some 1)].
Proof. reflexivity. Qed.

Lemma leaf_dispatch_other :
  map (fun e => writer_code (save_writer e)) ["db"; "sqlite"; "ann"; "reg"; "html"; "hdf5"; "bla"; ""] =
  [(-1, ""); (-1, ""); (-2, ""); (-2, ""); (3, "html"); (1, "hdf5"); (3, "tab"); (3, "tab")]
  /\ map load_reader ["db"; "sqlite"; "ann"; "reg"; "html"; "hdf5"; "bla"; ""] =
     [None; None; None; None; None; None; None; None].
Proof. split; reflexivity. Qed.

Lemma leaf_ext_lowered : ext_lowered = true /\ load_ext_lowered = true.
Proof. split; reflexivity. Qed.

(* galactic renaming of the three names lists *)
Lemma leaf_rename_component : map rename names_component =
  ["island"; "source"; "background"; "local_rms"; "lon_str"; "lat_str"; "lon"; "err_lon"; "lat"; "err_lat";
   "peak_flux"; "err_peak_flux"; "int_flux"; "err_int_flux"; "a"; "err_a"; "b"; "err_b"; "pa"; "err_pa";
   "flags"; "residual_mean"; "residual_std"; "uuid"; "psf_a"; "psf_b"; "psf_pa"].
Proof. reflexivity. Qed.

Fixpoint nodupb (l : list string) : bool :=
  match l with [] => true | x :: t => negb (str_in x t) && nodupb t end.
Lemma str_in_In : forall x l, str_in x l = true <-> In x l.
Proof.
  intros x l. unfold str_in. rewrite existsb_exists. split.
  - intros [y [Hy E]]. apply String.eqb_eq in E. subst. exact Hy.
  - intro H. exists x. split; [exact H|apply String.eqb_refl].
Qed.
Lemma nodupb_NoDup : forall l, nodupb l = true -> NoDup l.
Proof.
  induction l as [|x t IH]; intro H; [constructor|].
  cbn [nodupb] in H. apply andb_prop in H. destruct H as [H1 H2].
  constructor; [|apply IH; exact H2].
  intro HI. apply str_in_In in HI. rewrite HI in H1. discriminate.
Qed.

Lemma leaf_names_nodup : forall (c : Z) (gal : bool),
  nodupb (map (fun n => if gal then rename n else n) (names_of_class c)) = true.
Proof.
  intros c gal. unfold names_of_class.
  destruct (c =? 2); [|destruct (c =? 1)]; destruct gal; reflexivity.
Qed.

Lemma leaf_names_nonempty : forall c, names_of_class c <> [].
Proof. intro c. unfold names_of_class. destruct (c =? 2); [|destruct (c =? 1)]; discriminate. Qed.

Lemma leaf_names_of_class : names_of_class 2 = names_component /\ names_of_class 1 = names_island
  /\ names_of_class 0 = names_simple.
Proof. repeat split. Qed.

(* FITS column typing with the generated chain *)
Lemma leaf_fits_format : forall F name (col : list (cell F)),
  fits_format F name col =
  if startswith "err_" name then FE
  else if String.eqb name "uuid" || cell_isinstance F (first_cell F col) 3 then FA (Nat.max 1 (max_len F col))
  else match first_cell F col with
       | CBool _ => FL | CInt _ => FJ | CFlt _ => FE | CStr s => FA (String.length s) | _ => FA 5
       end.
Proof.
  intros F name col. unfold fits_format, fits_format_gen.
  change fits_err_prefix with "err_". change fits_uuid_name with "uuid".
  change fits_str_first_rule with true. change fits_width_all_rows with true.
  change (Z.to_nat fits_min_width) with 1%nat.
  destruct (startswith "err_" name); [reflexivity|].
  rewrite andb_true_l.
  destruct (String.eqb name "uuid" || cell_isinstance F (first_cell F col) 3); [reflexivity|].
  destruct (first_cell F col); reflexivity.
Qed.

(* the rule before the repair (first row unless the column is called uuid) *)
Lemma old_fits_format : forall F name (col : list (cell F)),
  fits_format_gen F false true name col =
  if startswith "err_" name then FE
  else if String.eqb name "uuid" then FA (Nat.max (Z.to_nat fits_min_width) (max_len F col))
  else match first_cell F col with
       | CBool _ => FL | CInt _ => FJ | CFlt _ => FE | CStr s => FA (String.length s) | _ => FA 5
       end.
Proof.
  intros F name col. unfold fits_format_gen.
  change fits_err_prefix with "err_". change fits_uuid_name with "uuid".
  destruct (startswith "err_" name); [reflexivity|].
  rewrite andb_false_l, orb_false_r.
  destruct (String.eqb name "uuid"); [reflexivity|].
  destruct (first_cell F col); reflexivity.
Qed.

Lemma leaf_loader_skips_masked : loader_skips_masked = true.
Proof. reflexivity. Qed.

Lemma leaf_fits_min_width : fits_min_width = 1.
Proof. reflexivity. Qed.

(* class defaults (SimpleSource.__init__ then the subclass __init__): only uuid depends on the fresh uuid4 *)
Lemma leaf_default_static : forall F (nan : F) c u n, n <> "uuid" ->
  getattr F (default_source F nan c u) n = getattr F (default_source F nan c "") n.
Proof.
  intros F nan c u n Hn. unfold default_source, getattr, init_of_class. cbn [s_attr].
  assert (Eu : String.eqb n "uuid" = false) by (apply String.eqb_neq; exact Hn).
  destruct (c =? 2); [|destruct (c =? 1)]; cbn; rewrite ?Eu;
    repeat match goal with
           | |- context [String.eqb n ?k] => destruct (String.eqb n k); [reflexivity|]
           end; reflexivity.
Qed.

Definition nonfloat_attrs : list string := ["island"; "source"; "flags"; "ra_str"; "dec_str"; "uuid"].

(* every other attribute listed in `names` starts as NaN; the coordinate strings start as '' *)
Lemma leaf_default_nan : forall F (nan : F) c n, c = 0 \/ c = 1 \/ c = 2 ->
  In n (names_of_class c) -> ~ In n nonfloat_attrs ->
  getattr F (default_source F nan c "") n = CFlt nan.
Proof.
  intros F nan c n Hc Hin Hnf.
  destruct Hc as [-> | [-> | ->]]; cbn in Hin;
    repeat (destruct Hin as [<-|Hin]; [first [reflexivity | exfalso; apply Hnf; cbn; tauto]|]); contradiction.
Qed.

Lemma leaf_default_str : forall F (nan : F) c n, c = 1 \/ c = 2 -> n = "ra_str" \/ n = "dec_str" ->
  getattr F (default_source F nan c "") n = CStr "".
Proof. intros F nan c n [-> | ->] [-> | ->]; reflexivity. Qed.

Global Opaque classify_tests classify_return write_blocks write_min_len name_layout db_nulls_on_rows
  db_table_names prefix_sep galactic_rules fits_type_chain fits_str_first_rule fits_width_all_rows
  fits_err_prefix fits_uuid_name fits_fallback_width save_dispatch writer_dispatch load_dispatch
  table_formats ascii_table_formats names_component names_island names_simple loader_skips_masked fits_min_width
  init_simple init_island init_component.

(* ================================================================ strings *)
Lemma sl_app : forall a b, sl (a ++ b)%list = sl a ++ sl b.
Proof. induction a as [|x a IH]; intro b; [reflexivity|]. unfold sl in *. cbn. rewrite IH. reflexivity. Qed.

Lemma sl_la : forall s, sl (la s) = s.
Proof. intro s. apply string_of_list_ascii_of_string. Qed.

Lemma la_length : forall s, List.length (la s) = String.length s.
Proof. induction s as [|c s IH]; [reflexivity|]. unfold la in *. cbn. rewrite IH. reflexivity. Qed.

Lemma append_inj_l : forall p a b, p ++ a = p ++ b -> a = b.
Proof. induction p as [|c p IH]; intros a b H; cbn in H; [exact H|]. injection H as H. apply IH. exact H. Qed.

Lemma append_length : forall a b, String.length (a ++ b) = (String.length a + String.length b)%nat.
Proof. induction a as [|c a IH]; intro b; cbn; [reflexivity|]. rewrite IH. reflexivity. Qed.

Lemma append_inj_r_samelen : forall a b x y, String.length a = String.length b -> a ++ x = b ++ y -> a = b /\ x = y.
Proof.
  induction a as [|c a IH]; intros [|d b] x y L H; cbn in *; try discriminate.
  - split; [reflexivity|exact H].
  - injection H as -> H. injection L as L. destruct (IH b x y L H) as [-> ->]. split; reflexivity.
Qed.

Definition truncate (w : nat) (s : string) : string := sl (firstn w (la s)).
Lemma truncate_id : forall w s, (String.length s <= w)%nat -> truncate w s = s.
Proof.
  intros w s H. unfold truncate. rewrite firstn_all2; [apply sl_la|]. rewrite la_length. exact H.
Qed.

(* ================================================================ splitext / names *)
Lemma splitext_l_app : forall p r e, splitext_l p = (r, e) -> p = (r ++ e)%list.
Proof.
  intros p r e. unfold splitext_l.
  destruct (rfind is_dot p) as [d|].
  - destruct (_ <=? d)%nat.
    + destruct (existsb _ _); intro H; injection H as <- <-.
      * symmetry. apply firstn_skipn.
      * symmetry. apply app_nil_r.
    + intro H; injection H as <- <-. symmetry. apply app_nil_r.
  - intro H; injection H as <- <-. symmetry. apply app_nil_r.
Qed.

Lemma splitext_app : forall p r e, splitext p = (r, e) -> p = r ++ e.
Proof.
  intros p r e. unfold splitext. destruct (splitext_l (la p)) as [r' e'] eqn:E.
  intro H; injection H as <- <-. apply splitext_l_app in E.
  rewrite <- sl_app, <- E. symmetry. apply sl_la.
Qed.

Lemma out_name_spec : forall sfx filename root ext, splitext filename = (root, ext) ->
  out_name sfx filename = root ++ sfx ++ ext.
Proof. intros sfx f root ext H. unfold out_name. rewrite H. apply leaf_name_layout. Qed.

Definition suffixes : list string := map snd [(0, "_comp"); (1, "_isle"); (2, "_simp")].

Lemma out_name_injective : forall filename s1 s2, In s1 suffixes -> In s2 suffixes ->
  out_name s1 filename = out_name s2 filename -> s1 = s2.
Proof.
  intros f s1 s2 H1 H2 E. destruct (splitext f) as [root ext] eqn:S.
  rewrite (out_name_spec s1 f root ext S), (out_name_spec s2 f root ext S) in E.
  apply append_inj_l in E.
  assert (L : String.length s1 = String.length s2).
  { cbn in H1, H2. repeat (destruct H1 as [<-|H1]; [|]); try contradiction;
      repeat (destruct H2 as [<-|H2]; [|]); try contradiction; reflexivity. }
  destruct (append_inj_r_samelen s1 s2 ext ext L E) as [-> _]. reflexivity.
Qed.

Lemma map_seq_nth : forall (A B : Type) (l : list A) (d : A) (f : nat -> B) (g : A -> B),
  (forall i, (i < List.length l)%nat -> f i = g (nth i l d)) -> map f (seq 0 (List.length l)) = map g l.
Proof.
  intros A B l d. induction l as [|x l IH]; intros f g H; [reflexivity|].
  cbn [List.length seq map]. rewrite <- seq_shift, map_map. f_equal.
  - apply (H 0%nat). cbn. lia.
  - apply IH. intros i Hi. apply (H (S i)). cbn. lia.
Qed.

Lemma nth_map_in : forall (A B : Type) (g : A -> B) (l : list A) i d d',
  (i < List.length l)%nat -> nth i (map g l) d = g (nth i l d').
Proof.
  intros A B g l i d d' H. rewrite (nth_indep _ d (g d')) by (rewrite map_length; exact H). apply map_nth.
Qed.

(* ================================================================ classify *)
Section WithF.
Variable F : Type.
Variable nan : F.
Variable flt_eq_int : F -> Z -> bool.
Notation source := (source F).
Notation cell := (cell F).

Definition is_class (k : Z) (s : source) : bool := s_class s =? k.

Lemma classify_fold : forall cat a b c,
  fold_left (classify_step F) cat (a, b, c) =
  ((a ++ filter (is_class 2) cat)%list, (b ++ filter (is_class 1) cat)%list, (c ++ filter (is_class 0) cat)%list).
Proof.
  induction cat as [|x cat IH]; intros a b c.
  - cbn. rewrite !app_nil_r. reflexivity.
  - cbn [fold_left classify_step filter]. rewrite leaf_classify_one.
    change (is_class 2 x) with (s_class x =? 2). change (is_class 1 x) with (s_class x =? 1).
    change (is_class 0 x) with (s_class x =? 0).
    destruct (s_class x =? 2) eqn:E2.
    + apply Z.eqb_eq in E2. rewrite E2. cbn [Z.eqb Pos.eqb]. rewrite IH, <- app_assoc. reflexivity.
    + destruct (s_class x =? 1) eqn:E1.
      * apply Z.eqb_eq in E1. rewrite E1. cbn [Z.eqb Pos.eqb]. rewrite IH, <- app_assoc. reflexivity.
      * destruct (s_class x =? 0) eqn:E0; rewrite IH; [rewrite <- app_assoc|]; reflexivity.
Qed.

Lemma classify_spec : forall cat,
  classify F cat = [filter (is_class 2) cat; filter (is_class 1) cat; filter (is_class 0) cat].
Proof. intro cat. unfold classify. rewrite leaf_classify_return, classify_fold. reflexivity. Qed.

Lemma partition3_perm : forall cat : list source,
  Forall (fun s => 0 <= s_class s <= 2) cat ->
  Permutation (filter (is_class 2) cat ++ filter (is_class 1) cat ++ filter (is_class 0) cat)%list cat.
Proof.
  induction cat as [|x cat IH]; intro H; [constructor|].
  inversion H as [|? ? Hx Hc]; subst. specialize (IH Hc).
  cbn [filter].
  change (is_class 2 x) with (s_class x =? 2). change (is_class 1 x) with (s_class x =? 1).
  change (is_class 0 x) with (s_class x =? 0).
  destruct (s_class x =? 2) eqn:E2.
  - apply Z.eqb_eq in E2. rewrite E2. cbn [Z.eqb Pos.eqb]. cbn [app]. constructor. exact IH.
  - destruct (s_class x =? 1) eqn:E1.
    + apply Z.eqb_eq in E1. rewrite E1. cbn [Z.eqb Pos.eqb].
      apply Permutation_sym. apply Permutation_trans with (x :: filter (is_class 2) cat ++ filter (is_class 1) cat ++ filter (is_class 0) cat)%list.
      * constructor. apply Permutation_sym. exact IH.
      * apply (Permutation_middle (filter (is_class 2) cat) (filter (is_class 1) cat ++ filter (is_class 0) cat)%list x).
    + assert (E0 : s_class x =? 0 = true).
      { apply Z.eqb_eq. apply Z.eqb_neq in E2. apply Z.eqb_neq in E1. lia. }
      rewrite E0. apply Permutation_sym.
      apply Permutation_trans with (x :: filter (is_class 2) cat ++ filter (is_class 1) cat ++ filter (is_class 0) cat)%list.
      * constructor. apply Permutation_sym. exact IH.
      * rewrite !app_assoc.
        apply (Permutation_middle (filter (is_class 2) cat ++ filter (is_class 1) cat)%list (filter (is_class 0) cat) x).
Qed.

Definition file_if (name : string) (l : list source) : list (string * list source) :=
  match l with [] => [] | _ => [(name, l)] end.

Lemma min_len_guard : forall (name : string) (l : list source),
  (if 1 <=? Z.of_nat (List.length l) then [(name, l)] else []) = file_if name l.
Proof.
  intros name l. destruct l as [|x l]; [reflexivity|].
  replace (1 <=? Z.of_nat (List.length (x :: l))) with true; [reflexivity|].
  symmetry. apply Z.leb_le. cbn [List.length]. lia.
Qed.

Lemma write_files_spec : forall filename cat,
  write_files F filename cat =
  (file_if (out_name "_comp" filename) (filter (is_class 2) cat) ++
   file_if (out_name "_isle" filename) (filter (is_class 1) cat) ++
   file_if (out_name "_simp" filename) (filter (is_class 0) cat))%list.
Proof.
  intros filename cat. unfold write_files. rewrite classify_spec, leaf_write_blocks, leaf_write_min_len.
  cbn [flat_map].
  change (Z.to_nat 0) with 0%nat. change (Z.to_nat 1) with 1%nat. change (Z.to_nat 2) with 2%nat.
  cbn [nth]. rewrite !min_len_guard, app_nil_r. reflexivity.
Qed.

Lemma filter_class : forall k (cat : list source) s, In s (filter (is_class k) cat) -> s_class s = k.
Proof. intros k cat s H. apply filter_In in H. destruct H as [_ H]. apply Z.eqb_eq. exact H. Qed.

(* ================================================================ columns *)
Lemma build_table_names : forall pre (s0 : source) rest,
  map fst (build_table F pre (s0 :: rest)) =
  map (col_name pre (s_galactic s0)) (names_of_class (s_class s0)).
Proof. intros. unfold build_table. rewrite map_map. reflexivity. Qed.

Lemma build_table_lengths : forall pre (cat : list source) n col,
  In (n, col) (build_table F pre cat) -> List.length col = List.length cat.
Proof.
  intros pre cat n col H. destruct cat as [|s0 rest]; [contradiction|].
  unfold build_table in H. apply in_map_iff in H. destruct H as [m [E _]].
  injection E as _ <-. apply (map_length (fun s => getattr F s m) (s0 :: rest)).
Qed.

Lemma col_names_nodup : forall pre gal c, NoDup (map (col_name pre gal) (names_of_class c)).
Proof.
  intros pre gal c.
  assert (H := nodupb_NoDup _ (leaf_names_nodup c gal)).
  unfold col_name.
  rewrite <- (map_map (fun n => if gal then rename n else n) (fun m => pre_string pre ++ m)).
  apply FinFun.Injective_map_NoDup; [|exact H].
  intros a b E. apply append_inj_l in E. exact E.
Qed.

(* every cell of the written table is the attribute of the corresponding source, untouched *)
Lemma build_table_cells : forall pre (s0 : source) rest n,
  In n (names_of_class (s_class s0)) ->
  In (col_name pre (s_galactic s0) n, map (fun s => getattr F s n) (s0 :: rest)) (build_table F pre (s0 :: rest)).
Proof.
  intros pre s0 rest n H. unfold build_table. apply in_map_iff. exists n. split; [reflexivity|exact H].
Qed.

(* ================================================================ FITS string width *)
Lemma max_len_ge : forall (col : list cell) s, In (CStr s) col -> (String.length s <= max_len F col)%nat.
Proof.
  induction col as [|c col IH]; intros s H; [contradiction|].
  cbn [max_len fold_right]. destruct H as [->|H].
  - cbn [cell_len]. apply Nat.le_max_l.
  - specialize (IH s H). unfold max_len in IH. lia.
Qed.

Definition cell_tag (c : cell) : Z :=
  match c with CBool _ => 0 | CInt _ => 1 | CFlt _ => 2 | CStr _ => 3 | CNone => 4 | CList => 5 | CMasked => 6 end.
(* what numpy guarantees for a table column: one dtype *)
Definition homogeneous (col : list cell) : Prop :=
  forall c, In c col -> cell_tag c = cell_tag (first_cell F col).

Lemma string_width : forall name (col : list cell) w,
  homogeneous col -> fits_format F name col = FA w ->
  (1 <= w)%nat /\ forall s, In (CStr s) col -> (String.length s <= w)%nat.
Proof.
  intros name col w Hh Hf. rewrite leaf_fits_format in Hf.
  destruct (startswith "err_" name); [discriminate|].
  destruct (String.eqb name "uuid" || cell_isinstance F (first_cell F col) 3) eqn:E.
  - pose proof (fun s Hs => max_len_ge col s Hs) as Hm. injection Hf as Hw.
    destruct (max_len F col) as [|k]; cbn in Hw; subst w; (split; [lia|]); intros s Hs; specialize (Hm s Hs); lia.
  - apply orb_false_elim in E. destruct E as [_ E].
    destruct (first_cell F col) eqn:Ef; cbn in E; try discriminate; injection Hf as <-;
      (split; [lia|]); intros s Hs; specialize (Hh _ Hs); rewrite Ef in Hh; cbn [cell_tag] in Hh; discriminate.
Qed.

(* ================================================================ loader *)
Lemma assoc_map_key : forall (A : Type) (g : string -> A) (key : string -> string) (l : list string) n,
  (forall a b, key a = key b -> a = b) -> In n l ->
  assoc (key n) (map (fun m => (key m, g m)) l) = Some (g n).
Proof.
  intros A g key l n Hinj. induction l as [|m l IH]; intro H; [contradiction|].
  cbn [map assoc]. destruct (String.eqb (key n) (key m)) eqn:E.
  - apply String.eqb_eq in E. apply Hinj in E. subst. reflexivity.
  - destruct H as [->|H]; [rewrite String.eqb_refl in E; discriminate|]. apply IH. exact H.
Qed.

Lemma assoc_map_none : forall (A : Type) (g : string -> A) (key : string -> string) (l : list string) k,
  ~ In k (map key l) -> assoc k (map (fun m => (key m, g m)) l) = None.
Proof.
  intros A g key l k. induction l as [|m l IH]; intro H; [reflexivity|].
  cbn [map assoc]. destruct (String.eqb k (key m)) eqn:E.
  - apply String.eqb_eq in E. exfalso. apply H. left. symmetry. exact E.
  - apply IH. intro HI. apply H. right. exact HI.
Qed.

Lemma getattr_setattr_same : forall (s : source) n v, getattr F (setattr F s n v) n = v.
Proof. intros. unfold getattr, setattr. cbn. rewrite String.eqb_refl. reflexivity. Qed.

Lemma getattr_setattr_other : forall (s : source) n m v, n <> m -> getattr F (setattr F s m v) n = getattr F s n.
Proof.
  intros s n m v H. unfold getattr, setattr. cbn.
  destruct (String.eqb n m) eqn:E; [apply String.eqb_eq in E; contradiction|reflexivity].
Qed.

Lemma load_step_get : forall (t : table F) i (s : source) q p,
  getattr F (load_step F t i s q) p =
  if string_dec q p
  then match assoc q t with
       | Some col => let v := nth i col CNone in if is_masked F v then getattr F s p else v
       | None => getattr F s p
       end
  else getattr F s p.
Proof.
  intros t i s q p. unfold load_step. rewrite leaf_loader_skips_masked. cbn [andb].
  destruct (string_dec q p) as [->|N].
  - destruct (assoc p t) as [col|]; [|reflexivity]. cbv zeta.
    destruct (is_masked F (nth i col CNone)); [reflexivity|apply getattr_setattr_same].
  - destruct (assoc q t) as [col|]; [|reflexivity].
    destruct (is_masked F (nth i col CNone)); [reflexivity|]. apply getattr_setattr_other. congruence.
Qed.

(* after the copy loop attribute p holds the table cell when the column exists and the cell is not masked,
   the old value (the class default) otherwise *)
Lemma load_fold_get : forall (t : table F) i (ps : list string) (s : source) p,
  getattr F (fold_left (load_step F t i) ps s) p =
  match assoc p t with
  | Some col => if in_dec string_dec p ps
                then (let v := nth i col CNone in if is_masked F v then getattr F s p else v)
                else getattr F s p
  | None => getattr F s p
  end.
Proof.
  intros t i ps. induction ps as [|q ps IH]; intros s p.
  - cbn. destruct (assoc p t); reflexivity.
  - cbn [fold_left]. rewrite IH, !load_step_get. destruct (assoc p t) as [col|] eqn:Ep.
    + cbv zeta. destruct (in_dec string_dec p ps) as [Hin|Hnin].
      * destruct (in_dec string_dec p (q :: ps)) as [_|N]; [|exfalso; apply N; right; exact Hin].
        destruct (is_masked F (nth i col CNone)) eqn:M; [|reflexivity].
        destruct (string_dec q p) as [->|Nq]; [rewrite Ep; cbv zeta; rewrite M|]; reflexivity.
      * destruct (string_dec q p) as [->|Nq].
        -- rewrite Ep. destruct (in_dec string_dec p (p :: ps)) as [_|N]; [reflexivity|exfalso; apply N; left; reflexivity].
        -- destruct (in_dec string_dec p (q :: ps)) as [[->|Hin]|_]; try contradiction. reflexivity.
    + destruct (string_dec q p) as [->|Nq]; [rewrite Ep|]; reflexivity.
Qed.

Lemma load_fold_class : forall (t : table F) i (ps : list string) (s : source),
  s_class (fold_left (load_step F t i) ps s) = s_class s.
Proof.
  intros t i ps. induction ps as [|q ps IH]; intro s; [reflexivity|].
  cbn [fold_left]. rewrite IH. unfold load_step. destruct (assoc q t); [|reflexivity].
  destruct (_ && _); reflexivity.
Qed.

Lemma default_class : forall c u, s_class (default_source F nan c u) = c.
Proof. reflexivity. Qed.

Lemma nrows_map_cells : forall (g : cell -> cell) (t : table F),
  nrows F (map (fun '(n, col) => (n, map g col)) t) = nrows F t.
Proof. intros g [|[n col] t]; [reflexivity|]. cbn. apply map_length. Qed.

Lemma nrows_build : forall pre (cat : list source), nrows F (build_table F pre cat) = List.length cat.
Proof.
  intros pre [|s0 rest]; [reflexivity|]. unfold build_table, nrows.
  destruct (names_of_class (s_class s0)) as [|n ns] eqn:E; [exfalso; exact (leaf_names_nonempty _ E)|].
  cbn [map]. apply (map_length (fun s => getattr F s n) (s0 :: rest)).
Qed.

(* the loader applied to a table whose columns are (name, per-row function of the written cells) *)
Section Loaded.
Variable cellmap : string -> list cell -> cell -> cell.   (* what the file format does to a cell of column n *)

Definition through (t : table F) : table F := map (fun '(n, col) => (n, map (cellmap n col) col)) t.

Lemma assoc_through : forall (t : table F) k,
  assoc k (through t) = match assoc k t with Some col => Some (map (cellmap k col) col) | None => None end.
Proof.
  induction t as [|[n col] t IH]; intro k; [reflexivity|].
  cbn [through map assoc]. destruct (String.eqb k n) eqn:E.
  - apply String.eqb_eq in E. subst. reflexivity.
  - apply IH.
Qed.

Lemma nrows_through : forall t, nrows F (through t) = nrows F t.
Proof. intros [|[n col] t]; [reflexivity|]. cbn. apply map_length. Qed.

(* what the loader leaves in attribute n when the file gives back cell v: a masked cell is skipped, so the
   class default (which does not depend on the fresh uuid except for `uuid` itself) stays *)
Definition post (c : Z) (n : string) (v : cell) : cell :=
  if is_masked F v then getattr F (default_source F nan c "") n else v.

Lemma loaded_rows : forall c uuids (cat : list source),
  cat <> [] ->
  (forall s, In s cat -> s_class s = c) ->
  (forall s, In s cat -> s_galactic s = false) ->
  (forall s, In s cat -> is_masked F (cellmap "uuid" (map (fun s' => getattr F s' "uuid") cat) (getattr F s "uuid")) = false) ->
  map (as_list F) (table_to_source_list F nan c uuids (through (build_table F None cat))) =
  map (fun s => map (fun n => post c n (cellmap n (map (fun s' => getattr F s' n) cat) (getattr F s n)))
                    (names_of_class c)) cat.
Proof.
  intros c uuids cat Hne Hc Hg Hu.
  destruct cat as [|s0 rest] eqn:Ecat; [contradiction|]. rewrite <- Ecat in *.
  assert (Hc0 : s_class s0 = c) by (apply Hc; rewrite Ecat; left; reflexivity).
  assert (Hg0 : s_galactic s0 = false) by (apply Hg; rewrite Ecat; left; reflexivity).
  unfold table_to_source_list. rewrite nrows_through, nrows_build, map_map.
  apply (map_seq_nth _ _ cat s0). intros i Hi.
  unfold as_list, load_row. rewrite load_fold_class, default_class.
  apply map_ext_in. intros n Hn. rewrite load_fold_get, assoc_through.
  assert (Ht : assoc n (build_table F None cat) = Some (map (fun s' => getattr F s' n) cat)).
  { rewrite Ecat. unfold build_table. rewrite <- Ecat, Hc0, Hg0.
    apply (assoc_map_key _ (fun n => map (fun s => getattr F s n) cat) (col_name None false)); [|exact Hn].
    intros a b E. exact E. }
  rewrite Ht. destruct (in_dec string_dec n (names_of_class c)) as [_|N]; [|contradiction].
  cbv zeta.
  rewrite (nth_map_in _ _ (cellmap n (map (fun s' => getattr F s' n) cat)) _ i CNone CNone)
    by (rewrite map_length; exact Hi).
  rewrite (nth_map_in _ _ (fun s' => getattr F s' n) cat i CNone s0) by exact Hi.
  unfold post.
  destruct (is_masked F (cellmap n (map (fun s' => getattr F s' n) cat) (getattr F (nth i cat s0) n))) eqn:M;
    [|reflexivity].
  destruct (string_dec n "uuid") as [->|Nu].
  - rewrite (Hu (nth i cat s0) (nth_In cat s0 Hi)) in M. discriminate.
  - apply leaf_default_static. exact Nu.
Qed.

Lemma loaded_length : forall c uuids (cat : list source),
  List.length (table_to_source_list F nan c uuids (through (build_table F None cat))) = List.length cat.
Proof. intros. unfold table_to_source_list. rewrite map_length, seq_length, nrows_through. apply nrows_build. Qed.

Lemma loaded_class : forall c uuids t s, In s (table_to_source_list F nan c uuids t) -> s_class s = c.
Proof.
  intros c uuids t s H. unfold table_to_source_list in H. apply in_map_iff in H.
  destruct H as [i [<- _]]. unfold load_row. rewrite load_fold_class. reflexivity.
Qed.
End Loaded.

(* with a column prefix (or galactic names) none of the written columns is found again *)
Lemma loaded_prefixed_defaults : forall c uuids (t : table F),
  (forall n, In n (names_of_class c) -> assoc n t = None) ->
  table_to_source_list F nan c uuids t = map (fun i => default_source F nan c (uuids i)) (seq 0 (nrows F t)).
Proof.
  intros c uuids t H. unfold table_to_source_list. apply map_ext. intro i. unfold load_row.
  generalize (default_source F nan c (uuids i)) as d.
  induction (names_of_class c) as [|n ns IH]; intro d; [reflexivity|].
  cbn [fold_left]. unfold load_step at 2. rewrite (H n (or_introl eq_refl)). apply IH. intros m Hm. apply H. right. exact Hm.
Qed.

(* ================================================================ sqlite *)
Lemma nulls_row : forall r : list cell, nulls F flt_eq_int (VRow r) = VRow r.
Proof. reflexivity. Qed.

Lemma db_row_spec : forall s : source, db_row F flt_eq_int s = map Some (as_list F s).
Proof. intro s. unfold db_row. rewrite leaf_db_nulls_on_rows. reflexivity. Qed.

Definition db_if (tn : string) (c : Z) (l : list source) :=
  match l with [] => [] | _ => [(tn, names_of_class c, map (fun s => map Some (as_list F s)) l)] end.

Lemma db_tables_spec : forall cat,
  db_tables F flt_eq_int cat =
  (db_if "components" 2 (filter (is_class 2) cat) ++ db_if "islands" 1 (filter (is_class 1) cat) ++
   db_if "simples" 0 (filter (is_class 0) cat))%list.
Proof.
  intro cat. unfold db_tables. rewrite classify_spec, leaf_db_table_names.
  cbn [combine flat_map]. unfold db_if.
  assert (R : forall l : list source, map (db_row F flt_eq_int) l = map (fun s => map Some (as_list F s)) l)
    by (intro l; apply map_ext; intro; apply db_row_spec).
  destruct (filter (is_class 2) cat) as [|c1 l1] eqn:E2; destruct (filter (is_class 1) cat) as [|c2 l2] eqn:E1;
    destruct (filter (is_class 0) cat) as [|c3 l3] eqn:E0; rewrite ?app_nil_r; cbn [app];
    repeat match goal with
           | H : filter (is_class ?k) cat = ?x :: _ |- _ =>
               let Hk := fresh "Hk" in
               assert (Hk : s_class x = k) by (apply (filter_class k cat); rewrite H; left; reflexivity);
               rewrite Hk; clear H
           end; rewrite ?R; reflexivity.
Qed.

End WithF.
