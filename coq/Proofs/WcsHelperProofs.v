(* C16: pixel <-> sky for points, vectors and ellipses over an abstract invertible WCS.
   Part 1: one characterising lemma per generated leaf (the only places that look inside Gen/WcsHelper.v).
   Part 2: RA periodicity of gcd / bear, polar identity.
   Part 3: the round-trip theorems. *)
From Coq Require Import Reals ZArith Lra Psatz Nsatz.
From Aegean Require Import Lib.RBase Gen.Sphere Lib.Sphere Proofs.SphereProofs Gen.WcsHelper Model.WcsHelper.
Open Scope R_scope.

(* ---------------------------------------------------------------------------------------- *)
(* Part 1: the generated leaves *)
Lemma hypot_sq a b : sqrt (a ^ 2 + b ^ 2) = hypot a b.
Proof. unfold hypot. f_equal. ring. Qed.
Lemma hypot_neg a b c d : hypot (a - b) (c - d) = hypot (b - a) (d - c).
Proof. unfold hypot. f_equal. ring. Qed.

(* sky2pix_vec: centre X = sky2pix pos, end point A = sky2pix (translate pos r pa); length |A - X|, angle of A - X *)
Lemma sky2pix_vec_eq p2s s2p pos r pa :
  sky2pix_vec p2s s2p pos r pa =
  let X := s2p pos in let A := s2p (translate (fst pos) (snd pos) r pa) in
  (fst X, snd X, hypot (fst A - fst X) (snd A - snd X), deg (atan2 (snd A - snd X) (fst A - fst X))).
Proof. unfold sky2pix_vec; cbv zeta. rewrite ?hypot_sq, hypot_neg. reflexivity. Qed.

(* pix2sky_vec: both ends mapped with pix2sky, then gcd / bear *)
Lemma pix2sky_vec_eq p2s s2p pixel r theta :
  pix2sky_vec p2s s2p pixel r theta =
  let s1 := p2s pixel in
  let s2 := p2s (fst pixel + r * cos (rad theta), snd pixel + r * sin (rad theta)) in
  (fst s1, snd s1, gcd (fst s1) (snd s1) (fst s2) (snd s2), bear (fst s1) (snd s1) (fst s2) (snd s2)).
Proof. reflexivity. Qed.

(* sky2pix_ellipse: A = image of the major-axis end, B = image of the end of the minor axis (pa - 90);
   sy = |B - X| * |cos (angle A - (angle B - 90 deg))| *)
Lemma sky2pix_ellipse_eq p2s s2p pos a b pa :
  sky2pix_ellipse p2s s2p pos a b pa =
  let X := s2p pos in
  let A := s2p (translate (fst pos) (snd pos) a pa) in
  let B := s2p (translate (fst pos) (snd pos) b (pa - 90)) in
  let th := atan2 (snd A - snd X) (fst A - fst X) in
  let th2 := atan2 (snd B - snd X) (fst B - fst X) - PI / 2 in
  (fst X, snd X, hypot (fst A - fst X) (snd A - snd X),
   hypot (fst B - fst X) (snd B - snd X) * Rabs (cos (th - th2)), deg th).
Proof. unfold sky2pix_ellipse; cbv zeta. rewrite !(hypot_neg (fst (s2p pos))). reflexivity. Qed.

Lemma pix2sky_ellipse_eq p2s s2p pixel sx sy theta :
  pix2sky_ellipse p2s s2p pixel sx sy theta =
  let s0 := p2s pixel in
  let s1 := p2s (fst pixel + sx * cos (rad theta), snd pixel + sx * sin (rad theta)) in
  let s2 := p2s (fst pixel + sy * cos (rad (theta - 90)), snd pixel + sy * sin (rad (theta - 90))) in
  let pa := bear (fst s0) (snd s0) (fst s1) (snd s1) in
  let pa2 := bear (fst s0) (snd s0) (fst s2) (snd s2) - 90 in
  (fst s0, snd s0, gcd (fst s0) (snd s0) (fst s1) (snd s1),
   gcd (fst s0) (snd s0) (fst s2) (snd s2) * Rabs (cos (rad (pa - pa2))), pa).
Proof. reflexivity. Qed.

(* pix2sky / sky2pix at the values the property needs *)
Lemma fits_pix2sky_eq P x y : fits_pix2sky P (x, y) = P (y, x).
Proof.
  unfold fits_pix2sky, pix2sky_m, shift, swap; cbn [fst snd]. f_equal. f_equal; lra.
Qed.
Lemma fits_sky2pix_eq S pos : fits_sky2pix S pos = (snd (S pos), fst (S pos)).
Proof.
  unfold fits_sky2pix, sky2pix_m, unshift, swap; cbv zeta; cbn [fst snd]. f_equal; lra.
Qed.
Local Opaque sky2pix_vec pix2sky_vec sky2pix_ellipse pix2sky_ellipse.

(* ---------------------------------------------------------------------------------------- *)
(* Part 2: right ascension modulo 360 degrees; polar identity *)
Lemma cos_period_Z x k : cos (x + 2 * IZR k * PI) = cos x.
Proof.
  destruct k as [|p|p].
  - f_equal. ring.
  - replace (IZR (Z.pos p)) with (INR (Pos.to_nat p)) by (rewrite INR_IZR_INZ, positive_nat_Z; reflexivity).
    apply cos_period.
  - rewrite <- (cos_period (x + 2 * IZR (Z.neg p) * PI) (Pos.to_nat p)).
    f_equal. replace (INR (Pos.to_nat p)) with (IZR (Z.pos p)) by (rewrite INR_IZR_INZ, positive_nat_Z; reflexivity).
    change (Z.neg p) with (- Z.pos p)%Z. rewrite opp_IZR. ring.
Qed.
Lemma sin_period_Z x k : sin (x + 2 * IZR k * PI) = sin x.
Proof.
  destruct k as [|p|p].
  - f_equal. ring.
  - replace (IZR (Z.pos p)) with (INR (Pos.to_nat p)) by (rewrite INR_IZR_INZ, positive_nat_Z; reflexivity).
    apply sin_period.
  - rewrite <- (sin_period (x + 2 * IZR (Z.neg p) * PI) (Pos.to_nat p)).
    f_equal. replace (INR (Pos.to_nat p)) with (IZR (Z.pos p)) by (rewrite INR_IZR_INZ, positive_nat_Z; reflexivity).
    change (Z.neg p) with (- Z.pos p)%Z. rewrite opp_IZR. ring.
Qed.

Lemma same_sky_refl a : same_sky a a.
Proof. split; [reflexivity|]. exists 0%Z. ring. Qed.
Lemma same_sky_sym a b : same_sky a b -> same_sky b a.
Proof. intros [H [k Hk]]. split; [congruence|]. exists (- k)%Z. rewrite Hk, opp_IZR. ring. Qed.
Lemma same_sky_trans a b c : same_sky a b -> same_sky b c -> same_sky a c.
Proof.
  intros [H1 [k Hk]] [H2 [l Hl]]. split; [congruence|]. exists (k + l)%Z. rewrite Hk, Hl, plus_IZR. ring.
Qed.
Lemma same_sky_trig a b : same_sky a b ->
  snd a = snd b /\ cos (rad (fst a)) = cos (rad (fst b)) /\ sin (rad (fst a)) = sin (rad (fst b)).
Proof.
  intros [H [k Hk]]. split; [exact H|]. rewrite Hk.
  replace (rad (fst b + 360 * IZR k)) with (rad (fst b) + 2 * IZR k * PI) by (unfold rad; field).
  split; [apply cos_period_Z | apply sin_period_Z].
Qed.
Lemma same_sky_frame a b : same_sky a b ->
  uvec (fst a) (snd a) = uvec (fst b) (snd b) /\ north (fst a) (snd a) = north (fst b) (snd b) /\
  east (fst a) (snd a) = east (fst b) (snd b).
Proof.
  intros H. destruct (same_sky_trig _ _ H) as [Hd [Hc Hs]]. unfold uvec, north, east. rewrite Hd, Hc, Hs. auto.
Qed.

(* gcd and bear only depend on the points of the sphere *)
Lemma gcd_same_sky a b a' b' : same_sky a a' -> same_sky b b' ->
  gcd (fst a) (snd a) (fst b) (snd b) = gcd (fst a') (snd a') (fst b') (snd b').
Proof.
  intros Ha Hb. destruct (same_sky_frame _ _ Ha) as [Ua _]. destruct (same_sky_frame _ _ Hb) as [Ub _].
  rewrite !gcd_angle, Ua, Ub. reflexivity.
Qed.
Lemma bear_same_sky a b a' b' : same_sky a a' -> same_sky b b' ->
  bear (fst a) (snd a) (fst b) (snd b) = bear (fst a') (snd a') (fst b') (snd b').
Proof.
  intros Ha Hb. destruct (same_sky_frame _ _ Ha) as [_ [Na Ea]]. destruct (same_sky_frame _ _ Hb) as [Ub _].
  rewrite !bear_eq.
  destruct (bear_frame (fst a) (snd a) (fst b) (snd b)) as [-> ->].
  destruct (bear_frame (fst a') (snd a') (fst b') (snd b')) as [-> ->].
  rewrite Na, Ea, Ub. reflexivity.
Qed.

(* polar identity: a pixel offset (dx, dy) <> 0 is recovered from its length and angle *)
Lemma polar_back dx dy : (dx <> 0 \/ dy <> 0) ->
  hypot dx dy * cos (rad (deg (atan2 dy dx))) = dx /\ hypot dx dy * sin (rad (deg (atan2 dy dx))) = dy.
Proof.
  intros H. rewrite rad_deg. unfold hypot. split; [apply cos_atan2 | apply sin_atan2]; exact H.
Qed.
Lemma hypot_pos dx dy : (dx <> 0 \/ dy <> 0) -> 0 < hypot dx dy.
Proof.
  intros H. unfold hypot. apply sqrt_lt_R0.
  pose proof (Rle_0_sqr dx). pose proof (Rle_0_sqr dy). unfold Rsqr in *.
  destruct H as [H|H]; [assert (0 < dx * dx) by nra | assert (0 < dy * dy) by nra]; lra.
Qed.


(* bearing of a translated point for any theta: theta modulo 360 *)
Lemma bear_translate_mod ra dec r theta :
  -90 < dec < 90 -> -90 < snd (translate ra dec r theta) < 90 -> 0 < r < 180 -> -540 < theta <= 540 ->
  exists k : Z, bear ra dec (fst (translate ra dec r theta)) (snd (translate ra dec r theta)) = theta + 360 * IZR k.
Proof.
  intros Hd Hq Hr Ht.
  destruct (Rle_dec theta (-180)) as [Hlo|Hlo].
  - exists 1%Z. assert (E : translate ra dec r theta = translate ra dec r (theta + 360)).
    { rewrite (translate_period ra dec r (theta + 360)). f_equal. ring. }
    rewrite E in *. rewrite translate_bear; try assumption; lra.
  - destruct (Rle_dec theta 180) as [Hhi|Hhi].
    + exists 0%Z. rewrite translate_bear; try assumption; lra.
    + exists (-1)%Z. rewrite (translate_period ra dec r theta) in *.
      rewrite translate_bear; try assumption; lra.
Qed.
Lemma cos_rad_period x k : cos (rad (x + 360 * IZR k)) = cos (rad x).
Proof. replace (rad (x + 360 * IZR k)) with (rad x + 2 * IZR k * PI) by (unfold rad; field). apply cos_period_Z. Qed.
Lemma cos_rad_0 : cos (rad 0) = 1.
Proof. rewrite rad_0. apply cos_0. Qed.
Lemma cos_rad_180 : cos (rad 180) = -1.
Proof. rewrite rad_180. apply cos_PI. Qed.
Lemma cos_rad_m90 x : cos (rad (x - 90)) = sin (rad x).
Proof.
  replace (rad (x - 90)) with (rad x - PI / 2) by (unfold rad; field).
  rewrite cos_minus, cos_PI2, sin_PI2. ring.
Qed.
Lemma sin_rad_m90 x : sin (rad (x - 90)) = - cos (rad x).
Proof.
  replace (rad (x - 90)) with (rad x - PI / 2) by (unfold rad; field).
  rewrite sin_minus, cos_PI2, sin_PI2. ring.
Qed.
(* the non-orthogonality correction: |w| * |cos (t - (angle w - PI/2))| is the component of w
   perpendicular to the direction t *)
Lemma perp_component wx wy t :
  hypot wx wy * Rabs (cos (t - (atan2 wy wx - PI / 2))) = Rabs (wy * cos t - wx * sin t).
Proof.
  assert (E : cos (t - (atan2 wy wx - PI / 2)) = sin (atan2 wy wx) * cos t - cos (atan2 wy wx) * sin t).
  { replace (t - (atan2 wy wx - PI / 2)) with (PI / 2 - (atan2 wy wx - t)) by ring.
    rewrite cos_minus, cos_PI2, sin_PI2, sin_minus. ring. }
  rewrite E.
  assert (Hh : 0 <= hypot wx wy) by (unfold hypot; apply sqrt_pos).
  rewrite <- (Rabs_right (hypot wx wy)) at 1 by lra. rewrite <- Rabs_mult. f_equal.
  destruct (Req_dec wx 0) as [Hx|Hx]; [destruct (Req_dec wy 0) as [Hy|Hy]|].
  - subst. unfold hypot. replace (0 * 0 + 0 * 0) with 0 by ring. rewrite sqrt_0. ring.
  - assert (Hnz : wx <> 0 \/ wy <> 0) by (right; exact Hy).
    pose proof (cos_atan2 wy wx Hnz) as Hc. pose proof (sin_atan2 wy wx Hnz) as Hs. unfold hypot.
    set (h := sqrt (wx * wx + wy * wy)) in *. set (phi := atan2 wy wx) in *.
    replace (h * (sin phi * cos t - cos phi * sin t)) with ((h * sin phi) * cos t - (h * cos phi) * sin t) by ring.
    rewrite Hc, Hs. reflexivity.
  - assert (Hnz : wx <> 0 \/ wy <> 0) by (left; exact Hx).
    pose proof (cos_atan2 wy wx Hnz) as Hc. pose proof (sin_atan2 wy wx Hnz) as Hs. unfold hypot.
    set (h := sqrt (wx * wx + wy * wy)) in *. set (phi := atan2 wy wx) in *.
    replace (h * (sin phi * cos t - cos phi * sin t)) with ((h * sin phi) * cos t - (h * cos phi) * sin t) by ring.
    rewrite Hc, Hs. reflexivity.
Qed.

(* ---------------------------------------------------------------------------------------- *)
(* Part 3: round trips over an abstract invertible WCS *)
Section RoundTrip.
  Variables P S : pt -> pt.
  Variable Dp : pt -> Prop.   (* FITS pixel positions inside the image *)
  Variable Ds : pt -> Prop.   (* sky positions covered by the image *)
  Let p2s := fits_pix2sky P.
  Let s2p := fits_sky2pix S.

  (* point: (row, column) order with origin 1, and the inverse *)
  Lemma point_roundtrip :
    (forall p, Dp p -> S (P p) = p) ->
    forall x y, p2s (x, y) = P (y, x) /\ (Dp (y, x) -> s2p (p2s (x, y)) = (x, y)).
  Proof.
    intros SP x y. unfold p2s, s2p. rewrite fits_pix2sky_eq. split; [reflexivity|].
    intros HD. rewrite fits_sky2pix_eq, SP by exact HD. reflexivity.
  Qed.

  Hypothesis PS : forall s, Ds s -> same_sky (P (S s)) s.

  Lemma p2s_s2p s : Ds s -> same_sky (p2s (s2p s)) s.
  Proof.
    intros HD. unfold p2s, s2p. rewrite fits_sky2pix_eq, fits_pix2sky_eq, <- surjective_pairing. apply PS, HD.
  Qed.
  Lemma p2s_s2p' s : Ds s -> same_sky (p2s (fst (s2p s), snd (s2p s))) s.
  Proof. rewrite <- surjective_pairing. apply p2s_s2p. Qed.

  (* distinct points of the sky have distinct pixels *)
  Lemma s2p_distinct s q : Ds s -> Ds q -> gcd (fst s) (snd s) (fst q) (snd q) <> 0 ->
    fst (s2p q) - fst (s2p s) <> 0 \/ snd (s2p q) - snd (s2p s) <> 0.
  Proof.
    intros Hs Hq Hg.
    destruct (Req_dec (fst (s2p q) - fst (s2p s)) 0) as [H1|H1]; [|left; exact H1].
    destruct (Req_dec (snd (s2p q) - snd (s2p s)) 0) as [H2|H2]; [|right; exact H2].
    exfalso. apply Hg.
    assert (Heq : s2p q = s2p s).
    { rewrite (surjective_pairing (s2p q)), (surjective_pairing (s2p s)). f_equal; lra. }
    rewrite <- (gcd_same_sky _ _ _ _ (p2s_s2p s Hs) (p2s_s2p q Hq)), Heq.
    apply gcd_zero_iff. reflexivity.
  Qed.

  (* ---------------- vectors ---------------- *)
  Section Vec.
    Variables (pos : pt) (r pa : R).
    Let q := translate (fst pos) (snd pos) r pa.
    Hypothesis Hpos : Ds pos.
    Hypothesis Hq : Ds q.
    Hypothesis Hdec : -90 < snd pos < 90.
    Hypothesis Hdq : -90 < snd q < 90.
    Hypothesis Hr : 0 < r < 180.

    Lemma vec_gcd : gcd (fst pos) (snd pos) (fst q) (snd q) = r.
    Proof. apply translate_gcd; assumption. Qed.
    Lemma vec_distinct : fst (s2p q) - fst (s2p pos) <> 0 \/ snd (s2p q) - snd (s2p pos) <> 0.
    Proof. apply s2p_distinct; try assumption. rewrite vec_gcd. lra. Qed.

    (* the pixel vector returned by sky2pix_vec, re-applied at the centre, ends exactly on the mapped end point *)
    Lemma vec_endpoint :
      let '(x, y, l, th) := sky2pix_vec p2s s2p pos r pa in
      (x, y) = s2p pos /\ (x + l * cos (rad th), y + l * sin (rad th)) = s2p q /\ 0 < l.
    Proof.
      rewrite sky2pix_vec_eq. cbv zeta. fold q.
      destruct (polar_back _ _ vec_distinct) as [Hc Hs]. rewrite Hc, Hs.
      split; [symmetry; apply surjective_pairing|]. split; [|apply hypot_pos, vec_distinct].
      apply injective_projections; cbn [fst snd]; ring.
    Qed.

    Lemma vec_roundtrip :
      let '(x, y, l, th) := sky2pix_vec p2s s2p pos r pa in
      let '(ra', dec', r', pa') := pix2sky_vec p2s s2p (x, y) l th in
      same_sky (ra', dec') pos /\ r' = r /\ (-180 < pa <= 180 -> pa' = pa).
    Proof.
      pose proof vec_endpoint as HE.
      destruct (sky2pix_vec p2s s2p pos r pa) as [[[x y] l] th]. destruct HE as [HX [HA _]].
      rewrite pix2sky_vec_eq. cbv zeta. cbn [fst snd]. rewrite HX, HA.
      pose proof (p2s_s2p pos Hpos) as H1. pose proof (p2s_s2p q Hq) as H2.
      split; [rewrite <- surjective_pairing; exact H1|].
      rewrite (gcd_same_sky _ _ _ _ H1 H2), (bear_same_sky _ _ _ _ H1 H2).
      split; [apply vec_gcd|]. intros Hpa. apply translate_bear; assumption.
    Qed.
  End Vec.

  (* ---------------- ellipses ---------------- *)
  Section Ellipse.
    Variables (pos : pt) (a b pa : R).
    Let qa := translate (fst pos) (snd pos) a pa.
    Let qb := translate (fst pos) (snd pos) b (pa - 90).
    Let qc := translate (fst pos) (snd pos) b (pa + 90).
    Let X := s2p pos.
    Let A := s2p qa.
    Let B := s2p qb.
    Hypothesis Hpos : Ds pos.
    Hypothesis Hqa : Ds qa.
    Hypothesis Hdec : -90 < snd pos < 90.
    Hypothesis Hdqa : -90 < snd qa < 90.
    Hypothesis Ha : 0 < a < 180.

    (* what sky2pix_ellipse returns, in terms of the three mapped points; the last clause is the
       non-orthogonality correction: sy is the component of B - X perpendicular to the major axis *)
    Lemma ellipse_pixel_facts :
      let '(x, y, sx, sy, th) := sky2pix_ellipse p2s s2p pos a b pa in
      (x, y) = X /\ (x + sx * cos (rad th), y + sx * sin (rad th)) = A /\ 0 < sx /\
      sy = Rabs ((snd B - snd X) * cos (rad th) - (fst B - fst X) * sin (rad th)).
    Proof.
      rewrite sky2pix_ellipse_eq. cbv zeta. fold qa qb. fold X A B.
      pose proof (vec_distinct pos a pa Hpos Hqa Hdec Hdqa Ha) as Hne. fold qa in Hne. fold X A in Hne.
      destruct (polar_back _ _ Hne) as [Hc Hs]. rewrite Hc, Hs.
      split; [symmetry; apply surjective_pairing|].
      split; [apply injective_projections; cbn [fst snd]; ring|].
      split; [apply hypot_pos, Hne|].
      rewrite rad_deg. apply perp_component.
    Qed.

    (* major axis and position angle: exactly the vector round trip *)
    Lemma ellipse_major_pa :
      let '(x, y, sx, sy, th) := sky2pix_ellipse p2s s2p pos a b pa in
      let '(ra', dec', a', b', pa') := pix2sky_ellipse p2s s2p (x, y) sx sy th in
      same_sky (ra', dec') pos /\ a' = a /\ (-180 < pa <= 180 -> pa' = pa).
    Proof.
      pose proof ellipse_pixel_facts as HF.
      destruct (sky2pix_ellipse p2s s2p pos a b pa) as [[[[x y] sx] sy] th]. destruct HF as [HX [HA _]].
      rewrite pix2sky_ellipse_eq. cbv zeta. cbn [fst snd]. rewrite HX, HA. unfold X, A.
      pose proof (p2s_s2p pos Hpos) as H1. pose proof (p2s_s2p qa Hqa) as H2.
      split; [rewrite <- surjective_pairing; exact H1|].
      rewrite (gcd_same_sky _ _ _ _ H1 H2), (bear_same_sky _ _ _ _ H1 H2).
      split; [apply translate_gcd; assumption|]. intros Hpa. apply translate_bear; assumption.
    Qed.

    (* minor axis: exact when, at this point,
       Horth: the images of the two (sky-perpendicular) axes are perpendicular in the pixel plane (conformality), and
       Hlin : reflecting the image of the minor-axis end through the centre pixel gives the image of the
              reflected sky point (odd local linearity; used when the pixel frame has the usual handedness) *)
    Hypothesis Hqb : Ds qb.
    Hypothesis Hdqb : -90 < snd qb < 90.
    Hypothesis Hdqc : -90 < snd qc < 90.
    Hypothesis Hb : 0 < b < 180.
    Hypothesis Hpa : -180 < pa <= 180.
    Hypothesis Horth : (fst B - fst X) * (fst A - fst X) + (snd B - snd X) * (snd A - snd X) = 0.
    Hypothesis Hlin : same_sky (p2s (2 * fst X - fst B, 2 * snd X - snd B)) qc.

    Lemma ellipse_roundtrip :
      let '(x, y, sx, sy, th) := sky2pix_ellipse p2s s2p pos a b pa in
      let '(ra', dec', a', b', pa') := pix2sky_ellipse p2s s2p (x, y) sx sy th in
      same_sky (ra', dec') pos /\ a' = a /\ b' = b /\ pa' = pa.
    Proof.
      pose proof ellipse_major_pa as HM. pose proof ellipse_pixel_facts as HF.
      destruct (sky2pix_ellipse p2s s2p pos a b pa) as [[[[x y] sx] sy] th].
      destruct HF as [HX [HA [Hsx Hsy]]].
      rewrite pix2sky_ellipse_eq in *. cbv zeta in *. cbn [fst snd] in *.
      destruct HM as [HS [HMa HMp]]. specialize (HMp Hpa).
      split; [exact HS|]. split; [exact HMa|]. split; [|exact HMp].
      rewrite HMp. clear HS HMa HMp.
      rewrite cos_rad_m90, sin_rad_m90.
      set (cu := cos (rad th)) in *. set (su := sin (rad th)) in *.
      assert (Hx : x = fst X) by (rewrite <- HX; reflexivity).
      assert (Hy : y = snd X) by (rewrite <- HX; reflexivity).
      assert (HAx : fst A - fst X = sx * cu) by (rewrite <- HA, <- Hx; cbn [fst]; ring).
      assert (HAy : snd A - snd X = sx * su) by (rewrite <- HA, <- Hy; cbn [snd]; ring).
      set (wx := fst B - fst X) in *. set (wy := snd B - snd X) in *.
      set (k := wy * cu - wx * su) in *.
      assert (Hu : cu * cu + su * su = 1).
      { pose proof (sin2_cos2 (rad th)) as H. unfold Rsqr in H. unfold cu, su. lra. }
      assert (Hdot : wx * cu + wy * su = 0).
      { rewrite HAx, HAy in Horth. apply Rmult_eq_reg_l with sx; [|lra]. rewrite Rmult_0_r. rewrite <- Horth. ring. }
      assert (Hwx : wx = - k * su) by (unfold k; nsatz).
      assert (Hwy : wy = k * cu) by (unfold k; nsatz).
      pose proof (vec_distinct pos b (pa - 90) Hpos Hqb Hdec Hdqb Hb) as HneB. fold qb in HneB. fold X B in HneB. fold wx wy in HneB.
      assert (Hk : k <> 0).
      { intros Hk0. rewrite Hk0 in Hwx, Hwy. destruct HneB as [H|H]; apply H; lra. }
      pose proof (p2s_s2p pos Hpos) as H1. fold X in H1. rewrite (surjective_pairing X), <- Hx, <- Hy in H1.
      (* which pixel the code queries for the minor axis *)
      assert (Hcase : (x + sy * su, y + sy * - cu) = B \/ (x + sy * su, y + sy * - cu) = (2 * fst X - fst B, 2 * snd X - snd B)).
      { destruct (Rlt_dec k 0) as [Hneg|Hpos'].
        - left. rewrite Hsy, Rabs_left by exact Hneg. apply injective_projections; cbn [fst snd]; unfold wx, wy in *; lra.
        - right. rewrite Hsy, Rabs_right by lra. apply injective_projections; cbn [fst snd]; unfold wx, wy in *; lra. }
      destruct Hcase as [HB|HB]; rewrite HB.
      - pose proof (p2s_s2p qb Hqb) as H2. fold B in H2.
        rewrite (gcd_same_sky _ _ _ _ H1 H2), (bear_same_sky _ _ _ _ H1 H2).
        unfold qb. rewrite translate_gcd by assumption.
        destruct (bear_translate_mod (fst pos) (snd pos) b (pa - 90) Hdec Hdqb Hb) as [j Hj]; [lra|].
        rewrite Hj. replace (pa - (pa - 90 + 360 * IZR j - 90)) with (180 + 360 * IZR (- j)) by (rewrite opp_IZR; ring).
        rewrite cos_rad_period, cos_rad_180. replace (Rabs (-1)) with 1 by (rewrite Rabs_left; lra). ring.
      - rewrite (gcd_same_sky _ _ _ _ H1 Hlin), (bear_same_sky _ _ _ _ H1 Hlin).
        unfold qc. rewrite translate_gcd by assumption.
        destruct (bear_translate_mod (fst pos) (snd pos) b (pa + 90) Hdec Hdqc Hb) as [j Hj]; [lra|].
        rewrite Hj. replace (pa - (pa + 90 + 360 * IZR j - 90)) with (0 + 360 * IZR (- j)) by (rewrite opp_IZR; ring).
        rewrite cos_rad_period, cos_rad_0, Rabs_R1. ring.
    Qed.
  End Ellipse.
End RoundTrip.

(* ---------------------------------------------------------------------------------------- *)
(* lengths are great-circle lengths: what pix2sky_vec / pix2sky_ellipse return IS the angle between the unit
   vectors of the two mapped end points *)
Lemma lengths_great_circle p2s s2p pixel r theta :
  let s1 := p2s pixel in
  let s2 := p2s (fst pixel + r * cos (rad theta), snd pixel + r * sin (rad theta)) in
  let '(ra, dec, l, pa) := pix2sky_vec p2s s2p pixel r theta in
  (ra, dec) = s1 /\ l = gcd (fst s1) (snd s1) (fst s2) (snd s2) /\
  cos (rad l) = dot (uvec (fst s1) (snd s1)) (uvec (fst s2) (snd s2)) /\ 0 <= l <= 180 /\
  pa = bear (fst s1) (snd s1) (fst s2) (snd s2).
Proof.
  rewrite pix2sky_vec_eq. cbv zeta.
  split; [symmetry; apply surjective_pairing|]. split; [reflexivity|].
  split; [apply gcd_vector|]. split; [apply gcd_range | reflexivity].
Qed.
Lemma ellipse_lengths_great_circle p2s s2p pixel sx sy theta :
  let s0 := p2s pixel in
  let s1 := p2s (fst pixel + sx * cos (rad theta), snd pixel + sx * sin (rad theta)) in
  let s2 := p2s (fst pixel + sy * cos (rad (theta - 90)), snd pixel + sy * sin (rad (theta - 90))) in
  let '(ra, dec, major, minor, pa) := pix2sky_ellipse p2s s2p pixel sx sy theta in
  major = gcd (fst s0) (snd s0) (fst s1) (snd s1) /\
  cos (rad major) = dot (uvec (fst s0) (snd s0)) (uvec (fst s1) (snd s1)) /\
  pa = bear (fst s0) (snd s0) (fst s1) (snd s1) /\
  (* the minor axis is the great-circle length to the second point, times the non-orthogonality correction *)
  minor = gcd (fst s0) (snd s0) (fst s2) (snd s2) *
          Rabs (cos (rad (pa - (bear (fst s0) (snd s0) (fst s2) (snd s2) - 90)))) /\
  0 <= minor <= gcd (fst s0) (snd s0) (fst s2) (snd s2).
Proof.
  rewrite pix2sky_ellipse_eq. cbv zeta.
  split; [reflexivity|]. split; [apply gcd_vector|]. split; [reflexivity|]. split; [reflexivity|].
  set (g := gcd _ _ (fst (p2s (fst pixel + sy * _, _))) _). set (c := cos _).
  pose proof (gcd_range (fst (p2s pixel)) (snd (p2s pixel))
    (fst (p2s (fst pixel + sy * cos (rad (theta - 90)), snd pixel + sy * sin (rad (theta - 90)))))
    (snd (p2s (fst pixel + sy * cos (rad (theta - 90)), snd pixel + sy * sin (rad (theta - 90)))))) as [Hg _].
  fold g in Hg. pose proof (Rabs_pos c) as H0.
  assert (H1 : Rabs c <= 1) by (apply Rabs_le; unfold c; apply COS_bound).
  split; nra.
Qed.

(* angles are measured East of North *)
Lemma atan2_pos_y y x : 0 < y -> 0 < atan2 y x < PI.
Proof.
  intros Hy. pose proof PI_RGT_0 as HPI. unfold atan2.
  destruct (Rlt_dec 0 x) as [Hx|Hx].
  - assert (0 < y / x) by (apply Rdiv_lt_0_compat; assumption).
    pose proof (atan_bound (y / x)). assert (0 < atan (y / x)) by (rewrite <- atan_0; apply atan_increasing; assumption). lra.
  - destruct (Rlt_dec x 0) as [Hx'|Hx'].
    + destruct (Rle_dec 0 y) as [_|Hn]; [|lra].
      assert (y / x < 0).
      { unfold Rdiv. assert (/ x < 0) by (apply Rinv_lt_0_compat; lra). nra. }
      pose proof (atan_bound (y / x)). assert (atan (y / x) < 0) by (rewrite <- atan_0; apply atan_increasing; assumption). lra.
    + destruct (Rlt_dec 0 y); lra.
Qed.
Lemma atan2_neg_y y x : y < 0 -> - PI < atan2 y x < 0.
Proof.
  intros Hy. pose proof PI_RGT_0 as HPI. unfold atan2.
  destruct (Rlt_dec 0 x) as [Hx|Hx].
  - assert (y / x < 0).
    { unfold Rdiv. assert (0 < / x) by (apply Rinv_0_lt_compat; lra). nra. }
    pose proof (atan_bound (y / x)). assert (atan (y / x) < 0) by (rewrite <- atan_0; apply atan_increasing; assumption). lra.
  - destruct (Rlt_dec x 0) as [Hx'|Hx'].
    + destruct (Rle_dec 0 y) as [Hn|_]; [lra|].
      assert (0 < y / x).
      { unfold Rdiv. assert (/ x < 0) by (apply Rinv_lt_0_compat; lra). nra. }
      pose proof (atan_bound (y / x)). assert (0 < atan (y / x)) by (rewrite <- atan_0; apply atan_increasing; assumption). lra.
    + destruct (Rlt_dec 0 y); [lra|]. destruct (Rlt_dec y 0); lra.
Qed.
Lemma deg_lt a b : a < b -> deg a < deg b.
Proof. intros H. unfold deg. pose proof PI_RGT_0. apply Rmult_lt_compat_r; [apply Rinv_0_lt_compat; lra | lra]. Qed.

Lemma pa_east_of_north ra dec d : 0 < d < 180 ->
  (* due north: 0; due south: 180 *)
  bear ra dec ra (dec + d) = 0 /\ bear ra dec ra (dec - d) = 180 /\
  (-90 < dec < 90 ->
   (* towards increasing RA: positive (east of north); towards decreasing RA: negative; exactly +-90 on the equator *)
   0 < bear ra dec (ra + d) dec < 180 /\ -180 < bear ra dec (ra - d) dec < 0 /\
   (dec = 0 -> bear ra dec (ra + d) dec = 90 /\ bear ra dec (ra - d) dec = -90)).
Proof.
  intros Hd. pose proof PI_RGT_0 as HPI.
  assert (Hrd : 0 < rad d < PI) by (unfold rad; split; nra).
  assert (Hsd : 0 < sin (rad d)) by (apply sin_gt_0; lra).
  split; [|split].
  - rewrite bear_eq. unfold bear_y, bear_x.
    replace (ra - ra) with 0 by ring. rewrite rad_0, sin_0, cos_0, rad_add.
    replace (cos (rad dec) * sin (rad dec + rad d) - sin (rad dec) * cos (rad dec + rad d) * 1) with (sin (rad d))
      by (rewrite sin_plus, cos_plus; pose proof (sin2_cos2 (rad dec)) as H; unfold Rsqr in H; nsatz).
    rewrite Rmult_0_l, atan2_0_pos by exact Hsd. apply deg_0.
  - rewrite bear_eq. unfold bear_y, bear_x.
    replace (ra - ra) with 0 by ring. rewrite rad_0, sin_0, cos_0, rad_sub.
    replace (cos (rad dec) * sin (rad dec - rad d) - sin (rad dec) * cos (rad dec - rad d) * 1) with (- sin (rad d))
      by (rewrite sin_minus, cos_minus; pose proof (sin2_cos2 (rad dec)) as H; unfold Rsqr in H; nsatz).
    rewrite Rmult_0_l. unfold atan2.
    destruct (Rlt_dec 0 (- sin (rad d))) as [H|_]; [lra|].
    destruct (Rlt_dec (- sin (rad d)) 0) as [_|H]; [|lra].
    destruct (Rle_dec 0 0) as [_|H]; [|lra].
    unfold Rdiv. rewrite Rmult_0_l, atan_0, Rplus_0_l. apply deg_PI.
  - intros Hdec.
    assert (Hc : 0 < cos (rad dec)) by (apply cos_gt_0; unfold rad; nra).
    assert (He : bear_y ra dec (ra + d) dec = sin (rad d) * cos (rad dec)).
    { unfold bear_y. replace (ra + d - ra) with d by ring. reflexivity. }
    assert (Hw : bear_y ra dec (ra - d) dec = - sin (rad d) * cos (rad dec)).
    { unfold bear_y. replace (ra - d - ra) with (- d) by ring.
      replace (rad (- d)) with (- rad d) by (unfold rad; field). rewrite sin_neg. ring. }
    split; [|split].
    + rewrite bear_eq, He. rewrite <- deg_0 at 1. rewrite <- deg_PI.
      destruct (atan2_pos_y (sin (rad d) * cos (rad dec)) (bear_x ra dec (ra + d) dec)) as [H1 H2]; [nra|].
      split; apply deg_lt; assumption.
    + rewrite bear_eq, Hw. rewrite <- deg_0. replace (-180) with (deg (- PI)) by (unfold deg; field; lra).
      destruct (atan2_neg_y (- sin (rad d) * cos (rad dec)) (bear_x ra dec (ra - d) dec)) as [H1 H2]; [nra|].
      split; apply deg_lt; assumption.
    + intros H0. subst dec. rewrite !bear_eq, He, Hw. unfold bear_x. rewrite rad_0, sin_0, cos_0.
      replace (1 * 0 - 0 * 1 * cos (rad (ra + d - ra))) with 0 by ring.
      replace (1 * 0 - 0 * 1 * cos (rad (ra - d - ra))) with 0 by ring.
      unfold atan2.
      destruct (Rlt_dec 0 0) as [H|_]; [lra|].
      destruct (Rlt_dec 0 (sin (rad d) * 1)) as [_|H]; [|lra].
      destruct (Rlt_dec 0 (- sin (rad d) * 1)) as [H|_]; [lra|].
      destruct (Rlt_dec (- sin (rad d) * 1) 0) as [_|H]; [|lra].
      split; unfold deg; field; lra.
Qed.
