(* C14 - proofs about the AeRes model (Model/AeRes.v).
   Part 1: one characterising lemma per generated leaf of Gen/AeRes.v; after that the leaves are
   opaque, so an edited leaf breaks exactly one named lemma.  Part 2: the theorems. *)
From Coq Require Import Reals ZArith Bool List String Lra Lia Psatz.
From Flocq Require Import Raux.
From Interval Require Import Tactic.
From Aegean Require Import Lib.RBase Gen.Gauss Gen.AeRes Model.AeRes.
Import ListNotations.
Open Scope R_scope.

(* ------------------------------------------------------------------------------------------ *)
(* Part 1 - leaves *)

Lemma Rleb_true a b : Rleb a b = true <-> a <= b.
Proof. unfold Rleb. destruct (Rle_dec a b); split; intros; try easy. Qed.
Lemma Rltb_true a b : Rltb a b = true <-> a < b.
Proof. unfold Rltb. destruct (Rlt_dec a b); split; intros; try easy. Qed.

Lemma leaf_FWHM2CC : FWHM2CC = 1 / (2 * sqrt (2 * ln 2)).
Proof. reflexivity. Qed.
Lemma leaf_ell_args ra dec a b pa : ell_args ra dec a b pa = (ra, dec, a / 3600, b / 3600, pa).
Proof. reflexivity. Qed.
Lemma leaf_skip_x xo s : skip_x xo s = false <-> 1 / 2 <= xo < s + 1 / 2.
Proof.
  unfold skip_x. rewrite negb_false_iff, andb_true_iff, Rleb_true, Rltb_true. tauto.
Qed.
Lemma leaf_skip_y yo s : skip_y yo s = false <-> 1 / 2 <= yo < s + 1 / 2.
Proof.
  unfold skip_y. rewrite negb_false_iff, andb_true_iff, Rleb_true, Rltb_true. tauto.
Qed.

(* half-sizes of the evaluated window, in pixels; sx, sy are FWHM in pixels *)
Definition xoff (sx sy theta : R) : R := 5 * (Rabs (sx * cos (rad theta)) + Rabs (sy * sin (rad theta))).
Definition yoff (sx sy theta : R) : R := 5 * (Rabs (sx * sin (rad theta)) + Rabs (sy * cos (rad theta))).

Lemma Rmax_IZR a b : Rmax (IZR a) (IZR b) = IZR (Z.max a b).
Proof.
  destruct (Z.le_ge_cases a b) as [H|H].
  - rewrite Z.max_r by lia. apply Rmax_right. now apply IZR_le.
  - rewrite Z.max_l by lia. apply Rmax_left. apply IZR_le. lia.
Qed.
Lemma Rmin_IZR a b : Rmin (IZR a) (IZR b) = IZR (Z.min a b).
Proof.
  destruct (Z.le_ge_cases a b) as [H|H].
  - rewrite Z.min_l by lia. apply Rmin_left. now apply IZR_le.
  - rewrite Z.min_r by lia. apply Rmin_right. apply IZR_le. lia.
Qed.
Lemma floor_le_iff a i : (Zfloor a <= i)%Z <-> a < IZR i + 1.
Proof.
  split; intros H.
  - apply Rlt_le_trans with (1 := Zfloor_ub a). apply IZR_le in H. lra.
  - assert (H1 : IZR (Zfloor a) < IZR (i + 1)).
    { rewrite plus_IZR. apply Rle_lt_trans with (1 := Zfloor_lb a). exact H. }
    apply lt_IZR in H1. lia.
Qed.
Lemma lt_ceil_iff b i : (i < Zceil b)%Z <-> IZR i < b.
Proof.
  split; intros H.
  - assert (H1 : (i <= Zceil b - 1)%Z) by lia. apply IZR_le in H1. rewrite minus_IZR in H1.
    pose proof (Zceil_lb b). lra.
  - apply lt_IZR. apply Rlt_le_trans with (1 := H). apply Zceil_ub.
Qed.

(* the pixel range np.mgrid[int(xmin):int(xmax), int(ymin):int(ymax)] without floor/ceil/int *)
Lemma leaf_window xo yo sx sy theta (s0 s1 : Z) x0 x1 y0 y1 :
  window xo yo sx sy theta (IZR s0) (IZR s1) = (x0, x1, y0, y1) ->
  forall i j : Z,
    ((x0 <= i < x1)%Z <-> ((0 <= i < s0)%Z /\ xo - xoff sx sy theta < IZR i + 1 /\ IZR i < xo + xoff sx sy theta))
    /\ ((y0 <= j < y1)%Z <-> ((0 <= j < s1)%Z /\ yo - yoff sx sy theta < IZR j + 1 /\ IZR j < yo + yoff sx sy theta)).
Proof.
  unfold window. cbv zeta. fold (xoff sx sy theta). fold (yoff sx sy theta).
  change 0 with (IZR 0). rewrite !Rmax_IZR, !Rmin_IZR, !Ztrunc_IZR.
  intros H. injection H as <- <- <- <-. intros i j.
  pose proof (floor_le_iff (xo - xoff sx sy theta) i). pose proof (lt_ceil_iff (xo + xoff sx sy theta) i).
  pose proof (floor_le_iff (yo - yoff sx sy theta) j). pose proof (lt_ceil_iff (yo + yoff sx sy theta) j).
  split; split; intros; lia || (repeat split; try lia; tauto || lia) || idtac.
  all: try (destruct H3 as (? & ? & ?); split; [apply Z.max_lub; tauto || lia | apply Z.min_glb_lt; tauto || lia]).
  all: try (destruct H3 as [Ha Hb]; apply Z.max_lub_iff in Ha; apply Z.min_glb_lt_iff in Hb; repeat split; try lia; tauto).
Qed.

Lemma leaf_px_model x y peak xo yo sx sy theta :
  px_model x y peak xo yo sx sy theta = gauss x y peak (xo - 1) (yo - 1) (sx * FWHM2CC) (sy * FWHM2CC) theta.
Proof. reflexivity. Qed.
Lemma leaf_m_init : m_init = 0.
Proof. reflexivity. Qed.
Lemma leaf_accum m v : accum m v = m + v.
Proof. reflexivity. Qed.
Lemma leaf_mask_frac_hit g f p : mask_frac_hit g f p = true <-> Rabs (f * p) <= Rabs g.
Proof. unfold mask_frac_hit. apply Rleb_true. Qed.
Lemma leaf_mask_sigma_hit g k rms : mask_sigma_hit g k rms = true <-> k * rms <= Rabs g.
Proof. unfold mask_sigma_hit. apply Rleb_true. Qed.
Lemma leaf_residual_px add mask d m :
  residual_px add mask d m = if (add || mask)%bool then d + m else d - m.
Proof. reflexivity. Qed.
Lemma leaf_rename :
  combine rename_from rename_to =
  [("ra_col", "ra"); ("dec_col", "dec"); ("peak_col", "peak_flux"); ("a_col", "a"); ("b_col", "b"); ("pa_col", "pa")]%string.
Proof. reflexivity. Qed.

(* load_sources: the default column map sends every parameter to its catalogue field *)
Definition default_colmap (p : string) : string :=
  match find (fun e => String.eqb (fst e) p) (combine load_params load_defaults) with Some e => snd e | None => p end.
Lemma leaf_default_colmap : map default_colmap rename_from = rename_to.
Proof. reflexivity. Qed.
Lemma leaf_rename_to : rename_to = ["ra"; "dec"; "peak_flux"; "a"; "b"; "pa"]%string.
Proof. reflexivity. Qed.
Lemma leaf_rename_len : List.length rename_from = List.length rename_to.
Proof. reflexivity. Qed.
Lemma leaf_rename_nodup : NoDup rename_to.
Proof. rewrite leaf_rename_to. repeat constructor; cbn; intuition discriminate. Qed.

(* the generated Gaussian is amp * exp(-q/2) with q the quadratic form of the rotated offsets *)
Definition quad (dx dy sgx sgy theta : R) : R :=
  ((dx * cos (rad theta) + dy * sin (rad theta)) / sgx) ^ 2 + ((dx * sin (rad theta) - dy * cos (rad theta)) / sgy) ^ 2.
Lemma leaf_gauss x y amp xo yo sgx sgy theta : sgx <> 0 -> sgy <> 0 ->
  gauss x y amp xo yo sgx sgy theta = amp * exp (- quad (x - xo) (y - yo) sgx sgy theta / 2).
Proof.
  intros Hx Hy. unfold gauss, quad. cbv zeta. f_equal. f_equal. field. split; assumption.
Qed.

Local Opaque FWHM2CC ell_args skip_x skip_y window px_model m_init accum mask_frac_hit mask_sigma_hit residual_px
       rename_from rename_to gauss.

(* ------------------------------------------------------------------------------------------ *)
(* Part 2 - theorems *)

(* --- acceptance and coverage in terms of real inequalities *)
Definition accepted_P (s0 s1 : Z) (s : psrc) : Prop :=
  1 / 2 <= s_xo s < IZR s0 + 1 / 2 /\ 1 / 2 <= s_yo s < IZR s1 + 1 / 2.
Definition window_P (s0 s1 : Z) (s : psrc) (i j : Z) : Prop :=
  ((0 <= i < s0)%Z /\ s_xo s - xoff (s_sx s) (s_sy s) (s_theta s) < IZR i + 1 /\ IZR i < s_xo s + xoff (s_sx s) (s_sy s) (s_theta s))
  /\ ((0 <= j < s1)%Z /\ s_yo s - yoff (s_sx s) (s_sy s) (s_theta s) < IZR j + 1 /\ IZR j < s_yo s + yoff (s_sx s) (s_sy s) (s_theta s)).
Definition covers_P s0 s1 s i j : Prop := accepted_P s0 s1 s /\ window_P s0 s1 s i j.

Lemma accepted_iff s0 s1 s : accepted s0 s1 s = true <-> accepted_P s0 s1 s.
Proof.
  unfold accepted, accepted_P. rewrite andb_true_iff, !negb_true_iff, leaf_skip_x, leaf_skip_y. tauto.
Qed.
Lemma in_window_iff s0 s1 s i j : in_window s0 s1 s i j = true <-> window_P s0 s1 s i j.
Proof.
  unfold in_window, window_P.
  destruct (window (s_xo s) (s_yo s) (s_sx s) (s_sy s) (s_theta s) (IZR s0) (IZR s1)) as [[[x0 x1] y0] y1] eqn:E.
  destruct (leaf_window _ _ _ _ _ _ _ _ _ _ _ E i j) as [Hx Hy].
  rewrite !andb_true_iff, !Z.leb_le, !Z.ltb_lt. tauto.
Qed.
Lemma covers_iff s0 s1 s i j : covers s0 s1 s i j = true <-> covers_P s0 s1 s i j.
Proof. unfold covers, covers_P. rewrite andb_true_iff, accepted_iff, in_window_iff. tauto. Qed.
Lemma covers_in_image s0 s1 s i j : covers s0 s1 s i j = true -> (0 <= i < s0)%Z /\ (0 <= j < s1)%Z.
Proof. rewrite covers_iff. unfold covers_P, window_P. tauto. Qed.

(* --- the model image is the sum of the contributions *)
Lemma Rsum_app l1 l2 : Rsum (l1 ++ l2) = Rsum l1 + Rsum l2.
Proof. unfold Rsum. induction l1 as [|a l IH]; cbn [app fold_right]; [ring|rewrite IH; ring]. Qed.

Lemma Rsum_nil : Rsum [] = 0.
Proof. reflexivity. Qed.
Lemma Rsum_cons a l : Rsum (a :: l) = a + Rsum l.
Proof. reflexivity. Qed.

Lemma fold_model s0 s1 i j cat : forall m,
  fold_left (fun m s => if covers s0 s1 s i j then accum m (term s i j) else m) cat m
  = m + Rsum (map (fun s => contrib s0 s1 s i j) cat).
Proof.
  induction cat as [|s cat IH]; intros m; cbn [fold_left map].
  - rewrite Rsum_nil. ring.
  - rewrite IH, Rsum_cons. unfold contrib at 2.
    destruct (covers s0 s1 s i j); [rewrite (leaf_accum m (term s i j))|]; ring.
Qed.

Lemma model_is_sum s0 s1 cat i j :
  model_px s0 s1 cat i j = Rsum (map (fun s => contrib s0 s1 s i j) cat).
Proof. unfold model_px. rewrite fold_model, leaf_m_init. ring. Qed.

(* a contribution is the generated Gaussian with the catalogued peak, centred on the 0-based pixel
   position (xo-1, yo-1), with sigma = FWHM2CC * (FWHM axis in pixels) and the pixel-frame angle *)
Lemma term_is_gauss s i j :
  term s i j = gauss (IZR i) (IZR j) (s_peak s) (s_xo s - 1) (s_yo s - 1) (s_sx s * FWHM2CC) (s_sy s * FWHM2CC) (s_theta s).
Proof. unfold term. apply leaf_px_model. Qed.

Lemma model_is_sum_full (ell : R * R * R * R * R -> R * R * R * R * R) s0 s1 (rows : list row) i j :
  model_px s0 s1 (map (to_src ell) rows) i j =
  Rsum (map (fun r =>
    let '(xo, yo, sx, sy, theta) := ell (r_ra r, r_dec r, r_a r / 3600, r_b r / 3600, r_pa r) in
    if covers s0 s1 (mkSrc (r_peak r) (r_rms r) xo yo sx sy theta) i j
    then gauss (IZR i) (IZR j) (r_peak r) (xo - 1) (yo - 1) (sx * (1 / (2 * sqrt (2 * ln 2)))) (sy * (1 / (2 * sqrt (2 * ln 2)))) theta
    else 0) rows).
Proof.
  rewrite model_is_sum, map_map. f_equal. apply map_ext. intros r.
  unfold to_src. rewrite leaf_ell_args.
  destruct (ell (r_ra r, r_dec r, r_a r / 3600, r_b r / 3600, r_pa r)) as [[[[xo yo] sx] sy] theta].
  unfold contrib. rewrite term_is_gauss, leaf_FWHM2CC. reflexivity.
Qed.

Lemma additive s0 s1 c1 c2 i j :
  model_px s0 s1 (c1 ++ c2) i j = model_px s0 s1 c1 i j + model_px s0 s1 c2 i j.
Proof. rewrite !model_is_sum, map_app, Rsum_app. reflexivity. Qed.

Lemma model_nil s0 s1 i j : model_px s0 s1 [] i j = 0.
Proof. rewrite model_is_sum. reflexivity. Qed.

(* order of the catalogue does not matter either (over R) *)
Lemma model_swap s0 s1 c1 c2 i j : model_px s0 s1 (c1 ++ c2) i j = model_px s0 s1 (c2 ++ c1) i j.
Proof. rewrite !additive. ring. Qed.

(* --- off-image sources *)
Definition centre_pixel (c : R) : Z := Zfloor (c - 1 + / 2).   (* pixel k covers [k - 1/2, k + 1/2) *)

Lemma floor_range a (n : Z) : (0 <= Zfloor a < n)%Z <-> 0 <= a < IZR n.
Proof.
  split.
  - intros [H1 H2]. split.
    + apply Rle_trans with (2 := Zfloor_lb a). now apply (IZR_le 0).
    + apply Rlt_le_trans with (1 := Zfloor_ub a). rewrite <- (plus_IZR _ 1). apply IZR_le. lia.
  - intros [H1 H2]. split.
    + now apply (Zfloor_lub 0).
    + apply lt_IZR. apply Rle_lt_trans with (1 := Zfloor_lb a). exact H2.
Qed.

Lemma offimage_skipped s0 s1 s :
  accepted s0 s1 s = true <-> (0 <= centre_pixel (s_xo s) < s0)%Z /\ (0 <= centre_pixel (s_yo s) < s1)%Z.
Proof.
  rewrite accepted_iff. unfold accepted_P, centre_pixel. rewrite !floor_range. lra.
Qed.

Lemma rejected_contributes_nothing s0 s1 s i j : accepted s0 s1 s = false -> contrib s0 s1 s i j = 0.
Proof. intros H. unfold contrib, covers. rewrite H. reflexivity. Qed.

Lemma rejected_ignored s0 s1 s cat i j : accepted s0 s1 s = false ->
  model_px s0 s1 (s :: cat) i j = model_px s0 s1 cat i j.
Proof.
  intros H. change (s :: cat) with ([s] ++ cat). rewrite additive, (model_is_sum _ _ [s]).
  cbn [map]. rewrite Rsum_cons, Rsum_nil, rejected_contributes_nothing by exact H. ring.
Qed.

(* --- add / subtract *)
Lemma add_sub_inverse d m : residual_px false false (residual_px true false d m) m = d.
Proof. rewrite !leaf_residual_px. cbn [orb]. ring. Qed.
Lemma sub_add_inverse d m : residual_px true false (residual_px false false d m) m = d.
Proof. rewrite !leaf_residual_px. cbn [orb]. ring. Qed.
Lemma subtract_own_model s0 s1 cat i j :
  residual false None s0 s1 cat (Rsum (map (fun s => contrib s0 s1 s i j) cat)) i j = Some 0.
Proof.
  unfold residual, make_model_px. cbn [option_map]. rewrite leaf_residual_px, model_is_sum. cbn [orb]. f_equal. ring.
Qed.

(* --- mask mode *)
Definition hit_P (mode : mask_mode) (s : psrc) (i j : Z) : Prop :=
  match mode with
  | ByFrac f => Rabs (f * s_peak s) <= Rabs (term s i j)
  | BySigma g => g * s_rms s <= Rabs (term s i j)
  end.
Lemma hit_iff mode s i j : hit mode s i j = true <-> hit_P mode s i j.
Proof. destruct mode; cbn [hit hit_P]; [apply leaf_mask_frac_hit|apply leaf_mask_sigma_hit]. Qed.

Lemma mask_exact_window s0 s1 mode cat i j :
  blank_px s0 s1 mode cat i j = true <-> exists s, In s cat /\ covers_P s0 s1 s i j /\ hit_P mode s i j.
Proof.
  unfold blank_px. rewrite existsb_exists. split; intros (s & Hin & H); exists s; split; try assumption.
  - apply andb_true_iff in H. now rewrite <- covers_iff, <- hit_iff.
  - apply andb_true_iff. now rewrite covers_iff, hit_iff.
Qed.

Lemma mask_residual s0 s1 add mode cat d i j :
  residual add (Some mode) s0 s1 cat d i j = if blank_px s0 s1 mode cat i j then None else Some d.
Proof.
  unfold residual, make_model_px. destruct (blank_px s0 s1 mode cat i j); cbn [option_map]; [reflexivity|].
  rewrite leaf_residual_px, leaf_m_init, orb_true_r. f_equal. ring.
Qed.

(* --- the evaluated window: outside it every term is negligible *)
Definition k_window : R := 5 / FWHM2CC.     (* window half-size in units of sigma: 5 FWHM *)

Lemma FWHM2CC_pos : 0 < FWHM2CC.
Proof. rewrite leaf_FWHM2CC. interval. Qed.
Lemma k_window_ge_5 : 5 < k_window.
Proof. unfold k_window. rewrite leaf_FWHM2CC. interval. Qed.
Lemma k_window_value : Rabs (k_window - 11774100225 / 1000000000) <= 1 / 1000000000.
Proof. unfold k_window. rewrite leaf_FWHM2CC. interval with (i_prec 60). Qed.
Lemma window_tail : exp (- (k_window ^ 2) / 2) <= 1 / 10 ^ 30.
Proof. unfold k_window. rewrite leaf_FWHM2CC. interval with (i_prec 60). Qed.

(* Cauchy-Schwarz core: if dx = a p + b q and |dx| >= K (|p| + |q|) then a^2 + b^2 >= K^2 *)
Lemma box_quad dx a b p q K :
  dx = a * p + b * q -> 0 < Rabs p + Rabs q -> 0 <= K -> K * (Rabs p + Rabs q) <= Rabs dx ->
  K ^ 2 <= a ^ 2 + b ^ 2.
Proof.
  intros Hdx HB HK Hout. set (B := Rabs p + Rabs q) in *.
  assert (H1 : dx ^ 2 <= (a ^ 2 + b ^ 2) * (p ^ 2 + q ^ 2)).
  { subst dx. pose proof (pow2_ge_0 (a * q - b * p)). nra. }
  assert (H2 : p ^ 2 + q ^ 2 <= B ^ 2).
  { unfold B. pose proof (Rabs_pos p). pose proof (Rabs_pos q).
    rewrite <- (pow2_abs p), <- (pow2_abs q). nra. }
  assert (H3 : (K * B) ^ 2 <= dx ^ 2).
  { rewrite <- (pow2_abs dx). apply pow_incr. split; [nra|exact Hout]. }
  assert (H4 : 0 <= a ^ 2 + b ^ 2) by (pose proof (pow2_ge_0 a); pose proof (pow2_ge_0 b); lra).
  assert (H5 : K ^ 2 * B ^ 2 <= (a ^ 2 + b ^ 2) * B ^ 2) by nra.
  assert (H6 : 0 < B ^ 2) by nra.
  apply Rmult_le_reg_r with (1 := H6). exact H5.
Qed.

Lemma trig_not_both_zero sx sy t : 0 < sx -> 0 < sy -> 0 < Rabs (sx * cos t) + Rabs (sy * sin t).
Proof.
  intros Hx Hy. pose proof (sin2_cos2 t) as H. rewrite !Rsqr_pow2 in H.
  pose proof (Rabs_pos (sx * cos t)). pose proof (Rabs_pos (sy * sin t)).
  destruct (Req_dec (cos t) 0) as [Hc|Hc].
  - assert (Hs : sin t <> 0) by (intros Hs; rewrite Hc, Hs in H; lra).
    assert (0 < Rabs (sy * sin t)) by (apply Rabs_pos_lt; apply Rmult_integral_contrapositive_currified; lra). lra.
  - assert (0 < Rabs (sx * cos t)) by (apply Rabs_pos_lt; apply Rmult_integral_contrapositive_currified; lra). lra.
Qed.
Lemma trig_not_both_zero' sx sy t : 0 < sx -> 0 < sy -> 0 < Rabs (sx * sin t) + Rabs (sy * cos t).
Proof.
  intros Hx Hy. pose proof (sin2_cos2 t) as H. rewrite !Rsqr_pow2 in H.
  pose proof (Rabs_pos (sx * sin t)). pose proof (Rabs_pos (sy * cos t)).
  destruct (Req_dec (sin t) 0) as [Hc|Hc].
  - assert (Hs : cos t <> 0) by (intros Hs; rewrite Hc, Hs in H; lra).
    assert (0 < Rabs (sy * cos t)) by (apply Rabs_pos_lt; apply Rmult_integral_contrapositive_currified; lra). lra.
  - assert (0 < Rabs (sx * sin t)) by (apply Rabs_pos_lt; apply Rmult_integral_contrapositive_currified; lra). lra.
Qed.

(* bounding box of the rotated ellipse: a point whose x-offset (or y-offset) from the centre is at least
   the window half-size lies on or outside the k_window-sigma ellipse *)
Lemma outside_box_quad dx dy sx sy theta : 0 < sx -> 0 < sy ->
  xoff sx sy theta <= Rabs dx \/ yoff sx sy theta <= Rabs dy ->
  k_window ^ 2 <= quad dx dy (sx * FWHM2CC) (sy * FWHM2CC) theta.
Proof.
  intros Hx Hy Hout. pose proof FWHM2CC_pos as HF. set (F := FWHM2CC) in *.
  assert (HK : 0 <= k_window) by (pose proof k_window_ge_5; lra).
  set (c := cos (rad theta)). set (s := sin (rad theta)).
  assert (Hcs : c ^ 2 + s ^ 2 = 1).
  { pose proof (sin2_cos2 (rad theta)) as H. rewrite !Rsqr_pow2 in H. unfold c, s. lra. }
  assert (Hsx : sx * F <> 0) by (apply Rmult_integral_contrapositive_currified; lra).
  assert (Hsy : sy * F <> 0) by (apply Rmult_integral_contrapositive_currified; lra).
  unfold quad. fold c s.
  set (a := (dx * c + dy * s) / (sx * F)). set (b := (dx * s - dy * c) / (sy * F)).
  destruct Hout as [Hout|Hout].
  - apply (box_quad dx a b (sx * F * c) (sy * F * s)); [| | exact HK |].
    + transitivity (dx * (c ^ 2 + s ^ 2)); [rewrite Hcs; ring|].
      unfold a, b. field. repeat split; apply Rgt_not_eq; lra.
    + replace (sx * F * c) with ((sx * F) * c) by ring. replace (sy * F * s) with ((sy * F) * s) by ring.
      apply trig_not_both_zero; nra.
    + eapply Rle_trans; [|exact Hout]. unfold xoff, k_window. fold F c s.
      replace (sx * F * c) with (F * (sx * c)) by ring. replace (sy * F * s) with (F * (sy * s)) by ring.
      rewrite !(Rabs_mult F), (Rabs_pos_eq F) by lra. apply Req_le. field. lra.
  - apply (box_quad dy a b (sx * F * s) (- (sy * F * c))); [| | exact HK |].
    + transitivity (dy * (c ^ 2 + s ^ 2)); [rewrite Hcs; ring|].
      unfold a, b. field. repeat split; apply Rgt_not_eq; lra.
    + rewrite Rabs_Ropp.
      replace (sx * F * s) with ((sx * F) * s) by ring. replace (sy * F * c) with ((sy * F) * c) by ring.
      apply trig_not_both_zero'; nra.
    + eapply Rle_trans; [|exact Hout]. unfold yoff, k_window. fold F c s. rewrite Rabs_Ropp.
      replace (sx * F * s) with (F * (sx * s)) by ring. replace (sy * F * c) with (F * (sy * c)) by ring.
      rewrite !(Rabs_mult F), (Rabs_pos_eq F) by lra. apply Req_le. field. lra.
Qed.

Lemma xoff_nonneg sx sy t : 0 <= xoff sx sy t.
Proof. unfold xoff. pose proof (Rabs_pos (sx * cos (rad t))). pose proof (Rabs_pos (sy * sin (rad t))). lra. Qed.
Lemma yoff_nonneg sx sy t : 0 <= yoff sx sy t.
Proof. unfold yoff. pose proof (Rabs_pos (sx * sin (rad t))). pose proof (Rabs_pos (sy * cos (rad t))). lra. Qed.

(* an image pixel that is not evaluated lies outside the box *)
Lemma not_window_outside s0 s1 s i j : (0 <= i < s0)%Z -> (0 <= j < s1)%Z -> in_window s0 s1 s i j = false ->
  xoff (s_sx s) (s_sy s) (s_theta s) <= Rabs (IZR i - (s_xo s - 1))
  \/ yoff (s_sx s) (s_sy s) (s_theta s) <= Rabs (IZR j - (s_yo s - 1)).
Proof.
  intros Hi Hj Hw.
  assert (Hn : ~ window_P s0 s1 s i j) by (rewrite <- in_window_iff, Hw; discriminate).
  unfold window_P in Hn.
  pose proof (xoff_nonneg (s_sx s) (s_sy s) (s_theta s)) as Hx0.
  pose proof (yoff_nonneg (s_sx s) (s_sy s) (s_theta s)) as Hy0.
  set (X := xoff (s_sx s) (s_sy s) (s_theta s)) in *. set (Y := yoff (s_sx s) (s_sy s) (s_theta s)) in *.
  destruct (Rlt_dec (s_xo s - X) (IZR i + 1)) as [H1|H1];
    [destruct (Rlt_dec (IZR i) (s_xo s + X)) as [H2|H2];
       [destruct (Rlt_dec (s_yo s - Y) (IZR j + 1)) as [H3|H3];
          [destruct (Rlt_dec (IZR j) (s_yo s + Y)) as [H4|H4]; [exfalso; apply Hn; tauto|]|]|]|].
  - right. unfold Rabs. destruct (Rcase_abs _); lra.
  - right. unfold Rabs. destruct (Rcase_abs _); lra.
  - left. unfold Rabs. destruct (Rcase_abs _); lra.
  - left. unfold Rabs. destruct (Rcase_abs _); lra.
Qed.

Lemma term_quad s i j : 0 < s_sx s -> 0 < s_sy s ->
  term s i j = s_peak s * exp (- quad (IZR i - (s_xo s - 1)) (IZR j - (s_yo s - 1))
                                     (s_sx s * FWHM2CC) (s_sy s * FWHM2CC) (s_theta s) / 2).
Proof.
  intros Hx Hy. pose proof FWHM2CC_pos. rewrite term_is_gauss. apply leaf_gauss; apply Rmult_integral_contrapositive_currified; lra.
Qed.

Lemma window_bound s0 s1 s i j : 0 < s_sx s -> 0 < s_sy s -> (0 <= i < s0)%Z -> (0 <= j < s1)%Z ->
  in_window s0 s1 s i j = false ->
  Rabs (term s i j) <= Rabs (s_peak s) * exp (- (k_window ^ 2) / 2).
Proof.
  intros Hx Hy Hi Hj Hw. rewrite term_quad by assumption.
  rewrite Rabs_mult, (Rabs_pos_eq (exp _)) by (left; apply exp_pos).
  apply Rmult_le_compat_l; [apply Rabs_pos|].
  pose proof (outside_box_quad _ _ _ _ (s_theta s) Hx Hy (not_window_outside s0 s1 s i j Hi Hj Hw)) as Hq.
  destruct (Rle_lt_or_eq_dec _ _ Hq) as [Hlt|Heq].
  - left. apply exp_increasing. lra.
  - right. rewrite Heq. reflexivity.
Qed.

(* "evaluated out to 5 sigma": every image pixel within the 5-sigma ellipse (indeed within the
   k_window-sigma ellipse, k_window = 5 FWHM = 11.77 sigma) of an accepted source is evaluated *)
Lemma five_sigma_evaluated s0 s1 s i j : 0 < s_sx s -> 0 < s_sy s -> (0 <= i < s0)%Z -> (0 <= j < s1)%Z ->
  quad (IZR i - (s_xo s - 1)) (IZR j - (s_yo s - 1)) (s_sx s * FWHM2CC) (s_sy s * FWHM2CC) (s_theta s) <= 5 ^ 2 ->
  in_window s0 s1 s i j = true.
Proof.
  intros Hx Hy Hi Hj Hq. destruct (in_window s0 s1 s i j) eqn:Hw; [reflexivity|exfalso].
  pose proof (outside_box_quad _ _ _ _ (s_theta s) Hx Hy (not_window_outside s0 s1 s i j Hi Hj Hw)) as Hk.
  pose proof k_window_ge_5. nra.
Qed.

(* the model image against the untruncated sum over the accepted sources *)
Definition full_term (s0 s1 : Z) (s : psrc) (i j : Z) : R := if accepted s0 s1 s then term s i j else 0.
Definition regular (s : psrc) : Prop := 0 < s_sx s /\ 0 < s_sy s.

Lemma truncation_error s0 s1 cat i j : Forall regular cat -> (0 <= i < s0)%Z -> (0 <= j < s1)%Z ->
  Rabs (model_px s0 s1 cat i j - Rsum (map (fun s => full_term s0 s1 s i j) cat))
  <= exp (- (k_window ^ 2) / 2) * Rsum (map (fun s => Rabs (s_peak s)) cat).
Proof.
  intros Hreg Hi Hj. rewrite model_is_sum.
  induction Hreg as [|s cat [Hx Hy] Hreg IH]; cbn [map]; rewrite ?Rsum_nil, ?Rsum_cons.
  - rewrite Rminus_0_r, Rabs_R0. lra.
  - set (E := exp (- (k_window ^ 2) / 2)) in *.
    replace (contrib s0 s1 s i j + Rsum (map (fun s => contrib s0 s1 s i j) cat)
             - (full_term s0 s1 s i j + Rsum (map (fun s => full_term s0 s1 s i j) cat)))
      with ((contrib s0 s1 s i j - full_term s0 s1 s i j)
            + (Rsum (map (fun s => contrib s0 s1 s i j) cat) - Rsum (map (fun s => full_term s0 s1 s i j) cat))) by ring.
    eapply Rle_trans; [apply Rabs_triang|].
    assert (H1 : Rabs (contrib s0 s1 s i j - full_term s0 s1 s i j) <= E * Rabs (s_peak s)).
    { unfold contrib, full_term, covers. destruct (accepted s0 s1 s); cbn [andb].
      - destruct (in_window s0 s1 s i j) eqn:Hw.
        + rewrite Rminus_diag_eq by reflexivity. rewrite Rabs_R0.
          apply Rmult_le_pos; [left; apply exp_pos|apply Rabs_pos].
        + replace (0 - term s i j) with (- term s i j) by ring. rewrite Rabs_Ropp, Rmult_comm.
          apply (window_bound s0 s1); assumption.
      - rewrite Rminus_diag_eq by reflexivity. rewrite Rabs_R0.
        apply Rmult_le_pos; [left; apply exp_pos|apply Rabs_pos]. }
    lra.
Qed.

(* mask mode is exact on the whole image when every threshold is above the truncation level *)
Definition threshold (mode : mask_mode) (s : psrc) : R :=
  match mode with ByFrac f => Rabs (f * s_peak s) | BySigma g => g * s_rms s end.
Definition resolved (mode : mask_mode) (s : psrc) : Prop :=
  regular s /\ Rabs (s_peak s) * exp (- (k_window ^ 2) / 2) < threshold mode s.

Lemma hit_P_threshold mode s i j : hit_P mode s i j <-> threshold mode s <= Rabs (term s i j).
Proof. destruct mode; reflexivity. Qed.

Lemma mask_exact s0 s1 mode cat i j : Forall (resolved mode) cat -> (0 <= i < s0)%Z -> (0 <= j < s1)%Z ->
  (blank_px s0 s1 mode cat i j = true <->
   exists s, In s cat /\ accepted s0 s1 s = true /\ threshold mode s <= Rabs (term s i j)).
Proof.
  intros Hres Hi Hj. rewrite mask_exact_window. split; intros (s & Hin & H1 & H2); exists s; split; try assumption.
  - destruct H1 as [Ha _]. rewrite accepted_iff, <- hit_P_threshold. tauto.
  - rewrite hit_P_threshold. split; [|exact H2]. split; [now apply accepted_iff|].
    apply in_window_iff. destruct (in_window s0 s1 s i j) eqn:Hw; [reflexivity|exfalso].
    rewrite Forall_forall in Hres. destruct (Hres s Hin) as [[Hx Hy] Hthr].
    pose proof (window_bound s0 s1 s i j Hx Hy Hi Hj Hw). lra.
Qed.

(* --- load_sources *)
Section TableProofs.
  Variable V : Type.
  Notation table := (table V).
  Notation col := (col V).
  Notation has := (has V).

  Lemma mem_iff c l : mem c l = true <-> In c l.
  Proof.
    unfold mem. rewrite existsb_exists. split.
    - intros (x & Hin & E). apply String.eqb_eq in E. now subst.
    - intros H. exists c. split; [exact H|apply String.eqb_refl].
  Qed.
  Lemma has_col (t : table) c : has t c = true <-> exists v, col t c = Some v.
  Proof.
    unfold has, col. induction t as [|[n v] t IH]; cbn [existsb find fst].
    - split; [discriminate|intros [v H]; discriminate].
    - destruct (String.eqb n c); cbn [orb option_map snd]; [split; [eauto|reflexivity]|exact IH].
  Qed.
  Lemma col_cons n v (t : table) c : col ((n, v) :: t) c = if String.eqb n c then Some v else col t c.
  Proof. unfold col. cbn [find fst]. destruct (String.eqb n c); reflexivity. Qed.
  Lemma col_app (t1 t2 : table) c : col (t1 ++ t2) c = match col t1 c with Some v => Some v | None => col t2 c end.
  Proof.
    induction t1 as [|[n v] t1 IH]; [reflexivity|]. cbn [app]. rewrite !col_cons. destruct (String.eqb n c); [reflexivity|exact IH].
  Qed.
  Lemma col_filter (P : string -> bool) (t : table) c :
    col (filter (fun e => P (fst e)) t) c = if P c then col t c else None.
  Proof.
    induction t as [|[n v] t IH]; cbn [filter fst]; [destruct (P c); reflexivity|].
    destruct (P n) eqn:Pn; rewrite ?col_cons; destruct (String.eqb n c) eqn:E;
      try (apply String.eqb_eq in E; subst n); rewrite ?IH, ?Pn; reflexivity.
  Qed.
  Lemma col_none_notin (t : table) c : ~ In c (map fst t) -> col t c = None.
  Proof.
    induction t as [|[n v] t IH]; [reflexivity|]. cbn [map fst In]. intros H. rewrite col_cons.
    destruct (String.eqb n c) eqn:E; [apply String.eqb_eq in E; tauto|apply IH; tauto].
  Qed.

  Lemma pick_some (t : table) olds : Forall (fun c => has t c = true) olds ->
    exists vs, pick V t olds = Some vs /\ Forall2 (fun c v => col t c = Some v) olds vs.
  Proof.
    induction 1 as [|c olds Hc _ (vs & E & F)]; cbn [pick]; [exists []; split; [reflexivity|constructor]|].
    apply has_col in Hc. destruct Hc as [v Hv]. rewrite Hv, E. exists (v :: vs). split; [reflexivity|constructor; assumption].
  Qed.
  Lemma pick_none (t : table) olds c : In c olds -> has t c = false -> pick V t olds = None.
  Proof.
    induction olds as [|o olds IH]; [intros []|]. intros [->|Hin] Hc; cbn [pick].
    - destruct (col t c) eqn:E; [|reflexivity]. assert (has t c = true) by (apply has_col; eauto). congruence.
    - rewrite (IH Hin Hc). destruct (col t o); reflexivity.
  Qed.

  (* the copies, added under the new names, are found under the new names *)
  Lemma col_added (t : table) olds : forall news vs o f,
    Forall2 (fun c v => col t c = Some v) olds vs -> NoDup news -> List.length olds = List.length news ->
    In (o, f) (combine olds news) -> col (combine news vs) f = col t o.
  Proof.
    induction olds as [|o1 olds IH]; intros news vs o f F N L Hin; [destruct Hin|].
    destruct news as [|f1 news]; [discriminate|]. inversion F as [|? v1 ? vs' Hv F']; subst. inversion N as [|? ? Hnot N']; subst.
    cbn [combine] in *. rewrite col_cons. destruct Hin as [E|Hin].
    - injection E as <- <-. rewrite String.eqb_refl. symmetry. exact Hv.
    - assert (f1 <> f) by (intros ->; apply Hnot; eapply in_combine_r; exact Hin).
      destruct (String.eqb f1 f) eqn:E; [apply String.eqb_eq in E; contradiction|].
      apply IH; try assumption. cbn [List.length] in L. now injection L.
  Qed.
  Lemma fst_combine (news : list string) : forall (vs : list V), List.length news = List.length vs -> map fst (combine news vs) = news.
  Proof. induction news as [|f news IH]; intros [|v vs] L; try discriminate; [reflexivity|]. cbn [combine map fst]. f_equal. apply IH. cbn [List.length] in L. now injection L. Qed.
  Lemma NoDup_app_disjoint {A} (l1 l2 : list A) : NoDup l1 -> NoDup l2 -> (forall c, In c l1 -> ~ In c l2) -> NoDup (l1 ++ l2).
  Proof.
    induction 1 as [|a l1 Ha N1 IH]; intros N2 D; [exact N2|]. cbn [app]. constructor.
    - intros Hin. apply in_app_or in Hin. destruct Hin as [Hin|Hin]; [contradiction|apply (D a); [now left|exact Hin]].
    - apply IH; [exact N2|]. intros c Hc. apply D. now right.
  Qed.
  Lemma Forall2_len {A B} (R : A -> B -> Prop) l1 l2 : Forall2 R l1 l2 -> List.length l1 = List.length l2.
  Proof. induction 1; cbn; congruence. Qed.

  (* FULL renaming theorem for arbitrary requested / catalogue name lists *)
  Lemma load_cols_spec (t : table) olds news : NoDup news -> List.length olds = List.length news ->
    Forall (fun c => has t c = true) olds ->
    exists t', load_cols V olds news t = Some t'
      /\ (forall o f, In (o, f) (combine olds news) -> col t' f = col t o)
      /\ (forall c, ~ In c (olds ++ news) -> col t' c = col t c)
      /\ (NoDup (map fst t) -> NoDup (map fst t')).
  Proof.
    intros N L H. destruct (pick_some t olds H) as (vs & E & F). unfold load_cols. rewrite E.
    pose proof (Forall2_len _ _ _ F) as Lv.
    set (P := fun c => negb (mem c (olds ++ news))).
    change (filter (fun e => negb (mem (fst e) (olds ++ news))) t) with (filter (fun e => P (fst e)) t).
    eexists. split; [reflexivity|]. split; [|split].
    - intros o f Hin. rewrite col_app, col_filter.
      assert (Pf : P f = false).
      { unfold P. apply negb_false_iff, mem_iff, in_or_app. right. eapply in_combine_r; exact Hin. }
      rewrite Pf. apply (col_added t olds); assumption.
    - intros c Hc. rewrite col_app, col_filter.
      assert (Pc : P c = true).
      { unfold P. apply negb_true_iff. destruct (mem c (olds ++ news)) eqn:M; [apply mem_iff in M; contradiction|reflexivity]. }
      rewrite Pc. destruct (col t c); [reflexivity|].
      apply col_none_notin. rewrite fst_combine by congruence. intros Hn. apply Hc, in_or_app. now right.
    - intros Nt. rewrite map_app, fst_combine by congruence.
      assert (Hf : forall (l : table), NoDup (map fst l) -> NoDup (map fst (filter (fun e => P (fst e)) l))
                   /\ forall c, In c (map fst (filter (fun e => P (fst e)) l)) -> In c (map fst l) /\ P c = true).
      { induction l as [|[n v] l IHl]; cbn [filter map fst]; [intros _; split; [constructor|intros c []]|].
        intros Nl. inversion Nl as [|? ? Hn Nl']; subst. destruct (IHl Nl') as [N1 S1].
        destruct (P n) eqn:Pn; cbn [map fst].
        - split.
          + constructor; [intros Hin; apply Hn; apply (S1 n Hin)|exact N1].
          + intros c [<-|Hin]; [split; [now left|exact Pn]|destruct (S1 c Hin); split; [now right|assumption]].
        - split; [exact N1|]. intros c Hin. destruct (S1 c Hin). split; [now right|assumption]. }
      destruct (Hf t Nt) as [N1 S1].
      apply NoDup_app_disjoint; try assumption.
      intros c Hin Hnews. destruct (S1 c Hin) as [_ Pc]. unfold P in Pc. apply negb_true_iff in Pc.
      assert (mem c (olds ++ news) = true) by (apply mem_iff, in_or_app; now right). congruence.
  Qed.

  Lemma in_combine_map (g : string -> string) (l1 l2 : list string) p f :
    In (p, f) (combine l1 l2) -> In (g p, f) (combine (map g l1) l2).
  Proof.
    revert l2. induction l1 as [|a l1 IH]; intros l2 H; [cbn [combine In] in H; contradiction|].
    destruct l2 as [|b l2]; [cbn [combine In] in H; contradiction|].
    cbn [map combine In] in *. destruct H as [E|H]; [injection E as -> ->; now left|right; now apply IH].
  Qed.

  (* load_sources: every requested column becomes its catalogue field, whatever other columns the
     table has (columns already named like a catalogue field, swapped names ...) *)
  Lemma load_full (t : table) colmap : (forall p, In p rename_from -> has t (colmap p) = true) ->
    exists t', load_table V colmap t = Some t'
      /\ (forall p f, In (p, f) (combine rename_from rename_to) -> col t' f = col t (colmap p))
      /\ (forall c, ~ In c (map colmap rename_from ++ rename_to) -> col t' c = col t c)
      /\ (NoDup (map fst t) -> NoDup (map fst t')).
  Proof.
    intros H. unfold load_table.
    destruct (load_cols_spec t (map colmap rename_from) rename_to leaf_rename_nodup) as (t' & E & A & B & C).
    - rewrite List.map_length. exact leaf_rename_len.
    - apply Forall_forall. intros c Hc. apply in_map_iff in Hc. destruct Hc as (p & <- & Hp). now apply H.
    - exists t'. split; [exact E|]. split; [|split; assumption].
      intros p f Hin. apply A. now apply in_combine_map.
  Qed.
  (* a missing requested column gives None (load_sources returns None), not a silently wrong catalogue *)
  Lemma load_missing (t : table) colmap p : In p rename_from -> has t (colmap p) = false -> load_table V colmap t = None.
  Proof.
    intros Hp Hc. unfold load_table, load_cols. rewrite (pick_none t (map colmap rename_from) (colmap p)); [reflexivity| |exact Hc].
    apply in_map. exact Hp.
  Qed.
End TableProofs.
