(* C17 (geometry): the property-shaped statements, assembled from Lib/Sphere.v. *)
From Coq Require Import Reals Lra.
From Aegean Require Import Lib.RBase Gen.Sphere Lib.Sphere.
Open Scope R_scope.

Lemma c17_gcd_vector ra1 dec1 ra2 dec2 :
  cos (rad (gcd ra1 dec1 ra2 dec2)) = dot (uvec ra1 dec1) (uvec ra2 dec2) /\
  gcd ra1 dec1 ra2 dec2 = deg (acos (dot (uvec ra1 dec1) (uvec ra2 dec2))).
Proof. split; [apply gcd_vector | apply gcd_angle]. Qed.

(* the haversine formula (the text of gcd before its repair) yields the same real number; hav is the squared half chord *)
Lemma c17_gcd_haversine ra1 dec1 ra2 dec2 :
  gcd ra1 dec1 ra2 dec2 = deg (2 * asin (Rmin 1 (sqrt (hav ra1 dec1 ra2 dec2)))) /\
  hav ra1 dec1 ra2 dec2 = (1 - dot (uvec ra1 dec1) (uvec ra2 dec2)) / 2.
Proof. split; [apply gcd_hav | apply hav_dot]. Qed.

(* the standard position-angle formula, its meaning in the local (north, east) frame, and its range *)
Lemma c17_bear_pa ra1 dec1 ra2 dec2 :
  bear ra1 dec1 ra2 dec2 =
    deg (atan2 (sin (rad (ra2 - ra1)) * cos (rad dec2))
               (cos (rad dec1) * sin (rad dec2) - sin (rad dec1) * cos (rad dec2) * cos (rad (ra2 - ra1)))) /\
  bear ra1 dec1 ra2 dec2 =
    deg (atan2 (dot (uvec ra2 dec2) (east ra1 dec1)) (dot (uvec ra2 dec2) (north ra1 dec1))) /\
  -180 < bear ra1 dec1 ra2 dec2 <= 180.
Proof.
  split; [apply bear_eq|]. split; [|apply bear_range].
  destruct (bear_frame ra1 dec1 ra2 dec2) as [<- <-]. apply bear_eq.
Qed.

Lemma translate_period ra dec r theta : translate ra dec r theta = translate ra dec r (theta - 360).
Proof.
  rewrite !translate_eq. unfold tr_y, tr_x, tr_factor.
  replace (rad (theta - 360)) with (rad theta - 2 * PI) by (unfold rad; field).
  rewrite sin_minus, cos_minus, sin_2PI, cos_2PI.
  replace (cos (rad theta) * 1 + sin (rad theta) * 0) with (cos (rad theta)) by ring.
  replace (sin (rad theta) * 1 - cos (rad theta) * 0) with (sin (rad theta)) by ring.
  reflexivity.
Qed.

Lemma c17_translate ra dec r theta :
  0 < r < 180 -> -90 < dec < 90 ->
  let q := translate ra dec r theta in
  -90 < snd q < 90 ->
  gcd ra dec (fst q) (snd q) = r /\
  (-180 < theta <= 180 -> bear ra dec (fst q) (snd q) = theta) /\
  (180 < theta < 360 -> bear ra dec (fst q) (snd q) = theta - 360).
Proof.
  intros Hr Hdec q Hq. split; [apply translate_gcd; assumption|]. split.
  - intros Ht. apply translate_bear; assumption.
  - intros Ht. unfold q in *. rewrite translate_period in *. apply translate_bear; try assumption. lra.
Qed.
