(* C09 - circles and polygons cover their shape: proofs about Model/SkyCoords.v.

   Layout
     1. characterising lemmas of the GENERATED leaves (Gen/SkyCoords.v); the only place they are unfolded
     2. vectors; the conversions sky2ang / sky2vec / vec2sky
     3. the mask / degin / scalar-vector logic of sky_within
     4. pixel-set facts (from the C08 proofs): what a region holds after add_circles / add_poly
     5. Section HEALPix: healpy and the HEALPix cell geometry as variables with hypotheses H0-H6, P0-P2;
        coverage, tightness, area between the caps *)
From Coq Require Import Reals ZArith Bool List Lia Lra.
From Aegean Require Import Lib.RBase Gen.SkyCoords Gen.Regions Model.RegionModel Model.RegionSpec
  Proofs.RegionProofs Model.SkyCoords Model.SkyCoordsSpec.
Import ListNotations.
Open Scope R_scope.

(* ------------------------------------------------------------------------------------ *)
(** * 1. The generated leaves *)
Lemma sky2ang_theta_eq ra dec : sky2ang_theta ra dec = PI / 2 - dec.
Proof. reflexivity. Qed.
Lemma sky2ang_phi_eq ra dec : sky2ang_phi ra dec = ra.
Proof. reflexivity. Qed.
Lemma sky2vec_theta_first_eq : sky2vec_theta_first = true.
Proof. reflexivity. Qed.
Lemma vec2sky_ra_eq t p : vec2sky_ra t p = p.
Proof. reflexivity. Qed.
Lemma vec2sky_dec_eq t p : vec2sky_dec t p = PI / 2 - t.
Proof. reflexivity. Qed.
Lemma vec2sky_ra_degrees_eq x : vec2sky_ra_degrees x = deg x.
Proof. reflexivity. Qed.
Lemma vec2sky_dec_degrees_eq x : vec2sky_dec_degrees x = deg x.
Proof. reflexivity. Qed.
Lemma degin_conv_eq x : degin_conv x = rad x.
Proof. reflexivity. Qed.
Lemma mask_negated_all_finite_eq : mask_negated_all_finite = true.
Proof. reflexivity. Qed.
Lemma mask_fill_eq : mask_fill = 0.
Proof. reflexivity. Qed.
Lemma masked_result_eq : masked_result = false.
Proof. reflexivity. Qed.
Lemma within_theta_first_eq : within_theta_first = true.
Proof. reflexivity. Qed.
Lemma within_nest_eq : within_nest = true.
Proof. reflexivity. Qed.
Lemma within_depth_eq D : within_depth D = D.
Proof. reflexivity. Qed.
Lemma circle_depth_clamp_eq D d : circle_depth_clamp D d = (D <? d)%Z.
Proof. reflexivity. Qed.
Lemma circle_depth_default_eq D : circle_depth_default D = D.
Proof. reflexivity. Qed.
Lemma disc_depth_eq d : disc_depth d = d.
Proof. reflexivity. Qed.
Lemma disc_inclusive_eq : disc_inclusive = true.
Proof. reflexivity. Qed.
Lemma disc_nest_eq : disc_nest = true.
Proof. reflexivity. Qed.
Lemma poly_depth_clamp_eq D d : poly_depth_clamp D d = (D <? d)%Z.
Proof. reflexivity. Qed.
Lemma poly_depth_default_eq D : poly_depth_default D = D.
Proof. reflexivity. Qed.
Lemma poly_depth_eq d : poly_depth d = d.
Proof. reflexivity. Qed.
Lemma poly_inclusive_eq : poly_inclusive = true.
Proof. reflexivity. Qed.
Lemma poly_nest_eq : poly_nest = true.
Proof. reflexivity. Qed.

Global Opaque sky2ang_theta sky2ang_phi sky2vec_theta_first vec2sky_ra vec2sky_dec vec2sky_ra_degrees
  vec2sky_dec_degrees degin_conv mask_negated_all_finite mask_fill masked_result within_theta_first
  within_nest within_depth circle_depth_clamp circle_depth_default disc_depth disc_inclusive disc_nest
  poly_depth_clamp poly_depth_default poly_depth poly_inclusive poly_nest.

(* ------------------------------------------------------------------------------------ *)
(** * 2. Vectors and conversions *)

Lemma unitvec_norm ra dec : dot (unitvec ra dec) (unitvec ra dec) = 1.
Proof.
  unfold dot, unitvec.
  pose proof (sin2_cos2 ra) as Ha. pose proof (sin2_cos2 dec) as Hd. unfold Rsqr in Ha, Hd.
  replace (cos dec * cos ra * (cos dec * cos ra) + cos dec * sin ra * (cos dec * sin ra) + sin dec * sin dec)
    with (cos dec * cos dec * (sin ra * sin ra + cos ra * cos ra) + sin dec * sin dec) by ring.
  rewrite Ha. lra.
Qed.

(* the direction of co-latitude pi/2 - dec and longitude ra is the unit vector of (ra, dec) *)
Lemma dirvec_unitvec ra dec : dirvec (PI / 2 - dec) ra = unitvec ra dec.
Proof. unfold dirvec, unitvec. rewrite sin_shift, cos_shift. reflexivity. Qed.

Lemma sky2ang_eq ra dec : sky2ang (ra, dec) = (PI / 2 - dec, ra).
Proof. unfold sky2ang. cbn [fst snd]. rewrite sky2ang_theta_eq, sky2ang_phi_eq. reflexivity. Qed.

Lemma sky2vec_eq hp ra dec : sky2vec hp (ra, dec) = ang2vec hp (PI / 2 - dec) ra.
Proof. unfold sky2vec. rewrite sky2ang_eq, sky2vec_theta_first_eq. reflexivity. Qed.

(* C09_vec_is_unit_vector: with healpy's ang2vec (H4), sky2vec gives the unit vector of (ra, dec) *)
Theorem vec_is_unit_vector : forall hp : healpy,
  (forall t p, ang2vec hp t p = dirvec t p) ->
  forall ra dec, sky2vec hp (ra, dec) = (cos dec * cos ra, cos dec * sin ra, sin dec)
                 /\ dot (sky2vec hp (ra, dec)) (sky2vec hp (ra, dec)) = 1.
Proof.
  intros hp H4 ra dec.
  assert (E : sky2vec hp (ra, dec) = unitvec ra dec).
  { rewrite sky2vec_eq, H4. apply dirvec_unitvec. }
  split; [exact E|]. rewrite E. apply unitvec_norm.
Qed.

(* C09_vec2sky_sky2vec: the two conversions are mutually inverse whenever healpy's ang2vec / vec2ang
   are (H4b on the principal range; at the poles the longitude is not determined) *)
Theorem vec2sky_sky2vec : forall hp : healpy,
  (forall t p, 0 < t < PI -> 0 <= p < 2 * PI -> vec2ang hp (ang2vec hp t p) = (t, p)) ->
  forall ra dec, 0 <= ra < 2 * PI -> - (PI / 2) < dec < PI / 2 ->
  vec2sky hp (sky2vec hp (ra, dec)) false = (ra, dec) /\
  vec2sky hp (sky2vec hp (ra, dec)) true = (deg ra, deg dec).
Proof.
  intros hp Hinv ra dec Hra Hdec. unfold vec2sky. cbv beta zeta iota. rewrite sky2vec_eq.
  assert (E : vec2ang hp (ang2vec hp (PI / 2 - dec) ra) = (PI / 2 - dec, ra)) by (apply Hinv; lra).
  rewrite E. cbn [fst snd].
  rewrite vec2sky_ra_eq, vec2sky_dec_eq.
  replace (PI / 2 - (PI / 2 - dec)) with dec by ring.
  split; [reflexivity|]. apply injective_projections; cbn [fst snd]; [apply vec2sky_ra_degrees_eq | apply vec2sky_dec_degrees_eq].
Qed.

Theorem sky2vec_vec2sky : forall hp : healpy,
  (forall v, dot v v = 1 -> ang2vec hp (fst (vec2ang hp v)) (snd (vec2ang hp v)) = v) ->
  forall v, dot v v = 1 -> sky2vec hp (vec2sky hp v false) = v.
Proof.
  intros hp Hinv v Hv. unfold vec2sky. cbv beta zeta iota. rewrite sky2vec_eq, vec2sky_ra_eq, vec2sky_dec_eq.
  replace (PI / 2 - (PI / 2 - fst (vec2ang hp v))) with (fst (vec2ang hp v)) by ring.
  apply Hinv. exact Hv.
Qed.

(* ------------------------------------------------------------------------------------ *)
(** * 3. The mask / degin / scalar-vector logic *)

Lemma row_mask_eq a b : row_mask a b = negb (a && b).
Proof. unfold row_mask. rewrite mask_negated_all_finite_eq. reflexivity. Qed.
Lemma row_result_eq m h : row_result m h = if m then false else h.
Proof. unfold row_result. rewrite masked_result_eq. reflexivity. Qed.

(* finite positions: the angles handed to ang2pix *)
Lemma within_angles_some ra dec :
  within_angles false (Some ra, Some dec) = mkAngles false (PI / 2 - dec) ra.
Proof.
  unfold within_angles. cbn [fst snd omap2 finite oval]. rewrite row_mask_eq. cbn [andb negb].
  rewrite sky2ang_theta_eq, sky2ang_phi_eq. reflexivity.
Qed.

Lemma within_angles_degin ra dec :
  within_angles true (ra, dec) = within_angles false (omap rad ra, omap rad dec).
Proof.
  unfold within_angles. cbn [fst snd].
  assert (E : forall x, omap degin_conv x = omap rad x).
  { intros [x|]; cbn [omap]; [rewrite degin_conv_eq|]; reflexivity. }
  rewrite !E. reflexivity.
Qed.

Lemma within_angles_nan degin ra dec : ra = None \/ dec = None ->
  a_mask (within_angles degin (ra, dec)) = true.
Proof.
  intros H. unfold within_angles. cbn [fst snd a_mask]. rewrite row_mask_eq.
  destruct degin, ra as [a|], dec as [b|]; cbn [omap omap2 finite andb negb]; try reflexivity;
    destruct H as [H|H]; discriminate H.
Qed.

Lemma within_pix_eq hp D a : within_pix hp D a = ang2pix hp D true (a_theta a) (a_phi a).
Proof. unfold within_pix. rewrite within_theta_first_eq, within_nest_eq, within_depth_eq. reflexivity. Qed.

(* C09_nan_false *)
Theorem nan_false : forall hp s ra dec degin, ra = None \/ dec = None ->
  sky_within1 hp s ra dec degin = false.
Proof.
  intros hp s ra dec degin H. unfold sky_within1. rewrite within_angles_nan by exact H.
  rewrite row_result_eq. reflexivity.
Qed.

(* C09_degin: degrees in = radians of the same position in *)
Theorem degin_same : forall hp s ra dec,
  sky_within1 hp s ra dec true = sky_within1 hp s (omap rad ra) (omap rad dec) false.
Proof. intros. unfold sky_within1. rewrite within_angles_degin. reflexivity. Qed.

Corollary degin_deg : forall hp s ra dec,
  sky_within1 hp s (Some (deg ra)) (Some (deg dec)) true = sky_within1 hp s (Some ra) (Some dec) false.
Proof. intros. rewrite degin_same. cbn [omap]. rewrite !rad_deg. reflexivity. Qed.

Lemma map_combine_map {A B C D} (f : B * C -> D) (g : A -> B) (h : A -> C) (l : list A) :
  map f (combine (map g l) (map h l)) = map (fun x => f (g x, h x)) l.
Proof. induction l as [|x l IH]; cbn [map combine]; [reflexivity | rewrite IH; reflexivity]. Qed.

(* scalar and vector inputs: the vector answer is the scalar answer row by row *)
Theorem within_rows : forall hp s c degin,
  sky_within hp s c degin = map (fun r => sky_within1 hp s (fst r) (snd r) degin) (radec2sky c).
Proof.
  intros. unfold sky_within, RegionModel.sky_within. cbv zeta. cbn [snd].
  set (ang := map (within_angles degin) (radec2sky c)).
  rewrite (map_map (within_pix hp (depth s))).
  rewrite (map_combine_map (fun mh => row_result (fst mh) (snd mh)) a_mask).
  unfold ang. rewrite map_map. apply map_ext. intros [ra dec]. cbn [fst snd]. reflexivity.
Qed.

Corollary within_scalar : forall hp s ra dec degin,
  sky_within hp s (Scalar ra dec) degin = [sky_within1 hp s ra dec degin].
Proof. intros. rewrite within_rows. reflexivity. Qed.

(* the real-free logic used by the exact correspondence check is the logic of sky_within1 *)
Lemma within_logic_row : forall hp s ra dec degin,
  within_logic [(finite ra, finite dec)]
     [within_pix hp (depth s) (within_angles degin (ra, dec))]
     (level (cells (demote_all s)) (depth (demote_all s)))
  = [(a_mask (within_angles degin (ra, dec)), sky_within1 hp s ra dec degin)].
Proof.
  intros. unfold within_logic, sky_within1. cbn [combine map fst snd].
  assert (E : a_mask (within_angles degin (ra, dec)) = row_mask (finite ra && finite dec) (finite ra && finite dec)).
  { unfold within_angles. cbn [fst snd a_mask]. rewrite !row_mask_eq.
    destruct degin, ra, dec; reflexivity. }
  rewrite E. reflexivity.
Qed.

(* ------------------------------------------------------------------------------------ *)
(** * 4. Pixel sets after add_circles / add_poly (C08 facts) *)

Definition add_many (s : region) (dd : Z) (pss : list (list Z)) : region :=
  renorm (fold_left (fun s ps => add_pixels s dd ps) pss s).

Lemma fold_add_depth dd pss : forall s,
  depth (fold_left (fun s ps => add_pixels s dd ps) pss s) = depth s.
Proof.
  induction pss as [|ps pss IH]; intros s; cbn [fold_left]; [reflexivity|].
  rewrite IH, add_pixels_eq. reflexivity.
Qed.

Lemma fold_add_valid dd pss : forall s, valid s -> (1 <= dd <= depth s)%Z -> Forall (valid_pix dd) pss ->
  valid (fold_left (fun s ps => add_pixels s dd ps) pss s).
Proof.
  induction pss as [|ps pss IH]; intros s Hv Hd Hp; cbn [fold_left]; [exact Hv|].
  inversion Hp as [|? ? Hps Hrest]; subst.
  apply IH; [apply add_pixels_valid; assumption | rewrite add_pixels_eq; exact Hd | exact Hrest].
Qed.

Lemma fold_add_absP dd pss : forall s q,
  absP (fold_left (fun s ps => add_pixels s dd ps) pss s) q <->
  absP s q \/ exists ps, In ps pss /\ cover_set (depth s) (at_level dd ps) q.
Proof.
  induction pss as [|ps pss IH]; intros s q; cbn [fold_left].
  - split; [tauto | intros [H|[ps [[] _]]]; exact H].
  - rewrite IH, add_pixels_absP.
    replace (depth (add_pixels s dd ps)) with (depth s) by (rewrite add_pixels_eq; reflexivity).
    split.
    + intros [[H|H]|[ps' [Hin H]]]; [tauto | right; exists ps; split; [left; reflexivity | exact H]
                                     | right; exists ps'; split; [right; exact Hin | exact H]].
    + intros [H|[ps' [[E|Hin] H]]]; [tauto | subst ps'; tauto | right; exists ps'; tauto].
Qed.

Lemma add_many_depth s dd pss : depth (add_many s dd pss) = depth s.
Proof. unfold add_many. rewrite renorm_depth. apply fold_add_depth. Qed.

Lemma add_many_Inv s dd pss : valid s -> (1 <= dd <= depth s)%Z -> Forall (valid_pix dd) pss ->
  Inv (add_many s dd pss).
Proof. intros. unfold add_many. apply renorm_Inv. apply fold_add_valid; assumption. Qed.

Lemma add_many_no_overlap s dd pss : valid s -> (1 <= dd <= depth s)%Z -> Forall (valid_pix dd) pss ->
  no_overlap (add_many s dd pss).
Proof. intros. unfold add_many. apply renorm_no_overlap. apply fold_add_valid; assumption. Qed.

(* the pixel set after the insertion: what was there, plus every depth-D descendant of an inserted pixel *)
Lemma add_many_absP s dd pss q : (1 <= dd <= depth s)%Z ->
  (absP (add_many s dd pss) q <->
   absP s q \/ exists ps, In ps pss /\ In (q / 4 ^ (depth s - dd))%Z ps).
Proof.
  intros Hd. unfold add_many. rewrite renorm_absP, fold_add_absP.
  assert (E : forall ps, cover_set (depth s) (at_level dd ps) q <-> In (q / 4 ^ (depth s - dd))%Z ps).
  { intros ps. unfold cover_set. split.
    - intros [c [Hc Hq]]. apply in_at_level in Hc. destruct Hc as [p [Ec Hp]]. subst c.
      apply cover_div in Hq; [|lia]. rewrite Hq. exact Hp.
    - intros Hp. exists (dd, (q / 4 ^ (depth s - dd))%Z). split.
      + apply in_at_level. eexists; split; [reflexivity | exact Hp].
      + apply cover_div; [lia | reflexivity]. }
  split; (intros [H|[ps [Hin H]]]; [left; exact H | right; exists ps; split; [exact Hin | apply E; exact H]]).
Qed.

(* the membership test of sky_within is membership in that pixel set *)
Lemma demoted_mem s q : Inv s ->
  (memZ q (level (cells (demote_all s)) (depth (demote_all s))) = true <-> absP s q).
Proof. intros HI. rewrite memZ_spec, demote_all_depth. apply demote_all_level_absP. exact HI. Qed.

Lemma init_absP D q : ~ absP (init D) q.
Proof. unfold absP, init. cbn [cells depth]. rewrite cover_set_nil. tauto. Qed.

Lemma insert_depth_range clamp dflt D d :
  (forall D d, clamp D d = (D <? d)%Z) -> (forall D, dflt D = D) -> (1 <= D)%Z ->
  match d with Some d0 => (1 <= d0)%Z | None => True end ->
  (1 <= insert_depth clamp dflt D d <= D)%Z.
Proof.
  intros Hc Hd HD Hd0. unfold insert_depth. destruct d as [d0|]; [|rewrite Hd; lia].
  rewrite Hc, Hd. destruct (Z.ltb_spec D d0); lia.
Qed.

Lemma fold_left_map {A B C} (f : A -> C -> A) (g : B -> C) (l : list B) : forall a,
  fold_left f (map g l) a = fold_left (fun a b => f a (g b)) l a.
Proof. induction l as [|b l IH]; intros a; cbn [map fold_left]; [reflexivity | apply IH]. Qed.

Lemma add_circles_eq hp s cs d :
  add_circles hp s cs d =
  add_many s (circle_depth (depth s) d) (map (disc_pixels hp (circle_depth (depth s) d)) cs).
Proof. unfold add_circles, add_many, circle_depth. rewrite fold_left_map. reflexivity. Qed.

Lemma add_poly_eq hp s vs d :
  add_poly hp s vs d = add_many s (polygon_depth (depth s) d) [poly_pixels hp (polygon_depth (depth s) d) vs].
Proof. reflexivity. Qed.

Lemma disc_pixels_eq hp dd ra dec r :
  disc_pixels hp dd (ra, dec, r) = query_disc hp dd (ang2vec hp (PI / 2 - dec) ra) r true true.
Proof. unfold disc_pixels. rewrite disc_depth_eq, disc_inclusive_eq, disc_nest_eq, sky2vec_eq. reflexivity. Qed.

Lemma poly_pixels_eq hp dd vs :
  poly_pixels hp dd vs = query_polygon hp dd (map (sky2vec hp) vs) true true.
Proof. unfold poly_pixels. rewrite poly_depth_eq, poly_inclusive_eq, poly_nest_eq. reflexivity. Qed.

Lemma circle_depth_range D d : (1 <= D)%Z -> depth_ok d -> (1 <= circle_depth D d <= D)%Z.
Proof. apply insert_depth_range; [exact circle_depth_clamp_eq | exact circle_depth_default_eq]. Qed.
Lemma polygon_depth_range D d : (1 <= D)%Z -> depth_ok d -> (1 <= polygon_depth D d <= D)%Z.
Proof. apply insert_depth_range; [exact poly_depth_clamp_eq | exact poly_depth_default_eq]. Qed.

(* ------------------------------------------------------------------------------------ *)
(** * 5. healpy and the HEALPix geometry as hypotheses *)

Section HEALPix.
  Variable hp : healpy.
  (* the HEALPix tessellation: `incell d p v` = the unit vector v lies in the (closed) cell p of the
     nested scheme at depth d; its linear size; and K = how many pixel sizes an inclusive query may
     overshoot (the property allows 3) *)
  Variable incell : Z -> Z -> vec -> Prop.
  Variable pixsize : Z -> R.
  Variable K : R.
  (* polygons healpy accepts (convex, at least three distinct vertices) *)
  Variable accepted : list vec -> Prop.

  (* H4 *) Hypothesis H_ang2vec : forall t p, ang2vec hp t p = dirvec t p.
  (* H3 *) Hypothesis H_ang2pix : forall d t p, 0 <= t <= PI -> incell d (ang2pix hp d true t p) (dirvec t p).
  (* H5: nested numbering - the depth-d pixel of a direction is the ancestor of its depth-D pixel *)
  Hypothesis H_nested : forall d D t p, (1 <= d <= D)%Z -> 0 <= t <= PI ->
    (ang2pix hp D true t p / 4 ^ (D - d))%Z = ang2pix hp d true t p.
  (* H0 *) Hypothesis H_disc_valid : forall d c r, (1 <= d)%Z -> valid_pix d (query_disc hp d c r true true).
  (* H1: the inclusive query returns every pixel that meets the disc *)
  Hypothesis H_disc_complete : forall d c r p v, 0 <= r <= PI ->
    incell d p v -> angdist c v <= r -> In p (query_disc hp d c r true true).
  (* H2: and nothing that reaches farther than K pixel sizes beyond it *)
  Hypothesis H_disc_tight : forall d c r p v, 0 <= r <= PI ->
    In p (query_disc hp d c r true true) -> incell d p v -> angdist c v <= r + K * pixsize d.
  (* P0-P2: the same for polygons; (c, rho) is any circle that contains all vertices *)
  Hypothesis H_poly_valid : forall d vs, (1 <= d)%Z -> valid_pix d (query_polygon hp d vs true true).
  Hypothesis H_poly_complete : forall d vs p v, accepted vs ->
    incell d p v -> inside_poly vs v -> In p (query_polygon hp d vs true true).
  Hypothesis H_poly_tight : forall d vs c rho p v, accepted vs -> 0 <= rho < PI / 2 ->
    (forall a, In a vs -> angdist c a <= rho) ->
    In p (query_polygon hp d vs true true) -> incell d p v -> angdist c v <= rho + K * pixsize d.

  (* what sky_within1 computes for a finite position, radians *)
  Lemma within1_finite s ra dec : Inv s -> - (PI / 2) <= dec <= PI / 2 ->
    (sky_within1 hp s (Some ra) (Some dec) false = true <->
     absP s (ang2pix hp (depth s) true (PI / 2 - dec) ra)).
  Proof.
    intros HI Hdec. unfold sky_within1. rewrite within_angles_some, row_result_eq, within_pix_eq.
    cbn [a_mask a_theta a_phi]. apply demoted_mem. exact HI.
  Qed.

  (* a position whose depth-dd pixel was inserted answers True *)
  Lemma inserted_within s dd pss ps ra dec : Inv s -> (1 <= dd <= depth s)%Z -> Forall (valid_pix dd) pss ->
    - (PI / 2) <= dec <= PI / 2 -> In ps pss -> In (ang2pix hp dd true (PI / 2 - dec) ra) ps ->
    sky_within1 hp (add_many s dd pss) (Some ra) (Some dec) false = true.
  Proof.
    intros HI Hd Hv Hdec Hps Hin.
    apply within1_finite; [apply add_many_Inv; [apply HI | exact Hd | exact Hv] | exact Hdec |].
    rewrite add_many_depth. apply add_many_absP; [exact Hd|]. right. exists ps. split; [exact Hps|].
    rewrite H_nested; [exact Hin | exact Hd | lra].
  Qed.

  (* from the empty region: a position that answers True has its depth-dd pixel among the inserted ones *)
  Lemma within_inserted D dd pss ra dec : (1 <= dd <= D)%Z -> Forall (valid_pix dd) pss ->
    - (PI / 2) <= dec <= PI / 2 ->
    sky_within1 hp (add_many (init D) dd pss) (Some ra) (Some dec) false = true ->
    exists ps, In ps pss /\ In (ang2pix hp dd true (PI / 2 - dec) ra) ps.
  Proof.
    intros Hd Hv Hdec Hw.
    assert (HI : Inv (init D)) by (apply init_Inv; lia).
    apply within1_finite in Hw; [| apply add_many_Inv; [apply HI | exact Hd | exact Hv] | exact Hdec].
    rewrite add_many_depth in Hw. apply add_many_absP in Hw; [|exact Hd].
    destruct Hw as [Hw|[ps [Hps Hin]]]; [exfalso; exact (init_absP _ _ Hw)|].
    exists ps. split; [exact Hps|]. cbn [init depth] in Hin.
    rewrite H_nested in Hin; [exact Hin | exact Hd | lra].
  Qed.

  Lemma discs_valid dd cs : (1 <= dd)%Z -> Forall (valid_pix dd) (map (disc_pixels hp dd) cs).
  Proof.
    intros Hdd. apply Forall_forall. intros ps Hps. apply in_map_iff in Hps. destruct Hps as [[[ra dec] r] [E _]].
    subst ps. rewrite disc_pixels_eq. apply H_disc_valid. exact Hdd.
  Qed.

  (* ---- circles *)
  (* C09_circle_covers: every position within the radius of a centre answers True, in radians and in
     degrees, whatever the region held before, for every depth D of the region and insertion depth *)
  Theorem circle_covers : forall s cs d ra dec r ra' dec',
    Inv s -> depth_ok d -> In (ra, dec, r) cs -> 0 <= r <= PI -> - (PI / 2) <= dec' <= PI / 2 ->
    angdist (unitvec ra dec) (unitvec ra' dec') <= r ->
    sky_within1 hp (add_circles hp s cs d) (Some ra') (Some dec') false = true /\
    sky_within1 hp (add_circles hp s cs d) (Some (deg ra')) (Some (deg dec')) true = true.
  Proof.
    intros s cs d ra dec r ra' dec' HI Hd Hc Hr Hdec Hdist.
    assert (HD : (1 <= depth s)%Z) by apply HI.
    pose proof (circle_depth_range (depth s) d HD Hd) as Hdd.
    assert (Hw : sky_within1 hp (add_circles hp s cs d) (Some ra') (Some dec') false = true).
    { rewrite add_circles_eq.
      apply (inserted_within s _ _ (disc_pixels hp (circle_depth (depth s) d) (ra, dec, r)));
        [exact HI | exact Hdd | apply discs_valid; lia | exact Hdec | apply in_map; exact Hc |].
      rewrite disc_pixels_eq, H_ang2vec, dirvec_unitvec.
      apply (H_disc_complete _ _ _ _ (unitvec ra' dec')); [exact Hr | | exact Hdist].
      rewrite <- dirvec_unitvec. apply H_ang2pix. lra. }
    split; [exact Hw | rewrite degin_deg; exact Hw].
  Qed.

  (* C09_circle_tight: a region built from circles only contains nothing farther than r + K pixel sizes
     (of the insertion depth) from every centre *)
  Theorem circle_tight : forall D cs d ra' dec',
    (1 <= D)%Z -> depth_ok d -> (forall ra dec r, In (ra, dec, r) cs -> 0 <= r <= PI) ->
    - (PI / 2) <= dec' <= PI / 2 ->
    sky_within1 hp (add_circles hp (init D) cs d) (Some ra') (Some dec') false = true ->
    exists ra dec r, In (ra, dec, r) cs /\
      angdist (unitvec ra dec) (unitvec ra' dec') <= r + K * pixsize (circle_depth D d).
  Proof.
    intros D cs d ra' dec' HD Hd Hr Hdec Hw.
    pose proof (circle_depth_range D d HD Hd) as Hdd.
    rewrite add_circles_eq in Hw. cbn [init depth] in Hw.
    apply within_inserted in Hw; [| exact Hdd | apply discs_valid; lia | exact Hdec].
    destruct Hw as [ps [Hps Hin]]. apply in_map_iff in Hps. destruct Hps as [[[ra dec] r] [E Hc]].
    subst ps. exists ra, dec, r. split; [exact Hc|].
    rewrite disc_pixels_eq, H_ang2vec, dirvec_unitvec in Hin.
    apply (H_disc_tight _ _ _ _ (unitvec ra' dec') (Hr _ _ _ Hc) Hin).
    rewrite <- dirvec_unitvec. apply H_ang2pix. lra.
  Qed.

  (* ---- polygons *)
  Lemma polys_valid dd vs : (1 <= dd)%Z -> Forall (valid_pix dd) [poly_pixels hp dd vs].
  Proof. intros Hdd. apply Forall_cons; [rewrite poly_pixels_eq; apply H_poly_valid; exact Hdd | apply Forall_nil]. Qed.

  Lemma map_sky2vec vs : map (sky2vec hp) vs = map skyvec vs.
  Proof.
    apply map_ext. intros [ra dec]. rewrite sky2vec_eq, H_ang2vec. apply dirvec_unitvec.
  Qed.

  (* C09_poly_covers: every position on the inner side of all edges answers True *)
  Theorem poly_covers : forall s vs d ra' dec',
    Inv s -> depth_ok d -> accepted (map skyvec vs) -> - (PI / 2) <= dec' <= PI / 2 ->
    inside_poly (map skyvec vs) (unitvec ra' dec') ->
    sky_within1 hp (add_poly hp s vs d) (Some ra') (Some dec') false = true /\
    sky_within1 hp (add_poly hp s vs d) (Some (deg ra')) (Some (deg dec')) true = true.
  Proof.
    intros s vs d ra' dec' HI Hd Hacc Hdec Hin.
    assert (HD : (1 <= depth s)%Z) by apply HI.
    pose proof (polygon_depth_range (depth s) d HD Hd) as Hdd.
    assert (Hw : sky_within1 hp (add_poly hp s vs d) (Some ra') (Some dec') false = true).
    { rewrite add_poly_eq.
      apply (inserted_within s _ _ (poly_pixels hp (polygon_depth (depth s) d) vs));
        [exact HI | exact Hdd | apply polys_valid; lia | exact Hdec | left; reflexivity |].
      rewrite poly_pixels_eq, map_sky2vec.
      apply (H_poly_complete _ _ _ (unitvec ra' dec') Hacc); [| exact Hin].
      rewrite <- dirvec_unitvec. apply H_ang2pix. lra. }
    split; [exact Hw | rewrite degin_deg; exact Hw].
  Qed.

  (* C09_poly_tight: nothing farther than K pixel sizes outside any circle that contains the vertices *)
  Theorem poly_tight : forall D vs d cra cdec rho ra' dec',
    (1 <= D)%Z -> depth_ok d -> accepted (map skyvec vs) -> 0 <= rho < PI / 2 ->
    (forall x, In x vs -> angdist (unitvec cra cdec) (skyvec x) <= rho) ->
    - (PI / 2) <= dec' <= PI / 2 ->
    sky_within1 hp (add_poly hp (init D) vs d) (Some ra') (Some dec') false = true ->
    angdist (unitvec cra cdec) (unitvec ra' dec') <= rho + K * pixsize (polygon_depth D d).
  Proof.
    intros D vs d cra cdec rho ra' dec' HD Hd Hacc Hrho Hvs Hdec Hw.
    pose proof (polygon_depth_range D d HD Hd) as Hdd.
    rewrite add_poly_eq in Hw. cbn [init depth] in Hw.
    apply within_inserted in Hw; [| exact Hdd | apply polys_valid; lia | exact Hdec].
    destruct Hw as [ps [[E|[]] Hin]]. subst ps. rewrite poly_pixels_eq, map_sky2vec in Hin.
    eapply (H_poly_tight _ _ _ _ _ (unitvec ra' dec') Hacc Hrho); [| exact Hin |].
    - intros a Ha. apply in_map_iff in Ha. destruct Ha as [x [E Hx]]. subst a. apply Hvs. exact Hx.
    - rewrite <- dirvec_unitvec. apply H_ang2pix. lra.
  Qed.

  (* ---- area between the caps.  The sphere's area measure is not constructed here: it enters as a
     monotone set function mu on sets of sky positions for which (a) a union of n distinct depth-D cells
     has n times the pixel area (equal-area tessellation, boundaries of measure zero) and (b) a cap of
     radius r has area 2 pi (1 - cos r).  H6: cells are nested (a cell lies inside its ancestors). *)
  Variable mu : (sky -> Prop) -> R.
  Hypothesis mu_mono : forall A B : sky -> Prop, (forall x, A x -> B x) -> mu A <= mu B.
  Hypothesis mu_cells : forall D l, NoDup l ->
    mu (fun x => in_domain x /\ exists q, In q l /\ incell D q (skyvec x)) = INR (length l) * pixarea D.
  Hypothesis mu_cap : forall c r, 0 <= r <= PI ->
    mu (fun x => in_domain x /\ angdist (skyvec c) (skyvec x) <= r) = 2 * PI * (1 - cos r).
  Hypothesis H_cells_nested : forall d D q v, (1 <= d <= D)%Z -> incell D q v -> incell d (q / 4 ^ (D - d))%Z v.

  (* C09_area_between_caps_partial (area_units * pixarea D is what get_area(degrees=False) sums) *)
  Theorem area_between_caps : forall D d ra dec r,
    (1 <= D)%Z -> depth_ok d -> 0 <= r -> r + K * pixsize (circle_depth D d) <= PI -> 0 <= K * pixsize (circle_depth D d) ->
    let s := add_circles hp (init D) [(ra, dec, r)] d in
    2 * PI * (1 - cos r) <= IZR (area_units s) * pixarea D <= 2 * PI * (1 - cos (r + K * pixsize (circle_depth D d))).
  Proof.
    intros D d ra dec r HD Hd Hr0 Hr1 HK s.
    pose proof (circle_depth_range D d HD Hd) as Hdd.
    assert (Hr : 0 <= r <= PI) by lra.
    assert (HI0 : Inv (init D)) by (apply init_Inv; lia).
    assert (Es : s = add_many (init D) (circle_depth D d) (map (disc_pixels hp (circle_depth D d)) [(ra, dec, r)])).
    { unfold s. rewrite add_circles_eq. reflexivity. }
    assert (HI : Inv s).
    { rewrite Es. apply add_many_Inv; [apply HI0 | exact Hdd | apply discs_valid; lia]. }
    assert (Hno : no_overlap s).
    { rewrite Es. apply add_many_no_overlap; [apply HI0 | exact Hdd | apply discs_valid; lia]. }
    assert (HDs : depth s = D) by (rewrite Es, add_many_depth; reflexivity).
    set (l := pixels D (cells s)).
    assert (Hl : forall q, In q l <-> absP s q).
    { intros q. unfold l, absP. rewrite HDs. apply in_pixels. rewrite <- HDs. apply HI. }
    assert (Hnd : NoDup l).
    { unfold l. apply NoDup_pixels. unfold no_overlap in Hno. rewrite HDs in Hno. exact Hno. }
    rewrite (area_is_cardinality s l HI Hno (conj Hnd Hl)), <- INR_IZR_INZ, <- (mu_cells D l Hnd).
    split.
    - rewrite <- (mu_cap (ra, dec) r Hr). apply mu_mono. intros x [Hx Hdist]. split; [exact Hx|].
      destruct x as [ra' dec']. unfold skyvec in *. cbn [fst snd] in *.
      assert (Hdec : - (PI / 2) <= dec' <= PI / 2) by apply Hx.
      destruct (circle_covers (init D) [(ra, dec, r)] d ra dec r ra' dec' HI0 Hd (or_introl eq_refl) Hr Hdec Hdist)
        as [Hw _].
      fold s in Hw. apply within1_finite in Hw; [| exact HI | exact Hdec]. rewrite HDs in Hw.
      exists (ang2pix hp D true (PI / 2 - dec') ra'). split; [apply Hl; exact Hw|].
      rewrite <- dirvec_unitvec. apply H_ang2pix. lra.
    - rewrite <- (mu_cap (ra, dec) (r + K * pixsize (circle_depth D d))) by lra.
      apply mu_mono. intros x [Hx [q [Hq Hcell]]]. split; [exact Hx|].
      apply Hl in Hq. rewrite Es in Hq. apply add_many_absP in Hq; [| exact Hdd].
      destruct Hq as [Hq|[ps [[E|[]] Hin]]]; [exfalso; exact (init_absP _ _ Hq)|].
      subst ps. cbn [init depth] in Hin. rewrite disc_pixels_eq, H_ang2vec, dirvec_unitvec in Hin.
      unfold skyvec at 1. cbn [fst snd].
      apply (H_disc_tight _ _ _ _ (skyvec x) Hr Hin). apply H_cells_nested; [exact Hdd | exact Hcell].
  Qed.
End HEALPix.
