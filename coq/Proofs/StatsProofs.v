(* Lemmas about the real-valued sigma clipping of Lib/Stats.v: equivariance under shift and scale, range of the
   clipped mean and of the clipped standard deviation.  Everything is proved for arbitrary levels / strictness /
   number of rounds; the scale lemma for negative factors needs symmetric levels and equal strictness. *)
From Coq Require Import Reals Lra Lia List ZArith Bool Psatz.
From Aegean Require Import Lib.Stats.
Import ListNotations.
Open Scope R_scope.

Notation sumr := (sum R 0 Rplus).

Lemma sumr_cons a l : sumr (a :: l) = a + sumr l.
Proof. reflexivity. Qed.
Lemma sumr_nil : sumr [] = 0.
Proof. reflexivity. Qed.

Lemma INR_len_pos {A} (l : list A) : l <> [] -> 0 < INR (length l).
Proof. intros H. destruct l; [congruence|]. cbn [length]. apply lt_0_INR. lia. Qed.

Lemma sum_map_shift l k : sumr (map (fun x => x + k) l) = sumr l + INR (length l) * k.
Proof.
  induction l as [|a l IH]; cbn [map length].
  - rewrite sumr_nil. cbn. ring.
  - rewrite !sumr_cons, IH, S_INR. ring.
Qed.

Lemma sum_map_scale (f : R -> R) l k : sumr (map (fun x => k * f x) l) = k * sumr (map f l).
Proof.
  induction l as [|a l IH]; cbn [map].
  - rewrite sumr_nil. ring.
  - rewrite !sumr_cons, IH. ring.
Qed.

Lemma mean_shift l k : l <> [] -> mean_r (map (fun x => x + k) l) = mean_r l + k.
Proof.
  intros H. unfold mean_r, mean. rewrite map_length, sum_map_shift.
  pose proof (INR_len_pos l H). field. lra.
Qed.

Lemma mean_scale l k : l <> [] -> mean_r (map (fun x => k * x) l) = k * mean_r l.
Proof.
  intros H. unfold mean_r, mean. rewrite map_length.
  rewrite (sum_map_scale (fun x => x) l k), map_id.
  pose proof (INR_len_pos l H). field. lra.
Qed.

Lemma var_shift l k : l <> [] -> var_r (map (fun x => x + k) l) = var_r l.
Proof.
  intros H. unfold var_r, var. fold mean_r. rewrite (mean_shift l k H), map_map, map_length.
  f_equal. f_equal. apply map_ext. intros x. ring.
Qed.

Lemma var_scale l k : l <> [] -> var_r (map (fun x => k * x) l) = (k * k) * var_r l.
Proof.
  intros H. unfold var_r, var. fold mean_r. rewrite (mean_scale l k H), map_map, map_length.
  replace (map (fun x => (k * x - k * mean_r l) * (k * x - k * mean_r l)) l)
    with (map (fun x => (k * k) * ((x - mean_r l) * (x - mean_r l))) l) by (apply map_ext; intros; ring).
  rewrite (sum_map_scale (fun x => (x - mean_r l) * (x - mean_r l)) l (k * k)).
  pose proof (INR_len_pos l H). field. lra.
Qed.

Lemma sum_sq_nonneg (f : R -> R) l : 0 <= sumr (map (fun x => f x * f x) l).
Proof.
  induction l as [|a l IH]; cbn [map].
  - rewrite sumr_nil. lra.
  - rewrite sumr_cons. pose proof (Rle_0_sqr (f a)) as Hs. unfold Rsqr in Hs. lra.
Qed.

Lemma var_nonneg l : l <> [] -> 0 <= var_r l.
Proof.
  intros H. unfold var_r, var. pose proof (INR_len_pos l H) as Hn.
  pose proof (sum_sq_nonneg (fun x => x - mean R 0 Rplus Rdiv INR l) l) as Hs.
  unfold Rdiv. apply Rmult_le_pos; [exact Hs|]. left. apply Rinv_0_lt_compat. exact Hn.
Qed.

Lemma std_shift l k : l <> [] -> std_r (map (fun x => x + k) l) = std_r l.
Proof. intros H. unfold std_r. rewrite var_shift by exact H. reflexivity. Qed.

Lemma std_scale l k : l <> [] -> std_r (map (fun x => k * x) l) = Rabs k * std_r l.
Proof.
  intros H. unfold std_r. rewrite var_scale by exact H.
  rewrite sqrt_mult_alt by (pose proof (Rle_0_sqr k) as Hs; unfold Rsqr in Hs; exact Hs).
  f_equal. fold (Rsqr k). apply sqrt_Rsqr_abs.
Qed.

(* ---- range of the mean and of the standard deviation *)
Lemma sum_bounds l lo hi : Forall (fun x => lo <= x <= hi) l ->
  INR (length l) * lo <= sumr l <= INR (length l) * hi.
Proof.
  induction 1 as [|a l Ha _ IH].
  - rewrite sumr_nil. cbn [length INR]. lra.
  - cbn [length]. rewrite S_INR, sumr_cons. lra.
Qed.

Lemma scaled_bounds S n lo hi i : n * lo <= S <= n * hi -> 0 < n -> 0 < i -> n * i = 1 -> lo <= S * i <= hi.
Proof.
  intros [H1 H2] Hn Hi He. split.
  - assert (H : lo = (n * lo) * i) by (rewrite Rmult_comm, <- Rmult_assoc, (Rmult_comm i n), He; ring).
    rewrite H. apply Rmult_le_compat_r; lra.
  - assert (H : hi = (n * hi) * i) by (rewrite Rmult_comm, <- Rmult_assoc, (Rmult_comm i n), He; ring).
    rewrite H. apply Rmult_le_compat_r; lra.
Qed.

Lemma mean_range l lo hi : l <> [] -> Forall (fun x => lo <= x <= hi) l -> lo <= mean_r l <= hi.
Proof.
  intros H HF. pose proof (sum_bounds l lo hi HF) as [H1 H2]. pose proof (INR_len_pos l H) as Hn.
  unfold mean_r, mean, Rdiv.
  assert (Hi : 0 < / INR (length l)) by (apply Rinv_0_lt_compat; exact Hn).
  assert (He : INR (length l) * / INR (length l) = 1) by (field; lra).
  apply (scaled_bounds _ (INR (length l))); try assumption. split; assumption.
Qed.

Lemma sum_sq_expand l m :
  sumr (map (fun x => (x - m) * (x - m)) l) = sumr (map (fun x => x * x) l) - 2 * m * sumr l + INR (length l) * (m * m).
Proof.
  induction l as [|a l IH]; cbn [map length].
  - rewrite !sumr_nil. cbn. ring.
  - rewrite !sumr_cons, IH, S_INR. ring.
Qed.

Lemma sum_sq_bound l M : Forall (fun x => - M <= x <= M) l -> sumr (map (fun x => x * x) l) <= INR (length l) * (M * M).
Proof.
  induction 1 as [|a l Ha _ IH]; cbn [map length].
  - rewrite sumr_nil. cbn. lra.
  - rewrite sumr_cons, S_INR. assert (a * a <= M * M) by nra. lra.
Qed.

Lemma var_le_sq l M : l <> [] -> Forall (fun x => - M <= x <= M) l -> var_r l <= M * M.
Proof.
  intros H HF. pose proof (INR_len_pos l H) as Hn. unfold var_r, var.
  set (m := mean R 0 Rplus Rdiv INR l).
  rewrite (sum_sq_expand l m).
  assert (Hs : sumr l = INR (length l) * m) by (unfold m, mean; field; lra).
  rewrite Hs. pose proof (sum_sq_bound l M HF) as Hb.
  assert (Hi : 0 < / INR (length l)) by (apply Rinv_0_lt_compat; exact Hn).
  assert (He : INR (length l) * / INR (length l) = 1) by (field; lra).
  unfold Rdiv.
  assert (Hm : 0 <= INR (length l) * (m * m)) by (apply Rmult_le_pos; [lra | pose proof (Rle_0_sqr m) as Q; unfold Rsqr in Q; exact Q]).
  assert (Hx : sumr (map (fun x => x * x) l) - 2 * m * (INR (length l) * m) + INR (length l) * (m * m)
               <= INR (length l) * (M * M)) by lra.
  replace (M * M) with ((INR (length l) * (M * M)) * / INR (length l)) by (field; lra).
  apply Rmult_le_compat_r; [lra | exact Hx].
Qed.

Lemma std_range l M : l <> [] -> Forall (fun x => - M <= x <= M) l -> 0 <= std_r l <= M.
Proof.
  intros H HF. split; [apply sqrt_pos|].
  assert (HM : 0 <= M) by (destruct l as [|a l]; [congruence|]; inversion HF; subst; lra).
  unfold std_r. rewrite <- (sqrt_square M HM). apply sqrt_le_1_alt. apply var_le_sq; assumption.
Qed.

(* ---- the loop *)
Lemma filter_map_comm {A} (phi : A -> A) (p p' : A -> bool) l :
  (forall x, p' (phi x) = p x) -> filter p' (map phi l) = map phi (filter p l).
Proof.
  intros H. induction l as [|a l IH]; cbn [map filter]; [reflexivity|].
  rewrite H. destruct (p a); cbn [map]; rewrite IH; reflexivity.
Qed.

Section Loop.
  Variable keep : R -> R -> R -> bool.
  Notation loop := (clip_loop R 0 Rplus Rdiv INR std_r keep).

  (* equivariance: a transformation phi of the data that maps (mean, std) to (fm mean, fs std) and commutes with keep *)
  Lemma clip_loop_equiv (phi fm fs : R -> R) :
    (forall m s x, keep (fm m) (fs s) (phi x) = keep m s x) ->
    (forall l, l <> [] -> mean_r (map phi l) = fm (mean_r l)) ->
    (forall l, l <> [] -> std_r (map phi l) = fs (std_r l)) ->
    forall reps l m s,
      loop reps (map phi l) (fm m) (fs s) = (fm (fst (loop reps l m s)), fs (snd (loop reps l m s))).
  Proof.
    intros Hk Hm Hs. induction reps as [|n IH]; intros l m s; cbn [clip_loop]; [reflexivity|].
    rewrite (filter_map_comm phi (keep m s) (keep (fm m) (fs s)) l) by (intros; apply Hk).
    destruct (filter (keep m s) l) as [|a l'] eqn:E; cbn [map]; [reflexivity|].
    change (phi a :: map phi l') with (map phi (a :: l')). rewrite !map_length.
    destruct (Nat.eqb (length (a :: l')) (length l)); [reflexivity|].
    fold mean_r. rewrite Hm, Hs by discriminate. apply IH.
  Qed.

  (* invariant: the result is the initial pair or the statistics of a non-empty sub-list *)
  Lemma clip_loop_inv (Q : R -> Prop) (Pm Ps : R -> Prop) :
    (forall l, l <> [] -> Forall Q l -> Pm (mean_r l) /\ Ps (std_r l)) ->
    forall reps l m s, Forall Q l -> Pm m -> Ps s ->
      Pm (fst (loop reps l m s)) /\ Ps (snd (loop reps l m s)).
  Proof.
    intros H. induction reps as [|n IH]; intros l m s HF Hm Hs; cbn [clip_loop]; [split; assumption|].
    destruct (filter (keep m s) l) as [|a l'] eqn:E; [split; assumption|].
    destruct (Nat.eqb (length (a :: l')) (length l)); [split; assumption|].
    assert (HF' : Forall Q (a :: l')).
    { rewrite <- E. apply Forall_forall. intros x Hx. apply filter_In in Hx as [Hx _].
      rewrite Forall_forall in HF. apply HF. exact Hx. }
    fold mean_r. destruct (H (a :: l')) as [H1 H2]; [discriminate | exact HF' |].
    apply IH; assumption.
  Qed.
End Loop.

(* ---- comparisons *)
Lemma rcmp_spec strict a b : rcmp strict a b = true <-> (if strict then a < b else a <= b).
Proof.
  unfold rcmp, Rltb, Rleb. destruct strict.
  - destruct (Rlt_dec a b); split; intros; try assumption; try reflexivity; try discriminate; contradiction.
  - destruct (Rle_dec a b); split; intros; try assumption; try reflexivity; try discriminate; contradiction.
Qed.

Lemma keep_r_spec lo hi sl sh m s x :
  keep_r lo hi sl sh m s x = true <->
  (if sl then m - s * IZR lo < x else m - s * IZR lo <= x) /\ (if sh then x < m + s * IZR hi else x <= m + s * IZR hi).
Proof. unfold keep_r. rewrite andb_true_iff, !rcmp_spec. reflexivity. Qed.

Lemma keep_shift lo hi sl sh k m s x : keep_r lo hi sl sh (m + k) s (x + k) = keep_r lo hi sl sh m s x.
Proof.
  apply eq_true_iff_eq. rewrite !keep_r_spec. destruct sl, sh; split; intros [? ?]; split; lra.
Qed.

Lemma keep_scale lv st k m s x : k <> 0 ->
  keep_r lv lv st st (k * m) (Rabs k * s) (k * x) = keep_r lv lv st st m s x.
Proof.
  intros Hk. apply eq_true_iff_eq. rewrite !keep_r_spec.
  destruct (Rlt_dec 0 k) as [Hp|Hn].
  - rewrite (Rabs_pos_eq k) by lra. destruct st; split; intros [? ?]; split; nra.
  - assert (k < 0) by lra. rewrite (Rabs_left k) by lra. destruct st; split; intros [? ?]; split; nra.
Qed.

(* ---- sigmaclip_r *)
Section Clip.
  Variables (lo hi : Z) (sl sh : bool) (reps : Z).
  Notation sc := (sigmaclip_r lo hi sl sh reps).

  Lemma sigmaclip_shift l k : l <> [] ->
    sc (map (fun x => x + k) l) = (fst (sc l) + k, snd (sc l)).
  Proof.
    intros H. unfold sigmaclip_r, clip. fold mean_r. rewrite mean_shift, std_shift by exact H.
    apply (clip_loop_equiv (keep_r lo hi sl sh) (fun x => x + k) (fun x => x + k) (fun x => x)).
    - intros. apply keep_shift.
    - intros. apply mean_shift. assumption.
    - intros. apply std_shift. assumption.
  Qed.

  Lemma sigmaclip_range l a b : l <> [] -> Forall (fun x => a <= x <= b) l -> a <= fst (sc l) <= b.
  Proof.
    intros H HF. unfold sigmaclip_r, clip.
    apply (clip_loop_inv (keep_r lo hi sl sh) (fun x => a <= x <= b) (fun m => a <= m <= b) (fun _ => True)).
    - intros l' Hl' HF'. split; [apply mean_range; assumption | exact I].
    - exact HF.
    - apply mean_range; assumption.
    - exact I.
  Qed.

  Lemma sigmaclip_std_range l M : l <> [] -> Forall (fun x => - M <= x <= M) l -> 0 <= snd (sc l) <= M.
  Proof.
    intros H HF. unfold sigmaclip_r, clip.
    apply (clip_loop_inv (keep_r lo hi sl sh) (fun x => - M <= x <= M) (fun _ => True) (fun s => 0 <= s <= M)).
    - intros l' Hl' HF'. split; [exact I | apply std_range; assumption].
    - exact HF.
    - exact I.
    - apply std_range; assumption.
  Qed.
End Clip.

Lemma map_scale0 (l : list R) : map (fun x => 0 * x) l = map (fun _ => 0) l.
Proof. apply map_ext. intros. ring. Qed.

Lemma sum_zero (l : list R) : sumr (map (fun _ => 0) l) = 0.
Proof. induction l as [|a l IH]; cbn [map]; [reflexivity | rewrite sumr_cons, IH; ring]. Qed.

Lemma filter_all_false {A} (p : A -> bool) l : (forall x, In x l -> p x = false) -> filter p l = [].
Proof.
  induction l as [|a l IH]; intros H; cbn [filter]; [reflexivity|].
  rewrite (H a) by (left; reflexivity). apply IH. intros x Hx. apply H. right. exact Hx.
Qed.

(* symmetric levels, equal strictness: any real factor, also 0 and negative ones *)
Lemma sigmaclip_scale lv st reps l k : l <> [] -> (0 <= lv)%Z ->
  sigmaclip_r lv lv st st reps (map (fun x => k * x) l)
  = (k * fst (sigmaclip_r lv lv st st reps l), Rabs k * snd (sigmaclip_r lv lv st st reps l)).
Proof.
  intros H Hlv. destruct (Req_dec k 0) as [->|Hk].
  - (* all zeros: mean 0, std 0, and the result of the loop is (0, 0) whatever it does *)
    rewrite Rabs_R0, !Rmult_0_l. unfold sigmaclip_r, clip.
    assert (Hl : map (fun x => 0 * x) l <> []) by (destruct l; [congruence | discriminate]).
    pose proof (clip_loop_inv (keep_r lv lv st st) (fun x => x = 0) (fun m => m = 0) (fun s => s = 0)) as Hinv.
    assert (Hz : forall l' : list R, l' <> [] -> Forall (fun x => x = 0) l' -> mean_r l' = 0 /\ std_r l' = 0).
    { intros l' Hl' HF'. assert (Hr : 0 <= mean_r l' <= 0).
      { apply mean_range; [exact Hl'|]. eapply Forall_impl; [|exact HF']. cbn. intros; lra. }
      assert (Hs : 0 <= std_r l' <= 0).
      { apply std_range; [exact Hl'|]. eapply Forall_impl; [|exact HF']. cbn. intros; lra. }
      split; lra. }
    assert (HF0 : Forall (fun x => x = 0) (map (fun x => 0 * x) l)).
    { apply Forall_forall. intros x Hx. apply in_map_iff in Hx as [y [<- _]]. ring. }
    destruct (Hz _ Hl HF0) as [Hm Hs].
    specialize (Hinv Hz (Z.to_nat reps) (map (fun x => 0 * x) l) (mean_r (map (fun x => 0 * x) l)) (std_r (map (fun x => 0 * x) l)) HF0 Hm Hs).
    destruct Hinv as [H1 H2]. fold mean_r.
    destruct (clip_loop R 0 Rplus Rdiv INR std_r (keep_r lv lv st st) (Z.to_nat reps) (map (fun x => 0 * x) l)
                        (mean_r (map (fun x => 0 * x) l)) (std_r (map (fun x => 0 * x) l))) as [a b].
    cbn [fst snd] in H1, H2. subst. reflexivity.
  - unfold sigmaclip_r, clip. fold mean_r. rewrite mean_scale, std_scale by exact H.
    apply (clip_loop_equiv (keep_r lv lv st st) (fun x => k * x) (fun x => k * x) (fun x => Rabs k * x)).
    + intros. apply keep_scale. exact Hk.
    + intros. apply mean_scale. assumption.
    + intros. apply std_scale. assumption.
Qed.
