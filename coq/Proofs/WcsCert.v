(* C16: certificate lemmas for the interval-certified correspondence of sky2pix_vec / pix2sky_vec / sky2pix_ellipse /
   pix2sky_ellipse with the real WCSHelper methods (tools/harness/c16.py).
   The harness records every wcslib call (argument, result) made by the real method.  A certificate says: for EVERY
   function F (= wcslib) that returns the recorded result at the exactly-representable first argument and maps the
   e-neighbourhood of each further recorded argument into the box [lo, hi] around the recorded result (`nearf`, the
   local continuity of wcslib, validated by sampling on every run), the model queries F inside those neighbourhoods
   and its outputs agree with the implementation's outputs within the stated tolerances.  The premises left to the
   per-case files are closed real inequalities, proved by `interval`. *)
From Coq Require Import Reals Lra Psatz.
From Aegean Require Import Lib.RBase Gen.Sphere Lib.Sphere Gen.WcsHelper Model.WcsHelper Proofs.WcsHelperProofs.
Open Scope R_scope.

Definition nearf (F : pt -> pt) (c : pt) (e : R) (lo hi : pt) : Prop :=
  forall q, Rabs (fst q - fst c) <= e -> Rabs (snd q - snd c) <= e ->
  fst lo <= fst (F q) <= fst hi /\ snd lo <= snd (F q) <= snd hi.

Lemma asin_between lo hi F :
  - (PI / 2) <= lo <= PI / 2 -> - (PI / 2) <= hi <= PI / 2 -> sin lo <= F <= sin hi -> lo <= asin F <= hi.
Proof.
  intros Hlo Hhi [H1 H2].
  assert (HF : -1 <= F <= 1) by (pose proof (SIN_bound lo); pose proof (SIN_bound hi); lra).
  pose proof (asin_bound F) as [Ha Hb]. pose proof (sin_asin F HF) as Hs.
  split.
  - destruct (Rle_dec lo (asin F)) as [|Hn]; [assumption|exfalso].
    assert (sin (asin F) < sin lo) by (apply sin_increasing_1; lra). lra.
  - destruct (Rle_dec (asin F) hi) as [|Hn]; [assumption|exfalso].
    assert (sin hi < sin (asin F)) by (apply sin_increasing_1; lra). lra.
Qed.

Lemma rad_le_inv a b : rad a <= rad b -> a <= b.
Proof. unfold rad. pose proof PI_RGT_0 as HPI. intros Hab. nra. Qed.

(* the point that the model hands to sky2pix lies within e of the recorded argument (qr, qd) *)
Lemma translate_near ra dec r th qr qd e :
  0 <= e -> -90 <= qd - e -> qd + e <= 90 ->
  0 < tr_x dec r th ->
  Rabs (ra + deg (atan (tr_y dec r th / tr_x dec r th)) - qr) <= e ->
  sin (rad (qd - e)) <= tr_factor dec r th <= sin (rad (qd + e)) ->
  Rabs (fst (translate ra dec r th) - qr) <= e /\ Rabs (snd (translate ra dec r th) - qd) <= e.
Proof.
  intros He Hlo Hhi Hx Hra HF. pose proof PI_RGT_0 as HPI. rewrite translate_eq. cbn [fst snd]. split.
  - unfold atan2. destruct (Rlt_dec 0 (tr_x dec r th)) as [_|Hn]; [exact Hra | contradiction].
  - assert (Hb : rad (qd - e) <= asin (tr_factor dec r th) <= rad (qd + e)).
    { apply asin_between; [unfold rad; split; nra | unfold rad; split; nra | exact HF]. }
    destruct Hb as [Hb1 Hb2]. apply deg_le in Hb1. apply deg_le in Hb2. rewrite deg_rad in Hb1, Hb2.
    apply Rabs_le. lra.
Qed.

(* lo <= gcd <= hi from a bound on the square root of the haversine *)
Lemma gcd_between ra1 dec1 ra2 dec2 lo hi :
  0 <= lo <= 180 -> 0 <= hi <= 180 ->
  sin (rad lo / 2) <= sqrt (hav ra1 dec1 ra2 dec2) <= sin (rad hi / 2) ->
  lo <= gcd ra1 dec1 ra2 dec2 <= hi.
Proof.
  intros Hlo Hhi Hs. pose proof PI_RGT_0 as HPI.
  destruct (gcd_asin ra1 dec1 ra2 dec2) as [Hg _].
  assert (Hb : rad lo / 2 <= asin (sqrt (hav ra1 dec1 ra2 dec2)) <= rad hi / 2).
  { apply asin_between; [unfold rad; split; nra | unfold rad; split; nra | exact Hs]. }
  split; apply rad_le_inv; rewrite Hg; lra.
Qed.

(* agreement of an angle atan2 dy dx with a given angle b: |sin difference| <= ta and cos difference >= 0 *)
Lemma angle_close dy dx b ta :
  0 < dx * dx + dy * dy ->
  Rabs (dy * cos b - dx * sin b) <= ta * hypot dx dy -> 0 <= dx * cos b + dy * sin b ->
  Rabs (sin (atan2 dy dx - b)) <= ta /\ 0 <= cos (atan2 dy dx - b).
Proof.
  intros Hpos Hc Hd.
  assert (Hnz : dx <> 0 \/ dy <> 0).
  { destruct (Req_dec dx 0) as [Hx|]; [|left; assumption]. right. intros Hy. subst. lra. }
  pose proof (hypot_pos dx dy Hnz) as Hh.
  pose proof (cos_atan2 dy dx Hnz) as H1. pose proof (sin_atan2 dy dx Hnz) as H2. fold (hypot dx dy) in H1, H2.
  set (h := hypot dx dy) in *. set (f := atan2 dy dx) in *.
  rewrite sin_minus, cos_minus.
  assert (E1 : h * (sin f * cos b - cos f * sin b) = dy * cos b - dx * sin b) by (rewrite <- H1, <- H2; ring).
  assert (E2 : h * (cos f * cos b + sin f * sin b) = dx * cos b + dy * sin b) by (rewrite <- H1, <- H2; ring).
  split.
  - rewrite <- E1, Rabs_mult, (Rabs_right h) in Hc by lra.
    apply Rmult_le_reg_l with h; [exact Hh|]. lra.
  - rewrite <- E2 in Hd. apply Rmult_le_reg_l with h; [exact Hh|]. lra.
Qed.

(* ---------------------------------------------------------------------------------------- *)
(* sky2pix_vec: recorded calls all_world2pix([(ra, dec)]) = (p0, p1) and all_world2pix([(qr, qd)]) in [lo, hi].
   (x, y) = (p1, p0) exactly (row, column); length within tl of L; angle within asin ta of TH (degrees) *)
Lemma cert_sky2pix_vec (P S : pt -> pt) ra dec r pa p0 p1 qr qd e lo hi L tl TH ta :
  S (ra, dec) = (p0, p1) ->
  nearf S (qr, qd) e lo hi ->
  (Rabs (fst (translate ra dec r pa) - qr) <= e /\ Rabs (snd (translate ra dec r pa) - qd) <= e) ->
  (forall u v, fst lo <= u <= fst hi -> snd lo <= v <= snd hi ->
     let dx := v - p1 in let dy := u - p0 in
     0 < dx * dx + dy * dy /\ Rabs (hypot dx dy - L) <= tl /\
     Rabs (dy * cos (rad TH) - dx * sin (rad TH)) - ta * hypot dx dy <= 0 /\
     0 <= dx * cos (rad TH) + dy * sin (rad TH)) ->
  let '(x, y, l, th) := sky2pix_vec (fits_pix2sky P) (fits_sky2pix S) (ra, dec) r pa in
  x = p1 /\ y = p0 /\ Rabs (l - L) <= tl /\ Rabs (sin (rad th - rad TH)) <= ta /\ 0 <= cos (rad th - rad TH).
Proof.
  intros H0 H1 [Hq1 Hq2] HC. rewrite sky2pix_vec_eq. cbv zeta. cbn [fst snd]. rewrite !fits_sky2pix_eq, H0. cbn [fst snd].
  set (q := translate ra dec r pa) in *.
  destruct (H1 q Hq1 Hq2) as [Hu Hv]. specialize (HC _ _ Hu Hv). cbv zeta in HC. destruct HC as [Hp [Hl [Hc Hd]]].
  split; [reflexivity|]. split; [reflexivity|]. split; [exact Hl|]. rewrite rad_deg. apply angle_close; try assumption; lra.
Qed.

(* pix2sky_vec: recorded calls all_pix2world([[y, x]]) = (ra1, dec1) and all_pix2world([[cy, cx]]) in [lo, hi] *)
Lemma cert_pix2sky_vec (P S : pt -> pt) x y r th ra1 dec1 cx cy e lo hi glo ghi B ta :
  P (y, x) = (ra1, dec1) ->
  nearf P (cy, cx) e lo hi ->
  Rabs (y + r * sin (rad th) - cy) <= e -> Rabs (x + r * cos (rad th) - cx) <= e ->
  0 <= glo <= 180 -> 0 <= ghi <= 180 ->
  (forall u v, fst lo <= u <= fst hi -> snd lo <= v <= snd hi ->
     sin (rad glo / 2) <= sqrt (hav ra1 dec1 u v) <= sin (rad ghi / 2) /\
     let by_ := bear_y ra1 dec1 u v in let bx := bear_x ra1 dec1 u v in
     0 < bx * bx + by_ * by_ /\ Rabs (by_ * cos (rad B) - bx * sin (rad B)) - ta * hypot bx by_ <= 0 /\
     0 <= bx * cos (rad B) + by_ * sin (rad B)) ->
  let '(ra, dec, l, pa) := pix2sky_vec (fits_pix2sky P) (fits_sky2pix S) (x, y) r th in
  ra = ra1 /\ dec = dec1 /\ glo <= l <= ghi /\ Rabs (sin (rad pa - rad B)) <= ta /\ 0 <= cos (rad pa - rad B).
Proof.
  intros H0 H1 Hq1 Hq2 Hlo Hhi HC. rewrite pix2sky_vec_eq. cbv zeta. cbn [fst snd]. rewrite !fits_pix2sky_eq, H0. cbn [fst snd].
  set (q := (y + r * sin (rad th), x + r * cos (rad th))) in *.
  destruct (H1 q Hq1 Hq2) as [Hu Hv]. specialize (HC _ _ Hu Hv). cbv zeta in HC. destruct HC as [Hg [Hp [Hc Hd]]].
  split; [reflexivity|]. split; [reflexivity|]. split; [apply gcd_between; assumption|].
  rewrite bear_eq, rad_deg. apply angle_close; try assumption; lra.
Qed.

(* ---------------------------------------------------------------------------------------- *)
(* closed forms of the two non-orthogonality corrections (no atan2 left: interval-friendly) *)
Lemma nz_of_sq x y : 0 < x * x + y * y -> x <> 0 \/ y <> 0.
Proof. intros H. destruct (Req_dec x 0) as [Hx|]; [|left; assumption]. right. intros Hy. subst. lra. Qed.

Lemma sy_formula dxA dyA dxB dyB : 0 < dxA * dxA + dyA * dyA ->
  Rabs (dyB * cos (atan2 dyA dxA) - dxB * sin (atan2 dyA dxA)) = Rabs (dyB * dxA - dxB * dyA) / hypot dxA dyA.
Proof.
  intros Hp. pose proof (nz_of_sq _ _ Hp) as Hnz. pose proof (hypot_pos _ _ Hnz) as Hh.
  pose proof (cos_atan2 dyA dxA Hnz) as H1. pose proof (sin_atan2 dyA dxA Hnz) as H2. fold (hypot dxA dyA) in H1, H2.
  set (h := hypot dxA dyA) in *. set (f := atan2 dyA dxA) in *.
  replace (dyB * dxA - dxB * dyA) with (h * (dyB * cos f - dxB * sin f)) by (rewrite <- H1, <- H2; ring).
  rewrite Rabs_mult, (Rabs_right h) by lra. field. lra.
Qed.

Lemma cosdefect_formula x1 y1 x2 y2 : 0 < x1 * x1 + y1 * y1 -> 0 < x2 * x2 + y2 * y2 ->
  Rabs (cos (rad (deg (atan2 y1 x1) - (deg (atan2 y2 x2) - 90)))) =
  Rabs (y2 * x1 - x2 * y1) / (hypot x1 y1 * hypot x2 y2).
Proof.
  intros Hp1 Hp2. pose proof (nz_of_sq _ _ Hp1) as Hn1. pose proof (nz_of_sq _ _ Hp2) as Hn2.
  pose proof (hypot_pos _ _ Hn1) as Hh1. pose proof (hypot_pos _ _ Hn2) as Hh2.
  pose proof (cos_atan2 y1 x1 Hn1) as C1. pose proof (sin_atan2 y1 x1 Hn1) as S1. fold (hypot x1 y1) in C1, S1.
  pose proof (cos_atan2 y2 x2 Hn2) as C2. pose proof (sin_atan2 y2 x2 Hn2) as S2. fold (hypot x2 y2) in C2, S2.
  set (h1 := hypot x1 y1) in *. set (h2 := hypot x2 y2) in *. set (f1 := atan2 y1 x1) in *. set (f2 := atan2 y2 x2) in *.
  replace (rad (deg f1 - (deg f2 - 90))) with (PI / 2 - (f2 - f1)).
  2:{ pose proof PI_RGT_0. unfold rad, deg. field. lra. }
  rewrite cos_minus, cos_PI2, sin_PI2, sin_minus.
  replace (y2 * x1 - x2 * y1) with (h1 * h2 * (0 * cos (f2 - f1) + 1 * (sin f2 * cos f1 - cos f2 * sin f1)))
    by (rewrite <- C1, <- S1, <- C2, <- S2; ring).
  assert (Hh : 0 < h1 * h2) by (apply Rmult_lt_0_compat; assumption).
  rewrite Rabs_mult, (Rabs_right (h1 * h2)) by lra. field. split; lra.
Qed.

(* sky2pix_ellipse: recorded all_world2pix calls at (ra, dec) [exact], near (qr1, qd1) [major axis end] and
   (qr2, qd2) [minor axis end] *)
Lemma cert_sky2pix_ellipse (P S : pt -> pt) ra dec a b pa p0 p1 qr1 qd1 qr2 qd2 e lo1 hi1 lo2 hi2 SX tx SY ty TH ta :
  S (ra, dec) = (p0, p1) ->
  nearf S (qr1, qd1) e lo1 hi1 ->
  nearf S (qr2, qd2) e lo2 hi2 ->
  (Rabs (fst (translate ra dec a pa) - qr1) <= e /\ Rabs (snd (translate ra dec a pa) - qd1) <= e) ->
  (Rabs (fst (translate ra dec b (pa - 90)) - qr2) <= e /\ Rabs (snd (translate ra dec b (pa - 90)) - qd2) <= e) ->
  (forall u1 v1 u2 v2, fst lo1 <= u1 <= fst hi1 -> snd lo1 <= v1 <= snd hi1 ->
     fst lo2 <= u2 <= fst hi2 -> snd lo2 <= v2 <= snd hi2 ->
     let dxA := v1 - p1 in let dyA := u1 - p0 in let dxB := v2 - p1 in let dyB := u2 - p0 in
     0 < dxA * dxA + dyA * dyA /\ Rabs (hypot dxA dyA - SX) <= tx /\
     Rabs (Rabs (dyB * dxA - dxB * dyA) / hypot dxA dyA - SY) <= ty /\
     Rabs (dyA * cos (rad TH) - dxA * sin (rad TH)) - ta * hypot dxA dyA <= 0 /\
     0 <= dxA * cos (rad TH) + dyA * sin (rad TH)) ->
  let '(x, y, sx, sy, th) := sky2pix_ellipse (fits_pix2sky P) (fits_sky2pix S) (ra, dec) a b pa in
  x = p1 /\ y = p0 /\ Rabs (sx - SX) <= tx /\ Rabs (sy - SY) <= ty /\
  Rabs (sin (rad th - rad TH)) <= ta /\ 0 <= cos (rad th - rad TH).
Proof.
  intros H0 H1 H2 [Ha1 Ha2] [Hb1 Hb2] HC. rewrite sky2pix_ellipse_eq. cbv zeta. cbn [fst snd].
  rewrite !fits_sky2pix_eq, H0. cbn [fst snd].
  set (qa := translate ra dec a pa) in *. set (qb := translate ra dec b (pa - 90)) in *.
  destruct (H1 qa Ha1 Ha2) as [Hu1 Hv1]. destruct (H2 qb Hb1 Hb2) as [Hu2 Hv2].
  specialize (HC _ _ _ _ Hu1 Hv1 Hu2 Hv2). cbv zeta in HC. destruct HC as [Hp [Hx [Hy [Hc Hd]]]].
  split; [reflexivity|]. split; [reflexivity|]. split; [exact Hx|].
  rewrite perp_component, sy_formula by exact Hp. split; [exact Hy|].
  rewrite rad_deg. apply angle_close; try assumption; lra.
Qed.

(* pix2sky_ellipse: recorded all_pix2world calls at (y, x) [exact], near (cy1, cx1) and (cy2, cx2) *)
Lemma cert_pix2sky_ellipse (P S : pt -> pt) x y sx sy th ra0 dec0 cx1 cy1 cx2 cy2 e lo1 hi1 lo2 hi2
      glo ghi B ta g2lo g2hi clo chi M tm :
  P (y, x) = (ra0, dec0) ->
  nearf P (cy1, cx1) e lo1 hi1 ->
  nearf P (cy2, cx2) e lo2 hi2 ->
  Rabs (y + sx * sin (rad th) - cy1) <= e -> Rabs (x + sx * cos (rad th) - cx1) <= e ->
  Rabs (y + sy * sin (rad (th - 90)) - cy2) <= e -> Rabs (x + sy * cos (rad (th - 90)) - cx2) <= e ->
  0 <= glo <= 180 -> 0 <= ghi <= 180 -> 0 <= g2lo <= 180 -> 0 <= g2hi <= 180 -> 0 <= clo ->
  M - tm <= g2lo * clo -> g2hi * chi <= M + tm ->
  (forall u1 v1 u2 v2, fst lo1 <= u1 <= fst hi1 -> snd lo1 <= v1 <= snd hi1 ->
     fst lo2 <= u2 <= fst hi2 -> snd lo2 <= v2 <= snd hi2 ->
     sin (rad glo / 2) <= sqrt (hav ra0 dec0 u1 v1) <= sin (rad ghi / 2) /\
     sin (rad g2lo / 2) <= sqrt (hav ra0 dec0 u2 v2) <= sin (rad g2hi / 2) /\
     let y1 := bear_y ra0 dec0 u1 v1 in let x1 := bear_x ra0 dec0 u1 v1 in
     let y2 := bear_y ra0 dec0 u2 v2 in let x2 := bear_x ra0 dec0 u2 v2 in
     0 < x1 * x1 + y1 * y1 /\ 0 < x2 * x2 + y2 * y2 /\
     Rabs (y1 * cos (rad B) - x1 * sin (rad B)) - ta * hypot x1 y1 <= 0 /\
     0 <= x1 * cos (rad B) + y1 * sin (rad B) /\
     clo <= Rabs (y2 * x1 - x2 * y1) / (hypot x1 y1 * hypot x2 y2) <= chi) ->
  let '(ra, dec, major, minor, pa) := pix2sky_ellipse (fits_pix2sky P) (fits_sky2pix S) (x, y) sx sy th in
  ra = ra0 /\ dec = dec0 /\ glo <= major <= ghi /\ M - tm <= minor <= M + tm /\
  Rabs (sin (rad pa - rad B)) <= ta /\ 0 <= cos (rad pa - rad B).
Proof.
  intros H0 H1 H2 Hq1 Hq2 Hq3 Hq4 Hglo Hghi Hg2lo Hg2hi Hclo HM1 HM2 HC.
  rewrite pix2sky_ellipse_eq. cbv zeta. cbn [fst snd]. rewrite !fits_pix2sky_eq, H0. cbn [fst snd].
  set (q1 := (y + sx * sin (rad th), x + sx * cos (rad th))) in *.
  set (q2 := (y + sy * sin (rad (th - 90)), x + sy * cos (rad (th - 90)))) in *.
  destruct (H1 q1 Hq1 Hq2) as [Hu1 Hv1]. destruct (H2 q2 Hq3 Hq4) as [Hu2 Hv2].
  specialize (HC _ _ _ _ Hu1 Hv1 Hu2 Hv2). cbv zeta in HC.
  destruct HC as [Hg1 [Hg2 [Hp1 [Hp2 [Hc [Hd Hcc]]]]]].
  split; [reflexivity|]. split; [reflexivity|]. split; [apply gcd_between; assumption|].
  pose proof (gcd_between _ _ _ _ _ _ Hg2lo Hg2hi Hg2) as [G1 G2].
  rewrite !bear_eq. rewrite cosdefect_formula by assumption.
  set (g := gcd _ _ _ _) in *. set (c := _ / _) in *.
  split; [split; nra|].
  rewrite rad_deg. apply angle_close; try assumption; lra.
Qed.
