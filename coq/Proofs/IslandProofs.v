(* Proofs for C02 (islands = seeded flood-thresholded 8-connected groups) and C11 (region filter).

   Layout:  1. characterising lemmas of the generated leaves (Gen/Islands.v) - the ONLY place
               where the leaves are unfolded; afterwards they are made opaque for this file
            2. pixel grid (zseq / all_pixels / get)
            3. signal-to-noise, flood and seed tests
            4. the pixel graph and its classes (instances of Lib/Graph.v)
            5. C02 lemmas      6. C11 lemmas *)
From Coq Require Import ZArith Bool List Lia Relations FinFun.
From Aegean Require Import Gen.Islands Lib.Graph Model.IslandModel.
Import ListNotations.
Open Scope Z_scope.

(* ================= 1. leaves ================= *)

Lemma snr_num_spec i b : snr_num i b = Z.abs (i - b).
Proof. reflexivity. Qed.

Lemma flood_test_spec n d cn cd : flood_test n d cn cd = true <-> cn * d <= n * cd.
Proof. unfold flood_test. apply Z.leb_le. Qed.

Lemma seed_test_spec n d cn cd : seed_test n d cn cd = true <-> cn * d < n * cd.
Proof. unfold seed_test. apply Z.ltb_lt. Qed.

Lemma mask_below_flood_spec n d cn cd :
  mask_below_flood n d cn cd = negb (flood_test n d cn cd).
Proof.
  unfold mask_below_flood, flood_test.
  destruct (Z.ltb_spec (n * cd) (cn * d)), (Z.leb_spec (cn * d) (n * cd)); cbn [negb]; auto; lia.
Qed.

Lemma seed_scope_own_spec : seed_scope_own = true.
Proof. reflexivity. Qed.

Lemma conn_reach_spec : conn_reach = 1.
Proof. reflexivity. Qed.

Lemma region_first_spec r c r0 c0 : region_first r c r0 c0 + 1 - region_origin = c + c0 + 1.
Proof. unfold region_first, region_origin. lia. Qed.

Lemma region_second_spec r c r0 c0 : region_second r c r0 c0 + 1 - region_origin = r + r0 + 1.
Proof. unfold region_second, region_origin. lia. Qed.

(* from here on the leaves are used through the lemmas above only *)
Local Opaque snr_num flood_test seed_test mask_below_flood seed_scope_own conn_reach
      region_first region_second region_origin.

(* ================= generic list lemmas ================= *)

Lemma existsb_ext {A} (f g : A -> bool) (l : list A) :
  (forall a, f a = g a) -> existsb f l = existsb g l.
Proof. intros H. induction l as [|a l IH]; cbn [existsb]; [reflexivity|]. rewrite H, IH. reflexivity. Qed.

Lemma filter_map_comm {A B} (f : B -> bool) (g : A -> B) (l : list A) :
  filter f (map g l) = map g (filter (fun a => f (g a)) l).
Proof.
  induction l as [|a l IH]; cbn [map filter]; [reflexivity|].
  destruct (f (g a)); cbn [map]; rewrite IH; reflexivity.
Qed.

Lemma filter_true {A} (f : A -> bool) (l : list A) :
  (forall a, In a l -> f a = true) -> filter f l = l.
Proof.
  induction l as [|a l IH]; cbn [filter]; intros H; [reflexivity|].
  rewrite (H a (or_introl eq_refl)), IH; [reflexivity|]. intros b Hb. apply H. right. exact Hb.
Qed.

(* ================= 2. pixel grid ================= *)

Lemma zseq_In lo n x : In x (zseq lo n) <-> lo <= x < lo + Z.of_nat n.
Proof.
  revert lo. induction n as [|n IH]; intros lo; cbn [zseq In].
  - lia.
  - rewrite IH. lia.
Qed.

Lemma zseq_NoDup lo n : NoDup (zseq lo n).
Proof.
  revert lo. induction n as [|n IH]; intros lo; cbn [zseq]; constructor; auto.
  rewrite zseq_In. lia.
Qed.

Definition rows_from (lo : Z) (img : image) : list pix :=
  flat_map (fun rr : Z * list pixel => map (fun c => (fst rr, c)) (zseq 0 (length (snd rr))))
           (combine (zseq lo (length img)) img).

Lemma all_pixels_rows img : all_pixels img = rows_from 0 img.
Proof. reflexivity. Qed.

Lemma rows_from_nil lo : rows_from lo [] = [].
Proof. reflexivity. Qed.

Lemma rows_from_cons lo row img :
  rows_from lo (row :: img) = map (fun c => (lo, c)) (zseq 0 (length row)) ++ rows_from (lo + 1) img.
Proof. reflexivity. Qed.

Lemma rows_from_In lo img p : In p (rows_from lo img) <->
  exists row, lo <= fst p /\ nth_error img (Z.to_nat (fst p - lo)) = Some row /\
              0 <= snd p < Z.of_nat (length row).
Proof.
  revert lo. induction img as [|row img IH]; intros lo.
  - rewrite rows_from_nil. split; [intros []|].
    intros (row & _ & H & _). destruct (Z.to_nat (fst p - lo)); discriminate.
  - rewrite rows_from_cons, in_app_iff, in_map_iff, IH. split.
    + intros [(c & <- & Hc)|(row' & Hlo & Hn & Hc)].
      * apply zseq_In in Hc. exists row. cbn [fst snd]. rewrite Z.sub_diag.
        split; [lia|split; [reflexivity|lia]].
      * exists row'. split; [lia|split; [|exact Hc]].
        replace (Z.to_nat (fst p - lo)) with (S (Z.to_nat (fst p - (lo + 1)))) by lia.
        exact Hn.
    + intros (row' & Hlo & Hn & Hc). destruct (Z.eq_dec (fst p) lo) as [E|E].
      * left. exists (snd p). rewrite E, Z.sub_diag in Hn. cbn [Z.to_nat nth_error] in Hn.
        injection Hn as <-. split; [rewrite <- E; destruct p; reflexivity|apply zseq_In; lia].
      * right. exists row'.
        replace (Z.to_nat (fst p - lo)) with (S (Z.to_nat (fst p - (lo + 1)))) in Hn by lia.
        split; [lia|split; [exact Hn|exact Hc]].
Qed.

Lemma rows_from_NoDup lo img : NoDup (rows_from lo img).
Proof.
  revert lo. induction img as [|row img IH]; intros lo.
  - rewrite rows_from_nil. constructor.
  - rewrite rows_from_cons. apply NoDup_app_intro.
    + apply Injective_map_NoDup; [|apply zseq_NoDup]. intros a b H. congruence.
    + apply IH.
    + intros x Hx Hx'. apply in_map_iff in Hx as (c & <- & _).
      apply rows_from_In in Hx' as (row' & Hlo & _). cbn [fst] in Hlo. lia.
Qed.

Lemma all_pixels_NoDup img : NoDup (all_pixels img).
Proof. rewrite all_pixels_rows. apply rows_from_NoDup. Qed.

Lemma get_in_all_pixels img p px : get img p = Some px -> In p (all_pixels img).
Proof.
  unfold get. destruct ((fst p <? 0) || (snd p <? 0)) eqn:E; [discriminate|].
  apply orb_false_iff in E as (E1 & E2). apply Z.ltb_ge in E1, E2.
  destruct (nth_error img (Z.to_nat (fst p))) as [row|] eqn:Er; [|discriminate].
  intros Hc. rewrite all_pixels_rows. apply rows_from_In. exists row. rewrite Z.sub_0_r.
  split; [lia|split; [exact Er|]].
  assert (Hlt : (Z.to_nat (snd p) < length row)%nat) by (apply nth_error_Some; congruence).
  lia.
Qed.

Lemma box_pixels_In r0 r1 c0 c1 p :
  In p (box_pixels (r0, r1, c0, c1)) <-> r0 <= fst p < r1 /\ c0 <= snd p < c1.
Proof.
  unfold box_pixels. rewrite in_flat_map. split.
  - intros (r & Hr & Hc). apply in_map_iff in Hc as (c & <- & Hc).
    apply zseq_In in Hr, Hc. cbn [fst snd]. lia.
  - intros H. exists (fst p). split; [apply zseq_In; lia|].
    apply in_map_iff. exists (snd p). split; [destruct p; reflexivity|apply zseq_In; lia].
Qed.

(* executable check of rms_pos, for concrete images *)
Definition rms_pos_b (img : image) : bool :=
  forallb (forallb (fun px => match p_rms px with Some r => 0 <? r | None => true end)) img.

Lemma rms_pos_check img : rms_pos_b img = true -> rms_pos img.
Proof.
  unfold rms_pos_b, rms_pos, get. intros H p px r Hg Hr.
  destruct ((fst p <? 0) || (snd p <? 0)); [discriminate|].
  destruct (nth_error img (Z.to_nat (fst p))) as [row|] eqn:Er; [|discriminate].
  apply nth_error_In in Er, Hg.
  rewrite forallb_forall in H. specialize (H row Er).
  rewrite forallb_forall in H. specialize (H px Hg).
  rewrite Hr in H. apply Z.ltb_lt, H.
Qed.

(* ================= 3. signal-to-noise, flood and seed tests ================= *)

Lemma snr_some img p n d : snr img p = Some (n, d) ->
  exists px i b r, get img p = Some px /\ p_im px = Some i /\ p_bkg px = Some b /\
                   p_rms px = Some r /\ n = snr_num i b /\ d = r.
Proof.
  unfold snr. destruct (get img p) as [px|]; [|discriminate]. unfold snr_of.
  destruct (p_im px) as [i|] eqn:Ei; [|discriminate].
  destruct (p_bkg px) as [b|] eqn:Eb; [|discriminate].
  destruct (p_rms px) as [r|] eqn:Er; [|discriminate].
  intros H. injection H as <- <-. exists px, i, b, r. auto 6.
Qed.

Lemma snr_intro img p px i b r :
  get img p = Some px -> p_im px = Some i -> p_bkg px = Some b -> p_rms px = Some r ->
  snr img p = Some (snr_num i b, r).
Proof. intros Hg Hi Hb Hr. unfold snr, snr_of. rewrite Hg, Hi, Hb, Hr. reflexivity. Qed.

Lemma flood_ok_snr img fl p : flood_ok img fl p = true <->
  exists n d, snr img p = Some (n, d) /\ flood_test n d (c_num fl) (c_den fl) = true.
Proof.
  unfold flood_ok. destruct (snr img p) as [[n d]|]; split.
  - intros H. exists n, d. auto.
  - intros (n' & d' & E & H). injection E as -> ->. exact H.
  - discriminate.
  - intros (n' & d' & E & _). discriminate.
Qed.

Lemma seed_ok_snr img sd p : seed_ok img sd p = true <->
  exists n d, snr img p = Some (n, d) /\ seed_test n d (c_num sd) (c_den sd) = true.
Proof.
  unfold seed_ok. destruct (snr img p) as [[n d]|]; split.
  - intros H. exists n, d. auto.
  - intros (n' & d' & E & H). injection E as -> ->. exact H.
  - discriminate.
  - intros (n' & d' & E & _). discriminate.
Qed.

(* the hypotheses rms_pos / clip_ok of the Props statement are not needed *)
Lemma flood_rule : forall img fl p, rms_pos img -> clip_ok fl ->
  (flood_ok img fl p = true <->
   exists px i b r, get img p = Some px /\ p_im px = Some i /\ p_bkg px = Some b /\ p_rms px = Some r /\
                    c_num fl * r <= Z.abs (i - b) * c_den fl).
Proof.
  intros img fl p _ _. rewrite flood_ok_snr. split.
  - intros (n & d & E & H). apply snr_some in E as (px & i & b & r & Hg & Hi & Hb & Hr & -> & ->).
    apply flood_test_spec in H. rewrite snr_num_spec in H. exists px, i, b, r. auto 6.
  - intros (px & i & b & r & Hg & Hi & Hb & Hr & H).
    exists (snr_num i b), r. split; [apply (snr_intro img p px); assumption|].
    apply flood_test_spec. rewrite snr_num_spec. exact H.
Qed.

Lemma seed_rule : forall img sd p, rms_pos img -> clip_ok sd ->
  (seed_ok img sd p = true <->
   exists px i b r, get img p = Some px /\ p_im px = Some i /\ p_bkg px = Some b /\ p_rms px = Some r /\
                    c_num sd * r < Z.abs (i - b) * c_den sd).
Proof.
  intros img sd p _ _. rewrite seed_ok_snr. split.
  - intros (n & d & E & H). apply snr_some in E as (px & i & b & r & Hg & Hi & Hb & Hr & -> & ->).
    apply seed_test_spec in H. rewrite snr_num_spec in H. exists px, i, b, r. auto 6.
  - intros (px & i & b & r & Hg & Hi & Hb & Hr & H).
    exists (snr_num i b), r. split; [apply (snr_intro img p px); assumption|].
    apply seed_test_spec. rewrite snr_num_spec. exact H.
Qed.

Lemma flood_ok_finite img fl p : flood_ok img fl p = true ->
  exists px i b r, get img p = Some px /\ p_im px = Some i /\ p_bkg px = Some b /\ p_rms px = Some r.
Proof.
  intros H. apply flood_ok_snr in H as (n & d & E & _).
  apply snr_some in E as (px & i & b & r & Hg & Hi & Hb & Hr & _). exists px, i, b, r. auto.
Qed.

Lemma flood_ok_in_nodes img fl p : flood_ok img fl p = true <-> In p (nodes img fl).
Proof.
  unfold nodes. rewrite filter_In. split; [|tauto].
  intros H. split; [|exact H]. destruct (flood_ok_finite img fl p H) as (px & _ & _ & _ & Hg & _).
  apply (get_in_all_pixels img p px Hg).
Qed.

(* a pixel above the higher seed threshold is above the lower one *)
Lemma seed_ok_mono img sd sd' p : rms_pos img -> clip_ok sd -> clip_ok sd' -> clip_le sd sd' ->
  seed_ok img sd' p = true -> seed_ok img sd p = true.
Proof.
  intros Hrms Hsd Hsd' Hle H. apply seed_ok_snr in H as (n & d & E & H).
  apply seed_ok_snr. exists n, d. split; [exact E|].
  apply seed_test_spec in H. apply seed_test_spec.
  apply snr_some in E as (px & i & b & r & Hg & _ & _ & Hr & _ & ->).
  pose proof (Hrms p px r Hg Hr) as Hpos.
  unfold clip_ok in Hsd, Hsd'. unfold clip_le in Hle.
  destruct sd as [cn cd], sd' as [cn' cd']. cbn [c_num c_den] in *.
  (* cn*cd' <= cn'*cd,  cn'*r < n*cd'  |-  cn*r < n*cd *)
  apply Z.mul_lt_mono_pos_r with (p := cd'); [exact Hsd'|].
  apply Z.le_lt_trans with (m := cn' * r * cd).
  - replace (cn * r * cd') with (cn * cd' * r) by ring.
    replace (cn' * r * cd) with (cn' * cd * r) by ring.
    apply Z.mul_le_mono_nonneg_r; lia.
  - replace (n * cd * cd') with (n * cd' * cd) by ring.
    apply Z.mul_lt_mono_pos_r; assumption.
Qed.

(* ================= 4. the pixel graph ================= *)

Lemma pix_eqb_spec (p q : pix) : reflect (p = q) (pix_eqb p q).
Proof.
  destruct p as [a b], q as [c d]. unfold pix_eqb. cbn [fst snd].
  destruct (Z.eqb_spec a c), (Z.eqb_spec b d); cbn [andb]; constructor; congruence.
Qed.

Lemma pix_eqb_eq p q : pix_eqb p q = true <-> p = q.
Proof. destruct (pix_eqb_spec p q); split; congruence. Qed.

Lemma adj_sym p q : adj p q = true -> adj q p = true.
Proof. unfold adj. rewrite !andb_true_iff, !Z.leb_le. lia. Qed.

(* 8-neighbourhood (including the pixel itself) *)
Lemma adj_spec p q : adj p q = true <-> Z.abs (fst p - fst q) <= 1 /\ Z.abs (snd p - snd q) <= 1.
Proof. unfold adj. rewrite conn_reach_spec, andb_true_iff, !Z.leb_le. tauto. Qed.

Lemma nodes_NoDup img fl : NoDup (nodes img fl).
Proof. apply NoDup_filter, all_pixels_NoDup. Qed.

Section Groups.
Variables (img : image) (fl : clip).

Lemma groups_nonempty C : In C (groups img fl) -> C <> [].
Proof. apply components_nonempty; [exact pix_eqb_spec|exact (nodes_NoDup img fl)]. Qed.

Lemma groups_NoDup C : In C (groups img fl) -> NoDup C.
Proof. apply components_NoDup; [exact pix_eqb_spec|exact (nodes_NoDup img fl)]. Qed.

Lemma groups_incl C : In C (groups img fl) -> incl C (nodes img fl).
Proof. apply components_incl; [exact pix_eqb_spec|exact (nodes_NoDup img fl)]. Qed.

Lemma groups_spec C p q : In C (groups img fl) -> In p C ->
  (In q C <-> connected pix adj (nodes img fl) p q).
Proof.
  apply components_spec; [exact pix_eqb_spec|exact (nodes_NoDup img fl)|exact adj_sym].
Qed.

Lemma groups_complete p q : In p (nodes img fl) -> connected pix adj (nodes img fl) p q ->
  exists C, In C (groups img fl) /\ In p C /\ In q C.
Proof.
  apply components_complete; [exact pix_eqb_spec|exact (nodes_NoDup img fl)|exact adj_sym].
Qed.

Lemma groups_pairwise : pairwise disjoint (groups img fl).
Proof.
  apply components_pairwise; [exact pix_eqb_spec|exact (nodes_NoDup img fl)|exact adj_sym].
Qed.
End Groups.

(* ================= 5. C02 ================= *)

Lemma seed_scope_eq I : seed_scope I = I.
Proof. unfold seed_scope. rewrite seed_scope_own_spec. reflexivity. Qed.

Lemma islands_In img fl sd I : In I (islands img fl sd) <->
  In I (groups img fl) /\ exists s, In s I /\ seed_ok img sd s = true.
Proof. unfold islands. rewrite filter_In, seed_scope_eq, existsb_exists. tauto. Qed.

Lemma islands_sound : forall img fl sd I, In I (islands img fl sd) ->
  I <> [] /\ NoDup I /\
  (forall p, In p I -> flood_ok img fl p = true) /\
  (forall p q, In p I -> (In q I <-> connected pix adj (nodes img fl) p q)) /\
  (exists s, In s I /\ seed_ok img sd s = true).
Proof.
  intros img fl sd I H. apply islands_In in H as (HG & Hs).
  split; [exact (groups_nonempty img fl I HG)|].
  split; [exact (groups_NoDup img fl I HG)|].
  split; [|split; [|exact Hs]].
  - intros p Hp. apply flood_ok_in_nodes. exact (groups_incl img fl I HG p Hp).
  - intros p q Hp. exact (groups_spec img fl I p q HG Hp).
Qed.

Lemma islands_complete : forall img fl sd p s,
  flood_ok img fl p = true -> connected pix adj (nodes img fl) p s ->
  seed_ok img sd s = true -> flood_ok img fl s = true ->
  exists I, In I (islands img fl sd) /\ In p I /\ In s I.
Proof.
  intros img fl sd p s Hp Hps Hs _. apply flood_ok_in_nodes in Hp.
  destruct (groups_complete img fl p s Hp Hps) as (C & HC & HpC & HsC).
  exists C. split; [|split; assumption]. apply islands_In. split; [exact HC|]. exists s. auto.
Qed.

Lemma islands_pairwise img fl sd : pairwise disjoint (islands img fl sd).
Proof. unfold islands. apply pairwise_filter, groups_pairwise. Qed.

Lemma islands_disjoint : forall img fl sd i j I J,
  nth_error (islands img fl sd) i = Some I -> nth_error (islands img fl sd) j = Some J -> i <> j ->
  forall p, In p I -> ~ In p J.
Proof.
  intros img fl sd i j I J Hi Hj Hij.
  exact (pairwise_nth_error disjoint (islands img fl sd) (@disjoint_sym pix)
           (islands_pairwise img fl sd) i j I J Hi Hj Hij).
Qed.

Lemma fold_min_spec a l :
  (forall x, In x (a :: l) -> fold_right Z.min a l <= x) /\ In (fold_right Z.min a l) (a :: l).
Proof.
  induction l as [|b l (IH1 & IH2)]; cbn [fold_right].
  - split; [intros x [<-|[]]; lia|left; reflexivity].
  - split.
    + intros x [<-|[<-|H]].
      * specialize (IH1 a (or_introl eq_refl)). lia.
      * lia.
      * specialize (IH1 x (or_intror H)). lia.
    + destruct (Z.min_spec b (fold_right Z.min a l)) as [(_ & ->)|(_ & ->)].
      * right. left. reflexivity.
      * destruct IH2 as [IH2|IH2]; [left; exact IH2|right; right; exact IH2].
Qed.

Lemma fold_max_spec a l :
  (forall x, In x (a :: l) -> x <= fold_right Z.max a l) /\ In (fold_right Z.max a l) (a :: l).
Proof.
  induction l as [|b l (IH1 & IH2)]; cbn [fold_right].
  - split; [intros x [<-|[]]; lia|left; reflexivity].
  - split.
    + intros x [<-|[<-|H]].
      * specialize (IH1 a (or_introl eq_refl)). lia.
      * lia.
      * specialize (IH1 x (or_intror H)). lia.
    + destruct (Z.max_spec b (fold_right Z.max a l)) as [(_ & ->)|(_ & ->)].
      * destruct IH2 as [IH2|IH2]; [left; exact IH2|right; right; exact IH2].
      * right. left. reflexivity.
Qed.

Lemma bbox_tight : forall (I : list pix) r0 r1 c0 c1, I <> [] -> bbox I = (r0, r1, c0, c1) ->
  (forall p, In p I -> r0 <= fst p < r1 /\ c0 <= snd p < c1) /\
  (exists p, In p I /\ fst p = r0) /\ (exists p, In p I /\ fst p = r1 - 1) /\
  (exists p, In p I /\ snd p = c0) /\ (exists p, In p I /\ snd p = c1 - 1).
Proof.
  intros I r0 r1 c0 c1 Hne Hb. destruct I as [|p t]; [congruence|]. cbn [bbox] in Hb.
  destruct (fold_min_spec (fst p) (map fst t)) as (Hrmin & Hrmin').
  destruct (fold_max_spec (fst p) (map fst t)) as (Hrmax & Hrmax').
  destruct (fold_min_spec (snd p) (map snd t)) as (Hcmin & Hcmin').
  destruct (fold_max_spec (snd p) (map snd t)) as (Hcmax & Hcmax').
  change (fst p :: map fst t) with (map fst (p :: t)) in *.
  change (snd p :: map snd t) with (map snd (p :: t)) in *.
  injection Hb as E0 E1 E2 E3.
  split; [|split; [|split; [|split]]].
  - intros q Hq.
    specialize (Hrmin (fst q) (in_map fst _ _ Hq)). specialize (Hrmax (fst q) (in_map fst _ _ Hq)).
    specialize (Hcmin (snd q) (in_map snd _ _ Hq)). specialize (Hcmax (snd q) (in_map snd _ _ Hq)).
    lia.
  - apply in_map_iff in Hrmin' as (q & Eq & Hq). exists q. split; [exact Hq|lia].
  - apply in_map_iff in Hrmax' as (q & Eq & Hq). exists q. split; [exact Hq|lia].
  - apply in_map_iff in Hcmin' as (q & Eq & Hq). exists q. split; [exact Hq|lia].
  - apply in_map_iff in Hcmax' as (q & Eq & Hq). exists q. split; [exact Hq|lia].
Qed.

(* the mask leaves exactly the own pixels unblanked, for any non-empty list of flood-passing pixels *)
Lemma unmasked_In img fl I p : I <> [] -> (forall q, In q I -> flood_ok img fl q = true) ->
  (In p (unmasked img fl I) <-> In p I).
Proof.
  intros Hne Hfl. unfold unmasked. rewrite filter_In, negb_true_iff. unfold mask_at.
  rewrite orb_false_iff, negb_false_iff, existsb_exists. split.
  - intros (_ & _ & q & Hq & E). apply pix_eqb_eq in E. subst q. exact Hq.
  - intros Hp. split; [|split].
    + destruct (bbox I) as [[[r0 r1] c0] c1] eqn:Eb.
      apply box_pixels_In. apply (bbox_tight I r0 r1 c0 c1 Hne Eb). exact Hp.
    + apply Hfl, flood_ok_snr in Hp as (n & d & -> & Ht).
      rewrite mask_below_flood_spec, Ht. reflexivity.
    + exists p. split; [exact Hp|apply pix_eqb_eq; reflexivity].
Qed.

(* the hypotheses rms_pos / clip_ok of the Props statement are not needed *)
Lemma mask_exact : forall img fl sd I p, rms_pos img -> clip_ok fl -> In I (islands img fl sd) ->
  (In p (unmasked img fl I) <-> In p I).
Proof.
  intros img fl sd I p _ _ H. apply islands_sound in H as (Hne & _ & Hfl & _).
  apply unmasked_In; assumption.
Qed.

Lemma no_blank : forall img fl sd I p, In I (islands img fl sd) -> In p I ->
  exists px i b r, get img p = Some px /\ p_im px = Some i /\ p_bkg px = Some b /\ p_rms px = Some r.
Proof.
  intros img fl sd I p H Hp. apply islands_sound in H as (_ & _ & Hfl & _).
  apply (flood_ok_finite img fl p), Hfl, Hp.
Qed.

Lemma seed_monotone : forall img fl sd sd' I,
  rms_pos img -> clip_ok sd -> clip_ok sd' -> clip_le sd sd' ->
  In I (islands img fl sd') -> In I (islands img fl sd).
Proof.
  intros img fl sd sd' I Hrms Hsd Hsd' Hle H. apply islands_In in H as (HG & s & Hs & Hseed).
  apply islands_In. split; [exact HG|]. exists s. split; [exact Hs|].
  exact (seed_ok_mono img sd sd' s Hrms Hsd Hsd' Hle Hseed).
Qed.

(* ----- negation ----- *)

Lemma rows_from_neg lo img : rows_from lo (neg_image img) = rows_from lo img.
Proof.
  revert lo. unfold neg_image. induction img as [|row img IH]; intros lo; cbn [map].
  - reflexivity.
  - rewrite !rows_from_cons, map_length, IH. reflexivity.
Qed.

Lemma all_pixels_neg img : all_pixels (neg_image img) = all_pixels img.
Proof. rewrite !all_pixels_rows. apply rows_from_neg. Qed.

Lemma get_neg img p : get (neg_image img) p = option_map neg_pixel (get img p).
Proof.
  unfold get, neg_image. destruct ((fst p <? 0) || (snd p <? 0)); [reflexivity|].
  rewrite nth_error_map. destruct (nth_error img (Z.to_nat (fst p))) as [row|]; cbn [option_map].
  - apply nth_error_map.
  - reflexivity.
Qed.

Lemma snr_of_neg px : snr_of (neg_pixel px) = snr_of px.
Proof.
  destruct px as [[i|] [b|] [r|]]; unfold snr_of, neg_pixel; cbn [p_im p_bkg p_rms option_map];
    try reflexivity.
  rewrite !snr_num_spec. replace (- i - - b) with (- (i - b)) by lia. rewrite Z.abs_opp. reflexivity.
Qed.

Lemma snr_neg img p : snr (neg_image img) p = snr img p.
Proof.
  unfold snr. rewrite get_neg. destruct (get img p) as [px|]; cbn [option_map];
    [apply snr_of_neg|reflexivity].
Qed.

Lemma flood_ok_neg img fl p : flood_ok (neg_image img) fl p = flood_ok img fl p.
Proof. unfold flood_ok. rewrite snr_neg. reflexivity. Qed.

Lemma seed_ok_neg img sd p : seed_ok (neg_image img) sd p = seed_ok img sd p.
Proof. unfold seed_ok. rewrite snr_neg. reflexivity. Qed.

Lemma nodes_neg img fl : nodes (neg_image img) fl = nodes img fl.
Proof. unfold nodes. rewrite all_pixels_neg. apply filter_ext. intros p. apply flood_ok_neg. Qed.

Lemma sign_symmetric : forall img fl sd, islands (neg_image img) fl sd = islands img fl sd.
Proof.
  intros img fl sd. unfold islands, groups. rewrite nodes_neg. apply filter_ext. intros I.
  apply existsb_ext. intros p. apply seed_ok_neg.
Qed.

(* ================= 6. C11 ================= *)

Lemma region_ok_touches inside I :
  region_ok inside I = existsb (fun p => inside (snd p + 1) (fst p + 1)) I.
Proof.
  unfold region_ok. destruct (bbox I) as [[[r0 r1] c0] c1]. apply existsb_ext. intros p.
  rewrite region_first_spec, region_second_spec. f_equal; lia.
Qed.

Lemma region_filter : forall img fl sd inside,
  islands_region img fl sd inside =
  filter (fun I => existsb (fun p => inside (snd p + 1) (fst p + 1)) I) (islands img fl sd).
Proof.
  intros img fl sd inside. unfold islands_region. apply filter_ext. intros I.
  apply region_ok_touches.
Qed.

Lemma region_inside_kept : forall img fl sd inside I, In I (islands img fl sd) ->
  (exists p, In p I /\ inside (snd p + 1) (fst p + 1) = true) -> In I (islands_region img fl sd inside).
Proof.
  intros img fl sd inside I HI Hp. rewrite region_filter. apply filter_In. split; [exact HI|].
  apply existsb_exists. exact Hp.
Qed.

Lemma region_outside_dropped : forall img fl sd inside I, In I (islands_region img fl sd inside) ->
  In I (islands img fl sd) /\ exists p, In p I /\ inside (snd p + 1) (fst p + 1) = true.
Proof.
  intros img fl sd inside I H. rewrite region_filter in H. apply filter_In in H as (HI & Hp).
  split; [exact HI|]. apply existsb_exists. exact Hp.
Qed.

Lemma region_full_id : forall img fl sd inside, (forall x y, inside x y = true) ->
  islands_region img fl sd inside = islands img fl sd.
Proof.
  intros img fl sd inside Hall. rewrite region_filter. apply filter_true. intros I HI.
  apply islands_sound in HI as (Hne & _). destruct I as [|p t]; [congruence|].
  cbn [existsb]. rewrite Hall. reflexivity.
Qed.

Lemma region_same_obs : forall img fl sd inside,
  obs_region img fl sd inside =
  filter (fun o => existsb (fun p => inside (snd p + 1) (fst p + 1)) (snd (fst o))) (obs img fl sd).
Proof.
  intros img fl sd inside. unfold obs_region, obs. rewrite region_filter, filter_map_comm.
  reflexivity.
Qed.
