(* C15 - proofs about Model/FitsTools.v.
   Part 1: one characterising lemma per generated leaf of Gen/FitsTools.v (the only places where the
           leaves are unfolded; afterwards they are opaque).
   Part 2: structure of compress / expand (inversion, success).
   Part 3: the property lemmas used by Props/C15.v, for any interpolator that satisfies the library
           contract Interp.rgi_spec.  Axiom-free. *)
From Coq Require Import ZArith QArith Qfield Lqa Lia Bool List String.
From Aegean Require Import Lib.Keywords Lib.Interp Gen.FitsTools Model.FitsTools.
Import ListNotations.
Open Scope string_scope.
Open Scope Z_scope.

(* ======================================================================================= *)
(* Part 1: leaves *)

Lemma comp_factor_ok_spec f : comp_factor_ok f = true <-> 0 < f.
Proof. unfold comp_factor_ok. rewrite Z.ltb_lt. reflexivity. Qed.

(* nx is the ceiling of rows / factor *)
Lemma comp_nx_spec r c f : 0 < f -> (comp_nx r c f - 1) * f < r <= comp_nx r c f * f.
Proof.
  intros Hf. unfold comp_nx. cbv zeta.
  pose proof (Z.div_mod r f ltac:(lia)) as D. pose proof (Z.mod_pos_bound r f Hf) as B.
  destruct (0 <? r mod f) eqn:E; [apply Z.ltb_lt in E|apply Z.ltb_ge in E]; nia.
Qed.

Lemma comp_ny_spec r c f : 0 < f -> (comp_ny r c f - 1) * f < c <= comp_ny r c f * f.
Proof.
  intros Hf. unfold comp_ny. cbv zeta.
  pose proof (Z.div_mod c f ltac:(lia)) as D. pose proof (Z.mod_pos_bound c f Hf) as B.
  destruct (0 <? c mod f) eqn:E; [apply Z.ltb_lt in E|apply Z.ltb_ge in E]; nia.
Qed.

Lemma comp_lcx_spec r c f : 0 < f -> 0 <= comp_lcx r c f < f.
Proof. intros Hf. unfold comp_lcx. cbv zeta. apply Z.mod_pos_bound. exact Hf. Qed.

Lemma comp_lcy_spec r c f : 0 < f -> 0 <= comp_lcy r c f < f.
Proof. intros Hf. unfold comp_lcy. cbv zeta. apply Z.mod_pos_bound. exact Hf. Qed.

Lemma comp_out_rows_spec nx ny : comp_out_rows nx ny = nx + 1.
Proof. reflexivity. Qed.
Lemma comp_out_cols_spec nx ny : comp_out_cols nx ny = ny + 1.
Proof. reflexivity. Qed.
Lemma comp_fill_rows_spec nx ny : comp_fill_rows nx ny = nx.
Proof. reflexivity. Qed.
Lemma comp_fill_cols_spec nx ny : comp_fill_cols nx ny = ny.
Proof. reflexivity. Qed.
Lemma comp_stride_rows_spec f : comp_stride_rows f = f.
Proof. reflexivity. Qed.
Lemma comp_stride_cols_spec f : comp_stride_cols f = f.
Proof. reflexivity. Qed.

Lemma comp_bn_spec f n1 n2 lx ly :
  comp_bn f n1 n2 lx ly =
  [("BN_CFAC", f); ("BN_NPX1", n1); ("BN_NPX2", n2); ("BN_RPX1", lx); ("BN_RPX2", ly)].
Proof. reflexivity. Qed.

Lemma compressed_keys_spec : compressed_keys = ["BN_CFAC"; "BN_NPX1"; "BN_NPX2"; "BN_RPX1"; "BN_RPX2"].
Proof. reflexivity. Qed.

(* expand deletes exactly the keywords that is_compressed tests *)
Lemma exp_deleted_spec k : existsb (String.eqb k) exp_deleted = existsb (String.eqb k) compressed_keys.
Proof. reflexivity. Qed.

Lemma exp_factor_key_spec : exp_factor_key = "BN_CFAC".
Proof. reflexivity. Qed.
(* the grid has BN_NPX2 rows and BN_NPX1 columns *)
Lemma exp_grid_rows_key_spec : exp_grid_rows_key = "BN_NPX2".
Proof. reflexivity. Qed.
Lemma exp_grid_cols_key_spec : exp_grid_cols_key = "BN_NPX1".
Proof. reflexivity. Qed.
(* the two residual keywords are read (crossed, which is harmless: both are < factor) *)
Lemma exp_lcx_key_spec : In exp_lcx_key ["BN_RPX1"; "BN_RPX2"].
Proof. cbn. tauto. Qed.
Lemma exp_lcy_key_spec : In exp_lcy_key ["BN_RPX1"; "BN_RPX2"].
Proof. cbn. tauto. Qed.

(* node k of either axis sits at k * factor whenever the residuals are smaller than the factor *)
Lemma exp_row_node_spec k lcx lcy f : 0 <= lcx < f -> 0 <= lcy < f -> exp_row_node k lcx lcy f = k * f.
Proof. intros H1 H2. unfold exp_row_node. rewrite Z.quot_small by assumption. lia. Qed.
Lemma exp_col_node_spec k lcx lcy f : 0 <= lcx < f -> 0 <= lcy < f -> exp_col_node k lcx lcy f = k * f.
Proof. intros H1 H2. unfold exp_col_node. rewrite Z.quot_small by assumption. lia. Qed.

Lemma scale_keys1_same : exp_scale_keys1 = comp_scale_keys1.
Proof. reflexivity. Qed.
Lemma scale_keys2_same : exp_scale_keys2 = comp_scale_keys2.
Proof. reflexivity. Qed.

(* the four rational cards that are rewritten are four different cards *)
Lemma scale_keys_distinct k1 k2 : In k1 comp_scale_keys1 -> In k2 comp_scale_keys2 ->
  k1 <> k2 /\ k1 <> "CRPIX1" /\ k1 <> "CRPIX2" /\ k2 <> "CRPIX1" /\ k2 <> "CRPIX2".
Proof.
  unfold comp_scale_keys1, comp_scale_keys2. cbn [In]. intros H1 H2.
  repeat match goal with H : _ \/ _ |- _ => destruct H | H : False |- _ => destruct H end;
    subst; repeat split; discriminate.
Qed.

Lemma scale_inv v f : ~ (f == 0)%Q -> (exp_scale (comp_scale v f) f == v)%Q.
Proof. intros N. unfold exp_scale, comp_scale. field. exact N. Qed.
Lemma crpix1_inv c f : ~ (f == 0)%Q -> (exp_crpix1 (comp_crpix1 c f) f == c)%Q.
Proof. intros N. unfold exp_crpix1, comp_crpix1. field. exact N. Qed.
Lemma crpix2_inv c f : ~ (f == 0)%Q -> (exp_crpix2 (comp_crpix2 c f) f == c)%Q.
Proof. intros N. unfold exp_crpix2, comp_crpix2. field. exact N. Qed.

Global Opaque comp_factor_ok comp_nx comp_ny comp_lcx comp_lcy comp_out_rows comp_out_cols
  comp_fill_rows comp_fill_cols comp_stride_rows comp_stride_cols comp_bn compressed_keys exp_deleted
  exp_factor_key exp_grid_rows_key exp_grid_cols_key exp_lcx_key exp_lcy_key exp_row_node exp_col_node
  exp_scale_keys1 exp_scale_keys2 comp_scale_keys1 comp_scale_keys2
  comp_scale exp_scale comp_crpix1 comp_crpix2 exp_crpix1 exp_crpix2.

(* ======================================================================================= *)
(* Part 2: structure *)

Definition option_Qeq (a b : option Q) : Prop :=
  match a, b with Some x, Some y => (x == y)%Q | None, None => True | _, _ => False end.

(* the input is a well-formed FITS image: NAXISn agree with the array, the cards that compress
   rewrites are present (one of CDELT1 / CD1_1, one of CDELT2 / CD2_2, CRPIX1, CRPIX2) *)
Definition rkw_ok (h : kws Q) : Prop :=
  (exists k, In k comp_scale_keys1 /\ khas k h = true) /\
  (exists k, In k comp_scale_keys2 /\ khas k h = true) /\
  khas "CRPIX1" h = true /\ khas "CRPIX2" h = true.

Definition wf (im : image) : Prop :=
  2 <= rows im /\ 2 <= cols im /\
  kget "NAXIS1" (ikw im) = Some (cols im) /\ kget "NAXIS2" (ikw im) = Some (rows im) /\
  rkw_ok (rkw im).

Definition same_keys (h h' : kws Q) : Prop := forall k, khas k h' = khas k h.

Lemma rkw_ok_same h h' : same_keys h h' -> rkw_ok h -> rkw_ok h'.
Proof.
  intros S ((k1 & I1 & H1) & (k2 & I2 & H2) & H3 & H4). unfold rkw_ok. rewrite !S.
  split; [exists k1; rewrite S; auto|]. split; [exists k2; rewrite S; auto|]. auto.
Qed.

Lemma scale_first_some keys g h h' : scale_first keys g h = Some h' ->
  exists k, In k keys /\ first_present keys h = Some k /\ kupd k g h = Some h'.
Proof.
  unfold scale_first. destruct (first_present keys h) as [k|] eqn:E; [|discriminate].
  intros H. exists k. destruct (first_present_in _ _ _ E). auto.
Qed.

Lemma scale_first_ok keys g h : (exists k, In k keys /\ khas k h = true) -> exists h', scale_first keys g h = Some h'.
Proof.
  intros (k & I & H). unfold scale_first.
  destruct (first_present_exists keys h k I H) as (k' & E). rewrite E.
  apply kupd_present. apply (first_present_in _ _ _ E).
Qed.

Lemma kupd_same_keys k g (h h' : kws Q) : kupd k g h = Some h' -> same_keys h h'.
Proof. intros H k'. exact (kupd_khas _ _ _ _ k' H). Qed.

Lemma same_keys_trans h1 h2 h3 : same_keys h1 h2 -> same_keys h2 h3 -> same_keys h1 h3.
Proof. intros A B k. rewrite B, A. reflexivity. Qed.

(* the four updates of one pass over the rational cards, as equations on look-ups *)
Definition upd_eq (k : string) (g : Q -> Q) (h h' : kws Q) : Prop :=
  forall k', kget k' h' = if String.eqb k' k then option_map g (kget k' h) else kget k' h.

Lemma kupd_upd_eq k g h h' : kupd k g h = Some h' -> upd_eq k g h h'.
Proof. intros H. exact (proj2 (kupd_some _ _ _ _ H)). Qed.

Lemma compress_rkw_some h fq h' : compress_rkw h fq = Some h' ->
  exists K1 K2 h1 h2 h3,
    In K1 comp_scale_keys1 /\ In K2 comp_scale_keys2 /\
    first_present comp_scale_keys1 h = Some K1 /\ first_present comp_scale_keys2 h = Some K2 /\
    upd_eq K1 (fun v => comp_scale v fq) h h1 /\ upd_eq K2 (fun v => comp_scale v fq) h1 h2 /\
    upd_eq "CRPIX1" (fun c => comp_crpix1 c fq) h2 h3 /\ upd_eq "CRPIX2" (fun c => comp_crpix2 c fq) h3 h' /\
    same_keys h h'.
Proof.
  unfold compress_rkw, obind.
  destruct (scale_first comp_scale_keys1 _ h) as [h1|] eqn:E1; [|discriminate].
  destruct (scale_first comp_scale_keys2 _ h1) as [h2|] eqn:E2; [|discriminate].
  destruct (kupd "CRPIX1" _ h2) as [h3|] eqn:E3; [|discriminate].
  intros E4.
  destruct (scale_first_some _ _ _ _ E1) as (K1 & I1 & F1 & U1).
  destruct (scale_first_some _ _ _ _ E2) as (K2 & I2 & F2 & U2).
  pose proof (kupd_same_keys _ _ _ _ U1) as S1. pose proof (kupd_same_keys _ _ _ _ U2) as S2.
  pose proof (kupd_same_keys _ _ _ _ E3) as S3. pose proof (kupd_same_keys _ _ _ _ E4) as S4.
  exists K1, K2, h1, h2, h3. repeat split; try assumption.
  - rewrite <- F2. symmetry. apply first_present_ext. exact S1.
  - apply kupd_upd_eq; assumption.
  - apply kupd_upd_eq; assumption.
  - apply kupd_upd_eq; assumption.
  - apply kupd_upd_eq; assumption.
  - intros k. rewrite S4, S3, S2, S1. reflexivity.
Qed.

Lemma expand_rkw_some h fq h' : expand_rkw h fq = Some h' ->
  exists K1 K2 h1 h2 h3,
    first_present comp_scale_keys1 h = Some K1 /\ first_present comp_scale_keys2 h = Some K2 /\
    upd_eq "CRPIX1" (fun c => exp_crpix1 c fq) h h1 /\ upd_eq "CRPIX2" (fun c => exp_crpix2 c fq) h1 h2 /\
    upd_eq K1 (fun v => exp_scale v fq) h2 h3 /\ upd_eq K2 (fun v => exp_scale v fq) h3 h' /\
    same_keys h h'.
Proof.
  unfold expand_rkw, obind. rewrite scale_keys1_same, scale_keys2_same.
  destruct (kupd "CRPIX1" _ h) as [h1|] eqn:E1; [|discriminate].
  destruct (kupd "CRPIX2" _ h1) as [h2|] eqn:E2; [|discriminate].
  destruct (scale_first comp_scale_keys1 _ h2) as [h3|] eqn:E3; [|discriminate].
  intros E4.
  destruct (scale_first_some _ _ _ _ E3) as (K1 & I1 & F1 & U1).
  destruct (scale_first_some _ _ _ _ E4) as (K2 & I2 & F2 & U2).
  pose proof (kupd_same_keys _ _ _ _ E1) as S1. pose proof (kupd_same_keys _ _ _ _ E2) as S2.
  pose proof (kupd_same_keys _ _ _ _ U1) as S3. pose proof (kupd_same_keys _ _ _ _ U2) as S4.
  exists K1, K2, h1, h2, h3. repeat split.
  - rewrite <- F1. symmetry. apply first_present_ext. intros k. rewrite S2, S1. reflexivity.
  - rewrite <- F2. symmetry. apply first_present_ext. intros k. rewrite S3, S2, S1. reflexivity.
  - apply kupd_upd_eq; assumption.
  - apply kupd_upd_eq; assumption.
  - apply kupd_upd_eq; assumption.
  - apply kupd_upd_eq; assumption.
  - intros k. rewrite S4, S3, S2, S1. reflexivity.
Qed.

Lemma compress_rkw_ok h fq : rkw_ok h -> exists h', compress_rkw h fq = Some h'.
Proof.
  intros ((k1 & I1 & H1) & (k2 & I2 & H2) & H3 & H4). unfold compress_rkw, obind.
  destruct (scale_first_ok comp_scale_keys1 (fun v => comp_scale v fq) h) as (h1 & E1); [eauto|].
  rewrite E1.
  destruct (scale_first_some _ _ _ _ E1) as (K1 & _ & _ & U1).
  pose proof (kupd_same_keys _ _ _ _ U1) as S1.
  destruct (scale_first_ok comp_scale_keys2 (fun v => comp_scale v fq) h1) as (h2 & E2).
  { exists k2. rewrite S1. auto. }
  rewrite E2.
  destruct (scale_first_some _ _ _ _ E2) as (K2 & _ & _ & U2).
  pose proof (kupd_same_keys _ _ _ _ U2) as S2.
  destruct (kupd_present "CRPIX1" (fun c => comp_crpix1 c fq) h2) as (h3 & E3).
  { rewrite S2, S1. exact H3. }
  rewrite E3. pose proof (kupd_same_keys _ _ _ _ E3) as S3.
  apply kupd_present. rewrite S3, S2, S1. exact H4.
Qed.

Lemma expand_rkw_ok h fq : rkw_ok h -> exists h', expand_rkw h fq = Some h'.
Proof.
  intros ((k1 & I1 & H1) & (k2 & I2 & H2) & H3 & H4). unfold expand_rkw, obind.
  rewrite scale_keys1_same, scale_keys2_same.
  destruct (kupd_present "CRPIX1" (fun c => exp_crpix1 c fq) h H3) as (h1 & E1).
  rewrite E1. pose proof (kupd_same_keys _ _ _ _ E1) as S1.
  destruct (kupd_present "CRPIX2" (fun c => exp_crpix2 c fq) h1) as (h2 & E2).
  { rewrite S1. exact H4. }
  rewrite E2. pose proof (kupd_same_keys _ _ _ _ E2) as S2.
  destruct (scale_first_ok comp_scale_keys1 (fun v => exp_scale v fq) h2) as (h3 & E3).
  { exists k1. rewrite S2, S1. auto. }
  rewrite E3.
  destruct (scale_first_some _ _ _ _ E3) as (K1 & _ & _ & U1).
  pose proof (kupd_same_keys _ _ _ _ U1) as S3.
  apply scale_first_ok. exists k2. rewrite S3, S2, S1. auto.
Qed.

(* ceiling division, as numpy computes len(data[::s]) *)
Lemma slice_len_unique c s n : 0 < s -> (n - 1) * s < c <= n * s -> slice_len c s = n.
Proof.
  intros Hs H. unfold slice_len. symmetry.
  apply Z.div_unique with (r := c + s - 1 - s * n); lia.
Qed.

Lemma compress_inv im f c : compress im f = Some c ->
  0 < f /\
  rows c = comp_nx (rows im) (cols im) f + 1 /\ cols c = comp_ny (rows im) (cols im) f + 1 /\
  pix c = compress_pix im f /\
  compress_rkw (rkw im) (inject_Z f) = Some (rkw c) /\
  exists n1 n2, kget "NAXIS1" (ikw im) = Some n1 /\ kget "NAXIS2" (ikw im) = Some n2 /\
                ikw c = compress_ikw im f n1 n2.
Proof.
  unfold compress.
  destruct (comp_factor_ok f) eqn:G; cbn [negb]; [|discriminate].
  match goal with |- (if negb ?b then _ else _) = _ -> _ => destruct b; cbn [negb]; [|discriminate] end.
  unfold obind.
  destruct (compress_rkw (rkw im) (inject_Z f)) as [r|]; [|discriminate].
  destruct (kget "NAXIS1" (ikw im)) as [n1|]; [|discriminate].
  destruct (kget "NAXIS2" (ikw im)) as [n2|]; [|discriminate].
  intros H. injection H as <-. cbn [rows cols pix ikw rkw].
  rewrite comp_out_rows_spec, comp_out_cols_spec.
  apply comp_factor_ok_spec in G.
  repeat split; try reflexivity; try assumption. exists n1, n2. auto.
Qed.

Lemma compress_ok im f : wf im -> 1 <= f -> exists c, compress im f = Some c.
Proof.
  intros (Hr & Hc & N1 & N2 & RK) Hf. unfold compress.
  assert (G : comp_factor_ok f = true) by (apply comp_factor_ok_spec; lia).
  rewrite G. cbn [negb].
  rewrite (comp_stride_rows_spec f), (comp_stride_cols_spec f), (comp_fill_rows_spec (comp_nx (rows im) (cols im) f) (comp_ny (rows im) (cols im) f)),
    (comp_fill_cols_spec (comp_nx (rows im) (cols im) f) (comp_ny (rows im) (cols im) f)), (comp_out_rows_spec (comp_nx (rows im) (cols im) f) (comp_ny (rows im) (cols im) f)), (comp_out_cols_spec (comp_nx (rows im) (cols im) f) (comp_ny (rows im) (cols im) f)).
  rewrite (slice_len_unique (rows im) f (comp_nx (rows im) (cols im) f)) by (try apply comp_nx_spec; lia).
  rewrite (slice_len_unique (cols im) f (comp_ny (rows im) (cols im) f)) by (try apply comp_ny_spec; lia).
  rewrite !Z.min_l by lia. rewrite !Z.eqb_refl. cbn [andb negb].
  destruct (compress_rkw_ok (rkw im) (inject_Z f) RK) as (r & E). rewrite E, N1, N2. cbn [obind].
  eauto.
Qed.

(* look-ups in the integer cards written by compress *)
Lemma compress_ikw_get im f n1 n2 k :
  kget k (compress_ikw im f n1 n2) =
  if String.eqb k "NAXIS2" then Some (comp_nx (rows im) (cols im) f + 1)
  else if String.eqb k "NAXIS1" then Some (comp_ny (rows im) (cols im) f + 1)
  else if String.eqb k "BN_RPX2" then Some (comp_lcy (rows im) (cols im) f)
  else if String.eqb k "BN_RPX1" then Some (comp_lcx (rows im) (cols im) f)
  else if String.eqb k "BN_NPX2" then Some n2
  else if String.eqb k "BN_NPX1" then Some n1
  else if String.eqb k "BN_CFAC" then Some f
  else kget k (ikw im).
Proof.
  unfold compress_ikw. rewrite comp_bn_spec, comp_out_rows_spec, comp_out_cols_spec.
  unfold ksetall. cbn [fold_left fst snd]. rewrite !kget_kset. reflexivity.
Qed.

Lemma compress_is_compressed im f n1 n2 : is_compressed (compress_ikw im f n1 n2) = true.
Proof.
  unfold is_compressed. rewrite compressed_keys_spec. cbn [forallb]. unfold khas.
  rewrite !compress_ikw_get. reflexivity.
Qed.

Lemma expand_ikw_get h R C k :
  kget k (expand_ikw h R C) =
  if String.eqb k "NAXIS2" then Some R
  else if String.eqb k "NAXIS1" then Some C
  else if existsb (String.eqb k) compressed_keys then None else kget k h.
Proof. unfold expand_ikw. rewrite !kget_kset, kget_kdelall, exp_deleted_spec. reflexivity. Qed.

(* the node axes that expand hands to the interpolator (any residual keywords smaller than the factor) *)
Lemma node_axes r c f lcx lcy : 1 <= r -> 1 <= c -> 1 <= f -> 0 <= lcx < f -> 0 <= lcy < f ->
  let nr := comp_out_rows (comp_nx r c f) (comp_ny r c f) in
  let nc := comp_out_cols (comp_nx r c f) (comp_ny r c f) in
  (2 <= nr /\ (forall k, 0 <= k -> k + 1 < nr -> exp_row_node k lcx lcy f < exp_row_node (k + 1) lcx lcy f) /\
   exp_row_node 0 lcx lcy f <= 0 /\ r - 1 <= exp_row_node (nr - 1) lcx lcy f) /\
  (2 <= nc /\ (forall k, 0 <= k -> k + 1 < nc -> exp_col_node k lcx lcy f < exp_col_node (k + 1) lcx lcy f) /\
   exp_col_node 0 lcx lcy f <= 0 /\ c - 1 <= exp_col_node (nc - 1) lcx lcy f).
Proof.
  intros Hr Hc Hf B1 B2. cbv zeta.
  rewrite (comp_out_rows_spec (comp_nx r c f) (comp_ny r c f)), (comp_out_cols_spec (comp_nx r c f) (comp_ny r c f)).
  pose proof (comp_nx_spec r c f ltac:(lia)) as NX. pose proof (comp_ny_spec r c f ltac:(lia)) as NY.
  split.
  - split; [nia|]. split; [|split].
    + intros k K0 K1. rewrite !exp_row_node_spec by assumption. nia.
    + rewrite exp_row_node_spec by assumption. lia.
    + rewrite exp_row_node_spec by assumption. nia.
  - split; [nia|]. split; [|split].
    + intros k K0 K1. rewrite !exp_col_node_spec by assumption. nia.
    + rewrite exp_col_node_spec by assumption. lia.
    + rewrite exp_col_node_spec by assumption. nia.
Qed.

Definition rnode (lcx lcy f : Z) : Z -> Q := fun k => inject_Z (exp_row_node k lcx lcy f).
Definition cnode (lcx lcy f : Z) : Z -> Q := fun k => inject_Z (exp_col_node k lcx lcy f).

Section WithInterpolator.
Variable rgi : interpolator.

Lemma expand_inv c e : is_compressed (ikw c) = true -> expand rgi c = Some e ->
  exists f R C lcx lcy,
    kget exp_factor_key (ikw c) = Some f /\ kget exp_grid_rows_key (ikw c) = Some R /\
    kget exp_grid_cols_key (ikw c) = Some C /\ kget exp_lcx_key (ikw c) = Some lcx /\
    kget exp_lcy_key (ikw c) = Some lcy /\
    axis_ok (rnode lcx lcy f) (rows c) 0%Q (inject_Z (R - 1)) = true /\
    axis_ok (cnode lcx lcy f) (cols c) 0%Q (inject_Z (C - 1)) = true /\
    expand_rkw (rkw c) (inject_Z f) = Some (rkw e) /\
    rows e = R /\ cols e = C /\ ikw e = expand_ikw (ikw c) R C /\
    forall x y, pix e x y = rgi (rnode lcx lcy f) (rows c) (cnode lcx lcy f) (cols c) (pix c)
                                (inject_Z x) (inject_Z y).
Proof.
  intros IC. unfold expand. rewrite IC. cbn [negb]. unfold obind.
  destruct (kget exp_factor_key (ikw c)) as [f|]; [|discriminate].
  destruct (kget exp_grid_rows_key (ikw c)) as [R|]; [|discriminate].
  destruct (kget exp_grid_cols_key (ikw c)) as [C|]; [|discriminate].
  destruct (kget exp_lcx_key (ikw c)) as [lcx|]; [|discriminate].
  destruct (kget exp_lcy_key (ikw c)) as [lcy|]; [|discriminate].
  fold (rnode lcx lcy f). fold (cnode lcx lcy f).
  destruct (axis_ok (rnode lcx lcy f) (rows c) 0%Q (inject_Z (R - 1))) eqn:A1; cbn [andb negb]; [|discriminate].
  destruct (axis_ok (cnode lcx lcy f) (cols c) 0%Q (inject_Z (C - 1))) eqn:A2; cbn [andb negb]; [|discriminate].
  destruct (expand_rkw (rkw c) (inject_Z f)) as [r|] eqn:ER; [|discriminate].
  intros H. injection H as <-. cbn [rows cols pix ikw rkw].
  exists f, R, C, lcx, lcy. repeat split; try reflexivity; assumption.
Qed.

(* ======================================================================================= *)
(* Part 3: the property *)

Lemma rnode_eq lcx lcy f k : 0 <= lcx < f -> 0 <= lcy < f -> rnode lcx lcy f k = inject_Z (k * f).
Proof. intros. unfold rnode. rewrite exp_row_node_spec by assumption. reflexivity. Qed.
Lemma cnode_eq lcx lcy f k : 0 <= lcx < f -> 0 <= lcy < f -> cnode lcx lcy f k = inject_Z (k * f).
Proof. intros. unfold cnode. rewrite exp_col_node_spec by assumption. reflexivity. Qed.

(* an axis with nodes k * f, k = 0 .. n, where n = ceil(c / f): strictly increasing, starts at 0 and
   reaches beyond the last pixel c - 1 - also when f > c *)
Lemma axis_nodes_ok (g : Z -> Q) f c n : 0 < f -> 1 <= c -> (n - 1) * f < c <= n * f ->
  (forall k, g k = inject_Z (k * f)) ->
  2 <= n + 1 /\ increasing g (n + 1) /\ (g 0%Z <= 0)%Q /\ (inject_Z (c - 1) <= g (n + 1 - 1)%Z)%Q.
Proof.
  intros Hf Hc Hn G. split; [nia|]. split; [|split].
  - intros k K0 K1. rewrite !G. rewrite <- Zlt_Qlt. nia.
  - rewrite G. apply Qle_refl.
  - rewrite G. rewrite <- Zle_Qle. nia.
Qed.

Lemma row_src_node im f i : 0 <= i < comp_nx (rows im) (cols im) f -> row_src im f i = Some (i * f).
Proof.
  intros Hi. unfold row_src, src_idx. cbv zeta.
  rewrite (comp_stride_rows_spec f), (comp_fill_rows_spec (comp_nx (rows im) (cols im) f) (comp_ny (rows im) (cols im) f)),
    (comp_out_rows_spec (comp_nx (rows im) (cols im) f) (comp_ny (rows im) (cols im) f)).
  destruct (Z.eqb_spec i (comp_nx (rows im) (cols im) f + 1 - 1)); [lia|].
  destruct (Z.ltb_spec i (comp_nx (rows im) (cols im) f)); [reflexivity|lia].
Qed.

Lemma col_src_node im f j : 0 <= j < comp_ny (rows im) (cols im) f -> col_src im f j = Some (j * f).
Proof.
  intros Hj. unfold col_src, src_idx. cbv zeta.
  rewrite (comp_stride_cols_spec f), (comp_fill_cols_spec (comp_nx (rows im) (cols im) f) (comp_ny (rows im) (cols im) f)),
    (comp_out_cols_spec (comp_nx (rows im) (cols im) f) (comp_ny (rows im) (cols im) f)).
  destruct (Z.eqb_spec j (comp_ny (rows im) (cols im) f + 1 - 1)); [lia|].
  destruct (Z.ltb_spec j (comp_ny (rows im) (cols im) f)); [reflexivity|lia].
Qed.

Lemma row_src_in im f i : 0 < f -> 1 <= rows im -> 0 <= i < comp_nx (rows im) (cols im) f + 1 ->
  exists a, row_src im f i = Some a /\ 0 <= a < rows im.
Proof.
  intros Hf Hr Hi. pose proof (comp_nx_spec (rows im) (cols im) f Hf) as NX.
  unfold row_src, src_idx. cbv zeta.
  rewrite (comp_stride_rows_spec f), (comp_fill_rows_spec (comp_nx (rows im) (cols im) f) (comp_ny (rows im) (cols im) f)),
    (comp_out_rows_spec (comp_nx (rows im) (cols im) f) (comp_ny (rows im) (cols im) f)).
  destruct (Z.eqb_spec i (comp_nx (rows im) (cols im) f + 1 - 1)); [eexists; split; [reflexivity|lia]|].
  destruct (Z.ltb_spec i (comp_nx (rows im) (cols im) f)); [|lia].
  eexists; split; [reflexivity|nia].
Qed.

Lemma col_src_in im f j : 0 < f -> 1 <= cols im -> 0 <= j < comp_ny (rows im) (cols im) f + 1 ->
  exists b, col_src im f j = Some b /\ 0 <= b < cols im.
Proof.
  intros Hf Hc Hj. pose proof (comp_ny_spec (rows im) (cols im) f Hf) as NY.
  unfold col_src, src_idx. cbv zeta.
  rewrite (comp_stride_cols_spec f), (comp_fill_cols_spec (comp_nx (rows im) (cols im) f) (comp_ny (rows im) (cols im) f)),
    (comp_out_cols_spec (comp_nx (rows im) (cols im) f) (comp_ny (rows im) (cols im) f)).
  destruct (Z.eqb_spec j (comp_ny (rows im) (cols im) f + 1 - 1)); [eexists; split; [reflexivity|lia]|].
  destruct (Z.ltb_spec j (comp_ny (rows im) (cols im) f)); [|lia].
  eexists; split; [reflexivity|nia].
Qed.

(* the pixel that compress keeps at node (i, j) of the decimation grid is the image pixel (i f, j f) *)
Lemma compress_pix_node im f i j :
  0 <= i < comp_nx (rows im) (cols im) f -> 0 <= j < comp_ny (rows im) (cols im) f ->
  compress_pix im f i j = pix im (i * f) (j * f).
Proof.
  intros Hi Hj. unfold compress_pix. rewrite row_src_node, col_src_node by assumption. reflexivity.
Qed.

(* every compressed sample is a pixel of the image *)
Lemma compress_pix_from_image im f i j : 0 < f -> 1 <= rows im -> 1 <= cols im ->
  0 <= i < comp_nx (rows im) (cols im) f + 1 -> 0 <= j < comp_ny (rows im) (cols im) f + 1 ->
  exists a b, 0 <= a < rows im /\ 0 <= b < cols im /\ compress_pix im f i j = pix im a b.
Proof.
  intros Hf Hr Hc Hi Hj. unfold compress_pix.
  destruct (row_src_in im f i Hf Hr Hi) as (a & -> & Ha).
  destruct (col_src_in im f j Hf Hc Hj) as (b & -> & Hb).
  exists a, b. auto.
Qed.

(* decide comparisons of literal keywords *)
Ltac eqb_str :=
  repeat match goal with
  | |- context [String.eqb ?a ?b] =>
      let v := eval vm_compute in (String.eqb a b) in change (String.eqb a b) with v
  end; cbv beta iota.

Lemma existsb_eqb_false k l : ~ In k l -> existsb (String.eqb k) l = false.
Proof.
  induction l as [|a l IH]; cbn [existsb In]; intros N; [reflexivity|].
  destruct (String.eqb_spec k a) as [->|_]; [exfalso; auto|]. apply IH. tauto.
Qed.

(* what a successful round trip looks like *)
Lemma roundtrip_inv im f c e : wf im -> compress im f = Some c -> expand rgi c = Some e ->
  0 < f /\
  rows c = comp_nx (rows im) (cols im) f + 1 /\ cols c = comp_ny (rows im) (cols im) f + 1 /\
  pix c = compress_pix im f /\
  ikw c = compress_ikw im f (cols im) (rows im) /\
  compress_rkw (rkw im) (inject_Z f) = Some (rkw c) /\
  expand_rkw (rkw c) (inject_Z f) = Some (rkw e) /\
  rows e = rows im /\ cols e = cols im /\
  ikw e = expand_ikw (compress_ikw im f (cols im) (rows im)) (rows im) (cols im) /\
  exists lcx lcy, 0 <= lcx < f /\ 0 <= lcy < f /\
    forall x y, pix e x y = rgi (rnode lcx lcy f) (rows c) (cnode lcx lcy f) (cols c) (pix c)
                                (inject_Z x) (inject_Z y).
Proof.
  intros (Hr & Hc & N1 & N2 & RK) HC HE.
  destruct (compress_inv _ _ _ HC) as (Hf & Rc & Cc & Pc & RKc & n1 & n2 & E1 & E2 & Ic).
  rewrite N1 in E1. rewrite N2 in E2. injection E1 as <-. injection E2 as <-.
  assert (IC : is_compressed (ikw c) = true) by (rewrite Ic; apply compress_is_compressed).
  destruct (expand_inv c e IC HE) as (f' & R & C & lcx & lcy & G1 & G2 & G3 & G4 & G5 & _ & _ & ER & Re & Ce & Ie & Pe).
  rewrite Ic in G1, G2, G3, G4, G5. rewrite compress_ikw_get in G1, G2, G3, G4, G5.
  rewrite exp_factor_key_spec in G1. rewrite exp_grid_rows_key_spec in G2. rewrite exp_grid_cols_key_spec in G3.
  cbn in G1, G2, G3. injection G1 as <-. injection G2 as <-. injection G3 as <-.
  pose proof (comp_lcx_spec (rows im) (cols im) f Hf) as LX.
  pose proof (comp_lcy_spec (rows im) (cols im) f Hf) as LY.
  assert (B4 : 0 <= lcx < f).
  { destruct exp_lcx_key_spec as [K|[K|[]]]; rewrite <- K in G4; cbn in G4; injection G4 as <-; assumption. }
  assert (B5 : 0 <= lcy < f).
  { destruct exp_lcy_key_spec as [K|[K|[]]]; rewrite <- K in G5; cbn in G5; injection G5 as <-; assumption. }
  repeat split; try assumption; try (rewrite <- Ic; assumption).
  exists lcx, lcy. repeat split; try lia. exact Pe.
Qed.

Lemma roundtrip_ok im f : wf im -> 1 <= f -> exists c e, compress im f = Some c /\ expand rgi c = Some e.
Proof.
  intros W Hf. destruct (compress_ok im f W Hf) as (c & HC). exists c.
  destruct W as (Hr & Hc & N1 & N2 & RK).
  destruct (compress_inv _ _ _ HC) as (Hf' & Rc & Cc & Pc & RKc & n1 & n2 & E1 & E2 & Ic).
  rewrite N1 in E1. rewrite N2 in E2. injection E1 as <-. injection E2 as <-.
  pose proof (comp_lcx_spec (rows im) (cols im) f Hf') as LX.
  pose proof (comp_lcy_spec (rows im) (cols im) f Hf') as LY.
  unfold expand. rewrite Ic, compress_is_compressed. cbn [negb].
  assert (exists lcx, kget exp_lcx_key (compress_ikw im f (cols im) (rows im)) = Some lcx /\ 0 <= lcx < f) as (lcx & -> & B4).
  { rewrite compress_ikw_get. destruct exp_lcx_key_spec as [K|[K|[]]]; rewrite <- K; cbn; eauto. }
  assert (exists lcy, kget exp_lcy_key (compress_ikw im f (cols im) (rows im)) = Some lcy /\ 0 <= lcy < f) as (lcy & -> & B5).
  { rewrite compress_ikw_get. destruct exp_lcy_key_spec as [K|[K|[]]]; rewrite <- K; cbn; eauto. }
  rewrite exp_factor_key_spec, exp_grid_rows_key_spec, exp_grid_cols_key_spec.
  rewrite !compress_ikw_get. eqb_str. unfold obind at 1 2 3 4 5.
  fold (rnode lcx lcy f). fold (cnode lcx lcy f).
  assert (A1 : axis_ok (rnode lcx lcy f) (rows c) 0%Q (inject_Z (rows im - 1)) = true).
  { rewrite Rc. apply axis_ok_iff.
    apply (axis_nodes_ok _ f (rows im)); try lia; [apply comp_nx_spec; lia|].
    intros k. apply rnode_eq; assumption. }
  assert (A2 : axis_ok (cnode lcx lcy f) (cols c) 0%Q (inject_Z (cols im - 1)) = true).
  { rewrite Cc. apply axis_ok_iff.
    apply (axis_nodes_ok _ f (cols im)); try lia; [apply comp_ny_spec; lia|].
    intros k. apply cnode_eq; assumption. }
  rewrite A1, A2. cbn [andb negb].
  destruct (compress_rkw_some _ _ _ RKc) as (_ & _ & _ & _ & _ & _ & _ & _ & _ & _ & _ & _ & _ & SK).
  destruct (expand_rkw_ok (rkw c) (inject_Z f) (rkw_ok_same _ _ SK RK)) as (r & ->).
  cbn [obind]. eauto.
Qed.

Section RoundTrip.
Hypothesis Hrgi : rgi_spec rgi.
Variables (im c e : image) (f : Z).
Hypothesis W : wf im.
Hypothesis HC : compress im f = Some c.
Hypothesis HE : expand rgi c = Some e.

Let nx := comp_nx (rows im) (cols im) f.
Let ny := comp_ny (rows im) (cols im) f.

Lemma rt_shape : rows e = rows im /\ cols e = cols im /\
  kget "NAXIS1" (ikw e) = Some (cols im) /\ kget "NAXIS2" (ikw e) = Some (rows im).
Proof.
  destruct (roundtrip_inv im f c e W HC HE) as (_ & _ & _ & _ & _ & _ & _ & Re & Ce & Ie & _).
  rewrite Ie, !expand_ikw_get. cbn. auto.
Qed.

Lemma rt_keywords_removed :
  is_compressed (ikw e) = false /\ (forall k, In k compressed_keys -> kget k (ikw e) = None) /\
  (forall k, ~ In k compressed_keys -> kget k (ikw e) = kget k (ikw im)).
Proof.
  destruct (roundtrip_inv im f c e W HC HE) as (_ & _ & _ & _ & _ & _ & _ & _ & _ & Ie & _).
  destruct W as (_ & _ & N1 & N2 & _).
  split; [|split].
  - unfold is_compressed. rewrite compressed_keys_spec. cbn [forallb]. unfold khas.
    rewrite Ie, !expand_ikw_get, compressed_keys_spec. reflexivity.
  - intros k. rewrite Ie, expand_ikw_get, compressed_keys_spec. cbn [In].
    intros H. repeat (destruct H as [<-|H]; [reflexivity|]). destruct H.
  - intros k NI. rewrite Ie, expand_ikw_get, (existsb_eqb_false _ _ NI).
    destruct (String.eqb_spec k "NAXIS2") as [->|D2]; [symmetry; exact N2|].
    destruct (String.eqb_spec k "NAXIS1") as [->|D1]; [symmetry; exact N1|].
    rewrite compress_ikw_get. rewrite compressed_keys_spec in NI. cbn [In] in NI.
    repeat match goal with |- context [String.eqb k ?s] =>
      destruct (String.eqb_spec k s) as [->|?]; [exfalso; tauto || congruence|] end.
    reflexivity.
Qed.

Lemma rt_wcs k : option_Qeq (kget k (rkw e)) (kget k (rkw im)).
Proof.
  destruct (roundtrip_inv im f c e W HC HE) as (Hf & _ & _ & _ & _ & RKc & RKe & _).
  destruct (compress_rkw_some _ _ _ RKc) as (K1 & K2 & h1 & h2 & h3 & I1 & I2 & F1 & F2 & U1 & U2 & U3 & U4 & SK).
  destruct (expand_rkw_some _ _ _ RKe) as (K1' & K2' & g1 & g2 & g3 & F1' & F2' & V1 & V2 & V3 & V4 & _).
  rewrite (first_present_ext comp_scale_keys1 _ _ SK), F1 in F1'. injection F1' as <-.
  rewrite (first_present_ext comp_scale_keys2 _ _ SK), F2 in F2'. injection F2' as <-.
  destruct (scale_keys_distinct K1 K2 I1 I2) as (D12 & D13 & D14 & D23 & D24).
  assert (NZ : ~ (inject_Z f == 0)%Q).
  { intros ZZ. assert (f = 0) by (apply inject_Z_injective; exact ZZ). lia. }
  rewrite V4, V3, V2, V1, U4, U3, U2, U1.
  destruct (String.eqb_spec k K2) as [E2|N2]; destruct (String.eqb_spec k K1) as [E1|N1];
    try (exfalso; congruence);
    destruct (String.eqb_spec k "CRPIX2") as [E4|N4]; try (exfalso; congruence);
    destruct (String.eqb_spec k "CRPIX1") as [E3|N3]; try (exfalso; congruence);
    destruct (kget k (rkw im)) as [v|]; cbn [option_map option_Qeq]; try exact I;
    try (apply scale_inv; exact NZ); try (apply crpix1_inv; exact NZ); try (apply crpix2_inv; exact NZ);
    try reflexivity.
Qed.

Lemma rt_cells : 0 < f /\ (nx - 1) * f < rows im <= nx * f /\ (ny - 1) * f < cols im <= ny * f.
Proof.
  destruct (roundtrip_inv im f c e W HC HE) as (Hf & _). split; [exact Hf|].
  split; [apply comp_nx_spec|apply comp_ny_spec]; exact Hf.
Qed.

(* the value of the expanded image at a pixel that lies in cell (i, j) of the decimation grid *)
Lemma rt_pix_cell x y i j :
  0 <= i < nx -> 0 <= j < ny -> i * f <= x <= (i + 1) * f -> j * f <= y <= (j + 1) * f ->
  (pix e x y == cell_value (fun k => inject_Z (k * f)) (fun k => inject_Z (k * f)) (compress_pix im f) i j
                           (inject_Z x) (inject_Z y))%Q.
Proof.
  intros Hi Hj Hx Hy.
  destruct (roundtrip_inv im f c e W HC HE) as (Hf & Rc & Cc & Pc & _ & _ & _ & _ & _ & _ & lcx & lcy & B4 & B5 & Pe).
  rewrite Pe, Pc, Rc, Cc. fold nx. fold ny.
  assert (IR : increasing (rnode lcx lcy f) (nx + 1)).
  { intros k K0 K1. rewrite !rnode_eq by assumption. rewrite <- Zlt_Qlt. nia. }
  assert (IC : increasing (cnode lcx lcy f) (ny + 1)).
  { intros k K0 K1. rewrite !cnode_eq by assumption. rewrite <- Zlt_Qlt. nia. }
  rewrite (Hrgi _ _ _ _ _ _ _ i j IR IC).
  - unfold cell_value. rewrite !rnode_eq, !cnode_eq by assumption. reflexivity.
  - unfold in_cell. rewrite !rnode_eq by assumption. rewrite <- !Zle_Qle. lia.
  - unfold in_cell. rewrite !cnode_eq by assumption. rewrite <- !Zle_Qle. lia.
Qed.

Lemma node_lt a b : 0 < f -> a < b -> (inject_Z (a * f) < inject_Z (b * f))%Q.
Proof. intros Hf H. rewrite <- Zlt_Qlt. nia. Qed.

(* exact at every node of the decimation grid that lies inside the image *)
Lemma rt_nodes_exact i j : 0 <= i -> 0 <= j -> i * f < rows im -> j * f < cols im ->
  (pix e (i * f) (j * f) == pix im (i * f) (j * f))%Q.
Proof.
  intros Hi Hj Hx Hy. destruct rt_cells as (Hf & NX & NY).
  assert (I : 0 <= i < nx) by nia. assert (J : 0 <= j < ny) by nia.
  rewrite (rt_pix_cell (i * f) (j * f) i j I J) by lia.
  rewrite cell_value_corner; try reflexivity; try (apply node_lt; lia).
  rewrite compress_pix_node by assumption. reflexivity.
Qed.

(* every pixel of the expanded image lies within the range of the compressed samples *)
Lemma rt_in_range lo hi :
  (forall i j, 0 <= i < rows c -> 0 <= j < cols c -> (lo <= pix c i j)%Q /\ (pix c i j <= hi)%Q) ->
  forall x y, 0 <= x < rows e -> 0 <= y < cols e -> (lo <= pix e x y)%Q /\ (pix e x y <= hi)%Q.
Proof.
  intros HV x y Hx Hy. destruct rt_cells as (Hf & NX & NY).
  destruct (roundtrip_inv im f c e W HC HE) as (_ & Rc & Cc & Pc & _ & _ & _ & Re & Ce & _).
  rewrite Re in Hx. rewrite Ce in Hy. rewrite Rc, Cc, Pc in HV. fold nx in HV. fold ny in HV.
  pose proof (Z.div_mod x f ltac:(lia)) as DX. pose proof (Z.mod_pos_bound x f Hf) as BX.
  pose proof (Z.div_mod y f ltac:(lia)) as DY. pose proof (Z.mod_pos_bound y f Hf) as BY.
  assert (I : 0 <= x / f < nx) by (split; [apply Z.div_pos; lia|nia]).
  assert (J : 0 <= y / f < ny) by (split; [apply Z.div_pos; lia|nia]).
  rewrite (rt_pix_cell x y (x / f) (y / f) I J) by nia.
  apply cell_value_range; try (apply node_lt; lia); try (rewrite <- Zle_Qle; nia).
  intros a b Ha Hb. apply HV; lia.
Qed.

(* the compressed samples are pixels of the image, so the expanded image stays within the range
   of the image as well *)
Lemma rt_in_image_range lo hi :
  (forall a b, 0 <= a < rows im -> 0 <= b < cols im -> (lo <= pix im a b)%Q /\ (pix im a b <= hi)%Q) ->
  forall x y, 0 <= x < rows e -> 0 <= y < cols e -> (lo <= pix e x y)%Q /\ (pix e x y <= hi)%Q.
Proof.
  intros HV. apply rt_in_range. intros i j Hi Hj.
  destruct (roundtrip_inv im f c e W HC HE) as (Hf & Rc & Cc & Pc & _).
  destruct W as (Hr & Hc & _).
  rewrite Rc in Hi. rewrite Cc in Hj. rewrite Pc.
  destruct (compress_pix_from_image im f i j Hf ltac:(lia) ltac:(lia) Hi Hj) as (a & b & Ha & Hb & ->).
  apply HV; assumption.
Qed.

(* complete cells: the four corners (i, j) .. (i+1, j+1) are nodes inside the image *)
Lemma rt_bilinear_complete_cell i j : 0 <= i -> 0 <= j -> (i + 1) * f < rows im -> (j + 1) * f < cols im ->
  forall x y, i * f <= x <= (i + 1) * f -> j * f <= y <= (j + 1) * f ->
  (pix e x y == cell_value (fun k => inject_Z (k * f)) (fun k => inject_Z (k * f))
                           (fun p q => pix im (p * f) (q * f)) i j (inject_Z x) (inject_Z y))%Q.
Proof.
  intros Hi Hj Hx Hy x y X Y. destruct rt_cells as (Hf & NX & NY).
  assert (I : 0 <= i + 1 < nx) by nia. assert (J : 0 <= j + 1 < ny) by nia.
  rewrite (rt_pix_cell x y i j) by lia.
  apply cell_value_ext. intros p q Hp Hq. rewrite compress_pix_node by lia. reflexivity.
Qed.

Lemma rt_affine_complete_cell i j (a b d : Q) : 0 <= i -> 0 <= j -> (i + 1) * f < rows im -> (j + 1) * f < cols im ->
  (forall x y, i * f <= x <= (i + 1) * f -> j * f <= y <= (j + 1) * f ->
               (pix im x y == a + b * inject_Z x + d * inject_Z y)%Q) ->
  forall x y, i * f <= x <= (i + 1) * f -> j * f <= y <= (j + 1) * f -> (pix e x y == pix im x y)%Q.
Proof.
  intros Hi Hj Hx Hy HA x y X Y. destruct rt_cells as (Hf & NX & NY).
  rewrite (rt_bilinear_complete_cell i j Hi Hj Hx Hy x y X Y).
  rewrite (cell_value_affine _ _ _ i j _ _ a b d); try (apply node_lt; lia).
  - symmetry. apply HA; assumption.
  - intros p q Hp Hq. apply HA; nia.
Qed.

End RoundTrip.

End WithInterpolator.
