(* concrete headers for the non-vacuity examples of Props/C16x.v *)
From Coq Require Import Reals ZArith List Bool Lra Lia.
From Aegean Require Import Lib.RBase Gen.WcsBeam Model.WcsBeam Proofs.WcsBeamProofs.
Import ListNotations.
Open Scope R_scope.

(* CDELT = (-2, 3), BMAJ = 2, BMIN = 1, no BPA *)
Definition ex_header : header :=
  mkH (fun k => match k with CDELT1 | CDELT2 | BMAJ | BMIN => true | _ => false end)
      (fun k => match k with CDELT1 => -2 | CDELT2 => 3 | BMAJ => 2 | BMIN => 1 | _ => 0 end).
Definition ex_line : hline := mkL true true (fun k => IZR k + 1).

Lemma ex_header_facts :
  m_from_header_beam None ex_header None = BSome (2, 1, 0) /\ m_pixinfo ex_header = (6, (-2, 3)).
Proof.
  split.
  - destruct (beam_priority None ex_header None) as [_ [H _]]. rewrite H; try reflexivity; cbn; lra.
  - rewrite pixinfo_cdelt by reflexivity. cbn [val ex_header]. f_equal.
    unfold Rabs. destruct (Rcase_abs (-2 * 3)); lra.
Qed.
Lemma ex_line_facts :
  pres ex_header BMAJ && pres ex_header BMIN && pres ex_header BPA = false /\
  l_prefix ex_line && l_marker ex_line = true /\ l_word ex_line 3 = 4.
Proof. repeat split. cbn. lra. Qed.
Lemma ex_rotated : exists h, pres h CDELT1 && pres h CDELT2 = false /\
  pres h CD1_1 = true /\ pres h CD1_2 = true /\ pres h CD2_1 = true /\ pres h CD2_2 = true /\
  val h CD1_1 = - 2 * cos 1 /\ val h CD1_2 = 2 * sin 1 /\ val h CD2_1 = 2 * sin 1 /\ val h CD2_2 = 2 * cos 1.
Proof.
  exists (mkH (fun k => match k with CD1_1 | CD1_2 | CD2_1 | CD2_2 => true | _ => false end)
              (fun k => match k with CD1_1 => - 2 * cos 1 | CD1_2 => 2 * sin 1 | CD2_1 => 2 * sin 1 | CD2_2 => 2 * cos 1
                                | _ => 0 end)).
  repeat split.
Qed.

Lemma psf_cell_centre_both shape r c : (0 <= r)%Z -> (0 <= c)%Z ->
  m_psf_cell shape (c + 1) (r + 1) 1 = (Z.min (r + 1) (shape 1%Z - 1), Z.min (c + 1) (shape 2%Z - 1)) /\
  ((r < shape 1%Z)%Z -> (c < shape 2%Z)%Z -> nearest_cell shape (c + 1) (r + 1) 1 = (r, c)).
Proof.
  intros Hr Hc. split; [apply psf_cell_centre; assumption|]. intros H1 H2. apply nearest_centre; lia.
Qed.
