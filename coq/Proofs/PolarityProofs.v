(* C13 - proofs about Model/Polarity.v.

   Part 1 is generic in the leaves record L: it uses only the mirror properties of the leaves listed
   as hypotheses of Section Mirror.  Part 2 proves each of those properties for the generated leaves
   (one named lemma per leaf, so that a changed leaf breaks exactly that lemma) and instantiates.
   Part 3: the polarity filter. *)
From Coq Require Import ZArith QArith Qabs Qminmax Bool List Lia Lqa.
From Aegean Require Import Lib.QBase Lib.Ext Lib.Graph Gen.Polarity Model.IslandModel Model.Polarity.
Import ListNotations.

(* ================= generic list / Q facts ================= *)

Lemma filter_map_comm {A B} (f : A -> B) (g : B -> bool) (l : list A) :
  filter g (map f l) = map f (filter (fun x => g (f x)) l).
Proof.
  induction l as [|a l IH]; cbn [map filter]; [reflexivity|].
  destruct (g (f a)); cbn [map]; rewrite IH; reflexivity.
Qed.

Lemma Qopp_opp_eq : forall q : Q, (- - q)%Q = q.
Proof. intros [n d]. unfold Qopp. cbn [Qnum Qden]. rewrite Z.opp_involutive. reflexivity. Qed.

Lemma fold_max_lt0 : forall (l : list Q) (a : Q), (a < 0)%Q -> (forall x, In x l -> (x < 0)%Q) ->
  (fold_left Qmax l a < 0)%Q.
Proof.
  induction l as [|x l IH]; cbn [fold_left]; intros a Ha Hl; [exact Ha|].
  apply IH.
  - assert (Hx : (x < 0)%Q) by (apply Hl; left; reflexivity).
    destruct (Qmax_cases a x) as [[_ E]|[_ E]]; lra.
  - intros y Hy. apply Hl. right. exact Hy.
Qed.

Lemma fold_max_ge : forall (l : list Q) (a : Q), (a <= fold_left Qmax l a)%Q.
Proof.
  induction l as [|x l IH]; cbn [fold_left]; intros a; [lra|].
  specialize (IH (Qmax a x)). destruct (Qmax_cases a x) as [[H E]|[H E]]; lra.
Qed.

Lemma qmaxl_neg : forall l, l <> [] -> (forall x, In x l -> (x < 0)%Q) -> (qmaxl l < 0)%Q.
Proof.
  intros [|a t] Hne Hl; [contradiction Hne; reflexivity|]. cbn [qmaxl].
  apply fold_max_lt0; [apply Hl; left; reflexivity|intros y Hy; apply Hl; right; exact Hy].
Qed.

Lemma qmaxl_pos : forall l, l <> [] -> (forall x, In x l -> (0 < x)%Q) -> (0 < qmaxl l)%Q.
Proof.
  intros [|a t] Hne Hl; [contradiction Hne; reflexivity|]. cbn [qmaxl].
  assert (Ha : (0 < a)%Q) by (apply Hl; left; reflexivity).
  pose proof (fold_max_ge t a). lra.
Qed.

Lemma pick_In : forall m l b, In (pick m b l) (b :: l).
Proof.
  intros m. induction l as [|p l IH]; intros b; cbn [pick]; [left; reflexivity|].
  match goal with |- In (pick m ?x l) _ => specialize (IH x); destruct IH as [E|Hin] end.
  - rewrite <- E. destruct (if m then _ else _); [right; left|left]; reflexivity.
  - right. right. exact Hin.
Qed.

Lemma pick_mirror : forall m l b, pick (negb m) (neg_ipx b) (map neg_ipx l) = neg_ipx (pick m b l).
Proof.
  intros m. induction l as [|a l IH]; intros b; cbn [pick map]; [reflexivity|].
  rewrite <- IH. f_equal.
  destruct m; cbn [negb neg_ipx ip_val]; rewrite Qltb_opp;
    match goal with |- context [Qltb ?x ?y] => destruct (Qltb x y) end; reflexivity.
Qed.

(* ================= 1. mirror symmetry, generic in the leaves ================= *)
Section Mirror.
  Variable L : leaves.
  Hypothesis H_isneg : forall mx, l_isneg_test L mx = true <-> (mx < 0)%Q.
  Hypothesis H_mask_np : forall c v r oc, l_summit_pixel_neg L (- c) (- v) r oc = l_summit_pixel_pos L c v r oc.
  Hypothesis H_mask_pn : forall c v r oc, l_summit_pixel_pos L (- c) (- v) r oc = l_summit_pixel_neg L c v r oc.
  Hypothesis H_key : forall v, l_sort_key_pixel L (- v) = l_sort_key_pixel L v.
  Hypothesis H_amp_pick : l_amp_neg_uses_min L = negb (l_amp_pos_uses_min L).
  Hypothesis H_peak_pick : l_peak_neg_uses_argmin L = negb (l_peak_pos_uses_argmin L).
  Hypothesis H_snr : forall v r, l_snr_pixel L (- v) r = l_snr_pixel L v r.
  Hypothesis H_pos : forall a, l_amp_is_positive L a = true <-> (0 < a)%Q.
  Hypothesis H_lo : forall a r ic oc, (l_amp_min_pos L a r ic oc == - l_amp_max_neg L (- a) r ic oc)%Q.
  Hypothesis H_hi : forall a r ic oc, (l_amp_max_pos L a r ic oc == - l_amp_min_neg L (- a) r ic oc)%Q.

  Lemma amp_pos_false : forall a, (a < 0)%Q -> l_amp_is_positive L a = false.
  Proof.
    intros a Ha. destruct (l_amp_is_positive L a) eqn:E; [|reflexivity].
    apply H_pos in E. lra.
  Qed.

  Lemma amp_bounds_mirror : forall a r ic oc, ~ (a == 0)%Q ->
    (fst (amp_bounds L (- a) r ic oc) == - snd (amp_bounds L a r ic oc))%Q /\
    (snd (amp_bounds L (- a) r ic oc) == - fst (amp_bounds L a r ic oc))%Q.
  Proof.
    intros a r ic oc Hnz. unfold amp_bounds.
    destruct (Qlt_le_dec 0 a) as [Hp|Hn].
    - rewrite (proj2 (H_pos a) Hp), (amp_pos_false (- a)) by lra. cbn [fst snd].
      pose proof (H_lo a r ic oc). pose proof (H_hi a r ic oc). split; lra.
    - assert (Hlt : (a < 0)%Q) by (destruct (Qlt_le_dec a 0) as [H|H]; [exact H|exfalso; apply Hnz; lra]).
      rewrite (amp_pos_false a Hlt), (proj2 (H_pos (- a))) by lra. cbn [fst snd].
      pose proof (H_lo (- a) r ic oc) as H1. pose proof (H_hi (- a) r ic oc) as H2.
      rewrite Qopp_opp_eq in H1, H2. split; lra.
  Qed.

  Lemma isnegative_mirror : forall isl, isl <> [] -> single_signed isl ->
    isnegative L (neg_island isl) = negb (isnegative L isl).
  Proof.
    intros isl Hne Hs. unfold isnegative, neg_island. rewrite map_map.
    assert (Hne' : forall f : ipx -> Q, map f isl <> []) by (intros f; destruct isl; [contradiction Hne; reflexivity|discriminate]).
    destruct Hs as [Hp|Hn].
    - assert (H1 : (0 < qmaxl (map ip_val isl))%Q).
      { apply qmaxl_pos; [apply Hne'|]. intros x Hx. apply in_map_iff in Hx as (p & <- & Hin). apply Hp, Hin. }
      assert (H2 : (qmaxl (map (fun x => ip_val (neg_ipx x)) isl) < 0)%Q).
      { apply qmaxl_neg; [apply Hne'|]. intros x Hx. apply in_map_iff in Hx as (p & <- & Hin).
        cbn [neg_ipx ip_val]. specialize (Hp p Hin). lra. }
      rewrite (proj2 (H_isneg _) H2).
      destruct (l_isneg_test L (qmaxl (map ip_val isl))) eqn:E; [apply H_isneg in E; lra|reflexivity].
    - assert (H1 : (qmaxl (map ip_val isl) < 0)%Q).
      { apply qmaxl_neg; [apply Hne'|]. intros x Hx. apply in_map_iff in Hx as (p & <- & Hin). apply Hn, Hin. }
      assert (H2 : (0 < qmaxl (map (fun x => ip_val (neg_ipx x)) isl))%Q).
      { apply qmaxl_pos; [apply Hne'|]. intros x Hx. apply in_map_iff in Hx as (p & <- & Hin).
        cbn [neg_ipx ip_val]. specialize (Hn p Hin). lra. }
      rewrite (proj2 (H_isneg _) H1). cbn [negb].
      destruct (l_isneg_test L (qmaxl (map (fun x => ip_val (neg_ipx x)) isl))) eqn:E; [apply H_isneg in E; lra|reflexivity].
  Qed.

  Lemma summit_pixel_mirror : forall b oc p, summit_pixel L (negb b) oc (neg_ipx p) = summit_pixel L b oc p.
  Proof.
    intros b oc p. destruct b; cbn [negb]; unfold summit_pixel; cbn [neg_ipx ip_curve ip_val ip_rms];
      [apply H_mask_pn|apply H_mask_np].
  Qed.

  Lemma positions_neg : forall isl, positions (neg_island isl) = positions isl.
  Proof. intros isl. unfold positions, neg_island. rewrite map_map. apply map_ext. reflexivity. Qed.

  Lemma positions_filter_mirror : forall b oc isl,
    positions (filter (summit_pixel L (negb b) oc) (neg_island isl)) = positions (filter (summit_pixel L b oc) isl).
  Proof.
    intros b oc isl. unfold neg_island. rewrite filter_map_comm.
    rewrite (filter_ext _ _ (summit_pixel_mirror b oc)). fold (neg_island (filter (summit_pixel L b oc) isl)).
    apply positions_neg.
  Qed.

  Lemma flag0_neg : forall isl, flag0 L (neg_island isl) = flag0 L isl.
  Proof. intros isl. unfold flag0, neg_island. rewrite map_length. reflexivity. Qed.
  Lemma is_tiny_neg : forall shape isl, is_tiny L shape (neg_island isl) = is_tiny L shape isl.
  Proof. intros. unfold is_tiny. rewrite flag0_neg. reflexivity. Qed.
  Lemma isl_flag_neg : forall shape isl, isl_flag L shape (neg_island isl) = isl_flag L shape isl.
  Proof. intros. unfold isl_flag. rewrite is_tiny_neg, flag0_neg. reflexivity. Qed.

  Lemma summits_mirror : forall segs b oc shape isl,
    summits L segs (negb b) oc shape (neg_island isl) = summits L segs b oc shape isl.
  Proof.
    intros. unfold summits. rewrite is_tiny_neg, positions_neg, positions_filter_mirror. reflexivity.
  Qed.

  Lemma pix_of_neg : forall sm isl, pix_of sm (neg_island isl) = neg_island (pix_of sm isl).
  Proof. intros sm isl. unfold pix_of, neg_island. rewrite filter_map_comm. reflexivity. Qed.

  Lemma key_neg : forall isl sm, key L (neg_island isl) sm = key L isl sm.
  Proof.
    intros isl sm. unfold key. rewrite pix_of_neg. unfold neg_island. rewrite map_map. f_equal.
    apply map_ext. intros p. cbn [neg_ipx ip_val]. apply H_key.
  Qed.

  Lemma in_box_neg : forall box isl, in_box L box (neg_island isl) = neg_island (in_box L box isl).
  Proof.
    intros [[[r0 r1] c0] c1] isl. unfold in_box, neg_island. rewrite filter_map_comm. reflexivity.
  Qed.

  Lemma box_snr_neg : forall box isl, box_snr L box (neg_island isl) = box_snr L box isl.
  Proof.
    intros box isl. unfold box_snr. rewrite in_box_neg. unfold neg_island. rewrite map_map. f_equal.
    apply map_ext. intros p. cbn [neg_ipx ip_val ip_rms]. apply H_snr.
  Qed.

  Lemma pick_flag_amp : forall b,
    (if negb b then l_amp_neg_uses_min L else l_amp_pos_uses_min L) =
    negb (if b then l_amp_neg_uses_min L else l_amp_pos_uses_min L).
  Proof. intros b. rewrite H_amp_pick. destruct b, (l_amp_pos_uses_min L); reflexivity. Qed.
  Lemma pick_flag_peak : forall b,
    (if negb b then l_peak_neg_uses_argmin L else l_peak_pos_uses_argmin L) =
    negb (if b then l_peak_neg_uses_argmin L else l_peak_pos_uses_argmin L).
  Proof. intros b. rewrite H_peak_pick. destruct b, (l_peak_pos_uses_argmin L); reflexivity. Qed.

  Lemma emit_nil : forall b psf ic oc ms flag l i, emit L b psf ic oc ms flag [] l i = [].
  Proof. intros b psf ic oc ms flag. induction l as [|[sm box] t IH]; intros i; cbn [emit pix_of filter]; auto. Qed.

  Lemma emit_mirror : forall b psf ic oc ms flag isl, (forall p, In p isl -> ~ (ip_val p == 0)%Q) ->
    forall l i, Forall2 mirror_of (emit L b psf ic oc ms flag isl l i)
                                  (emit L (negb b) psf ic oc ms flag (neg_island isl) l i).
  Proof.
    intros b psf ic oc ms flag isl Hnz. induction l as [|[sm box] t IH]; intros i; cbn [emit]; [constructor|].
    rewrite pix_of_neg, box_snr_neg.
    destruct (pix_of sm isl) as [|p0 pt] eqn:E; cbn [neg_island map]; [apply IH|].
    rewrite pick_flag_amp, pick_flag_peak, !pick_mirror. cbn [neg_ipx ip_pos ip_val ip_rms].
    destruct (l_snr_skip L (box_snr L box isl) ic); [apply IH|].
    destruct (psf (ip_pos (pick (if b then l_peak_neg_uses_argmin L else l_peak_pos_uses_argmin L) p0 pt)));
      cbn [negb]; [|apply IH].
    constructor; [|apply IH].
    set (pa := pick (if b then l_amp_neg_uses_min L else l_amp_pos_uses_min L) p0 pt).
    assert (Ha : ~ (ip_val pa == 0)%Q).
    { apply Hnz. assert (Hin : In pa (pix_of sm isl)) by (rewrite E; apply pick_In).
      unfold pix_of in Hin. apply filter_In in Hin. apply Hin. }
    destruct (amp_bounds_mirror (ip_val pa)
                (ip_rms (pick (if b then l_peak_neg_uses_argmin L else l_peak_pos_uses_argmin L) p0 pt)) ic oc Ha)
      as [B1 B2].
    unfold mirror_of. cbn [c_amp c_min c_max c_pos c_index c_flag c_vary c_psf_vary].
    repeat split; try reflexivity; assumption.
  Qed.

  Theorem estimate_mirror : forall segs psf ic oc ms shape isl, single_signed isl ->
    Forall2 mirror_of (estimate L segs psf ic oc ms shape isl)
                      (estimate L segs psf ic oc ms shape (neg_island isl)).
  Proof.
    intros segs psf ic oc ms shape isl Hs. unfold estimate.
    destruct isl as [|q isl'] eqn:Eisl.
    - cbn [neg_island map]. rewrite !emit_nil. constructor.
    - rewrite <- Eisl in *. assert (Hne : isl <> []) by (rewrite Eisl; discriminate).
      rewrite (isnegative_mirror isl Hne Hs), summits_mirror, isl_flag_neg.
      rewrite (map_ext (fun s : summit => (key L (neg_island isl) (fst s), s))
                       (fun s : summit => (key L isl (fst s), s)))
        by (intros s; rewrite key_neg; reflexivity).
      apply emit_mirror.
      intros p Hin. destruct Hs as [Hp|Hn]; [specialize (Hp p Hin)|specialize (Hn p Hin)]; lra.
  Qed.
End Mirror.

(* ================= 2. the generated leaves ================= *)

Lemma isneg_test_spec : forall mx, isneg_test mx = true <-> (mx < 0)%Q.
Proof. intros mx. unfold isneg_test. rewrite Qltb_lt. split; intro H; lra. Qed.

Lemma summit_pixel_neg_of_mirror : forall c v r oc, summit_pixel_neg (- c) (- v) r oc = summit_pixel_pos c v r oc.
Proof.
  intros c v r oc. apply bool_eq_iff. unfold summit_pixel_neg, summit_pixel_pos.
  rewrite !andb_true_iff, !Qltb_lt. split; intros [H1 H2]; split; lra.
Qed.

Lemma summit_pixel_pos_of_mirror : forall c v r oc, summit_pixel_pos (- c) (- v) r oc = summit_pixel_neg c v r oc.
Proof.
  intros c v r oc. apply bool_eq_iff. unfold summit_pixel_neg, summit_pixel_pos.
  rewrite !andb_true_iff, !Qltb_lt. split; intros [H1 H2]; split; lra.
Qed.

Lemma sort_key_pixel_even : forall v, sort_key_pixel (- v) = sort_key_pixel v.
Proof. intros v. unfold sort_key_pixel. rewrite Qabs_opp_eq. reflexivity. Qed.

Lemma amp_pick_opposite : amp_neg_uses_min = negb amp_pos_uses_min.
Proof. reflexivity. Qed.
Lemma peak_pick_opposite : peak_neg_uses_argmin = negb peak_pos_uses_argmin.
Proof. reflexivity. Qed.

Lemma snr_pixel_even : forall v r, snr_pixel (- v) r = snr_pixel v r.
Proof.
  intros [n d] r. unfold snr_pixel, Qdiv, Qmult, Qopp, Qabs. cbn [Qnum Qden].
  rewrite Z.mul_opp_l, Z.abs_opp. reflexivity.
Qed.

Lemma amp_is_positive_spec : forall a, amp_is_positive a = true <-> (0 < a)%Q.
Proof. intros a. unfold amp_is_positive. rewrite Qltb_lt. split; intro H; lra. Qed.

Lemma amp_lower_mirror : forall a r ic oc, (amp_min_pos a r ic oc == - amp_max_neg (- a) r ic oc)%Q.
Proof.
  intros a r ic oc. unfold amp_min_pos, amp_max_neg.
  destruct (Qmin_cases (oc * r) a) as [[H1 E1]|[H1 E1]];
    destruct (Qmax_cases (- oc * r) (- a)) as [[H2 E2]|[H2 E2]]; rewrite E1, E2; lra.
Qed.

Lemma amp_upper_mirror : forall a r ic oc, (amp_max_pos a r ic oc == - amp_min_neg (- a) r ic oc)%Q.
Proof. intros a r ic oc. unfold amp_max_pos, amp_min_neg. lra. Qed.

Theorem estimate_mirrored_partial : forall segs psf ic oc ms shape isl, single_signed isl ->
  Forall2 mirror_of (estimate gen_leaves segs psf ic oc ms shape isl)
                    (estimate gen_leaves segs psf ic oc ms shape (neg_island isl)).
Proof.
  apply (estimate_mirror gen_leaves); cbn [gen_leaves l_isneg_test l_summit_pixel_neg l_summit_pixel_pos
    l_sort_key_pixel l_amp_neg_uses_min l_peak_neg_uses_argmin l_amp_pos_uses_min l_peak_pos_uses_argmin
    l_snr_pixel l_amp_is_positive l_amp_min_pos l_amp_max_pos l_amp_min_neg l_amp_max_neg].
  - exact isneg_test_spec.
  - exact summit_pixel_neg_of_mirror.
  - exact summit_pixel_pos_of_mirror.
  - exact sort_key_pixel_even.
  - exact amp_pick_opposite.
  - exact peak_pick_opposite.
  - exact snr_pixel_even.
  - exact amp_is_positive_spec.
  - exact amp_lower_mirror.
  - exact amp_upper_mirror.
Qed.

(* ================= 3. the polarity filter ================= *)

Lemma filter_drop_spec : forall g l np nn, filter_drop g l np nn = (g && np) || (l && nn).
Proof. reflexivity. Qed.
Lemma peak_gt0_spec : forall q, peak_gt0 q = true <-> (0 < q)%Q.
Proof. intros q. unfold peak_gt0. rewrite Qltb_lt. split; intro H; lra. Qed.
Lemma peak_lt0_spec : forall q, peak_lt0 q = true <-> (q < 0)%Q.
Proof. intros q. unfold peak_lt0. rewrite Qltb_lt. split; intro H; lra. Qed.
Local Opaque filter_drop peak_gt0 peak_lt0.

Lemma tests_pos : forall q, (0 < q)%Q -> peak_tests (Some q) = (true, false).
Proof.
  intros q H. cbn [peak_tests]. rewrite (proj2 (peak_gt0_spec q) H).
  destruct (peak_lt0 q) eqn:E; [apply peak_lt0_spec in E; lra|reflexivity].
Qed.
Lemma tests_neg : forall q, (q < 0)%Q -> peak_tests (Some q) = (false, true).
Proof.
  intros q H. cbn [peak_tests]. rewrite (proj2 (peak_lt0_spec q) H).
  destruct (peak_gt0 q) eqn:E; [apply peak_gt0_spec in E; lra|reflexivity].
Qed.
Lemma tests_zero : forall q, (q == 0)%Q -> peak_tests (Some q) = (false, false).
Proof.
  intros q H. cbn [peak_tests].
  destruct (peak_gt0 q) eqn:E1; [apply peak_gt0_spec in E1; lra|].
  destruct (peak_lt0 q) eqn:E2; [apply peak_lt0_spec in E2; lra|reflexivity].
Qed.

Lemma kept_pos : forall q np nn, (0 < q)%Q -> kept np nn (Some q) = negb np.
Proof.
  intros q np nn H. unfold kept. rewrite (tests_pos q H), filter_drop_spec. cbn [fst snd andb orb].
  rewrite orb_false_r. reflexivity.
Qed.
Lemma kept_neg : forall q np nn, (q < 0)%Q -> kept np nn (Some q) = negb nn.
Proof.
  intros q np nn H. unfold kept. rewrite (tests_neg q H), filter_drop_spec. reflexivity.
Qed.
Lemma kept_zero : forall q np nn, (q == 0)%Q -> kept np nn (Some q) = true.
Proof. intros q np nn H. unfold kept. rewrite (tests_zero q H), filter_drop_spec. reflexivity. Qed.
Lemma kept_nan : forall np nn, kept np nn None = true.
Proof. intros np nn. unfold kept. cbn [peak_tests fst snd]. rewrite filter_drop_spec. reflexivity. Qed.

Lemma finite_nonzero_cases : forall p, finite_nonzero p -> is_pos p \/ is_neg p.
Proof.
  intros p (q & -> & Hq). destruct (Qlt_le_dec 0 q) as [H|H]; [left; exists q; auto|].
  right. exists q. split; [reflexivity|]. destruct (Qlt_le_dec q 0) as [H'|H']; [exact H'|exfalso; apply Hq; lra].
Qed.

Section FilterFacts.
  Variable row : Type.
  Variable peak : row -> option Q.
  Let cat := catalogue row peak.

  Lemma both_is_everything : forall l, cat false false l = l.
  Proof.
    intros l. unfold cat, catalogue. induction l as [|s l IH]; cbn [filter]; [reflexivity|].
    assert (E : kept false false (peak s) = true).
    { unfold kept. rewrite filter_drop_spec. rewrite !andb_false_r. reflexivity. }
    rewrite E, IH. reflexivity.
  Qed.

  Lemma filter_partition : forall l, (forall s, In s l -> finite_nonzero (peak s)) ->
    cat false false l = l /\
    interleave (cat false true l) (cat true false l) l /\
    (forall s, In s (cat false true l) -> is_pos (peak s)) /\
    (forall s, In s (cat true false l) -> is_neg (peak s)) /\
    (forall s, ~ (In s (cat false true l) /\ In s (cat true false l))) /\
    cat true true l = [].
  Proof.
    intros l Hl. split; [apply both_is_everything|].
    assert (Hpos : forall s, In s (cat false true l) -> is_pos (peak s)).
    { intros s Hin. unfold cat, catalogue in Hin. apply filter_In in Hin as [Hin Hk].
      destruct (finite_nonzero_cases _ (Hl s Hin)) as [Hp|(q & E & Hq)]; [exact Hp|].
      rewrite E, (kept_neg q false true Hq) in Hk. discriminate. }
    assert (Hneg : forall s, In s (cat true false l) -> is_neg (peak s)).
    { intros s Hin. unfold cat, catalogue in Hin. apply filter_In in Hin as [Hin Hk].
      destruct (finite_nonzero_cases _ (Hl s Hin)) as [(q & E & Hq)|Hn]; [|exact Hn].
      rewrite E, (kept_pos q true false Hq) in Hk. discriminate. }
    split; [|split; [exact Hpos|split; [exact Hneg|split]]].
    - unfold cat, catalogue. clear Hpos Hneg. induction l as [|s l IH]; cbn [filter]; [constructor|].
      assert (IH' := IH (fun s' H => Hl s' (or_intror H))).
      destruct (finite_nonzero_cases _ (Hl s (or_introl eq_refl))) as [(q & E & Hq)|(q & E & Hq)]; rewrite E.
      + rewrite (kept_pos q false true Hq), (kept_pos q true false Hq). cbn [negb]. constructor. exact IH'.
      + rewrite (kept_neg q false true Hq), (kept_neg q true false Hq). cbn [negb]. constructor. exact IH'.
    - intros s [H1 H2]. destruct (Hpos s H1) as (q & E & Hq). destruct (Hneg s H2) as (q' & E' & Hq').
      rewrite E in E'. injection E' as <-. lra.
    - unfold cat, catalogue. clear Hpos Hneg. induction l as [|s l IH]; cbn [filter]; [reflexivity|].
      assert (IH' := IH (fun s' H => Hl s' (or_intror H))).
      destruct (finite_nonzero_cases _ (Hl s (or_introl eq_refl))) as [(q & E & Hq)|(q & E & Hq)]; rewrite E.
      + rewrite (kept_pos q true true Hq). cbn [negb]. exact IH'.
      + rewrite (kept_neg q true true Hq). cbn [negb]. exact IH'.
  Qed.

  (* a row whose peak is zero or NaN is dropped by no setting: it is in the positive-only AND in the
     negative-only catalogue *)
  Lemma zero_nan_survives : forall l s np nn, In s l ->
    (peak s = None \/ exists q, peak s = Some q /\ (q == 0)%Q) -> In s (cat np nn l).
  Proof.
    intros l s np nn Hin Hz. unfold cat, catalogue. apply filter_In. split; [exact Hin|].
    destruct Hz as [E|(q & E & Hq)]; rewrite E; [apply kept_nan|apply kept_zero; exact Hq].
  Qed.
End FilterFacts.

(* ================= 4. curvature of the negated image ================= *)
Section Curvature.
  (* the rank filters of scipy on one window: exchanging them under negation is a library hypothesis,
     validated by the harness on every run (windows with NaN and +-inf included) *)
  Variable maxf minf : list ev -> ev.
  Hypothesis H_max_neg : forall v, maxf (map neg_ev v) = neg_ev (minf v).
  Hypothesis H_min_neg : forall v, minf (map neg_ev v) = neg_ev (maxf v).
  Variable pf tf : fill.
  Variable pv tv : Z.
  Variable tlast : bool.
  Hypothesis H_fill : tf = neg_fill pf.
  Hypothesis H_val : tv = (- pv)%Z.

  Lemma fill_p_neg : forall x, apply_fill pf (neg_ev x) = neg_ev (apply_fill tf x).
  Proof. intros x. rewrite <- (neg_fill_invol pf), <- H_fill. apply apply_fill_neg. Qed.
  Lemma fill_t_neg : forall x, apply_fill tf (neg_ev x) = neg_ev (apply_fill pf x).
  Proof. intros x. rewrite H_fill. apply apply_fill_neg. Qed.

  Lemma peak_test_neg : forall w c,
    ev_eqb (maxf (map (apply_fill pf) (map neg_ev w))) (apply_fill pf (neg_ev c)) =
    ev_eqb (minf (map (apply_fill tf) w)) (apply_fill tf c).
  Proof.
    intros w c. rewrite map_map, (map_ext _ _ fill_p_neg), <- (map_map (apply_fill tf) neg_ev).
    rewrite H_max_neg, fill_p_neg. apply ev_eqb_neg.
  Qed.
  Lemma trough_test_neg : forall w c,
    ev_eqb (minf (map (apply_fill tf) (map neg_ev w))) (apply_fill tf (neg_ev c)) =
    ev_eqb (maxf (map (apply_fill pf) w)) (apply_fill pf c).
  Proof.
    intros w c. rewrite map_map, (map_ext _ _ fill_t_neg), <- (map_map (apply_fill pf) neg_ev).
    rewrite H_min_neg, fill_t_neg. apply ev_eqb_neg.
  Qed.

  Lemma curve_at_mirror : forall w c, plateau_at pf tf maxf minf w c = false ->
    curve_at pf tf pv tv tlast maxf minf (map neg_ev w) (neg_ev c) = (- curve_at pf tf pv tv tlast maxf minf w c)%Z.
  Proof.
    intros w c Hpl. unfold curve_at, plateau_at in *. rewrite peak_test_neg, trough_test_neg.
    destruct (ev_eqb (maxf (map (apply_fill pf) w)) (apply_fill pf c)),
             (ev_eqb (minf (map (apply_fill tf) w)) (apply_fill tf c)), tlast;
      cbn [andb] in Hpl; try discriminate Hpl; lia.
  Qed.
End Curvature.

Lemma curv_fills_mirror : curv_trough_fill = neg_fill curv_peak_fill.
Proof. reflexivity. Qed.
Lemma curv_values_mirror : curv_trough_value = (- curv_peak_value)%Z.
Proof. reflexivity. Qed.

Theorem curvature_mirrored : forall maxf minf : list ev -> ev,
  (forall v, maxf (map neg_ev v) = neg_ev (minf v)) -> (forall v, minf (map neg_ev v) = neg_ev (maxf v)) ->
  forall w c, plateau_gen maxf minf w c = false ->
  curve_gen maxf minf (map neg_ev w) (neg_ev c) = (- curve_gen maxf minf w c)%Z.
Proof.
  intros maxf minf Hmax Hmin w c Hpl. unfold curve_gen.
  apply (curve_at_mirror maxf minf Hmax Hmin _ _ _ _ _ curv_fills_mirror curv_values_mirror w c Hpl).
Qed.
