From Coq Require Import ZArith Bool List Lia Sorting.Permutation Sorting.Sorted.
From Aegean Require Import Gen.CatOrder Model.CatOrder.
Import ListNotations.
Open Scope Z_scope.

(* ---- leaf lemmas: the generated comparisons ---- *)
Lemma comp_lt_char i1 s1 i2 s2 : comp_lt i1 s1 i2 s2 = ((i1 <? i2) || ((i1 =? i2) && (s1 <? s2))).
Proof. reflexivity. Qed.
Lemma island_lt_char i1 i2 : island_lt i1 i2 = (i1 <? i2). Proof. reflexivity. Qed.
Lemma priorized_output_sorted_char : priorized_output_sorted = true. Proof. reflexivity. Qed.
Lemma itergen_ascending_char : itergen_ascending = true. Proof. reflexivity. Qed.

Lemma comp_lt_spec i1 s1 i2 s2 : comp_lt i1 s1 i2 s2 = true <-> (i1 < i2 \/ (i1 = i2 /\ s1 < s2)).
Proof. rewrite comp_lt_char. rewrite orb_true_iff, andb_true_iff, !Z.ltb_lt, Z.eqb_eq. tauto. Qed.

Definition KLt (a b : key) : Prop := fst a < fst b \/ (fst a = fst b /\ snd a < snd b).
Lemma klt_spec a b : klt a b = true <-> KLt a b.
Proof. unfold klt, KLt. apply comp_lt_spec. Qed.
Lemma KLt_irrefl a : ~ KLt a a. Proof. unfold KLt. lia. Qed.
Lemma KLt_trans a b c : KLt a b -> KLt b c -> KLt a c. Proof. unfold KLt. lia. Qed.
Lemma KLt_asym a b : KLt a b -> KLt b a -> False. Proof. unfold KLt. lia. Qed.
Lemma KLt_total a b : KLt a b \/ a = b \/ KLt b a.
Proof. destruct a as [i s], b as [j t]. unfold KLt. cbn [fst snd].
  destruct (Z.lt_trichotomy i j) as [H|[H|H]]; [left; lia| |right; right; lia].
  destruct (Z.lt_trichotomy s t) as [H'|[H'|H']]; [left; lia|right; left; subst; reflexivity|right; right; lia]. Qed.

Lemma insert_perm x l : Permutation (x :: l) (insert x l).
Proof. induction l as [|y t IH]; cbn [insert]; [apply Permutation_refl|].
  destruct (klt x y); [apply Permutation_refl|].
  eapply Permutation_trans; [apply perm_swap|]. apply perm_skip. exact IH. Qed.
Lemma sorted_perm l : Permutation l (py_sorted l).
Proof. induction l as [|x t IH]; cbn [py_sorted fold_right]; [constructor|].
  eapply Permutation_trans; [apply perm_skip; exact IH|]. apply insert_perm. Qed.

(* non-strict order: not (b < a) *)
Definition KLe (a b : key) : Prop := ~ KLt b a.
Lemma insert_sorted x l : StronglySorted KLe l -> StronglySorted KLe (insert x l).
Proof.
  induction l as [|y t IH]; intros Hs; cbn [insert].
  - constructor; [constructor|constructor].
  - inversion Hs as [|? ? Ht Hy]; subst.
    destruct (klt x y) eqn:E.
    + apply klt_spec in E. constructor; [exact Hs|]. constructor.
      * intro H. exact (KLt_asym _ _ E H).
      * rewrite Forall_forall in *. intros z Hz H. apply (Hy z Hz). exact (KLt_trans _ _ _ H E).
    + constructor; [apply IH; exact Ht|].
      rewrite Forall_forall in *. intros z Hz.
      apply (Permutation_in _ (Permutation_sym (insert_perm x t))) in Hz. destruct Hz as [<-|Hz].
      * intro H. apply klt_spec in H. congruence.
      * apply Hy. exact Hz.
Qed.
Lemma sorted_sorted l : StronglySorted KLe (py_sorted l).
Proof. induction l as [|x t IH]; cbn [py_sorted fold_right]; [constructor|]. apply insert_sorted. exact IH. Qed.

Lemma sorted_strict l : NoDup l -> StronglySorted KLe l -> StronglySorted KLt l.
Proof.
  induction l as [|a t IH]; intros Hn Hs; [constructor|].
  inversion Hn as [|? ? Ha Hn']; subst. inversion Hs as [|? ? Ht Hy]; subst.
  constructor; [apply IH; assumption|].
  rewrite Forall_forall in *. intros z Hz.
  destruct (KLt_total a z) as [H|[H|H]]; [exact H|subst; contradiction|exfalso; exact (Hy z Hz H)].
Qed.

Lemma strict_sorted_unique : forall s s', StronglySorted KLt s -> StronglySorted KLt s' -> Permutation s s' -> s = s'.
Proof.
  induction s as [|a t IH]; intros s' Hs Hs' Hp.
  - apply Permutation_nil in Hp. subst. reflexivity.
  - destruct s' as [|a' t']; [apply Permutation_sym, Permutation_nil in Hp; discriminate|].
    inversion Hs as [|? ? Ht Ha]; subst. inversion Hs' as [|? ? Ht' Ha']; subst.
    rewrite Forall_forall in Ha, Ha'.
    assert (E : a = a').
    { assert (H1 : In a (a' :: t')) by (apply (Permutation_in _ Hp); left; reflexivity).
      assert (H2 : In a' (a :: t)) by (apply (Permutation_in _ (Permutation_sym Hp)); left; reflexivity).
      destruct H1 as [H1|H1]; [symmetry; exact H1|]. destruct H2 as [H2|H2]; [exact H2|].
      exfalso. exact (KLt_asym _ _ (Ha _ H2) (Ha' _ H1)). }
    subst a'. f_equal. apply IH; [exact Ht|exact Ht'|]. exact (Permutation_cons_inv Hp).
Qed.

Theorem sorted_order_independent : forall l l', NoDup l -> Permutation l l' -> py_sorted l = py_sorted l'.
Proof.
  intros l l' Hn Hp. apply strict_sorted_unique.
  - apply sorted_strict; [|apply sorted_sorted]. exact (Permutation_NoDup (sorted_perm l) Hn).
  - apply sorted_strict; [|apply sorted_sorted].
    exact (Permutation_NoDup (sorted_perm l') (Permutation_NoDup Hp Hn)).
  - eapply Permutation_trans; [apply Permutation_sym, sorted_perm|].
    eapply Permutation_trans; [exact Hp|apply sorted_perm].
Qed.

Local Opaque comp_lt.

Lemma klt_strict_total : (forall a, klt a a = false) /\
  (forall a b c, klt a b = true -> klt b c = true -> klt a c = true) /\
  (forall a b, klt a b = true \/ a = b \/ klt b a = true).
Proof.
  split; [|split].
  - intros a. destruct (klt a a) eqn:E; [|reflexivity]. apply klt_spec in E. exfalso. exact (KLt_irrefl a E).
  - intros a b c H1 H2. apply klt_spec. apply klt_spec in H1. apply klt_spec in H2. exact (KLt_trans a b c H1 H2).
  - intros a b. destruct (KLt_total a b) as [H|[H|H]]; [left; apply klt_spec; exact H|right; left; exact H|right; right; apply klt_spec; exact H].
Qed.

Lemma KLt_to_klt_sorted : forall s, StronglySorted KLt s -> StronglySorted (fun a b => klt a b = true) s.
Proof.
  intros s H. induction H as [|a t Ht IH Ha]; constructor; [exact IH|].
  rewrite Forall_forall in *. intros z Hz. apply klt_spec. exact (Ha z Hz).
Qed.
Lemma klt_to_KLt_sorted : forall s, StronglySorted (fun a b => klt a b = true) s -> StronglySorted KLt s.
Proof.
  intros s H. induction H as [|a t Ht IH Ha]; constructor; [exact IH|].
  rewrite Forall_forall in *. intros z Hz. apply klt_spec. exact (Ha z Hz).
Qed.

Lemma sorted_ascending_perm : forall l, NoDup l ->
  Permutation l (py_sorted l) /\ StronglySorted (fun a b => klt a b = true) (py_sorted l).
Proof.
  intros l Hn. split; [apply sorted_perm|].
  apply KLt_to_klt_sorted. apply sorted_strict; [|apply sorted_sorted]. exact (Permutation_NoDup (sorted_perm l) Hn).
Qed.

Lemma ascending_perm_unique : forall l s, NoDup l -> Permutation l s ->
  StronglySorted (fun a b => klt a b = true) s -> s = py_sorted l.
Proof.
  intros l s Hn Hp Hs. apply strict_sorted_unique.
  - apply klt_to_KLt_sorted. exact Hs.
  - apply sorted_strict; [|apply sorted_sorted]. exact (Permutation_NoDup (sorted_perm l) Hn).
  - eapply Permutation_trans; [apply Permutation_sym; exact Hp|apply sorted_perm].
Qed.

Lemma priorized_output_order_independent : forall rows rows', NoDup rows -> Permutation rows rows' ->
  priorized_output rows = priorized_output rows'.
Proof.
  intros rows rows' Hn Hp. unfold priorized_output. rewrite priorized_output_sorted_char.
  exact (sorted_order_independent rows rows' Hn Hp).
Qed.

Lemma priorized_output_ascending : forall rows, NoDup rows ->
  Permutation rows (priorized_output rows) /\ StronglySorted (fun a b => klt a b = true) (priorized_output rows).
Proof. intros rows Hn. unfold priorized_output. rewrite priorized_output_sorted_char. exact (sorted_ascending_perm rows Hn). Qed.
