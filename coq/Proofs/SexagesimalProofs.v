(* C17 (strings): the divmod chain of dec2dms / dec2hms splits the single rounded number of hundredths
   losslessly into in-range fields; parsing the fields gives that number back.  Pure Z arithmetic
   (axiom-free) for the field part; the parse part is over R (generated dec2dec arithmetic). *)
From Coq Require Import ZArith Lia Reals Lra.
From Aegean Require Import Gen.Sexagesimal Model.Sexagesimal.

(* ---- characterising lemmas of the generated leaves (the only ones that look inside them) ---- *)
Section Leaves.
Open Scope Z_scope.
Lemma dms_split_eq cs :
  dms_split cs = (cs / 360000, cs mod 360000 / 6000, cs mod 360000 mod 6000 / 100, cs mod 360000 mod 6000 mod 100).
Proof. reflexivity. Qed.
Lemma hms_split_eq cs :
  hms_split cs = (cs / 360000 mod 24, cs mod 360000 / 6000, cs mod 360000 mod 6000 / 100, cs mod 360000 mod 6000 mod 100).
Proof. reflexivity. Qed.
Lemma dms_scale_eq : dms_scale = 360000.
Proof. reflexivity. Qed.
Lemma hms_scale_eq : hms_scale = 24000.
Proof. reflexivity. Qed.
Lemma hms_wrap_eq : hms_wrap = 360.
Proof. reflexivity. Qed.
End Leaves.
Lemma parse_pos_eq f0 f1 f2 : parse_pos f0 f1 f2 = (f0 + f1 / 60 + f2 / 3600)%R.
Proof. reflexivity. Qed.
Lemma parse_neg_eq f0 f1 f2 : parse_neg f0 f1 f2 = (f0 - f1 / 60 - f2 / 3600)%R.
Proof. reflexivity. Qed.
Lemma ra_of_parse_eq v : ra_of_parse v = (v * 15)%R.
Proof. reflexivity. Qed.
Local Opaque dms_split hms_split dms_scale hms_scale hms_wrap parse_pos parse_neg ra_of_parse.

(* ---- fields, for EVERY integer number of hundredths (this is every input: the fields are a
   function of the one rounded integer) ---- *)
Section Fields.
Open Scope Z_scope.

Lemma dms_fields cs : let '(d, m, s, c) := dms_split cs in
  0 <= m < 60 /\ 0 <= s < 60 /\ 0 <= c < 100 /\ cs = 360000 * d + 6000 * m + 100 * s + c.
Proof.
  rewrite dms_split_eq.
  pose proof (Z.div_mod cs 360000 ltac:(lia)) as H1. pose proof (Z.mod_pos_bound cs 360000 ltac:(lia)) as B1.
  set (r1 := cs mod 360000) in *.
  pose proof (Z.div_mod r1 6000 ltac:(lia)) as H2. pose proof (Z.mod_pos_bound r1 6000 ltac:(lia)) as B2.
  set (r2 := r1 mod 6000) in *.
  pose proof (Z.div_mod r2 100 ltac:(lia)) as H3. pose proof (Z.mod_pos_bound r2 100 ltac:(lia)) as B3.
  set (r3 := r2 mod 100) in *.
  assert (0 <= r1 / 6000 < 60) by (split; [apply Z.div_pos; lia | apply Z.div_lt_upper_bound; lia]).
  assert (0 <= r2 / 100 < 60) by (split; [apply Z.div_pos; lia | apply Z.div_lt_upper_bound; lia]).
  repeat split; lia.
Qed.

(* degrees: non-negative; at most 90 (resp. 360) when the rounded value is, and then 90:00:00.00 is
   the only string with 90 degrees *)
Lemma dms_degrees cs : 0 <= cs -> let '(d, m, s, c) := dms_split cs in
  0 <= d /\
  (cs <= 90 * 360000 -> d <= 90 /\ (d = 90 -> m = 0 /\ s = 0 /\ c = 0)) /\
  (cs <= 360 * 360000 -> d <= 360 /\ (d = 360 -> m = 0 /\ s = 0 /\ c = 0)).
Proof.
  intros Hcs. pose proof (dms_fields cs) as Hf. destruct (dms_split cs) as [[[d m] s] c].
  destruct Hf as (Hm & Hs & Hc & Heq). repeat split; lia.
Qed.

Lemma hms_fields cs : let '(h, m, s, c) := hms_split cs in
  0 <= h < 24 /\ 0 <= m < 60 /\ 0 <= s < 60 /\ 0 <= c < 100 /\
  cs mod 8640000 = 360000 * h + 6000 * m + 100 * s + c.
Proof.
  pose proof (dms_fields cs) as Hf. rewrite dms_split_eq in Hf. rewrite hms_split_eq.
  destruct Hf as (Hm & Hs & Hc & Heq).
  pose proof (Z.mod_pos_bound (cs / 360000) 24 ltac:(lia)) as Bh.
  pose proof (Z.div_mod (cs / 360000) 24 ltac:(lia)) as Hh.
  repeat split; try lia.
  set (h := cs / 360000 mod 24) in *. set (q := cs / 360000 / 24) in *.
  set (m := cs mod 360000 / 6000) in *. set (s := cs mod 360000 mod 6000 / 100) in *.
  set (c := cs mod 360000 mod 6000 mod 100) in *.
  symmetry. apply (Z.mod_unique_pos cs 8640000 q); lia.
Qed.
End Fields.

(* ---- parse o format, over R, with the generated dec2dec / ra2dec arithmetic ---- *)
Section Parse.
Open Scope R_scope.

Lemma parse_dms_value neg cs :
  parse_dms neg (dms_split cs) = (if neg then -1 else 1) * (IZR cs / 360000).
Proof.
  pose proof (dms_fields cs) as Hf. unfold parse_dms, seconds_field.
  destruct (dms_split cs) as [[[d m] s] c]. destruct Hf as (_ & _ & _ & Heq).
  rewrite Heq, parse_pos_eq, parse_neg_eq. rewrite !plus_IZR, !mult_IZR. destruct neg; field.
Qed.

Lemma parse_hms_value cs :
  parse_hms (hms_split cs) = IZR (cs mod 8640000) / 24000.
Proof.
  pose proof (hms_fields cs) as Hf. unfold parse_hms, seconds_field.
  destruct (hms_split cs) as [[[h m] s] c]. destruct Hf as (_ & _ & _ & _ & Heq).
  rewrite Heq, parse_pos_eq, ra_of_parse_eq. rewrite !plus_IZR, !mult_IZR. field.
Qed.

(* dec2dms then dec2dec: the ONLY error is that of the single rounding cs ~ |x| * 360000, exactly.
   In particular half a unit of the last printed digit (0.005 arcsec = 1/720000 deg) when the
   rounding is to nearest. *)
Lemma dms_roundtrip_exact (x : R) (cs : Z) :
  parse_dms (if Rlt_dec x 0 then true else false) (dms_split cs) - x
  = (if Rlt_dec x 0 then -1 else 1) * ((IZR cs - Rabs x * IZR dms_scale) / 360000).
Proof.
  rewrite parse_dms_value, dms_scale_eq.
  destruct (Rlt_dec x 0) as [Hn|Hn].
  - rewrite Rabs_left by lra. field.
  - rewrite Rabs_right by lra. field.
Qed.
Lemma dms_roundtrip (x e : R) (cs : Z) :
  Rabs (IZR cs - Rabs x * IZR dms_scale) <= 1 / 2 + e ->
  Rabs (parse_dms (if Rlt_dec x 0 then true else false) (dms_split cs) - x) <= (5 / 1000 + e / 100) / 3600.
Proof.
  intros H. rewrite dms_roundtrip_exact.
  set (t := IZR cs - Rabs x * IZR dms_scale) in *.
  assert (Ht : Rabs (t / 360000) <= (1 / 2 + e) / 360000).
  { unfold Rdiv. rewrite Rabs_mult, (Rabs_right (/ 360000)) by lra. nra. }
  destruct (Rlt_dec x 0).
  - replace (-1 * (t / 360000)) with (- (t / 360000)) by ring. rewrite Rabs_Ropp. lra.
  - rewrite Rmult_1_l. lra.
Qed.

(* dec2hms then ra2dec: equal modulo 360 degrees; 0.005 s of time = 1/48000 deg *)
Lemma hms_roundtrip_exact (x' : R) (cs : Z) :
  parse_hms (hms_split cs) - x' + 360 * IZR (cs / 8640000)%Z = (IZR cs - x' * IZR hms_scale) / 24000.
Proof.
  rewrite parse_hms_value, hms_scale_eq.
  pose proof (Z.div_mod cs 8640000 ltac:(lia)) as H. rewrite H at 3. rewrite plus_IZR, mult_IZR. field.
Qed.
Lemma hms_roundtrip (x' e : R) (cs : Z) :
  Rabs (IZR cs - x' * IZR hms_scale) <= 1 / 2 + e ->
  exists k : Z, Rabs (parse_hms (hms_split cs) + 360 * IZR k - x') <= (5 / 1000 + e / 100) / 3600 * 15
                /\ (0 <= x' <= 360 -> e < 1 / 2 -> (k = 0 \/ k = 1)%Z).
Proof.
  intros H. exists (cs / 8640000)%Z. split.
  - replace (parse_hms (hms_split cs) + 360 * IZR (cs / 8640000) - x')
      with (parse_hms (hms_split cs) - x' + 360 * IZR (cs / 8640000)%Z) by ring.
    rewrite hms_roundtrip_exact. set (t := IZR cs - x' * IZR hms_scale) in *.
    unfold Rdiv at 1. rewrite Rabs_mult, (Rabs_right (/ 24000)) by lra. lra.
  - intros Hx He. rewrite hms_scale_eq in H.
    assert (Hb : - (1 / 2 + e) <= IZR cs - x' * 24000 <= 1 / 2 + e).
    { split; [pose proof (Rle_abs (- (IZR cs - x' * 24000))) as Q; rewrite Rabs_Ropp in Q; lra
             | pose proof (Rle_abs (IZR cs - x' * 24000)); lra]. }
    assert (Hlo : -1 < IZR cs) by lra.
    assert (Hhi : IZR cs < 8640001) by lra.
    apply lt_IZR in Hlo. apply lt_IZR in Hhi.
    destruct (Z_lt_le_dec cs 0) as [Hneg|Hpos].
    + exfalso. lia.
    + destruct (Z_lt_le_dec cs 8640000) as [Hs|Hge].
      * left. apply Z.div_small. lia.
      * right. assert (Hq : (cs = 8640000 + (cs - 8640000))%Z) by lia.
        rewrite Hq. replace (8640000 + (cs - 8640000))%Z with ((cs - 8640000) + 1 * 8640000)%Z by lia.
        rewrite Z.div_add by lia. rewrite Z.div_small by lia. reflexivity.
Qed.
End Parse.

(* ---- the property-shaped statements ---- *)
Lemma c17_fields_in_range : forall cs : Z,
  (let '(d, m, s, c) := dms_split cs in
   (0 <= m < 60 /\ 0 <= s < 60 /\ 0 <= c < 100 /\ cs = 360000 * d + 6000 * m + 100 * s + c)%Z) /\
  (0 <= cs -> let '(d, m, s, c) := dms_split cs in
   (0 <= d /\ (cs <= 90 * 360000 -> d <= 90 /\ (d = 90 -> m = 0 /\ s = 0 /\ c = 0)) /\
    (cs <= 360 * 360000 -> d <= 360 /\ (d = 360 -> m = 0 /\ s = 0 /\ c = 0)))%Z)%Z /\
  (let '(h, m, s, c) := hms_split cs in
   (0 <= h < 24 /\ 0 <= m < 60 /\ 0 <= s < 60 /\ 0 <= c < 100 /\
    cs mod 8640000 = 360000 * h + 6000 * m + 100 * s + c)%Z).
Proof. intros cs. split; [exact (dms_fields cs)|]. split; [exact (dms_degrees cs) | exact (hms_fields cs)]. Qed.

Lemma c17_roundtrip_half_unit :
  (forall (x e : R) (cs : Z),
     Rabs (IZR cs - Rabs x * IZR dms_scale) <= 1 / 2 + e ->
     Rabs (parse_dms (if Rlt_dec x 0 then true else false) (dms_split cs) - x) <= (5 / 1000 + e / 100) / 3600)%R /\
  (forall (x' e : R) (cs : Z),
     Rabs (IZR cs - x' * IZR hms_scale) <= 1 / 2 + e ->
     exists k : Z, Rabs (parse_hms (hms_split cs) + 360 * IZR k - x') <= (5 / 1000 + e / 100) / 3600 * 15
                   /\ (0 <= x' <= 360 -> e < 1 / 2 -> (k = 0 \/ k = 1)%Z))%R.
Proof. split; [exact dms_roundtrip | exact hms_roundtrip]. Qed.
