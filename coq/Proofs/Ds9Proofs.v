(* C09 (extension) - lemmas about Model/Ds9.v.  First one small characterising lemma per generated leaf of Gen/Ds9.v, then the
   leaves are made opaque: a changed leaf breaks exactly its own lemma. *)
From Coq Require Import Reals ZArith Bool List Lia Lra.
From Aegean Require Import Lib.RBase Gen.SkyCoords Gen.Regions Gen.Ds9 Model.RegionModel Model.RegionSpec Model.SkyCoords
  Model.SkyCoordsSpec Model.Ds9 Proofs.RegionProofs Proofs.SkyCoordsProofs.
Import ListNotations.
Open Scope Z_scope.

(** * 1. leaves *)
Definition ds9_delims : list Z := [9; 10; 11; 12; 13; 32; 40; 41; 44].   (* white space ( ) , *)
Lemma circle_delims_eq : circle_delims = ds9_delims. Proof. reflexivity. Qed.
Lemma box_delims_eq : box_delims = ds9_delims. Proof. reflexivity. Qed.
Lemma poly_delims_eq : poly_delims = ds9_delims. Proof. reflexivity. Qed.
Lemma circle_ra_word_eq : circle_ra_word = 1. Proof. reflexivity. Qed.
Lemma circle_dec_word_eq : circle_dec_word = 2. Proof. reflexivity. Qed.
Lemma circle_radius_word_eq : circle_radius_word = 3. Proof. reflexivity. Qed.
Lemma circle_radius_strip_eq : circle_radius_strip = 1. Proof. reflexivity. Qed.
Lemma circle_ra_unit_colon_eq : circle_ra_unit_colon = 1. Proof. reflexivity. Qed.
Lemma circle_ra_unit_plain_eq : circle_ra_unit_plain = 0. Proof. reflexivity. Qed.
Lemma circle_dec_unit_eq : circle_dec_unit = 0. Proof. reflexivity. Qed.
Lemma circle_radius_unit_eq : circle_radius_unit = 3. Proof. reflexivity. Qed.
Lemma box_ra_word_eq : box_ra_word = 1. Proof. reflexivity. Qed.
Lemma box_dec_word_eq : box_dec_word = 2. Proof. reflexivity. Qed.
Lemma box_width_word_eq : box_width_word = 3. Proof. reflexivity. Qed.
Lemma box_height_word_eq : box_height_word = 4. Proof. reflexivity. Qed.
Lemma box_width_strip_eq : box_width_strip = 1. Proof. reflexivity. Qed.
Lemma box_height_strip_eq : box_height_strip = 1. Proof. reflexivity. Qed.
Lemma box_ra_unit_colon_eq : box_ra_unit_colon = 1. Proof. reflexivity. Qed.
Lemma box_ra_unit_plain_eq : box_ra_unit_plain = 0. Proof. reflexivity. Qed.
Lemma box_dec_unit_eq : box_dec_unit = 0. Proof. reflexivity. Qed.
Lemma box_width_unit_eq : box_width_unit = 3. Proof. reflexivity. Qed.
Lemma box_height_unit_eq : box_height_unit = 3. Proof. reflexivity. Qed.
Lemma box_half_width_eq x : box_half_width x = (x / 2)%R. Proof. reflexivity. Qed.
Lemma box_half_height_eq x : box_half_height x = (x / 2)%R. Proof. reflexivity. Qed.
Lemma box_corners_eq ra dec w h :
  box_corners ra dec w h = [(ra + w, dec + h); (ra - w, dec + h); (ra - w, dec - h); (ra + w, dec - h)]%R.
Proof. reflexivity. Qed.
Lemma poly_ra_start_eq : poly_ra_start = 1. Proof. reflexivity. Qed.
Lemma poly_ra_step_eq : poly_ra_step = 2. Proof. reflexivity. Qed.
Lemma poly_dec_start_eq : poly_dec_start = 2. Proof. reflexivity. Qed.
Lemma poly_dec_step_eq : poly_dec_step = 2. Proof. reflexivity. Qed.
Lemma poly_ra_unit_colon_eq : poly_ra_unit_colon = 1. Proof. reflexivity. Qed.
Lemma poly_ra_unit_plain_eq : poly_ra_unit_plain = 0. Proof. reflexivity. Qed.
Lemma poly_dec_unit_colon_eq : poly_dec_unit_colon = 0. Proof. reflexivity. Qed.
Lemma poly_dec_unit_plain_eq : poly_dec_unit_plain = 0. Proof. reflexivity. Qed.
Lemma reg_comment_char_eq : reg_comment_char = 35. Proof. reflexivity. Qed.
Lemma reg_dispatch_eq : reg_dispatch =
  [([98; 111; 120], 1); ([99; 105; 114; 99; 108; 101], 2); ([112; 111; 108; 121; 103; 111; 110], 3)].
Proof. reflexivity. Qed.
Lemma mask_select_cmp_eq : mask_select_cmp = 0. Proof. reflexivity. Qed.
Lemma mask_world_first_is_col_eq : mask_world_first_is_col = true. Proof. reflexivity. Qed.
Lemma mask_wcs_origin_eq : mask_wcs_origin = 0. Proof. reflexivity. Qed.
Lemma mask_pix_depth_eq D : mask_pix_depth D = D. Proof. reflexivity. Qed.
Lemma mask_pix_nest_eq : mask_pix_nest = true. Proof. reflexivity. Qed.
Lemma mask_region_depth_eq D : mask_region_depth D = D. Proof. reflexivity. Qed.
Lemma mask_insert_depth_eq D : mask_insert_depth D = D. Proof. reflexivity. Qed.
Lemma mask_defaults_eq : mask_default_threshold = 1 /\ mask_default_depth = 8. Proof. split; reflexivity. Qed.
Lemma poly_min_vertices_eq : poly_min_vertices = 3. Proof. reflexivity. Qed.

Local Opaque circle_delims box_delims poly_delims circle_ra_word circle_dec_word circle_radius_word circle_radius_strip
  circle_ra_unit_colon circle_ra_unit_plain circle_dec_unit circle_radius_unit box_ra_word box_dec_word box_width_word
  box_height_word box_width_strip box_height_strip box_ra_unit_colon box_ra_unit_plain box_dec_unit box_width_unit
  box_height_unit box_half_width box_half_height box_corners poly_ra_start poly_ra_step poly_dec_start poly_dec_step
  poly_ra_unit_colon poly_ra_unit_plain poly_dec_unit_colon poly_dec_unit_plain reg_comment_char reg_dispatch
  mask_select_cmp mask_world_first_is_col mask_wcs_origin mask_pix_depth mask_pix_nest mask_region_depth mask_insert_depth
  poly_min_vertices.

(** * 2. re.split on a character class *)
(* a word: no delimiter inside *)
Definition clean (d : list Z) (w : str) : Prop := forall c, In c w -> is_in c d = false.
Definition delim (d : list Z) (c : Z) : Prop := is_in c d = true.

Lemma split_nonnil d s : split d s <> [].
Proof. destruct s as [|c t]; cbn [split]; [discriminate|]. destruct (is_in c d); [discriminate|]. destruct (split d t); discriminate. Qed.

Lemma split_clean d w : clean d w -> split d w = [w].
Proof.
  induction w as [|c w IH]; intros H; cbn [split]; [reflexivity|].
  rewrite (H c (or_introl eq_refl)). rewrite IH; [reflexivity|]. intros x Hx. apply H. right. exact Hx.
Qed.

Lemma split_app d w c t : clean d w -> delim d c -> split d (w ++ c :: t) = w :: split d t.
Proof.
  intros Hw Hc. induction w as [|a w IH]; cbn [app split].
  - unfold delim in Hc. rewrite Hc. reflexivity.
  - rewrite (Hw a (or_introl eq_refl)). rewrite IH; [reflexivity|]. intros x Hx. apply Hw. right. exact Hx.
Qed.

(* a line  head d1 w1 d2 w2 ... dn wn d tail : the head, then the words, then whatever the tail splits into *)
Fixpoint join (dws : list (Z * str)) : str :=
  match dws with [] => [] | (d, w) :: t => d :: w ++ join t end.

Lemma split_join d dws c tail : Forall (fun dw => delim d (fst dw) /\ clean d (snd dw)) dws -> delim d c ->
  forall head, clean d head ->
  split d (head ++ join dws ++ c :: tail) = head :: map snd dws ++ split d tail.
Proof.
  intros H Hc. induction H as [|[d0 w0] dws [Hd0 Hw0] _ IH]; intros head Hh; cbn [join map app].
  - apply split_app; assumption.
  - cbn [fst snd] in *. rewrite split_app by assumption.
    replace ((w0 ++ join dws) ++ c :: tail) with (w0 ++ join dws ++ c :: tail) by (rewrite app_assoc; reflexivity).
    rewrite IH by assumption. reflexivity.
Qed.

(** * 3. circle2circle *)
Lemma word_1 a b l : word 1 (a :: b :: l) = Some b. Proof. reflexivity. Qed.
Lemma word_2 a b c l : word 2 (a :: b :: c :: l) = Some c. Proof. reflexivity. Qed.
Lemma word_3 a b c d l : word 3 (a :: b :: c :: d :: l) = Some d. Proof. reflexivity. Qed.
Lemma word_4 a b c d e l : word 4 (a :: b :: c :: d :: e :: l) = Some e. Proof. reflexivity. Qed.
Lemma cut_last_1 r q : cut_last 1 (r ++ [q]) = r.
Proof.
  unfold cut_last. rewrite app_length. cbn [length]. replace (length r + 1 - Z.to_nat 1)%nat with (length r) by lia.
  rewrite firstn_app, Nat.sub_diag, firstn_all. cbn [firstn]. apply app_nil_r.
Qed.

Lemma circle_sym_words head a b r rest : split ds9_delims head = head :: a :: b :: r :: rest ->
  circle_sym head = Some ((if has_colon a then 1 else 0, a), (0, b), (3, cut_last 1 r)).
Proof.
  intros E. unfold circle_sym. rewrite circle_delims_eq, E, circle_ra_word_eq, circle_dec_word_eq, circle_radius_word_eq.
  rewrite word_1, word_2, word_3.
  unfold ra_unit. rewrite circle_ra_unit_colon_eq, circle_ra_unit_plain_eq, circle_dec_unit_eq, circle_radius_unit_eq,
    circle_radius_strip_eq. reflexivity.
Qed.

(* circle<d1>a<d2>b<d3>r q<d4>tail, e.g. circle(a,b,rq) : the radius word loses its LAST character q, whatever it is, and is read
   as arc seconds; ra is read as hours when it contains ':' *)
Lemma circle2circle_line A head d1 a d2 b d3 r q d4 tail :
  clean ds9_delims head -> clean ds9_delims a -> clean ds9_delims b -> clean ds9_delims (r ++ [q]) ->
  delim ds9_delims d1 -> delim ds9_delims d2 -> delim ds9_delims d3 -> delim ds9_delims d4 ->
  circle2circle A (head ++ d1 :: a ++ d2 :: b ++ d3 :: (r ++ [q]) ++ d4 :: tail) =
  Some (angle_str A (if has_colon a then 1 else 0) a, angle_str A 0 b, angle_str A 3 r).
Proof.
  intros Hh Ha Hb Hr H1 H2 H3 H4.
  pose proof (split_join ds9_delims [(d1, a); (d2, b); (d3, r ++ [q])] d4 tail) as S.
  cbn [join map snd app] in S. rewrite app_nil_r in S.
  unfold circle2circle.
  assert (E : exists rest, split circle_delims (head ++ d1 :: a ++ d2 :: b ++ d3 :: (r ++ [q]) ++ d4 :: tail)
                           = head :: a :: b :: (r ++ [q]) :: rest).
  { exists (split ds9_delims tail). rewrite circle_delims_eq.
    replace (head ++ d1 :: a ++ d2 :: b ++ d3 :: (r ++ [q]) ++ d4 :: tail)
      with (head ++ (d1 :: a ++ d2 :: b ++ d3 :: r ++ [q]) ++ d4 :: tail).
    - apply S; [|assumption|assumption].
      repeat (apply Forall_cons; [cbn [fst snd]; split; assumption|]). apply Forall_nil.
    - cbn [app]. f_equal. f_equal. rewrite <- !app_assoc. cbn [app]. f_equal. f_equal. rewrite <- !app_assoc. cbn [app].
      f_equal. f_equal. rewrite <- !app_assoc. reflexivity. }
  destruct E as [rest E].
  unfold circle_sym. rewrite E, circle_ra_word_eq, circle_dec_word_eq, circle_radius_word_eq.
  rewrite word_1, word_2, word_3.
  unfold ra_unit, aval. rewrite circle_ra_unit_colon_eq, circle_ra_unit_plain_eq, circle_dec_unit_eq, circle_radius_unit_eq,
    circle_radius_strip_eq, cut_last_1. cbn [fst snd]. reflexivity.
Qed.

Section Astropy.
  Variable A : astro.
  (* the words the hypotheses speak about: decimal numbers, and numbers or sexagesimal triples *)
  Variable numeric : str -> Prop.
  Variable coordinate : str -> Prop.
  (* A1 *) Hypothesis A_arcsec_str : forall s, numeric s -> angle_str A 3 s = (pyfloat A s / 3600)%R.
  (* A2 *) Hypothesis A_hour : forall s, coordinate s -> angle_str A 1 s = (15 * angle_str A 0 s)%R.
  (* A3 *) Hypothesis A_arcsec_num : forall x, angle_num A 3 x = (x / 3600)%R.

  (* C09x_circle_units: for `circle(a,b,r'')` the centre is (a [x 15 when written h:m:s], b) degrees and the radius r / 3600
     degrees.  The character after r is NOT looked at: r' and r'' and rd give the same radius, and a radius without a unit
     suffix loses its last digit (recorded finding) *)
  Theorem circle_units : forall head d1 a d2 b d3 r q d4 tail,
    clean ds9_delims head -> clean ds9_delims a -> clean ds9_delims b -> clean ds9_delims (r ++ [q]) ->
    delim ds9_delims d1 -> delim ds9_delims d2 -> delim ds9_delims d3 -> delim ds9_delims d4 ->
    coordinate a -> numeric r ->
    circle2circle A (head ++ d1 :: a ++ d2 :: b ++ d3 :: (r ++ [q]) ++ d4 :: tail) =
    Some ((if has_colon a then 15 * angle_str A 0 a else angle_str A 0 a)%R, angle_str A 0 b, (pyfloat A r / 3600)%R).
  Proof.
    intros. rewrite circle2circle_line by assumption. rewrite A_arcsec_str by assumption.
    destruct (has_colon a); [rewrite A_hour by assumption|]; reflexivity.
  Qed.

  (** * 4. box2poly *)
  Lemma box_sym_words line head a b w h rest : split ds9_delims line = head :: a :: b :: w :: h :: rest ->
    box_sym line = Some ((if has_colon a then 1 else 0, a), (0, b), cut_last 1 w, cut_last 1 h).
  Proof.
    intros E. unfold box_sym. rewrite box_delims_eq, E, box_ra_word_eq, box_dec_word_eq, box_width_word_eq, box_height_word_eq.
    rewrite word_1, word_2, word_3, word_4.
    unfold ra_unit. rewrite box_ra_unit_colon_eq, box_ra_unit_plain_eq, box_dec_unit_eq, box_width_strip_eq, box_height_strip_eq.
    reflexivity.
  Qed.

  (* the polygon of a box whose first five words are box a b w'' h'': with (cra, cdec) the centre as SkyCoord reports it and
     hw = w / 7200, hh = h / 7200 degrees, the corners are (cra +- hw, cdec +- hh) IN COORDINATES (no 1 / cos dec on the RA side,
     recorded finding), in the order ++ -+ -- +-; whatever follows the fifth word (the rotation angle) is not read *)
  Theorem box_corners_thm : forall line head a b w qw h qh rest,
    split ds9_delims line = head :: a :: b :: (w ++ [qw]) :: (h ++ [qh]) :: rest ->
    let c := skycoord A (angle_str A (if has_colon a then 1 else 0) a) (angle_str A 0 b) in
    let hw := (pyfloat A w / 7200)%R in let hh := (pyfloat A h / 7200)%R in
    box2poly A line = Some [(fst c + hw, snd c + hh); (fst c - hw, snd c + hh); (fst c - hw, snd c - hh); (fst c + hw, snd c - hh)]%R.
  Proof.
    intros line head a b w qw h qh rest E c hw hh. unfold box2poly. rewrite (box_sym_words _ _ _ _ _ _ _ E).
    cbn [option_map box_values]. rewrite !cut_last_1. unfold aval. cbn [fst snd].
    rewrite box_width_unit_eq, box_height_unit_eq, !A_arcsec_num, box_half_width_eq, box_half_height_eq, box_corners_eq.
    subst c hw hh. do 2 f_equal; repeat (f_equal; try field).
  Qed.

  Theorem box_symmetric : forall ra dec w h p1 p2 p3 p4, box_corners ra dec w h = [p1; p2; p3; p4] ->
    (fst p1 + fst p3 = 2 * ra /\ snd p1 + snd p3 = 2 * dec /\ fst p2 + fst p4 = 2 * ra /\ snd p2 + snd p4 = 2 * dec /\
     snd p1 = snd p2 /\ fst p2 = fst p3 /\ snd p3 = snd p4 /\ fst p4 = fst p1)%R.
  Proof.
    intros ra dec w h p1 p2 p3 p4 E. rewrite box_corners_eq in E. injection E as <- <- <- <-. cbn [fst snd].
    repeat split; lra.
  Qed.

  Lemma word_firstn i n ws : 0 <= i -> (Z.to_nat i < n)%nat -> word i (firstn n ws) = word i ws.
  Proof.
    intros Hi Hn. unfold word. destruct (Z.ltb_spec i 0); [lia|].
    revert n Hn ws. generalize (Z.to_nat i). intros k. induction k as [|k IH]; intros n Hn ws.
    - destruct n; [lia|]. destruct ws; reflexivity.
    - destruct n; [lia|]. destruct ws; [reflexivity|]. cbn [firstn nth_error]. apply IH. lia.
  Qed.

  Theorem box_angle_ignored : forall l1 l2, firstn 5 (split ds9_delims l1) = firstn 5 (split ds9_delims l2) ->
    box2poly A l1 = box2poly A l2.
  Proof.
    intros l1 l2 E. unfold box2poly, box_sym. rewrite box_delims_eq, box_ra_word_eq, box_dec_word_eq, box_width_word_eq, box_height_word_eq.
    rewrite <- (word_firstn 1 5 (split ds9_delims l1)), <- (word_firstn 2 5 (split ds9_delims l1)),
            <- (word_firstn 3 5 (split ds9_delims l1)), <- (word_firstn 4 5 (split ds9_delims l1)) by (cbn; lia).
    rewrite E.
    rewrite !word_firstn by (cbn; lia). reflexivity.
  Qed.
End Astropy.

(** * 5. poly2poly *)
Fixpoint every_other (l : list str) : list str :=
  match l with a :: t => a :: match t with _ :: t' => every_other t' | [] => [] end | [] => [] end.

Lemma every_other_cons2 a b t : every_other (a :: b :: t) = a :: every_other t. Proof. reflexivity. Qed.

Lemma stride2 fuel : forall l, (length l <= fuel)%nat -> stride_aux fuel 2 l = every_other l.
Proof.
  induction fuel as [|f IH]; intros l Hl.
  - destruct l; [reflexivity | cbn in Hl; lia].
  - destruct l as [|a [|b t]]; cbn [stride_aux pred skipn]; [reflexivity | destruct f; reflexivity |].
    rewrite IH by (cbn [length] in Hl; lia). reflexivity.
Qed.

Lemma py_slice_1_2 w0 ws : py_slice 1 2 (w0 :: ws) = every_other ws.
Proof. unfold py_slice. cbn [Z.to_nat Pos.to_nat Pos.iter_op Nat.add skipn]. apply stride2. cbn [length]. lia. Qed.
Lemma py_slice_2_2 w0 ws : py_slice 2 2 (w0 :: ws) = every_other (tl ws).
Proof.
  unfold py_slice. cbn [Z.to_nat Pos.to_nat Pos.iter_op Nat.add]. destruct ws as [|w1 ws]; cbn [skipn tl]; [reflexivity|].
  apply stride2. cbn [length]. lia.
Qed.

Definition keep (p : str * str) : bool := negb (blank (fst p) || blank (snd p)).
Definition zipped (ws : list str) : list (str * str) := filter keep (combine (every_other ws) (every_other (tl ws))).

Lemma poly_pairs_eq w0 ws : poly_pairs (w0 :: ws) = zipped ws.
Proof.
  unfold poly_pairs. rewrite poly_ra_start_eq, poly_ra_step_eq, poly_dec_start_eq, poly_dec_step_eq, py_slice_1_2, py_slice_2_2.
  reflexivity.
Qed.

Lemma zipped_cons2 a b t : zipped (a :: b :: t) = (if keep (a, b) then [(a, b)] else []) ++ zipped t.
Proof.
  unfold zipped. cbn [tl]. rewrite every_other_cons2.
  destruct t as [|c t']; cbn [every_other tl combine filter]; destruct (keep (a, b)); reflexivity.
Qed.

Lemma zipped_blank rest : Forall (fun w => blank w = true) rest -> zipped rest = [].
Proof.
  revert rest. fix IH 2. intros rest H. destruct H as [|a t Ha Ht]; [reflexivity|].
  destruct Ht as [|b t' Hb Ht'].
  - reflexivity.
  - rewrite zipped_cons2. unfold keep. cbn [fst snd]. rewrite Ha. cbn [orb negb app]. apply IH. exact Ht'.
Qed.

Fixpoint flatten (vs : list (str * str)) : list str := match vs with [] => [] | (a, b) :: t => a :: b :: flatten t end.

Lemma zipped_pairs vs rest : Forall (fun v => blank (fst v) = false /\ blank (snd v) = false) vs ->
  Forall (fun w => blank w = true) rest -> zipped (flatten vs ++ rest) = vs.
Proof.
  intros Hv Hr. induction Hv as [|[a b] vs [Ha Hb] _ IH]; cbn [flatten app].
  - apply zipped_blank. exact Hr.
  - rewrite zipped_cons2. unfold keep. cbn [fst snd] in *. rewrite Ha, Hb. cbn [orb negb app]. rewrite IH. reflexivity.
Qed.

(* one more word than pairs: the unpaired last coordinate is dropped without a message *)
Lemma zipped_odd vs x rest : Forall (fun v => blank (fst v) = false /\ blank (snd v) = false) vs ->
  Forall (fun w => blank w = true) rest -> rest <> [] -> zipped (flatten vs ++ x :: rest) = vs.
Proof.
  intros Hv Hr Hne. induction Hv as [|[a b] vs [Ha Hb] _ IH]; cbn [flatten app].
  - destruct Hr as [|e rest He Hr]; [congruence|]. rewrite zipped_cons2. unfold keep. cbn [fst snd]. rewrite He.
    rewrite orb_true_r. cbn [negb app]. apply zipped_blank. exact Hr.
  - rewrite zipped_cons2. unfold keep. cbn [fst snd] in *. rewrite Ha, Hb. cbn [orb negb app]. rewrite IH. reflexivity.
Qed.

Definition units_of (v : str * str) : aword * aword := ((if has_colon (fst v) then 1 else 0, fst v), (0, snd v)).
Lemma poly_units_eq v : poly_units v = units_of v.
Proof.
  unfold poly_units, units_of. rewrite poly_ra_unit_colon_eq, poly_ra_unit_plain_eq, poly_dec_unit_colon_eq, poly_dec_unit_plain_eq.
  destruct (has_colon (fst v)); reflexivity.
Qed.

Lemma split_blank_tail tail : Forall (fun c => is_in c ws_chars = true) tail ->
  Forall (fun w => blank w = true) (split ds9_delims tail).
Proof.
  induction 1 as [|c t Hc _ IH]; cbn [split]; [repeat constructor|].
  assert (E : is_in c ds9_delims = true).
  { unfold is_in, ws_chars, ds9_delims in *. cbn [existsb] in *. rewrite !orb_false_r in Hc.
    repeat (apply orb_true_iff in Hc; destruct Hc as [Hc|Hc]; [rewrite Hc; rewrite ?orb_true_r; reflexivity|]).
    rewrite Hc. rewrite ?orb_true_r. reflexivity. }
  rewrite E. constructor; [reflexivity | exact IH].
Qed.

(* a word of a coordinate list: no delimiter, not empty *)
Definition coordword (w : str) : Prop := clean ds9_delims w /\ w <> [].
Lemma coordword_not_blank w : coordword w -> blank w = false.
Proof.
  intros [Hc Hne]. destruct w as [|c w]; [congruence|]. unfold blank. cbn [forallb].
  assert (E : is_in c ws_chars = false).
  { specialize (Hc c (or_introl eq_refl)). unfold is_in, ws_chars, ds9_delims in *. cbn [existsb] in *.
    rewrite !orb_false_r in *. repeat (apply orb_false_iff in Hc; destruct Hc as [? Hc]).
    repeat (apply orb_false_iff; split; try assumption). }
  rewrite E. reflexivity.
Qed.

Fixpoint pair_text (sep : Z) (vs : list (str * str)) : list (Z * str) :=
  match vs with [] => [] | (a, b) :: t => (sep, a) :: (44, b) :: pair_text 44 t end.
Lemma pair_text_words sep vs : map snd (pair_text sep vs) = flatten vs.
Proof. revert sep. induction vs as [|[a b] vs IH]; intros sep; cbn [pair_text map snd flatten]; [reflexivity|]. rewrite IH. reflexivity. Qed.
Lemma pair_text_ok sep vs : delim ds9_delims sep -> Forall (fun v => coordword (fst v) /\ coordword (snd v)) vs ->
  Forall (fun dw => delim ds9_delims (fst dw) /\ clean ds9_delims (snd dw)) (pair_text sep vs).
Proof.
  intros Hs H. revert sep Hs. induction H as [|[a b] vs [[Ha _] [Hb _]] _ IH]; intros sep Hs; cbn [pair_text]; [constructor|].
  cbn [fst snd] in *. constructor; [split; assumption|]. constructor; [split; [reflexivity | assumption]|]. apply IH. reflexivity.
Qed.

(* C09x_poly_vertices_in_order: polygon(a1,b1,...,an,bn) followed by white space only gives exactly the n pairs, in file order
   (ra as hours when it contains ':'), nothing dropped, nothing duplicated *)
Theorem poly_vertices_in_order : forall head vs tail,
  clean ds9_delims head -> Forall (fun v => coordword (fst v) /\ coordword (snd v)) vs ->
  Forall (fun c => is_in c ws_chars = true) tail ->
  poly_sym (head ++ join (pair_text 40 vs) ++ 41 :: tail) = map units_of vs.
Proof.
  intros head vs tail Hh Hv Ht. unfold poly_sym. rewrite poly_delims_eq.
  rewrite split_join; [| apply pair_text_ok; [reflexivity | exact Hv] | reflexivity | exact Hh].
  rewrite poly_pairs_eq, pair_text_words, zipped_pairs.
  - apply map_ext. exact poly_units_eq.
  - eapply Forall_impl; [|exact Hv]. intros v [H1 H2]. split; apply coordword_not_blank; assumption.
  - apply split_blank_tail. exact Ht.
Qed.

(* an odd number of coordinates: the last one is dropped silently *)
Theorem poly_odd_drops_last : forall head vs x tail,
  clean ds9_delims head -> Forall (fun v => coordword (fst v) /\ coordword (snd v)) vs -> clean ds9_delims x ->
  Forall (fun c => is_in c ws_chars = true) tail ->
  poly_sym (head ++ join (pair_text 40 vs ++ [(44, x)]) ++ 41 :: tail) = map units_of vs.
Proof.
  intros head vs x tail Hh Hv Hx Ht. unfold poly_sym. rewrite poly_delims_eq.
  rewrite split_join; [| | reflexivity | exact Hh].
  - rewrite poly_pairs_eq, map_app, pair_text_words. cbn [map snd]. rewrite <- app_assoc. cbn [app]. rewrite zipped_odd.
    + apply map_ext. exact poly_units_eq.
    + eapply Forall_impl; [|exact Hv]. intros v [H1 H2]. split; apply coordword_not_blank; assumption.
    + apply split_blank_tail. exact Ht.
    + apply split_nonnil.
  - apply Forall_app. split; [apply pair_text_ok; [reflexivity | exact Hv]|]. constructor; [split; [reflexivity | exact Hx] | constructor].
Qed.

(** * 6. Region.add_circles: scalars and sequences *)
Theorem add_circles_scalar_list : forall hp s ra dec r d,
  add_circles_args hp s (CScalar ra dec r) d = add_circles_args hp s (CVector [ra] [dec] [r]) d.
Proof. reflexivity. Qed.

(* n circles in one call = the union of what was there and the n one-circle regions *)
Theorem add_circles_union : forall hp, H0_disc_valid hp -> forall s ras decs rs d q,
  Inv s -> depth_ok d ->
  (absP (add_circles_args hp s (CVector ras decs rs) d) q <->
   absP s q \/ exists c, In c (combine (combine ras decs) rs) /\
                         absP (add_circles_args hp (init (depth s)) (CScalar (fst (fst c)) (snd (fst c)) (snd c)) d) q).
Proof.
  intros hp H0 s ras decs rs d q HI Hd. unfold add_circles_args. cbn [circles_of].
  assert (HD : 1 <= depth s) by apply HI.
  pose proof (circle_depth_range (depth s) d HD Hd) as Hdd.
  rewrite add_circles_eq, add_many_absP by exact Hdd.
  split.
  - intros [H|[ps [Hps Hq]]]; [left; exact H|]. right. apply in_map_iff in Hps. destruct Hps as [c [E Hc]]. subst ps.
    exists c. split; [exact Hc|]. rewrite add_circles_eq. cbn [init depth]. apply add_many_absP; [exact Hdd|].
    right. eexists. split; [left; reflexivity|]. destruct c as [[a b] r]. exact Hq.
  - intros [H|[c [Hc Hq]]]; [left; exact H|]. right. rewrite add_circles_eq in Hq. cbn [init depth] in Hq.
    apply add_many_absP in Hq; [|exact Hdd]. destruct Hq as [Hq|[ps [[E|[]] Hq]]]; [exfalso; exact (init_absP _ _ Hq)|].
    subst ps. exists (disc_pixels hp (circle_depth (depth s) d) c). split; [apply in_map; exact Hc|].
    destruct c as [[a b] r]. exact Hq.
Qed.

(** * 7. mask2mim *)
Lemma selects_ge v thr : selects v thr = match v with Some x => thr <=? x | None => false end.
Proof. unfold selects. rewrite mask_select_cmp_eq. destruct v; reflexivity. Qed.

Lemma in_enumerate {A} (l : list A) : forall i j a, In (j, a) (enumerate i l) <-> (i <= j /\ nth_error l (Z.to_nat (j - i)) = Some a).
Proof.
  induction l as [|x l IH]; intros i j a; cbn [enumerate In].
  - split; [tauto|]. intros [_ H]. destruct (Z.to_nat (j - i)); discriminate.
  - rewrite IH. split.
    + intros [E|[H1 H2]].
      * injection E as <- <-. split; [lia|]. rewrite Z.sub_diag. reflexivity.
      * split; [lia|]. replace (Z.to_nat (j - i)) with (S (Z.to_nat (j - (i + 1)))) by lia. exact H2.
    + intros [H1 H2]. destruct (Z.eq_dec i j) as [->|Hne].
      * left. rewrite Z.sub_diag in H2. cbn in H2. congruence.
      * right. split; [lia|]. replace (Z.to_nat (j - i)) with (S (Z.to_nat (j - (i + 1)))) in H2 by lia. exact H2.
Qed.

Definition pixel_value (img : image) (r c : Z) : option (option Z) :=
  match nth_error img (Z.to_nat r) with Some row => nth_error row (Z.to_nat c) | None => None end.

(* which pixels are taken: exactly those with a (non-NaN) value >= threshold; (row, col) *)
Theorem selected_spec : forall img thr r c,
  In (r, c) (selected img thr) <-> 0 <= r /\ 0 <= c /\ exists x, pixel_value img r c = Some (Some x) /\ thr <= x.
Proof.
  intros img thr r c. unfold selected, pixel_value. rewrite in_flat_map. split.
  - intros [[i row] [Hi Hin]]. cbn [fst snd] in Hin. apply in_map_iff in Hin. destruct Hin as [[j v] [E Hf]].
    cbn [fst] in E. injection E as <- <-. apply filter_In in Hf. destruct Hf as [Hj Hs]. cbn [snd] in Hs.
    apply in_enumerate in Hi. apply in_enumerate in Hj. rewrite Z.sub_0_r in *. destruct Hi as [Hi0 Hi], Hj as [Hj0 Hj].
    rewrite selects_ge in Hs. destruct v as [x|]; [|discriminate]. apply Z.leb_le in Hs.
    split; [exact Hi0|]. split; [exact Hj0|]. exists x. rewrite Hi. split; assumption.
  - intros [Hr [Hc [x [Hv Hx]]]]. destruct (nth_error img (Z.to_nat r)) as [row|] eqn:Er; [|discriminate].
    exists (r, row). split; [apply in_enumerate; rewrite Z.sub_0_r; split; assumption|]. cbn [fst snd].
    apply in_map_iff. exists (c, Some x). split; [reflexivity|]. apply filter_In. split.
    + apply in_enumerate. rewrite Z.sub_0_r. split; assumption.
    + cbn [snd]. rewrite selects_ge. apply Z.leb_le. exact Hx.
Qed.

Section MaskProofs.
  Variable hp : healpy.
  Variable vec2pix : Z -> bool -> vec -> Z.
  Variable pix2world : R -> R -> Z -> R * R.
  Hypothesis H_nested : H5_nested hp.
  (* V1: away from the poles (where the vector forgets phi) vec2pix of the direction (theta, phi) is the pixel ang2pix gives for it; V2: a valid pixel number *)
  Hypothesis V_vec2pix : forall d t p, (0 < t < PI)%R -> vec2pix d true (ang2vec hp t p) = ang2pix hp d true t p.
  Hypothesis V_valid : forall d v, 1 <= d -> (0 <= vec2pix d true v < 12 * 4 ^ d).

  Lemma mask2mim_eq D img thr :
    mask2mim hp vec2pix pix2world D img thr = add_many (init D) D [map (mask_pix hp vec2pix pix2world D) (selected img thr)].
  Proof. unfold mask2mim, mask_region, add_many. rewrite mask_region_depth_eq, mask_insert_depth_eq. reflexivity. Qed.

  (* the sky position of pixel (row r, column c): all_pix2world(c, r, 0) *)
  Lemma mask_sky_eq r c : mask_sky pix2world (r, c) = pix2world (IZR c) (IZR r) 0.
  Proof. unfold mask_sky, world_args. rewrite mask_world_first_is_col_eq, mask_wcs_origin_eq. reflexivity. Qed.

  Lemma mask_pix_eq D r c : let s := pix2world (IZR c) (IZR r) 0 in
    (- 90 < snd s < 90)%R ->
    mask_pix hp vec2pix pix2world D (r, c) = ang2pix hp D true (PI / 2 - rad (snd s)) (rad (fst s)).
  Proof.
    intros s Hs. unfold mask_pix. rewrite mask_sky_eq, mask_pix_depth_eq, mask_pix_nest_eq, sky2vec_eq. fold s.
    apply V_vec2pix. unfold rad. pose proof PI_RGT_0. split; nra.
  Qed.

  Lemma pixs_valid D l : 1 <= D -> Forall (valid_pix D) [map (mask_pix hp vec2pix pix2world D) l].
  Proof.
    intros HD. constructor; [|constructor]. apply Forall_forall. intros p Hp. apply in_map_iff in Hp. destruct Hp as [rc [<- _]].
    unfold mask_pix. rewrite mask_pix_depth_eq, mask_pix_nest_eq. apply V_valid. exact HD.
  Qed.

  (* C09x_mask2mim_covers: the sky position of (the centre of) every selected image pixel is inside the region, asked in degrees
     as the WCS gives it or in radians *)
  Theorem mask2mim_covers : forall D img thr r c, 1 <= D -> In (r, c) (selected img thr) ->
    let s := pix2world (IZR c) (IZR r) 0 in (- 90 < snd s < 90)%R ->
    sky_within1 hp (mask2mim hp vec2pix pix2world D img thr) (Some (fst s)) (Some (snd s)) true = true /\
    sky_within1 hp (mask2mim hp vec2pix pix2world D img thr) (Some (rad (fst s))) (Some (rad (snd s))) false = true.
  Proof.
    intros D img thr r c HD Hin s Hs.
    assert (Hw : sky_within1 hp (mask2mim hp vec2pix pix2world D img thr) (Some (rad (fst s))) (Some (rad (snd s))) false = true).
    { rewrite mask2mim_eq.
      apply (inserted_within hp H_nested (init D) D _ (map (mask_pix hp vec2pix pix2world D) (selected img thr))).
      - apply init_Inv. exact HD.
      - cbn [init depth]. lia.
      - apply pixs_valid. exact HD.
      - unfold rad. pose proof PI_RGT_0. split; nra.
      - left. reflexivity.
      - apply in_map_iff. exists (r, c). split; [apply mask_pix_eq; exact Hs | exact Hin]. }
    split; [|exact Hw]. rewrite degin_same. exact Hw.
  Qed.

  (* ... and conversely (one HEALPix cell of depth D is the resolution): a position inside the region lies in the same depth-D
     pixel as the sky position of some selected image pixel *)
  Theorem mask2mim_only : forall D img thr ra dec, 1 <= D -> (- (PI / 2) <= dec <= PI / 2)%R ->
    (forall r c, In (r, c) (selected img thr) -> (- 90 < snd (pix2world (IZR c) (IZR r) 0) < 90)%R) ->
    sky_within1 hp (mask2mim hp vec2pix pix2world D img thr) (Some ra) (Some dec) false = true ->
    exists r c, In (r, c) (selected img thr) /\
      let s := pix2world (IZR c) (IZR r) 0 in
      ang2pix hp D true (PI / 2 - dec) ra = ang2pix hp D true (PI / 2 - rad (snd s)) (rad (fst s)).
  Proof.
    intros D img thr ra dec HD Hdec Hall Hw. rewrite mask2mim_eq in Hw.
    apply (within_inserted hp H_nested) in Hw; [| lia | apply pixs_valid; exact HD | exact Hdec].
    destruct Hw as [ps [[<-|[]] Hin]]. apply in_map_iff in Hin. destruct Hin as [[r c] [E Hsel]].
    exists r, c. split; [exact Hsel|]. cbn zeta. rewrite <- E. apply mask_pix_eq. apply Hall. exact Hsel.
  Qed.
End MaskProofs.
