(* C08 - proofs that the executable Region model (Model/RegionModel.v) refines the
   set-algebra specification (Model/RegionSpec.v).

   Layout:
     1. characterising lemmas for the GENERATED leaves of Gen/Regions.v.  These are the only
        places where a leaf is unfolded; afterwards the leaves are made opaque, so a change
        of a leaf in regions.py breaks exactly one named lemma here.
     2. list / membership helpers
     3. expand, cover
     4. _demote_all
     5. _renorm (promote_level, promote)
     6. union / set operations
     7. the step theorems, histories, normal form, queries
     8. area (counting) *)
From Coq Require Import ZArith Bool List Lia Permutation.
From Aegean Require Import Gen.Regions Model.RegionModel Model.RegionSpec.
Import ListNotations.
Open Scope Z_scope.

(* ------------------------------------------------------------------------------------ *)
(** * 1. The generated leaves *)

Lemma children_eq p : children p = [4 * p; 4 * p + 1; 4 * p + 2; 4 * p + 3].
Proof. reflexivity. Qed.
Lemma parent_eq p : parent p = p / 4.
Proof. reflexivity. Qed.
Lemma sibling_test_eq p : sibling_test p = (p mod 4 =? 0).
Proof. reflexivity. Qed.
Lemma sibling_members_eq p : sibling_members p = [p + 1; p + 2; p + 3].
Proof. reflexivity. Qed.
Lemma siblings_eq p : siblings p = [p; p + 1; p + 2; p + 3].
Proof. reflexivity. Qed.
Lemma degrade_eq p d D : degrade p d D = p / 4 ^ (d - D).
Proof. reflexivity. Qed.
Lemma demote_lo_eq : demote_lo = 1.
Proof. reflexivity. Qed.
Lemma demote_hi_eq D : demote_hi D = D.
Proof. reflexivity. Qed.
Lemma renorm_from_eq D : renorm_from D = D.
Proof. reflexivity. Qed.
Lemma renorm_stop_eq : renorm_stop = 2.
Proof. reflexivity. Qed.
Lemma area_lo_eq : area_lo = 1.
Proof. reflexivity. Qed.
Lemma area_hi_eq D : area_hi D = D + 1.
Proof. reflexivity. Qed.
Lemma add_pixels_resets_cache_eq : add_pixels_resets_cache = true.
Proof. reflexivity. Qed.

Local Opaque children parent sibling_test sibling_members siblings degrade demote_lo demote_hi
  renorm_from renorm_stop area_lo area_hi add_pixels_resets_cache.

(* derived forms, proved from the equations above only *)
Lemma sibling_test_spec p : sibling_test p = true <-> p mod 4 = 0.
Proof. rewrite sibling_test_eq. apply Z.eqb_eq. Qed.

Lemma in_children p c : In c (children p) <-> 4 * p <= c < 4 * p + 4.
Proof. rewrite children_eq. cbn [In]. lia. Qed.

Lemma in_siblings p x : In x (siblings p) <-> p <= x <= p + 3.
Proof. rewrite siblings_eq. cbn [In]. lia. Qed.

(* ------------------------------------------------------------------------------------ *)
(** * 2. Lists as sets *)

Lemma memZ_spec x l : memZ x l = true <-> In x l.
Proof.
  unfold memZ. rewrite existsb_exists. split.
  - intros [y [Hy Hxy]]. apply Z.eqb_eq in Hxy. subst y. exact Hy.
  - intros Hx. exists x. split; [exact Hx | apply Z.eqb_refl].
Qed.

Lemma memZ_false x l : memZ x l = false <-> ~ In x l.
Proof.
  rewrite <- memZ_spec. destruct (memZ x l); split; intros H; try reflexivity; try discriminate.
  - exfalso. apply H. reflexivity.
Qed.

Lemma in_level cs d p : In p (level cs d) <-> In (d, p) cs.
Proof.
  unfold level. rewrite in_map_iff. split.
  - intros [[d' p'] [Hsnd Hin]]. apply filter_In in Hin. destruct Hin as [Hin Hd].
    cbn [fst snd] in *. apply Z.eqb_eq in Hd. subst. exact Hin.
  - intros Hin. exists (d, p). split; [reflexivity|]. apply filter_In. split; [exact Hin|].
    cbn [fst]. apply Z.eqb_refl.
Qed.

Lemma in_at_level d ps c : In c (at_level d ps) <-> exists p, c = (d, p) /\ In p ps.
Proof.
  unfold at_level. rewrite in_map_iff. split.
  - intros [p [Hc Hp]]. exists p. split; [symmetry; exact Hc | exact Hp].
  - intros [p [Hc Hp]]. exists p. split; [symmetry; exact Hc | exact Hp].
Qed.

Lemma in_at_level_pair d ps e p : In (e, p) (at_level d ps) <-> e = d /\ In p ps.
Proof.
  rewrite in_at_level. split.
  - intros [p' [Hc Hp]]. inversion Hc. subst. split; [reflexivity | exact Hp].
  - intros [He Hp]. subst. exists p. split; [reflexivity | exact Hp].
Qed.

(* ------------------------------------------------------------------------------------ *)
(** * 3. expand and cover *)

Lemma pow4_pos k : 0 <= k -> 0 < 4 ^ k.
Proof. intros Hk. apply Z.pow_pos_nonneg; lia. Qed.

Lemma pow4_succ k : 0 <= k -> 4 ^ (k + 1) = 4 * 4 ^ k.
Proof. intros Hk. rewrite Z.pow_add_r by lia. rewrite Z.pow_1_r. lia. Qed.

(* q lies in the block of size P starting at P*p  <->  q / P = p *)
Lemma block_div P p q : 0 < P -> (P * p <= q < P * (p + 1) <-> q / P = p).
Proof.
  intros HP. split.
  - intros Hq. symmetry. apply (Z.div_unique_pos q P p (q - P * p)); lia.
  - intros Hq. subst p. pose proof (Z.mul_div_le q P HP). pose proof (Z.mul_succ_div_gt q P HP). lia.
Qed.

Lemma expand_spec k : forall p q,
  In q (expand k p) <-> 4 ^ Z.of_nat k * p <= q < 4 ^ Z.of_nat k * (p + 1).
Proof.
  induction k as [|k IH]; intros p q.
  - cbn [expand In]. change (Z.of_nat 0) with 0. rewrite Z.pow_0_r. lia.
  - cbn [expand]. rewrite in_flat_map.
    rewrite Nat2Z.inj_succ, <- Z.add_1_r, pow4_succ by lia.
    pose proof (pow4_pos (Z.of_nat k) ltac:(lia)) as HP.
    set (P := 4 ^ Z.of_nat k) in *.
    split.
    + intros [c [Hc Hq]]. apply in_children in Hc. apply IH in Hq. fold P in Hq. nia.
    + intros Hq. exists (q / P). split.
      * apply in_children.
        pose proof (Z.mul_div_le q P HP). pose proof (Z.mul_succ_div_gt q P HP). nia.
      * apply IH. fold P. apply block_div; [exact HP | reflexivity].
Qed.

Lemma cover_le D d p q : d <= D ->
  (cover D (d, p) q <-> 4 ^ (D - d) * p <= q < 4 ^ (D - d) * (p + 1)).
Proof.
  intros Hd. unfold cover. cbn [fst snd].
  destruct (Z.leb_spec d D) as [_|Hlt]; [tauto | lia].
Qed.

Lemma cover_gt D d p q : D < d -> (cover D (d, p) q <-> q = p / 4 ^ (d - D)).
Proof.
  intros Hd. unfold cover. cbn [fst snd].
  destruct (Z.leb_spec d D) as [Hle|_]; [lia | tauto].
Qed.

Lemma cover_div D d p q : d <= D -> (cover D (d, p) q <-> q / 4 ^ (D - d) = p).
Proof.
  intros Hd. rewrite cover_le by exact Hd. apply block_div. apply pow4_pos. lia.
Qed.

Lemma cover_top D p q : cover D (D, p) q <-> q = p.
Proof.
  rewrite cover_le by lia. rewrite Z.sub_diag, Z.pow_0_r. lia.
Qed.

(* the cell one level up covers exactly what its four children cover *)
Lemma cover_parent D d p q : d <= D -> p mod 4 = 0 ->
  (cover D (d - 1, p / 4) q <-> exists i, 0 <= i <= 3 /\ cover D (d, p + i) q).
Proof.
  intros Hd Hp.
  rewrite cover_div by lia.
  replace (D - (d - 1)) with ((D - d) + 1) by lia.
  rewrite pow4_succ by lia.
  pose proof (pow4_pos (D - d) ltac:(lia)) as HP.
  set (P := 4 ^ (D - d)) in *.
  rewrite (Z.mul_comm 4 P), <- Z.div_div by lia.
  split.
  - intros Hq. exists (q / P - p). split.
    + pose proof (Z.div_mod (q / P) 4 ltac:(lia)). pose proof (Z.mod_pos_bound (q / P) 4 ltac:(lia)).
      pose proof (Z.div_mod p 4 ltac:(lia)). lia.
    + apply cover_div; [lia|]. fold P. lia.
  - intros [i [Hi Hq]]. apply cover_div in Hq; [|lia]. fold P in Hq. rewrite Hq.
    pose proof (Z.div_mod p 4 ltac:(lia)) as E.
    symmetry. apply (Z.div_unique_pos (p + i) 4 (p / 4) i); lia.
Qed.

Lemma cover_set_nil D q : cover_set D [] q <-> False.
Proof. unfold cover_set. split; [intros [c [[] _]] | tauto]. Qed.

Lemma cover_set_app D a b q : cover_set D (a ++ b) q <-> cover_set D a q \/ cover_set D b q.
Proof.
  unfold cover_set. split.
  - intros [c [Hc Hq]]. apply in_app_or in Hc. destruct Hc as [Hc|Hc]; [left|right]; exists c; tauto.
  - intros [[c [Hc Hq]]|[c [Hc Hq]]]; exists c; (split; [apply in_or_app; tauto | exact Hq]).
Qed.

Lemma cover_set_ext D a b q : (forall c, In c a <-> In c b) -> (cover_set D a q <-> cover_set D b q).
Proof.
  intros H. unfold cover_set. split; intros [c [Hc Hq]]; exists c; (split; [apply H; exact Hc | exact Hq]).
Qed.

Theorem expand_cover : forall D d p q, 1 <= d <= D -> 0 <= p ->
  (In q (expand (Z.to_nat (D - d)) p) <-> cover D (d, p) q).
Proof.
  intros D d p q Hd _. rewrite expand_spec, cover_le by lia.
  rewrite Z2Nat.id by lia. tauto.
Qed.

(* ------------------------------------------------------------------------------------ *)
(** * 4. _demote_all *)

(* list-level versions of the spec predicates, convenient for the loops *)
Definition flat (D : Z) (cs : list cell) : Prop := forall c, In c cs -> fst c = D.
Definition nov (D : Z) (cs : list cell) : Prop :=
  forall c1 c2 q, In c1 cs -> In c2 cs -> cover D c1 q -> cover D c2 q -> c1 = c2.

Lemma vcells_in D cs c : Forall (vcell D) cs -> In c cs -> vcell D c.
Proof. intros H Hc. rewrite Forall_forall in H. apply H. exact Hc. Qed.

Lemma demotable_spec D c : demotable D c = true <-> 1 <= fst c < D.
Proof.
  unfold demotable. rewrite demote_lo_eq, demote_hi_eq.
  rewrite andb_true_iff, Z.leb_le, Z.ltb_lt. tauto.
Qed.

Lemma in_demoted_cells D cs c' :
  In c' (demoted_cells D cs) <->
  exists c, In c cs /\
    ((1 <= fst c < D /\ exists q, c' = (D, q) /\
        4 ^ (D - fst c) * snd c <= q < 4 ^ (D - fst c) * (snd c + 1))
     \/ (~ 1 <= fst c < D /\ c' = c)).
Proof.
  unfold demoted_cells. rewrite in_flat_map. split.
  - intros [c [Hc Hc']]. exists c. split; [exact Hc|].
    destruct (demotable D c) eqn:Hdem.
    + apply demotable_spec in Hdem. left. split; [exact Hdem|].
      rewrite demote_hi_eq in Hc'. apply in_at_level in Hc'. destruct Hc' as [q [Hq Hin]].
      exists q. split; [exact Hq|]. apply expand_spec in Hin.
      rewrite Z2Nat.id in Hin by lia. exact Hin.
    + right. split.
      * intros Hd. apply demotable_spec in Hd. congruence.
      * cbn [In] in Hc'. destruct Hc' as [Hc'|[]]. symmetry. exact Hc'.
  - intros [c [Hc Hcase]]. exists c. split; [exact Hc|].
    destruct Hcase as [[Hd [q [Hq Hin]]]|[Hd Heq]].
    + apply demotable_spec in Hd as Hdem. rewrite Hdem. rewrite demote_hi_eq.
      apply in_at_level. exists q. split; [exact Hq|]. apply expand_spec.
      rewrite Z2Nat.id by lia. exact Hin.
    + destruct (demotable D c) eqn:Hdem.
      * apply demotable_spec in Hdem. contradiction.
      * subst c'. left. reflexivity.
Qed.

Lemma demoted_cover D cs q : cover_set D (demoted_cells D cs) q <-> cover_set D cs q.
Proof.
  unfold cover_set. split.
  - intros [c' [Hc' Hq]]. apply in_demoted_cells in Hc'.
    destruct Hc' as [c [Hc [[Hd [q' [Heq Hin]]]|[Hd Heq]]]]; exists c; (split; [exact Hc|]).
    + subst c'. apply cover_top in Hq. subst q'. destruct c as [d p]. cbn [fst snd] in *.
      apply cover_le; [lia | exact Hin].
    + subst c'. exact Hq.
  - intros [c [Hc Hq]].
    destruct (Z_le_dec 1 (fst c)) as [H1|H1]; [destruct (Z_lt_dec (fst c) D) as [H2|H2]|].
    + exists (D, q). split.
      * apply in_demoted_cells. exists c. split; [exact Hc|]. left. split; [lia|].
        exists q. split; [reflexivity|]. destruct c as [d p]. cbn [fst snd] in *.
        apply cover_le in Hq; [exact Hq | lia].
      * apply cover_top. reflexivity.
    + exists c. split; [|exact Hq]. apply in_demoted_cells. exists c. split; [exact Hc|].
      right. split; [lia | reflexivity].
    + exists c. split; [|exact Hq]. apply in_demoted_cells. exists c. split; [exact Hc|].
      right. split; [lia | reflexivity].
Qed.

Lemma demoted_valid D cs : Forall (vcell D) cs -> Forall (vcell D) (demoted_cells D cs).
Proof.
  intros Hv. apply Forall_forall. intros c' Hc'. apply in_demoted_cells in Hc'.
  destruct Hc' as [c [Hc [[Hd [q [Heq Hin]]]|[Hd Heq]]]].
  - pose proof (vcells_in D cs c Hv Hc) as [Hlev Hpix]. subst c'. unfold vcell. cbn [fst snd].
    split; [lia|].
    pose proof (pow4_pos (D - fst c) ltac:(lia)) as HP.
    replace (4 ^ D) with (4 ^ (D - fst c) * 4 ^ fst c)
      by (rewrite <- Z.pow_add_r by lia; f_equal; lia).
    nia.
  - subst c'. exact (vcells_in D cs c Hv Hc).
Qed.

Lemma demoted_flat D cs : Forall (vcell D) cs -> flat D (demoted_cells D cs).
Proof.
  intros Hv c' Hc'. apply in_demoted_cells in Hc'.
  destruct Hc' as [c [Hc [[Hd [q [Heq Hin]]]|[Hd Heq]]]].
  - subst c'. reflexivity.
  - subst c'. pose proof (vcells_in D cs c Hv Hc) as [Hlev _]. lia.
Qed.

Lemma flat_nov D cs : flat D cs -> nov D cs.
Proof.
  intros Hf [d1 p1] [d2 p2] q H1 H2 Hq1 Hq2.
  pose proof (Hf _ H1) as E1. pose proof (Hf _ H2) as E2. cbn [fst] in E1, E2. subst d1 d2.
  apply cover_top in Hq1. apply cover_top in Hq2. congruence.
Qed.

Lemma flat_level_cover D cs q : flat D cs -> (In q (level cs D) <-> cover_set D cs q).
Proof.
  intros Hf. rewrite in_level. unfold cover_set. split.
  - intros Hin. exists (D, q). split; [exact Hin | apply cover_top; reflexivity].
  - intros [[d p] [Hc Hq]]. pose proof (Hf _ Hc) as E. cbn [fst] in E. subst d.
    apply cover_top in Hq. subst q. exact Hc.
Qed.

Lemma demote_all_cases s :
  (demote_all s = s /\ cached s = true) \/
  demote_all s = mkRegion (depth s) (demoted_cells (depth s) (cells s)) true.
Proof.
  unfold demote_all.
  destruct (cached s && negb match level (cells s) (depth s) with [] => true | _ :: _ => false end) eqn:E.
  - left. apply andb_true_iff in E. split; [reflexivity | tauto].
  - right. reflexivity.
Qed.

Lemma demote_all_depth s : depth (demote_all s) = depth s.
Proof. destruct (demote_all_cases s) as [[E _]|E]; rewrite E; reflexivity. Qed.

Lemma demote_all_absP s q : absP (demote_all s) q <-> absP s q.
Proof.
  destruct (demote_all_cases s) as [[E _]|E]; rewrite E; [tauto|].
  unfold absP. cbn [depth cells]. apply demoted_cover.
Qed.

Lemma demote_all_valid s : valid s -> valid (demote_all s).
Proof.
  intros [HD Hv]. destruct (demote_all_cases s) as [[E _]|E]; rewrite E; [split; assumption|].
  split; cbn [depth cells]; [exact HD | apply demoted_valid; exact Hv].
Qed.

Lemma demote_all_flat s : Inv s -> flat (depth s) (cells (demote_all s)).
Proof.
  intros [[HD Hv] Hc]. destruct (demote_all_cases s) as [[E Hcached]|E]; rewrite E.
  - exact (Hc Hcached).
  - cbn [cells]. apply demoted_flat. exact Hv.
Qed.

Lemma demote_all_Inv s : Inv s -> Inv (demote_all s).
Proof.
  intros HI. split; [apply demote_all_valid; apply HI|].
  intros _. rewrite demote_all_depth. apply demote_all_flat. exact HI.
Qed.

Lemma demote_all_level_absP s q : Inv s ->
  (In q (level (cells (demote_all s)) (depth s)) <-> absP s q).
Proof.
  intros HI. rewrite flat_level_cover by (apply demote_all_flat; exact HI).
  rewrite <- demote_all_absP. unfold absP. rewrite demote_all_depth. tauto.
Qed.

(* ------------------------------------------------------------------------------------ *)
(** * 5. _renorm *)

(* p heads a complete sibling group at level d *)
Definition compl (d : Z) (cs : list cell) (p : Z) : Prop :=
  p mod 4 = 0 /\ In (d, p) cs /\ In (d, p + 1) cs /\ In (d, p + 2) cs /\ In (d, p + 3) cs.

Lemma in_complete lv p :
  In p (complete lv) <->
  p mod 4 = 0 /\ In p lv /\ In (p + 1) lv /\ In (p + 2) lv /\ In (p + 3) lv.
Proof.
  unfold complete. rewrite filter_In, andb_true_iff, sibling_test_spec, sibling_members_eq.
  cbn [forallb]. rewrite !andb_true_iff, !memZ_spec. tauto.
Qed.

Lemma in_complete_level d cs p : In p (complete (level cs d)) <-> compl d cs p.
Proof. rewrite in_complete, !in_level. unfold compl. tauto. Qed.

(* the pixels removed at level d *)
Definition gone (d : Z) (cs : list cell) (x : Z) : Prop :=
  exists p, compl d cs p /\ p <= x <= p + 3.

Lemma in_gone d cs x : In x (flat_map siblings (complete (level cs d))) <-> gone d cs x.
Proof.
  rewrite in_flat_map. unfold gone. split.
  - intros [p [Hp Hx]]. exists p. split; [apply in_complete_level; exact Hp | apply in_siblings; exact Hx].
  - intros [p [Hp Hx]]. exists p. split; [apply in_complete_level; exact Hp | apply in_siblings; exact Hx].
Qed.

Lemma in_promote_level d cs c :
  In c (promote_level d cs) <->
  (exists p, compl d cs p /\ c = (d - 1, p / 4)) \/
  (In c cs /\ ~ (fst c = d /\ gone d cs (snd c))).
Proof.
  unfold promote_level. rewrite in_app_iff, in_at_level, filter_In.
  split.
  - intros [[x [Hc Hx]]|[Hc Hkeep]].
    + left. apply in_map_iff in Hx. destruct Hx as [p [Hx Hp]]. rewrite parent_eq in Hx.
      exists p. split; [apply in_complete_level; exact Hp | congruence].
    + right. split; [exact Hc|]. intros [Hd Hg].
      apply negb_true_iff, andb_false_iff in Hkeep.
      destruct Hkeep as [Hk|Hk].
      * apply Z.eqb_neq in Hk. contradiction.
      * apply memZ_false in Hk. apply Hk. apply in_gone. exact Hg.
  - intros [[p [Hp Hc]]|[Hc Hkeep]].
    + left. exists (p / 4). split; [exact Hc|]. apply in_map_iff. exists p.
      split; [apply parent_eq | apply in_complete_level; exact Hp].
    + right. split; [exact Hc|]. apply negb_true_iff, andb_false_iff.
      destruct (Z.eqb_spec (fst c) d) as [Hd|Hd]; [right | left; reflexivity].
      apply memZ_false. intros Hg. apply in_gone in Hg. tauto.
Qed.

Lemma promote_level_cover D d cs q : d <= D ->
  (cover_set D (promote_level d cs) q <-> cover_set D cs q).
Proof.
  intros Hd. unfold cover_set. split.
  - intros [c [Hc Hq]]. apply in_promote_level in Hc.
    destruct Hc as [[p [Hp Hc]]|[Hc _]].
    + subst c. destruct Hp as [Hmod [H0 [H1 [H2 H3]]]].
      apply cover_parent in Hq; [|lia|exact Hmod]. destruct Hq as [i [Hi Hq]].
      exists (d, p + i). split; [|exact Hq].
      assert (i = 0 \/ i = 1 \/ i = 2 \/ i = 3) as Hi' by lia.
      destruct Hi' as [E|[E|[E|E]]]; subst i; [rewrite Z.add_0_r|..]; assumption.
    + exists c. tauto.
  - intros [c [Hc Hq]].
    destruct c as [e x].
    destruct (Z.eq_dec e d) as [He|He].
    + subst e.
      (* is x part of a complete group? decide via the executable test *)
      destruct (memZ x (flat_map siblings (complete (level cs d)))) eqn:Hg.
      * apply memZ_spec, in_gone in Hg. destruct Hg as [p [Hp Hx]].
        exists (d - 1, p / 4). split.
        -- apply in_promote_level. left. exists p. split; [exact Hp | reflexivity].
        -- apply cover_parent; [lia | apply Hp |]. exists (x - p). split; [lia|].
           replace (p + (x - p)) with x by lia. exact Hq.
      * apply memZ_false in Hg. exists (d, x). split; [|exact Hq].
        apply in_promote_level. right. split; [exact Hc|]. cbn [fst snd].
        intros [_ Hgone]. apply Hg. apply in_gone. exact Hgone.
    + exists (e, x). split; [|exact Hq]. apply in_promote_level. right. split; [exact Hc|].
      cbn [fst]. tauto.
Qed.

Lemma promote_level_valid D d cs : 2 <= d <= D ->
  Forall (vcell D) cs -> Forall (vcell D) (promote_level d cs).
Proof.
  intros Hd Hv. apply Forall_forall. intros c Hc. apply in_promote_level in Hc.
  destruct Hc as [[p [Hp Hc]]|[Hc _]].
  - subst c. destruct Hp as [Hmod [H0 _]].
    pose proof (vcells_in D cs _ Hv H0) as [_ Hpix]. cbn [fst snd] in Hpix.
    unfold vcell. cbn [fst snd]. split; [lia|].
    replace d with ((d - 1) + 1) in Hpix by lia. rewrite pow4_succ in Hpix by lia.
    pose proof (Z.div_mod p 4 ltac:(lia)). lia.
  - exact (vcells_in D cs c Hv Hc).
Qed.

Lemma promote_level_nov D d cs : d <= D -> nov D cs -> nov D (promote_level d cs).
Proof.
  intros Hd Hn c1 c2 q H1 H2 Hq1 Hq2.
  apply in_promote_level in H1. apply in_promote_level in H2.
  (* a freshly added parent cannot overlap a cell that was kept *)
  assert (Hmix : forall p c, compl d cs p -> cover D (d - 1, p / 4) q ->
                   In c cs -> ~ (fst c = d /\ gone d cs (snd c)) -> cover D c q -> False).
  { intros p c Hp Hqp Hc Hkeep Hqc.
    apply cover_parent in Hqp; [|lia|apply Hp]. destruct Hqp as [i [Hi Hqi]].
    assert (Hin : In (d, p + i) cs).
    { destruct Hp as [_ [H0 [H1' [H2' H3']]]].
      assert (i = 0 \/ i = 1 \/ i = 2 \/ i = 3) as Hi' by lia.
      destruct Hi' as [E|[E|[E|E]]]; subst i; [rewrite Z.add_0_r|..]; assumption. }
    pose proof (Hn _ _ q Hin Hc Hqi Hqc) as E. subst c. apply Hkeep. cbn [fst snd].
    split; [reflexivity|]. exists p. split; [exact Hp | lia]. }
  destruct H1 as [[p1 [Hp1 E1]]|[Hc1 Hk1]]; destruct H2 as [[p2 [Hp2 E2]]|[Hc2 Hk2]].
  - subst c1 c2. apply cover_div in Hq1; [|lia]. apply cover_div in Hq2; [|lia]. congruence.
  - subst c1. exfalso. exact (Hmix p1 c2 Hp1 Hq1 Hc2 Hk2 Hq2).
  - subst c2. exfalso. exact (Hmix p2 c1 Hp2 Hq2 Hc1 Hk1 Hq1).
  - exact (Hn c1 c2 q Hc1 Hc2 Hq1 Hq2).
Qed.

(* levels other than d and d-1 are untouched by promote_level d *)
Lemma promote_level_other d cs e x : e <> d -> e <> d - 1 ->
  (In (e, x) (promote_level d cs) <-> In (e, x) cs).
Proof.
  intros H1 H2. rewrite in_promote_level. cbn [fst snd]. split.
  - intros [[p [_ E]]|[Hc _]]; [inversion E; lia | exact Hc].
  - intros Hc. right. split; [exact Hc | lia].
Qed.

(* after promote_level d no complete sibling group is left at level d *)
Lemma promote_level_nomerge d cs p : compl d (promote_level d cs) p -> False.
Proof.
  intros [Hmod [H0 [H1 [H2 H3]]]].
  assert (Hold : forall x, In (d, x) (promote_level d cs) -> In (d, x) cs /\ ~ gone d cs x).
  { intros x Hx. apply in_promote_level in Hx. cbn [fst snd] in Hx.
    destruct Hx as [[p' [_ E]]|[Hc Hk]]; [inversion E; lia | tauto]. }
  apply Hold in H0. apply Hold in H1. apply Hold in H2. apply Hold in H3.
  destruct H0 as [H0 Hg]. apply Hg. exists p. split; [|lia].
  unfold compl. tauto.
Qed.

Lemma promote_cover D n : forall d cs q, d <= D ->
  (cover_set D (promote n d cs) q <-> cover_set D cs q).
Proof.
  induction n as [|n IH]; intros d cs q Hd; cbn [promote]; [tauto|].
  rewrite IH by lia. apply promote_level_cover. exact Hd.
Qed.

Lemma promote_valid D n : forall d cs, Z.of_nat n <= Z.max 0 (d - 2) -> d <= D ->
  Forall (vcell D) cs -> Forall (vcell D) (promote n d cs).
Proof.
  induction n as [|n IH]; intros d cs Hn Hd Hv; cbn [promote]; [exact Hv|].
  apply IH; [lia | lia |]. apply promote_level_valid; [lia | exact Hv].
Qed.

Lemma promote_nov D n : forall d cs, d <= D -> nov D cs -> nov D (promote n d cs).
Proof.
  induction n as [|n IH]; intros d cs Hd Hn; cbn [promote]; [exact Hn|].
  apply IH; [lia|]. apply promote_level_nov; assumption.
Qed.

Lemma promote_other n : forall d cs e x, d < e ->
  (In (e, x) (promote n d cs) <-> In (e, x) cs).
Proof.
  induction n as [|n IH]; intros d cs e x He; cbn [promote]; [tauto|].
  rewrite IH by lia. apply promote_level_other; lia.
Qed.

Lemma promote_nomerge n : forall d cs e p, d - Z.of_nat n < e <= d ->
  compl e (promote n d cs) p -> False.
Proof.
  induction n as [|n IH]; intros d cs e p He Hc; cbn [promote] in Hc; [lia|].
  destruct (Z.eq_dec e d) as [E|E].
  - subst e. apply (promote_level_nomerge d cs p).
    unfold compl in *. rewrite !promote_other in Hc by lia. exact Hc.
  - apply (IH (d - 1) (promote_level d cs) e p); [lia | exact Hc].
Qed.

Lemma renorm_depth s : depth (renorm s) = depth s.
Proof. reflexivity. Qed.

Lemma renorm_cached s : cached (renorm s) = false.
Proof. reflexivity. Qed.

Lemma renorm_cells s :
  cells (renorm s) =
  promote (Z.to_nat (depth s - 2)) (depth s) (demoted_cells (depth s) (cells s)).
Proof.
  unfold renorm. cbn [cells depth]. rewrite renorm_from_eq, renorm_stop_eq.
  f_equal.
Qed.

Lemma renorm_absP s q : absP (renorm s) q <-> absP s q.
Proof.
  unfold absP. rewrite renorm_depth, renorm_cells.
  rewrite promote_cover by lia. apply demoted_cover.
Qed.

Lemma renorm_valid s : valid s -> valid (renorm s).
Proof.
  intros [HD Hv]. split; [exact HD|]. rewrite renorm_depth, renorm_cells.
  apply promote_valid; [lia | lia |]. apply demoted_valid. exact Hv.
Qed.

Lemma renorm_Inv s : valid s -> Inv (renorm s).
Proof.
  intros Hv. split; [apply renorm_valid; exact Hv|].
  intros Hc. rewrite renorm_cached in Hc. discriminate.
Qed.

Lemma renorm_no_overlap s : valid s -> no_overlap (renorm s).
Proof.
  intros [HD Hv]. unfold no_overlap. rewrite renorm_depth, renorm_cells.
  apply promote_nov; [lia|]. apply flat_nov. apply demoted_flat. exact Hv.
Qed.

Lemma renorm_no_mergeable s : valid s -> no_mergeable (renorm s).
Proof.
  intros Hv d p Hd Hmod H0 H1 H2 H3. rewrite renorm_stop_eq in Hd.
  destruct (Z_le_dec d (depth s)) as [Hle|Hgt].
  - rewrite renorm_cells in H0, H1, H2, H3.
    apply (promote_nomerge (Z.to_nat (depth s - 2)) (depth s)
             (demoted_cells (depth s) (cells s)) d p); [lia|].
    unfold compl. tauto.
  - pose proof (renorm_valid s Hv) as [_ Hv'].
    pose proof (vcells_in _ _ _ Hv' H0) as [Hlev _]. rewrite renorm_depth in Hlev.
    cbn [fst] in Hlev. lia.
Qed.

(* ------------------------------------------------------------------------------------ *)
(** * 6. add_pixels, union, set operations *)

Lemma add_pixels_eq s d ps :
  add_pixels s d ps = mkRegion (depth s) (at_level d ps ++ cells s) false.
Proof. unfold add_pixels, add_pixels_with. rewrite add_pixels_resets_cache_eq. reflexivity. Qed.

Lemma at_level_valid D d ps : 1 <= d <= D -> Forall (fun p => 0 <= p < 12 * 4 ^ d) ps ->
  Forall (vcell D) (at_level d ps).
Proof.
  intros Hd Hps. apply Forall_forall. intros c Hc. apply in_at_level in Hc.
  destruct Hc as [p [Hc Hp]]. subst c. rewrite Forall_forall in Hps.
  split; cbn [fst snd]; [exact Hd | apply Hps; exact Hp].
Qed.

Lemma add_pixels_valid s d ps : valid s -> 1 <= d <= depth s ->
  Forall (fun p => 0 <= p < 12 * 4 ^ d) ps -> valid (add_pixels s d ps).
Proof.
  intros [HD Hv] Hd Hps. rewrite add_pixels_eq. split; cbn [depth cells]; [exact HD|].
  apply Forall_app. split; [apply at_level_valid; assumption | exact Hv].
Qed.

Lemma add_pixels_absP s d ps q :
  absP (add_pixels s d ps) q <-> absP s q \/ cover_set (depth s) (at_level d ps) q.
Proof. rewrite add_pixels_eq. unfold absP. cbn [depth cells]. rewrite cover_set_app. tauto. Qed.

(* --- union *)
Definition union_finer (s o : region) : list cell :=
  if depth s <? depth o
  then filter (fun c => (depth s <? fst c) && (fst c <=? depth o)) (cells o)
  else [].
Definition union_common (s o : region) : list cell :=
  filter (fun c => (1 <=? fst c) && (fst c <=? Z.min (depth s) (depth o))) (cells o).
Definition union_pre (s o : region) : region :=
  mkRegion (depth s)
    (map (fun c => (depth s, degrade (snd c) (fst c) (depth s))) (union_finer s o)
       ++ union_common s o ++ cells s) false.

Lemma union_eq s o r : union s o r = if r then renorm (union_pre s o) else union_pre s o.
Proof.
  unfold union, union_pre, union_finer, union_common. rewrite add_pixels_resets_cache_eq.
  reflexivity.
Qed.

Lemma in_union_finer s o c :
  In c (union_finer s o) <-> In c (cells o) /\ depth s < fst c <= depth o.
Proof.
  unfold union_finer. destruct (Z.ltb_spec (depth s) (depth o)) as [Hlt|Hge].
  - rewrite filter_In, andb_true_iff, Z.ltb_lt, Z.leb_le. tauto.
  - cbn [In]. lia.
Qed.

Lemma in_union_common s o c :
  In c (union_common s o) <-> In c (cells o) /\ 1 <= fst c <= Z.min (depth s) (depth o).
Proof. unfold union_common. rewrite filter_In, andb_true_iff, !Z.leb_le. tauto. Qed.

Lemma union_pre_valid s o : valid s -> valid o -> valid (union_pre s o).
Proof.
  intros [HD Hv] [HDo Hvo]. split; cbn [union_pre depth cells]; [exact HD|].
  apply Forall_app. split; [|apply Forall_app; split; [|exact Hv]].
  - apply Forall_forall. intros c' Hc'. apply in_map_iff in Hc'. destruct Hc' as [c [Hc' Hc]].
    apply in_union_finer in Hc. destruct Hc as [Hc Hlev].
    pose proof (vcells_in _ _ _ Hvo Hc) as [_ Hpix]. subst c'. rewrite degrade_eq.
    split; cbn [fst snd]; [lia|].
    pose proof (pow4_pos (fst c - depth s) ltac:(lia)) as HP.
    split; [apply Z.div_pos; lia|].
    apply Z.div_lt_upper_bound; [exact HP|].
    replace (4 ^ fst c) with (4 ^ (fst c - depth s) * 4 ^ depth s) in Hpix
      by (rewrite <- Z.pow_add_r by lia; f_equal; lia).
    lia.
  - apply Forall_forall. intros c Hc. apply in_union_common in Hc. destruct Hc as [Hc Hlev].
    pose proof (vcells_in _ _ _ Hvo Hc) as [_ Hpix]. split; [lia | exact Hpix].
Qed.

Lemma union_pre_absP s o q : valid o ->
  (absP (union_pre s o) q <-> absP s q \/ cover_set (depth s) (cells o) q).
Proof.
  intros [HDo Hvo]. unfold absP. cbn [union_pre depth cells]. rewrite !cover_set_app.
  set (D := depth s).
  assert (Hiff : cover_set D (map (fun c => (D, degrade (snd c) (fst c) D)) (union_finer s o)) q \/
                 cover_set D (union_common s o) q <-> cover_set D (cells o) q); [|tauto].
  unfold cover_set. split.
  - intros [[c' [Hc' Hq]]|[c [Hc Hq]]].
    + apply in_map_iff in Hc'. destruct Hc' as [[d p] [Hc' Hc]]. cbn [fst snd] in Hc'.
      apply in_union_finer in Hc. destruct Hc as [Hc Hlev]. cbn [fst] in Hlev. fold D in Hlev.
      subst c'. apply cover_top in Hq. rewrite degrade_eq in Hq.
      exists (d, p). split; [exact Hc|]. apply cover_gt; [lia | exact Hq].
    + apply in_union_common in Hc. exists c. tauto.
  - intros [[d p] [Hc Hq]].
    pose proof (vcells_in _ _ _ Hvo Hc) as [Hlev _]. cbn [fst] in Hlev.
    destruct (Z_le_dec d D) as [Hle|Hgt].
    + right. exists (d, p). split; [|exact Hq]. apply in_union_common. split; [exact Hc|].
      cbn [fst]. fold D. lia.
    + left. exists (D, degrade p d D). split.
      * apply in_map_iff. exists (d, p). split; [reflexivity|]. apply in_union_finer.
        split; [exact Hc|]. cbn [fst]. fold D. lia.
      * apply cover_top. rewrite degrade_eq. apply cover_gt in Hq; [exact Hq | lia].
Qed.

Lemma union_valid s o r : valid s -> valid o -> valid (union s o r).
Proof.
  intros Hs Ho. rewrite union_eq. pose proof (union_pre_valid s o Hs Ho) as Hp.
  destruct r; [apply renorm_valid|]; exact Hp.
Qed.

Lemma union_cached s o r : cached (union s o r) = false.
Proof. rewrite union_eq. destruct r; reflexivity. Qed.

Lemma union_depth s o r : depth (union s o r) = depth s.
Proof. rewrite union_eq. destruct r; reflexivity. Qed.

Lemma union_absP s o r q : valid o ->
  (absP (union s o r) q <-> absP s q \/ cover_set (depth s) (cells o) q).
Proof.
  intros Ho. rewrite union_eq. destruct r; [rewrite renorm_absP|]; apply union_pre_absP; exact Ho.
Qed.

(* --- without / intersect / symmetric_difference *)
Definition setop_pre (f : list Z -> list Z -> list Z) (s o : region) : region :=
  let s1 := demote_all s in
  let D := depth s in
  mkRegion D (at_level D (f (level (cells s1) D) (other_demoted o))
                ++ filter (fun c => negb (fst c =? D)) (cells s1)) (cached s1).

Lemma setop_some f s o : depth o = depth s -> setop f s o = Some (renorm (setop_pre f s o)).
Proof. intros E. unfold setop. rewrite E, Z.eqb_refl. reflexivity. Qed.

Lemma setop_none f s o : depth o <> depth s -> setop f s o = None.
Proof.
  intros E. unfold setop. destruct (Z.eqb_spec (depth s) (depth o)) as [E'|_]; [congruence | reflexivity].
Qed.

Lemma other_demoted_spec o q : Inv o -> (In q (other_demoted o) <-> absP o q).
Proof.
  intros HI. unfold other_demoted, get_demoted. cbn [snd]. rewrite demote_all_depth.
  apply demote_all_level_absP. exact HI.
Qed.

Lemma other_demoted_valid o x : Inv o -> In x (other_demoted o) -> vcell (depth o) (depth o, x).
Proof.
  intros HI Hx. unfold other_demoted, get_demoted in Hx. cbn [snd] in Hx.
  rewrite demote_all_depth in Hx. apply in_level in Hx.
  pose proof (demote_all_valid o ltac:(apply HI)) as [_ Hv]. rewrite demote_all_depth in Hv.
  exact (vcells_in _ _ _ Hv Hx).
Qed.

Lemma setop_pre_absP f s o q : Inv s ->
  (absP (setop_pre f s o) q <->
   In q (f (level (cells (demote_all s)) (depth s)) (other_demoted o))).
Proof.
  intros HI. unfold absP. cbn [setop_pre depth cells]. rewrite cover_set_app.
  pose proof (demote_all_flat s HI) as Hf.
  set (D := depth s) in *. set (l := f _ _).
  unfold cover_set. split.
  - intros [[c [Hc Hq]]|[c [Hc Hq]]].
    + apply in_at_level in Hc. destruct Hc as [p [Hc Hp]]. subst c. apply cover_top in Hq.
      subst q. exact Hp.
    + exfalso. apply filter_In in Hc. destruct Hc as [Hc Hne]. apply Hf in Hc.
      rewrite Hc, Z.eqb_refl in Hne. discriminate.
  - intros Hq. left. exists (D, q). split; [|apply cover_top; reflexivity].
    apply in_at_level. exists q. tauto.
Qed.

Lemma setop_pre_valid f s o : Inv s -> Inv o -> depth o = depth s ->
  (forall a b x, In x (f a b) -> In x a \/ In x b) -> valid (setop_pre f s o).
Proof.
  intros HI HIo E Hsub. pose proof (demote_all_valid s ltac:(apply HI)) as [HD Hv].
  rewrite demote_all_depth in HD, Hv.
  split; cbn [setop_pre depth cells]; [exact HD|].
  apply Forall_app. split.
  - apply Forall_forall. intros c Hc. apply in_at_level in Hc. destruct Hc as [x [Hc Hx]]. subst c.
    apply Hsub in Hx. destruct Hx as [Hx|Hx].
    + apply in_level in Hx. exact (vcells_in _ _ _ Hv Hx).
    + rewrite <- E. apply other_demoted_valid; assumption.
  - apply Forall_forall. intros c Hc. apply filter_In in Hc. destruct Hc as [Hc _].
    exact (vcells_in _ _ _ Hv Hc).
Qed.

Lemma in_f_without a b x : In x (f_without a b) <-> In x a /\ ~ In x b.
Proof. unfold f_without. rewrite filter_In, negb_true_iff, memZ_false. tauto. Qed.

Lemma in_f_intersect a b x : In x (f_intersect a b) <-> In x a /\ In x b.
Proof. unfold f_intersect. rewrite filter_In, memZ_spec. tauto. Qed.

Lemma in_f_symdiff a b x :
  In x (f_symdiff a b) <-> (In x a /\ ~ In x b) \/ (In x b /\ ~ In x a).
Proof. unfold f_symdiff. rewrite in_app_iff, !in_f_without. tauto. Qed.

Lemma f_without_sub a b x : In x (f_without a b) -> In x a \/ In x b.
Proof. rewrite in_f_without. tauto. Qed.
Lemma f_intersect_sub a b x : In x (f_intersect a b) -> In x a \/ In x b.
Proof. rewrite in_f_intersect. tauto. Qed.
Lemma f_symdiff_sub a b x : In x (f_symdiff a b) -> In x a \/ In x b.
Proof. rewrite in_f_symdiff. tauto. Qed.

(* the state and output of a set operation, in one statement for all three *)
Lemma setop_step f s o (Hsub : forall a b x, In x (f a b) -> In x a \/ In x b) :
  Inv s -> Inv o ->
  let r := match setop f s o with Some s' => (s', OUnit) | None => (s, OErr) end in
  Inv (fst r) /\ depth (fst r) = depth s /\
  (depth o = depth s ->
     snd r = OUnit /\ no_overlap (fst r) /\ no_mergeable (fst r) /\
     forall q, absP (fst r) q <->
               In q (f (level (cells (demote_all s)) (depth s)) (other_demoted o))) /\
  (depth o <> depth s -> snd r = OErr /\ fst r = s).
Proof.
  intros HI HIo. destruct (Z.eq_dec (depth o) (depth s)) as [E|E].
  - rewrite (setop_some f s o E). cbn [fst snd].
    pose proof (setop_pre_valid f s o HI HIo E Hsub) as Hv.
    split; [apply renorm_Inv; exact Hv|]. split; [reflexivity|]. split; [|tauto].
    intros _. split; [reflexivity|]. split; [apply renorm_no_overlap; exact Hv|].
    split; [apply renorm_no_mergeable; exact Hv|].
    intros q. rewrite renorm_absP. apply setop_pre_absP. exact HI.
  - rewrite (setop_none f s o E). cbn [fst snd].
    split; [exact HI|]. split; [reflexivity|]. split; [tauto|]. intros _. split; reflexivity.
Qed.

(* ------------------------------------------------------------------------------------ *)
(** * 7. The step theorems *)

Lemma step_within s qs :
  step s (Within qs) =
  (demote_all s,
   OBools (map (fun q => memZ q (level (cells (demote_all s)) (depth (demote_all s)))) qs)).
Proof. reflexivity. Qed.

Lemma step_get_demoted s :
  step s GetDemoted = (demote_all s, OPix (level (cells (demote_all s)) (depth (demote_all s)))).
Proof. reflexivity. Qed.

Lemma step_setop_without s o :
  step s (Without o) = match setop f_without s o with Some s' => (s', OUnit) | None => (s, OErr) end.
Proof. reflexivity. Qed.
Lemma step_setop_intersect s o :
  step s (Intersect o) = match setop f_intersect s o with Some s' => (s', OUnit) | None => (s, OErr) end.
Proof. reflexivity. Qed.
Lemma step_setop_symdiff s o :
  step s (SymDiff o) = match setop f_symdiff s o with Some s' => (s', OUnit) | None => (s, OErr) end.
Proof. reflexivity. Qed.

Theorem step_inv : forall s o, Inv s -> op_ok (depth s) o ->
  Inv (fst (step s o)) /\ depth (fst (step s o)) = depth s.
Proof.
  intros s o HI Hok. pose proof HI as [Hv Hc].
  destruct o as [d ps|d ps|r b|r|r|r|qs| | | | | ]; cbn [op_ok] in Hok.
  - (* AddPixels *) cbn [step fst]. destruct Hok as [Hd Hps]. split.
    + split; [apply add_pixels_valid; assumption|]. rewrite add_pixels_eq. intros E. discriminate E.
    + rewrite add_pixels_eq. reflexivity.
  - (* AddShape *) cbn [step fst]. destruct Hok as [Hd Hps]. split.
    + apply renorm_Inv. apply add_pixels_valid; assumption.
    + rewrite renorm_depth, add_pixels_eq. reflexivity.
  - (* Union *) cbn [step fst]. split.
    + split; [apply union_valid; assumption|]. intros E. rewrite union_cached in E. discriminate E.
    + apply union_depth.
  - (* Without *) rewrite step_setop_without.
    pose proof (setop_step f_without s r f_without_sub HI Hok) as H. cbv zeta in H. tauto.
  - (* Intersect *) rewrite step_setop_intersect.
    pose proof (setop_step f_intersect s r f_intersect_sub HI Hok) as H. cbv zeta in H. tauto.
  - (* SymDiff *) rewrite step_setop_symdiff.
    pose proof (setop_step f_symdiff s r f_symdiff_sub HI Hok) as H. cbv zeta in H. tauto.
  - (* Within *) rewrite step_within. cbn [fst].
    split; [apply demote_all_Inv; exact HI | apply demote_all_depth].
  - (* GetDemoted *) rewrite step_get_demoted. cbn [fst].
    split; [apply demote_all_Inv; exact HI | apply demote_all_depth].
  - (* GetArea *) cbn [step fst]. split; [exact HI | reflexivity].
  - (* Uniq *) cbn [step fst]. split; [exact HI | reflexivity].
  - (* SaveLoad *) cbn [step fst]. split; [exact HI | reflexivity].
  - (* Renorm *) cbn [step fst]. split; [apply renorm_Inv; exact Hv | reflexivity].
Qed.

Theorem step_refines : forall s o, Inv s -> op_ok (depth s) o ->
  (forall q, absP (fst (step s o)) q <-> spec_step (depth s) (absP s) o q) /\
  spec_out (depth s) (absP s) o (snd (step s o)).
Proof.
  intros s o HI Hok. pose proof HI as [Hv Hc].
  destruct o as [d ps|d ps|r b|r|r|r|qs| | | | | ]; cbn [op_ok] in Hok; cbn [spec_step spec_out].
  - (* AddPixels *) cbn [step fst snd]. split; [|exact I]. intros q. apply add_pixels_absP.
  - (* AddShape *) cbn [step fst snd]. split; [|exact I]. intros q.
    rewrite renorm_absP. apply add_pixels_absP.
  - (* Union *) cbn [step fst snd]. split; [|exact I]. intros q. apply union_absP. exact Hok.
  - (* Without *) rewrite step_setop_without.
    pose proof (setop_step f_without s r f_without_sub HI Hok) as H. cbv zeta in H.
    destruct H as [_ [_ [Heq Hne]]].
    destruct (Z.eqb_spec (depth r) (depth s)) as [E|E].
    + destruct (Heq E) as [Hout [_ [_ Habs]]]. split; [|exact Hout].
      intros q. rewrite Habs, in_f_without, other_demoted_spec, demote_all_level_absP by assumption.
      tauto.
    + destruct (Hne E) as [Hout Hst]. split; [|exact Hout]. intros q. rewrite Hst. tauto.
  - (* Intersect *) rewrite step_setop_intersect.
    pose proof (setop_step f_intersect s r f_intersect_sub HI Hok) as H. cbv zeta in H.
    destruct H as [_ [_ [Heq Hne]]].
    destruct (Z.eqb_spec (depth r) (depth s)) as [E|E].
    + destruct (Heq E) as [Hout [_ [_ Habs]]]. split; [|exact Hout].
      intros q. rewrite Habs, in_f_intersect, other_demoted_spec, demote_all_level_absP by assumption.
      tauto.
    + destruct (Hne E) as [Hout Hst]. split; [|exact Hout]. intros q. rewrite Hst. tauto.
  - (* SymDiff *) rewrite step_setop_symdiff.
    pose proof (setop_step f_symdiff s r f_symdiff_sub HI Hok) as H. cbv zeta in H.
    destruct H as [_ [_ [Heq Hne]]].
    destruct (Z.eqb_spec (depth r) (depth s)) as [E|E].
    + destruct (Heq E) as [Hout [_ [_ Habs]]]. split; [|exact Hout].
      intros q. rewrite Habs, in_f_symdiff, other_demoted_spec, demote_all_level_absP by assumption.
      tauto.
    + destruct (Hne E) as [Hout Hst]. split; [|exact Hout]. intros q. rewrite Hst. tauto.
  - (* Within *) rewrite step_within. cbn [fst snd]. split; [intros q; apply demote_all_absP|].
    eexists. split; [reflexivity|]. split; [apply map_length|].
    intros i q b Hq Hb. rewrite (map_nth_error _ i qs Hq) in Hb. injection Hb as Hb. subst b.
    rewrite memZ_spec, demote_all_depth. apply demote_all_level_absP. exact HI.
  - (* GetDemoted *) rewrite step_get_demoted. cbn [fst snd]. split; [intros q; apply demote_all_absP|].
    eexists. split; [reflexivity|]. intros q. rewrite demote_all_depth.
    apply demote_all_level_absP. exact HI.
  - (* GetArea *) cbn [step fst snd]. split; [tauto | exact I].
  - (* Uniq *) cbn [step fst snd]. split; [tauto | exact I].
  - (* SaveLoad *) cbn [step fst snd]. split; [tauto | exact I].
  - (* Renorm *) cbn [step fst snd]. split; [|exact I]. intros q. apply renorm_absP.
Qed.

(* --- histories *)
Lemma spec_step_ext D A A' o : (forall q, A q <-> A' q) ->
  forall q, spec_step D A o q <-> spec_step D A' o q.
Proof.
  intros HA q. destruct o as [d ps|d ps|r b|r|r|r|qs| | | | | ]; cbn [spec_step];
    try (destruct (depth r =? D)); rewrite ?HA; tauto.
Qed.

Lemma run_cons s o ops : run s (o :: ops) = run (fst (step s o)) ops.
Proof. reflexivity. Qed.

Lemma run_refines D ops : forall s A, Inv s -> depth s = D -> Forall (op_ok D) ops ->
  (forall q, absP s q <-> A q) ->
  (Inv (run s ops) /\ depth (run s ops) = D) /\
  forall q, absP (run s ops) q <-> fold_left (spec_step D) ops A q.
Proof.
  induction ops as [|o ops IH]; intros s A HI HD Hops HA.
  - cbn [run fold_left]. tauto.
  - rewrite run_cons. cbn [fold_left].
    apply Forall_cons_iff in Hops. destruct Hops as [Ho Hops]. rewrite <- HD in Ho.
    pose proof (step_inv s o HI Ho) as [HI' HD'].
    pose proof (step_refines s o HI Ho) as [Habs _].
    apply IH; [exact HI' | congruence | exact Hops |].
    intros q. rewrite Habs, HD. apply spec_step_ext. exact HA.
Qed.

Lemma init_Inv D : 1 <= D -> Inv (init D).
Proof.
  intros HD. split; [split; [exact HD | apply Forall_nil]|]. intros E. discriminate E.
Qed.

Theorem reachable_inv : forall D ops, 1 <= D -> Forall (op_ok D) ops ->
  Inv (run (init D) ops) /\ depth (run (init D) ops) = D.
Proof.
  intros D ops HD Hops.
  apply (run_refines D ops (init D) (absP (init D)) (init_Inv D HD) eq_refl Hops). tauto.
Qed.

Theorem history_refines : forall D ops, 1 <= D -> Forall (op_ok D) ops ->
  forall q, absP (run (init D) ops) q <-> fold_left (spec_step D) ops (fun _ => False) q.
Proof.
  intros D ops HD Hops.
  apply (run_refines D ops (init D) (fun _ => False) (init_Inv D HD) eq_refl Hops).
  intros q. unfold absP. cbn [init depth cells]. apply cover_set_nil.
Qed.

(* --- normal form *)
Theorem normal_form : forall s o, Inv s -> op_ok (depth s) o -> renormalises (depth s) o = true ->
  no_overlap (fst (step s o)) /\ no_mergeable (fst (step s o)).
Proof.
  intros s o HI Hok Hren. pose proof HI as [Hv Hc].
  destruct o as [d ps|d ps|r b|r|r|r|qs| | | | | ]; cbn [op_ok] in Hok; cbn [renormalises] in Hren;
    try discriminate Hren.
  - (* AddShape *) cbn [step fst]. destruct Hok as [Hd Hps].
    pose proof (add_pixels_valid s d ps Hv Hd Hps) as Hv'.
    split; [apply renorm_no_overlap | apply renorm_no_mergeable]; exact Hv'.
  - (* Union *) subst b. cbn [step fst]. rewrite union_eq.
    pose proof (union_pre_valid s r Hv Hok) as Hv'.
    split; [apply renorm_no_overlap | apply renorm_no_mergeable]; exact Hv'.
  - (* Without *) rewrite step_setop_without. apply Z.eqb_eq in Hren.
    pose proof (setop_step f_without s r f_without_sub HI Hok) as H. cbv zeta in H.
    destruct H as [_ [_ [Heq _]]]. destruct (Heq Hren) as [_ [H1 [H2 _]]]. tauto.
  - (* Intersect *) rewrite step_setop_intersect. apply Z.eqb_eq in Hren.
    pose proof (setop_step f_intersect s r f_intersect_sub HI Hok) as H. cbv zeta in H.
    destruct H as [_ [_ [Heq _]]]. destruct (Heq Hren) as [_ [H1 [H2 _]]]. tauto.
  - (* SymDiff *) rewrite step_setop_symdiff. apply Z.eqb_eq in Hren.
    pose proof (setop_step f_symdiff s r f_symdiff_sub HI Hok) as H. cbv zeta in H.
    destruct H as [_ [_ [Heq _]]]. destruct (Heq Hren) as [_ [H1 [H2 _]]]. tauto.
  - (* Renorm *) cbn [step fst].
    split; [apply renorm_no_overlap | apply renorm_no_mergeable]; exact Hv.
Qed.

(* --- queries *)
Lemma demote_all_no_overlap s : Inv s -> no_overlap s -> no_overlap (demote_all s).
Proof.
  intros HI Hno. destruct (demote_all_cases s) as [[E _]|E].
  - rewrite E. exact Hno.
  - unfold no_overlap. rewrite demote_all_depth. apply flat_nov. apply demote_all_flat. exact HI.
Qed.

Theorem queries_pure : forall s o, Inv s ->
  match o with Within _ | GetDemoted | GetArea | Uniq | SaveLoad => True | _ => False end ->
  (forall q, absP (fst (step s o)) q <-> absP s q) /\
  (no_overlap s -> no_overlap (fst (step s o))).
Proof.
  intros s o HI Hq.
  destruct o as [d ps|d ps|r b|r|r|r|qs| | | | | ]; try contradiction.
  - rewrite step_within. cbn [fst].
    split; [intros q; apply demote_all_absP | apply demote_all_no_overlap; exact HI].
  - rewrite step_get_demoted. cbn [fst].
    split; [intros q; apply demote_all_absP | apply demote_all_no_overlap; exact HI].
  - cbn [step fst]. split; tauto.
  - cbn [step fst]. split; tauto.
  - cbn [step fst]. split; tauto.
Qed.

(* ------------------------------------------------------------------------------------ *)
(** * 8. Area is the cardinality of the pixel set *)

Lemma NoDup_app_intro {A} (a b : list A) :
  NoDup a -> NoDup b -> (forall x, In x a -> In x b -> False) -> NoDup (a ++ b).
Proof.
  induction a as [|x a IH]; intros Ha Hb Hdis; cbn [app]; [exact Hb|].
  inversion Ha as [|x' a' Hx Ha']; subst. constructor.
  - intros Hin. apply in_app_or in Hin. destruct Hin as [Hin|Hin]; [contradiction|].
    apply (Hdis x); [left; reflexivity | exact Hin].
  - apply IH; [exact Ha' | exact Hb|]. intros y Hy Hy'. apply (Hdis y); [right; exact Hy | exact Hy'].
Qed.

Lemma NoDup_flat_map_intro {A B} (f : A -> list B) (l : list A) :
  NoDup l -> (forall x, In x l -> NoDup (f x)) ->
  (forall x y z, In x l -> In y l -> In z (f x) -> In z (f y) -> x = y) ->
  NoDup (flat_map f l).
Proof.
  induction l as [|a l IH]; intros Hl Hf Hdis; cbn [flat_map]; [constructor|].
  inversion Hl as [|a' l' Ha Hl']; subst. apply NoDup_app_intro.
  - apply Hf. left. reflexivity.
  - apply IH; [exact Hl' | |].
    + intros x Hx. apply Hf. right. exact Hx.
    + intros x y z Hx Hy. apply Hdis; right; assumption.
  - intros z Hz Hz'. apply in_flat_map in Hz'. destruct Hz' as [y [Hy Hzy]].
    assert (a = y) as E by (apply (Hdis a y z); [left; reflexivity | right; exact Hy | exact Hz | exact Hzy]).
    subst y. contradiction.
Qed.

Lemma length_flat_map_sum {A B} (f : A -> list B) (l : list A) :
  Z.of_nat (length (flat_map f l)) = fold_right Z.add 0 (map (fun x => Z.of_nat (length (f x))) l).
Proof.
  induction l as [|a l IH]; cbn [flat_map map fold_right]; [reflexivity|].
  rewrite app_length, Nat2Z.inj_add, IH. reflexivity.
Qed.

Lemma length_flat_map_const {A B} (f : A -> list B) (l : list A) n :
  (forall x, In x l -> Z.of_nat (length (f x)) = n) ->
  Z.of_nat (length (flat_map f l)) = Z.of_nat (length l) * n.
Proof.
  induction l as [|a l IH]; intros Hf; cbn [flat_map length]; [lia|].
  rewrite app_length, Nat2Z.inj_add, IH by (intros x Hx; apply Hf; right; exact Hx).
  rewrite (Hf a) by (left; reflexivity). lia.
Qed.

Lemma in_zrange n : forall lo d, In d (zrange lo n) <-> lo <= d < lo + Z.of_nat n.
Proof.
  induction n as [|n IH]; intros lo d; cbn [zrange In]; [lia|].
  rewrite IH. lia.
Qed.

Lemma NoDup_zrange n : forall lo, NoDup (zrange lo n).
Proof.
  induction n as [|n IH]; intros lo; cbn [zrange]; constructor; [|apply IH].
  rewrite in_zrange. lia.
Qed.

Lemma expand_disjoint k p p' z : In z (expand k p) -> In z (expand k p') -> p = p'.
Proof.
  rewrite !expand_spec. pose proof (pow4_pos (Z.of_nat k) ltac:(lia)) as HP.
  intros H1 H2. apply block_div in H1; [|exact HP]. apply block_div in H2; [|exact HP]. congruence.
Qed.

Lemma NoDup_children p : NoDup (children p).
Proof.
  rewrite children_eq. repeat constructor; cbn [In]; lia.
Qed.

Lemma NoDup_expand k : forall p, NoDup (expand k p).
Proof.
  induction k as [|k IH]; intros p; cbn [expand]; [repeat constructor; cbn [In]; tauto|].
  apply NoDup_flat_map_intro; [apply NoDup_children | intros c _; apply IH|].
  intros c c' z _ _. apply expand_disjoint.
Qed.

Lemma length_expand k : forall p, Z.of_nat (length (expand k p)) = 4 ^ Z.of_nat k.
Proof.
  induction k as [|k IH]; intros p; cbn [expand]; [reflexivity|].
  rewrite Nat2Z.inj_succ, <- Z.add_1_r, pow4_succ by lia.
  rewrite (length_flat_map_const _ _ (4 ^ Z.of_nat k)) by (intros c _; apply IH).
  rewrite children_eq. cbn [length]. lia.
Qed.

(* the deepest-level pixels of a region, listed level by level *)
Definition pixels (D : Z) (cs : list cell) : list Z :=
  flat_map (fun d => flat_map (expand (Z.to_nat (D - d))) (nodup Z.eq_dec (level cs d)))
           (zrange 1 (Z.to_nat D)).

Lemma in_pixels D cs q : Forall (vcell D) cs -> (In q (pixels D cs) <-> cover_set D cs q).
Proof.
  intros Hv. unfold pixels, cover_set. rewrite in_flat_map. split.
  - intros [d [Hd Hq]]. apply in_zrange in Hd. apply in_flat_map in Hq.
    destruct Hq as [p [Hp Hq]]. apply nodup_In, in_level in Hp.
    exists (d, p). split; [exact Hp|]. apply expand_spec in Hq. rewrite Z2Nat.id in Hq by lia.
    apply cover_le; [lia | exact Hq].
  - intros [[d p] [Hc Hq]]. pose proof (vcells_in _ _ _ Hv Hc) as [Hlev _]. cbn [fst] in Hlev.
    exists d. split; [apply in_zrange; lia|]. apply in_flat_map. exists p.
    split; [apply nodup_In, in_level; exact Hc|]. apply expand_spec. rewrite Z2Nat.id by lia.
    apply cover_le in Hq; [exact Hq | lia].
Qed.

Lemma NoDup_pixels D cs : nov D cs -> NoDup (pixels D cs).
Proof.
  intros Hn. unfold pixels. apply NoDup_flat_map_intro; [apply NoDup_zrange | |].
  - intros d _. apply NoDup_flat_map_intro; [apply NoDup_nodup | intros p _; apply NoDup_expand|].
    intros p p' z _ _. apply expand_disjoint.
  - intros d d' z Hd Hd' Hz Hz'. apply in_zrange in Hd. apply in_zrange in Hd'.
    apply in_flat_map in Hz. destruct Hz as [p [Hp Hz]].
    apply in_flat_map in Hz'. destruct Hz' as [p' [Hp' Hz']].
    apply nodup_In, in_level in Hp. apply nodup_In, in_level in Hp'.
    apply expand_spec in Hz. rewrite Z2Nat.id in Hz by lia.
    apply expand_spec in Hz'. rewrite Z2Nat.id in Hz' by lia.
    assert ((d, p) = (d', p')) as E.
    { apply (Hn _ _ z Hp Hp'); (apply cover_le; [lia | assumption]). }
    congruence.
Qed.

Lemma length_pixels D cs :
  Z.of_nat (length (pixels D cs)) =
  fold_right Z.add 0
    (map (fun d => count_distinct (level cs d) * 4 ^ (D - d)) (zrange 1 (Z.to_nat D))).
Proof.
  unfold pixels. rewrite length_flat_map_sum. f_equal. apply map_ext_in.
  intros d Hd. apply in_zrange in Hd.
  rewrite (length_flat_map_const _ _ (4 ^ (D - d))).
  - reflexivity.
  - intros p _. rewrite length_expand, Z2Nat.id by lia. reflexivity.
Qed.

Lemma area_units_eq s :
  area_units s =
  fold_right Z.add 0
    (map (fun d => count_distinct (level (cells s) d) * 4 ^ (depth s - d))
         (zrange 1 (Z.to_nat (depth s)))).
Proof.
  unfold area_units. rewrite area_lo_eq, area_hi_eq.
  replace (depth s + 1 - 1) with (depth s) by lia. reflexivity.
Qed.

Theorem area_is_cardinality : forall s l, Inv s -> no_overlap s -> enumerates l (absP s) ->
  area_units s = Z.of_nat (length l).
Proof.
  intros s l [[HD Hv] _] Hno [Hnd Hl].
  rewrite area_units_eq, <- length_pixels. f_equal.
  apply Permutation_length. apply NoDup_Permutation.
  - apply NoDup_pixels. exact Hno.
  - exact Hnd.
  - intros q. rewrite Hl. apply in_pixels. exact Hv.
Qed.
