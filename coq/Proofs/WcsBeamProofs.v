(* Lemmas of the extension C16x (beam, pixel-scale and separation helpers of wcs_helpers.py).
   First one characterising lemma per generated leaf of Gen/WcsBeam.v (a changed leaf breaks exactly that lemma), then the
   leaves are opaque. *)
From Coq Require Import Reals ZArith List Bool Lra Lia String.
From Aegean Require Import Lib.RBase Gen.Sphere Lib.Sphere Gen.WcsHelper Gen.WcsBeam Model.WcsHelper Model.WcsBeam
  Proofs.WcsHelperProofs.
Import ListNotations.
Open Scope R_scope.

(* ---------------- leaves ---------------- *)
Lemma leaf_sky_sep p2s a b :
  sky_sep p2s a b = gcd (fst (p2s a)) (snd (p2s a)) (fst (p2s b)) (snd (p2s b)).
Proof. reflexivity. Qed.
Lemma leaf_beamarea_deg2 a b : beamarea_deg2 a b = a * b * PI.
Proof. reflexivity. Qed.
Lemma leaf_beamarea_pix a b : beamarea_pix a b = a * b * PI.
Proof. reflexivity. Qed.
Lemma leaf_pixinfo_keys : pixinfo_keys = [[CDELT1; CDELT2]; [CD1_1; CD1_2; CD2_1; CD2_2]; [CD1_1; CD2_2]].
Proof. reflexivity. Qed.
Lemma leaf_pixinfo_cdelt h :
  pixinfo_area 0 h = Rabs (h CDELT1 * h CDELT2) /\ pixinfo_scale 0 h = (h CDELT1, h CDELT2).
Proof. split; reflexivity. Qed.
Lemma leaf_pixinfo_cd4 h :
  pixinfo_area 1 h = Rabs (h CD1_1 * h CD2_2 - h CD1_2 * h CD2_1) /\ pixinfo_scale 1 h = (h CD1_1, h CD2_2).
Proof. split; reflexivity. Qed.
Lemma leaf_pixinfo_cd2 h :
  pixinfo_area 2 h = Rabs (h CD1_1 * h CD2_2) /\ pixinfo_scale 2 h = (h CD1_1, h CD2_2).
Proof. split; reflexivity. Qed.
Lemma leaf_pixinfo_else h : pixinfo_area 3 h = 0 /\ pixinfo_scale 3 h = (0, 0).
Proof. split; reflexivity. Qed.
Lemma leaf_get_beam_keys :
  get_beam_key_bmaj = BMAJ /\ get_beam_key_bmin = BMIN /\ get_beam_key_bpa = BPA.
Proof. repeat split; reflexivity. Qed.
Lemma leaf_get_beam_defaults :
  get_beam_default_bmaj = None /\ get_beam_default_bmin = None /\ get_beam_default_bpa = Some 0.
Proof. repeat split; reflexivity. Qed.
Lemma leaf_get_beam_ctor a b pa : get_beam_ctor a b pa = (a, b, pa).
Proof. reflexivity. Qed.
Lemma leaf_beam_ok a b pa : beam_ok a b pa = Rltb 0 a && Rltb 0 b.
Proof. reflexivity. Qed.
Lemma leaf_beam_attrs a b pa : beam_attrs a b pa = (a, b, pa).
Proof. reflexivity. Qed.
Lemma leaf_aips_skip : aips_skip_keys = [BMAJ; BMIN; BPA].
Proof. reflexivity. Qed.
Lemma leaf_aips_strings : aips_prefix = "AIPS"%string /\ aips_marker = "BMAJ"%string.
Proof. split; reflexivity. Qed.
Lemma leaf_aips_sets : aips_sets = [(BMAJ, 3%Z); (BMIN, 5%Z); (BPA, 7%Z)].
Proof. reflexivity. Qed.
Lemma leaf_from_header :
  from_header_explicit_beam_wins = true /\ from_header_none_raises = true /\ from_header_consults_history = false /\
  from_header_refpix = (CRPIX1, CRPIX2).
Proof. repeat split; reflexivity. Qed.
Lemma leaf_psf_sky2pix : psf_sky2pix_swaps = true /\ psf_sky2pix_origin = 1%Z /\ (forall p0 p1, psf_sky2pix_ret p0 p1 = (p1, p0)).
Proof. repeat split; reflexivity. Qed.
Lemma leaf_psf_clip n :
  psf_clip_lo_x = 0%Z /\ psf_clip_hi_x n = (n - 1)%Z /\ psf_shape_axis_x = 1%Z /\
  psf_clip_lo_y = 0%Z /\ psf_clip_hi_y n = (n - 1)%Z /\ psf_shape_axis_y = 2%Z.
Proof. repeat split; reflexivity. Qed.
Lemma leaf_psf_lookup : psf_planes = 3%Z /\ psf_index_x_first = true.
Proof. split; reflexivity. Qed.

Local Opaque sky_sep beamarea_deg2 beamarea_pix pixinfo_keys pixinfo_area pixinfo_scale get_beam_key_bmaj get_beam_key_bmin
  get_beam_key_bpa get_beam_default_bmaj get_beam_default_bmin get_beam_default_bpa get_beam_ctor beam_ok beam_attrs aips_skip_keys
  aips_sets from_header_explicit_beam_wins from_header_none_raises from_header_consults_history from_header_refpix psf_sky2pix_swaps
  psf_sky2pix_origin psf_clip_lo_x psf_clip_hi_x psf_shape_axis_x psf_clip_lo_y psf_clip_hi_y psf_shape_axis_y psf_index_x_first.

(* ---------------- sky_sep ---------------- *)
Lemma m_pix2sky_eq P x y : m_pix2sky P (x, y) = P (y, x).
Proof.
  destruct (point_roundtrip P (fun p => p) (fun _ => False) (fun p H => False_ind _ H) x y) as [H _]. exact H.
Qed.

Lemma m_sky_sep_eq P x1 y1 x2 y2 :
  m_sky_sep P (x1, y1) (x2, y2) = gcd (fst (P (y1, x1))) (snd (P (y1, x1))) (fst (P (y2, x2))) (snd (P (y2, x2))).
Proof. unfold m_sky_sep. rewrite leaf_sky_sep, !m_pix2sky_eq. reflexivity. Qed.

Lemma sky_sep_great_circle (P : pt -> pt) (p q r : pt) :
  let s := fun x : pt => P (snd x, fst x) in
  let d := m_sky_sep P in
  d p q = gcd (fst (s p)) (snd (s p)) (fst (s q)) (snd (s q)) /\
  cos (rad (d p q)) = dot (uvec (fst (s p)) (snd (s p))) (uvec (fst (s q)) (snd (s q))) /\
  0 <= d p q <= 180 /\
  d p q = d q p /\
  (d p q = 0 <-> uvec (fst (s p)) (snd (s p)) = uvec (fst (s q)) (snd (s q))) /\
  d p r <= d p q + d q r.
Proof.
  destruct p as [x1 y1], q as [x2 y2], r as [x3 y3]. cbv zeta. cbn [fst snd].
  rewrite !m_sky_sep_eq. repeat split.
  - apply gcd_vector.
  - apply gcd_range.
  - apply gcd_range.
  - apply gcd_sym.
  - apply gcd_zero_iff.
  - apply gcd_zero_iff.
  - apply gcd_triangle.
Qed.

(* ---------------- get_pixinfo ---------------- *)
Lemma pixinfo_branch_cdelt p : p CDELT1 = true -> p CDELT2 = true -> pixinfo_branch p = 0%nat.
Proof. intros H1 H2. unfold pixinfo_branch. rewrite leaf_pixinfo_keys. cbn [first_branch forallb]. rewrite H1, H2. reflexivity. Qed.
Lemma pixinfo_branch_cd4 p : p CDELT1 && p CDELT2 = false ->
  p CD1_1 = true -> p CD1_2 = true -> p CD2_1 = true -> p CD2_2 = true -> pixinfo_branch p = 1%nat.
Proof.
  intros H0 H1 H2 H3 H4. unfold pixinfo_branch. rewrite leaf_pixinfo_keys. cbn [first_branch forallb].
  rewrite andb_true_r, H0, H1, H2, H3, H4. reflexivity.
Qed.
Lemma pixinfo_branch_cd2 p : p CDELT1 && p CDELT2 = false -> p CD1_2 && p CD2_1 = false ->
  p CD1_1 = true -> p CD2_2 = true -> pixinfo_branch p = 2%nat.
Proof.
  intros H0 H1 H2 H3. unfold pixinfo_branch. rewrite leaf_pixinfo_keys. cbn [first_branch forallb].
  rewrite !andb_true_r, H0, H2, H3. cbn [andb].
  destruct (p CD1_2); cbn [andb] in *; [rewrite H1|]; reflexivity.
Qed.
Lemma pixinfo_branch_else p : p CDELT1 && p CDELT2 = false -> p CD1_1 && p CD2_2 = false -> pixinfo_branch p = 3%nat.
Proof.
  intros H0 H1. unfold pixinfo_branch. rewrite leaf_pixinfo_keys. cbn [first_branch forallb].
  rewrite !andb_true_r, H0, H1.
  destruct (p CD1_1); cbn [andb] in *; [|reflexivity].
  rewrite H1. rewrite !andb_false_r. reflexivity.
Qed.
Lemma m_pixinfo_at h k : pixinfo_branch (pres h) = k -> m_pixinfo h = (pixinfo_area k (val h), pixinfo_scale k (val h)).
Proof. intros <-. reflexivity. Qed.

(* CDELT1 and CDELT2 present: they are used, whatever CD / PC cards the header has *)
Lemma pixinfo_cdelt h : pres h CDELT1 = true -> pres h CDELT2 = true ->
  m_pixinfo h = (Rabs (val h CDELT1 * val h CDELT2), (val h CDELT1, val h CDELT2)).
Proof.
  intros H1 H2. rewrite (m_pixinfo_at h 0%nat) by (apply pixinfo_branch_cdelt; assumption).
  destruct (leaf_pixinfo_cdelt (val h)) as [-> ->]. reflexivity.
Qed.
(* otherwise a full CD matrix: the area is |det CD| (the true area of a pixel of the linear part), the scale is the diagonal *)
Lemma pixinfo_cd4 h : pres h CDELT1 && pres h CDELT2 = false ->
  pres h CD1_1 = true -> pres h CD1_2 = true -> pres h CD2_1 = true -> pres h CD2_2 = true ->
  m_pixinfo h = (Rabs (val h CD1_1 * val h CD2_2 - val h CD1_2 * val h CD2_1), (val h CD1_1, val h CD2_2)).
Proof.
  intros H0 H1 H2 H3 H4. rewrite (m_pixinfo_at h 1%nat) by (apply pixinfo_branch_cd4; assumption).
  destruct (leaf_pixinfo_cd4 (val h)) as [-> ->]. reflexivity.
Qed.
Lemma pixinfo_cd2 h : pres h CDELT1 && pres h CDELT2 = false -> pres h CD1_2 && pres h CD2_1 = false ->
  pres h CD1_1 = true -> pres h CD2_2 = true ->
  m_pixinfo h = (Rabs (val h CD1_1 * val h CD2_2), (val h CD1_1, val h CD2_2)).
Proof.
  intros H0 H1 H2 H3. rewrite (m_pixinfo_at h 2%nat) by (apply pixinfo_branch_cd2; assumption).
  destruct (leaf_pixinfo_cd2 (val h)) as [-> ->]. reflexivity.
Qed.
Lemma pixinfo_none h : pres h CDELT1 && pres h CDELT2 = false -> pres h CD1_1 && pres h CD2_2 = false ->
  m_pixinfo h = (0, (0, 0)).
Proof.
  intros H0 H1. rewrite (m_pixinfo_at h 3%nat) by (apply pixinfo_branch_else; assumption).
  destruct (leaf_pixinfo_else (val h)) as [-> ->]. reflexivity.
Qed.

(* a diagonal CD matrix and the CDELT cards with the same numbers give the same answer *)
Lemma pixinfo_cdelt_cd_agree h h' :
  pres h CDELT1 && pres h CDELT2 = false ->
  pres h CD1_1 = true -> pres h CD1_2 = true -> pres h CD2_1 = true -> pres h CD2_2 = true ->
  val h CD1_2 = 0 -> val h CD2_1 = 0 ->
  pres h' CDELT1 = true -> pres h' CDELT2 = true -> val h' CDELT1 = val h CD1_1 -> val h' CDELT2 = val h CD2_2 ->
  m_pixinfo h = m_pixinfo h'.
Proof.
  intros H0 H1 H2 H3 H4 Z1 Z2 P1 P2 V1 V2.
  rewrite (pixinfo_cd4 h H0 H1 H2 H3 H4), (pixinfo_cdelt h' P1 P2), Z1, Z2, V1, V2.
  f_equal. f_equal. ring.
Qed.

(* a rotated CD matrix (scale s, angle t, the usual handedness): the area is the true s^2, but the pixscale is (-s cos t, s cos t),
   not (-s, s): the true scale along axis 1, hypot CD1_1 CD2_1, is |CD1_1| only when CD2_1 = 0 *)
Lemma pixinfo_rotated h s t : pres h CDELT1 && pres h CDELT2 = false ->
  pres h CD1_1 = true -> pres h CD1_2 = true -> pres h CD2_1 = true -> pres h CD2_2 = true ->
  val h CD1_1 = - s * cos t -> val h CD1_2 = s * sin t -> val h CD2_1 = s * sin t -> val h CD2_2 = s * cos t ->
  m_pixinfo h = (s * s, (- s * cos t, s * cos t)).
Proof.
  intros H0 H1 H2 H3 H4 V1 V2 V3 V4. rewrite (pixinfo_cd4 h H0 H1 H2 H3 H4), V1, V2, V3, V4.
  f_equal.
  replace (- s * cos t * (s * cos t) - s * sin t * (s * sin t)) with (- (s * s * ((sin t)² + (cos t)²))) by (unfold Rsqr; ring).
  rewrite sin2_cos2, Rabs_Ropp, Rmult_1_r. apply Rabs_pos_eq. nra.
Qed.
Lemma true_scale_iff_no_rotation a c : Rabs a = hypot a c <-> c = 0.
Proof.
  unfold hypot. split.
  - intros H. assert (H2 : Rabs a * Rabs a = a * a + c * c).
    { rewrite H at 1. rewrite H. apply sqrt_sqrt. nra. }
    assert (Rabs a * Rabs a = a * a) by (unfold Rabs; destruct (Rcase_abs a); ring). nra.
  - intros ->. rewrite Rmult_0_r, Rplus_0_r. symmetry. fold (Rsqr a). apply sqrt_Rsqr_abs.
Qed.

(* ---------------- get_beam / from_header ---------------- *)
Lemma get_beam_table h :
  m_get_beam h =
  if pres h BMAJ && pres h BMIN then
    if Rltb 0 (val h BMAJ) && Rltb 0 (val h BMIN)
    then BSome (val h BMAJ, val h BMIN, if pres h BPA then val h BPA else 0) else BRaise
  else BNone.
Proof.
  unfold m_get_beam, slot. destruct leaf_get_beam_keys as [-> [-> ->]]. destruct leaf_get_beam_defaults as [-> [-> ->]].
  destruct (pres h BMAJ), (pres h BMIN), (pres h BPA); cbn [andb]; try reflexivity;
    rewrite leaf_get_beam_ctor; unfold mk_beam; rewrite leaf_beam_ok, leaf_beam_attrs; reflexivity.
Qed.
Lemma get_beam_none_iff h : m_get_beam h = BNone <-> pres h BMAJ = false \/ pres h BMIN = false.
Proof.
  rewrite get_beam_table. destruct (pres h BMAJ), (pres h BMIN); cbn [andb]; split; intros H; auto;
    try (destruct H; discriminate); destruct (Rltb 0 (val h BMAJ) && Rltb 0 (val h BMIN)); discriminate.
Qed.
Lemma from_header_beam_eq arg h hist :
  m_from_header_beam arg h hist =
  match arg with Some b => BSome b | None => match m_get_beam h with BNone => BRaise | r => r end end.
Proof.
  unfold m_from_header_beam. destruct leaf_from_header as [-> [-> [-> _]]]. destruct arg; reflexivity.
Qed.
Lemma beam_src_eq arg p : m_beam_src arg p = if arg then 0%Z else if p BMAJ && p BMIN then 1%Z else 2%Z.
Proof.
  unfold m_beam_src, avail. destruct leaf_from_header as [-> _]. destruct leaf_get_beam_keys as [-> [-> ->]].
  destruct leaf_get_beam_defaults as [-> [-> ->]]. destruct arg; cbn [andb]; [reflexivity|].
  rewrite !orb_false_r, orb_true_r, andb_true_r. reflexivity.
Qed.

Lemma beam_priority (arg : option (R * R * R)) h hist :
  (forall b, arg = Some b -> m_from_header_beam arg h hist = BSome b) /\
  (arg = None -> pres h BMAJ = true -> pres h BMIN = true -> 0 < val h BMAJ -> 0 < val h BMIN ->
   m_from_header_beam arg h hist = BSome (val h BMAJ, val h BMIN, if pres h BPA then val h BPA else 0)) /\
  (arg = None -> pres h BMAJ = true -> pres h BMIN = true -> (val h BMAJ <= 0 \/ val h BMIN <= 0) ->
   m_from_header_beam arg h hist = BRaise) /\
  (arg = None -> (pres h BMAJ = false \/ pres h BMIN = false) -> m_from_header_beam arg h hist = BRaise) /\
  (forall hist', m_from_header_beam arg h hist' = m_from_header_beam arg h hist) /\
  m_beam_src (match arg with Some _ => true | None => false end) (pres h) =
    match arg with Some _ => 0%Z | None => if pres h BMAJ && pres h BMIN then 1%Z else 2%Z end.
Proof.
  split; [|split; [|split; [|split; [|split]]]].
  - intros b ->. rewrite from_header_beam_eq. reflexivity.
  - intros -> H1 H2 Ha Hb. rewrite from_header_beam_eq, get_beam_table, H1, H2. cbn [andb]. unfold Rltb.
    destruct (Rlt_dec 0 (val h BMAJ)); [|contradiction]. destruct (Rlt_dec 0 (val h BMIN)); [|contradiction]. reflexivity.
  - intros -> H1 H2 Hab. rewrite from_header_beam_eq, get_beam_table, H1, H2. cbn [andb]. unfold Rltb.
    destruct (Rlt_dec 0 (val h BMAJ)), (Rlt_dec 0 (val h BMIN)); cbn [andb]; try reflexivity. lra.
  - intros -> H. rewrite from_header_beam_eq. apply get_beam_none_iff in H. rewrite H. reflexivity.
  - intros hist'. rewrite !from_header_beam_eq. reflexivity.
  - rewrite beam_src_eq. destruct arg; reflexivity.
Qed.

(* ---------------- fix_aips_header ---------------- *)
Lemma fix_pick_skip p hist : p BMAJ = true -> p BMIN = true -> p BPA = true -> m_fix_pick p hist = (-1)%Z.
Proof. intros H1 H2 H3. unfold m_fix_pick. rewrite leaf_aips_skip. cbn [forallb]. rewrite H1, H2, H3. reflexivity. Qed.
Lemma fix_pick_else p hist : p BMAJ && p BMIN && p BPA = false ->
  m_fix_pick p hist = match hist with
                      | None => (-2)%Z
                      | Some ls => match find_idx (fun l => fst l && snd l) ls 0%Z with None => (-1)%Z | Some k => k end
                      end.
Proof.
  intros H. unfold m_fix_pick. rewrite leaf_aips_skip. cbn [forallb]. rewrite andb_true_r, andb_assoc, H. reflexivity.
Qed.
Lemma find_idx_app {A} (f : A -> bool) pre l post k :
  Forall (fun x => f x = false) pre -> f l = true -> find_idx f (pre ++ l :: post) k = Some (k + Z.of_nat (List.length pre))%Z.
Proof.
  intros Hp Hl. revert k. induction Hp as [|a pre Ha _ IH]; intros k; cbn [app find_idx List.length].
  - rewrite Hl. f_equal. cbn. lia.
  - rewrite Ha, IH. f_equal. lia.
Qed.
Lemma find_idx_none {A} (f : A -> bool) ls k : Forall (fun x => f x = false) ls -> find_idx f ls k = None.
Proof. intros H. revert k. induction H as [|a r Ha _ IH]; intros k; cbn [find_idx]; [reflexivity|]. rewrite Ha. apply IH. Qed.

Lemma fix_aips_complete h hist : pres h BMAJ = true -> pres h BMIN = true -> pres h BPA = true ->
  m_fix_aips h hist = Some (h, false).
Proof. intros H1 H2 H3. unfold m_fix_aips. rewrite fix_pick_skip by assumption. reflexivity. Qed.
Lemma fix_aips_no_history h : pres h BMAJ && pres h BMIN && pres h BPA = false -> m_fix_aips h None = None.
Proof. intros H. unfold m_fix_aips. cbn [option_map]. rewrite fix_pick_else by assumption. reflexivity. Qed.
Lemma fix_aips_no_line h ls : pres h BMAJ && pres h BMIN && pres h BPA = false ->
  Forall (fun l => l_prefix l && l_marker l = false) ls -> m_fix_aips h (Some ls) = Some (h, false).
Proof.
  intros H Hl. unfold m_fix_aips. cbn [option_map]. rewrite fix_pick_else by assumption.
  rewrite find_idx_none; [reflexivity|].
  apply Forall_forall. intros x Hx. apply in_map_iff in Hx. destruct Hx as [l [<- Hin]].
  rewrite Forall_forall in Hl. apply (Hl l Hin).
Qed.
Lemma fix_aips_first_line h pre l post : pres h BMAJ && pres h BMIN && pres h BPA = false ->
  Forall (fun x => l_prefix x && l_marker x = false) pre -> l_prefix l && l_marker l = true ->
  exists h', m_fix_aips h (Some (pre ++ l :: post)) = Some (h', true) /\
    pres h' BMAJ = true /\ pres h' BMIN = true /\ pres h' BPA = true /\
    val h' BMAJ = l_word l 3 /\ val h' BMIN = l_word l 5 /\ val h' BPA = l_word l 7 /\
    (forall k, k <> BMAJ -> k <> BMIN -> k <> BPA -> pres h' k = pres h k /\ val h' k = val h k) /\
    m_get_beam h' = mk_beam (l_word l 3) (l_word l 5) (l_word l 7).
Proof.
  intros H Hp Hl. unfold m_fix_aips. cbn [option_map]. rewrite fix_pick_else by assumption.
  rewrite map_app. cbn [map].
  rewrite (find_idx_app (fun x : bool * bool => fst x && snd x) (map l_flags pre) (l_flags l) (map l_flags post) 0%Z).
  2:{ apply Forall_forall. intros x Hx. apply in_map_iff in Hx. destruct Hx as [y [<- Hin]].
      rewrite Forall_forall in Hp. apply (Hp y Hin). }
  2:{ exact Hl. }
  rewrite map_length. cbn [Z.add].
  replace (Z.of_nat (List.length pre) =? -2)%Z with false by (symmetry; apply Z.eqb_neq; lia).
  replace (Z.of_nat (List.length pre) =? -1)%Z with false by (symmetry; apply Z.eqb_neq; lia).
  rewrite Nat2Z.id, nth_middle, leaf_aips_sets. cbn [fold_left].
  eexists. split; [reflexivity|].
  assert (Hv : forall hh, pres hh BMAJ = true -> pres hh BMIN = true -> pres hh BPA = true ->
                          m_get_beam hh = mk_beam (val hh BMAJ) (val hh BMIN) (val hh BPA)).
  { intros hh A B C. unfold m_get_beam, slot. destruct leaf_get_beam_keys as [-> [-> ->]]. rewrite A, B, C.
    rewrite leaf_get_beam_ctor. reflexivity. }
  repeat split; try reflexivity.
  - destruct k; cbn; try reflexivity; congruence.
  - destruct k; cbn; try reflexivity; congruence.
Qed.

(* ---------------- beam areas ---------------- *)
Lemma beamarea_consistent sx sy s1 s2 :
  beamarea_deg2 (sx * s1) (sy * s2) = beamarea_pix sx sy * (s1 * s2).
Proof. rewrite leaf_beamarea_deg2, leaf_beamarea_pix. ring. Qed.
Lemma beamarea_pixarea h sx sy : pres h CDELT1 = true -> pres h CDELT2 = true ->
  beamarea_deg2 (sx * Rabs (val h CDELT1)) (sy * Rabs (val h CDELT2)) = beamarea_pix sx sy * fst (m_pixinfo h).
Proof.
  intros H1 H2. rewrite pixinfo_cdelt by assumption. cbn [fst]. rewrite Rabs_mult. apply beamarea_consistent.
Qed.
Lemma beamarea_is_pi_ab P S refpix ba bb bpa pos :
  let '(a, b, _) := m_psf_sky2sky P S refpix ba bb bpa pos in
  let '(sx, sy, _) := m_psf_pix P S refpix ba bb bpa in
  m_beamarea_deg2 P S refpix ba bb bpa pos = PI * a * b /\ m_beamarea_pix P S refpix ba bb bpa = PI * sx * sy.
Proof.
  unfold m_beamarea_deg2, m_beamarea_pix.
  destruct (m_psf_sky2sky P S refpix ba bb bpa pos) as [[a b] pa]. destruct (m_psf_pix P S refpix ba bb bpa) as [[sx sy] th].
  rewrite leaf_beamarea_deg2, leaf_beamarea_pix. split; ring.
Qed.

(* ---------------- psf map lookup ---------------- *)
Open Scope Z_scope.
Lemma psf_index_int lo hi k : m_psf_index lo hi k 1 = Z.min (Z.max k lo) hi.
Proof. unfold m_psf_index. rewrite !Z.mul_1_r. apply Z.quot_1_r. Qed.
Lemma psf_index_floor lo hi num den : 0 <= lo -> 0 < den -> lo * den <= num <= hi * den ->
  m_psf_index lo hi num den = num / den.
Proof.
  intros H0 Hd [H1 H2]. unfold m_psf_index. rewrite Z.max_l, Z.min_l by lia.
  apply Z.quot_div_nonneg; nia.
Qed.
Lemma psf_index_range lo hi num den : 0 <= lo <= hi -> 0 < den -> lo <= m_psf_index lo hi num den <= hi.
Proof.
  intros [H0 H1] Hd. unfold m_psf_index.
  set (c := Z.min (Z.max num (lo * den)) (hi * den)).
  assert (Hc : lo * den <= c <= hi * den) by (unfold c; nia).
  rewrite Z.quot_div_nonneg by nia. split.
  - apply Z.div_le_lower_bound; lia.
  - apply Z.div_le_upper_bound; lia.
Qed.
(* the centre of the cell (r, c) of the psf map has FITS coordinates (c + 1, r + 1); the lookup uses the cell (r + 1, c + 1)
   (clipped to the array) *)
Lemma psf_cell_centre shape r c : 0 <= r -> 0 <= c ->
  m_psf_cell shape (c + 1) (r + 1) 1 = (Z.min (r + 1) (shape 1 - 1), Z.min (c + 1) (shape 2 - 1)).
Proof.
  intros Hr Hc. unfold m_psf_cell. destruct leaf_psf_sky2pix as [-> [-> _]]. destruct leaf_psf_lookup as [_ ->].
  destruct (leaf_psf_clip 0) as [-> [_ [-> [-> [_ ->]]]]].
  rewrite (proj1 (proj2 (leaf_psf_clip (shape 1)))), (proj1 (proj2 (proj2 (proj2 (proj2 (leaf_psf_clip (shape 2))))))).
  cbv zeta. rewrite !psf_index_int. f_equal; f_equal; lia.
Qed.
(* in general (coordinates inside the map): the cell is the integer part of the 1-based FITS coordinate, used as a 0-based index *)
Lemma psf_cell_floor shape f1 f2 den : 0 < den -> 0 <= f2 <= (shape 1 - 1) * den -> 0 <= f1 <= (shape 2 - 1) * den ->
  m_psf_cell shape f1 f2 den = (f2 / den, f1 / den).
Proof.
  intros Hd H2 H1. unfold m_psf_cell. destruct leaf_psf_sky2pix as [-> [-> _]]. destruct leaf_psf_lookup as [_ ->].
  destruct (leaf_psf_clip 0) as [-> [_ [-> [-> [_ ->]]]]].
  rewrite (proj1 (proj2 (leaf_psf_clip (shape 1)))), (proj1 (proj2 (proj2 (proj2 (proj2 (leaf_psf_clip (shape 2))))))).
  cbv zeta. replace ((1 - 1) * den) with 0 by ring. rewrite !Z.sub_0_r.
  rewrite !psf_index_floor by lia. reflexivity.
Qed.
Lemma nearest_centre shape r c : 0 <= r < shape 1 -> 0 <= c < shape 2 -> nearest_cell shape (c + 1) (r + 1) 1 = (r, c).
Proof.
  intros Hr Hc. unfold nearest_cell, nearest_index. rewrite !Z.mul_1_r.
  assert (Hh : forall k, (2 * k + 1) / 2 = k).
  { intros k. rewrite (Z.mul_comm 2 k), Z.div_add_l by lia. replace (1 / 2) with 0 by reflexivity. lia. }
  rewrite !Hh. f_equal; lia.
Qed.
