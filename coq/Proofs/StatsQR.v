(* The executable sigma clipping over Q (mean and variance, comparisons decided by squares, Lib/Stats.sigmaclip_q)
   computes the real-valued one (mean and standard deviation, comparisons as written in the source,
   Lib/Stats.sigmaclip_r): Q2R commutes with every step. *)
From Coq Require Import ZArith QArith Qreals Reals Lra Lia List Bool.
From Aegean Require Import Lib.Stats Proofs.StatsProofs.
Import ListNotations.
Open Scope R_scope.

Lemma Q2R_red q : Q2R (Qred q) = Q2R q.
Proof. apply Qeq_eqR. apply Qred_correct. Qed.

Lemma Q2R_injZ z : Q2R (inject_Z z) = IZR z.
Proof. unfold Q2R, inject_Z. cbn. field. Qed.

Lemma Q2R_ofnat n : Q2R (q_ofnat n) = INR n.
Proof. unfold q_ofnat. rewrite Q2R_injZ. symmetry. apply INR_IZR_INZ. Qed.

Lemma Q2R_zero : Q2R 0 = 0.
Proof. unfold Q2R. cbn. lra. Qed.

Lemma ofnat_nonzero {A} (l : list A) : l <> [] -> ~ (q_ofnat (length l) == 0)%Q.
Proof.
  intros H E. destruct l; [congruence|]. unfold q_ofnat, Qeq in E. cbn [length Qnum Qden inject_Z] in E. lia.
Qed.

Lemma sum_q2r (f : Q -> Q) l : Q2R (sum Q 0%Q qadd (map f l)) = sumr (map (fun x => Q2R (f x)) l).
Proof.
  induction l as [|a l IH]; cbn [map].
  - cbn. apply Q2R_zero.
  - rewrite sumr_cons. unfold sum in *. cbn [fold_right]. unfold qadd at 1. rewrite Q2R_red, Q2R_plus, IH. reflexivity.
Qed.

Lemma mean_q2r l : l <> [] -> Q2R (mean_q l) = mean_r (map Q2R l).
Proof.
  intros H. unfold mean_q, mean_r, mean. rewrite Q2R_div by (apply ofnat_nonzero; exact H).
  rewrite Q2R_ofnat, map_length. f_equal.
  rewrite <- (map_id l) at 1. rewrite (sum_q2r (fun x => x) l). reflexivity.
Qed.

Lemma var_q2r l : l <> [] -> Q2R (var_q l) = var_r (map Q2R l).
Proof.
  intros H. unfold var_q, var_r, var. fold mean_q. fold mean_r.
  rewrite Q2R_div by (apply ofnat_nonzero; exact H). rewrite Q2R_ofnat, map_length. f_equal.
  rewrite (sum_q2r (fun x => ((x - mean_q l) * (x - mean_q l))%Q) l), map_map. f_equal.
  apply map_ext. intros x. rewrite Q2R_mult, Q2R_minus, (mean_q2r l H). reflexivity.
Qed.

(* ---- comparisons *)
Lemma qcmp_spec strict a b : qcmp strict a b = true <-> (if strict then Q2R a < Q2R b else Q2R a <= Q2R b).
Proof.
  unfold qcmp, Qltb. destruct strict.
  - rewrite negb_true_iff. split.
    + intros E. apply Qlt_Rlt. apply Qnot_le_lt. intros Hle. apply Qle_bool_iff in Hle. congruence.
    + intros Hlt. destruct (Qle_bool b a) eqn:E; [|reflexivity]. apply Qle_bool_iff in E. apply Qle_Rle in E. lra.
  - rewrite Qle_bool_iff. split; [apply Qle_Rle | apply Rle_Qle].
Qed.

Lemma sq_cmp_strict d t : 0 <= t -> (d < 0 \/ d * d < t * t) <-> d < t.
Proof.
  intros Ht. split.
  - intros [H|H]; [lra|]. destruct (Rlt_dec d 0); [lra|]. apply Rsqr_incrst_0; [exact H | lra | exact Ht].
  - intros H. destruct (Rlt_dec d 0); [left; assumption | right]. apply Rsqr_incrst_1; lra.
Qed.

Lemma sq_cmp_weak d t : 0 <= t -> (d <= 0 \/ d * d <= t * t) <-> d <= t.
Proof.
  intros Ht. split.
  - intros [H|H]; [lra|]. destruct (Rle_dec d 0); [lra|]. apply Rsqr_incr_0; [exact H | lra | exact Ht].
  - intros H. destruct (Rle_dec d 0); [left; assumption | right]. apply Rsqr_incr_1; lra.
Qed.

Lemma keep_q_is_r lo hi sl sh m v x : (0 <= lo)%Z -> (0 <= hi)%Z -> 0 <= Q2R v ->
  keep_q lo hi sl sh m v x = keep_r lo hi sl sh (Q2R m) (sqrt (Q2R v)) (Q2R x).
Proof.
  intros Hlo Hhi Hv. apply eq_true_iff_eq. rewrite keep_r_spec. unfold keep_q.
  rewrite andb_true_iff, !orb_true_iff, !qcmp_spec.
  set (M := Q2R m). set (X := Q2R x). set (s := sqrt (Q2R v)).
  assert (Hs : 0 <= s) by apply sqrt_pos.
  assert (Hss : s * s = Q2R v) by (apply sqrt_sqrt; exact Hv).
  assert (HL : 0 <= IZR lo) by (apply IZR_le; exact Hlo).
  assert (HH : 0 <= IZR hi) by (apply IZR_le; exact Hhi).
  assert (E1 : Q2R ((m - x) * (m - x)) = (M - X) * (M - X)) by (rewrite Q2R_mult, Q2R_minus; reflexivity).
  assert (E2 : Q2R (inject_Z (lo * lo) * v) = (s * IZR lo) * (s * IZR lo))
    by (rewrite Q2R_mult, Q2R_injZ, mult_IZR, <- Hss; ring).
  assert (E3 : Q2R ((x - m) * (x - m)) = (X - M) * (X - M)) by (rewrite Q2R_mult, Q2R_minus; reflexivity).
  assert (E4 : Q2R (inject_Z (hi * hi) * v) = (s * IZR hi) * (s * IZR hi))
    by (rewrite Q2R_mult, Q2R_injZ, mult_IZR, <- Hss; ring).
  rewrite E1, E2, E3, E4.
  assert (T1 : 0 <= s * IZR lo) by (apply Rmult_le_pos; assumption).
  assert (T2 : 0 <= s * IZR hi) by (apply Rmult_le_pos; assumption).
  pose proof (sq_cmp_strict (M - X) (s * IZR lo) T1) as S1. pose proof (sq_cmp_weak (M - X) (s * IZR lo) T1) as W1.
  pose proof (sq_cmp_strict (X - M) (s * IZR hi) T2) as S2. pose proof (sq_cmp_weak (X - M) (s * IZR hi) T2) as W2.
  destruct sl, sh; split; intros [A B]; split.
  all: try (apply S1 in A || apply W1 in A || apply S2 in B || apply W2 in B); try lra.
  all: try (apply S1; lra); try (apply W1; lra); try (apply S2; lra); try (apply W2; lra).
  all: try (destruct A as [A|A]; [lra|]); try (destruct B as [B|B]; [lra|]).
  all: try (assert (M - X < s * IZR lo) by (apply S1; right; exact A); lra).
  all: try (assert (M - X <= s * IZR lo) by (apply W1; right; exact A); lra).
  all: try (assert (X - M < s * IZR hi) by (apply S2; right; exact B); lra).
  all: try (assert (X - M <= s * IZR hi) by (apply W2; right; exact B); lra).
Qed.

Lemma filter_map_comm2 {A B} (phi : A -> B) (p : A -> bool) (p' : B -> bool) l :
  (forall x, p' (phi x) = p x) -> filter p' (map phi l) = map phi (filter p l).
Proof.
  intros H. induction l as [|a l IH]; cbn [map filter]; [reflexivity|].
  rewrite H. destruct (p a); cbn [map]; rewrite IH; reflexivity.
Qed.

Section Link.
  Variables (lo hi : Z) (sl sh : bool).
  Hypothesis Hlo : (0 <= lo)%Z.
  Hypothesis Hhi : (0 <= hi)%Z.

  Lemma clip_loop_q2r reps : forall l m v, 0 <= Q2R v ->
    clip_loop R 0 Rplus Rdiv INR std_r (keep_r lo hi sl sh) reps (map Q2R l) (Q2R m) (sqrt (Q2R v))
    = (Q2R (fst (clip_loop Q 0%Q qadd Qdiv q_ofnat var_q (keep_q lo hi sl sh) reps l m v)),
       sqrt (Q2R (snd (clip_loop Q 0%Q qadd Qdiv q_ofnat var_q (keep_q lo hi sl sh) reps l m v)))).
  Proof.
    induction reps as [|n IH]; intros l m v Hv; cbn [clip_loop]; [reflexivity|].
    rewrite (filter_map_comm2 Q2R (keep_q lo hi sl sh m v) (keep_r lo hi sl sh (Q2R m) (sqrt (Q2R v))) l)
      by (intros; symmetry; apply keep_q_is_r; assumption).
    destruct (filter (keep_q lo hi sl sh m v) l) as [|a l'] eqn:E; cbn [map]; [reflexivity|].
    change (Q2R a :: map Q2R l') with (map Q2R (a :: l')). rewrite !map_length.
    destruct (Nat.eqb (length (a :: l')) (length l)); [reflexivity|].
    fold mean_r. fold mean_q.
    assert (Hne : a :: l' <> []) by discriminate.
    rewrite <- (mean_q2r (a :: l') Hne). unfold std_r. rewrite <- (var_q2r (a :: l') Hne).
    apply IH. rewrite (var_q2r (a :: l') Hne). apply var_nonneg. discriminate.
  Qed.

  Lemma sigmaclip_q2r reps l : l <> [] ->
    sigmaclip_r lo hi sl sh reps (map Q2R l)
    = (Q2R (fst (sigmaclip_q lo hi sl sh reps l)), sqrt (Q2R (snd (sigmaclip_q lo hi sl sh reps l)))).
  Proof.
    intros H. unfold sigmaclip_r, sigmaclip_q, clip. cbn [fst snd]. rewrite !Q2R_red.
    fold mean_r. fold mean_q. rewrite <- (mean_q2r l H). unfold std_r at 2. rewrite <- (var_q2r l H).
    apply clip_loop_q2r. rewrite (var_q2r l H). apply var_nonneg. destruct l; [congruence | discriminate].
  Qed.
End Link.
