(* C03 - lemmas about Model/CatalogRows.v.  Everything here is over Z / N / Q / lists: axiom-free. *)
From Coq Require Import ZArith NArith QArith Qround Qabs Lqa Bool List Lia Permutation.
From Aegean Require Import Lib.FVal Gen.CatRows Model.CatalogRows.
Import ListNotations.
Open Scope Z_scope.

(* ================================================================================== *)
(* characterising lemmas: one per generated leaf; later proofs use only these          *)

Lemma isle_num_step_char n : isle_num_step n = n + 1.
Proof. reflexivity. Qed.
Lemma isle_num_incr_char : isle_num_incr_before_use = true.
Proof. reflexivity. Qed.
Lemma isle_num_init_char : isle_num_init = 0.
Proof. reflexivity. Qed.
Lemma comp_init_char : comp_init = 0.
Proof. reflexivity. Qed.
Lemma comp_step_char i : comp_step i = i + 1.
Proof. reflexivity. Qed.
Lemma refit_comp_init_char : refit_comp_init = 0.
Proof. reflexivity. Qed.
Lemma refit_comp_step_char i : refit_comp_step i = i + 1.
Proof. reflexivity. Qed.
Lemma island_components_char j : island_components j = j + 1.
Proof. reflexivity. Qed.
Lemma group_size_char : 1 <= group_size.
Proof. unfold group_size. lia. Qed.
Lemma batch_full_char len gs : batch_full len gs = true <-> gs <= len.
Proof. unfold batch_full. rewrite Z.leb_le. reflexivity. Qed.
Lemma batch_rest_char len gs : batch_rest len gs = true <-> 0 < len.
Proof. unfold batch_rest. rewrite Z.ltb_lt. reflexivity. Qed.
Lemma istart_char i gs : istart i gs = i * gs.
Proof. reflexivity. Qed.

Lemma fix_swap_test_char a b : fix_swap_test a b = flt a b.
Proof. reflexivity. Qed.
Lemma fix_pa_step_char pa : fix_pa_step pa = fadd pa (FZ 90).
Proof. reflexivity. Qed.
Lemma pa_up_test_char pa : pa_up_test pa = fle pa (FZ (-90)).
Proof. reflexivity. Qed.
Lemma pa_up_step_char pa : pa_up_step pa = fadd pa (FZ 180).
Proof. reflexivity. Qed.
Lemma pa_down_test_char pa : pa_down_test pa = flt (FZ 90) pa.
Proof. reflexivity. Qed.
Lemma pa_down_step_char pa : pa_down_step pa = fsub pa (FZ 180).
Proof. reflexivity. Qed.
Lemma ra_wrap_test_char ra : ra_wrap_test ra = flt ra (FZ 0).
Proof. reflexivity. Qed.
Lemma ra_wrap_step_char ra : ra_wrap_step ra = fadd ra (FZ 360).
Proof. reflexivity. Qed.

Lemma flag_constants_char : Forall (fun c => (c < 128)%N) flag_constants.
Proof. repeat constructor. Qed.
Lemma flag_constants_seven : length flag_constants = 7%nat /\ NoDup flag_constants /\
  Forall (fun c => exists k, (k < 7)%N /\ c = N.shiftl 1 k) flag_constants.
Proof.
  split; [reflexivity|]. split.
  - repeat constructor; simpl; intuition discriminate.
  - repeat constructor;
      [exists 0%N|exists 1%N|exists 2%N|exists 3%N|exists 4%N|exists 5%N|exists 6%N]; split; reflexivity.
Qed.
Lemma flags_used_documented : incl flags_used flag_constants.
Proof. intros x Hx. unfold flags_used, flag_constants in *. simpl in *. intuition. Qed.
Lemma flag_mask_char : flag_mask = 127%N.
Proof. reflexivity. Qed.
Lemma ERR_MASK_char : ERR_MASK = -1.
Proof. reflexivity. Qed.
Lemma errors_early_mask_char : errors_early_mask = N.lor NOTFIT FITERR.
Proof. reflexivity. Qed.
Lemma guard_pos_char v1 v2 f1 f2 : guard_pos v1 v2 f1 f2 = v1 && v2 && f1 && f2.
Proof. unfold guard_pos. destruct v1, v2, f1, f2; reflexivity. Qed.
Lemma guard_pa_char v f : guard_pa v f = v && f.
Proof. reflexivity. Qed.
Lemma guard_shape_char v1 v2 f1 f2 : guard_shape v1 v2 f1 f2 = v1 && v2 && f1 && f2.
Proof. unfold guard_shape. destruct v1, v2, f1, f2; reflexivity. Qed.
Lemma sexa_divs_char :
  dms_scale = 360000 /\ dms_div1 = 360000 /\ dms_div2 = 6000 /\ dms_div3 = 100 /\
  hms_scale = 24000 /\ hms_div1 = 360000 /\ hms_div2 = 6000 /\ hms_div3 = 100.
Proof. repeat split. Qed.

Lemma stderr_none_is_nan_char : stderr_none_is_nan = true.
Proof. reflexivity. Qed.
Lemma six_guarded_char : six_guarded = true.
Proof. reflexivity. Qed.
Lemma int_flux_guarded_char : int_flux_guarded = true.
Proof. reflexivity. Qed.
Lemma singular_fallback_char : singular_fallback_is_nan = true.
Proof. reflexivity. Qed.
Lemma copied_errors_guarded_char : copied_errors_guarded = true.
Proof. reflexivity. Qed.

(* from here on the leaves are used only through the lemmas above *)
Local Opaque isle_num_step isle_num_incr_before_use isle_num_init comp_init comp_step refit_comp_init refit_comp_step
  island_components group_size batch_full batch_rest istart fix_swap_test fix_pa_step pa_up_test pa_up_step
  pa_down_test pa_down_step ra_wrap_test ra_wrap_step errors_early_mask guard_pos guard_pa guard_shape
  stderr_none_is_nan six_guarded int_flux_guarded singular_fallback_is_nan copied_errors_guarded.

(* ================================================================================== *)
(* lists of consecutive integers                                                       *)

Lemma zseq_length lo n : length (zseq lo n) = n.
Proof. revert lo; induction n; intros; simpl; auto. Qed.
Lemma In_zseq x lo n : In x (zseq lo n) <-> lo <= x < lo + Z.of_nat n.
Proof.
  revert lo; induction n as [|n IH]; intros lo; simpl.
  - lia.
  - rewrite IH. lia.
Qed.
Lemma zseq_app lo n m : zseq lo (n + m) = zseq lo n ++ zseq (lo + Z.of_nat n) m.
Proof.
  revert lo; induction n as [|n IH]; intros lo.
  - simpl. f_equal. lia.
  - cbn [Nat.add zseq app]. rewrite IH. do 3 f_equal. lia.
Qed.
Lemma NoDup_app_intro {A} (a b : list A) :
  NoDup a -> NoDup b -> (forall x, In x a -> ~ In x b) -> NoDup (a ++ b).
Proof.
  induction a as [|x a IH]; intros Ha Hb Hd; simpl; auto.
  inversion Ha as [|? ? Hx Ha']; subst. constructor.
  - rewrite in_app_iff. intros [H|H]; [auto|]. apply (Hd x); simpl; auto.
  - apply IH; auto. intros y Hy. apply Hd. simpl; auto.
Qed.
Lemma zseq_NoDup lo n : NoDup (zseq lo n).
Proof.
  revert lo; induction n as [|n IH]; intros lo; simpl; constructor; auto.
  rewrite In_zseq. lia.
Qed.

Definition count_true (l : list bool) : nat := length (filter (fun b => b) l).

(* ================================================================================== *)
(* blind numbering                                                                     *)

Lemma blind_ids_from_spec l : forall n, blind_ids_from n l = zseq (n + 1) (count_true l).
Proof.
  induction l as [|b l IH]; intros n; [reflexivity|].
  destruct b; cbn [blind_ids_from count_true filter length].
  - rewrite isle_num_incr_char, isle_num_step_char. cbn [zseq]. f_equal. rewrite IH. reflexivity.
  - apply IH.
Qed.

(* islands that are fitted get the numbers 1, 2, ..., k in order: no number is used twice *)
Lemma blind_ids_spec l : blind_ids l = zseq 1 (count_true l).
Proof. unfold blind_ids. rewrite blind_ids_from_spec, isle_num_init_char. reflexivity. Qed.
Lemma blind_ids_unique l : NoDup (blind_ids l).
Proof. rewrite blind_ids_spec. apply zseq_NoDup. Qed.

(* ================================================================================== *)
(* component counter                                                                   *)

Lemma summit_ids_from_spec l : forall i,
  summit_ids_from i l = (zseq i (count_true l), i + Z.of_nat (count_true l)).
Proof.
  induction l as [|b l IH]; intros i.
  - cbn. apply pair_equal_spec. split; [reflexivity|unfold count_true; lia].
  - destruct b; cbn [summit_ids_from count_true filter length].
    + rewrite IH, comp_step_char. cbn [fst snd zseq]. apply pair_equal_spec. split; [reflexivity|unfold count_true; lia].
    + apply IH.
Qed.

(* skipped summits leave no holes: the prefixes used are c0_, ..., c(n-1)_ with n = number of accepted
   summits = the stored `components`, which is what result_to_components iterates over *)
Lemma components_contiguous acc :
  snd (summit_ids acc) = Z.of_nat (count_true acc) /\
  fst (summit_ids acc) = component_numbers (snd (summit_ids acc)).
Proof.
  unfold summit_ids. rewrite summit_ids_from_spec, comp_init_char. cbn [fst snd]. split; [lia|].
  unfold component_numbers. rewrite Z.add_0_l, Nat2Z.id. reflexivity.
Qed.
Lemma refit_ids_from_spec l : forall i,
  refit_ids_from i l = (zseq i (count_true l), i + Z.of_nat (count_true l)).
Proof.
  induction l as [|b l IH]; intros i.
  - cbn. apply pair_equal_spec. split; [reflexivity|unfold count_true; lia].
  - destruct b; cbn [refit_ids_from count_true filter length].
    + rewrite IH, refit_comp_step_char. cbn [fst snd zseq]. apply pair_equal_spec. split; [reflexivity|unfold count_true; lia].
    + apply IH.
Qed.
Lemma refit_components_contiguous us :
  snd (refit_ids us) = Z.of_nat (count_true us) /\ fst (refit_ids us) = component_numbers (snd (refit_ids us)).
Proof.
  unfold refit_ids. rewrite refit_ids_from_spec, refit_comp_init_char. cbn [fst snd]. split; [lia|].
  unfold component_numbers. rewrite Z.add_0_l, Nat2Z.id. reflexivity.
Qed.

(* ================================================================================== *)
(* (island, source) pairs                                                              *)

Lemma In_component_numbers j n : In j (component_numbers n) <-> 0 <= j < n.
Proof. unfold component_numbers. rewrite In_zseq. lia. Qed.

Lemma In_rows_of l i j : In (i, j) (rows_of l) <-> exists n, In (i, n) l /\ 0 <= j < n.
Proof.
  unfold rows_of. rewrite in_flat_map. split.
  - intros [[i' n] [Hin Hm]]. cbn [fst snd] in Hm. apply in_map_iff in Hm.
    destruct Hm as [j' [E Hj]]. inversion E; subst. exists n. split; auto.
    apply In_component_numbers; auto.
  - intros [n [Hin Hj]]. exists (i, n). split; auto. cbn [fst snd]. apply in_map_iff.
    exists j. split; auto. apply In_component_numbers; auto.
Qed.

Lemma rows_of_NoDup l : NoDup (map fst l) -> NoDup (rows_of l).
Proof.
  induction l as [|[i n] l IH]; intros Hnd; [constructor|].
  cbn [map fst] in Hnd. inversion Hnd as [|? ? Hi Hnd']; subst.
  unfold rows_of. cbn [flat_map fst snd]. apply NoDup_app_intro.
  - unfold component_numbers. generalize (zseq 0 (Z.to_nat n)) (zseq_NoDup 0 (Z.to_nat n)).
    intros s Hs. induction Hs as [|x s Hx Hs IHs]; cbn [map]; constructor; auto.
    rewrite in_map_iff. intros [y [E Hy]]. inversion E; subst. auto.
  - apply IH; auto.
  - intros [i' j] Hin Hin'. apply in_map_iff in Hin. destruct Hin as [j' [E _]]. inversion E; subst.
    apply In_rows_of in Hin'. destruct Hin' as [m [Hm _]]. apply Hi. apply in_map_iff.
    exists (i', m). auto.
Qed.

(* the components of an island are numbered 0 .. n-1 *)
Lemma rows_of_numbered l i n : NoDup (map fst l) -> In (i, n) l ->
  forall j, In (i, j) (rows_of l) <-> 0 <= j < n.
Proof.
  intros Hnd Hin j. rewrite In_rows_of. split.
  - intros [m [Hm Hj]]. assert (m = n); [|subst; auto].
    clear Hj. induction l as [|[i' n'] l IH]; [contradiction|].
    cbn [map fst] in Hnd. inversion Hnd as [|? ? Hi Hnd']; subst.
    destruct Hin as [E|Hin], Hm as [E'|Hm].
    + congruence.
    + inversion E; subst. exfalso. apply Hi. apply in_map_iff. exists (i, m). auto.
    + inversion E'; subst. exfalso. apply Hi. apply in_map_iff. exists (i, n). auto.
    + auto.
  - intros Hj. exists n. auto.
Qed.
Lemma rows_of_contiguous l i j : In (i, j) (rows_of l) -> 0 <= j /\ (0 < j -> In (i, j - 1) (rows_of l)).
Proof.
  rewrite In_rows_of. intros [n [Hin Hj]]. split; [lia|]. intros Hp. apply In_rows_of. exists n. split; auto. lia.
Qed.

Lemma map_fst_combine_incl {A B} (a : list A) (b : list B) x : In x (map fst (combine a b)) -> In x a.
Proof.
  revert b; induction a as [|y a IH]; intros [|z b]; simpl; try tauto. intros [H|H]; eauto.
Qed.
Lemma NoDup_map_fst_combine {A B} (a : list A) (b : list B) : NoDup a -> NoDup (map fst (combine a b)).
Proof.
  revert b; induction a as [|y a IH]; intros [|z b] Hnd; simpl; try constructor.
  - inversion Hnd; subst. intro H. apply map_fst_combine_incl in H. auto.
  - inversion Hnd; subst. auto.
Qed.

(* blind catalogue: pairs unique, islands' components 0..n-1 *)
Lemma blind_rows_unique isl : NoDup (blind_rows isl).
Proof.
  unfold blind_rows, blind_islands. apply rows_of_NoDup. apply NoDup_map_fst_combine. apply blind_ids_unique.
Qed.
Lemma blind_rows_contiguous isl i j :
  In (i, j) (blind_rows isl) -> 0 <= j /\ (0 < j -> In (i, j - 1) (blind_rows isl)).
Proof. apply rows_of_contiguous. Qed.

(* ================================================================================== *)
(* priorized numbering                                                                 *)

(* the statement of the property for the istart leaf: batch g, position k < group size *)
Lemma istart_injective gs g g' k k' : 0 < gs -> 0 <= k < gs -> 0 <= k' < gs ->
  istart g gs + k = istart g' gs + k' -> g = g' /\ k = k'.
Proof.
  rewrite (istart_char g), (istart_char g'). intros Hgs Hk Hk' E.
  assert (g = g') as Hg.
  { destruct (Z.lt_trichotomy g g') as [H|[H|H]]; auto; exfalso.
    - assert (gs * 1 <= gs * (g' - g)) by (apply Z.mul_le_mono_nonneg_l; lia). nia.
    - assert (gs * 1 <= gs * (g - g')) by (apply Z.mul_le_mono_nonneg_l; lia). nia. }
  subst. split; [reflexivity|lia].
Qed.

Section Batches.
  Context {A : Type}.
  Variable gsn : nat.
  Hypothesis gsn_pos : (1 <= gsn)%nat.
  Let gs := Z.of_nat gsn.

  Definition ids_from (k : Z) (bs : list (list A)) : list Z :=
    flat_map (fun ib => zseq (istart (fst ib) gs) (length (snd ib))) (combine (zseq k (length bs)) bs).

  Lemma ids_from_cons k b bs : ids_from k (b :: bs) = zseq (istart k gs) (length b) ++ ids_from (k + 1) bs.
  Proof. reflexivity. Qed.
  Lemma ids_from_app k a b : ids_from k (a ++ b) = ids_from k a ++ ids_from (k + Z.of_nat (length a)) b.
  Proof.
    revert k; induction a as [|x a IH]; intros k.
    - cbn [app length]. replace (k + Z.of_nat 0) with k by lia. reflexivity.
    - cbn [app]. rewrite !ids_from_cons, IH, <- app_assoc. f_equal.
      replace (k + 1 + Z.of_nat (length a)) with (k + Z.of_nat (length (x :: a))) by (cbn [length]; lia). reflexivity.
  Qed.
  Lemma ids_from_full k bs : Forall (fun b => length b = gsn) bs ->
    ids_from k bs = zseq (k * gs) (length bs * gsn).
  Proof.
    intros H; revert k; induction H as [|b bs Hb _ IH]; intros k; [reflexivity|].
    rewrite ids_from_cons, IH, (istart_char k gs), Hb. cbn [length Nat.mul]. rewrite zseq_app.
    do 2 f_equal. unfold gs. lia.
  Qed.

  Lemma batch_loop_ids (groups : list A) : forall cur done,
    Forall (fun b => length b = gsn) done -> (length cur < gsn)%nat ->
    ids_from 0 (batch_loop gs groups cur done) = zseq 0 (length done * gsn + length cur + length groups).
  Proof.
    induction groups as [|x t IH]; intros cur done Hd Hc; cbn [batch_loop].
    - destruct (batch_rest (Z.of_nat (length cur)) gs) eqn:E.
      + rewrite ids_from_app. rewrite (ids_from_full 0 done Hd). rewrite ids_from_cons.
        rewrite app_nil_r, (istart_char (0 + Z.of_nat (length done)) gs), Z.mul_0_l. cbn [length]. rewrite Nat.add_0_r, zseq_app.
        f_equal. f_equal. unfold gs. lia.
      + assert (length cur = 0%nat) as E0.
        { destruct (length cur) eqn:L; auto. exfalso.
          assert (batch_rest (Z.of_nat (S n)) gs = true) by (apply batch_rest_char; lia). congruence. }
        rewrite (ids_from_full 0 done Hd). rewrite E0, Z.mul_0_l. f_equal. cbn [length]. lia.
    - destruct (batch_full (Z.of_nat (length (cur ++ [x]))) gs) eqn:E.
      + apply batch_full_char in E. rewrite app_length in E. cbn [length] in E. unfold gs in E.
        assert (length (cur ++ [x]) = gsn) as L by (rewrite app_length; cbn [length]; lia).
        rewrite IH.
        * f_equal. rewrite app_length. cbn [length]. rewrite app_length in L. cbn [length] in L. nia.
        * apply Forall_app. split; auto.
        * cbn [length]. lia.
      + assert (length (cur ++ [x]) < gsn)%nat as L.
        { destruct (Nat.lt_ge_cases (length (cur ++ [x])) gsn) as [Hlt|Hge]; auto. exfalso.
          assert (batch_full (Z.of_nat (length (cur ++ [x]))) gs = true) by (apply batch_full_char; unfold gs; lia).
          congruence. }
        rewrite IH by auto. f_equal. rewrite app_length. cbn [length]. lia.
  Qed.

  (* the islands of a priorized run are numbered 0, 1, 2, ... across the batches *)
  Lemma priorized_ids_with_spec (groups : list A) :
    priorized_ids_with istart gs groups = zseq 0 (length groups).
  Proof.
    unfold priorized_ids_with, batches. change (ids_of_batches_with istart gs (batch_loop gs groups [] []))
      with (ids_from 0 (batch_loop gs groups [] [])).
    rewrite batch_loop_ids; [reflexivity|constructor|cbn [length]; lia].
  Qed.
End Batches.

Lemma priorized_ids_spec {A} (groups : list A) : priorized_ids groups = zseq 0 (length groups).
Proof.
  unfold priorized_ids. pose proof group_size_char as H.
  replace group_size with (Z.of_nat (Z.to_nat group_size)) by lia.
  apply priorized_ids_with_spec. lia.
Qed.
Lemma priorized_ids_unique {A} (groups : list A) : NoDup (priorized_ids groups).
Proof. rewrite priorized_ids_spec. apply zseq_NoDup. Qed.

Lemma keep_fitted_fst_incl l x : In x (map fst (keep_fitted l)) -> In x (map fst l).
Proof.
  induction l as [|[i [n|]] l IH]; cbn [keep_fitted flat_map map fst snd app]; auto.
  - intros [H|H]; [left; auto|right; auto].
  - intros H. right; auto.
Qed.
Lemma keep_fitted_NoDup l : NoDup (map fst l) -> NoDup (map fst (keep_fitted l)).
Proof.
  induction l as [|[i [n|]] l IH]; cbn [keep_fitted flat_map map fst snd app]; intros H; auto.
  - inversion H; subst. constructor; auto. intro Hin. apply keep_fitted_fst_incl in Hin. auto.
  - inversion H; subst. auto.
Qed.

(* priorized catalogue: pairs unique for any number of groups, skipped groups included *)
Lemma priorized_rows_unique groups : NoDup (priorized_rows groups).
Proof.
  unfold priorized_rows, priorized_islands_with. apply rows_of_NoDup. apply keep_fitted_NoDup.
  apply NoDup_map_fst_combine. apply (priorized_ids_unique groups).
Qed.
Lemma priorized_rows_contiguous groups i j :
  In (i, j) (priorized_rows groups) -> 0 <= j /\ (0 < j -> In (i, j - 1) (priorized_rows groups)).
Proof. apply rows_of_contiguous. Qed.

(* ================================================================================== *)
(* fix_shape, pa_limit, RA wrap                                                        *)
Open Scope Q_scope.

Lemma fix_shape_fin a b pa ea eb :
  exists a' b' pa' ea' eb',
    fix_shape (mkShape (Fin a) (Fin b) (Fin pa) ea eb) = mkShape (Fin a') (Fin b') (Fin pa') ea' eb' /\
    b' <= a' /\
    ((a < b /\ a' = b /\ b' = a /\ pa' = pa + inject_Z 90 /\ ea' = eb /\ eb' = ea) \/
     (b <= a /\ a' = a /\ b' = b /\ pa' = pa /\ ea' = ea /\ eb' = eb)).
Proof.
  unfold fix_shape. cbn [s_a s_b s_pa s_ea s_eb]. rewrite fix_swap_test_char.
  destruct (flt (Fin a) (Fin b)) eqn:E.
  - apply flt_fin in E. exists b, a, (pa + inject_Z 90), eb, ea. rewrite fix_pa_step_char.
    split; [reflexivity|]. split; [apply Qlt_le_weak; exact E|]. left. repeat split; auto.
  - apply flt_fin_false in E. exists a, b, pa, ea, eb. split; [reflexivity|]. split; [exact E|].
    right. repeat split; auto.
Qed.
(* NaN axes are left alone (every comparison with NaN is false) *)
Lemma fix_shape_nan b pa ea eb : fix_shape (mkShape NaN b pa ea eb) = mkShape NaN b pa ea eb.
Proof. unfold fix_shape. cbn [s_a s_b]. rewrite fix_swap_test_char. reflexivity. Qed.

Lemma pa_up_fin n : forall q, -(90) < q + 180 * inject_Z (Z.of_nat n) ->
  exists r j, pa_up n (Fin q) = Some (Fin r) /\ r == q + 180 * inject_Z j /\ -(90) < r /\
              (q <= -(90) -> r <= 90) /\ (-(90) < q -> r == q).
Proof.
  induction n as [|n IH]; intros q Hq.
  - cbn [Z.of_nat] in Hq. change (inject_Z 0) with 0 in Hq.
    assert (-(90) < q) as Hlt by lra.
    exists q, 0%Z. cbn [pa_up]. rewrite pa_up_test_char.
    assert (fle (Fin q) (FZ (-90)) = false) as E by (apply fle_fin_false; exact Hlt).
    rewrite E. change (inject_Z 0) with 0. repeat split; intros; try reflexivity; try lra.
  - cbn [pa_up]. rewrite pa_up_test_char. destruct (fle (Fin q) (FZ (-90))) eqn:E.
    + apply fle_fin in E. change (inject_Z (-90)) with (-(90)) in E.
      rewrite pa_up_step_char. cbn [fadd FZ].
      rewrite Nat2Z.inj_succ in Hq. unfold Z.succ in Hq. rewrite inject_Z_plus in Hq.
      change (inject_Z 1) with 1 in Hq. change (inject_Z 180) with 180.
      destruct (IH (q + 180)) as [r [j [H1 [H2 [H3 [H4 H5]]]]]]; [lra|].
      exists r, (j + 1)%Z. rewrite inject_Z_plus. change (inject_Z 1) with 1.
      split; [exact H1|]. split; [lra|]. split; [exact H3|]. split.
      * intros _. destruct (Qlt_le_dec (-(90)) (q + 180)) as [Hc|Hc]; [rewrite (H5 Hc); lra|auto].
      * intros Hc. lra.
    + apply fle_fin_false in E. change (inject_Z (-90)) with (-(90)) in E.
      exists q, 0%Z. change (inject_Z 0) with 0. repeat split; intros; try reflexivity; try lra.
Qed.

Lemma pa_down_fin n : forall q, q - 180 * inject_Z (Z.of_nat n) <= 90 ->
  exists r j, pa_down n (Fin q) = Some (Fin r) /\ r == q - 180 * inject_Z j /\ r <= 90 /\
              (90 < q -> -(90) < r) /\ (q <= 90 -> r == q).
Proof.
  induction n as [|n IH]; intros q Hq.
  - cbn [Z.of_nat] in Hq. change (inject_Z 0) with 0 in Hq.
    assert (q <= 90) as Hle by lra.
    exists q, 0%Z. cbn [pa_down]. rewrite pa_down_test_char.
    assert (flt (FZ 90) (Fin q) = false) as E by (apply flt_fin_false; exact Hle).
    rewrite E. change (inject_Z 0) with 0. repeat split; intros; try reflexivity; try lra.
  - cbn [pa_down]. rewrite pa_down_test_char. destruct (flt (FZ 90) (Fin q)) eqn:E.
    + apply flt_fin in E. change (inject_Z 90) with 90 in E.
      rewrite pa_down_step_char. cbn [fsub fneg fadd FZ].
      rewrite Nat2Z.inj_succ in Hq. unfold Z.succ in Hq. rewrite inject_Z_plus in Hq.
      change (inject_Z 1) with 1 in Hq. change (inject_Z 180) with 180.
      destruct (IH (q + - (180))) as [r [j [H1 [H2 [H3 [H4 H5]]]]]]; [lra|].
      exists r, (j + 1)%Z. rewrite inject_Z_plus. change (inject_Z 1) with 1.
      split; [exact H1|]. split; [lra|]. split; [exact H3|]. split.
      * intros _. destruct (Qlt_le_dec 90 (q + - (180))) as [Hc|Hc]; [auto|rewrite (H5 Hc); lra].
      * intros Hc. lra.
    + apply flt_fin_false in E. change (inject_Z 90) with 90 in E.
      exists q, 0%Z. change (inject_Z 0) with 0. repeat split; intros; try reflexivity; try lra.
Qed.

Lemma pa_turns_bounds q : q - 180 * inject_Z (pa_turns q) <= 90 /\ -(90) < q - 180 * inject_Z (pa_turns q).
Proof.
  unfold pa_turns. pose proof (Qle_ceiling ((q - 90) / 180)) as H1.
  pose proof (Qceiling_lt ((q - 90) / 180)) as H2.
  assert (E: (q - 90) / 180 * 180 == q - 90) by field.
  unfold Z.sub in H2. rewrite inject_Z_plus, inject_Z_opp in H2. change (inject_Z 1) with 1 in H2.
  generalize dependent ((q - 90) / 180). intros X. generalize (inject_Z (Qceiling X)). intros T H1 H2 E.
  split; lra.
Qed.
Lemma pa_closed_range q : -(90) < pa_closed q /\ pa_closed q <= 90.
Proof. unfold pa_closed. destruct (pa_turns_bounds q). split; assumption. Qed.

Lemma int_between_m1_1 m : -(1) < inject_Z m -> inject_Z m < 1 -> m = 0%Z.
Proof.
  intros H H0. change (-(1)) with (inject_Z (-1)) in H. change 1 with (inject_Z 1) in H0.
  rewrite <- Zlt_Qlt in H, H0. lia.
Qed.
(* the representative in (-90, 90] is unique *)
Lemma pa_closed_unique q r k : r == q + 180 * inject_Z k -> -(90) < r -> r <= 90 -> r == pa_closed q.
Proof.
  intros E H1 H2. destruct (pa_closed_range q) as [H3 H4]. unfold pa_closed in *.
  assert (k + pa_turns q = 0)%Z as Hk.
  { apply int_between_m1_1; rewrite inject_Z_plus; lra. }
  assert (inject_Z k == - inject_Z (pa_turns q)) as Hk'.
  { assert (inject_Z (k + pa_turns q) == 0) as Hz by (rewrite Hk; reflexivity).
    rewrite inject_Z_plus in Hz. lra. }
  lra.
Qed.

Lemma pa_fuel_enough q n : (pa_fuel q <= n)%nat ->
  -(90) < q + 180 * inject_Z (Z.of_nat n) /\ q - 180 * inject_Z (Z.of_nat n) <= 90.
Proof.
  unfold pa_fuel. intros Hn. destruct (pa_turns_bounds q) as [H1 H2].
  set (t := pa_turns q) in *.
  assert (t <= Z.of_nat n /\ - t <= Z.of_nat n)%Z as [Ha Hb] by lia.
  rewrite Zle_Qle in Ha, Hb. rewrite inject_Z_opp in Hb. split; lra.
Qed.

(* pa_limit terminates on every finite input within pa_fuel q iterations per loop and returns the
   representative of pa modulo 180 in (-90, 90] *)
Lemma pa_limit_fin q n : (pa_fuel q <= n)%nat ->
  exists r, pa_limit_fuel n (Fin q) = Some (Fin r) /\ -(90) < r /\ r <= 90 /\ r == pa_closed q.
Proof.
  intros Hn. destruct (pa_fuel_enough q n Hn) as [Hu Hd]. unfold pa_limit_fuel.
  destruct (pa_up_fin n q Hu) as [r1 [j1 [E1 [Q1 [L1 [A1 B1]]]]]]. rewrite E1.
  assert (r1 - 180 * inject_Z (Z.of_nat n) <= 90) as Hd1.
  { destruct (Qlt_le_dec (-(90)) q) as [Hc|Hc].
    - rewrite (B1 Hc). exact Hd.
    - pose proof (A1 Hc). assert (0 <= inject_Z (Z.of_nat n)) by (change 0 with (inject_Z 0); rewrite <- Zle_Qle; lia). lra. }
  destruct (pa_down_fin n r1 Hd1) as [r2 [j2 [E2 [Q2 [L2 [A2 B2]]]]]]. exists r2.
  split; [exact E2|].
  assert (-(90) < r2) as Hlo.
  { destruct (Qlt_le_dec 90 r1) as [Hc|Hc]; [auto|rewrite (B2 Hc); exact L1]. }
  split; [exact Hlo|]. split; [exact L2|].
  apply (pa_closed_unique q r2 (j1 - j2)); auto.
  unfold Z.sub. rewrite inject_Z_plus, inject_Z_opp. lra.
Qed.
(* without enough fuel the loops do not finish: the bound is not slack by more than one *)
Lemma pa_limit_no_fuel q : q <= -(90) \/ 90 < q -> pa_limit_fuel 0 (Fin q) = None.
Proof.
  intros [H|H]; unfold pa_limit_fuel; cbn [pa_up].
  - rewrite pa_up_test_char. assert (fle (Fin q) (FZ (-90)) = true) as E by (apply fle_fin; exact H). rewrite E. reflexivity.
  - rewrite pa_up_test_char. assert (fle (Fin q) (FZ (-90)) = false) as E by (apply fle_fin_false; change (inject_Z (-90)) with (-(90)); lra).
    rewrite E. cbn [pa_down]. rewrite pa_down_test_char.
    assert (flt (FZ 90) (Fin q) = true) as E' by (apply flt_fin; exact H). rewrite E'. reflexivity.
Qed.
(* infinities: the loop condition stays true for ever; NaN: both conditions are false *)
Lemma pa_limit_inf n : pa_limit_fuel n PInf = None /\ pa_limit_fuel n NInf = None /\ pa_limit_fuel n NaN = Some NaN.
Proof.
  unfold pa_limit_fuel. split; [|split].
  - assert (pa_up n PInf = Some PInf) as E.
    { destruct n; cbn [pa_up]; rewrite pa_up_test_char; reflexivity. }
    rewrite E. clear E. induction n as [|n IH]; cbn [pa_down]; rewrite pa_down_test_char; cbn [flt FZ]; [reflexivity|].
    rewrite pa_down_step_char. cbn [fsub fneg fadd FZ]. exact IH.
  - assert (pa_up n NInf = None) as E.
    { induction n as [|n IH]; cbn [pa_up]; rewrite pa_up_test_char; cbn [fle FZ]; [reflexivity|].
      rewrite pa_up_step_char. cbn [fadd FZ]. exact IH. }
    rewrite E. reflexivity.
  - assert (pa_up n NaN = Some NaN) as E.
    { destruct n; cbn [pa_up]; rewrite pa_up_test_char; reflexivity. }
    rewrite E. destruct n; cbn [pa_down]; rewrite pa_down_test_char; reflexivity.
Qed.

Lemma ra_wrap_range q : -(360) <= q -> q < 360 ->
  exists r, ra_wrap (Fin q) = Fin r /\ 0 <= r /\ r < 360 /\ (r == q \/ r == q + 360).
Proof.
  intros H1 H2. unfold ra_wrap. rewrite ra_wrap_test_char. destruct (flt (Fin q) (FZ 0)) eqn:E.
  - apply flt_fin in E. change (inject_Z 0) with 0 in E. rewrite ra_wrap_step_char. cbn [fadd FZ].
    change (inject_Z 360) with 360. exists (q + 360). split; [reflexivity|]. split; [lra|]. split; [lra|]. right. reflexivity.
  - apply flt_fin_false in E. change (inject_Z 0) with 0 in E. exists q. split; [reflexivity|].
    split; [lra|]. split; [lra|]. left. reflexivity.
Qed.

(* what result_to_components stores for finite inputs *)
Lemma shape_range a b pa ea eb :
  exists a' b' pa' ea' eb',
    fix_shape (mkShape (Fin a) (Fin b) (Fin pa) ea eb) = mkShape (Fin a') (Fin b') (Fin pa') ea' eb' /\
    b' <= a' /\ (0 < a -> 0 < b -> 0 < b') /\
    forall n, (pa_fuel pa' <= n)%nat ->
      exists r, normalise n (mkShape (Fin a) (Fin b) (Fin pa) ea eb) = Some (mkShape (Fin a') (Fin b') (Fin r) ea' eb') /\
                -(90) < r /\ r <= 90 /\ r == pa_closed pa'.
Proof.
  destruct (fix_shape_fin a b pa ea eb) as [a' [b' [pa' [ea' [eb' [E [Hab Hc]]]]]]].
  exists a', b', pa', ea', eb'. split; [exact E|]. split; [exact Hab|]. split.
  - intros Ha Hb. destruct Hc as [[_ [_ [-> _]]]|[_ [_ [-> _]]]]; assumption.
  - intros n Hn. unfold normalise. rewrite E. cbn [s_a s_b s_pa s_ea s_eb].
    destruct (pa_limit_fin pa' n Hn) as [r [E' [H1 [H2 H3]]]]. rewrite E'. exists r. auto.
Qed.
Close Scope Q_scope.

(* ================================================================================== *)
(* flags                                                                               *)

Lemma lor_lt_128 a b : (a < 128)%N -> (b < 128)%N -> (N.lor a b < 128)%N.
Proof.
  intros Ha Hb. destruct (N.eq_dec (N.lor a b) 0) as [E|E]; [rewrite E; reflexivity|].
  change 128%N with (2 ^ 7)%N. apply N.log2_lt_pow2; [lia|]. rewrite N.log2_lor.
  apply N.max_lub_lt.
  - destruct (N.eq_dec a 0) as [->|Hz]; [reflexivity|]. apply N.log2_lt_pow2; [lia|exact Ha].
  - destruct (N.eq_dec b 0) as [->|Hz]; [reflexivity|]. apply N.log2_lt_pow2; [lia|exact Hb].
Qed.
Lemma lt_128_bits f : (f < 128)%N -> N.land f flag_mask = f /\ forall k, (7 <= k)%N -> N.testbit f k = false.
Proof.
  intros H. rewrite flag_mask_char. change 127%N with (N.ones 7).
  assert (N.land f (N.ones 7) = f) as E.
  { rewrite N.land_ones. apply N.mod_small. exact H. }
  split; [exact E|]. intros k Hk. rewrite <- E, N.land_spec, (N.ones_spec_high 7 k Hk). apply andb_false_r.
Qed.

(* every value a flag variable can take: 0, a constant of flags.py, a value read from the input
   catalogue (priorized fitting passes src.flags on), or the `|` of two such values *)
Inductive reach (input : N -> Prop) : N -> Prop :=
| reach_zero : reach input 0%N
| reach_const c : In c flag_constants -> reach input c
| reach_input x : input x -> reach input x
| reach_or x y : reach input x -> reach input y -> reach input (N.lor x y).

Lemma flags_seven_bits (input : N -> Prop) : (forall x, input x -> (x < 128)%N) ->
  forall f, reach input f ->
    flags_ok f = true /\ N.land f flag_mask = f /\ forall k, (7 <= k)%N -> N.testbit f k = false.
Proof.
  intros Hin f Hr.
  assert (f < 128)%N as Hlt.
  { induction Hr as [|c Hc|x Hx|x y _ IHx _ IHy].
    - reflexivity.
    - pose proof flag_constants_char as Hall. rewrite Forall_forall in Hall. apply Hall. exact Hc.
    - apply Hin. exact Hx.
    - apply lor_lt_128; assumption. }
  split; [apply N.ltb_lt; exact Hlt|]. apply lt_128_bits. exact Hlt.
Qed.

Lemma small_flag_char npix : small_flag npix = 0%N \/ In (small_flag npix) flag_constants.
Proof.
  unfold small_flag. destruct ((4 <=? npix) && (npix <=? 6)); [right; simpl; tauto|].
  destruct (npix <? 4); [right; simpl; tauto|left; reflexivity].
Qed.
Lemma blind_flags_reach npix mindim ncomp : reach (fun _ => False) (blind_flags npix mindim ncomp).
Proof.
  unfold blind_flags.
  assert (reach (fun _ => False) (small_flag npix)) as H0.
  { destruct (small_flag_char npix) as [->|H]; [apply reach_zero|apply reach_const; exact H]. }
  assert (reach (fun _ => False) FIXED2PSF) as H1 by (apply reach_const; simpl; tauto).
  assert (reach (fun _ => False) NOTFIT) as H2 by (apply reach_const; simpl; tauto).
  destruct (tiny_dim mindim || existsb (has (small_flag npix)) tiny_masks);
    match goal with |- context [if ?c then _ else _] => destruct c end;
    repeat apply reach_or; assumption.
Qed.

(* ================================================================================== *)
(* decision table of fitting.errors                                                    *)

Definition stderr_ok (c : cls) : bool := match c with Pos | CNan | CPInf | CNInf => true | _ => false end.

Lemma current_guards_char :
  g_early current_guards = N.lor NOTFIT FITERR /\
  (forall a b c d, g_pos current_guards a b c d = a && b && c && d) /\
  (forall a b, g_pa current_guards a b = a && b) /\
  (forall a b c d, g_shape current_guards a b c d = a && b && c && d).
Proof.
  unfold current_guards. cbn [g_early g_pos g_pa g_shape]. rewrite errors_early_mask_char.
  split; [reflexivity|]. split; [intros; apply guard_pos_char|]. split; [intros; apply guard_pa_char|].
  intros; apply guard_shape_char.
Qed.

Section ErrorsTable.
  Variable g : err_guards.
  Hypothesis Hpos : forall a b c d, g_pos g a b c d = a && b && c && d.
  Hypothesis Hpa : forall a b, g_pa g a b = a && b.
  Hypothesis Hshape : forall a b c d, g_shape g a b c d = a && b && c && d.

  Lemma pos_cls_ok i :
    (ei_v_xo i = true -> ei_v_yo i = true -> stderr_ok (ei_xo i) = true /\ stderr_ok (ei_yo i) = true) ->
    exists p, pos_cls g i = Some p /\ err_cls_ok p = true.
  Proof.
    unfold pos_cls. destruct (ei_v_xo i), (ei_v_yo i); intros H; cbn [andb]; rewrite ?Hpos; cbn [andb];
      try (eexists; split; reflexivity).
    destruct H as [H1 H2]; try reflexivity.
    destruct (ei_xo i), (ei_yo i); try discriminate; cbn [fin2 cls_isfinite]; rewrite ?Hpos;
      eexists; split; reflexivity.
  Qed.
  Lemma pa_cls_ok i :
    (ei_v_theta i = true -> stderr_ok (ei_theta i) = true) ->
    exists p, pa_cls g i = Some p /\ err_cls_ok p = true.
  Proof.
    unfold pa_cls. destruct (ei_v_theta i); intros H; rewrite ?Hpa; cbn [andb]; try (eexists; split; reflexivity).
    specialize (H eq_refl). destruct (ei_theta i); try discriminate; cbn [cls_isfinite]; rewrite ?Hpa;
      eexists; split; reflexivity.
  Qed.
  Lemma ab_cls_ok i :
    (ei_v_sx i = true -> ei_v_sy i = true -> stderr_ok (ei_sx i) = true /\ stderr_ok (ei_sy i) = true) ->
    exists ea eb, ab_cls g i = Some (ea, eb) /\ err_cls_ok ea = true /\ err_cls_ok eb = true.
  Proof.
    unfold ab_cls. destruct (ei_v_sx i), (ei_v_sy i); intros H; cbn [andb]; rewrite ?Hshape; cbn [andb];
      try (do 2 eexists; split; [reflexivity|split; reflexivity]).
    destruct H as [H1 H2]; try reflexivity.
    destruct (ei_sx i), (ei_sy i); try discriminate; cbn [fin2 cls_isfinite]; rewrite ?Hshape;
      do 2 eexists; (split; [reflexivity|split; reflexivity]).
  Qed.
  Lemma finish_cls_ok i p t ea eb :
    ei_amp i = Pos -> nonzero_finite (ei_peak i) = true -> nonzero_finite (ei_a i) = true ->
    nonzero_finite (ei_b i) = true -> nonzero_finite (ei_int i) = true ->
    err_cls_ok p = true -> err_cls_ok t = true -> err_cls_ok ea = true -> err_cls_ok eb = true ->
    exists o, finish_cls i p t ea eb = Some o /\ err_out_ok o = true.
  Proof.
    unfold finish_cls. intros -> H1 H2 H3 H4 Hp Ht Ha Hb.
    destruct (ei_peak i); try discriminate; destruct (ei_a i); try discriminate;
      destruct (ei_b i); try discriminate; destruct (ei_int i); try discriminate;
      destruct p; try discriminate; destruct t; try discriminate;
      destruct ea; try discriminate; destruct eb; try discriminate;
      (eexists; split; [reflexivity|reflexivity]).
  Qed.

  (* every err_* is positive-finite or exactly -1 when: the amplitude stderr is positive-finite, the
     stderr of every parameter the guards look at is positive-finite or non-finite, and peak, a, b,
     int_flux are finite and non-zero *)
  Lemma errors_table_ok i :
    ei_amp i = Pos ->
    (ei_v_xo i = true -> ei_v_yo i = true -> stderr_ok (ei_xo i) = true /\ stderr_ok (ei_yo i) = true) ->
    (ei_v_theta i = true -> stderr_ok (ei_theta i) = true) ->
    (ei_v_sx i = true -> ei_v_sy i = true -> stderr_ok (ei_sx i) = true /\ stderr_ok (ei_sy i) = true) ->
    nonzero_finite (ei_peak i) = true -> nonzero_finite (ei_a i) = true ->
    nonzero_finite (ei_b i) = true -> nonzero_finite (ei_int i) = true ->
    exists o, errors_model_with g i = Some o /\ err_out_ok o = true.
  Proof.
    intros Hamp Hxy Hth Hs H1 H2 H3 H4. unfold errors_model_with.
    destruct (has (ei_flags i) (g_early g)); [eexists; split; reflexivity|].
    destruct (negb (ei_ref_finite i)); [eexists; split; reflexivity|].
    destruct (pos_cls_ok i Hxy) as [p [-> Hp]]. destruct (pa_cls_ok i Hth) as [t [-> Ht]].
    destruct (ab_cls_ok i Hs) as [ea [eb [-> [Ha Hb]]]].
    apply finish_cls_ok; assumption.
  Qed.
  (* not fitted / failed fits and bad reference positions: everything is masked, whatever the stderr are *)
  Lemma errors_table_masked i :
    has (ei_flags i) (g_early g) = true \/ ei_ref_finite i = false ->
    exists w, errors_model_with g i = Some (all_masked w).
  Proof.
    unfold errors_model_with. intros [H|H].
    - rewrite H. eexists; reflexivity.
    - destruct (has (ei_flags i) (g_early g)); [eexists; reflexivity|]. rewrite H. eexists; reflexivity.
  Qed.
End ErrorsTable.

(* ---- the repaired table: every err_* is positive-finite or -1 on the full input domain ---- *)
Lemma mask_cls_ok c : is_float c = true -> exists m, mask_cls c = Some m /\ err_cls_ok m = true.
Proof. destruct c; intros H; try discriminate; eexists; split; reflexivity. Qed.
Lemma none_to_nan_float c : is_float (none_to_nan c) = true.
Proof. destruct c; reflexivity. Qed.

Section ErrorsTable2.
  Variable g : err_guards.
  Let cfg := mkErrCfg true true true.

  Lemma conv_in_float i0 :
    let i := conv_in cfg i0 in
    is_float (ei_amp i) = true /\ is_float (ei_xo i) = true /\ is_float (ei_yo i) = true /\
    is_float (ei_sx i) = true /\ is_float (ei_sy i) = true /\ is_float (ei_theta i) = true /\
    ei_peak i = ei_peak i0 /\ ei_a i = ei_a i0 /\ ei_b i = ei_b i0 /\ ei_int i = ei_int i0.
  Proof. cbn. repeat split; apply none_to_nan_float. Qed.

  Lemma fin2_float a b : is_float a = true -> is_float b = true -> exists x y, fin2 a b = Some (x, y).
  Proof. destruct a, b; intros; try discriminate; do 2 eexists; reflexivity. Qed.

  Lemma pos2_cls_float i pv : is_float (ei_xo i) = true -> is_float (ei_yo i) = true ->
    is_float (pp_ra pv) = true -> is_float (pp_dec pv) = true ->
    exists a b, pos2_cls g i pv = Some (a, b) /\ is_float a = true /\ is_float b = true.
  Proof.
    intros H1 H2 H3 H4. unfold pos2_cls. destruct (ei_v_xo i && ei_v_yo i).
    - destruct (fin2_float _ _ H1 H2) as [x [y ->]]. destruct (g_pos g true true x y); do 2 eexists; eauto.
    - destruct (g_pos g (ei_v_xo i) (ei_v_yo i) true true); do 2 eexists; eauto.
  Qed.
  Lemma pa2_cls_float i pv : is_float (ei_theta i) = true -> is_float (pp_pa pv) = true ->
    exists a, pa2_cls g i pv = Some a /\ is_float a = true.
  Proof.
    intros H1 H2. unfold pa2_cls. destruct (ei_v_theta i).
    - destruct (ei_theta i); try discriminate; cbn [cls_isfinite];
        match goal with |- context [if ?c then _ else _] => destruct c end; eexists; eauto.
    - destruct (g_pa g false true); eexists; eauto.
  Qed.
  Lemma ab2_cls_float i pv : is_float (ei_sx i) = true -> is_float (ei_sy i) = true ->
    is_float (pp_a pv) = true -> is_float (pp_b pv) = true ->
    exists a b, ab2_cls g i pv = Some (a, b) /\ is_float a = true /\ is_float b = true.
  Proof.
    intros H1 H2 H3 H4. unfold ab2_cls. destruct (ei_v_sx i && ei_v_sy i).
    - destruct (fin2_float _ _ H1 H2) as [x [y ->]]. destruct (g_shape g true true x y); do 2 eexists; eauto.
    - destruct (g_shape g (ei_v_sx i) (ei_v_sy i) true true); do 2 eexists; eauto.
  Qed.

  Lemma int2_cls_ok i e_pk e_a e_b :
    err_cls_ok e_pk = true -> err_cls_ok e_a = true -> err_cls_ok e_b = true ->
    is_nonzero_float (ei_peak i) = true -> is_nonzero_float (ei_a i) = true -> is_nonzero_float (ei_b i) = true ->
    is_float (ei_int i) = true ->
    exists e, int2_cls cfg i e_pk e_a e_b = Some e /\ err_cls_ok e = true.
  Proof.
    unfold int2_cls. intros H1 H2 H3 H4 H5 H6 H7.
    destruct e_pk; try discriminate; destruct e_a; try discriminate; destruct e_b; try discriminate;
      destruct (ei_peak i); try discriminate; destruct (ei_a i); try discriminate; destruct (ei_b i); try discriminate;
      destruct (ei_int i); try discriminate; (eexists; split; reflexivity).
  Qed.

  Lemma finish2_cls_ok i era edec epa ea eb :
    is_float (ei_amp i) = true -> is_float era = true -> is_float edec = true -> is_float epa = true ->
    is_float ea = true -> is_float eb = true ->
    is_nonzero_float (ei_peak i) = true -> is_nonzero_float (ei_a i) = true -> is_nonzero_float (ei_b i) = true ->
    is_float (ei_int i) = true ->
    exists o, finish2_cls cfg i era edec epa ea eb = Some o /\ err_out_ok o = true.
  Proof.
    intros H0 H1 H2 H3 H4 H5 P A B I. unfold finish2_cls. cbn [c_six cfg opt_map6 fold_right].
    destruct (mask_cls_ok _ H0) as [m0 [-> M0]]. destruct (mask_cls_ok _ H1) as [m1 [-> M1]].
    destruct (mask_cls_ok _ H2) as [m2 [-> M2]]. destruct (mask_cls_ok _ H3) as [m3 [-> M3]].
    destruct (mask_cls_ok _ H4) as [m4 [-> M4]]. destruct (mask_cls_ok _ H5) as [m5 [-> M5]].
    destruct (int2_cls_ok i m0 m4 m5 M0 M4 M5 P A B I) as [e [-> E]].
    eexists. split; [reflexivity|]. unfold err_out_ok, err_out_list. cbn [eo_peak eo_ra eo_dec eo_pa eo_a eo_b eo_int forallb].
    rewrite M0, M1, M2, M3, M4, M5, E. reflexivity.
  Qed.

  (* every stderr may be positive, zero, negative, nan, +-inf or None; every propagated value may be any float;
     peak, a, b are floats other than 0 and int_flux is a float: the call returns and every err_* is positive-finite or -1 *)
  Lemma errors2_table_ok i0 pv :
    is_nonzero_float (ei_peak i0) = true -> is_nonzero_float (ei_a i0) = true -> is_nonzero_float (ei_b i0) = true ->
    is_float (ei_int i0) = true ->
    is_float (pp_ra pv) = true -> is_float (pp_dec pv) = true -> is_float (pp_pa pv) = true ->
    is_float (pp_a pv) = true -> is_float (pp_b pv) = true ->
    exists o, errors_model2_with g cfg i0 pv = Some o /\ err_out_ok o = true.
  Proof.
    intros P A B I R1 R2 R3 R4 R5. unfold errors_model2_with.
    destruct (conv_in_float i0) as [F0 [F1 [F2 [F3 [F4 [F5 [E1 [E2 [E3 E4]]]]]]]]].
    set (i := conv_in cfg i0) in *.
    destruct (has (ei_flags i) (g_early g)); [eexists; split; reflexivity|].
    destruct (negb (ei_ref_finite i)); [eexists; split; reflexivity|].
    destruct (pos2_cls_float i pv F1 F2 R1 R2) as [era [edec [-> [Q1 Q2]]]].
    destruct (pa2_cls_float i pv F5 R3) as [epa [-> Q3]].
    destruct (ab2_cls_float i pv F3 F4 R4 R5) as [ea [eb [-> [Q4 Q5]]]].
    apply finish2_cls_ok; auto; congruence.
  Qed.
End ErrorsTable2.

(* ================================================================================== *)
(* sexagesimal fields                                                                  *)

Ltac Zify.zify_post_hook ::= Z.div_mod_to_equations.
Lemma dms_fields_spec cs : 0 <= cs ->
  let '(d, m, s, c) := dms_fields cs in
  fields_value (d, m, s, c) = cs /\ 0 <= d /\ 0 <= m < 60 /\ 0 <= s < 60 /\ 0 <= c < 100.
Proof.
  intros H. unfold dms_fields, fields_value.
  destruct sexa_divs_char as [_ [-> [-> [-> _]]]]. lia.
Qed.
Lemma hms_fields_spec cs : 0 <= cs ->
  let '(h, m, s, c) := hms_fields cs in
  fields_value (h, m, s, c) = cs mod (24 * 360000) /\ 0 <= h < 24 /\ 0 <= m < 60 /\ 0 <= s < 60 /\ 0 <= c < 100.
Proof.
  intros H. unfold hms_fields, fields_value.
  destruct sexa_divs_char as [_ [_ [_ [_ [_ [-> [-> ->]]]]]]]. lia.
Qed.
Ltac Zify.zify_post_hook ::= idtac.

(* ================================================================================== *)
(* the executable row / catalogue predicates mean what the property says               *)
Open Scope Q_scope.

Lemma Qabs'_eq q : Qabs' q == Qabs q.
Proof.
  unfold Qabs'. destruct (Qleb 0 q) eqn:E.
  - apply Qleb_iff in E. symmetry. apply Qabs_pos. exact E.
  - apply Qleb_false in E. symmetry. apply Qabs_neg. apply Qlt_le_weak. exact E.
Qed.
Lemma Qabs'_leb q t : Qleb (Qabs' q) t = true <-> Qabs q <= t.
Proof. rewrite Qleb_iff, Qabs'_eq. reflexivity. Qed.

(* the clauses of the property for one component row *)
Definition shape_spec (r : row) : Prop := exists a b, r_a r = Fin a /\ r_b r = Fin b /\ 0 < b /\ b <= a.
Definition pa_spec (r : row) : Prop := exists p, r_pa r = Fin p /\ -(90) < p /\ p <= 90.
Definition ra_spec (r : row) : Prop := exists x, r_ra r = Fin x /\ 0 <= x /\ x < 360.
Definition dec_spec (r : row) : Prop := exists x, r_dec r = Fin x /\ -(90) <= x /\ x <= 90.
Definition err_spec (e : fval) : Prop := exists q, e = Fin q /\ (0 < q \/ q == -(1)).
Definition fields_spec (s : sexa) (dmax : Z) : Prop :=
  (0 <= x_d s <= dmax /\ 0 <= x_m s < 60 /\ 0 <= x_s s < 60 /\ 0 <= x_c s < 100)%Z.
(* the printed right ascension is the decimal one, in units of 0.01 s of time, to half a unit (+1e-6 for
   the binary64 product), modulo 24 h *)
Definition ra_str_spec (r : row) : Prop :=
  exists x s, r_ra r = Fin x /\ r_ra_str r = Some s /\ x_neg s = false /\ fields_spec s 23 /\
    (Qabs (x * inject_Z hms_scale - inject_Z (sexa_value s)) <= str_tol \/
     Qabs (x * inject_Z hms_scale - inject_Z (sexa_value s + 24 * hms_div1)) <= str_tol).
Definition dec_str_spec (r : row) : Prop :=
  exists x s, r_dec r = Fin x /\ r_dec_str r = Some s /\ fields_spec s 90 /\ (x_neg s = true <-> x < 0) /\
    Qabs (Qabs x * inject_Z dms_scale - inject_Z (sexa_value s)) <= str_tol.
(* int_flux = peak * a * b / (psf_a * psf_b) to within 1 % (cross-multiplied; psf axes positive) *)
Definition intflux_spec (r : row) : Prop :=
  exists p i a b pa pb, r_peak r = Fin p /\ r_int r = Fin i /\ r_a r = Fin a /\ r_b r = Fin b /\
    r_psf_a r = Fin pa /\ r_psf_b r = Fin pb /\ 0 < pa /\ 0 < pb /\
    Qabs (i * pa * pb - p * a * b) * 100 <= Qabs (p * a * b).
Definition row_spec (r : row) : Prop :=
  shape_spec r /\ pa_spec r /\ ra_spec r /\ dec_spec r /\ (r_flags r < 128)%N /\ Forall err_spec (r_errs r) /\
  ra_str_spec r /\ dec_str_spec r /\ intflux_spec r /\ (0 <= r_island r)%Z /\ (0 <= r_source r)%Z.

Lemma shape_okb_iff r : shape_okb r = true <-> shape_spec r.
Proof.
  unfold shape_okb, shape_spec. split.
  - destruct (r_a r) as [a| | |]; try discriminate. destruct (r_b r) as [b| | |]; try discriminate.
    rewrite andb_true_iff, Qltb_iff, Qleb_iff. intros [H1 H2]. exists a, b. auto.
  - intros [a [b [-> [-> [H1 H2]]]]]. rewrite andb_true_iff, Qltb_iff, Qleb_iff. auto.
Qed.
Lemma pa_okb_iff r : pa_okb r = true <-> pa_spec r.
Proof.
  unfold pa_okb, pa_spec. split.
  - destruct (r_pa r) as [p| | |]; try discriminate. rewrite andb_true_iff, Qltb_iff, Qleb_iff. intros [H1 H2]. exists p. auto.
  - intros [p [-> [H1 H2]]]. rewrite andb_true_iff, Qltb_iff, Qleb_iff. auto.
Qed.
Lemma ra_okb_iff r : ra_okb r = true <-> ra_spec r.
Proof.
  unfold ra_okb, ra_spec. split.
  - destruct (r_ra r) as [p| | |]; try discriminate. rewrite andb_true_iff, Qltb_iff, Qleb_iff. intros [H1 H2]. exists p. auto.
  - intros [p [-> [H1 H2]]]. rewrite andb_true_iff, Qltb_iff, Qleb_iff. auto.
Qed.
Lemma dec_okb_iff r : dec_okb r = true <-> dec_spec r.
Proof.
  unfold dec_okb, dec_spec. split.
  - destruct (r_dec r) as [p| | |]; try discriminate. rewrite andb_true_iff, !Qleb_iff. intros [H1 H2]. exists p. auto.
  - intros [p [-> [H1 H2]]]. rewrite andb_true_iff, !Qleb_iff. auto.
Qed.
Lemma err_okb_iff e : err_okb e = true <-> err_spec e.
Proof.
  unfold err_okb, err_spec. split.
  - destruct e as [q| | |]; try discriminate. rewrite orb_true_iff, Qltb_iff, Qeq_bool_iff. intros H. exists q. auto.
  - intros [q [-> H]]. rewrite orb_true_iff, Qltb_iff, Qeq_bool_iff. exact H.
Qed.
Lemma errs_okb_iff r : errs_okb r = true <-> Forall err_spec (r_errs r).
Proof.
  unfold errs_okb. rewrite forallb_forall, Forall_forall. split; intros H x Hx; apply err_okb_iff; auto.
Qed.
Lemma fields_okb_iff s dmax : fields_okb s dmax = true <-> fields_spec s dmax.
Proof.
  unfold fields_okb, fields_spec. rewrite !andb_true_iff, !Z.leb_le, !Z.ltb_lt. tauto.
Qed.
Lemma ra_str_okb_iff r : ra_str_okb r = true <-> ra_str_spec r.
Proof.
  unfold ra_str_okb, ra_str_spec. split.
  - destruct (r_ra r) as [x| | |]; try discriminate. destruct (r_ra_str r) as [s|]; try discriminate.
    rewrite !andb_true_iff, orb_true_iff, negb_true_iff, fields_okb_iff, !Qabs'_leb.
    intros [[H1 H2] H3]. exists x, s. auto.
  - intros [x [s [-> [-> [H1 [H2 H3]]]]]].
    rewrite !andb_true_iff, orb_true_iff, negb_true_iff, fields_okb_iff, !Qabs'_leb. auto.
Qed.
Lemma eqb_ltb_iff b x : Bool.eqb b (Qltb x 0) = true <-> (b = true <-> x < 0).
Proof.
  rewrite <- Qltb_iff. destruct b, (Qltb x 0); cbn [Bool.eqb]; split; intro H; try reflexivity; try discriminate;
    try tauto; destruct H as [H1 H2];
    try (specialize (H1 eq_refl); discriminate); try (specialize (H2 eq_refl); discriminate).
Qed.
Lemma dec_str_okb_iff r : dec_str_okb r = true <-> dec_str_spec r.
Proof.
  unfold dec_str_okb, dec_str_spec. split.
  - destruct (r_dec r) as [x| | |]; try discriminate. destruct (r_dec_str r) as [s|]; try discriminate.
    rewrite !andb_true_iff, fields_okb_iff, eqb_ltb_iff, Qabs'_leb. intros [[H1 H2] H3]. exists x, s.
    repeat split; auto; try apply H1; try apply H2.
    rewrite <- (Qabs'_eq x). exact H3.
  - intros [x [s [-> [-> [H1 [H2 H3]]]]]].
    rewrite !andb_true_iff, fields_okb_iff, eqb_ltb_iff, Qabs'_leb. repeat split; auto; try apply H1; try apply H2.
    rewrite (Qabs'_eq x). exact H3.
Qed.
Lemma intflux_okb_iff r : intflux_okb r = true <-> intflux_spec r.
Proof.
  unfold intflux_okb, intflux_spec. split.
  - destruct (r_peak r) as [p| | |]; try discriminate. destruct (r_int r) as [i| | |]; try discriminate.
    destruct (r_a r) as [a| | |]; try discriminate. destruct (r_b r) as [b| | |]; try discriminate.
    destruct (r_psf_a r) as [pa| | |]; try discriminate. destruct (r_psf_b r) as [pb| | |]; try discriminate.
    rewrite !andb_true_iff, !Qltb_iff, Qleb_iff, !Qabs'_eq. intros [[H1 H2] H3].
    exists p, i, a, b, pa, pb. repeat split; auto.
  - intros [p [i [a [b [pa [pb [-> [-> [-> [-> [-> [-> [H1 [H2 H3]]]]]]]]]]]]]].
    rewrite !andb_true_iff, !Qltb_iff, Qleb_iff, !Qabs'_eq. auto.
Qed.
Close Scope Q_scope.
Open Scope Z_scope.

Lemma row_ok_iff r : row_ok r = true <-> row_spec r.
Proof.
  unfold row_ok, row_spec.
  rewrite !andb_true_iff, shape_okb_iff, pa_okb_iff, ra_okb_iff, dec_okb_iff, errs_okb_iff, ra_str_okb_iff,
    dec_str_okb_iff, intflux_okb_iff, !Z.leb_le. unfold flags_ok. rewrite N.ltb_lt. tauto.
Qed.

(* --- catalogue level --- *)
Lemma nodupb_iff {A} (eqb : A -> A -> bool) (Heq : forall x y, eqb x y = true <-> x = y) l :
  nodupb eqb l = true <-> NoDup l.
Proof.
  induction l as [|x l IH]; cbn [nodupb].
  - split; [constructor|reflexivity].
  - rewrite andb_true_iff, negb_true_iff, IH. split.
    + intros [H1 H2]. constructor; auto. intro Hin.
      assert (existsb (eqb x) l = true) by (apply existsb_exists; exists x; split; [auto|apply Heq; reflexivity]).
      congruence.
    + intros H. inversion H as [|? ? Hx Hl]; subst. split; auto.
      destruct (existsb (eqb x) l) eqn:E; auto. apply existsb_exists in E. destruct E as [y [Hy E]].
      apply Heq in E. subst. contradiction.
Qed.
Lemma pair_eqb_iff p q : pair_eqb p q = true <-> p = q.
Proof.
  unfold pair_eqb. rewrite andb_true_iff, !Z.eqb_eq. destruct p, q; cbn [fst snd]. split.
  - intros [-> ->]. reflexivity.
  - intros E. inversion E. auto.
Qed.

Definition contiguous (ps : list (Z * Z)) : Prop :=
  forall i s, In (i, s) ps -> 0 <= s /\ (0 < s -> In (i, s - 1) ps).
Lemma contiguousb_iff ps : contiguousb ps = true <-> contiguous ps.
Proof.
  unfold contiguousb, contiguous. rewrite forallb_forall. split.
  - intros H i s Hin. specialize (H (i, s) Hin). cbn [fst snd] in H.
    rewrite andb_true_iff, orb_true_iff, Z.leb_le, Z.eqb_eq in H. destruct H as [H1 H2]. split; [exact H1|].
    intros Hs. destruct H2 as [H2|H2]; [lia|]. apply existsb_exists in H2. destruct H2 as [q [Hq E]].
    apply pair_eqb_iff in E. subst. exact Hq.
  - intros H [i s] Hin. cbn [fst snd]. destruct (H i s Hin) as [H1 H2].
    rewrite andb_true_iff, orb_true_iff, Z.leb_le, Z.eqb_eq. split; [exact H1|].
    destruct (Z.eq_dec s 0) as [E|E]; [left; exact E|right]. apply existsb_exists. exists (i, s - 1).
    split; [apply H2; lia|apply pair_eqb_iff; reflexivity].
Qed.

(* every row satisfies the row clauses, (island, source) pairs unique, uuids unique, components of each
   island numbered from 0 without holes *)
Definition cat_spec (c : list row) : Prop :=
  Forall row_spec c /\ NoDup (pairs_of c) /\ NoDup (map r_uuid c) /\ contiguous (pairs_of c).
Lemma cat_ok_iff c : cat_ok c = true <-> cat_spec c.
Proof.
  unfold cat_ok, cat_spec. rewrite !andb_true_iff, forallb_forall, Forall_forall,
    (nodupb_iff pair_eqb pair_eqb_iff), (nodupb_iff Z.eqb Z.eqb_eq), contiguousb_iff.
  split.
  - intros [[[H1 H2] H3] H4]. split; [|split; [|split]]; auto. intros x Hx. apply row_ok_iff. auto.
  - intros [H1 [H2 [H3 H4]]]. split; [split; [split|]|]; auto. intros x Hx. apply row_ok_iff. auto.
Qed.

(* unique + contiguous = the components of an island with n rows carry exactly the numbers 0 .. n-1 *)
Lemma contiguous_down ps i : contiguous ps -> forall n s, (Z.of_nat n = s) -> In (i, s) ps -> forall j, 0 <= j <= s -> In (i, j) ps.
Proof.
  intros Hc n. induction n as [|n IH]; intros s Hs Hin j Hj.
  - assert (j = s) by lia. subst j. exact Hin.
  - destruct (Z.eq_dec j s) as [->|Hne]; [exact Hin|].
    apply (IH (s - 1)); [lia| |lia]. apply (Hc i s Hin). lia.
Qed.
Lemma numbered_from_zero ps i : NoDup ps -> contiguous ps ->
  forall j, In (i, j) ps <-> 0 <= j < count_island ps i.
Proof.
  intros Hnd Hc j. unfold count_island.
  set (mine := filter (fun p => fst p =? i) ps).
  assert (forall s, In (i, s) ps <-> In (i, s) mine) as Hmine.
  { intros s. unfold mine. rewrite filter_In. cbn [fst]. rewrite Z.eqb_refl. tauto. }
  assert (NoDup mine) as Hnd' by (apply NoDup_filter; exact Hnd).
  assert (forall p, In p mine -> fst p = i) as Hfst.
  { intros p Hp. unfold mine in Hp. apply filter_In in Hp. destruct Hp as [_ E]. apply Z.eqb_eq in E. exact E. }
  split.
  - intros Hin. destruct (Hc i j Hin) as [H0 _]. split; [exact H0|].
    (* 0..j are j+1 distinct elements of mine *)
    assert (incl (map (fun s => (i, s)) (zseq 0 (Z.to_nat (j + 1)))) mine) as Hincl.
    { intros p Hp. apply in_map_iff in Hp. destruct Hp as [s [<- Hs]]. apply In_zseq in Hs.
      apply Hmine. apply (contiguous_down ps i Hc (Z.to_nat j) j); [lia|exact Hin|lia]. }
    assert (NoDup (map (fun s => (i, s)) (zseq 0 (Z.to_nat (j + 1))))) as Hnd2.
    { apply FinFun.Injective_map_NoDup; [intros x y E; inversion E; reflexivity|apply zseq_NoDup]. }
    pose proof (NoDup_incl_length Hnd2 Hincl) as Hlen. rewrite map_length, zseq_length in Hlen. lia.
  - intros [H0 Hlt].
    (* otherwise all members have source < j: at most j of them *)
    destruct (in_dec (fun p q : Z * Z => ltac:(decide equality; apply Z.eq_dec)) (i, j) ps) as [Hin|Hnot]; [exact Hin|exfalso].
    assert (incl mine (map (fun s => (i, s)) (zseq 0 (Z.to_nat j)))) as Hincl.
    { intros [i' s] Hp. pose proof (Hfst _ Hp) as E. cbn [fst] in E. subst i'.
      apply in_map_iff. exists s. split; [reflexivity|]. apply In_zseq.
      apply Hmine in Hp. destruct (Hc i s Hp) as [Hs0 _].
      destruct (Z_lt_le_dec s j) as [Hlt'|Hge]; [lia|]. exfalso. apply Hnot.
      apply (contiguous_down ps i Hc (Z.to_nat s) s); [lia|exact Hp|lia]. }
    pose proof (NoDup_incl_length Hnd' Hincl) as Hlen. rewrite map_length, zseq_length in Hlen. lia.
Qed.

(* island rows *)
Definition irow_spec (ps : list (Z * Z)) (ir : irow) (d : detected) : Prop :=
  i_components ir = count_island ps (i_island ir) /\ 1 <= i_components ir /\
  i_pixels ir = d_pixels d /\ 1 <= i_pixels ir <= i_xw ir * i_yw ir /\
  i_xmin ir = d_xmin d /\ i_xmax ir = d_xmax d /\ i_ymin ir = d_ymin d /\ i_ymax ir = d_ymax d /\
  i_xw ir = i_xmax ir - i_xmin ir /\ i_yw ir = i_ymax ir - i_ymin ir /\ (i_flags ir < 128)%N.
Lemma irow_ok_iff ps ir d : irow_ok ps ir d = true <-> irow_spec ps ir d.
Proof.
  unfold irow_ok, irow_spec, flags_ok. rewrite !andb_true_iff, !Z.eqb_eq, !Z.leb_le, N.ltb_lt. tauto.
Qed.

(* ================================================================================== *)
(* statements at the generated leaves, as used by Props/C03.v                          *)

Lemma priorized_injective g g' k k' : 0 <= k < group_size -> 0 <= k' < group_size ->
  istart g group_size + k = istart g' group_size + k' -> g = g' /\ k = k'.
Proof. intros Hk Hk'. apply istart_injective; auto. pose proof group_size_char. lia. Qed.

Lemma errors_masked_current i :
  ei_amp i = Pos ->
  (ei_v_xo i = true -> ei_v_yo i = true -> stderr_ok (ei_xo i) = true /\ stderr_ok (ei_yo i) = true) ->
  (ei_v_theta i = true -> stderr_ok (ei_theta i) = true) ->
  (ei_v_sx i = true -> ei_v_sy i = true -> stderr_ok (ei_sx i) = true /\ stderr_ok (ei_sy i) = true) ->
  nonzero_finite (ei_peak i) = true -> nonzero_finite (ei_a i) = true ->
  nonzero_finite (ei_b i) = true -> nonzero_finite (ei_int i) = true ->
  exists o, errors_model i = Some o /\ err_out_ok o = true.
Proof.
  destruct current_guards_char as [_ [H1 [H2 H3]]]. apply (errors_table_ok current_guards H1 H2 H3).
Qed.
Lemma errors2_masked_current i pv :
  is_nonzero_float (ei_peak i) = true -> is_nonzero_float (ei_a i) = true -> is_nonzero_float (ei_b i) = true ->
  is_float (ei_int i) = true ->
  is_float (pp_ra pv) = true -> is_float (pp_dec pv) = true -> is_float (pp_pa pv) = true ->
  is_float (pp_a pv) = true -> is_float (pp_b pv) = true ->
  exists o, errors_model2 i pv = Some o /\ err_out_ok o = true.
Proof.
  unfold errors_model2, current_cfg. rewrite stderr_none_is_nan_char, six_guarded_char, int_flux_guarded_char.
  apply errors2_table_ok.
Qed.
Lemma errors_masked_when_not_fitted i :
  has (ei_flags i) (N.lor NOTFIT FITERR) = true \/ ei_ref_finite i = false ->
  exists w, errors_model i = Some (all_masked w).
Proof.
  destruct current_guards_char as [H0 _]. intros H. apply errors_table_masked. rewrite H0. exact H.
Qed.

Lemma errors2_masked_when_not_fitted i pv :
  has (ei_flags i) (N.lor NOTFIT FITERR) = true \/ ei_ref_finite i = false ->
  exists w, errors_model2 i pv = Some (all_masked w).
Proof.
  destruct current_guards_char as [H0 _]. unfold errors_model2, errors_model2_with. rewrite H0.
  assert (ei_flags (conv_in current_cfg i) = ei_flags i) as -> by reflexivity.
  assert (ei_ref_finite (conv_in current_cfg i) = ei_ref_finite i) as -> by reflexivity.
  intros [H|H].
  - rewrite H. eexists; reflexivity.
  - destruct (has (ei_flags i) (N.lor NOTFIT FITERR)); [eexists; reflexivity|]. rewrite H. eexists; reflexivity.
Qed.

(* ================================================================================== *)
(* uncertainties copied from the input catalogue by priorized fitting                  *)
Lemma copied_error_ok : forall c, err_cls_ok (copied_error c) = true.
Proof. intro c. unfold copied_error. rewrite copied_errors_guarded_char. destruct c; reflexivity. Qed.
Lemma copied_error_keeps_known : forall c, err_cls_ok c = true -> c <> PyNone -> copied_error c = c.
Proof. intros c H Hn. unfold copied_error. rewrite copied_errors_guarded_char. destruct c; try reflexivity; try discriminate H; congruence. Qed.
