(* C07 - proofs about the BANE synchronisation protocol model and the stripe layout.
   Plain stdlib + lia; axiom-free. *)
From Coq Require Import ZArith Bool List Lia Arith.
From Aegean Require Import Gen.BaneSync Model.BaneProtocol.
Import ListNotations.
Local Open Scope nat_scope.

(* ------------------------------------------------------------------ *)
(* characterising lemmas for the generated leaves                      *)
Lemma leaf_wait_before_read : wait_before_read = true. Proof. reflexivity. Qed.
Lemma leaf_wait_before_mask : wait_before_mask = true. Proof. reflexivity. Qed.
Lemma leaf_abort_on_error : abort_on_error = true. Proof. reflexivity. Qed.
Lemma unlink_true : unlink_in_finally = true. Proof. reflexivity. Qed.
Lemma parties_is_n : forall cores nn, parties cores nn = nn. Proof. reflexivity. Qed.
Lemma leaf_pool_size : forall cores nn, pool_size cores nn = Z.max cores nn. Proof. reflexivity. Qed.

Lemma real_cfg_good : forall cores nn dm, (1 <= nn)%Z -> good (the_cfg cores nn dm).
Proof.
  intros cores nn dm Hnn. unfold good, the_cfg. cbn [n pool w1 w2 abrt].
  rewrite leaf_pool_size, leaf_wait_before_read, leaf_wait_before_mask, leaf_abort_on_error.
  repeat split; lia.
Qed.

(* ------------------------------------------------------------------ *)
(* list lemmas: update / nth_error / forallb / repeat                   *)
Lemma update_length {A} (l : list A) i x : length (update l i x) = length l.
Proof. revert i; induction l as [|h t IH]; intros [|i]; cbn; auto. Qed.

Lemma nth_update_eq {A} (l : list A) i x y :
  nth_error l i = Some x -> nth_error (update l i y) i = Some y.
Proof. revert i; induction l as [|h t IH]; intros [|i] H; cbn in *; try discriminate; auto. Qed.

Lemma nth_update_neq {A} (l : list A) i j y :
  j <> i -> nth_error (update l i y) j = nth_error l j.
Proof.
  revert i j; induction l as [|h t IH]; intros [|i] [|j] H; cbn; auto; try congruence.
Qed.

Lemma forallb_nth {A} (f : A -> bool) l i x :
  forallb f l = true -> nth_error l i = Some x -> f x = true.
Proof.
  intros Hf Hn. rewrite forallb_forall in Hf. apply Hf. eapply nth_error_In; eauto.
Qed.

Lemma forallb_update {A} (f : A -> bool) l i x y :
  nth_error l i = Some x -> (f x = true -> f y = true) ->
  forallb f l = true -> forallb f (update l i y) = true.
Proof.
  revert i; induction l as [|h t IH]; intros [|i] Hn Hm Hf; cbn in *; try discriminate.
  - injection Hn as ->. apply andb_true_iff in Hf as [H1 H2]. rewrite Hm, H2; auto.
  - apply andb_true_iff in Hf as [H1 H2]. rewrite H1. cbn. eapply IH; eauto.
Qed.

Lemma update_app_mid {A} (pre : list A) h t y :
  update (pre ++ h :: t) (length pre) y = pre ++ y :: t.
Proof. induction pre as [|p pre IH]; cbn; auto. now rewrite IH. Qed.

Lemma nth_app_mid {A} (pre : list A) h t : nth_error (pre ++ h :: t) (length pre) = Some h.
Proof. induction pre; cbn; auto. Qed.

Lemma all_eq_repeat {A} (d : A) l : (forall x, In x l -> x = d) -> l = repeat d (length l).
Proof.
  induction l as [|h t IH]; intros H; cbn; auto.
  rewrite (H h) by (left; auto). f_equal. apply IH. intros x Hx. apply H. right; auto.
Qed.

(* ------------------------------------------------------------------ *)
(* inversion of a step                                                 *)
Ltac step_inv H x Hx Hpc :=
  unfold step in H;
  match type of H with context [nth_error ?l ?i] =>
    destruct (nth_error l i) as [x|] eqn:Hx; [|discriminate H] end;
  match type of H with context [match ?a with Start => _ | _ => _ end] => destruct a end;
  destruct (s_pc x) eqn:Hpc; try discriminate H;
  repeat match type of H with
         | (if ?b then _ else _) = _ => let G := fresh "Hguard" in destruct b eqn:G; [|discriminate H]
         end;
  injection H as H; subst.

(* ------------------------------------------------------------------ *)
(* termination                                                         *)
Definition msum (l : list stripe) : nat := fold_right Nat.add 0 (map (fun x => rank (s_pc x)) l).

Lemma msum_update l i x y :
  nth_error l i = Some x -> rank (s_pc y) < rank (s_pc x) -> msum (update l i y) < msum l.
Proof.
  revert i; induction l as [|h t IH]; intros [|i] Hn Hr; cbn in *; try discriminate.
  - injection Hn as ->. lia.
  - specialize (IH _ Hn Hr). unfold msum in IH. lia.
Qed.

Lemma measure_decreases : forall c s i a s', step c s i a = Some s' -> measure s' < measure s.
Proof.
  intros c s i a s' H. step_inv H x Hx Hpc; unfold measure; cbn [stripes];
    apply (msum_update _ _ x); auto; rewrite Hpc; cbn;
    repeat match goal with |- context [if ?b then _ else _] => destruct b end; cbn; lia.
Qed.

Lemma msum_repeat_fresh k : msum (repeat fresh k) = 8 * k.
Proof. induction k; cbn in *; auto. unfold msum in IHk. lia. Qed.

Lemma run_measure : forall c sched s s', run c s sched = Some s' -> length sched + measure s' <= measure s.
Proof.
  intros c sched; induction sched as [|[i a] rest IH]; intros s s' H; cbn in *.
  - injection H as ->. lia.
  - destruct (step c s i a) as [s1|] eqn:Hs; [|discriminate].
    apply measure_decreases in Hs. apply IH in H. lia.
Qed.

Lemma run_length_bound : forall c sched s, run c (init c) sched = Some s -> length sched <= 8 * n c.
Proof.
  intros c sched s H. apply run_measure in H.
  unfold measure at 2 in H. cbn [init stripes] in H. fold (msum (repeat fresh (n c))) in H.
  rewrite msum_repeat_fresh in H. lia.
Qed.

(* ------------------------------------------------------------------ *)
(* runs and reachability                                               *)
Lemma run_reachable : forall c sched s s', reachable c s -> run c s sched = Some s' -> reachable c s'.
Proof.
  intros c sched; induction sched as [|[i a] rest IH]; intros s s' Hr H; cbn in *.
  - injection H as <-. exact Hr.
  - destruct (step c s i a) as [s1|] eqn:Hs; [|discriminate].
    eapply IH; [|exact H]. eapply reach_step; eauto.
Qed.

(* ------------------------------------------------------------------ *)
(* a failure is never lost: the parent raises                          *)
Definition is_failed (x : stripe) : bool := match s_pc x with Failed => true | _ => false end.
Definition has_failed (s : state) : bool := existsb is_failed (stripes s).

Lemma parent_outcome_failed s : has_failed s = true -> parent_outcome s = Raise.
Proof. unfold has_failed, parent_outcome, is_failed. intros ->. reflexivity. Qed.

Lemma existsb_nth {A} (f : A -> bool) l :
  existsb f l = true <-> exists j x, nth_error l j = Some x /\ f x = true.
Proof.
  rewrite existsb_exists. split.
  - intros (x & Hin & Hf). apply In_nth_error in Hin as [j Hj]. eauto.
  - intros (j & x & Hj & Hf). exists x; split; auto. eapply nth_error_In; eauto.
Qed.

Lemma step_keeps_failed c s i a s' :
  step c s i a = Some s' -> has_failed s = true -> has_failed s' = true.
Proof.
  intros H Hf. unfold has_failed in *. apply existsb_nth in Hf as (j & x0 & Hj & Hx0).
  apply existsb_nth. exists j, x0. split; auto.
  assert (Hne : j <> i).
  { intros ->. unfold step in H. rewrite Hj in H. unfold is_failed in Hx0.
    destruct (s_pc x0); try discriminate. destruct a; discriminate. }
  step_inv H x Hx Hpc; cbn [stripes]; rewrite nth_update_neq; auto.
Qed.

Lemma step_fail_failed c s i s' : step c s i Fail = Some s' -> has_failed s' = true.
Proof.
  intros H. unfold has_failed. apply existsb_nth.
  unfold step in H. destruct (nth_error (stripes s) i) as [x|] eqn:Hx; [|discriminate].
  exists i, (set_pc x Failed).
  destruct (s_pc x); try discriminate; injection H as <-; cbn [stripes];
    (split; [eapply nth_update_eq; eauto | reflexivity]).
Qed.

Lemma run_fault_failed : forall c sched s s', run c s sched = Some s' ->
  has_failed s = true \/ has_fault sched = true -> has_failed s' = true.
Proof.
  intros c sched; induction sched as [|[i a] rest IH]; intros s s' H Hor; cbn in *.
  - injection H as <-. destruct Hor as [Hf|Hf]; [auto|discriminate].
  - destruct (step c s i a) as [s1|] eqn:Hs; [|discriminate].
    eapply IH; [exact H|].
    destruct Hor as [Hf|Hf].
    + left. eapply step_keeps_failed; eauto.
    + apply orb_true_iff in Hf as [Hf|Hf]; [|right; exact Hf].
      left. destruct a; try discriminate. eapply step_fail_failed; eauto.
Qed.

Lemma fault_raises : forall c sched s, run c (init c) sched = Some s -> has_fault sched = true ->
  parent_outcome s = Raise.
Proof.
  intros c sched s H Hf. apply parent_outcome_failed. eapply run_fault_failed; eauto.
Qed.

(* ------------------------------------------------------------------ *)
(* the invariant of reachable states of a good configuration           *)
Definition all1 (s : state) : bool := forallb arr1 (stripes s).
Definition all2 (s : state) : bool := forallb arr2 (stripes s).

(* per-stripe coherence, relative to three global facts: a1 = every stripe has arrived at the
   first wait, a2 = every stripe has arrived at the second wait, br = the barrier is broken *)
Definition SI (c : cfg) (a1 a2 br : bool) (x : stripe) : Prop :=
  (arr1 x = true -> bkg_written x = true) /\
  (match s_pc x with Wait1 | Sub | Rms | Wait2 | Mask | Done => arr1 x = true | _ => True end) /\
  (match s_pc x with Wait2 | Mask | Done => arr2 x = true /\ rms_written x = true | _ => True end) /\
  (match s_pc x with Queued | Bkg | Wait1 | Sub | Rms => arr2 x = false /\ masked x = false | _ => True end) /\
  (match s_pc x with Wait2 | Mask => domask c = true | _ => True end) /\
  (s_pc x = Done -> masked x = domask c) /\
  (match s_pc x with Rms | Wait2 | Mask | Done => seen x <> None | _ => True end) /\
  (seen x <> Some false) /\
  (s_pc x = Sub -> a1 = true) /\
  (s_pc x = Mask \/ masked x = true -> a2 = true) /\
  (s_pc x = Failed -> br = true).

Definition Inv (c : cfg) (s : state) : Prop :=
  length (stripes s) = n c /\
  forall j x, nth_error (stripes s) j = Some x -> SI c (all1 s) (all2 s) (broken s) x.

Lemma SI_mono c a1 a2 br a1' a2' br' x :
  SI c a1 a2 br x -> (a1 = true -> a1' = true) -> (a2 = true -> a2' = true) -> (br = true -> br' = true) ->
  SI c a1' a2' br' x.
Proof. unfold SI. intros H M1 M2 M3. intuition. Qed.

Lemma inv_init c : Inv c (init c).
Proof.
  split; [apply repeat_length|].
  intros j x Hj. apply nth_error_In in Hj. cbn in Hj. apply repeat_spec in Hj. subst x.
  unfold SI; cbn. intuition discriminate.
Qed.

Lemma inv_update c s i x y b' :
  Inv c s -> nth_error (stripes s) i = Some x ->
  (arr1 x = true -> arr1 y = true) -> (arr2 x = true -> arr2 y = true) ->
  (broken s = true -> b' = true) ->
  (forall a1' a2', (all1 s = true -> a1' = true) -> (all2 s = true -> a2' = true) -> SI c a1' a2' b' y) ->
  Inv c (mkState (update (stripes s) i y) b').
Proof.
  intros [HL HI] Hx M1 M2 Mb Hy.
  assert (A1 : all1 s = true -> all1 (mkState (update (stripes s) i y) b') = true).
  { unfold all1; cbn [stripes]. eapply forallb_update; eauto. }
  assert (A2 : all2 s = true -> all2 (mkState (update (stripes s) i y) b') = true).
  { unfold all2; cbn [stripes]. eapply forallb_update; eauto. }
  split; cbn [stripes broken].
  - rewrite update_length; auto.
  - intros j z Hj. destruct (Nat.eq_dec j i) as [->|Hne].
    + rewrite (nth_update_eq _ _ x) in Hj by auto. injection Hj as <-. apply Hy; auto.
    + rewrite nth_update_neq in Hj by auto. eapply SI_mono; [eapply HI; eauto | auto ..].
Qed.

(* the key global fact: when a stripe is about to read, all backgrounds are written and no
   stripe has been masked *)
Lemma inv_read_sees_true c s i x :
  Inv c s -> nth_error (stripes s) i = Some x -> s_pc x = Sub ->
  forallb (fun y => bkg_written y && negb (masked y)) (stripes s) = true.
Proof.
  intros [HL HI] Hx Hpc.
  pose proof (HI _ _ Hx) as Sx. unfold SI in Sx. rewrite Hpc in Sx.
  destruct Sx as (_ & _ & _ & [Hx2 _] & _ & _ & _ & _ & HA1 & _).
  specialize (HA1 eq_refl).
  apply forallb_forall. intros z Hz. apply In_nth_error in Hz as [j Hj].
  pose proof (HI _ _ Hj) as Sz. unfold SI in Sz.
  destruct Sz as (Hb & _ & _ & _ & _ & _ & _ & _ & _ & HM & _).
  assert (Hz1 : arr1 z = true) by (eapply forallb_nth; [exact HA1 | exact Hj]).
  rewrite (Hb Hz1). cbn.
  destruct (masked z) eqn:Hm; auto.
  assert (HA2 : all2 s = true) by (apply HM; right; auto).
  assert (arr2 x = true) by (eapply forallb_nth; [exact HA2 | exact Hx]). congruence.
Qed.

Lemma inv_step c s i a s' : good c -> Inv c s -> step c s i a = Some s' -> Inv c s'.
Proof.
  intros (Hn & Hp & Hw1 & Hw2 & Hab) HInv H.
  pose proof HInv as [HL HI].
  assert (Hsee : forall x, nth_error (stripes s) i = Some x -> s_pc x = Sub ->
            forallb (fun y => bkg_written y && negb (masked y)) (stripes s) = true)
    by (intros; eapply inv_read_sees_true; eauto).
  step_inv H x Hx Hpc; pose proof (HI _ _ Hx) as Sx; specialize (Hsee _ eq_refl);
    try apply andb_true_iff in Hguard as [Hg1 Hg2];
    (eapply inv_update; [exact HInv | exact Hx | cbn; auto .. | ]);
    try (rewrite Hab, ?orb_true_r; auto);
    intros a1' a2' A1 A2; unfold SI in *; rewrite Hpc in Sx; cbn in *;
    rewrite ?Hw1, ?Hw2, ?Hab, ?orb_true_r in *;
    try (specialize (Hsee eq_refl); rewrite Hsee);
    try (destruct (domask c) eqn:Hdm); cbn;
    intuition (try discriminate; try congruence).
Qed.

Lemma reachable_inv c s : good c -> reachable c s -> Inv c s.
Proof.
  intros Hg Hr. induction Hr as [|s i a s' Hr IH Hs]; [apply inv_init|eapply inv_step; eauto].
Qed.

Lemma reads_stable : forall c s i x b, good c -> reachable c s ->
  nth_error (stripes s) i = Some x -> seen x = Some b -> b = true.
Proof.
  intros c s i x b Hg Hr Hx Hs. apply reachable_inv in Hr as [_ HI]; auto.
  specialize (HI _ _ Hx). unfold SI in HI.
  destruct b; auto. exfalso. intuition.
Qed.

(* ------------------------------------------------------------------ *)
(* progress                                                            *)
Lemma filter_le_length {A} (f : A -> bool) l : length (filter f l) <= length l.
Proof. induction l as [|h t IH]; cbn; auto. destruct (f h); cbn; lia. Qed.

Lemma filter_lt_length {A} (f : A -> bool) l x :
  In x l -> f x = false -> length (filter f l) < length l.
Proof.
  induction l as [|h t IH]; intros Hin Hf; cbn in *; [contradiction|].
  pose proof (filter_le_length f t) as Hle.
  destruct Hin as [->|Hin].
  - rewrite Hf. lia.
  - specialize (IH Hin Hf). destruct (f h); cbn; lia.
Qed.

Definition is_queued (x : stripe) : bool := match s_pc x with Queued => true | _ => false end.
Definition is_active (x : stripe) : bool :=
  match s_pc x with Bkg | Sub | Rms | Mask => true | _ => false end.
Definition is_wait1 (x : stripe) : bool := match s_pc x with Wait1 => true | _ => false end.

Lemma progress : forall c s, good c -> reachable c s -> final s = false ->
  exists i a s', step c s i a = Some s'.
Proof.
  intros c s Hg Hr Hfin.
  pose proof (reachable_inv _ _ Hg Hr) as [HL HI].
  destruct Hg as (Hn & Hp & Hw1 & Hw2 & Hab).
  (* 1. some stripe is queued: a pool slot is free *)
  destruct (existsb is_queued (stripes s)) eqn:EQ.
  { apply existsb_nth in EQ as (i & x & Hx & Hq). unfold is_queued in Hq.
    destruct (s_pc x) eqn:Hpc; try discriminate.
    assert (Hrun : running s < pool c).
    { unfold running. apply Nat.lt_le_trans with (length (stripes s)); [|lia].
      apply filter_lt_length with x; [eapply nth_error_In; eauto | rewrite Hpc; reflexivity]. }
    apply Nat.ltb_lt in Hrun.
    exists i, Start. unfold step. rewrite Hx, Hpc, Hrun. eauto. }
  (* 2. some stripe is computing: its next action is enabled *)
  destruct (existsb is_active (stripes s)) eqn:EA.
  { apply existsb_nth in EA as (i & x & Hx & Hq). unfold is_active in Hq.
    destruct (s_pc x) eqn:Hpc; try discriminate.
    - exists i, Arrive1. unfold step. rewrite Hx, Hpc. eauto.
    - exists i, Read. unfold step. rewrite Hx, Hpc. eauto.
    - exists i, Arrive2. unfold step. rewrite Hx, Hpc. eauto.
    - exists i, Finish. unfold step. rewrite Hx, Hpc. eauto. }
  (* 3. every unfinished stripe waits at a barrier *)
  assert (Hall : forall j z, nth_error (stripes s) j = Some z ->
            s_pc z = Wait1 \/ s_pc z = Wait2 \/ s_pc z = Done \/ s_pc z = Failed).
  { intros j z Hz.
    assert (Q : is_queued z = false).
    { destruct (is_queued z) eqn:E; auto.
      assert (existsb is_queued (stripes s) = true) by (apply existsb_nth; eauto). congruence. }
    assert (A : is_active z = false).
    { destruct (is_active z) eqn:E; auto.
      assert (existsb is_active (stripes s) = true) by (apply existsb_nth; eauto). congruence. }
    unfold is_queued, is_active in *. destruct (s_pc z); try discriminate; auto. }
  assert (Hunf : exists i x, nth_error (stripes s) i = Some x /\ finished (s_pc x) = false).
  { unfold final in Hfin.
    assert (E : existsb (fun x => negb (finished (s_pc x))) (stripes s) = true).
    { clear - Hfin. induction (stripes s) as [|h t IH]; cbn in *; [discriminate|].
      destruct (finished (s_pc h)); cbn in *; auto. }
    apply existsb_nth in E as (i & x & Hx & Hq). exists i, x. split; auto.
    destruct (finished (s_pc x)); auto; discriminate. }
  destruct Hunf as (i & x & Hx & Hxf).
  destruct (broken s) eqn:Hbr.
  { (* broken barrier: the waiter gets BrokenBarrierError *)
    exists i, Break. unfold step. rewrite Hx, Hbr.
    destruct (Hall _ _ Hx) as [E|[E|[E|E]]]; rewrite E in *; try discriminate; eauto. }
  (* nobody has failed *)
  assert (Hnf : forall j z, nth_error (stripes s) j = Some z ->
            s_pc z = Wait1 \/ s_pc z = Wait2 \/ s_pc z = Done).
  { intros j z Hz. destruct (Hall _ _ Hz) as [E|[E|[E|E]]]; auto.
    exfalso. specialize (HI _ _ Hz). unfold SI in HI.
    destruct HI as (_ & _ & _ & _ & _ & _ & _ & _ & _ & _ & HF). specialize (HF E). congruence. }
  destruct (existsb is_wait1 (stripes s)) eqn:EW.
  { (* someone at the first wait, everybody has arrived there *)
    apply existsb_nth in EW as (k & y & Hy & Hq). unfold is_wait1 in Hq.
    destruct (s_pc y) eqn:Hpc; try discriminate.
    assert (HA : forallb arr1 (stripes s) = true).
    { apply forallb_forall. intros z Hz. apply In_nth_error in Hz as [j Hj].
      pose proof (HI _ _ Hj) as Sz. unfold SI in Sz. destruct Sz as (_ & S2 & _).
      destruct (Hnf _ _ Hj) as [E|[E|E]]; rewrite E in S2; auto. }
    exists k, Pass1. unfold step. rewrite Hy, Hpc, Hbr, HA. cbn. eauto. }
  { (* everybody is at the second wait or done *)
    assert (Hnw : forall j z, nth_error (stripes s) j = Some z -> s_pc z = Wait2 \/ s_pc z = Done).
    { intros j z Hz. destruct (Hnf _ _ Hz) as [E|[E|E]]; auto.
      exfalso. assert (existsb is_wait1 (stripes s) = true).
      { apply existsb_nth. exists j, z. split; auto. unfold is_wait1. rewrite E. reflexivity. }
      congruence. }
    assert (HA : forallb arr2 (stripes s) = true).
    { apply forallb_forall. intros z Hz. apply In_nth_error in Hz as [j Hj].
      pose proof (HI _ _ Hj) as Sz. unfold SI in Sz. destruct Sz as (_ & _ & S3 & _).
      destruct (Hnw _ _ Hj) as [E|E]; rewrite E in S3; tauto. }
    exists i, Pass2. unfold step. rewrite Hx, Hbr, HA.
    destruct (Hnw _ _ Hx) as [E|E]; rewrite E in *; try discriminate. cbn. eauto. }
Qed.

(* ------------------------------------------------------------------ *)
(* fault-free complete runs all end in the same state                  *)
Definition NoFail (s : state) : Prop :=
  broken s = false /\ forall j z, nth_error (stripes s) j = Some z -> s_pc z <> Failed.

Lemma nofail_init c : NoFail (init c).
Proof.
  split; [reflexivity|]. intros j z Hj. apply nth_error_In in Hj. cbn in Hj.
  apply repeat_spec in Hj. subst z. discriminate.
Qed.

Lemma step_nofail c s i a s' :
  step c s i a = Some s' -> (match a with Fail => false | _ => true end) = true ->
  NoFail s -> NoFail s'.
Proof.
  intros H Ha [Hb Hnf].
  step_inv H x Hx Hpc; try discriminate Ha; try congruence;
    (split; cbn [broken stripes]; [exact Hb|]);
    intros j z Hj; (destruct (Nat.eq_dec j i) as [->|Hne];
      [ rewrite (nth_update_eq _ _ x) in Hj by auto; injection Hj as <-; cbn;
        repeat match goal with |- context [if ?b then _ else _] => destruct b end; discriminate
      | rewrite nth_update_neq in Hj by auto; eapply Hnf; eauto ]).
Qed.

Lemma run_nofail : forall c sched s s', run c s sched = Some s' -> has_fault sched = false ->
  NoFail s -> NoFail s'.
Proof.
  intros c sched; induction sched as [|[i a] rest IH]; intros s s' H Hf Hn; cbn in *.
  - injection H as <-. exact Hn.
  - destruct (step c s i a) as [s1|] eqn:Hs; [|discriminate].
    apply orb_false_iff in Hf as [Hf1 Hf2].
    eapply IH; [exact H | exact Hf2 |]. eapply step_nofail; eauto.
    destruct a; auto; discriminate.
Qed.

Lemma fault_free_final : forall c sched s, good c -> run c (init c) sched = Some s -> final s = true ->
  has_fault sched = false -> s = final_state c.
Proof.
  intros c sched s Hg Hrun Hfin Hnf.
  assert (Hr : reachable c s) by (eapply run_reachable; [apply reach_init | exact Hrun]).
  pose proof (reachable_inv _ _ Hg Hr) as [HL HI].
  pose proof (run_nofail _ _ _ _ Hrun Hnf (nofail_init c)) as [Hb HF].
  destruct s as [l b]. cbn [stripes broken] in *. subst b. unfold final_state. f_equal.
  rewrite <- HL. apply all_eq_repeat. intros x Hin.
  unfold final in Hfin. cbn [stripes] in Hfin. rewrite forallb_forall in Hfin.
  pose proof (Hfin _ Hin) as Hx. apply In_nth_error in Hin as [j Hj].
  pose proof (HF _ _ Hj) as Hx'. pose proof (HI _ _ Hj) as Sx. unfold SI in Sx.
  destruct x as [p x1 x2 xb xr xm xs]. cbn in *.
  destruct p; try discriminate; try congruence.
  destruct Sx as (S1 & S2 & (S3 & S3') & _ & _ & S6 & S7 & S8 & _).
  unfold done_stripe. rewrite S2, S3, S3', (S1 S2), (S6 eq_refl).
  destruct xs as [[|]|]; congruence.
Qed.

(* ------------------------------------------------------------------ *)
(* stripe layout                                                       *)
Section Layout.
Local Open Scope Z_scope.

(* l is a chain of non-empty consecutive intervals from lo to hi *)
Fixpoint tiles (lo : Z) (l : list (Z * Z)) (hi : Z) : Prop :=
  match l with
  | [] => lo = hi
  | (a, b) :: t => a = lo /\ a < b /\ tiles b t hi
  end.

Lemma range_step_fuel : forall f lo hi st, 1 <= st -> hi - lo <= Z.of_nat f ->
  range_step lo hi st f = range_step lo hi st (S f).
Proof.
  induction f as [|f IH]; intros lo hi st Hst Hf.
  - cbn. destruct (lo <? hi) eqn:E; auto. apply Z.ltb_lt in E. lia.
  - cbn [range_step]. destruct (lo <? hi) eqn:E; auto. f_equal.
    apply IH; auto. lia.
Qed.

Lemma range_step_nil lo hi st f : hi <= lo -> range_step lo hi st f = [].
Proof.
  intros H. destruct f; cbn; auto. destruct (lo <? hi) eqn:E; auto. apply Z.ltb_lt in E. lia.
Qed.

Lemma range_step_S_lt lo hi st f : lo < hi ->
  range_step lo hi st (S f) = lo :: range_step (lo + st) hi st f.
Proof. intros H. apply Z.ltb_lt in H. cbn [range_step]. rewrite H. reflexivity. Qed.

Lemma tiles_range : forall f lo hi st, 1 <= st -> lo < hi -> hi - lo <= Z.of_nat f ->
  tiles lo (combine (range_step lo hi st f) (range_step (lo + st) hi st f ++ [hi])) hi.
Proof.
  induction f as [|f IH]; intros lo hi st Hst Hlt Hf; [lia|].
  rewrite <- (range_step_fuel f (lo + st)) by lia.
  rewrite (range_step_S_lt lo) by exact Hlt.
  destruct (Z_lt_le_dec (lo + st) hi) as [Hlt2|Hge].
  - specialize (IH (lo + st) hi st Hst Hlt2 ltac:(lia)).
    assert (E : range_step (lo + st) hi st f ++ [hi]
                = (lo + st) :: (range_step (lo + st + st) hi st f ++ [hi])).
    { destruct f as [|f']; [lia|]. rewrite (range_step_S_lt (lo + st)) by exact Hlt2.
      rewrite <- (range_step_fuel f' (lo + st + st)) by lia. reflexivity. }
    rewrite E.
    remember (range_step (lo + st) hi st f) as T.
    remember (range_step (lo + st + st) hi st f ++ [hi]) as T2.
    cbn [combine tiles]. split; [reflexivity|]. split; [lia|]. exact IH.
  - rewrite range_step_nil by lia. cbn. repeat split; auto.
Qed.

Lemma layout_is_tiles rows w : 1 <= rows -> 1 <= w -> tiles 0 (layout rows w) rows.
Proof.
  intros Hr Hw. unfold layout, ymins, ymaxs.
  apply (tiles_range (Z.to_nat rows) 0 rows w); lia.
Qed.

Lemma tiles_bounds : forall l lo hi k a b, tiles lo l hi -> nth_error l k = Some (a, b) ->
  lo <= a /\ a < b /\ b <= hi.
Proof.
  induction l as [|[a0 b0] t IH]; intros lo hi k a b Ht Hk.
  - destruct k; discriminate.
  - cbn in Ht. destruct Ht as (-> & Hab & Ht). destruct k as [|k]; cbn in Hk.
    + injection Hk as -> ->. split; [lia|]. split; [auto|].
      destruct t as [|[a1 b1] t']; cbn in Ht; [lia|].
      destruct Ht as (-> & ? & Ht). specialize (IH _ _ 0%nat _ _ (conj eq_refl (conj H Ht)) eq_refl). lia.
    + specialize (IH _ _ _ _ _ Ht Hk). lia.
Qed.

Lemma tiles_last : forall l lo hi, tiles lo l hi -> l <> [] ->
  exists a, nth_error l (length l - 1) = Some (a, hi).
Proof.
  induction l as [|[a0 b0] t IH]; intros lo hi Ht Hne; [congruence|].
  cbn in Ht. destruct Ht as (-> & Hab & Ht).
  destruct t as [|p t'].
  - cbn in Ht. subst. exists lo. reflexivity.
  - destruct (IH _ _ Ht ltac:(discriminate)) as [a Ha]. exists a.
    cbn [length] in *. replace (S (S (length t')) - 1)%nat with (S (S (length t') - 1))%nat by lia.
    exact Ha.
Qed.

Lemma tiles_consecutive : forall l lo hi k a b a' b', tiles lo l hi ->
  nth_error l k = Some (a, b) -> nth_error l (S k) = Some (a', b') -> a' = b.
Proof.
  induction l as [|[a0 b0] t IH]; intros lo hi k a b a' b' Ht Hk Hk'.
  - destruct k; discriminate.
  - cbn in Ht. destruct Ht as (-> & Hab & Ht). destruct k as [|k].
    + cbn in Hk, Hk'. injection Hk as -> ->.
      destruct t as [|[a1 b1] t']; [discriminate|]. cbn in Hk'. injection Hk' as -> ->.
      cbn in Ht. tauto.
    + eapply IH; eauto.
Qed.

Lemma layout_tiles : forall rows w, 1 <= rows -> 1 <= w ->
  layout rows w <> [] /\
  (exists b, nth_error (layout rows w) 0 = Some (0, b)) /\
  (exists a, nth_error (layout rows w) (length (layout rows w) - 1) = Some (a, rows)) /\
  (forall k a b, nth_error (layout rows w) k = Some (a, b) -> a < b) /\
  (forall k a b a' b', nth_error (layout rows w) k = Some (a, b) ->
                       nth_error (layout rows w) (S k) = Some (a', b') -> a' = b).
Proof.
  intros rows w Hr Hw. pose proof (layout_is_tiles rows w Hr Hw) as Ht.
  assert (Hne : layout rows w <> []).
  { intros E. rewrite E in Ht. cbn in Ht. lia. }
  split; [exact Hne|]. split; [|split; [|split]].
  - destruct (layout rows w) as [|[a b] t]; [congruence|]. cbn in Ht. destruct Ht as (-> & _).
    exists b. reflexivity.
  - eapply tiles_last; eauto.
  - intros k a b Hk. eapply tiles_bounds in Hk; eauto. lia.
  - intros k a b a' b' Hk Hk'. eapply tiles_consecutive; eauto.
Qed.

Lemma tiles_cover : forall l lo hi r, tiles lo l hi -> lo <= r < hi ->
  exists k a b, nth_error l k = Some (a, b) /\ a <= r < b /\
    forall k' a' b', nth_error l k' = Some (a', b') -> a' <= r < b' -> k' = k.
Proof.
  induction l as [|[a0 b0] t IH]; intros lo hi r Ht Hr.
  - cbn in Ht. lia.
  - cbn in Ht. destruct Ht as (-> & Hab & Ht).
    destruct (Z_lt_le_dec r b0) as [Hlt|Hge].
    + exists 0%nat, lo, b0. split; [reflexivity|]. split; [lia|].
      intros [|k'] a' b' Hk' Hr'; auto. cbn in Hk'.
      pose proof (tiles_bounds _ _ _ _ _ _ Ht Hk'). lia.
    + destruct (IH _ _ r Ht ltac:(lia)) as (k & a & b & Hk & Hab' & Hu).
      exists (S k), a, b. split; [exact Hk|]. split; [exact Hab'|].
      intros [|k'] a' b' Hk' Hr'.
      * cbn in Hk'. injection Hk' as <- <-. lia.
      * f_equal. eapply Hu; eauto.
Qed.

Lemma row_in_one_stripe : forall rows w r, 1 <= rows -> 1 <= w -> 0 <= r < rows ->
  exists k a b, nth_error (layout rows w) k = Some (a, b) /\ a <= r < b /\
    forall k' a' b', nth_error (layout rows w) k' = Some (a', b') -> a' <= r < b' -> k' = k.
Proof.
  intros rows w r Hr Hw Hrr. eapply tiles_cover; [apply layout_is_tiles; auto | exact Hrr].
Qed.

End Layout.

(* ------------------------------------------------------------------ *)
(* what the hypotheses of `good` buy: explicit bad schedules           *)
Definition Wst : stripe := mkStripe Wait1 true false true false false None.
Definition Fst : stripe := mkStripe Failed false false false false false None.
Definition busyb (x : stripe) : bool := busy (s_pc x).

Lemma filter_busy_fresh k : filter busyb (repeat fresh k) = [].
Proof. induction k; cbn; auto. Qed.

Lemma filter_busy_W k : filter busyb (repeat Wst k) = repeat Wst k.
Proof. induction k; cbn; auto. now rewrite IHk. Qed.

Lemma running_app_fresh pre k br : running (mkState (pre ++ repeat fresh k) br) <= length pre.
Proof.
  unfold running. cbn [stripes]. fold busyb. rewrite filter_app, filter_busy_fresh, app_nil_r.
  apply filter_le_length.
Qed.

Lemma step_start_mid c pre t br :
  running (mkState (pre ++ fresh :: t) br) < pool c ->
  step c (mkState (pre ++ fresh :: t) br) (length pre) Start
  = Some (mkState (pre ++ set_pc fresh Bkg :: t) br).
Proof.
  intros H. apply Nat.ltb_lt in H. unfold step. cbn [stripes broken].
  rewrite nth_app_mid. cbn [s_pc fresh]. rewrite H, update_app_mid. reflexivity.
Qed.

Lemma step_arrive1_mid c pre t br :
  w1 c = true ->
  step c (mkState (pre ++ set_pc fresh Bkg :: t) br) (length pre) Arrive1
  = Some (mkState (pre ++ Wst :: t) br).
Proof.
  intros H. unfold step. cbn [stripes broken]. rewrite nth_app_mid. cbn. rewrite H, update_app_mid.
  reflexivity.
Qed.

(* start stripes |pre| .. |pre|+k-1 one after the other and let each arrive at the first wait *)
Lemma fill_reach c : w1 c = true -> forall k pre m br,
  length pre + k <= pool c ->
  reachable c (mkState (pre ++ repeat fresh (k + m)) br) ->
  reachable c (mkState (pre ++ repeat Wst k ++ repeat fresh m) br).
Proof.
  intros Hw1. induction k as [|k IH]; intros pre m br Hlen Hr; [exact Hr|].
  cbn [repeat Nat.add app] in *.
  assert (E : pre ++ Wst :: repeat Wst k ++ repeat fresh m
              = (pre ++ [Wst]) ++ repeat Wst k ++ repeat fresh m)
    by (rewrite <- app_assoc; reflexivity).
  rewrite E. apply IH; [rewrite app_length; cbn; lia|].
  rewrite <- app_assoc. cbn [app].
  eapply reach_step; [|apply step_arrive1_mid; exact Hw1].
  eapply reach_step; [exact Hr|]. apply step_start_mid.
  pose proof (running_app_fresh pre (S (k + m)) br) as Hrun. cbn [repeat] in Hrun. lia.
Qed.

Lemma forallb_arr1_W k : forallb arr1 (repeat Wst k) = true.
Proof. induction k; cbn; auto. Qed.

Lemma small_pool_deadlocks : forall c, 1 <= pool c -> pool c < n c -> w1 c = true ->
  exists s, reachable c s /\ final s = false /\ forall i a, step c s i a = None.
Proof.
  intros c Hp Hn Hw1.
  exists (mkState (repeat Wst (pool c) ++ repeat fresh (n c - pool c)) false).
  split; [|split].
  - apply (fill_reach c Hw1 (pool c) [] (n c - pool c) false); [cbn; lia|].
    cbn [app]. replace (pool c + (n c - pool c)) with (n c) by lia. apply reach_init.
  - unfold final. cbn [stripes]. destruct (pool c) as [|p]; [lia|]. reflexivity.
  - intros i a. unfold step. cbn [stripes broken].
    destruct (nth_error _ i) as [x|] eqn:Hx; [|reflexivity].
    apply nth_error_In in Hx. apply in_app_or in Hx as [Hx|Hx]; apply repeat_spec in Hx; subst x.
    + destruct a; try reflexivity. cbn [s_pc Wst].
      destruct (n c - pool c) as [|m] eqn:Em; [lia|].
      rewrite forallb_app. cbn [repeat forallb arr1 fresh]. rewrite andb_false_r. reflexivity.
    + destruct a; try reflexivity. cbn [s_pc fresh].
      unfold running. cbn [stripes]. fold busyb.
      rewrite filter_app, filter_busy_fresh, filter_busy_W, app_nil_r, repeat_length.
      rewrite Nat.ltb_irrefl. reflexivity.
Qed.

Lemma no_abort_hangs : forall c, 2 <= n c -> n c <= pool c -> w1 c = true -> abrt c = false ->
  exists s, reachable c s /\ final s = false /\ forall i a, step c s i a = None.
Proof.
  intros c Hn Hp Hw1 Hab.
  exists (mkState ([Fst] ++ repeat Wst (n c - 1) ++ repeat fresh 0) false).
  split; [|split].
  - apply (fill_reach c Hw1 (n c - 1) [Fst] 0 false); [cbn; lia|].
    replace (n c - 1 + 0) with (n c - 1) by lia.
    assert (R0 : reachable c (mkState ([] ++ fresh :: repeat fresh (n c - 1)) false)).
    { cbn [app]. change (fresh :: repeat fresh (n c - 1)) with (repeat fresh (S (n c - 1))).
      replace (S (n c - 1)) with (n c) by lia. apply reach_init. }
    apply (reach_step c (mkState ([] ++ set_pc fresh Bkg :: repeat fresh (n c - 1)) false) 0 Fail).
    + apply (reach_step c _ 0 Start _ R0). apply (step_start_mid c []).
      pose proof (running_app_fresh [] (S (n c - 1)) false) as Hrun. cbn [repeat length] in Hrun. lia.
    + unfold step. cbn. rewrite Hab. reflexivity.
  - unfold final. cbn [stripes]. destruct (n c - 1) as [|p] eqn:E; [lia|]. reflexivity.
  - intros i a. unfold step. cbn [stripes broken].
    destruct (nth_error _ i) as [x|] eqn:Hx; [|reflexivity].
    apply nth_error_In in Hx. rewrite app_nil_r in Hx.
    apply in_app_or in Hx as [Hx|Hx].
    + destruct Hx as [<-|[]]. destruct a; reflexivity.
    + apply repeat_spec in Hx; subst x. destruct a; reflexivity.
Qed.

Lemma no_second_wait_races : forall c, 2 <= n c -> n c <= pool c -> w1 c = true -> w2 c = false ->
  domask c = true ->
  exists s i x, reachable c s /\ nth_error (stripes s) i = Some x /\ seen x = Some false.
Proof.
  intros c Hn Hp Hw1 Hw2 Hdm.
  assert (R0 : reachable c (mkState (repeat Wst (n c)) false)).
  { pose proof (fill_reach c Hw1 (n c) [] 0 false) as H. cbn [app length] in H.
    rewrite app_nil_r, Nat.add_0_r in H. apply H; [lia|apply reach_init]. }
  destruct (n c) as [|[|n']] eqn:En; [lia|lia|]. cbn [repeat] in R0.
  pose (sched := [(0, Pass1); (0, Read); (0, Arrive2); (0, Finish); (1, Pass1); (1, Read)]).
  assert (Hrun : exists s, run c (mkState (Wst :: Wst :: repeat Wst n') false) sched = Some s /\
            exists x, nth_error (stripes s) 1 = Some x /\ seen x = Some false).
  { unfold sched. cbn [run]. unfold step. cbn. rewrite forallb_arr1_W. cbn.
    rewrite Hdm, Hw2. cbn. rewrite forallb_arr1_W. cbn.
    eexists; split; [reflexivity|]. cbn. eexists; split; reflexivity. }
  destruct Hrun as (s & Hs & x & Hx & Hseen).
  exists s, 1, x. split; [|split; auto]. eapply run_reachable; eauto.
Qed.

(* the parent terminates the pool when a stripe fails *)
Lemma terminate_true : terminate_on_failure = true.
Proof. reflexivity. Qed.
