(* C16: a concrete invertible WCS (linear, 0.01 degree pixels, reference pixel (5, 5) at (10, 0)) and concrete inputs
   that satisfy every hypothesis of the C16 round-trip theorems (non-vacuity). *)
From Coq Require Import Reals ZArith Lra.
From Aegean Require Import Lib.RBase Gen.Sphere Lib.Sphere Gen.WcsHelper Model.WcsHelper Proofs.WcsHelperProofs.
Open Scope R_scope.

Definition exP (p : pt) : pt := (10 - (fst p - 5) / 100, (snd p - 5) / 100).
Definition exS (s : pt) : pt := (5 - (fst s - 10) * 100, 5 + snd s * 100).

Lemma exSP p : exS (exP p) = p.
Proof. destruct p as [a b]. unfold exS, exP; cbn [fst snd]. f_equal; field. Qed.
Lemma exPS s : same_sky (exP (exS s)) s.
Proof.
  replace (exP (exS s)) with s; [apply same_sky_refl|].
  destruct s as [a b]. unfold exS, exP; cbn [fst snd]. f_equal; field.
Qed.

Lemma rad_90 : rad 90 = PI / 2.
Proof. unfold rad; field. Qed.
Lemma rad_m90 : rad (-90) = - (PI / 2).
Proof. unfold rad; field. Qed.

(* on the equator: due north, due east, due west *)
Lemma translate_equator_north ra r : 0 < r < 90 -> translate ra 0 r 0 = (ra, r).
Proof.
  intros Hr. pose proof PI_RGT_0 as HPI. rewrite translate_eq. unfold tr_y, tr_x, tr_factor.
  rewrite rad_0, sin_0, cos_0.
  assert (Hrr : 0 < rad r < PI / 2) by (unfold rad; split; nra).
  replace (0 * cos (rad r) + 1 * sin (rad r) * 1) with (sin (rad r)) by ring.
  replace (0 * sin (rad r) * 1) with 0 by ring.
  replace (cos (rad r) - 0 * sin (rad r)) with (cos (rad r)) by ring.
  rewrite atan2_0_pos by (apply cos_gt_0; lra). rewrite asin_sin by lra. rewrite deg_0, deg_rad. f_equal. ring.
Qed.
Lemma translate_equator_east ra r : 0 < r < 180 -> translate ra 0 r 90 = (ra + r, 0).
Proof.
  intros Hr. pose proof PI_RGT_0 as HPI. rewrite translate_eq. unfold tr_y, tr_x, tr_factor.
  rewrite rad_0, sin_0, cos_0, rad_90, sin_PI2, cos_PI2.
  assert (Hrr : 0 < rad r < PI) by (unfold rad; split; nra).
  replace (0 * cos (rad r) + 1 * sin (rad r) * 0) with 0 by ring.
  replace (1 * sin (rad r) * 1) with (1 * sin (rad r)) by ring.
  replace (cos (rad r) - 0 * 0) with (1 * cos (rad r)) by ring.
  rewrite atan2_polar by lra. rewrite asin_0, deg_0, deg_rad. reflexivity.
Qed.
Lemma translate_equator_west ra r : 0 < r < 180 -> translate ra 0 r (-90) = (ra - r, 0).
Proof.
  intros Hr. pose proof PI_RGT_0 as HPI. rewrite translate_eq. unfold tr_y, tr_x, tr_factor.
  rewrite rad_0, sin_0, cos_0, rad_m90, sin_neg, cos_neg, sin_PI2, cos_PI2.
  assert (Hrr : 0 < rad r < PI) by (unfold rad; split; nra).
  replace (0 * cos (rad r) + 1 * sin (rad r) * 0) with 0 by ring.
  replace (- (1) * sin (rad r) * 1) with (1 * sin (- rad r)) by (rewrite sin_neg; ring).
  replace (cos (rad r) - 0 * 0) with (1 * cos (- rad r)) by (rewrite cos_neg; ring).
  rewrite atan2_polar by lra. rewrite asin_0, deg_0.
  replace (deg (- rad r)) with (- r) by (unfold deg, rad; field; lra). reflexivity.
Qed.

(* vectors: every hypothesis of C16_vec_roundtrip at pos = (10, 0), r = 1, pa = 90 *)
Lemma example_vec :
  (forall s, True -> same_sky (exP (exS s)) s) /\
  let pos := (10, 0) in let r := 1 in let pa := 90 in
  -90 < snd pos < 90 /\ -90 < snd (translate (fst pos) (snd pos) r pa) < 90 /\ 0 < r < 180 /\ -180 < pa <= 180.
Proof.
  split; [intros s _; apply exPS|]. cbv zeta. cbn [fst snd]. rewrite translate_equator_east by lra. cbn [snd]. lra.
Qed.

(* ellipses: every hypothesis of C16_ellipse_roundtrip_partial at pos = (10, 0), a = 2, b = 1, pa = 0 *)
Lemma example_ellipse :
  let pos := (10, 0) in let a := 2 in let b := 1 in let pa := 0 in
  let qa := translate (fst pos) (snd pos) a pa in
  let qb := translate (fst pos) (snd pos) b (pa - 90) in
  let qc := translate (fst pos) (snd pos) b (pa + 90) in
  let X := m_sky2pix exS pos in let A := m_sky2pix exS qa in let B := m_sky2pix exS qb in
  -90 < snd pos < 90 /\ -90 < snd qa < 90 /\ 0 < a < 180 /\
  -90 < snd qb < 90 /\ -90 < snd qc < 90 /\ 0 < b < 180 /\ -180 < pa <= 180 /\
  (fst B - fst X) * (fst A - fst X) + (snd B - snd X) * (snd A - snd X) = 0 /\
  same_sky (m_pix2sky exP (2 * fst X - fst B, 2 * snd X - snd B)) qc.
Proof.
  cbv zeta. cbn [fst snd].
  replace (0 - 90) with (-90) by ring. replace (0 + 90) with 90 by ring.
  rewrite translate_equator_north, translate_equator_west, translate_equator_east by lra.
  change (m_sky2pix exS) with (fits_sky2pix exS). change (m_pix2sky exP) with (fits_pix2sky exP).
  rewrite !fits_sky2pix_eq. unfold exS; cbn [fst snd]. rewrite fits_pix2sky_eq. unfold exP; cbn [fst snd].
  do 8 (split; [lra|]).
  split; cbn [fst snd]; [lra | exists 0%Z; lra].
Qed.
